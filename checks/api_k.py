"""Correspondence for the integrator assembly (C04) and helpers shared with C05."""
import os, sys, shutil, itertools
from vcommon import *
import gen


def rand_system(rng, maxl, natoms=None, nshells=None, necps=None, lmax=None):
    natoms = natoms or rng.randint(1, 4)
    lmax = maxl - 2 if lmax is None else lmax
    # well separated atoms
    pts = []
    while len(pts) < natoms:
        p = [rng.uniform(-2.5, 2.5) for _ in range(3)]
        if all(sum((a - b) ** 2 for a, b in zip(p, q)) > 0.8 ** 2 for q in pts):
            pts.append(p)
    nshells = nshells or rng.randint(1, 6)
    necps = necps or rng.randint(1, 3)
    shell_at = [rng.randint(0, natoms - 1) for _ in range(nshells)]
    ecp_at = [rng.randint(0, natoms - 1) for _ in range(necps)]
    shells = [gen.rand_shell(rng, rng.randint(0, lmax), pts[a], nprim=rng.randint(1, 2), emin=0.2, emax=8.0) for a in shell_at]
    ecps = [gen.rand_ecp(rng, rng.randint(0, min(3, maxl)), pts[a], nper=(1, 1), amin=0.3, amax=6.0) for a in ecp_at]
    return shells, ecps, shell_at, ecp_at


def first_appearance_ids(shell_at, ecp_at):
    m = {}
    out = []
    for a in list(shell_at) + list(ecp_at):
        if a not in m:
            m[a] = len(m)
        out.append(m[a])
    return out[:len(shell_at)], out[len(shell_at):], len(m)


def pattern(a, b, c):
    """weak ordering pattern of (Aix,Bix,Cix)"""
    vals = sorted(set([a, b, c]))
    return "".join(str(vals.index(x)) for x in (a, b, c))


def make_cases(rng, tier, maxl):
    cases = []
    n = 0
    plan = []
    if tier == "quick":
        plan = [(0, 10), (1, 14), (2, 14)]
    else:
        plan = [(0, 60), (1, 120), (2, 120)]
    for order, cnt in plan:
        for _ in range(cnt):
            lmax = maxl - max(order, 2) if order == 2 else maxl - 2
            sh, ec, sa, ea = rand_system(rng, maxl, lmax=max(0, min(lmax, 2 if order == 2 else 3)),
                                        nshells=rng.randint(1, 4 if order == 2 else 6))
            cases.append({"id": "sys%d_o%d" % (n, order), "extra": {"order": order}, "shells": sh, "ecps": ec,
                          "_sa": sa, "_ea": ea})
            n += 1
    # targeted: every weak-ordering pattern of (Aix,Bix,Cix) on <=3 atoms, s/p shells, order 2
    pats = [(0, 0, 0), (0, 0, 1), (0, 1, 0), (1, 0, 0), (0, 1, 1), (1, 0, 1), (1, 1, 0),
            (0, 1, 2), (0, 2, 1), (1, 0, 2), (1, 2, 0), (2, 0, 1), (2, 1, 0)]
    for k, (a, b, c) in enumerate(pats):
        # a system whose first-appearance numbering realises Aix=a,Bix=b,Cix=c for the (s1=last, s2=first.. ) pairs:
        # shells placed so that atom numbers 0,1,2 appear in order via leading dummy s shells
        natoms = max(a, b, c) + 1
        pts = [[1.3 * i, 0.4 * i * i, -0.7 * i] for i in range(3)]
        lead = [gen.rand_shell(rng, 0, pts[i], nprim=1, emin=0.3, emax=3.0) for i in range(natoms)]
        shA = gen.rand_shell(rng, rng.randint(0, 1), pts[a], nprim=1, emin=0.3, emax=3.0)
        shB = gen.rand_shell(rng, rng.randint(0, 1), pts[b], nprim=1, emin=0.3, emax=3.0)
        # s2<=s1: put B before A so that the (A,B) pair is visited with s1=A
        shells = lead + [shB, shA]
        ecps = [gen.rand_ecp(rng, rng.randint(1, 2), pts[c], nper=(1, 1), amin=0.3, amax=4.0)]
        cases.append({"id": "pat%d%d%d" % (a, b, c), "extra": {"order": 2}, "shells": shells, "ecps": ecps,
                      "_sa": list(range(natoms)) + [b, a], "_ea": [c]})
    # screened stratum: one atom beyond every ECP's screening radius (every (shell, ECP) pair of its shells is masked by the API screen),
    # listed first / in the middle / last among the shells; the rows and columns of those shells must stay zero AND keep their place
    reps = 1 if tier == "quick" else 6
    for order in (0, 1, 2):
        for pos in ("first", "middle", "last", "two-far"):
            for _ in range(reps):
                near = [[0.0, 0.0, 0.0], [1.6, 0.7, -0.5]]
                far = [[38.0 + rng.uniform(0, 9), -27.0 - rng.uniform(0, 9), 31.0 + rng.uniform(0, 9)], [-41.0, 36.0 + rng.uniform(0, 5), 33.0]]
                lm = 1 if order == 2 else 2
                nsh = [(gen.rand_shell(rng, rng.randint(0, lm), near[a], nprim=rng.randint(1, 2), emin=0.3, emax=6.0), a) for a in (0, 1, 0)]
                fsh = [(gen.rand_shell(rng, rng.randint(0, lm), far[0], nprim=1, emin=0.8, emax=6.0), 2)]
                if pos == "two-far":
                    fsh.append((gen.rand_shell(rng, rng.randint(0, lm), far[1], nprim=1, emin=0.8, emax=6.0), 3))
                if pos == "first":
                    lst = fsh + nsh
                elif pos == "last":
                    lst = nsh + fsh
                elif pos == "middle":
                    lst = nsh[:1] + fsh + nsh[1:]
                else:
                    lst = fsh[:1] + nsh[:2] + fsh[1:] + nsh[2:]
                ecps = [gen.rand_ecp(rng, rng.randint(1, 2), near[0], nper=(1, 1), amin=0.4, amax=4.0),
                        gen.rand_ecp(rng, rng.randint(0, 2), near[1], nper=(1, 1), amin=0.4, amax=4.0)]
                cases.append({"id": "scr%d_%s_o%d" % (n, pos, order), "extra": {"order": order}, "shells": [x[0] for x in lst], "ecps": ecps,
                              "_sa": [x[1] for x in lst], "_ea": [0, 1]})
                n += 1
    return cases


def hist_patterns(cases):
    h = {}
    for c in cases:
        sid, eid, nat = first_appearance_ids(c["_sa"], c["_ea"])
        for s1 in range(len(sid)):
            for s2 in range(s1 + 1):
                for e in eid:
                    p = pattern(sid[s1], sid[s2], e)
                    h[p] = h.get(p, 0) + 1
    return h


def run_driver(cases, tmp, tol="1e-12"):
    cf = os.path.join(tmp, "cases.txt"); of = os.path.join(tmp, "out.txt")
    gen.write_cases(cf, cases)
    exe = compile_driver("drv_api.cpp", "rel")
    rc, out = sh([exe, cf, of], timeout=7200, check=False)
    if rc != 0:
        raise RuntimeError("drv_api failed rc=%d\n%s" % (rc, out[-3000:]))
    rc, out = sh([os.path.join(OCAML, "drv_api"), of, tol], timeout=7200, check=False)
    summ = [l for l in out.splitlines() if l.startswith("SUMMARY")]
    if rc != 0 or not summ:
        raise RuntimeError("model driver failed rc=%d\n%s" % (rc, out[-3000:]))
    mism = [l for l in out.splitlines() if l.startswith("MISMATCH")]
    m = dict(kv.split("=") for kv in summ[0].split()[1:])
    return mism, m


def run_k(res, tier):
    root = build_lib("rel")
    maxl = int(re.search(r"#define LIBECPINT_MAX_L (\d+)", open(os.path.join(root, "b/include/libecpint/config.hpp")).read()).group(1))
    rng = SplitMix(seed() * 1000 + 4)
    cases = make_cases(rng, tier, maxl)
    tmp = scratch_dir()
    try:
        mism, m = run_driver(cases, tmp)
        res.add("evaluations", int(m["cases"]))
        res.add("entries_compared", int(m["compared"]))
        res.cov["nonzero_entries"] = int(m["nonzero"])
        res.cov["shells_masked_against_every_ecp"] = int(m.get("masked_shells", 0))
        h = hist_patterns(cases)
        res.cov["atom_pattern_histogram (Aix,Bix,Cix weak order -> number of (s1,s2,ecp) triples)"] = h
        res.cov["distinct_nontrivial"] = len(set((c["extra"]["order"], tuple(c["_sa"]), tuple(c["_ea"]), tuple(s["l"] for s in c["shells"])) for c in cases))
        res.cov["order_histogram"] = {str(o): sum(1 for c in cases if c["extra"]["order"] == o) for o in (0, 1, 2)}
        for c in cases[:2] + cases[-1:]:
            res.sample({"id": c["id"], "order": c["extra"]["order"], "shell_l": [s["l"] for s in c["shells"]],
                        "shell_atoms": c["_sa"], "ecp_atoms": c["_ea"]})
        bad = {}
        for l in mism:
            bad.setdefault(l.split()[1], []).append(l)
        by_id = {c["id"]: c for c in cases}
        return [(by_id[cid], lines) for cid, lines in bad.items()]
    finally:
        shutil.rmtree(tmp, ignore_errors=True)
