"""C01 — shell-pair ECP integrals equal the exact matrix elements."""
import os, sys, shutil, math
from vcommon import *
import tab_k
import gen, pair_k

PID = "C01"
LEVEL = "proof"


def make_cases(rng, tier, maxl):
    cases = []
    def add(tag, LA, LB, L, gk, **kw):
        A, B, C = gen.geometry(rng, gk)
        sa = gen.rand_shell(rng, LA, A, nprim=kw.get("np", rng.randint(1, 2)), emin=kw.get("emin", 0.25), emax=kw.get("emax", 4.0))
        sb = gen.rand_shell(rng, LB, B, nprim=kw.get("np", rng.randint(1, 2)), emin=kw.get("emin", 0.25), emax=kw.get("emax", 4.0))
        u = gen.rand_ecp(rng, L, C, nper=(1, 2), amin=0.3, amax=6.0)
        cases.append({"id": "%s%d_%d%d%d_%s" % (tag, len(cases), LA, LB, L, gk.replace("=", "").replace("~", "n").replace("-", "")), "extra": {"geom": gk, "stratum": tag}, "shells": [sa, sb], "ecps": [u]})
    hi = 2 if tier == "quick" else min(maxl, 4)
    for LA in range(hi + 1):
        for LB in range(hi + 1):
            for L in range(0, 3 if tier == "quick" else min(maxl, 4) + 1):
                if tier == "quick" and (LA + LB + L) > 5:
                    continue
                for gk in (["distinct", "A=C", "B=C"] if tier == "quick" else gen.GEOMS):
                    add("c", LA, LB, L, gk)
    # higher classes, sampled
    for _ in range(6 if tier == "quick" else 60):
        add("h", rng.randint(2, min(maxl, 4)), rng.randint(0, min(maxl, 4)), rng.randint(0, min(maxl, 3)), rng.choice(["distinct", "distinct", "A=C"]), np=1)
    # diffuse / tight mixtures (closed-form switch, small aA)
    for _ in range(8 if tier == "quick" else 80):
        add("d", rng.randint(0, 2), rng.randint(0, 2), rng.randint(1, 2), "distinct", emin=0.03, emax=0.4)
    # special positions: planar / linear arrangements along the Cartesian axes
    for _ in range(8 if tier == "quick" else 60):
        add("p", rng.randint(1, 2), rng.randint(1, 2), rng.randint(1, 2), rng.choice(["planar-z", "planar-x", "planar-y", "axial"]))
    # one shell just off the ECP centre (beyond the 1e-6 on-centre switch): the general three-centre path must be taken
    for _ in range(10 if tier == "quick" else 80):
        add("n", rng.randint(0, 2), rng.randint(0, 2), rng.randint(1, 2), rng.choice(["A~C", "B~C"]))
    # local potentials that change sign inside the integration window (type-1 prescreen)
    for k in range(6 if tier == "quick" else 40):
        z = rng.uniform(0.85, 1.05)
        ex = rng.uniform(10.0, 22.0)
        C = [0.0, 0.0, 0.0]
        P = [x * z for x in gen.rand_dir(rng)]
        l = rng.randint(0, 1)
        sa = {"l": l, "c": P, "e": [ex], "d": [1.0]}
        sb = {"l": 0, "c": list(P) if k % 2 == 0 else [x * z for x in gen.rand_dir(rng)], "e": [ex * rng.uniform(0.8, 1.2)], "d": [1.0]}
        u = {"c": C, "p": [{"n": 2, "l": 0, "a": 3.0, "d": 5.0}, {"n": 2, "l": 0, "a": 0.5, "d": -2.0}]}
        cases.append({"id": "m%d_%d00_sign" % (len(cases), l), "extra": {"geom": "distinct", "stratum": "m"}, "shells": [sa, sb], "ecps": [u]})
    # a tight purely local potential against diffuse shells: the local-part integrand is a narrow spike near the ECP centre
    for k in range(6 if tier == "quick" else 40):
        C = [0.0, 0.0, 0.0]
        if k % 2 == 0:
            P = [0.0, 0.0, 0.0]; ex = rng.loguniform(0.01, 0.1)
        else:
            P = [x * rng.uniform(1.0, 1.8) for x in gen.rand_dir(rng)]; ex = rng.uniform(0.6, 1.5)
        sa = {"l": 0, "c": list(P), "e": [ex], "d": [1.0]}
        sb = {"l": 0, "c": list(P), "e": [ex * rng.uniform(0.8, 1.2)], "d": [1.0]}
        u = {"c": C, "p": [{"n": 2, "l": 0, "a": rng.loguniform(300.0, 2000.0), "d": rng.uniform(1.0, 5.0)}]}
        cases.append({"id": "t%d_000_tightlocal" % len(cases), "extra": {"geom": "A=B=C" if k % 2 == 0 else "A=B", "stratum": "t"}, "shells": [sa, sb], "ecps": [u]})
    # a purely local potential labelled with the build's HIGHEST angular momentum: the semi-local channels are empty and the local part sits
    # at l = MAX_L, i.e. in the last l_starts range of the ECP object (cheap for the oracle: no projector)
    for k in range(3 if tier == "quick" else 12):
        A, B, C = gen.geometry(rng, "distinct")
        sa = gen.rand_shell(rng, rng.randint(0, 1), A, nprim=1, emin=0.3, emax=2.0)
        sb = gen.rand_shell(rng, rng.randint(0, 1), B, nprim=1, emin=0.3, emax=2.0)
        u = {"c": C, "p": [{"n": 2, "l": maxl, "a": rng.uniform(0.4, 2.0), "d": rng.uniform(1.0, 4.0)},
                           {"n": rng.choice([0, 1, 2]), "l": maxl, "a": rng.uniform(0.3, 1.5), "d": -rng.uniform(0.5, 2.0)}]}
        cases.append({"id": "L%d_%d%d%d_toplocal" % (len(cases), sa["l"], sb["l"], maxl), "extra": {"geom": "distinct", "stratum": "L"}, "shells": [sa, sb], "ecps": [u]})
    return cases


def run_ka(res, tier, root, maxl, rng, tmp):
    """tight skeleton correspondence: ShellPairModel (extracted) fed with the library's own leaves"""
    sys.path.insert(0, os.path.join(VERIF, "translators"))
    import t_gen
    gd = t_gen.extract(os.path.join(root, "b/src/generated"))
    cases = []
    hi = maxl if tier == "thorough" else 3
    geoms = ["distinct", "A=C", "B=C", "A=B=C", "A=B", "A~C", "B~C", "planar-z", "planar-x", "axial"]
    for LA in range(hi + 1):
        for LB in range(hi + 1):
            for gk in geoms:
                Ls = range(0, maxl + 1) if tier == "thorough" else sorted(set([rng.randint(0, min(maxl, 3)), rng.randint(1, 2)]))
                for L in Ls:
                    A, B, C = gen.geometry(rng, gk)
                    sa = gen.rand_shell(rng, LA, A, nprim=rng.randint(1, 2), emin=0.3, emax=5.0); sb = gen.rand_shell(rng, LB, B, nprim=rng.randint(1, 2), emin=0.3, emax=5.0)
                    u = gen.rand_ecp(rng, L, C, nper=(1, 2), amin=0.3, amax=6.0)
                    extra = {}
                    for l in range(L):
                        key = (min(LA, LB), max(LA, LB), l)
                        g = gd["classes"].get(key)
                        if g:
                            extra["tri_%d_A" % l] = " ".join("%d,%d,%d" % t for t in g["A"]) or "-"
                            extra["tri_%d_B" % l] = " ".join("%d,%d,%d" % t for t in g["B"]) or "-"
                            extra["nbase_%d" % l] = g["callA"][0]
                    cases.append({"id": "k%d_%d%d%d_%s" % (len(cases), LA, LB, L, gk.replace("=", "").replace("~", "n").replace("-", "")), "extra": extra, "shells": [sa, sb], "ecps": [u]})
    cf = os.path.join(tmp, "ka_cases.txt"); gen.write_cases(cf, cases)
    exe = compile_driver("drv_pairleaf.cpp", "rel")
    of = os.path.join(tmp, "ka_out.txt")
    rc, out = sh([exe, cf, of, str(maxl), str(maxl)], check=False, timeout=7200)
    if rc != 0:
        raise RuntimeError("drv_pairleaf failed: " + out[-1500:])
    aexe = compile_driver("drv_angular.cpp", "rel"); om = os.path.join(tmp, "tables.bin")
    sh([aexe, "tables", str(maxl), str(maxl), om], timeout=600)
    rc, out = sh([os.path.join(OCAML, "drv_pairleaf"), of, om, "1e-10"], check=False, timeout=7200)
    summ = [l for l in out.splitlines() if l.startswith("SUMMARY")]
    if rc != 0 or not summ:
        raise RuntimeError("drv_pairleaf (model) failed: " + out[-1500:])
    kv = dict(x.split("=") for x in summ[0].split()[1:])
    res.cov["skeleton_cases"] = int(kv["cases"]); res.cov["skeleton_entries_compared"] = int(kv["compared"]); res.cov["skeleton_nonzero"] = int(kv["nonzero"])
    res.cov["skeleton_branch_histogram"] = {l.split()[1]: int(l.split()[2]) for l in out.splitlines() if l.startswith("BRANCH")}
    mm = [l for l in out.splitlines() if l.startswith("MISMATCH")]
    by = {c["id"]: c for c in cases}
    seen = set()
    for l in mm:
        cid = l.split()[1]
        if cid in seen or len(seen) >= 3:
            continue
        seen.add(cid)
        c = by.get(cid, {})
        res.violation("ka-" + cid, {"theorem_or_correspondence": "ShellPairModel (extracted) fed with the library's own radial/angular leaves vs compute_shell_pair (1e-10 x max)",
                                    "input": {k: v for k, v in c.items() if k != "extra"}, "observed": [x for x in mm if x.split()[1] == cid][:6], "n": len(mm)})
    return len(cases)


def coef_scale(c):
    return sum(abs(x) for x in c["shells"][0]["d"]) * sum(abs(x) for x in c["shells"][1]["d"]) * sum(abs(p["d"]) for p in c["ecps"][0]["p"])


def run(tier, replay=None):
    res = Result(PID, tier, LEVEL)
    res.cov["rule"] = ("proof obligations: Properties_C01.v. Correspondence with the DEFINITION: compute_shell_pair vs a brute-force evaluation of "
                       "int phi_A U phi_B (angular product grids x radial Gauss-Legendre panels, harmonics from the proved polynomials; no Bessel functions, "
                       "recursion, tables or screening) that validates itself by refinement (else 'oracle-inconclusive'); tolerance 2e-5 max|block| + 1e-9 "
                       "prod sum|c|. Classes exhaustive up to the tier's bound x geometries (distinct, A=C, B=C[, A=B, A=B=C]) + sampled higher classes + "
                       "diffuse exponents + sign-changing local potentials. Deviations are re-evaluated with the tail cut / screens / type-1 abandon "
                       "decision forced the other way (hooks) and attributed to recorded findings only if that removes them")
    ok = coq_properties(res, PID)
    tab_ok, tab_fail = tab_k.obligations(res, PID)
    if not ok:
        proof_broken(res, PID, "Properties_C01.v no longer checks")
    root = build_lib("rel")
    maxl = int(re.search(r"#define LIBECPINT_MAX_L (\d+)", open(os.path.join(root, "b/include/libecpint/config.hpp")).read()).group(1))
    rng = SplitMix(seed() * 1000 + 1)
    cases = make_cases(rng, tier, maxl)
    tmp = scratch_dir()
    try:
        nka = run_ka(res, tier, root, maxl, rng, tmp)
        impl, _ = pair_k.run_pairs(cases, tmp)
        spec = pair_k.run_spec(cases, tmp)
        active = set(k.get("id") for k in load_known() if k.get("status") == "known")
        ninc = 0; viol = []; kn = {}
        strata = {}
        for c in cases:
            cid = c["id"]; strata[c["extra"]["stratum"]] = strata.get(c["extra"]["stratum"], 0) + 1
            s = spec[cid]["spec"][2]; sd, sscale = spec[cid]["selfdev"][2]
            if sd > 1e-9 * max(sscale, 1e-300) + 1e-13:
                ninc += 1; continue
            v = impl[cid]["v_d"][2]
            if len(v) != len(s):
                viol.append((cid, "block shape differs", None)); continue
            tol = 2e-5 * max(max(abs(x) for x in s), max(abs(x) for x in v)) + 1e-9 * coef_scale(c)
            dev = lambda key: max(abs(x - y) for x, y in zip(impl[cid][key][2], s))
            d0 = dev("v_d")
            if d0 <= tol:
                continue
            cause = None
            for key, fid in (("v_nt", "F-C12-tailcut"), ("v_ns", "F-C12-screen"), ("v_nsnt", "F-C12-tailcut+F-C12-screen"), ("v_all", "F-C01-type1-abandon"), ("v_fq", "F-C12-closedform"), ("v_qd1", "F-C15-coincidence"), ("v_qd", "F-C15-premature"),
                             # two recorded findings at once (thorough tier, c570_424: one primitive loses its tail, another is accepted by coincidence)
                             ("v_qd1nt", "F-C12-tailcut+F-C15-coincidence")):
                if key in impl[cid] and dev(key) <= tol:
                    cause = fid; break
            if cause and all(f in active for f in cause.split("+")):
                kn.setdefault(cause, []).append((cid, d0, tol))
            else:
                viol.append((cid, "max deviation %.3e > tolerance %.3e (scale %.3e); trace %s; restored by: %s" % (d0, tol, max(abs(x) for x in s), impl[cid].get("trace"), cause), c))
        res.cov["evaluations"] = len(cases) + nka; res.cov["oracle_inconclusive"] = ninc
        res.cov["distinct_nontrivial"] = len(set((c["shells"][0]["l"], c["shells"][1]["l"], max(p["l"] for p in c["ecps"][0]["p"]), c["extra"]["geom"], c["extra"]["stratum"]) for c in cases))
        res.cov["stratum_histogram"] = strata
        res.cov["traces_validated_against_impl"] = len(cases) - ninc
        res.cov["known_finding_cases"] = {k: len(v) for k, v in kn.items()}
        for c in cases[:2] + cases[-1:]:
            res.sample({"id": c["id"], "LA": c["shells"][0]["l"], "LB": c["shells"][1]["l"], "A": c["shells"][0]["c"], "expsA": c["shells"][0]["e"]})
        for fid, lst in kn.items():
            w = max(lst, key=lambda t: t[1])
            res.known("%s: %d shell-pair blocks deviate from the defining integral and are restored by forcing the other branch (largest: %s dev %.2e tol %.2e)" % (fid, len(lst), w[0], w[1], w[2]))
        for cid, msg, c in viol[:3]:
            res.violation("pair-" + cid, {"theorem_or_correspondence": "compute_shell_pair block = defining integral (2e-5 max|block| + 1e-9 prod sum|c|)",
                                          "input": {k: v for k, v in (c or {}).items() if k != "extra"}, "observed": msg, "n_violations": len(viol),
                                          "oracle": {"grade": "G3", "what": "brute-force angular x radial quadrature of the definition, two refinement levels agree to 1e-9"}})
    finally:
        shutil.rmtree(tmp, ignore_errors=True)
    res.assumptions += ["the equality 'model = integral' off-centre is compared, not proved (partial)",
                        "G3 oracle in OCaml doubles; cases whose two refinement levels disagree are counted as oracle-inconclusive, never alarmed",
                        "the oracle resolves moderate exponents/distances only; the extremes of the property's ranges are covered at the primitive level by C12"]
    tab_k.report(res, PID, tab_ok, tab_fail)
    return res.finish()
