"""C02 — analytic first derivatives (assembly layer)."""
import os, sys
from vcommon import *
import tab_k
import deriv_k

PID = "C02"
LEVEL = "proof"
ORDER = 1


def run(tier, replay=None, pid=PID, order=ORDER):
    res = Result(pid, tier, LEVEL)
    res.cov["rule"] = ("proof obligations: theorems of Properties_%s.v; correspondence: every (LA,LB<=MAX_L-%d, geometry in "
                       "{distinct,A=B,A=C,B=C,A=B=C}) class x sampled lambda_max (thorough: all), plus L1-threshold geometries; "
                       "a case is distinct by (LA,LB,lambda_max,geometry); the extracted Coq model re-assembles every output "
                       "entry of the derivative routines from the library's own shifted shell-pair blocks and must agree to "
                       "1e-12 x largest entry" % (pid, order))
    ok = coq_properties(res, pid)
    tab_ok, tab_fail = tab_k.obligations(res, pid)
    if not ok and not res.violations:
        proof_broken(res, pid, "Properties_%s.v no longer checks" % pid)
    bad = deriv_k.run_k(res, order, tier)
    res.cov["traces_validated_against_impl"] = res.cov.get("evaluations", 0)
    for case, lines in bad[:5]:
        res.violation("k-" + case["id"], {
            "theorem_or_correspondence": "DerivModel (extracted) vs derivative assembly of ecpint.cpp",
            "input": case, "mismatches": lines[:20],
            "note": "the model re-assembles the routine's output from the library's own shifted blocks; a mismatch means the "
                    "assembly (index, clamp, coefficient, branch or block layout) differs from the proved model",
            "cmd": "bin/check %s --tier %s" % (pid, tier)})
    res.assumptions += [
        "shifted shell-pair blocks are taken from the library itself (C01 contract); numerical truth of those blocks is C01/C12",
        "extraction by ExtrOcamlBasic; OCaml double arithmetic in the driver",
        "differentiation under the integral sign and the Gaussian derivative rule D1 link the formal rule to the geometric derivative (DESIGN 5/C02)"]
    tab_k.report(res, pid, tab_ok, tab_fail)
    return res.finish()
