"""C03 — analytic second derivatives (assembly layer)."""
import c02
PID = "C03"
LEVEL = "proof"


def run(tier, replay=None):
    return c02.run(tier, replay, pid=PID, order=2)
