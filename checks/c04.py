"""C04 — integrator assembly."""
from vcommon import *
import tab_k
import api_k

PID = "C04"
LEVEL = "proof"


def run(tier, replay=None):
    res = Result(PID, tier, LEVEL)
    res.cov["rule"] = ("proof obligations: theorems of Properties_C04.v (H_START packing for all N, first-derivative scatter, atom "
                       "ids). Correspondence: random systems (1-4 atoms, 1-6 shells, 1-3 ECPs on atoms with/without shells, "
                       "interleaved order, derivative order 0/1/2) plus one targeted system for each of the 13 weak orderings of "
                       "(Aix,Bix,Cix); the extracted ApiModel recomputes atom ids from the coordinates and re-assembles every "
                       "entry of integrals / first_derivs / second_derivs from the integrator's own low-level blocks (1e-12 x "
                       "largest entry); a system is distinct by (order, atom assignment of shells and ECPs, shell momenta)")
    ok = coq_properties(res, PID)
    tab_ok, tab_fail = tab_k.obligations(res, PID)
    if not ok and not res.violations:
        proof_broken(res, PID, "Properties_C04.v no longer checks")
    bad = api_k.run_k(res, tier)
    res.cov["traces_validated_against_impl"] = res.cov.get("evaluations", 0)
    for case, lines in bad[:5]:
        c = {k: v for k, v in case.items() if not k.startswith("_")}
        res.violation("k-" + case["id"], {
            "theorem_or_correspondence": "ApiModel (extracted) vs ECPIntegrator assembly (api.cpp)",
            "input": c, "shell_atoms": case["_sa"], "ecp_atoms": case["_ea"], "mismatches": lines[:20],
            "cmd": "bin/check C04 --tier %s" % tier})
    res.assumptions += [
        "low-level blocks are taken from the integrator's own engine (C01-C03 contract)",
        "atoms of a generated system are at least 0.8 bohr apart and shells/ECPs of one atom have bit-identical coordinates "
        "(the 1e-4 atom matching vs 1e-6 low-level coincidence gap is outside the property's quantifier)",
        "the API-level screening mask is recomputed in the driver with the public shell_bound (screening itself is C06)",
        "extraction by ExtrOcamlBasic; OCaml doubles"]
    tab_k.report(res, PID, tab_ok, tab_fail)
    return res.finish()
