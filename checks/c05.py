"""C05 — results depend only on the current inputs, not on the call history."""
import os, sys, shutil, itertools
sys.path.insert(0, os.path.join(os.path.dirname(os.path.abspath(__file__)), "..", "translators"))
from vcommon import *
import gen, t_api

PID = "C05"
LEVEL = "proof"
ALPHA = ["US", "UE", "CI", "CF", "CS", "IN"]


def concretise(h):
    """give each update the next coordinate version (1,2,3,1,...) so repeated updates really move; UB (a whole-atom move: the shells and
    the ECP of the moving atoms are updated one call after the other, nothing is computed in between) expands to US<v> UE<v>"""
    out = []; ns = ne = 0
    for o in h:
        if o == "UB":
            ns = ne = max(ns, ne) + 1; v = 1 + (ns - 1) % 3
            out += ["US%d" % v, "UE%d" % v]
        elif o == "US":
            ns += 1; out.append("US%d" % (1 + (ns - 1) % 3))
        elif o == "UE":
            ne += 1; out.append("UE%d" % (1 + (ne - 1) % 3))
        else:
            out.append(o)
    return out


def system(rng):
    p0, p1, p2 = [0.0, 0.0, 0.0], [1.9, 0.3, -0.4], [-0.6, 1.7, 0.8]
    shells = [gen.rand_shell(rng, 0, p0, nprim=2, emin=0.3, emax=4.0), gen.rand_shell(rng, 1, p0, nprim=1, emin=0.3, emax=4.0),
              gen.rand_shell(rng, 1, p1, nprim=1, emin=0.3, emax=4.0)]
    ecps = [gen.rand_ecp(rng, 1, p0, nper=(1, 1), amin=0.4, amax=3.0), gen.rand_ecp(rng, 2, p2, nper=(1, 1), amin=0.4, amax=3.0)]
    extra = {"mshell": [2], "mecp": [1]}
    return {"id": "sys", "extra": extra, "shells": shells, "ecps": ecps,
            "_disp": [(1, 31.0, 17.0, -24.0), (2, 0.11, -0.07, 0.05), (3, 0.06, 0.12, -0.1)]}      # version 1 moves beyond every screening radius, version 2 comes back: both crossings occur within the exhaustive lengths


def system_far_start(rng):
    """the same arrangement, but the integrator is BUILT with the movable shell and the movable ECP beyond every screening radius;
    version 1 and 2 bring them next to the others, version 3 is far again: whatever init() derives from the geometry must be refreshed"""
    D = (-31.0, -17.0, 24.0)
    ns, ne = [1.9, 0.3, -0.4], [-0.6, 1.7, 0.8]
    p0 = [0.0, 0.0, 0.0]
    p1 = [a - d for a, d in zip(ns, D)]          # US adds disp to the shell
    p2 = [a + d for a, d in zip(ne, D)]          # UE subtracts disp from the ECP
    shells = [gen.rand_shell(rng, 0, p0, nprim=2, emin=0.3, emax=4.0), gen.rand_shell(rng, 1, p0, nprim=1, emin=0.3, emax=4.0),
              gen.rand_shell(rng, 1, p1, nprim=1, emin=0.3, emax=4.0)]
    ecps = [gen.rand_ecp(rng, 1, p0, nper=(1, 1), amin=0.4, amax=3.0), gen.rand_ecp(rng, 2, p2, nper=(1, 1), amin=0.4, amax=3.0)]
    return {"id": "sysfar", "extra": {"mshell": [2], "mecp": [1]}, "shells": shells, "ecps": ecps,
            "_disp": [(1, D[0], D[1], D[2]), (2, D[0] + 0.11, D[1] - 0.07, D[2] + 0.05), (3, 0.06, 0.12, -0.1)], "_alpha": ALPHA, "_natoms": 3}


def system_cyclic(rng):
    """three atoms, each with a shell and an ECP, the ECPs listed in a cyclic order (atoms 1, 2, 0) relative to the shells; atoms 1 and 2
    move as whole atoms (UB): any internal re-ordering of the ECPs must be invisible to update_ecp_basis_coords"""
    p = [[0.0, 0.0, 0.0], [1.9, 0.3, -0.4], [-0.6, 1.7, 0.8]]
    shells = [gen.rand_shell(rng, 0, p[0], nprim=2, emin=0.3, emax=4.0), gen.rand_shell(rng, 1, p[1], nprim=1, emin=0.3, emax=4.0),
              gen.rand_shell(rng, 0, p[2], nprim=1, emin=0.3, emax=4.0)]
    ecps = [gen.rand_ecp(rng, 1, p[1], nper=(1, 1), amin=0.4, amax=3.0), gen.rand_ecp(rng, 2, p[2], nper=(1, 1), amin=0.4, amax=3.0),
            gen.rand_ecp(rng, 1, p[0], nper=(1, 1), amin=0.4, amax=3.0)]
    return {"id": "syscyc", "extra": {"mshell": [1], "mecp_plus": [0]}, "shells": shells, "ecps": ecps,
            "_disp": [(1, 0.35, -0.2, 0.15), (2, -0.25, 0.3, 0.1), (3, 0.1, 0.15, -0.3)], "_alpha": ["UB", "CI", "CF", "CS", "IN"], "_natoms": 3}


def write_system(path, s):
    gen.write_cases(path, [s])
    # disp lines need repeating keys: append manually inside the case
    txt = open(path).read().replace("end\n", "".join("disp %d %r %r %r\n" % d for d in s["_disp"]) + "end\n")
    open(path, "w").write(txt)


def histories(rng, tier, alpha=ALPHA, short=False):
    hs = []
    maxlen = 4 if tier == "quick" else 5       # with the six-letter alphabet: 1554 / 9330 histories
    if short:
        maxlen -= 1
    for n in range(1, maxlen + 1):
        for h in itertools.product(alpha, repeat=n):
            hs.append(list(h))
    nrand, lmax = (150, 14) if tier == "quick" else (2000, 40)
    if short:
        nrand //= 5
    ups = [a for a in alpha if a.startswith("U")]
    for _ in range(nrand):
        n = rng.randint(maxlen + 1, lmax)
        # compute-heavy random histories
        hs.append([rng.choice(ups + ["CI", "CF", "CF", "CS", "CS"] + (["IN"] if "IN" in alpha else [])) for _ in range(n)])
    return hs, maxlen


def run(tier, replay=None):
    res = Result(PID, tier, LEVEL)
    res.cov["rule"] = ("proof obligations: Properties_C05.v + the per-run obligation discipline_ok(from_source)=true over the "
                       "discipline T-api reads from api.cpp. Correspondence: every history over {update shells, update ECPs, "
                       "compute integrals, compute first, compute second} up to the stated length (exhaustive) plus random "
                       "longer ones, executed on one long-lived integrator; after EVERY step all three containers are compared "
                       "with the trace the extracted history model predicts (formal sums of fresh-integrator evaluations), and "
                       "after every compute with a fresh integrator at the current coordinates (the property). distinct = distinct op sequences")
    rng = SplitMix(seed() * 1000 + 5)
    # --- translator + per-run obligation
    d = t_api.extract(REPO)
    res.cov["discipline_from_source"] = d
    os.makedirs(os.path.join(COQ, "gen"), exist_ok=True)
    t_api.emit(d, os.path.join(COQ, "gen", "ApiDiscipline.v"))
    with open(os.path.join(COQ, "gen", "Obl_C05.v"), "w") as f:
        f.write("From Coq Require Import List Arith.\nImport ListNotations.\nFrom LV Require Import History.HistoryModel History.HistoryProofs gen.ApiDiscipline.\n"
                "Theorem discipline_resetting : discipline_ok from_source = true.\nProof. vm_compute. reflexivity. Qed.\n"
                "Theorem C05_holds_for_source : forall natoms h, let s := run from_source natoms h in\n"
                "  firsts (step from_source natoms s CompFirst) = repeat [(sv s, ev s)] (3 * natoms).\n"
                "Proof. intros natoms h. exact (proj1 (proj2 (history_independent from_source natoms discipline_resetting h))). Qed.\n"
                "Print Assumptions C05_holds_for_source.\n"
                "(* the integrator has exactly the data members the state model abstracts (a new member is new state the model\n"
                "   knows nothing about: the theorem above would no longer be about this class) *)\n"
                "Theorem members_ok : members_from_source = modelled_members.\nProof. vm_compute. reflexivity. Qed.\n")
    ok = coq_properties(res, PID)
    coq_make(["History/HistoryProofs.vo"])
    rc1, o1 = coqc("gen/ApiDiscipline.v")
    rc2, o2 = coqc("gen/Obl_C05.v") if rc1 == 0 else (1, o1)
    res.cov["obligations"] += 2
    obligation_ok = (rc1 == 0 and rc2 == 0)
    if obligation_ok:
        res.cov["discharged"] += 2
    else:
        res.cov["obligation_error"] = (o1 + o2)[-800:]
    # --- correspondence + property on the implementation
    hs, maxlen = histories(rng, tier)
    sysm = system(rng); sysm["_alpha"] = ALPHA; sysm["_natoms"] = 3
    sfar = system_far_start(rng); scyc = system_cyclic(rng)
    plans = [(sysm, hs), (sfar, histories(rng, tier, sfar["_alpha"], short=True)[0]), (scyc, histories(rng, tier, scyc["_alpha"], short=True)[0])]
    tmp = scratch_dir()
    try:
        exe = compile_driver("drv_hist.cpp", "rel")
        import subprocess
        mm, pv = [], []
        steps = entries = 0
        by = {}; sys_of = {}
        allhs = []
        for si, (sm_, hs_) in enumerate(plans):
            sysf = os.path.join(tmp, "system%d.txt" % si); write_system(sysf, sm_)
            natoms = sm_["_natoms"]
            nshard = min(NPROC, 16)
            shards = [[] for _ in range(nshard)]
            for i, h in enumerate(hs_):
                hid = "%sh%d" % ("" if si == 0 else "s%d" % si, i)
                shards[i % nshard].append((hid, concretise(h)))
                by[hid] = concretise(h); sys_of[hid] = sm_
                allhs.append(h)
            procs = []
            for k, sh_ in enumerate(shards):
                hf = os.path.join(tmp, "hist%d_%d.txt" % (si, k)); pf = os.path.join(tmp, "pred%d_%d.txt" % (si, k)); of = os.path.join(tmp, "out%d_%d.txt" % (si, k))
                with open(hf, "w") as f:
                    for hid, ops in sh_:
                        f.write(hid + " " + " ".join(ops) + "\n")
                cmd = "%s %s %s %s %d %s > %s && %s %s %s %s" % (os.path.join(OCAML, "drv_hist"), d["d_int"], d["d_first"], d["d_second"], natoms, hf, pf, exe, sysf, pf, of)
                procs.append((subprocess.Popen(cmd, shell=True, stdout=subprocess.PIPE, stderr=subprocess.STDOUT), of))
            for p, of in procs:
                out, _ = p.communicate(timeout=7200)
                if p.returncode != 0:
                    raise RuntimeError("history driver failed: %s" % out.decode()[-2000:])
                for l in open(of):
                    if l.startswith("MODELMISMATCH"):
                        mm.append(l.strip())
                    elif l.startswith("PROPVIOL"):
                        pv.append(l.strip())
                    elif l.startswith("SUMMARY"):
                        kv = dict(x.split("=") for x in l.split()[1:])
                        steps += int(kv["steps"]); entries += int(kv["entries"])
                    elif l.startswith("natoms"):
                        if int(l.split()[1]) != natoms:
                            mm.append("MODELMISMATCH natoms impl=%s expected=%d (system %s)" % (l.split()[1], natoms, sm_["id"]))
        res.cov["systems"] = {sm_["id"]: {"histories": len(hs_), "alphabet": sm_["_alpha"]} for sm_, hs_ in plans}
        hs = allhs
        res.cov["evaluations"] = len(hs)
        res.cov["distinct_nontrivial"] = len(set(tuple(h) for h in hs if any(o.startswith("C") for o in h)))
        res.cov["steps_executed"] = steps
        res.cov["container_entries_compared"] = entries
        res.cov["traces_validated_against_impl"] = len(hs) if not mm else 0
        res.cov["exhaustive_to_length"] = maxlen
        res.cov["length_histogram"] = {}
        for h in hs:
            res.cov["length_histogram"][str(len(h))] = res.cov["length_histogram"].get(str(len(h)), 0) + 1
        for hid in ["h7", "h300", "h%d" % (len(hs) - 1)]:
            if hid in by:
                res.sample({"history": by[hid]})
        # --- verdict
        if pv:
            # shortest violating history is the replay
            best = min(pv, key=lambda l: (len(by[l.split()[1]]), l))
            hid = best.split()[1]
            res.violation("history", {"theorem_or_correspondence": "C05_history_independent (per-run obligation discipline_ok(from_source))",
                                      "input": {"system": {k: v for k, v in sys_of[hid].items() if not k.startswith("_")}, "disp": sys_of[hid]["_disp"], "history": by[hid]},
                                      "observed": [l for l in pv if l.split()[1] == hid][:6],
                                      "discipline_from_source": d, "n_violating_histories": len(set(l.split()[1] for l in pv)),
                                      "cmd": "bin/check C05"})
        elif not obligation_ok:
            res.violation("obligation", {"theorem_or_correspondence": "gen/Obl_C05.v: discipline_ok(from_source) = true (discipline read from api.cpp: %s)" % d,
                                         "detail": res.cov.get("obligation_error", "")}, no_input=True)
        if mm and not pv:
            res.violation("model", {"theorem_or_correspondence": "HistoryModel trace (extracted) vs ECPIntegrator containers after each step",
                                    "mismatches": mm[:20], "discipline_from_source": d}, no_input=True)
        elif mm:
            res.cov["model_mismatches"] = mm[:10]
        if not ok and not res.violations:
            proof_broken(res, PID, "Properties_C05.v no longer checks")
    finally:
        shutil.rmtree(tmp, ignore_errors=True)
    res.assumptions += [
        "coordinate updates keep the atom partition fixed (only a shell-only atom moves under update-shells, only an ECP-only atom under update-ECPs): atom ids are assigned once in init() by design",
        "T-api tokenises api.cpp (which of assign/clear/push_back each compute routine applies first to its own container)",
        "fresh integrators are the reference for 'what the current inputs give'"]
    return res.finish()
