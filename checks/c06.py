"""C06 — prescreening never discards a contribution that matters."""
import os, sys, shutil, math
from vcommon import *
import gen, pair_k, api_k

PID = "C06"
LEVEL = "proof"


def coef_scale(c):
    return sum(abs(x) for x in c["shells"][0]["d"]) * sum(abs(x) for x in c["shells"][1]["d"]) * sum(abs(p["d"]) for p in c["ecps"][0]["p"])


def run(tier, replay=None):
    res = Result(PID, tier, LEVEL)
    res.cov["rule"] = ("proof obligations: Properties_C06.v (screens remove additive terms only; the primitive estimate is evaluated at the stationary point of the envelope). Correspondence: the extracted model of the primitive estimate vs RadialIntegral::estimate_type2 on random, near-centre and decision-region tuples (1e-11). Measured on the implementation, same build, same input: "
                       "every screen active vs every screen bypassed (hooks), |on - off| <= 1e-9 x prod sum|c|, for shell pairs biased to the screening boundary "
                       "(distances 4..40 bohr, tight exponents, small coefficients, high l, diffuse shells near the centre, tight shells far from the centre against diffuse high-l partners) and for integrator matrices of stretched "
                       "systems; a deviation is re-evaluated with ONE site bypassed at a time and attributed to a recorded finding only if bypassing that site alone removes it")
    ok = coq_properties(res, PID)
    if not ok:
        proof_broken(res, PID, "Properties_C06.v no longer checks")
    root = build_lib("rel")
    maxl = int(re.search(r"#define LIBECPINT_MAX_L (\d+)", open(os.path.join(root, "b/include/libecpint/config.hpp")).read()).group(1))
    rng = SplitMix(seed() * 1000 + 6)
    cases = []
    n = 120 if tier == "quick" else 1500
    for k in range(n):
        LA, LB, L = rng.randint(0, maxl), rng.randint(0, maxl), rng.randint(0, maxl)
        C = [0.0, 0.0, 0.0]
        kind = rng.choice(["far", "far", "tight", "diffuse-near", "mixed", "tight-far", "opposite", "both-near-centre"])
        if kind == "both-near-centre":
            # both shells a hair off the ECP centre (beyond the 1e-6 on-centre switch), diffuse: the primitive pairs take the
            # quadrature route and the integrand peaks far from both centres, where an estimate must still evaluate it
            LA = rng.randint(1, min(3, maxl)); LB = rng.randint(0, min(3, maxl)); L = rng.randint(2, min(4, maxl))
            A = [x * rng.loguniform(1e-5, 1e-3) for x in gen.rand_dir(rng)]; B = [x * rng.loguniform(1e-5, 1e-3) for x in gen.rand_dir(rng)]
            sa = gen.rand_shell(rng, LA, A, nprim=1, emin=0.02, emax=0.06); sb = gen.rand_shell(rng, LB, B, nprim=1, emin=0.02, emax=0.06)
            u = gen.rand_ecp(rng, L, [0.0, 0.0, 0.0], nper=(1, 1), amin=0.05, amax=1.0)
            cases.append({"id": "s%d" % k, "extra": {"kind": kind}, "shells": [sa, sb], "ecps": [u]})
            continue
        if kind == "opposite":
            # the two shells on opposite sides of the ECP centre (angle A-C-B near 180 degrees): a semi-local term depends on |A| and |B|,
            # not on |A-B|, so an estimate must not fall off with the distance between the shells
            da = gen.rand_dir(rng); tilt = [0.15 * x for x in gen.rand_dir(rng)]
            dA = rng.uniform(1.0, 3.5); dB = rng.uniform(1.0, 3.5)
            A = [x * dA for x in da]; B = [(-x + t) * dB for x, t in zip(da, tilt)]
            sa = gen.rand_shell(rng, LA, A, nprim=1, emin=1.0, emax=12.0); sb = gen.rand_shell(rng, LB, B, nprim=1, emin=1.0, emax=12.0)
            u = gen.rand_ecp(rng, max(L, 1), [0.0, 0.0, 0.0], nper=(1, 1), amin=0.3, amax=5.0)
            cases.append({"id": "s%d" % k, "extra": {"kind": kind}, "shells": [sa, sb], "ecps": [u]})
            continue
        if kind == "tight-far":
            # a tight low-l shell far from the ECP (a*|A|^2 of several hundred: the separate exponentials of the estimate
            # overflow/underflow) against a diffuse high-l shell on or near the centre and a soft potential
            LA = rng.randint(0, 1); LB = rng.randint(2, maxl); L = rng.randint(1, min(3, maxl))
            ea = rng.loguniform(5.0, 40.0); dA = math.sqrt(rng.uniform(500.0, 2500.0) / ea)
            A = [x * dA for x in gen.rand_dir(rng)]
            B = [0.0, 0.0, 0.0] if rng.randint(0, 1) else [x * rng.uniform(0.05, 1.0) for x in gen.rand_dir(rng)]
            sa = {"l": LA, "c": A, "e": [ea], "d": [rng.uniform(0.5, 1.5)]}
            sb = gen.rand_shell(rng, LB, B, nprim=1, emin=0.008, emax=0.05)
            u = gen.rand_ecp(rng, L, [0.0, 0.0, 0.0], nper=(1, 1), amin=0.03, amax=0.3)
            cases.append({"id": "s%d" % k, "extra": {"kind": kind}, "shells": [sa, sb], "ecps": [u]})
            continue
        dA = rng.uniform(4, 40) if kind in ("far", "mixed") else rng.uniform(0.3, 4)
        dB = rng.uniform(4, 40) if kind == "far" else rng.uniform(0.3, 6)
        A = [x * dA for x in gen.rand_dir(rng)]; B = [x * dB for x in gen.rand_dir(rng)]
        emin, emax = (0.02, 0.5) if kind in ("far", "diffuse-near") else ((20.0, 2000.0) if kind == "tight" else (0.05, 50.0))
        sa = gen.rand_shell(rng, LA, A, nprim=rng.randint(1, 2), emin=emin, emax=emax)
        sb = gen.rand_shell(rng, LB, B, nprim=rng.randint(1, 2), emin=emin, emax=emax)
        if kind == "mixed":
            sb = gen.rand_shell(rng, LB, B, nprim=1, emin=0.02, emax=0.3)
        u = gen.rand_ecp(rng, L, C, nper=(1, 2), amin=0.05, amax=50.0)
        if rng.randint(0, 3) == 0:
            for p in u["p"]:
                p["d"] *= 1e-3
        cases.append({"id": "s%d" % k, "extra": {"kind": kind}, "shells": [sa, sb], "ecps": [u]})
    tmp = scratch_dir()
    try:
        # ---- the primitive estimate itself: extracted model (Radial/EstimateModel.v) vs RadialIntegral::estimate_type2
        tup = []
        def tadd(tag, N, l1, l2, n_, a_, b_, A_, B_):
            tup.append("%s%d %d %d %d %s %s %s %s %s" % (tag, len(tup), N, l1, l2, hexf(n_), hexf(a_), hexf(b_), hexf(A_), hexf(B_)))
        for k in range(400 if tier == "quick" else 6000):
            tadd("r", rng.randint(0, 12), rng.randint(0, 10), rng.randint(0, 10), rng.loguniform(0.03, 50), rng.loguniform(0.005, 500), rng.loguniform(0.005, 500), rng.loguniform(1e-6, 30), rng.loguniform(1e-6, 30))
        for k in range(150 if tier == "quick" else 2000):
            # both centres a hair off the ECP, diffuse primitives, power of r above the Bessel orders: the stationary point lies beyond both centres
            l1 = rng.randint(0, 3); l2 = rng.randint(0, 3)
            tadd("c", l1 + l2 + rng.randint(1, 6), l1, l2, rng.loguniform(0.03, 2), rng.loguniform(0.01, 0.1), rng.loguniform(0.01, 0.1), rng.loguniform(1e-6, 1e-2), rng.loguniform(1e-6, 1e-2))
        for k in range(150 if tier == "quick" else 2000):
            # decision region: estimates within a few decades of the 1e-15 threshold
            l1 = rng.randint(0, 8); l2 = rng.randint(0, 8)
            tadd("d", rng.randint(0, 12), l1, l2, rng.loguniform(0.05, 5), rng.loguniform(0.2, 5), rng.loguniform(0.2, 5), rng.uniform(3, 9), rng.uniform(3, 9))
        tf = os.path.join(tmp, "tuples.txt"); open(tf, "w").write("\n".join(tup) + "\n")
        eexe = compile_driver("drv_est.cpp", "rel"); ef = os.path.join(tmp, "est.txt")
        rc, o = sh([eexe, tf, ef], check=False, timeout=3600)
        if rc != 0:
            raise RuntimeError("drv_est failed: " + o[-1500:])
        rc, eo = sh([os.path.join(OCAML, "drv_est"), ef, "1e-11"], check=False, timeout=3600)
        es = [l for l in eo.splitlines() if l.startswith("SUMMARY")]
        if rc != 0 or not es:
            raise RuntimeError("drv_est (model) failed: " + eo[-1500:])
        ekv = dict(x.split("=") for x in es[0].split()[1:])
        res.cov["primitive_estimates_compared"] = int(ekv["compared"]); res.cov["primitive_estimates_below_threshold"] = int(ekv["below_threshold"])
        emis = [l for l in eo.splitlines() if l.startswith("MISMATCH")]
        tby = {t.split()[0]: t for t in tup}
        for l in emis[:2]:
            tid = l.split()[1]
            res.violation("estimate-" + tid, {"theorem_or_correspondence": "Radial/EstimateModel.prim_estimate (extracted) = RadialIntegral::estimate_type2 (1e-11 relative): the screening estimate is the recorded formula",
                                              "input": {"tuple(id N l1 l2 n a b A B)": tby.get(tid)}, "observed": l, "n": int(ekv["mismatches"])})
        # ---- the per-l shell-pair estimate (ECPIntegral::estimate_type2) against its extracted model, for every pair as given and for the
        #      exponent-weighted, shifted variants the derivative routines build (1e-11 relative): a changed or stale estimate is a violation
        pcf = os.path.join(tmp, "pest_cases.txt"); pof = os.path.join(tmp, "pest.txt")
        pest_cases = [c for c in cases if c["shells"][0]["l"] <= maxl and c["shells"][1]["l"] <= maxl]
        gen.write_cases(pcf, pest_cases)
        pexe = compile_driver("drv_pest.cpp", "rel")
        rc, o = sh([pexe, pcf, pof], check=False, timeout=3600)
        if rc != 0:
            raise RuntimeError("drv_pest failed: " + o[-1500:])
        rc, po = sh([os.path.join(OCAML, "drv_pest"), pof, "1e-11"], check=False, timeout=3600)
        ps_ = [l for l in po.splitlines() if l.startswith("SUMMARY")]
        if rc != 0 or not ps_:
            raise RuntimeError("drv_pest (model) failed: " + po[-1500:])
        pkv = dict(x.split("=") for x in ps_[0].split()[1:])
        res.cov["pair_estimates_compared"] = int(pkv["compared"]); res.cov["pair_estimates_below_threshold"] = int(pkv["below_threshold"]); res.cov["pair_screen_decisions_compared"] = int(pkv.get("decisions", 0))
        pmis = [l for l in po.splitlines() if l.startswith("MISMATCH")]
        cby = {c["id"]: c for c in cases}
        for jj, l in enumerate(pmis[:2]):
            pid_ = l.split()[1]; base = pid_.rsplit("_", 1)[0]
            res.violation("pairestimate%d-%s" % (jj, pid_), {"theorem_or_correspondence": "ShellPair/PairEstimate.pair_estimate (extracted) = ECPIntegral::estimate_type2 (1e-11 relative), for the pair and the exponent-weighted shifted variants of the derivative routines",
                                                   "input": {k: v for k, v in cby.get(base, {}).items() if k != "extra"}, "variant": pid_.rsplit("_", 1)[1], "observed": l, "n": int(pkv["mismatches"])})
        blocks, _ = pair_k.run_pairs(cases, tmp)
        active = set(k.get("id") for k in load_known() if k.get("status") == "known")
        active_ids = active
        viol = []; known = []; nscreened = 0; worst = 0.0; dviol = []; known_l = []
        for c in cases:
            b = blocks[c["id"]]
            on = b["v_d"][2]; off = b["v_ns"][2]
            tr = b.get("trace", [0] * 12)
            if tr[5] or tr[6] or any(x != y for x, y in zip(on, off)):
                nscreened += 1
            tol = 1e-9 * coef_scale(c)
            dv = max(abs(x - y) for x, y in zip(on, off))
            worst = max(worst, dv / tol)
            if dv <= tol:
                continue
            offp = b["v_nsp"][2]; offl = b["v_nsl"][2]
            dvp = max(abs(x - y) for x, y in zip(offp, off)); dvl = max(abs(x - y) for x, y in zip(offl, off))
            if dvp <= tol and "F-C12-screen" in active:
                known.append((c["id"], dv, tol))
            elif dvl <= tol and "F-C06-perl" in active:
                known_l.append((c["id"], dv, tol))
            else:
                site = "per-l shell-pair screen" if dvl <= tol else ("primitive estimate screen" if dvp <= tol else "several sites")
                viol.append((c, "screens discard %.3e > %.3e = 1e-9 x prod sum|c| (kind %s, classes %d,%d,%d); removed by bypassing: %s" % (dv, tol, c["extra"]["kind"], c["shells"][0]["l"], c["shells"][1]["l"], max(p["l"] for p in c["ecps"][0]["p"]), site)))
        # ---- derivatives: the nine first- and 45 second-derivative blocks, every screen active vs every screen bypassed, on a subset of the
        #      cases (classes with LA+2, LB+2 <= MAX_L) and on marginal geometries (tight shells at the distance where the per-l estimate of the
        #      pair crosses its threshold: the shifted shells L+1, L+2 the derivative routines build must be screened with THEIR estimates)
        dcases = []
        for c in cases:
            if c["shells"][0]["l"] + 2 <= maxl and c["shells"][1]["l"] + 2 <= maxl and len(dcases) < (30 if tier == "quick" else 300):
                dc = dict(c); dc["id"] = "D" + c["id"]; dc["extra"] = dict(c["extra"], deriv=2); dcases.append(dc)
        for k in range(40 if tier == "quick" else 400):
            # all-tight shell on the ECP centre's side, second shell scanned through the marginal band
            la = rng.randint(0, min(1, maxl - 2)); lb = rng.randint(0, min(1, maxl - 2))
            ea = rng.uniform(3.0, 9.0); eb = rng.uniform(1.5, 6.0)
            cA = rng.choice([1.0, 0.3, 0.03, 0.01]); cB = rng.choice([1.0, 0.3, 0.03])
            A = [0.3 * x for x in gen.rand_dir(rng)]
            dB = rng.uniform(3.4, 6.2)
            B = [-dB, 0.05 * rng.uniform(-1, 1), 0.05 * rng.uniform(-1, 1)]
            sa = {"l": la, "c": A, "e": [ea, ea * rng.uniform(1.2, 2.0)], "d": [cA, cA * 0.7]}
            sb = {"l": lb, "c": B, "e": [eb], "d": [cB]}
            u = {"c": [0.0, 0.0, 0.0], "p": [{"n": 2, "l": 0, "a": rng.uniform(2.0, 8.0), "d": rng.uniform(2.0, 8.0)}, {"n": 2, "l": 1, "a": rng.uniform(1.0, 4.0), "d": rng.uniform(1.0, 4.0)},
                                             {"n": 2, "l": 2, "a": rng.uniform(0.5, 2.0), "d": -rng.uniform(0.5, 2.0)}]}
            dcases.append({"id": "Dm%d" % k, "extra": {"kind": "marginal-derivative", "deriv": 2}, "shells": [sa, sb], "ecps": [u]})
        # distance scans: an all-tight shell close to an ECP with tight Gaussians (a sharp estimate), the second shell moved through the
        # band in which the per-l estimates of the pair and of its shifted variants (coefficients times exponent, times exponent squared)
        # cross the threshold one after the other; the large terms of a second derivative nearly cancel, so dropping one of them is amplified
        for fam in range(3 if tier == "quick" else 12):
            za = rng.loguniform(20.0, 120.0); zb = rng.uniform(0.5, 2.0); co = [1.0, 0.3, 0.3][fam % 3]
            dA = rng.uniform(0.2, 0.4); ua = gen.rand_dir(rng)
            A = [dA * x for x in ua]
            eL = rng.loguniform(60.0, 300.0); e0 = rng.loguniform(60.0, 300.0)
            # moderate ECP coefficients: the screens' thresholds are absolute, the property's bound scales with the coefficients
            u = {"c": [0.0, 0.0, 0.0], "p": [{"n": 2, "l": 1, "a": eL, "d": rng.uniform(2.0, 10.0)}, {"n": 2, "l": 0, "a": e0, "d": rng.uniform(5.0, 40.0)}]}
            npt = 40 if tier == "quick" else 80
            for i in range(npt):
                bx = -3.0 - 4.0 * i / (npt - 1)
                sa = {"l": 0, "c": A, "e": [za], "d": [co]}
                sb = {"l": 0, "c": [bx, 0.5, -0.3], "e": [zb], "d": [co]}
                dcases.append({"id": "Ds%d_%d" % (fam, i), "extra": {"kind": "derivative-distance-scan", "deriv": 2}, "shells": [sa, sb], "ecps": [u]})
        dblocks, _ = pair_k.run_pairs(dcases, tmp, tag="d")
        nder = 0; dworst = 0.0; dknown = []
        for c in dcases:
            b = dblocks[c["id"]]
            tol = 1e-9 * coef_scale(c)
            for key, what in (("g", "first-derivative"), ("h", "second-derivative")):
                if key + "_d" not in b:
                    continue
                on = b[key + "_d"][2]; off = b[key + "_ns"][2]
                dv = max(abs(x - y) for x, y in zip(on, off)); nder += 1
                dworst = max(dworst, dv / tol)
                if dv <= tol:
                    continue
                offp = b[key + "_nsp"][2]; offl = b[key + "_nsl"][2]
                dvp = max(abs(x - y) for x, y in zip(offp, off)); dvl = max(abs(x - y) for x, y in zip(offl, off))
                if dvp <= tol and "F-C12-screen" in active_ids:
                    dknown.append((c["id"], dv, tol))
                elif dvl <= tol and "F-C06-perl" in active_ids:
                    known_l.append((c["id"], dv, tol))
                else:
                    site = "per-l shell-pair screen" if dvl <= tol else ("primitive estimate screen" if dvp <= tol else "several sites")
                    dviol.append((c, "%s blocks: screens discard %.3e > %.3e = 1e-9 x prod sum|c| (kind %s, classes %d,%d); removed by bypassing: %s" % (what, dv, tol, c["extra"]["kind"], c["shells"][0]["l"], c["shells"][1]["l"], site)))
        res.cov["derivative_block_sets_compared_on_vs_off"] = nder; res.cov["derivative_worst_ratio_to_tolerance"] = dworst
        # integrator level: stretched systems, API screen on vs off
        sysc = []
        for k in range(10 if tier == "quick" else 60):
            sh_, ec, sa_, ea_ = api_k.rand_system(rng, maxl, natoms=rng.randint(2, 3), nshells=rng.randint(2, 4), necps=rng.randint(1, 2))
            # stretch: move shells of atoms away from the first ECP by a large factor
            f = rng.uniform(3.0, 12.0)
            for s in sh_:
                s["c"] = [x * f for x in s["c"]]
            for u in ec:
                u["c"] = [x * f for x in u["c"]]
            for mode in (0, 1, 3):
                sysc.append({"id": "y%d_%d" % (k, mode), "extra": {"order": 0, "noscreen": mode}, "shells": sh_, "ecps": ec, "_sa": sa_, "_ea": ea_})
        # dissimilar shells: a compact low-l shell far from a soft ECP whose own atom carries a diffuse high-l shell, the compact
        # shell listed LAST (only the first shell of a pair is screened); the distance scans the window in which the screen decides
        nst = len(sysc) // 3
        nfam = 3 if tier == "quick" else 12; nsemi = 2 if tier == "quick" else 8
        for fam in range(nfam + nsemi):
            lhi = maxl; ehi = rng.loguniform(0.006, 0.012); elo = rng.uniform(1.0, 3.0); llo = rng.randint(0, 1)
            dirn = gen.rand_dir(rng)
            eta = rng.uniform(0.06, 0.2)
            semi = fam >= nfam
            if not semi:
                u = {"c": [0.0, 0.0, 0.0], "p": [{"n": 2, "l": l_, "a": eta * (1.0 if l_ == 1 else rng.uniform(1.0, 2.0)), "d": rng.uniform(1.0, 4.0) * rng.choice([1, -1])} for l_ in range(2)]}
                tvals = [26.0, 29.0, 31.0, 33.0, 36.0, 40.0, 45.0, 50.0] if tier == "quick" else [24.0 + 1.0 * i for i in range(34)]
            else:
                # the ECP's most diffuse primitive sits in the SEMI-LOCAL channel and its local part is compact (round 6): the reach of the
                # potential is set by the semi-local primitive; scanned from distances at which that contribution is large
                u = {"c": [0.0, 0.0, 0.0], "p": [{"n": 2, "l": l_, "a": eta * (1.0 if l_ == 0 else rng.uniform(4.0, 40.0)), "d": rng.uniform(1.0, 4.0) * rng.choice([1, -1])} for l_ in range(2)]}
                tvals = [3.0, 5.0, 8.0, 12.0, 16.0, 20.0, 26.0, 31.0] if tier == "quick" else [3.0 + 1.5 * i for i in range(24)]
            mu_ = elo * eta / (elo + eta)
            # the screen compares ~exp(-mu d^2) with a threshold: scan -log of that factor across the decision region
            for t_ in tvals:
                d_ = math.sqrt(t_ / mu_)
                P = [x * d_ for x in dirn]
                sh_ = [{"l": 0, "c": [0.0, 0.0, 0.0], "e": [0.5], "d": [1.0]}, {"l": lhi, "c": [0.0, 0.0, 0.0], "e": [ehi], "d": [1.0]},
                       {"l": llo, "c": P, "e": [elo], "d": [1.0]}]
                for mode in (0, 1, 3):
                    sysc.append({"id": "y%d_%d" % (nst, mode), "extra": {"order": 0, "noscreen": mode}, "shells": sh_, "ecps": [u], "_sa": [0, 0, 1], "_ea": [0]})
                nst += 1
                # the same system with the basis handed over in two calls (the diffuse shells first, the compact one afterwards)
                for mode in (0, 1, 3):
                    sysc.append({"id": "y%d_%d" % (nst, mode), "extra": {"order": 0, "noscreen": mode, "split_basis": 2}, "shells": sh_, "ecps": [u], "_sa": [0, 0, 1], "_ea": [0]})
                nst += 1
        # moved systems: the integrator is initialised at a stretched geometry (every shell/ECP pair beyond the screening radius, or
        # compact) and moved to the geometry of the case with the update routines before computing: the screens must decide from
        # the CURRENT coordinates (screens on, after the move) vs screens off
        nmoved = 0
        for k in range(6 if tier == "quick" else 40):
            sh_, ec, sa_, ea_ = api_k.rand_system(rng, maxl, natoms=rng.randint(2, 3), nshells=rng.randint(2, 4), necps=rng.randint(1, 2))
            stretch = rng.choice([25.0, 60.0, 0.5, 12.0])
            for mode in (0, 1, 3):
                sysc.append({"id": "y%d_%d" % (nst, mode), "extra": {"order": 0, "noscreen": mode, "init_stretch": stretch}, "shells": sh_, "ecps": ec, "_sa": sa_, "_ea": ea_})
            nst += 1; nmoved += 1
        res.cov["systems_initialised_elsewhere_and_moved"] = nmoved
        viol += dviol
        known += dknown
        mism, m = api_k.run_driver(sysc, tmp)
        mats = {}
        cur = None
        for l in open(os.path.join(tmp, "out.txt")):
            t = l.split()
            if t and t[0] == "case":
                cur = t[1]
            elif t and t[0] == "mat" and t[1] == "integrals":
                mats[cur] = [float.fromhex(x) for x in t[4:]]
        napi = 0
        for k in range(len(sysc) // 3):
            a = mats["y%d_0" % k]; b = mats["y%d_1" % k]; bp = mats["y%d_3" % k]
            c = sysc[3 * k]
            sc = max(sum(abs(x) for x in s["d"]) for s in c["shells"]) ** 2 * max(sum(abs(p["d"]) for p in u["p"]) for u in c["ecps"])
            dv = max(abs(x - y) for x, y in zip(a, b))
            if any(x != y for x, y in zip(a, b)):
                napi += 1
            if dv > 1e-9 * sc * len(c["ecps"]):
                # the same system with the primitive estimate screen alone bypassed: if that restores the unscreened matrix, it is the recorded finding
                dvp = max(abs(x - y) for x, y in zip(bp, b))
                if dvp <= 1e-9 * sc * len(c["ecps"]) and "F-C12-screen" in active:
                    known.append((c["id"], dv, 1e-9 * sc * len(c["ecps"])))
                else:
                    viol.append((c, "integrator matrix: screens discard %.3e > %.3e (not removed by bypassing the primitive estimate screen alone: %.3e left)" % (dv, 1e-9 * sc * len(c["ecps"]), dvp)))
        res.cov["evaluations"] = len(cases) + len(sysc) // 3
        res.cov["distinct_nontrivial"] = nscreened + napi
        res.cov["cases_where_a_screen_fired"] = nscreened; res.cov["systems_where_the_api_screen_changed_something"] = napi
        res.cov["worst_ratio_to_tolerance"] = worst
        kh = {}
        for c in cases:
            kh[c["extra"]["kind"]] = kh.get(c["extra"]["kind"], 0) + 1
        res.cov["kind_histogram"] = kh
        res.cov["traces_validated_against_impl"] = len(cases)
        res.sample({"id": cases[0]["id"], "kind": cases[0]["extra"]["kind"], "A": cases[0]["shells"][0]["c"], "expsA": cases[0]["shells"][0]["e"]})
        res.sample({"id": cases[1]["id"], "kind": cases[1]["extra"]["kind"]})
        if known_l:
            w = max(known_l, key=lambda t: t[1] / t[2])
            res.known("F-C06-perl: in %d shell pairs (integral or derivative blocks) the per-l shell-pair screen alone discards more than the bound (largest %s: %.2e vs %.2e); the estimate itself is the recorded formula (model correspondence)" % (len(known_l), w[0], w[1], w[2]))
            res.cov["known_finding_perl_cases"] = len(known_l)
        if known:
            w = max(known, key=lambda t: t[1] / t[2])
            res.known("F-C12-screen: in %d shell pairs the primitive estimate screen alone discards more than the bound (largest %s: %.2e vs %.2e)" % (len(known), w[0], w[1], w[2]))
            res.cov["known_finding_cases"] = len(known)
        for c, msg in viol[:3]:
            res.violation("screen-" + c["id"], {"theorem_or_correspondence": "|screens on - screens off| <= 1e-9 x prod sum|c|", "input": {k: (v if k != "extra" else {k2: v2 for k2, v2 in v.items() if k2 in ("split_basis", "init_stretch", "kind")}) for k, v in c.items() if not k.startswith("_")}, "observed": msg, "n": len(viol)})
    finally:
        shutil.rmtree(tmp, ignore_errors=True)
    res.assumptions += ["soundness of the estimates themselves is measured, not proved; only the additivity of the API screen is a theorem",
                        "the bypass switches are LIBECPINT_VERIF hooks that make the estimate return +infinity at one site or at all three"]
    return res.finish()
