"""C07 — integral blocks are symmetric under exchange of the two shells."""
import os, sys, shutil
from vcommon import *
import gen, pair_k, api_k

PID = "C07"
LEVEL = "proof"


def run(tier, replay=None):
    res = Result(PID, tier, LEVEL)
    res.cov["rule"] = ("proof obligations: Properties_C07.v (the integrator's matrices are symmetric whenever the diagonal shell blocks are). Direct differential on the "
                       "implementation: compute_shell_pair(U,A,B) vs transpose(compute_shell_pair(U,B,A)) for EVERY ordered class pair (LA,LB)<=MAX_L x lambda_max "
                       "(quick: sampled lambda; thorough: all) x geometries {distinct, A on centre, B on centre, A=B, all coincident}, tolerance 1e-6 x max|block|; "
                       "plus symmetry of integrals/first/second derivative matrices of random systems. distinct = (LA,LB,lambda,geometry)")
    ok = coq_properties(res, PID)
    if not ok:
        proof_broken(res, PID, "Properties_C07.v no longer checks")
    root = build_lib("rel")
    maxl = int(re.search(r"#define LIBECPINT_MAX_L (\d+)", open(os.path.join(root, "b/include/libecpint/config.hpp")).read()).group(1))
    rng = SplitMix(seed() * 1000 + 7)
    cases = []; pairs = []
    for LA in range(maxl + 1):
        for LB in range(maxl + 1):
            for gk in gen.GEOMS:
                lams = range(maxl + 1) if tier == "thorough" else sorted(set([rng.randint(0, maxl), rng.randint(0, 2)]))
                for L in lams:
                    A, B, C = gen.geometry(rng, gk)
                    sa = gen.rand_shell(rng, LA, A, nprim=rng.randint(1, 2)); sb = gen.rand_shell(rng, LB, B, nprim=rng.randint(1, 2))
                    u = gen.rand_ecp(rng, L, C, nper=(1, 1))
                    i = len(cases)
                    cases.append({"id": "f%d" % i, "extra": {"geom": gk}, "shells": [sa, sb], "ecps": [u]})
                    cases.append({"id": "r%d" % i, "extra": {"geom": gk}, "shells": [sb, sa], "ecps": [u]})
                    pairs.append((i, LA, LB, L, gk))
    # shells displaced from the ECP centre by 1e-6 .. 1e-3 bohr (either argument position), and on both sides of the 1e-6 switch
    for k in range(24 if tier == "quick" else 200):
        LA, LB, L = rng.randint(0, min(maxl, 3)), rng.randint(0, min(maxl, 3)), rng.randint(0, 3)
        A, B, C = gen.geometry(rng, "distinct")
        eps = rng.choice([0.5e-6, 2e-6, 1e-5, 1e-4, 5e-4, 0.9e-3, 1.1e-3, 1e-2])
        P = [c + eps * x for c, x in zip(C, gen.rand_dir(rng))]
        sa = gen.rand_shell(rng, LA, P, nprim=1, emin=0.5, emax=4.0); sb = gen.rand_shell(rng, LB, B, nprim=1, emin=0.5, emax=4.0)
        u = gen.rand_ecp(rng, L, C, nper=(1, 1))
        i = len(cases)
        cases.append({"id": "f%d" % i, "extra": {"geom": "near-centre"}, "shells": [sa, sb], "ecps": [u]})
        cases.append({"id": "r%d" % i, "extra": {"geom": "near-centre"}, "shells": [sb, sa], "ecps": [u]})
        pairs.append((i, LA, LB, L, "near-centre %.1e" % eps))
    tmp = scratch_dir()
    try:
        blocks, _ = pair_k.run_pairs(cases, tmp)
        by_case = {c_["id"]: c_ for c_ in cases}
        bad = []; nz = 0; known = {}
        active = set(k.get("id") for k in load_known() if k.get("status") == "known")
        for (i, LA, LB, L, gk) in pairs:
            r, c, f = blocks["f%d" % i]["v_d"]; r2, c2, g = blocks["r%d" % i]["v_d"]
            if (r, c) != (c2, r2):
                bad.append((i, "shapes %dx%d vs %dx%d" % (r, c, r2, c2))); continue
            sc = max(max(abs(x) for x in f), max(abs(x) for x in g), 1e-300)
            if sc > 1e-12:
                nz += 1
            dv = max(abs(f[a * c + b] - g[b * r + a]) for a in range(r) for b in range(c))
            if dv > 1e-6 * sc:
                # attribution: is the asymmetry removed when the recorded numerical findings are switched off on the same input?
                cause = None
                for key, fid in (("v_nt", "F-C12-tailcut"), ("v_ns", "F-C12-screen"), ("v_nsnt", "F-C12-tailcut+F-C12-screen"), ("v_fq", "F-C12-closedform")):
                    f2 = blocks["f%d" % i][key][2]; g2 = blocks["r%d" % i][key][2]
                    sc2 = max(max(abs(x) for x in f2), max(abs(x) for x in g2), 1e-300)
                    if max(abs(f2[a * c + b] - g2[b * r + a]) for a in range(r) for b in range(c)) <= 1e-6 * sc2:
                        cause = fid; break
                # a recorded numerical finding can explain an asymmetry only if BOTH orders went through the same
                # (triple-based) radial code: otherwise the two orders took different branches, which is the property itself
                tf = blocks["f%d" % i].get("trace", [0] * 12); tr_ = blocks["r%d" % i].get("trace", [0] * 12)
                same_path = (tf[0] + tf[1] > 0) == (tr_[0] + tr_[1] > 0) and (tf[0] + tf[1] > 0)
                cs = by_case["f%d" % i]
                cscale = sum(abs(x) for x in cs["shells"][0]["d"]) * sum(abs(x) for x in cs["shells"][1]["d"]) * sum(abs(p["d"]) for p in cs["ecps"][0]["p"])
                if cause and same_path and all(x in active for x in cause.split("+")):
                    known.setdefault(cause, []).append((i, dv, sc))
                elif dv <= 1e-12 * cscale and "F-C07-floor" in active:
                    # a block so small that its largest element is within ~1e6 of the absolute accuracy of the quadrature-based integrals:
                    # the asymmetry is rounding-level in absolute terms (below 1e-12 x the coefficient product)
                    known.setdefault("F-C07-floor", []).append((i, dv, sc))
                else:
                    bad.append((i, "class (LA=%d,LB=%d,lambda_max=%d) geometry %s: max |V(A,B) - V(B,A)^T| = %.3e on scale %.3e (restored by: %s)" % (LA, LB, L, gk, dv, sc, cause)))
        # integrator matrices
        sys_cases = api_k.make_cases(rng, "quick", maxl)[: (12 if tier == "quick" else 40)]
        # half of the systems compute everything twice on the same integrator: the matrices of a recomputation must be symmetric too
        for i_, c_ in enumerate(sys_cases):
            if i_ % 2 == 1:
                c_["extra"] = dict(c_["extra"], repeat=2)
        res.cov["systems_recomputed_on_the_same_integrator"] = sum(1 for c_ in sys_cases if c_["extra"].get("repeat"))
        mism, m = api_k.run_driver(sys_cases, tmp)   # also re-validates the assembly model
        # symmetry of the dumped matrices is checked from the driver's output file
        asym = []
        cur = None
        for l in open(os.path.join(tmp, "out.txt")):
            t = l.split()
            if t and t[0] == "case":
                cur = t[1]
            elif t and t[0] == "mat" and (t[1] == "integrals" or t[1].startswith("first") or t[1].startswith("second")):
                n = int(t[2]); v = [float.fromhex(x) for x in t[4:]]
                sc = max([abs(x) for x in v] + [1e-300])
                dv = max([abs(v[a * n + b] - v[b * n + a]) for a in range(n) for b in range(a)] + [0.0])
                if dv > 1e-6 * sc:
                    asym.append((cur, t[1], dv, sc))
        res.cov["evaluations"] = len(pairs) + len(sys_cases); res.cov["distinct_nontrivial"] = nz
        res.cov["ordered_class_pairs"] = (maxl + 1) ** 2; res.cov["systems"] = len(sys_cases)
        res.cov["traces_validated_against_impl"] = len(pairs)
        res.sample({"pair": pairs[7]}); res.sample({"pair": pairs[-1]})
        by = {c["id"]: c for c in cases}
        for fid, lst in known.items():
            w = max(lst, key=lambda t: t[1] / t[2])
            if fid == "F-C07-floor":
                res.known("%s: %d class/geometry pairs with a tiny block are asymmetric beyond 1e-6 of its largest element but below 1e-12 x the coefficient product in absolute terms (largest: pair %d, %.2e on scale %.2e)" % (fid, len(lst), w[0], w[1], w[2]))
                continue
            res.known("%s: %d class/geometry pairs are asymmetric beyond 1e-6 and symmetric again when that decision is forced the other way (largest: pair %d, %.2e on scale %.2e)" % (fid, len(lst), w[0], w[1], w[2]))
        res.cov["known_finding_cases"] = {k: len(v) for k, v in known.items()}
        for i, msg in bad[:3]:
            res.violation("swap-%d" % i, {"theorem_or_correspondence": "V(U,A,B) = V(U,B,A)^T within 1e-6 max", "input": {k: v for k, v in by["f%d" % i].items() if k != "extra"}, "observed": msg, "n": len(bad)})
        for cur, nm, dv, sc in asym[:2]:
            res.violation("sym-%s-%s" % (cur, nm), {"theorem_or_correspondence": "integrator matrix symmetric", "input": [c for c in sys_cases if c["id"] == cur][0]["id"], "observed": "%s asymmetry %.3e (scale %.3e)" % (nm, dv, sc)})
        if mism and not res.violations:
            res.cov["assembly_model_mismatches"] = mism[:5]
    finally:
        shutil.rmtree(tmp, ignore_errors=True)
    res.assumptions += ["the direct comparison is the property itself on sampled parameters; the theorem is about the integrator model (C04) given symmetric diagonal blocks"]
    return res.finish()
