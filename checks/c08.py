"""C08 — translation invariance and Cartesian-tensor covariance."""
import os, sys, shutil, math, itertools
from vcommon import *
import gen, pair_k

PID = "C08"
LEVEL = "proof"


def matmul(R, v):
    return [sum(R[i][j] * v[j] for j in range(3)) for i in range(3)]


def rand_orth(rng):
    M = [[1.0, 0, 0], [0, 1.0, 0], [0, 0, 1.0]]
    for _ in range(rng.randint(1, 3)):          # product of Householder reflections (proper or improper)
        v = gen.rand_dir(rng)
        H = [[(1.0 if i == j else 0.0) - 2 * v[i] * v[j] for j in range(3)] for i in range(3)]
        M = [[sum(H[i][k] * M[k][j] for k in range(3)) for j in range(3)] for i in range(3)]
    return M


def signed_perms():
    out = []
    for p in itertools.permutations(range(3)):
        for s in itertools.product([1.0, -1.0], repeat=3):
            out.append([[s[i] if j == p[i] else 0.0 for j in range(3)] for i in range(3)])
    return out


def transform(c, R, t):
    def tp(x):
        y = matmul(R, x); return [y[i] + t[i] for i in range(3)]
    d = {"id": c["id"], "extra": dict(c.get("extra", {})), "shells": [dict(s, c=tp(s["c"])) for s in c["shells"]], "ecps": [dict(u, c=tp(u["c"])) for u in c["ecps"]]}
    return d


def run(tier, replay=None):
    res = Result(PID, tier, LEVEL)
    res.cov["rule"] = ("proof obligations: Properties_C08.v (the term lists used to transform blocks evaluate to the rotated monomials for every real matrix and all "
                       "exponents and stay in the shell; the coincidence tests are translation invariant). Direct differential on the implementation: blocks of the "
                       "original geometry, transformed with the extracted term lists, vs blocks computed at the transformed geometry (1e-6 x max): pure translations "
                       "up to 100 bohr, all 48 signed axis permutations, random proper/improper orthogonal matrices; integrals, first-derivative blocks "
                       "(components rotate as vectors) and, on a subset with the highest classes included, the 45 second-derivative blocks (six rank-2 groups). distinct = (class, geometry kind, transformation)")
    ok = coq_properties(res, PID)
    if not ok:
        proof_broken(res, PID, "Properties_C08.v no longer checks")
    root = build_lib("rel")
    maxl = int(re.search(r"#define LIBECPINT_MAX_L (\d+)", open(os.path.join(root, "b/include/libecpint/config.hpp")).read()).group(1))
    rng = SplitMix(seed() * 1000 + 8)
    sp = signed_perms()
    base = []; mats = []
    ncls = 40 if tier == "quick" else 300
    for k in range(ncls):
        LA, LB, L = rng.randint(0, min(maxl, 4)), rng.randint(0, min(maxl, 4)), rng.randint(0, min(maxl, 3))
        gk = rng.choice(["distinct", "distinct", "A=C", "B=C", "A=B"])
        A, B, C = gen.geometry(rng, gk)
        c = {"id": "x", "extra": {"geom": gk, "order": 1, "deriv": 1}, "shells": [gen.rand_shell(rng, LA, A, nprim=rng.randint(1, 2), emin=0.5, emax=5.0), gen.rand_shell(rng, LB, B, nprim=1, emin=0.5, emax=5.0)],
             "ecps": [gen.rand_ecp(rng, L, C, nper=(1, 1), amin=0.5)]}
        kinds = [("translate", [[1.0, 0, 0], [0, 1.0, 0], [0, 0, 1.0]], [rng.uniform(-100, 100) for _ in range(3)]),
                 ("signed-permutation", sp[(k * 7 + rng.randint(0, 47)) % 48], [0.0, 0.0, 0.0]),
                 ("orthogonal", rand_orth(rng), [rng.uniform(-2, 2) for _ in range(3)])]
        if tier == "thorough" and k < 48:
            kinds.append(("signed-permutation", sp[k], [0.0, 0.0, 0.0]))
        for kind, R, t in kinds:
            base.append((c, kind, R, t))
    # shells whose direction from the ECP is tilted by 0.005..0.2 degrees off a coordinate axis (where the harmonics code has
    # its special cases sin(theta)=0, atan2 on an axis), mapped onto the other axes by the cyclic permutations
    cyc = [[[0.0, 0.0, 1.0], [1.0, 0.0, 0.0], [0.0, 1.0, 0.0]], [[0.0, 1.0, 0.0], [0.0, 0.0, 1.0], [1.0, 0.0, 0.0]]]
    for k in range(12 if tier == "quick" else 120):
        axis = k % 3; sign = 1.0 if (k // 3) % 2 == 0 else -1.0
        tilt = math.radians(rng.choice([0.005, 0.02, 0.05, 0.1, 0.2]))
        az = rng.uniform(0, 2 * math.pi)
        d = [math.sin(tilt) * math.cos(az), math.sin(tilt) * math.sin(az), math.cos(tilt)]
        d = [sign * x for x in (d[-axis:] + d[:-axis] if axis else d)]
        C = [rng.uniform(-1, 1) for _ in range(3)]
        r = rng.uniform(1.0, 2.0)
        A = [c + r * x for c, x in zip(C, d)]
        B = [c + x for c, x in zip(C, gen.rand_point(rng, 0.8, 2.0))]
        LA, LB, L = rng.randint(0, 2), rng.randint(0, 2), rng.randint(1, 3)
        c = {"id": "x", "extra": {"geom": "near-axis", "order": 1, "deriv": 1}, "shells": [gen.rand_shell(rng, LA, A, nprim=1, emin=0.8, emax=3.0), gen.rand_shell(rng, LB, B, nprim=1, emin=0.8, emax=3.0)],
             "ecps": [gen.rand_ecp(rng, L, C, nper=(1, 1), amin=0.8, amax=3.0)]}
        if k % 2:
            c["shells"] = [c["shells"][1], c["shells"][0]]
        for R in cyc:
            base.append((c, "near-axis cyclic permutation", R, [0.0, 0.0, 0.0]))
    # exact special positions: all three centres in one coordinate plane (one relative coordinate EXACTLY zero, dyadic numbers) with the shells
    # in each of the four quadrants of that plane, and collinear arrangements along each axis on either side of the ECP; mapped onto the
    # other planes / half-axes by reflections and cyclic permutations (atan2 on the branch cut, sin(theta) = 0, exact zeros in the shifts)
    refl = [[[-1.0, 0, 0], [0, 1.0, 0], [0, 0, 1.0]], [[1.0, 0, 0], [0, -1.0, 0], [0, 0, 1.0]], [[1.0, 0, 0], [0, 1.0, 0], [0, 0, -1.0]]]
    dy = lambda lo, hi: round(rng.uniform(lo, hi) * 64) / 64.0
    nsp = 0
    for plane in range(3):                       # the coordinate that is exactly zero
        for q in range(4 if tier == "quick" else 8):
            s1 = 1.0 if q % 2 == 0 else -1.0; s2 = 1.0 if (q // 2) % 2 == 0 else -1.0
            C = [dy(-1, 1) for _ in range(3)]
            u, v = [i for i in range(3) if i != plane]
            A = list(C); B = list(C)
            A[u] += s1 * dy(0.5, 2.0); A[v] += dy(-1.5, 1.5)
            B[u] += s2 * dy(0.5, 2.0); B[v] += dy(-1.5, 1.5)
            if q >= 4:                           # collinear along axis u
                A[v] = C[v]; B[v] = C[v]
            LA, LB, L = rng.randint(0, 2), rng.randint(0, 2), rng.randint(0, 2)
            c = {"id": "x", "extra": {"geom": "exact-plane-%d" % plane, "order": 1, "deriv": 1},
                 "shells": [gen.rand_shell(rng, LA, A, nprim=rng.randint(1, 2), emin=0.5, emax=3.0), gen.rand_shell(rng, LB, B, nprim=rng.randint(1, 2), emin=0.5, emax=3.0)],
                 "ecps": [gen.rand_ecp(rng, L, C, nper=(1, 1), amin=0.5, amax=3.0)]}
            for R in refl + cyc:
                base.append((c, "exact special position", R, [0.0, 0.0, 0.0])); nsp += 1
    for axis in range(3):                        # collinear, ECP between the shells / outside
        for q in range(2 if tier == "quick" else 4):
            C = [dy(-1, 1) for _ in range(3)]
            A = list(C); B = list(C)
            A[axis] += -dy(0.5, 2.0); B[axis] += dy(0.5, 2.0) if q % 2 == 0 else -dy(2.1, 3.0)
            c = {"id": "x", "extra": {"geom": "exact-axis-%d" % axis, "order": 1, "deriv": 1},
                 "shells": [gen.rand_shell(rng, rng.randint(0, 2), A, nprim=2, emin=0.5, emax=3.0), gen.rand_shell(rng, rng.randint(0, 2), B, nprim=2, emin=0.5, emax=3.0)],
                 "ecps": [gen.rand_ecp(rng, rng.randint(0, 2), C, nper=(1, 1), amin=0.5, amax=3.0)]}
            for R in refl + cyc:
                base.append((c, "exact special position", R, [0.0, 0.0, 0.0])); nsp += 1
    res.cov["exact_special_position_cases"] = nsp
    # quick: make sure all 48 signed permutations occur at least once
    if tier == "quick":
        seen = set()
        for i in range(48):
            c = base[(3 * i) % len(base)][0]
            base.append((c, "signed-permutation", sp[i], [0.0, 0.0, 0.0]))
    cases = []
    for i, (c, kind, R, t) in enumerate(base):
        o = dict(c); o["id"] = "o%d" % i
        tr = transform(c, R, t); tr["id"] = "t%d" % i
        cases += [o, tr]; mats.append((i, R))
    tmp = scratch_dir()
    try:
        cf = os.path.join(tmp, "cases.txt"); gen.write_cases(cf, cases)
        mf = os.path.join(tmp, "mats.txt")
        open(mf, "w").write("".join("%d %s\n" % (i, " ".join(float(R[a][b]).hex() for a in range(3) for b in range(3))) for i, R in mats))
        exe = compile_driver("drv_pair.cpp", "rel"); of = os.path.join(tmp, "pair.txt")
        rc, o = sh([exe, cf, of], check=False, timeout=7200)
        if rc != 0:
            raise RuntimeError("drv_pair failed: " + o[-1500:])
        rc, out1 = sh([os.path.join(OCAML, "drv_rot"), of, mf, "v_d", "1", "1e-6"], check=False, timeout=7200)
        # first derivatives through the derivative driver (order 1 records carry LA, LB and res0..res8)
        dcases = [c for c in cases if c["shells"][0]["l"] + 1 <= maxl and c["shells"][1]["l"] + 1 <= maxl]
        keep = set(c["id"][1:] for c in dcases)
        dcf = os.path.join(tmp, "dcases.txt"); gen.write_cases(dcf, dcases)
        dexe = compile_driver("drv_deriv.cpp", "rel"); dof = os.path.join(tmp, "deriv.txt")
        rc, o = sh([dexe, dcf, dof], check=False, timeout=7200)
        if rc != 0:
            raise RuntimeError("drv_deriv failed: " + o[-1500:])
        mf2 = os.path.join(tmp, "mats2.txt")
        open(mf2, "w").write("".join("%d %s\n" % (i, " ".join(float(R[a][b]).hex() for a in range(3) for b in range(3))) for i, R in mats if str(i) in keep))
        rc, out2 = sh([os.path.join(OCAML, "drv_rot"), dof, mf2, "res", "9", "1e-6"], check=False, timeout=7200)
        # second derivatives (45 blocks, six rank-2 groups) on a subset: every geometry kind and transformation kind, f shells included
        lim2 = maxl - 2
        pool = [i for i, (c, kind, R, t) in enumerate(base) if c["shells"][0]["l"] <= lim2 and c["shells"][1]["l"] <= lim2]
        pick = pool[:: max(1, len(pool) // (24 if tier == "quick" else 160))]
        # make sure the highest class that still has second derivatives is present in both orders
        extra2 = []
        for (la2, lb2) in ((lim2, 1), (1, lim2), (lim2, 2)):
            A, B, C = gen.geometry(rng, "distinct")
            c2 = {"id": "x", "extra": {"geom": "distinct", "order": 2}, "shells": [gen.rand_shell(rng, la2, A, nprim=1, emin=0.5, emax=3.0), gen.rand_shell(rng, lb2, B, nprim=1, emin=0.5, emax=3.0)],
                  "ecps": [gen.rand_ecp(rng, rng.randint(1, 3), C, nper=(1, 1), amin=0.5)]}
            extra2.append((c2, "orthogonal", rand_orth(rng), [rng.uniform(-2, 2) for _ in range(3)]))
            extra2.append((c2, "signed-permutation", sp[rng.randint(0, 47)], [0.0, 0.0, 0.0]))
        h_cases = []; h_mats = []
        for j, (c, kind, R, t) in enumerate([base[i] for i in pick] + extra2):
            o = dict(c); o["id"] = "o%d" % j; o["extra"] = dict(c["extra"], order=2)
            tr = transform(c, R, t); tr["id"] = "t%d" % j; tr["extra"] = dict(c["extra"], order=2)
            h_cases += [o, tr]; h_mats.append((j, R, c, kind, t))
        hcf = os.path.join(tmp, "hcases.txt"); gen.write_cases(hcf, h_cases)
        hof = os.path.join(tmp, "hess.txt")
        rc, o = sh([dexe, hcf, hof], check=False, timeout=7200)
        if rc != 0:
            raise RuntimeError("drv_deriv (order 2) failed: " + o[-1500:])
        mf3 = os.path.join(tmp, "mats3.txt")
        open(mf3, "w").write("".join("%d %s\n" % (j, " ".join(float(R[a][b]).hex() for a in range(3) for b in range(3))) for j, R, _, _, _ in h_mats))
        rc, out3 = sh([os.path.join(OCAML, "drv_rot"), hof, mf3, "res", "45", "1e-6"], check=False, timeout=7200)
        s3 = [l for l in out3.splitlines() if l.startswith("SUMMARY")]
        if not s3:
            raise RuntimeError("drv_rot (second derivatives) failed: " + out3[-1500:])
        res.cov["second_derivative_cases"] = len(h_mats)
        bad2 = [l for l in out3.splitlines() if l.startswith("BAD")]
        seen2 = set()
        for l in bad2:
            j = int(l.split()[1])
            if j in seen2 or len(seen2) >= 2:
                continue
            seen2.add(j)
            _, R, c, kind, t = h_mats[j]
            res.violation("cov2-%d" % j, {"theorem_or_correspondence": "second-derivative blocks at the transformed geometry = blocks transformed as rank-2 tensors (1e-6 x max)",
                                          "input": {"shells": c["shells"], "ecps": c["ecps"], "transformation": kind, "R": R, "t": t}, "observed": [x for x in bad2 if int(x.split()[1]) == j][:6], "n": len(bad2)})
        bad = []
        tot = 0; nz = 0
        kv3 = dict(x.split("=") for x in s3[0].split()[1:]); tot += int(kv3["cases"]); nz += int(kv3["nonzero"])
        for out in (out1, out2):
            s = [l for l in out.splitlines() if l.startswith("SUMMARY")]
            if not s:
                raise RuntimeError("drv_rot failed: " + out[-1500:])
            kv = dict(x.split("=") for x in s[0].split()[1:]); tot += int(kv["cases"]); nz += int(kv["nonzero"])
            bad += [l for l in out.splitlines() if l.startswith("BAD")]
        res.cov["evaluations"] = tot; res.cov["distinct_nontrivial"] = min(nz, tot); res.cov["nonzero_blocks_compared"] = nz
        kh = {}
        for _, kind, _, _ in base:
            kh[kind] = kh.get(kind, 0) + 1
        res.cov["transformation_histogram"] = kh; res.cov["traces_validated_against_impl"] = tot
        res.sample({"kind": base[0][1], "t": base[0][3]}); res.sample({"kind": base[2][1], "R": base[2][2]})
        seen = set()
        for l in bad:
            i = int(l.split()[1])
            if i in seen or len(seen) >= 3:
                continue
            seen.add(i)
            c, kind, R, t = base[i]
            res.violation("cov-%d" % i, {"theorem_or_correspondence": "block at the transformed geometry = transformed block (1e-6 x max)",
                                         "input": {"shells": c["shells"], "ecps": c["ecps"], "transformation": kind, "R": R, "t": t}, "observed": [x for x in bad if int(x.split()[1]) == i][:6], "n": len(bad)})
    finally:
        shutil.rmtree(tmp, ignore_errors=True)
    res.assumptions += ["general-rotation covariance of the implementation is compared, not proved; the Coq content is the verified transformation term lists and the translation theorem",
                        "exponents 0.5..5 keep the closed-form / tail-cut findings (C12) out of the comparison; their own checks cover them"]
    return res.finish()
