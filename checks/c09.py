"""C09 — results do not depend on the code-generation configuration."""
import os, sys, shutil
sys.path.insert(0, os.path.join(os.path.dirname(os.path.abspath(__file__)), "..", "translators"))
from vcommon import *
import gen, pair_k, t_gen, t_rad

PID = "C09"
LEVEL = "proof"


def validate(root, tmp, tag, maxl):
    d = t_gen.extract(os.path.join(root, "b/src/generated"))
    rd = t_rad.extract(os.path.join(root, "src"))
    mx = {k: max([b[1] for (b, _, _) in c["terms"] if b[0] == "V"] + [-1]) for k, c in rd["cases"].items()}
    gf = os.path.join(tmp, "gen_%s.txt" % tag)
    t_gen.render(d, maxl, gf, mx)
    exe = compile_driver("drv_angular.cpp", "rel")
    om = os.path.join(tmp, "omega.bin")
    if not os.path.exists(om):
        sh([exe, "tables", "5", "5", om], timeout=600)
    rc, out = sh([os.path.join(OCAML, "drv_gen"), gf, om], check=False, timeout=3600)
    summ = [l for l in out.splitlines() if l.startswith("SUMMARY")]
    if rc != 0 or not summ:
        raise RuntimeError("drv_gen failed: " + out[-1500:])
    kv = dict(x.split("=") for x in summ[0].split()[1:])
    return d, [l for l in out.splitlines() if l.startswith("BAD")], [l for l in out.splitlines() if l.startswith("NOTE")], kv


OBL = """(* written by checks/c09.py on every run *)
From Coq Require Import List ZArith QArith.
From LV Require Import GenCode.GenModel gen.Generated%(tag)s.
Theorem generated_ok_now%(tag)s : config_ok classes = true /\\ unparsed_lines = 0%%nat.
Proof. split; vm_compute; reflexivity. Qed.
Print Assumptions generated_ok_now%(tag)s.
"""
PROBE = """From Coq Require Import List ZArith QArith.
From LV Require Import GenCode.GenModel gen.Generated%(tag)s.
Set Printing Depth 100000. Set Printing Width 100000.
Eval vm_compute in config_diag classes.
Eval vm_compute in unparsed_lines.
"""


def gate_reports(root, tmp, limits):
    """the generator of the working tree, built with the hooks for each unrolling limit, run in report mode (LIBECPINT_VERIF_GATE_REPORT): it walks
    every class of that configuration and prints a GATEDROP line for every combination its emission gate rejects although one of its terms is
    not zero (unrolled class: the term is missing from the generated code; rolled-up class: only if the radial triple is lost as well)"""
    import subprocess
    procs = []
    for u in limits:
        b = os.path.join(tmp, "gate_u%d" % u)
        cm = ["cmake", "-G", "Ninja", "-S", os.path.join(root, "src"), "-B", b, "-DCMAKE_BUILD_TYPE=Release", "-DLIBECPINT_BUILD_TESTS=OFF", "-DLIBECPINT_BUILD_DOCS=OFF",
              "-DLIBECPINT_MAX_UNROL=%d" % u, "-DCMAKE_CXX_FLAGS=-D%s" % GUARD]
        rc, out = sh(cm, check=False, timeout=600)
        if rc != 0:
            raise BuildError("cmake configure failed for the generator (MAX_UNROL=%d)\n%s" % (u, out[-2000:]))
        rc, out = sh(["cmake", "--build", b, "--target", "generate", "-j4"], check=False, timeout=1200)
        if rc != 0:
            raise BuildError("generator build failed (MAX_UNROL=%d)\n%s" % (u, out[-3000:]))
        hdr = os.path.join(b, "hdr") + os.sep; os.makedirs(hdr, exist_ok=True)
        procs.append((u, subprocess.Popen([os.path.join(b, "src", "generate"), hdr], cwd=os.path.join(b, "src"), env=dict(os.environ, LIBECPINT_VERIF_GATE_REPORT="1"),
                                          stdout=subprocess.PIPE, stderr=subprocess.STDOUT)))
    out = {}
    for u, p in procs:
        o, _ = p.communicate(timeout=3600)
        o = o.decode()
        if p.returncode != 0:
            raise RuntimeError("generator (report mode, MAX_UNROL=%d) failed: %s" % (u, o[-1500:]))
        out[u] = [l.strip() for l in o.splitlines() if l.startswith("GATEDROP")]
        shutil.rmtree(os.path.join(tmp, "gate_u%d" % u), ignore_errors=True)
    return out


def coq_obligation(res, d, tag):
    """gen/Generated<tag>.v from the parsed generator output, then the theorem config_ok classes = true (vm_compute).
    Returns (ok, diagnostics)."""
    gv = os.path.join(COQ, "gen", "Generated%s.v" % tag)
    unrolled = t_gen.render_coq(d, gv)
    open(os.path.join(COQ, "gen", "Obl_C09%s.v" % tag), "w").write(OBL % {"tag": tag})
    coq_make(["GenCode/GenProofs.vo"])
    rc1, o1 = coqc("gen/Generated%s.v" % tag)
    rc2, o2 = coqc("gen/Obl_C09%s.v" % tag, timeout=1800) if rc1 == 0 else (1, o1)
    res.cov["obligations"] = res.cov.get("obligations", 0) + 1
    res.cov.setdefault("regenerated_obligations", []).append("gen/Obl_C09%s.v generated_ok_now%s over %d unrolled classes / %d lines" % (tag, tag, len(unrolled), sum(len(d["classes"][k]["terms"]) for k in unrolled)))
    if rc2 == 0:
        res.cov["discharged"] = res.cov.get("discharged", 0) + 1
        return True, []
    diag = []
    if rc1 == 0:
        open(os.path.join(COQ, "gen", "Probe_C09%s.v" % tag), "w").write(PROBE % {"tag": tag})
        rc3, o3 = coqc("gen/Probe_C09%s.v" % tag, timeout=1800)
        diag = [o3[-3000:]]
    else:
        diag = [o1[-1500:]]
    return False, diag


def run(tier, replay=None):
    res = Result(PID, tier, LEVEL)
    res.cov["rule"] = ("programs = generated classes Q(LA,LB,lambda) of each configuration (MAX_UNROL in {1,0} at MAX_L=5; thorough adds MAX_L=4,3). Each generated "
                       "file is parsed and validated against the exact-rational angular model (proved equal to the sphere integrals on the C13 domains): every "
                       "unrolled coefficient within 1e-11 relative of 16 pi^2 Omega Omega, no missing non-zero term, no duplicate, index consistency; triple lists "
                       "cover every triple with a non-zero angular factor; A/B list discipline and transposed copy-back; array dims; nbase large enough for every "
                       "closed-form case the triples can select (T-rad); QGEN table entries. Then the SAME driver is linked against two real builds and the "
                       "shell-pair blocks of the classes both can compute are compared at 1e-11 x max")
    root = build_lib("rel"); root0 = build_lib("rel_u0")
    tmp = scratch_dir()
    os.makedirs(os.path.join(COQ, "gen"), exist_ok=True)
    proofs_ok = coq_properties(res, PID)
    obl_failed = []
    try:
        d1, bad1, notes1, kv1 = validate(root, tmp, "u1", 5)
        d0, bad0, notes0, kv0 = validate(root0, tmp, "u0", 5)
        for tag, dd in (("", d1), ("_u0", d0)):
            ok_, diag_ = coq_obligation(res, dd, tag)
            if not ok_:
                obl_failed.append((tag or "_u1", diag_))
        # ---- unrolling limits that are not built (their translation units are tens to hundreds of MB): the generator itself is asked, through
        #      the hook at its emission gate, whether it rejects a combination with a non-zero term, for MAX_UNROL = 1, 2, 3 (thorough: 4)
        gl = [1, 2, 3] if tier == "quick" else [1, 2, 3, 4]
        gr = gate_reports(root, tmp, gl)
        res.cov["generator_gate_reports"] = {"MAX_UNROL=%d" % u: len(v) for u, v in gr.items()}
        gate_bad = [(u, l) for u, v in sorted(gr.items()) for l in v]
        progs = int(kv1["classes"]) + int(kv0["classes"])
        bads = [("MAX_UNROL=1", b) for b in bad1] + [("MAX_UNROL=0", b) for b in bad0]
        # same triple lists in both configurations
        for k in d1["classes"]:
            if k in d0["classes"] and (d1["classes"][k]["A"], d1["classes"][k]["B"]) != (d0["classes"][k]["A"], d0["classes"][k]["B"]):
                bads.append(("both", "BAD Q%s triple lists differ between the configurations" % (k,)))
        if tier == "thorough":
            for var, ml in (("rel_l4", 4), ("rel_l3", 3)):
                r = build_lib(var)
                dx, badx, notesx, kvx = validate(r, tmp, var, ml)
                ok_, diag_ = coq_obligation(res, dx, "_" + var)
                if not ok_:
                    obl_failed.append((var, diag_))
                progs += int(kvx["classes"]); bads += [(var, b) for b in badx]
                for k in dx["classes"]:
                    if k in d1["classes"] and (dx["classes"][k]["A"], dx["classes"][k]["B"]) != (d1["classes"][k]["A"], d1["classes"][k]["B"]):
                        bads.append((var, "BAD Q%s triple lists differ from the MAX_L=5 build" % (k,)))
        res.cov["programs"] = progs
        res.cov["unrolled_terms_validated"] = int(kv1["unrolled_terms"])
        res.cov["notes"] = (notes1 + notes0)[:10]
        # ---- two real builds, identical driver
        rng = SplitMix(seed() * 1000 + 9)
        cases = []
        cls = [(a, b, l) for a in range(0, 3) for b in range(0, 3) for l in range(0, 6)]
        if tier == "quick":
            # every s/p class at every lambda (whatever the unrolling predicate selects is among them), a few d classes
            cls = [c for c in cls if c[0] <= 1 and c[1] <= 1] + [(2, 1, 1), (1, 2, 2), (2, 2, 1)]
        # strata: ordinary geometry; the same with all coefficients scaled down (the property is relative to the block's own
        # largest element and the integrals are linear in the coefficients, so an absolute cut-off inside one translation shows
        # up here); one shell 1e-5..1e-4 bohr from the ECP centre (terms spanning many orders of magnitude); a weakly
        # overlapping pair (both shells far from the ECP, tight exponents); planar / linear arrangements along the Cartesian axes
        strata = {}
        def add(LA, LB, L, stratum, A, B, C, scale=1.0, emin=0.05, emax=50.0):
            sa = gen.rand_shell(rng, LA, A, emin=emin, emax=emax); sb = gen.rand_shell(rng, LB, B, emin=emin, emax=emax)
            u = gen.rand_ecp(rng, L, C, nper=(1, 1))
            for pr in u["p"]:
                pr["d"] *= scale
            strata[stratum] = strata.get(stratum, 0) + 1
            cases.append({"id": "c%d_%d%d%d_%s" % (len(cases), LA, LB, L, stratum), "shells": [sa, sb], "ecps": [u]})
        for (LA, LB, L) in cls:
            for rep in range(2 if tier == "quick" else 4):
                A, B, C = gen.geometry(rng, "distinct")
                add(LA, LB, L, "ordinary", A, B, C)
            A, B, C = gen.geometry(rng, "distinct")
            add(LA, LB, L, "scaled1e-6", A, B, C, scale=1e-6)
            add(LA, LB, L, "scaled1e-9", A, B, C, scale=1e-9)
            for rep in range(1 if tier == "quick" else 3):
                A, B, C = gen.geometry(rng, "distinct")
                dirn = gen.rand_dir(rng); r = rng.loguniform(1e-5, 1e-4)
                near = [c + r * x for c, x in zip(C, dirn)]
                if rng.randint(0, 1):
                    add(LA, LB, L, "near-centre", near, B, C, emin=0.3, emax=5.0)
                else:
                    add(LA, LB, L, "near-centre", A, near, C, emin=0.3, emax=5.0)
                A = [c + x for c, x in zip(C, gen.rand_point(rng, 4.5, 6.0))]; B = [c + x for c, x in zip(C, gen.rand_point(rng, 4.5, 6.0))]
                add(LA, LB, L, "weak-overlap", A, B, C, emin=1.0, emax=2.5)
            # special positions (exact zeros among the shifted coordinates): planar and linear arrangements
            for gk in (["planar-z", rng.choice(["planar-x", "planar-y"]), "axial"] if tier == "quick" else ["planar-x", "planar-y", "planar-z", "axial", "axial"]):
                A, B, C = gen.geometry(rng, gk)
                add(LA, LB, L, gk, A, B, C)
        res.cov["stratum_histogram"] = strata
        cf = os.path.join(tmp, "cases.txt"); gen.write_cases(cf, cases)
        outs = {}
        for var in ("rel", "rel_u0"):
            exe = compile_driver("drv_pair.cpp", var)
            of = os.path.join(tmp, "out_%s.txt" % var)
            rc, o = sh([exe, cf, of], check=False, timeout=3600)
            if rc != 0:
                raise RuntimeError("drv_pair (%s) failed: %s" % (var, o[-1500:]))
            outs[var] = pair_k.read_blocks(of)
        diffs = []
        nonzero = 0
        for c in cases:
            a = outs["rel"][c["id"]]["v_d"][2]; b = outs["rel_u0"][c["id"]]["v_d"][2]
            sc = max(max(abs(x) for x in a), 1e-300)
            dv = max(abs(x - y) for x, y in zip(a, b))
            if sc > 1e-12:
                nonzero += 1
            if dv > 1e-11 * sc:
                diffs.append((c, dv, sc))
        res.cov["disagreements_checked"] = len(cases)
        res.cov["blocks_compared_between_builds"] = len(cases); res.cov["nonzero_blocks"] = nonzero
        res.cov["evaluations"] = progs + len(cases); res.cov["distinct_nontrivial"] = progs
        res.sample({"class": "Q(1,1,1)", "A_triples": d1["classes"][(1, 1, 1)]["A"][:6], "n_unrolled_terms": len(d1["classes"][(1, 1, 1)]["terms"])})
        res.sample({"two_build_case": cases[0]["id"]})
        seen = set()
        for cfg, b in bads:
            cls_ = b.split()[1]
            if cls_ in seen or len(seen) >= 3:
                continue
            seen.add(cls_)
            m = re.match(r"Q\((\d+),(\d+),(\d+)\)", cls_)
            res.violation("gen-%d" % len(seen), {"theorem_or_correspondence": "generated class = generic contraction with exact angular factors (translation validation)",
                                                 "input": {"configuration": cfg, "class": cls_}, "observed": [x for c_, x in bads if x.split()[1] == cls_][:8], "n_findings": len(bads)})
        gseen = set()
        for u, l in gate_bad:
            t = l.split()
            cls_ = "Q(%s,%s,%s)" % (t[4], t[5], t[6])
            if (u, cls_) in gseen or len(gseen) >= 3:
                continue
            gseen.add((u, cls_))
            res.violation("gate-u%d-%s" % (u, cls_.replace("(", "").replace(")", "").replace(",", "")),
                          {"theorem_or_correspondence": "the generator emits one line for every non-zero term of an unrolled class and keeps every radial triple a rolled-up class needs (reported by the generator itself at its emission gate, LIBECPINT_VERIF_GATE_REPORT)",
                           "input": {"configuration": "LIBECPINT_MAX_UNROL=%d" % u, "class": cls_, "dropped": l},
                           "observed": [x for uu, x in gate_bad if uu == u and x.split()[4:7] == t[4:7]][:6], "n_dropped_combinations": len([1 for uu, _ in gate_bad if uu == u])})
        if not proofs_ok:
            proof_broken(res, PID, "Properties_C09.v")
        for cfg, diag_ in obl_failed:
            # the obligation over the regenerated lines no longer checks; a concrete failing input is a two-build difference
            # in one of the classes the diagnostics name (found above if any), otherwise none was found
            txt = " ".join(diag_)
            named = sorted(set(re.findall(r"\((\d+), (\d+), (\d+),\s*\[", txt.replace("%nat", ""))))
            hit = [(c, dv, sc) for (c, dv, sc) in diffs if any(("_%s%s%s_" % k) in c["id"] for k in named)]
            payload = {"theorem_or_correspondence": "gen/Obl_C09%s.v: config_ok classes = true (every generated line carries the exact coefficient, none missing, none duplicated)" % ("" if cfg == "_u1" else cfg),
                       "failing_classes": ["Q(%s,%s,%s)" % k for k in named], "diagnostics (na, nb, mui, code, key)": diag_}
            if hit:
                c, dv, sc = hit[0]
                payload.update({"input": c, "observed": "two builds differ by %.3e on a block of scale %.3e" % (dv, sc)})
                res.violation("obligation%s" % cfg, payload)
            else:
                res.violation("obligation%s" % cfg, payload, no_input=True)
        for c, dv, sc in diffs[:2]:
            res.violation("build-" + c["id"], {"theorem_or_correspondence": "two builds of the same tree agree to 1e-11 x max|block|", "input": c,
                                               "observed": "max difference %.3e on a block of scale %.3e (MAX_UNROL=1 vs MAX_UNROL=0)" % (dv, sc), "n": len(diffs)})
    finally:
        shutil.rmtree(tmp, ignore_errors=True)
    res.cov["explanation"] = ("Coq: Properties_C09.v (a class that passes the rational checker computes rolled_up up to eps*sum|terms| + delta*extras, for all leaves) "
                              "and the per-run theorem generated_ok_now over the lines the generator built from this tree emitted; OCaml (extracted exact model): triple lists, "
                              "dims, nbase, QGEN table; two real builds compared on sampled inputs")
    res.assumptions += ["translators/t_gen.py parses the generated sources (term grammar; unparsed lines are reported)",
                        "exact-rational angular model for the unrolled coefficients; the implementation's own Omega table (verified entry by entry by C13) for the sparsity pattern of the large classes",
                        "MAX_UNROL >= 2 is not built (translation units of 20 MB to 700 MB); for MAX_UNROL = 2, 3 (thorough: 4) the generator's emission gate is interrogated through the hook instead: no combination with a non-zero term may be rejected"]
    return res.finish()
