"""C10 — thread safety of the integral engine."""
import os, sys, shutil, subprocess
sys.path.insert(0, os.path.join(os.path.dirname(os.path.abspath(__file__)), "..", "translators"))
from vcommon import *
import gen, t_glob

PID = "C10"
LEVEL = "proof"


def run(tier, replay=None):
    res = Result(PID, tier, LEVEL)
    res.cov["rule"] = ("proof obligations: Properties_C10.v (race freedom of every program of the shape 'construct what is shared, then T workers "
                       "compute on shared engines / construct and use private engines' under an ok footprint; race existence otherwise) + per-run "
                       "obligation fp_ok(fp_from_source)=true over the footprint T-glob scans from the sources. Correspondence: a ThreadSanitizer build "
                       "of the working tree runs the program shapes (shared engine, private engines, mixed, mixed with private engines of larger limits than the one in use; T threads released together); TSan's verdict "
                       "must equal the model's has_race for each shape, and every thread's results must equal the serial run bit for bit")
    root = build_lib("rel")
    d = t_glob.extract(os.path.join(root, "src"), os.path.join(root, "b", "src", "generated"))
    res.cov["footprint_from_source"] = {k: d[k] for k in ("shared", "ctor_global_writes", "ctor_global_reads", "compute_global_writes", "compute_global_reads",
                                                          "compute_engine_writes", "once_guarded", "detail", "n_functions", "n_files")}
    os.makedirs(os.path.join(COQ, "gen"), exist_ok=True)
    t_glob.emit(d, os.path.join(COQ, "gen", "Globals.v"))
    Ts = [2, 4, 8] if tier == "quick" else [2, 3, 4, 8, 12, 16]
    shapes = [(s, T) for s in ("shared", "private", "mixed", "grow", "copies") for T in Ts]
    def bodies(s, T):
        if s == "shared":
            return "[" + "; ".join("[Compute 0; Compute 0]" for _ in range(T)) + "]"
        if s == "private":
            return "[" + "; ".join("[Construct %d; Compute %d]" % (i + 1, i + 1) for i in range(T)) + "]"
        return "[" + "; ".join(["[Compute 0; Compute 0]"] + ["[Construct %d; Compute %d]" % (i + 1, i + 1) for i in range(1, T)]) + "]"
    with open(os.path.join(COQ, "gen", "Obl_C10.v"), "w") as f:
        f.write("From Coq Require Import List.\nImport ListNotations.\nFrom LV Require Import Race.RaceModel Race.RaceProofs gen.Globals.\n")
        f.write("Eval vm_compute in (%s).\n" % " :: ".join("has_race fp_from_source %s" % bodies(s, T) for s, T in shapes) + " :: nil).\n" if False else
                "Eval vm_compute in [%s].\n" % "; ".join("has_race fp_from_source %s" % bodies(s, T) for s, T in shapes))
        f.write("Theorem fp_from_source_ok : fp_ok fp_from_source = true.\nProof. vm_compute. reflexivity. Qed.\n"
                "Theorem C10_source_race_free : forall bodies, private_ctors bodies -> has_race fp_from_source bodies = false.\n"
                "Proof. intros. apply compute_race_free; [exact fp_from_source_ok|assumption]. Qed.\nPrint Assumptions C10_source_race_free.\n")
    ok = coq_properties(res, PID)
    coq_make(["Race/RaceProofs.vo"])
    rc1, o1 = coqc("gen/Globals.v")
    rc2, o2 = coqc("gen/Obl_C10.v") if rc1 == 0 else (1, o1)
    pred = re.search(r"=\s*\[([^\]]*)\]", o2.replace("\n", " "))
    model = [x.strip() == "true" for x in pred.group(1).split(";")] if pred else None
    res.cov["obligations"] += 2
    obligation_ok = (rc2 == 0)
    if obligation_ok:
        res.cov["discharged"] += 2
    else:
        res.cov["obligation_error"] = o2[-600:]
    if model is None:
        # the Eval comes before the failing theorem, so it is printed even when the obligation fails
        raise RuntimeError("could not read the model's race predictions:\n" + o2[-1500:])
    # ---- TSan runs
    rng = SplitMix(seed() * 1000 + 10)
    C = [0.0, 0.0, 0.0]
    case = {"id": "race", "shells": [gen.rand_shell(rng, 0, [0.3, 0.2, -0.5], nprim=2), gen.rand_shell(rng, 1, [-0.8, 0.4, 0.1], nprim=1), gen.rand_shell(rng, 2, C, nprim=1)],
            "ecps": [gen.rand_ecp(rng, 2, C, nper=(1, 1)), gen.rand_ecp(rng, 1, [1.1, -0.3, 0.6], nper=(1, 1))]}
    # compact off-centre shells next to the shell on the first ECP's centre: their pairs with it leave the small radial grid unconverged
    # and take the big-grid fallback of the quadrature (round 6: scratch space of that branch moved into the shared engine)
    case["shells"] += [{"l": 0, "c": [0.6, -0.5, 0.4], "e": [rng.uniform(90.0, 140.0)], "d": [1.0]},
                       {"l": 1, "c": [-0.9, 0.7, 1.1], "e": [rng.uniform(20.0, 30.0)], "d": [1.0]}]
    tmp = scratch_dir()
    try:
        cf = os.path.join(tmp, "case.txt"); gen.write_cases(cf, [case])
        exe = compile_driver("drv_race.cpp", "tsan", opt="-O1")
        env = {"TSAN_OPTIONS": "exitcode=66 halt_on_error=0 report_signal_unsafe=0 history_size=4"}
        reps = 2 if tier == "quick" else 6
        # serial reference (also under TSan build; single thread)
        rc, out = sh([exe, "serial", "2", str(reps), cf, os.path.join(tmp, "serial.txt")], env=env, check=False, timeout=1800)
        ser = open(os.path.join(tmp, "serial.txt")).read().split("\n")[0].split()[2:] if rc == 0 else None
        verdicts = []; bit_bad = []; runs = 0
        # per-thread serial reference of the integrator-copies shape (thread 0 does different work from the others)
        ser_copies = {}
        for T in Ts:
            of = os.path.join(tmp, "serial_copies_%d.txt" % T)
            rcs, _ = sh([exe, "copies-serial", str(T), str(reps), cf, of], env=env, check=False, timeout=1800)
            if rcs == 0:
                ser_copies[T] = [l.split()[2:] for l in open(of) if l.split()]
        procs = []
        for (s, T) in shapes:
            of = os.path.join(tmp, "o_%s_%d.txt" % (s, T))
            procs.append((s, T, of, subprocess.Popen([exe, s, str(T), str(reps), cf, of], env=dict(os.environ, **env), stdout=subprocess.PIPE, stderr=subprocess.STDOUT)))
        for s, T, of, p in procs:
            o, _ = p.communicate(timeout=3600); runs += 1
            o = o.decode()
            raced = (p.returncode == 66) or ("ThreadSanitizer: data race" in o)
            if p.returncode not in (0, 66):
                verdicts.append((s, T, "crash", o[-500:])); continue
            where = re.findall(r"#0 ([^\n]*)", o)[:2]
            verdicts.append((s, T, raced, where))
            if s == "copies":
                if os.path.exists(of) and T in ser_copies:
                    for i, l in enumerate(open(of)):
                        t = l.split()
                        if len(t) >= 4 and i < len(ser_copies[T]) and t[2:] != ser_copies[T][i]:
                            bit_bad.append((s, T, l.strip(), " ".join(ser_copies[T][i])))
            elif os.path.exists(of) and ser:
                for l in open(of):
                    t = l.split()
                    if len(t) >= 4 and t[2:] != ser:
                        bit_bad.append((s, T, l.strip(), " ".join(ser)))
        res.cov["evaluations"] = runs + 1
        res.cov["distinct_nontrivial"] = len(shapes)
        res.cov["traces_validated_against_impl"] = runs
        res.cov["shapes"] = [{"shape": s, "threads": T, "model_has_race": m, "tsan": v} for (s, T), m, (_, _, v, _) in zip(shapes, model, verdicts)]
        for (s, T), m, v in list(zip(shapes, model, verdicts))[:3]:
            res.sample({"shape": s, "threads": T, "bodies": bodies(s, T), "model_has_race": m, "tsan_race": v[2]})
        # ---- verdict
        racy = [(s, T, w) for (s, T, v, w) in verdicts if v is True]
        if racy:
            s, T, w = racy[0]
            res.violation("race", {"theorem_or_correspondence": "compute_race_free / per-run obligation fp_ok(fp_from_source)", "input": {"shape": s, "threads": T, "program": bodies(s, T), "system": case},
                                   "observed": "ThreadSanitizer: data race", "frames": w, "footprint": res.cov["footprint_from_source"], "all_racy_shapes": [(a, b) for a, b, _ in racy]})
        crashes = [v for v in verdicts if v[2] == "crash"]
        if crashes and not res.violations:
            res.violation("crash", {"theorem_or_correspondence": "TSan run of shape %s T=%d" % crashes[0][:2], "detail": crashes[0][3]}, no_input=True)
        if bit_bad and not res.violations:
            res.violation("bits", {"theorem_or_correspondence": "every concurrent call returns the bits of the serial call", "input": {"shape": bit_bad[0][0], "threads": bit_bad[0][1], "system": case}, "observed": bit_bad[0][2:]})
        mismatch = [(s, T, m, v[2]) for (s, T), m, v in zip(shapes, model, verdicts) if v[2] in (True, False) and m != v[2]]
        if mismatch and not res.violations:
            res.violation("model", {"theorem_or_correspondence": "RaceModel with T-glob's footprint vs ThreadSanitizer verdict per shape", "mismatches": mismatch,
                                    "footprint": res.cov["footprint_from_source"]}, no_input=True)
        elif mismatch:
            res.cov["model_vs_tsan_mismatches"] = mismatch
        if not obligation_ok and not res.violations:
            res.violation("obligation", {"theorem_or_correspondence": "gen/Obl_C10.v: fp_ok(fp_from_source) = true", "detail": res.cov.get("obligation_error"),
                                         "footprint": res.cov["footprint_from_source"]}, no_input=True)
        if not ok and not res.violations:
            proof_broken(res, PID, "Properties_C10.v no longer checks")
    finally:
        shutil.rmtree(tmp, ignore_errors=True)
    res.assumptions += ["translators/t_glob.py is a lexical scan (namespace-scope / static / mutable objects, writes, name-based call graph)",
                        "ThreadSanitizer (clang 14) observes the executed accesses; happens-before analysis covers every schedule of those accesses",
                        "memory-model details below the event abstraction (allocator, iostream in error paths) are observed by TSan only"]
    return res.finish()
