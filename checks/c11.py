"""C11 — memory safety, UB freedom, termination and finiteness."""
import os, sys, shutil, subprocess
from vcommon import *
import tab_k
import gen

PID = "C11"
LEVEL = "proof"


def make_cases(rng, tier, maxl):
    cases = []
    for order in (0, 1, 2):
        lim = maxl - order
        for LA in range(lim + 1):
            for LB in range(lim + 1):
                lams = range(maxl + 1) if tier == "thorough" else sorted(set([rng.randint(0, maxl), maxl if (LA + LB) % 3 == 0 else rng.randint(0, 2)]))
                for L in lams:
                    for (onA, onB) in ((False, False), (True, False), (False, True), (True, True)):
                        if tier == "quick" and order == 2 and (LA + LB) > 4 and (onA or onB) and L > 2:
                            continue
                        C = [rng.uniform(-1, 1) for _ in range(3)]
                        def centre(on):
                            if on:
                                return list(C)
                            d = rng.choice([rng.loguniform(2e-6, 1e-3), rng.uniform(0.1, 5), rng.uniform(5, 60)])
                            return [c + d * x for c, x in zip(C, gen.rand_dir(rng))]
                        A, B = centre(onA), centre(onB)
                        sa = gen.rand_shell(rng, LA, A, nprim=rng.randint(1, 3), emin=1e-3, emax=1e6)
                        sb = gen.rand_shell(rng, LB, B, nprim=rng.randint(1, 3), emin=1e-3, emax=1e6)
                        u = gen.rand_ecp(rng, L, C, nper=(1, 2), amin=1e-2, amax=1e4)
                        cases.append({"id": "w%d_o%d_%d%d%d_%d%d" % (len(cases), order, LA, LB, L, onA, onB), "extra": {"order": order}, "shells": [sa, sb], "ecps": [u]})
                    # the same class with moderate parameters and every power of r in every channel, so that the main evaluation
                    # path of the class (closed-form radial cases, every generated Q function) really runs
                    C = [rng.uniform(-1, 1) for _ in range(3)]
                    A = [c + rng.uniform(0.5, 2.0) * x for c, x in zip(C, gen.rand_dir(rng))]; B = [c + rng.uniform(0.5, 2.0) * x for c, x in zip(C, gen.rand_dir(rng))]
                    sa = gen.rand_shell(rng, LA, A, nprim=1, emin=0.4, emax=2.5); sb = gen.rand_shell(rng, LB, B, nprim=1, emin=0.4, emax=2.5)
                    u = {"c": C, "p": [{"n": n_, "l": l_, "a": rng.uniform(0.5, 3.0), "d": rng.uniform(0.5, 3.0)} for l_ in range(L + 1) for n_ in (0, 1, 2)]}
                    cases.append({"id": "w%d_o%d_%d%d%d_mod" % (len(cases), order, LA, LB, L), "extra": {"order": order}, "shells": [sa, sb], "ecps": [u]})
    return cases


def run(tier, replay=None):
    res = Result(PID, tier, LEVEL)
    res.cov["rule"] = ("proof obligations: Properties_C11.v (every index expression of the modelled layers is within its dimension, for all L / all N / all grid "
                       "levels) — what a theorem cannot give (uninitialised reads, stack arrays, signed overflow, NaN/Inf, termination in floating point) is explored: an "
                       "ASan+UBSan(-fno-sanitize-recover) + _GLIBCXX_ASSERTIONS build of the working tree with the per-dimension index assertions of the hooks runs "
                       "every (LA,LB,lambda_max,derivative order,A on/off centre,B on/off centre) class within MAX_L (quick: lambda sampled) with exponents 1e-3..1e6, "
                       "distances 2e-6..60 and powers 0..2, plus one moderate-parameter case per class with every power in every channel; every returned number must be finite; valgrind memcheck (uninitialised values) on a reduced sweep")
    ok = coq_properties(res, PID)
    tab_ok, tab_fail = tab_k.obligations(res, PID)
    if not ok:
        proof_broken(res, PID, "Properties_C11.v no longer checks")
    root = build_lib("asan")
    maxl = int(re.search(r"#define LIBECPINT_MAX_L (\d+)", open(os.path.join(root, "b/include/libecpint/config.hpp")).read()).group(1))
    rng = SplitMix(seed() * 1000 + 11)
    cases = make_cases(rng, tier, maxl)
    tmp = scratch_dir()
    try:
        exe = compile_driver("drv_sweep.cpp", "asan", opt="-O1")
        nshard = NPROC
        procs = []
        for k in range(nshard):
            sub = cases[k::nshard]
            cf = os.path.join(tmp, "c%d.txt" % k); of = os.path.join(tmp, "o%d.txt" % k)
            gen.write_cases(cf, sub)
            env = dict(os.environ, ASAN_OPTIONS="detect_leaks=0:abort_on_error=0:exitcode=77", UBSAN_OPTIONS="print_stacktrace=1:halt_on_error=1:exitcode=78")
            procs.append((k, sub, of, subprocess.Popen(["timeout", "3000", exe, cf, of], stdout=subprocess.PIPE, stderr=subprocess.PIPE, env=env)))
        bad = []; nvals = 0; ncomp = 0
        for k, sub, of, p in procs:
            o, e = p.communicate()
            e = e.decode("utf-8", "replace")
            last = None
            if os.path.exists(of):
                for l in open(of):
                    if l.startswith("begin"):
                        last = l.split()[1]
                    elif l.startswith("NONFINITE"):
                        bad.append((l.split()[1], "non-finite value in " + l.split()[2]))
                    elif l.startswith("SUMMARY"):
                        kv = dict(x.split("=") for x in l.split()[1:]); nvals += int(kv["values"]); ncomp += int(kv["cases"])
            if p.returncode != 0:
                kind = "timeout (no termination within the budget)" if p.returncode == 124 else "sanitizer / assertion / crash (exit %d)" % p.returncode
                rep = [x for x in e.splitlines() if ("ERROR" in x or "runtime error" in x or "index violation" in x or "Assertion" in x or "SUMMARY" in x)][:6]
                bad.append((last, kind + ": " + " | ".join(rep)))
        # valgrind memcheck for uninitialised values on a reduced sweep (release build with hooks)
        vg = []
        rexe = compile_driver("drv_sweep.cpp", "rel")
        sub = [c for c in cases if (c["shells"][0]["l"] + c["shells"][1]["l"]) <= 3][:: (25 if tier == "quick" else 6)][: (12 if tier == "quick" else 80)]
        # ECPs whose top angular momentum is the build's maximum (the last l_starts range), and every ECP used through a stored copy
        top = [c for c in cases if max(p["l"] for p in c["ecps"][0]["p"]) == maxl and (c["shells"][0]["l"] + c["shells"][1]["l"]) <= 2 and c["extra"].get("order", 0) == 0][: (3 if tier == "quick" else 12)]
        sub = [dict(c, extra=dict(c["extra"], via_copy=1)) for c in sub + top]
        res.cov["valgrind_cases_with_top_L_ecp"] = len(top)
        cf = os.path.join(tmp, "vg.txt"); gen.write_cases(cf, sub)
        rc, out = sh(["valgrind", "--error-exitcode=79", "--track-origins=no", "-q", rexe, cf, os.path.join(tmp, "vgo.txt")], check=False, timeout=3000)
        done_vg = [l.split()[1] for l in open(os.path.join(tmp, "vgo.txt"))] if os.path.exists(os.path.join(tmp, "vgo.txt")) else []
        done_vg = [x for x in done_vg if x.startswith("w")]
        if rc == 79:
            vg = [l for l in out.splitlines() if "uninitialised" in l or "Invalid" in l][:6]
            bad.append((sub[0]["id"], "valgrind memcheck: " + " | ".join(vg)))
        elif rc != 0:
            # the run under valgrind died (signal / abort): the case it was working on is the replay
            last_vg = done_vg[-1] if done_vg else sub[0]["id"]
            bad.append((last_vg, "the driver died under valgrind memcheck (exit %d) in case %s: %s" % (rc, last_vg, " | ".join(out.splitlines()[-12:])[-900:])))
        res.cov["evaluations"] = len(cases); res.cov["distinct_nontrivial"] = len(set(c["id"].split("_", 1)[1] for c in cases))
        res.cov["completed_cases"] = ncomp; res.cov["values_checked_finite"] = nvals; res.cov["valgrind_cases"] = len(sub)
        res.cov["exhaustive"] = (tier == "thorough")
        oh = {}
        for c in cases:
            oh[str(c["extra"]["order"])] = oh.get(str(c["extra"]["order"]), 0) + 1
        res.cov["order_histogram"] = oh
        res.cov["traces_validated_against_impl"] = ncomp
        res.sample({"id": cases[0]["id"], "expsA": cases[0]["shells"][0]["e"]}); res.sample({"id": cases[-1]["id"]})
        by = {c["id"]: c for c in cases}
        for cid, msg in bad[:3]:
            c = by.get(cid)
            res.violation("mem-%s" % (cid or "unknown"), {"theorem_or_correspondence": "no sanitizer report, no index assertion, termination, finite outputs",
                                                          "input": {k: v for k, v in (c or {}).items() if k != "extra"} if c else None, "order": (c or {}).get("extra", {}).get("order"),
                                                          "observed": msg, "n": len(bad)}, no_input=(c is None))
    finally:
        shutil.rmtree(tmp, ignore_errors=True)
    res.assumptions += ["ASan/UBSan/valgrind observe the executed paths only; the index theorems cover all L/N for the modelled layers",
                        "the case being processed when a shard aborts is identified by the last 'begin' line the driver flushed"]
    tab_k.report(res, PID, tab_ok, tab_fail)
    return res.finish()
