"""C12 — primitive radial integrals equal their defining one-dimensional integral."""
import os, sys, shutil, glob, math
sys.path.insert(0, os.path.join(os.path.dirname(os.path.abspath(__file__)), "..", "translators"))
from vcommon import *
import t_rad

PID = "C12"
LEVEL = "proof"

OBL = """From Coq Require Import ZArith QArith List Bool Reals.
Import ListNotations.
From LV Require Import Radial.RadialSym Radial.RadialSound Radial.RadialTable gen.RadialCases.
Local Open Scope Z_scope.
(* every coefficient is a Laurent polynomial in (p,x,y) (all divisors are monomials, no integer/integer
   division), base cases T(k,0,0) = values[k-2], and every case whose three predecessors are in the table
   satisfies the recurrence it is derived from (exact rational-function identity) *)
Theorem table_ok_now : RadialTable.table_ok cases = true.
Proof. vm_compute. reflexivity. Qed.
Print Assumptions table_ok_now.
Theorem table_wf_now : table_wf cases = true.
Proof. vm_compute. reflexivity. Qed.
(* hence (RadialTable.case_value): for every p, x, y <> 0 and every family T satisfying the base cases and the two
   recurrences, the exact-arithmetic value of the case the switch selects for (i,j,k) is T(i,j,k) -- given the cases
   the recurrences do not reach (printed below as VUnchecked; they are compared numerically) *)
Theorem cases_sound : forall (p x y : R) (vals : basis -> R) (Tf : Z -> Z -> Z -> R),
  p <> 0%R -> x <> 0%R -> y <> 0%R ->
  (forall k, 1 <= k -> Tf 0 0 k = vals (BV (k - 2))) ->
  (forall j k, 2 <= j -> 2 <= k -> Tf 0 j k = (Tf 0%Z (j - 2)%Z k - IZR (2 * j - 1) / (2 * y) * Tf 0%Z (j - 1)%Z (k - 1)%Z)%R) ->
  (forall i j k, 1 <= i -> 1 <= j -> 2 <= k ->
     Tf i j k = (IZR (2 + j - i - k) / (2 * x) * Tf (i - 1)%Z j (k - 1)%Z - y / x * Tf (i - 1)%Z (j - 1)%Z k + p / x * Tf (i - 1)%Z j (k + 1)%Z)%R) ->
  (forall i j k l, 0 <= j < 100 -> 0 <= k < 100 -> check_case cases (key_of i j k) = VUnchecked ->
     lookup cases i j k = Some l -> elc p x y vals l = Tf i j k) ->
  forall i j k c, 0 <= i -> 0 <= j < 100 -> 0 <= k < 100 ->
    find (fun c => fst c =? key_of i j k) cases = Some c -> ecase p x y vals (snd c) = Tf i j k.
Proof.
  intros p x y vals Tf Hp Hx Hy Sb Sj Si Anch. exact (case_value p x y Hp Hx Hy vals Tf Sb Sj Si cases table_wf_now table_ok_now Anch).
Qed.
Print Assumptions cases_sound.
Set Printing Depth 100000.
Eval vm_compute in (map (fun c => (fst c, check_case cases (fst c), max_index (snd c))) cases).
"""


def hx(x):
    return float(x).hex()


def gen_contracted(rng, tier, triples):
    """cases for the contraction-consistency correspondence (drv_radcon): id nraw A B nU (zeta d)* nA (a c)* nB (b c)* nT (N l1 l2)*"""
    out = []
    tl = sorted(triples)
    hi = [t for t in tl if max(t[1], t[2]) >= 5 and t[1] != t[2]] or tl
    n = 40 if tier == "quick" else 400
    for i in range(n):
        kind = i % 4
        nraw = rng.choice([0, 0, 1, 2])
        if kind == 0:
            # both shells carry the SAME two exponents and sit at the same distance: primitive pairs (i,j) and (j,i) share p and the mapped grid
            e = [rng.loguniform(0.01, 0.06), rng.loguniform(0.01, 0.06)]
            ea, eb = list(e), list(e)
            A = B = rng.uniform(0.8, 3.0)
            zs = [rng.choice([0.05, 0.1, 0.2, rng.loguniform(0.03, 0.5)])]
            tr = [rng.choice(hi) for _ in range(2)] + [rng.choice(tl)]
        elif kind == 1:
            e = [rng.loguniform(0.05, 2.0) for _ in range(rng.randint(2, 3))]
            ea, eb = list(e), list(reversed(e))
            A = B = rng.uniform(0.5, 2.5)
            zs = [rng.loguniform(0.1, 3.0) for _ in range(rng.randint(1, 2))]
            tr = [rng.choice(tl) for _ in range(3)]
        else:
            ea = [rng.loguniform(0.02, 8.0) for _ in range(rng.randint(1, 3))]
            eb = [rng.loguniform(0.02, 8.0) for _ in range(rng.randint(1, 3))]
            A = rng.uniform(0.3, 3.0); B = rng.uniform(0.3, 3.0)
            zs = [rng.loguniform(0.05, 5.0) for _ in range(rng.randint(1, 2))]
            tr = [rng.choice(tl) for _ in range(rng.randint(1, 4))]
        # both orientations of every triple, as the generated classes request them
        tr = tr + [(t[0], t[2], t[1]) for t in tr if t[1] != t[2]]
        tr = list(dict.fromkeys(tr))       # no triple twice in one call (type2 accumulates into its output slots; no generated class lists a triple twice)
        parts = ["k%d" % i, str(nraw), hx(A), hx(B), str(len(zs))]
        for z in zs:
            parts += [hx(z), hx(rng.uniform(0.5, 3.0) * rng.choice([1, -1]))]
        parts.append(str(len(ea)))
        for a in ea:
            parts += [hx(a), hx(rng.uniform(0.2, 1.5))]
        parts.append(str(len(eb)))
        for b in eb:
            parts += [hx(b), hx(rng.uniform(0.2, 1.5))]
        parts.append(str(len(tr)))
        for t in tr:
            parts += [str(t[0]), str(t[1]), str(t[2])]
        out.append(" ".join(parts))
    return out


def gen_cases(rng, tier, keys, triples):
    out = []
    def add(tag, N, l1, l2, nraw, z, a, b, A, B):
        out.append("%s%d %d %d %d %d %s %s %s %s %s" % (tag, len(out), N, l1, l2, nraw, hx(z), hx(a), hx(b), hx(A), hx(B)))
    reps = 1 if tier == "quick" else 4
    for key in keys:
        i, j, k = key // 10000, (key // 100) % 100, key % 100
        for nraw in (0, 1, 2):
            N = k - nraw
            if N < 0:
                continue
            for _ in range(reps):
                # generic
                add("g", N, i, j, nraw, rng.loguniform(0.3, 5), rng.loguniform(1.0, 6), rng.loguniform(1.0, 6), rng.uniform(1.0, 3), rng.uniform(1.0, 3))   # x, y >= 1
                # both sides of a*b = 0.002
                a = rng.loguniform(0.02, 0.2)
                for f in (0.98, 1.02):
                    add("s", N, i, j, nraw, rng.loguniform(0.05, 2), a, 0.002 * f / a, rng.uniform(0.5, 4), rng.uniform(0.5, 4))
                # x = y (P2 = 0) and nearly so
                a = rng.loguniform(0.3, 5); A = rng.uniform(0.3, 3)
                add("e", N, i, j, nraw, rng.loguniform(0.3, 5), a, a, A, A)
                add("e", N, i, j, nraw, rng.loguniform(0.3, 5), a, a * (1 + 1e-9), A, A)
                # nearly symmetric pairs, 0 < |P2| = |bB - aA|/p from 1e-10 to 3e-3: on both sides of the library's |P2| < 1e-7 guard
                a = rng.loguniform(0.3, 5); A = rng.uniform(0.5, 2.5)
                for dt in (rng.loguniform(1e-9, 1e-6), rng.loguniform(1e-6, 1e-2)):
                    add("n", N, i, j, nraw, rng.loguniform(0.3, 5), a, a * (1 + dt), A, A)
                # small aA / bB
                add("m", N, i, j, nraw, rng.loguniform(0.3, 5), rng.loguniform(0.3, 5), rng.loguniform(0.3, 5), rng.loguniform(1e-6, 1e-2), rng.uniform(0.3, 3))
                # the property's full ranges
                add("w", N, i, j, nraw, rng.loguniform(5e-2, 2e3), rng.loguniform(1e-2, 1e4), rng.loguniform(1e-2, 1e4), rng.loguniform(1e-6, 30), rng.loguniform(1e-6, 30))
    # triples requested by generated classes that have no closed form (or l1 > l2)
    tl = sorted(triples); rng.shuffle(tl)
    for (N, l1, l2) in tl[: (250 if tier == "quick" else 3000)]:
        nraw = rng.randint(0, 2)
        add("q", N, l1, l2, nraw, rng.loguniform(0.1, 20), rng.loguniform(0.05, 20), rng.loguniform(0.05, 20), rng.uniform(0.2, 4), rng.uniform(0.2, 4))
        add("r", N, l1, l2, nraw, rng.loguniform(5e-2, 2e3), rng.loguniform(1e-2, 1e4), rng.loguniform(1e-2, 1e4), rng.loguniform(1e-6, 30), rng.loguniform(1e-6, 30))
    # far and diffuse, high power of r: the quadrature route where r^k keeps the integrand alive far beyond the Gaussian's centre
    hi = [t for t in tl if t[0] >= 6] or tl
    for q in range(40 if tier == "quick" else 400):
        (N, l1, l2) = hi[q % len(hi)]
        add("f", N, l1, l2, rng.randint(0, 2), rng.loguniform(0.03, 0.1), rng.loguniform(0.02, 0.1), rng.loguniform(0.02, 0.1), rng.uniform(12, 30), rng.uniform(12, 30))
    return out


def run(tier, replay=None):
    res = Result(PID, tier, LEVEL)
    res.cov["rule"] = ("proof obligations: Properties_C12.v + per-run theorem table_ok over the case table T-rad regenerates from radial_gen.cpp "
                       "(Laurent normal form of every coefficient; base cases; recurrence identities R_j / R_i between table entries). Correspondence (tight): the numeric model of the closed-form path (base integrals, seeds, the translated case evaluated statement by statement), extracted together with the table translated on this run, reproduces every closed-form value of the library to 1e-10 x sum|terms|. Correspondence (truth): "
                       "every closed-form key x power n in {0,1,2} x {generic, both sides of a*b=0.002, x=y, small aA, full ranges, far+diffuse with high powers of r} and triples that "
                       "generated classes request without closed form, through RadialIntegral::type2(triples,...) with single primitives, against a "
                       "self-validating composite Gauss-Legendre evaluation of the DEFINITION (1e-6 rel + 1e-9 abs); deviations are re-evaluated with the "
                       "tail cut disabled / the closed form disabled (hooks) to attribute them. distinct = distinct case lines")
    root = build_lib("rel")
    os.makedirs(os.path.join(COQ, "gen"), exist_ok=True)
    d = t_rad.extract(os.path.join(root, "src"))
    t_rad.emit(d, os.path.join(COQ, "gen", "RadialCases.v"))
    res.cov["closed_form_cases"] = len(d["cases"]); res.cov["MIN_EXP"] = d["min_exp"]
    bad_parse = [k for k, c in d["cases"].items() if c["n_statements"] != len(c["terms"])]
    open(os.path.join(COQ, "gen", "Obl_C12.v"), "w").write(OBL)
    ok = coq_properties(res, PID)
    coq_make(["Radial/RadialTable.vo"])
    rc1, o1 = coqc("gen/RadialCases.v")
    rc2, o2 = coqc("gen/Obl_C12.v") if rc1 == 0 else (1, o1)
    res.cov["obligations"] += 1
    obligation_ok = rc2 == 0 and not bad_parse
    if obligation_ok:
        res.cov["discharged"] += 1
        verd = re.findall(r"\(\s*(\d+)(?:%Z)?,\s*(V\w+),\s*(-?\d+|\(-\d+\))(?:%Z)?\)", o2.replace("\n", " "))
        if len(verd) != len(d["cases"]):
            raise RuntimeError("could not read the verdict list printed by gen/Obl_C12.v")
        res.cov["case_verdicts"] = {v: sum(1 for x in verd if x[1] == v) for v in ("VBase", "VRj", "VRi", "VUnchecked")}
        res.cov["unchecked_by_recurrence"] = [int(x[0]) for x in verd if x[1] == "VUnchecked"]
    else:
        res.cov["obligation_error"] = (o1 + o2)[-800:]
    bad_keys = []
    if not obligation_ok and rc1 == 0:
        probe = ("From Coq Require Import ZArith QArith List Bool.\nImport ListNotations.\nFrom LV Require Import Radial.RadialSym gen.RadialCases.\nSet Printing Depth 100000.\n"
                 "Eval vm_compute in (map fst (filter (fun c => is_bad (check_case cases (fst c))) cases)).\n")
        open(os.path.join(COQ, "gen", "Probe_C12.v"), "w").write(probe)
        rc3, o3 = coqc("gen/Probe_C12.v")
        bad_keys = [int(x) for x in re.findall(r"(\d+)%Z", o3)]
    # triples requested by generated classes
    triples = set()
    for f in glob.glob(os.path.join(root, "b/src/generated/Q*.cpp")):
        for m in re.finditer(r"Triple\{(\d+), (\d+), (\d+)\}", open(f).read()):
            triples.add(tuple(int(x) for x in m.groups()))
    res.cov["distinct_triples_requested_by_generated_classes"] = len(triples)
    keys = sorted(d["cases"])
    rng = SplitMix(seed() * 1000 + 12)
    cs = gen_cases(rng, tier, keys, triples)
    # the failing table entries first (search for a concrete failing input)
    for bk in bad_keys:
        i, j, k = bk // 10000, (bk // 100) % 100, bk % 100
        for nraw in (0, 1, 2):
            if k - nraw >= 0:
                cs.insert(0, "b%d_%d %d %d %d %d %s %s %s %s %s" % (bk, nraw, k - nraw, i, j, nraw, hx(1.3), hx(0.9), hx(1.1), hx(0.8), hx(1.2)))
    tmp = scratch_dir()
    try:
        cf = os.path.join(tmp, "cases.txt"); open(cf, "w").write("\n".join(cs) + "\n")
        exe = compile_driver("drv_radial.cpp", "rel", extra=["-I%s/src/external/Faddeeva" % root])
        of = os.path.join(tmp, "out.txt")
        rc, out = sh([exe, cf, of], check=False, timeout=7200)
        if rc != 0:
            raise RuntimeError("drv_radial failed: " + out[-2000:])
        # ---- numeric model of the closed-form path (Radial/RadialNum.v) on the table translated on THIS run: extracted together
        #      with gen/RadialCases.v and run against the library's values of the same cases
        # ---- contraction consistency: the contracted call = coefficient-weighted sum of single-primitive calls
        con_bad = []
        ccs = gen_contracted(rng, tier, triples)
        ccf = os.path.join(tmp, "ccases.txt"); open(ccf, "w").write("\n".join(ccs) + "\n")
        exe_c = compile_driver("drv_radcon.cpp", "rel")
        cof = os.path.join(tmp, "cout.txt")
        rcc, outc = sh([exe_c, ccf, cof], check=False, timeout=7200)
        if rcc != 0:
            raise RuntimeError("drv_radcon failed: " + outc[-2000:])
        for l in open(cof):
            if l.startswith("CONMISMATCH"):
                con_bad.append(l.strip())
            elif l.startswith("SUMMARY"):
                res.cov["contraction_consistency"] = dict(x.split("=") for x in l.split()[1:])
        cby = {c.split()[0]: c for c in ccs}
        radnum_bad = []; radnum_note = None
        if rc1 == 0:
            coq_make(["Radial/RadialNum.vo"])
            open(os.path.join(tmp, "ExtractRad.v"), "w").write(
                "From Coq Require Extraction.\nFrom Coq Require Import ExtrOcamlBasic.\n"
                "From LV Require Import Base.NumOps Radial.RadialSym Radial.RadialNum gen.RadialCases.\n"
                "Extraction Language OCaml.\nExtraction \"radnum.ml\" mkNumOps closed_value cases.\n")
            rcx, ox = sh(["coqc", "-Q", COQ, "LV", "ExtractRad.v"], cwd=tmp, check=False, timeout=600)
            shutil.copy(os.path.join(OCAML, "radnum_main.ml"), os.path.join(tmp, "drv_radnum.ml"))
            rcy, oy = sh(["ocamlfind", "ocamlopt", "-w", "-a", "radnum.mli", "radnum.ml", "drv_radnum.ml", "-o", "drv_radnum"], cwd=tmp, check=False, timeout=600) if rcx == 0 else (1, ox)
            if rcy != 0:
                raise RuntimeError("extraction of the numeric radial model failed: " + (ox + oy)[-1500:])
            rcz, oz = sh([os.path.join(tmp, "drv_radnum"), of, "1e-10"], check=False, timeout=3600)
            sz = [l for l in oz.splitlines() if l.startswith("SUMMARY")]
            if rcz != 0 or not sz:
                raise RuntimeError("drv_radnum failed: " + oz[-1500:])
            kvz = dict(x.split("=") for x in sz[0].split()[1:])
            res.cov["closed_form_values_reproduced_by_the_extracted_model"] = int(kvz["compared"]) - int(kvz["mismatches"])
            res.cov["closed_form_values_compared_with_the_extracted_model"] = int(kvz["compared"])
            radnum_bad = [l for l in oz.splitlines() if l.startswith("MISMATCH")]
        else:
            radnum_note = "gen/RadialCases.v does not compile; the numeric model was not run"
        rc, out = sh([os.path.join(OCAML, "drv_radial"), of], check=False, timeout=7200)
        if rc != 0:
            raise RuntimeError("model driver failed: " + out[-2000:])
        by = {c.split()[0]: c for c in cs}
        nconc = 0; viol = []; paths = {"closed": 0, "quadrature_or_screened": 0}
        kn = {"F-C12-tailcut": [], "F-C12-screen": [], "F-C12-closedform": [], "F-C12-p2guard": [], "F-C15-premature": [], "F-C15-coincidence": []}
        active = set(k.get("id") for k in load_known() if k.get("status") == "known")
        for l in out.splitlines():
            if not l.startswith("R "):
                continue
            t = l.split(); cid = t[1]
            f = dict(x.split("=") for x in t[6:])
            fl = lambda k_: float.fromhex(f[k_])
            true = fl("true"); v = fl("v"); x_ = fl("x"); y_ = fl("y")
            paths["closed" if f["closed"] == "1" else "quadrature_or_screened"] += 1
            if f["ok"] != "true":
                continue
            nconc += 1
            tol = 1e-6 * abs(true) + 1e-9
            good = lambda k_: abs(fl(k_) - true) <= tol
            if abs(v - true) <= tol:
                continue
            # attribution by counterfactual re-evaluation of the SAME input with one decision forced the other way
            cause = None
            if f["closed"] == "1":
                # (the forced quadrature may itself stop early on an estimate below its own tolerance: F-C15-premature)
                cz, ca_, cb_ = [float.fromhex(w) for w in by[cid].split()[5:8]]
                # the recorded finding is about the closed form WHERE THE RECORDED SWITCH SELECTS IT (a*b > 0.002); a deviation of a closed-form
                # value for a primitive pair the recorded rule sends to the quadrature is a different violation (round 6: MIN_EXP halved)
                if min(x_, y_) < 1.0 and ca_ * cb_ > 0.002 and (good("v_quad") or abs(fl("v_quad")) <= 16e-12):
                    cause = "F-C12-closedform"
                else:
                    # the |P2| < 1e-7 guard of the base integrals drops the P2-dependent terms although P2 is not zero
                    P2 = abs(y_ - x_) / (cz + ca_ + cb_)
                    if 0.0 < P2 < 1e-7 and good("v_quad"):
                        cause = "F-C12-p2guard"
            else:
                if good("v_notail"):
                    cause = "F-C12-tailcut"
                elif good("v_noscreen"):
                    cause = "F-C12-screen"
                elif good("v_noscreen_notail"):
                    cause = "F-C12-screen" if f["tailfired"] == "0" else "F-C12-tailcut"
                elif abs(fl("v_noscreen_notail")) <= 16e-12:
                    cause = "F-C15-premature"      # integrate_small runs the one-point scheme at tolerance 1e-12
                elif "v_defer2" in f and (good("v_defer2") or good("v_defer4")):
                    # nothing screened or cut, and the value is restored when the first acceptances of the adaptive quadrature are deferred
                    cause = "F-C15-coincidence"
            if cause and cause in active:
                kn[cause].append((cid, l))
            else:
                viol.append((cid, l, cause or "not attributable to a recorded finding (no forced decision restores the value)"))
        res.cov["evaluations"] = len(cs); res.cov["distinct_nontrivial"] = len(set(c.split(" ", 1)[1] for c in cs))
        res.cov["oracle_conclusive"] = nconc; res.cov["oracle_inconclusive"] = len(cs) - nconc
        res.cov["path_histogram"] = paths
        res.cov["traces_validated_against_impl"] = nconc
        for c in cs[:2] + cs[-1:]:
            res.sample({"case(id N l1 l2 n zeta a b A B)": c})
        for fid, lst in kn.items():
            if lst:
                worst = max(lst, key=lambda cl: abs(float.fromhex(dict(x.split("=") for x in cl[1].split()[6:])["v"]) - float.fromhex(dict(x.split("=") for x in cl[1].split()[6:])["true"])))
                res.known("%s: %d primitive integrals deviate and are restored by forcing the other branch (largest deviation: case %s)" % (fid, len(lst), by[worst[0]]))
        res.cov["known_finding_cases"] = {k: len(v) for k, v in kn.items()}
        for cid, l, why in viol[:3]:
            res.violation("radial-" + cid, {"theorem_or_correspondence": "T = defining integral (1e-6 rel + 1e-9 abs)", "input": by[cid], "observed": l, "attribution": why, "n_violations": len(viol),
                                            "oracle": {"grade": "G3", "what": "composite 20-point Gauss-Legendre of the definition, 64 vs 128 panels agree to 1e-10"}})
        seen_rn = set()
        for l in radnum_bad:
            cid = l.split()[1]
            if cid in seen_rn or len(seen_rn) >= 2:
                continue
            seen_rn.add(cid)
            res.violation("radnum-" + cid, {"theorem_or_correspondence": "Radial/RadialNum.closed_value (extracted with the case table translated on this run) = RadialIntegral::type2 on the closed-form path (1e-10 x sum|terms|)",
                                            "input": by.get(cid), "observed": [x for x in radnum_bad if x.split()[1] == cid][:4], "n": len(radnum_bad)})
        seen_c = set()
        for l in con_bad:
            cid = l.split()[1]
            if cid in seen_c or len(seen_c) >= 2:
                continue
            seen_c.add(cid)
            res.violation("contraction-" + cid, {"theorem_or_correspondence": "RadialIntegral::type2 on contracted shells = coefficient-weighted sum of its values on the primitive triples alone (1e-10 x sum|terms|)",
                                                 "input": {"case(id nraw A B nU (zeta d)* nA (a c)* nB (b c)* nT (N l1 l2)*)": cby.get(cid)}, "observed": [x for x in con_bad if x.split()[1] == cid][:6], "n": len(con_bad)})
        if not obligation_ok and not res.violations:
            res.violation("obligation", {"theorem_or_correspondence": "gen/Obl_C12.v table_ok_now / table_wf_now / cases_sound", "bad_keys": bad_keys, "unparsed_statements_in_keys": bad_parse,
                                         "detail": res.cov.get("obligation_error")}, no_input=True)
        if not ok and not res.violations:
            proof_broken(res, PID, "Properties_C12.v no longer checks")
    finally:
        shutil.rmtree(tmp, ignore_errors=True)
    res.assumptions += ["the recurrences R_j (Bessel three-term recurrence + linearity) and R_i (one integration by parts) are the hypotheses under which the table identities mean 'equals the integral'; the j=1 cases and those whose predecessors are not in the table are covered by the numerical comparison only",
                        "G3 truth: OCaml doubles, composite Gauss-Legendre on [pt-14/sqrt(zt), pt+14/sqrt(zt)], M_l from a positive series / the proved closed form",
                        "hooks (LIBECPINT_VERIF) are used only to re-evaluate the same input with one decision forced the other way"]
    return res.finish()
