"""C13 — angular integral tables and real spherical harmonics."""
import os, sys, shutil, subprocess, math
from vcommon import *

PID = "C13"
LEVEL = "proof"


def run(tier, replay=None):
    res = Result(PID, tier, LEVEL)
    res.cov["rule"] = ("proof obligations: Properties_C13.v (exact rational, finite domains stated in each theorem). Correspondence: "
                       "for each configuration (LB,LE) EVERY stored type-1 and type-2 entry of AngularIntegral is compared (1e-12) with the "
                       "extracted angular model (float instance of the Gallina text, memoised tables), a third of the W entries and the "
                       "lam,rho<=3 Omega entries also with the exact-rational SPEC-shaped model; realSphericalHarmonics(12) compared with the "
                       "polynomial Y at poles, axes and random directions, and the addition theorem checked on the implementation's values. "
                       "quick: configurations with LB+LE<=6 plus (MAX_L,MAX_L); thorough: all (MAX_L+1)^2")
    ok = coq_properties(res, PID, timeout=3600)
    if not ok:
        proof_broken(res, PID, "Properties_C13.v no longer checks")
    root = build_lib("rel")
    maxl = int(re.search(r"#define LIBECPINT_MAX_L (\d+)", open(os.path.join(root, "b/include/libecpint/config.hpp")).read()).group(1))
    exe = compile_driver("drv_angular.cpp", "rel")
    rng = SplitMix(seed() * 1000 + 13)
    tmp = scratch_dir()
    bad = []
    try:
        cfgs = [(lb, le) for lb in range(maxl + 1) for le in range(maxl + 1)]
        if tier == "quick":
            cfgs = [c for c in cfgs if c[0] + c[1] <= 6 or c == (maxl, maxl)]
        ncmp = nnz = 0
        dims_checked = 0
        jobs = []
        for (lb, le) in cfgs:
            # table dimensions as documented by init(): feeds C11
            rc, out = sh([exe, "dims", str(lb), str(le)], check=False)
            t = out.split()
            wdim, mxl = int(t[1]), int(t[3])
            W = [int(x) for x in t[5:10]]; om = [int(x) for x in t[11:18]]
            ewd, eml = max(4 * lb, 3 * lb + le), max(2 * lb, lb + le)
            if (wdim, mxl) != (ewd, eml) or W != [ewd + 1] * 3 + [eml + 1, 2 * (eml + 1)] or om != [lb + 1] * 3 + [lb + le + 1, 2 * (lb + le) + 2] * 2:
                bad.append(("dims", {"LB": lb, "LE": le}, "dims impl: %s expected wDim=%d maxL=%d" % (out.strip(), ewd, eml)))
            dims_checked += 1
            f = os.path.join(tmp, "t_%d_%d.bin" % (lb, le))
            rc, out = sh([exe, "tables", str(lb), str(le), f], check=False, timeout=600)
            if rc != 0:
                bad.append(("crash", {"LB": lb, "LE": le}, "table dump failed: " + out[-500:])); continue
            big = (lb + le) >= 8
            ns = 16 if big else (4 if lb + le >= 6 else 1)
            exact = "1" if (tier == "thorough" or lb + le <= 4) else "0"
            for k in range(ns):
                jobs.append(((lb, le, k, ns), [os.path.join(OCAML, "drv_angular"), "tables", f, exact, str(k), str(ns)]))
        # ---- sequence independence: engines constructed one after the other in ONE process, in several orders (small before large, LB > LE
        #      after LB < LE, repeated configurations, some engines destroyed in between): every table must be bit-identical to the table the
        #      same configuration gives in a fresh process (those are the tables compared with the exact model above)
        small = [c for c in cfgs if c[0] + c[1] <= 5]
        orders = [[(1, 3), (3, 1), (1, 3)], [(0, 2), (2, 0), (1, 1), (2, 1), (1, 2)], sorted(small), sorted(small, reverse=True),
                  sorted(small, key=lambda c: (c[0] + c[1], -c[0])), sorted(small, key=lambda c: (c[1], c[0]))]
        rs = SplitMix(seed() * 1000 + 13)
        for _ in range(2 if tier == "quick" else 10):
            o = list(small); rs.shuffle(o); orders.append(o)
        orders = [[c for c in o if c[0] <= maxl and c[1] <= maxl] for o in orders]
        nseq = 0
        for oi, o in enumerate(orders):
            pre = os.path.join(tmp, "seq%d" % oi)
            rc, out = sh([exe, "seq", pre] + [str(x) for c in o for x in c], check=False, timeout=1200)
            if rc != 0:
                bad.append(("crash", {"engine_sequence": o}, "constructing the engines %s one after the other in one process failed: %s" % (o, out[-400:]))); continue
            for i, c in enumerate(o):
                ref = os.path.join(tmp, "t_%d_%d.bin" % c)
                if not os.path.exists(ref):
                    sh([exe, "tables", str(c[0]), str(c[1]), ref], check=False, timeout=600)
                a = open(ref, "rb").read(); b = open("%s_%d.bin" % (pre, i), "rb").read()
                nseq += 1
                if a != b:
                    import struct
                    k = next((j for j in range(0, min(len(a), len(b)), 8) if a[j:j + 8] != b[j:j + 8]), 0)
                    bad.append(("sequence", {"engine_sequence": o[:i + 1], "LB": c[0], "LE": c[1]},
                                "the tables of AngularIntegral(%d,%d) constructed after %s differ from those of a fresh process (first difference at byte %d: %r vs %r)" % (
                                    c[0], c[1], o[:i], k, struct.unpack("d", a[k:k + 8]) if k + 8 <= len(a) and k >= 16 else a[k:k + 8], struct.unpack("d", b[k:k + 8]) if k + 8 <= len(b) and k >= 16 else b[k:k + 8])))
                    break
                os.remove("%s_%d.bin" % (pre, i))
        res.cov["engines_constructed_in_sequence_and_compared_bitwise"] = nseq
        # run jobs, NPROC at a time
        running = []
        results = []
        def reap(block):
            for (tag, p) in list(running):
                if block or p.poll() is not None:
                    out, _ = p.communicate()
                    results.append((tag, p.returncode, out.decode()))
                    running.remove((tag, p))
        for tag, cmd in jobs:
            while len(running) >= NPROC:
                reap(False)
                import time; time.sleep(0.02)
            running.append((tag, subprocess.Popen(cmd, stdout=subprocess.PIPE, stderr=subprocess.STDOUT)))
        while running:
            reap(True)
        for (lb, le, k, ns), rc, out in results:
            summ = [l for l in out.splitlines() if l.startswith("SUMMARY")]
            if rc != 0 or not summ:
                bad.append(("crash", {"LB": lb, "LE": le}, "model driver failed: " + out[-500:])); continue
            kv = dict(x.split("=") for x in summ[0].split()[1:])
            ncmp += int(kv["compared"]); nnz += int(kv["nonzero"])
            for l in out.splitlines():
                if l.startswith("MISMATCH"):
                    bad.append(("entry", {"LB": lb, "LE": le}, l))
        # harmonics
        lmax = 2 * maxl + 2
        dirs = [(1.0, 0.0), (-1.0, 0.0), (1.0, 1.3), (0.0, 0.0), (0.0, math.pi / 2), (0.0, math.pi), (0.0, -math.pi / 2),
                (0.5, 0.0), (-0.5, math.pi / 4), (math.sqrt(0.5), math.pi / 3), (0.999999999, 2.0), (-0.999999999, -2.0)]
        for _ in range(60 if tier == "quick" else 600):
            dirs.append((rng.uniform(-1, 1), rng.uniform(-math.pi, math.pi)))
        # near-pole stratum: sin(theta) from 1e-6 to 1e-2, where 1 - x*x cancels
        for _ in range(40 if tier == "quick" else 400):
            t = rng.loguniform(1e-12, 1e-4)
            dirs.append(((1.0 - t) * (1 if rng.randint(0, 1) else -1), rng.uniform(-math.pi, math.pi)))
        df = os.path.join(tmp, "dirs.txt")
        open(df, "w").write("".join("%s %s\n" % (float(x).hex(), float(p).hex()) for x, p in dirs))
        hf = os.path.join(tmp, "harm.txt")
        rc, out = sh([exe, "harm", str(lmax), df, hf], check=False)
        rc2, out2 = sh([os.path.join(OCAML, "drv_angular"), "harm", str(lmax), hf], check=False, timeout=1200)
        summ = [l for l in out2.splitlines() if l.startswith("SUMMARY")]
        if rc != 0 or rc2 != 0 or not summ:
            bad.append(("crash", {"harmonics": lmax}, (out + out2)[-800:]))
        else:
            kv = dict(x.split("=") for x in summ[0].split()[1:])
            res.cov["harmonic_values_compared"] = int(kv["compared"])
            for l in out2.splitlines():
                if l.startswith("MISMATCH"):
                    bad.append(("harmonic", {"lmax": lmax}, l))
        res.cov["evaluations"] = ncmp
        res.cov["distinct_nontrivial"] = nnz
        res.cov["configurations"] = len(cfgs); res.cov["dims_checked"] = dims_checked
        res.cov["directions"] = len(dirs)
        res.cov["exhaustive"] = (tier == "thorough")
        res.cov["traces_validated_against_impl"] = len(cfgs)
        res.sample({"config": cfgs[0]}); res.sample({"config": cfgs[-1]}); res.sample({"direction(x,phi)": dirs[9]})
        seen = set()
        for kind, inp, msg in bad:
            key = (kind, str(inp))
            if key in seen or len(seen) >= 4:
                continue
            seen.add(key)
            res.violation("%s-%d" % (kind, len(seen)), {"theorem_or_correspondence": "AngularModel (extracted; proved equal to the sphere-integral spec on the stated domains) vs AngularIntegral / realSphericalHarmonics",
                                                        "input": inp, "observed": msg, "all": [m for k2, i2, m in bad if (k2, str(i2)) == key][:10]},
                          no_input=(kind == "crash" and "engine_sequence" not in inp and "LB" not in inp))
    finally:
        shutil.rmtree(tmp, ignore_errors=True)
    res.assumptions += ["the irrational normalisation sqrt(c(lam,mu)) and pi are evaluated in double precision when a table entry is compared",
                        "float instance of the model for volume; exact-rational instance of the same Gallina text on a subset",
                        "private members of AngularIntegral are read through '#define private public' in the driver only"]
    return res.finish()
