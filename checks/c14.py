"""C14 — the scaled modified spherical Bessel function."""
import os, sys, shutil, math, subprocess
from vcommon import *

PID = "C14"
LEVEL = "proof"


def ulp_step(x, k):
    for _ in range(abs(k)):
        x = math.nextafter(x, math.inf if k > 0 else -math.inf)
    return x


def zlist(rng, tier, N):
    zs = [0.0]
    step = 1 if tier == "thorough" else 2
    for i in range(0, N + 1, step):
        z = i / (N / 16.0)
        zs.append(z)
        if i < N:
            zs.append((i + 0.5) / (N / 16.0))
        if i % (8 * step) == 0 and i > 0:
            zs += [ulp_step(z, 1), ulp_step(z, -1), z + 1e-9, z - 1e-9, z + 0.9e-12, z - 1.1e-12, z + 0.00499, z - 0.00499]
    for c in (1e-7, 16.0):
        zs += [c, ulp_step(c, 1), ulp_step(c, -1), c * (1 + 1e-9), c * (1 - 1e-9), c * 1.0001, c * 0.9999]
    for _ in range(1500 if tier == "quick" else 15000):
        zs.append(rng.loguniform(1e-12, 1e4))
    for _ in range(300 if tier == "quick" else 3000):
        zs.append(rng.uniform(15.5, 40.0))
    return [z for z in zs if z >= 0.0]


def dyadic(x):
    m, e = float(x).as_integer_ratio()
    return "(%d / %d)" % (m, e) if m >= 0 else "(- %d / %d)" % (-m, e)


def certify(res, tier, vals, rng):
    """G1: |closed l z - v_impl| <= 1e-12 proved by interval, closed = BesselSpec's closed form (= M by theorem M_closed)"""
    inst = os.path.join(COQ, "inst"); os.makedirs(inst, exist_ok=True)
    pts = [v for v in vals if v[0] > 0]
    # stratified: small z, around 1e-7, table region, around 16, large
    strata = [lambda z: z < 1e-7, lambda z: 1e-7 <= z < 1e-3, lambda z: 1e-3 <= z < 1, lambda z: 1 <= z < 15.9, lambda z: 15.9 <= z <= 16.1, lambda z: z > 16.1]
    per = 3 if tier == "quick" else 40
    pick = []
    for st in strata:
        c = [v for v in pts if st(v[0])]
        rng.shuffle(c)
        # high orders matter most (cancellation, asymptotic error)
        c.sort(key=lambda v: -v[1])
        pick += c[:per] + c[len(c) // 2: len(c) // 2 + per]
    nfile = 16
    groups = [pick[i::nfile] for i in range(nfile)]
    procs = []
    for gi, g in enumerate(groups):
        if not g:
            continue
        f = os.path.join(inst, "C14_%d.v" % gi)
        with open(f, "w") as fh:
            fh.write("From Coq Require Import Reals List ZArith.\nFrom Interval Require Import Tactic.\nFrom LV Require Import Bessel.BesselSpec.\nImport ListNotations.\nOpen Scope R_scope.\n")
            for i, (z, l, vv, vo) in enumerate(g):
                prec = int(120 + (l + 3) * max(0.0, math.log2(1.0 / z)) * 1.3) if z < 4 else 120
                for nm, v in (("v", vv), ("s", vo)):
                    fh.write("Lemma c%d_%s : Rabs (closed %d %s - %s) <= 1 / 1000000000000.\nProof. unfold closed.\n"
                             "  let a := eval vm_compute in (PA %d) in change (PA %d) with a.\n  let b := eval vm_compute in (PB %d) in change (PB %d) with b.\n"
                             "  cbn [peval]. interval with (i_prec %d). Qed.\n" % (i, nm, l, dyadic(z), dyadic(v), l, l, l, l, prec))
        procs.append((g, f, subprocess.Popen(["timeout", "600", "coqc", "-Q", COQ, "LV", f], stdout=subprocess.PIPE, stderr=subprocess.STDOUT)))
    ok = 0; failed = []
    for g, f, p in procs:
        o, _ = p.communicate()
        if p.returncode == 0:
            ok += 2 * len(g)
        else:
            failed.append((f, o.decode()[-400:], g))
    res.cov["g1_certified_values"] = ok; res.cov["g1_attempted"] = 2 * len(pick)
    res.cov["obligations"] = res.cov.get("obligations", 0) + 2 * len(pick); res.cov["discharged"] = res.cov.get("discharged", 0) + ok
    return failed


def run(tier, replay=None):
    res = Result(PID, tier, LEVEL)
    res.cov["rule"] = ("proof obligations: Properties_C14.v (closed form = recurrence definition for all l and z>0, ...) + per-run G1 lemmas "
                       "|closed l z - v_impl| <= 1e-12 (Interval) on a stratified subset. Correspondence: the extracted BesselModel must reproduce the "
                       "whole K table, the derivative table and both evaluators (1e-13) for lMax=3*MAX_L, N=1600, order=200, accuracy=1e-15; the "
                       "property is checked for every (l,z) with z = 0, table nodes, midpoints, +-1ulp / +-1e-9 / +-1e-12 around nodes and the regime "
                       "boundaries 1e-7 and 16, and log-uniform random z in [1e-12,1e4], against an independent positive-term series / closed form")
    ok = coq_properties(res, PID)
    if not ok:
        proof_broken(res, PID, "Properties_C14.v no longer checks")
    root = build_lib("rel")
    maxl = int(re.search(r"#define LIBECPINT_MAX_L (\d+)", open(os.path.join(root, "b/include/libecpint/config.hpp")).read()).group(1))
    lMax, N, order = 3 * maxl, 1600, 200
    rng = SplitMix(seed() * 1000 + 14)
    zs = zlist(rng, tier, N)
    tmp = scratch_dir()
    try:
        zf = os.path.join(tmp, "z.txt"); open(zf, "w").write("\n".join(float(z).hex() for z in zs) + "\n")
        exe = compile_driver("drv_bessel.cpp", "rel")
        of = os.path.join(tmp, "out.txt")
        rc, out = sh([exe, str(lMax), str(N), str(order), "1e-15", zf, of], check=False, timeout=1800)
        if rc != 0:
            raise RuntimeError("drv_bessel failed: " + out[-2000:])
        rc, out = sh([os.path.join(OCAML, "drv_bessel"), of], check=False, timeout=3600)
        summ = [l for l in out.splitlines() if l.startswith("SUMMARY")]
        if rc != 0 or not summ:
            raise RuntimeError("model driver failed: " + out[-2000:])
        kv = dict(x.split("=") for x in summ[0].split()[1:])
        mm = [l for l in out.splitlines() if l.startswith("MISMATCH")]
        pv = [l for l in out.splitlines() if l.startswith("PROPVIOL")]
        vals = []
        for l in out.splitlines():
            if l.startswith("VAL"):
                t = l.split(); vals.append((float.fromhex(t[1]), int(t[2]), float.fromhex(t[3]), float.fromhex(t[4])))
        res.cov["evaluations"] = len(vals); res.cov["distinct_nontrivial"] = len(set((v[0], v[1]) for v in vals if v[0] > 0))
        res.cov["arguments"] = len(zs); res.cov["orders"] = lMax + 1; res.cov["table_and_value_comparisons"] = int(kv["compared"])
        res.cov["regime_histogram"] = {"z=0": sum(1 for z in zs if z == 0), "z<1e-7": sum(1 for z in zs if 0 < z < 1e-7),
                                       "table": sum(1 for z in zs if 1e-7 <= z <= 16), "z>16": sum(1 for z in zs if z > 16)}
        res.cov["traces_validated_against_impl"] = len(zs) if not mm else 0
        res.sample({"z": zs[1], "l": 0}); res.sample({"z": zs[-1], "l": lMax}); res.sample({"z": 16.0, "l": lMax})
        failed = certify(res, tier, vals, rng)
        for l in pv[:3]:
            res.violation("prop-%d" % (len(res.violations)), {"theorem_or_correspondence": "|evaluator - exp(-z) i_l(z)| <= 1e-12 (both overloads, and agreement between them)",
                                                             "input": l, "oracle": {"grade": "G3", "what": "positive-term series (z<=30) / closed form of BesselSpec (z>30)"},
                                                             "n_violations": len(pv)})
        if failed and not pv:
            f, msg, g = failed[0]
            res.violation("g1", {"theorem_or_correspondence": "G1 instance file %s: |closed l z - v_impl| <= 1e-12 by interval" % os.path.basename(f), "detail": msg,
                                 "points": [(z, l) for z, l, _, _ in g][:10]}, no_input=True)
        seen = 0
        for l in mm[:3]:
            res.violation("model-%d" % seen, {"theorem_or_correspondence": "BesselModel (extracted) vs BesselFunction tables/evaluators", "input": l, "n_mismatches": len(mm)}); seen += 1
    finally:
        shutil.rmtree(tmp, ignore_errors=True)
    res.assumptions += ["exp(-z) i_l(z) is DEFINED by M_0, M_1 and the three-term recurrence (DLMF 10.47/10.51); M_closed is proved from that",
                        "G3 truth in OCaml doubles (all-positive series; closed form where exp(-2z) < 1e-26); G1 by Coq Interval on a stratified subset with the doubles as exact dyadics",
                        "the vector overload is called with a dirty vector so entries it leaves unwritten are visible",
                        "accuracy for every double z is sampled, not proved"]
    return res.finish()
