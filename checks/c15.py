"""C15 — adaptive Gauss-Chebyshev quadrature."""
import os, sys, shutil
from vcommon import *

PID = "C15"
LEVEL = "proof"


def cases(rng, tier):
    out = []
    n = 0
    ncase = 600 if tier == "quick" else 6000
    pts1 = [2 ** p - 1 for p in range(3, 11)] + [100, 256, 1000, 1024]
    pts2 = [3 * 2 ** p - 1 for p in range(1, 9)] + [100, 500, 1024]
    # every admissible grid size: also the long grids (half grids of more than 512 / 1024 points), a few cases each
    big1 = [2047, 4095, 2048, 5000]; big2 = [1535, 3071, 1534, 4000]
    for i in range(ncase):
        ty = 1 + i % 2
        points = rng.choice(pts1 if ty == 1 else pts2)
        if i % 25 < 2:
            points = rng.choice(big1 if ty == 1 else big2)
        tol = 10.0 ** (-rng.randint(8, 15))
        kind = rng.choice([1, 1, 1, 2])
        k = rng.randint(0, 20)
        z = rng.loguniform(1e-2, 1e4)
        if kind == 1:
            c = rng.choice([0.0, rng.uniform(0, 30), rng.uniform(0, 3), 6.9 / (z ** 0.5), 7.1 / (z ** 0.5)])
            zt, pt = z, c
        else:
            c = 0.0; zt = pt = 0.0
            z = rng.loguniform(5e-2, 50.0)      # the half-line map resolves scales around r ~ 1
            k = rng.randint(0, 8)
        sub = (-1, -1)
        out.append("q%d %d %d %s %d %s %s %d %s %s %d %d" % (n, ty, points, float(tol).hex(), kind, float(zt).hex(), float(pt).hex(), k, float(z).hex(), float(c).hex(), sub[0], sub[1]))
        n += 1
    # explicit sub-ranges on the untransformed grid (clipping arithmetic; only the model correspondence is decisive here)
    for i in range(60 if tier == "quick" else 600):
        ty = 1 + i % 2
        points = rng.choice([31, 127, 255] if ty == 1 else [23, 95, 191])
        a = rng.randint(0, points // 2); b = rng.randint(points // 2, points - 1)
        out.append("s%d %d %d %s 0 0x0p+0 0x0p+0 %d %s %s %d %d" % (n, ty, points, float(1e-10).hex(), rng.randint(0, 4), float(rng.loguniform(1, 50)).hex(), float(rng.uniform(-0.5, 0.5)).hex(), a, b))
        n += 1
    return out


def dyadic(x):
    """exact value of a double as a Coq real expression"""
    m, e = float(x).as_integer_ratio()
    return "(%d / %d)" % (m, e) if m >= 0 else "(- %d / %d)" % (-m, e)


def certify(res, tier, out, by, tmp):
    """G1: kernel-certified enclosures (Coq Interval) of the integral for a subset of the converged window cases."""
    import subprocess
    conv = [l.split() for l in out.splitlines() if l.startswith("CONV")]
    pick = []
    for t in conv:
        c = by[t[1]].split()
        k = int(c[7]); z = float.fromhex(c[8]); tol = float.fromhex(c[3])
        if k <= 10 and 0.05 <= z <= 200 and abs(float.fromhex(t[2])) > 1e-6:
            pick.append((t, c))
    pick = pick[: (8 if tier == "quick" else 64)]
    inst = os.path.join(COQ, "inst"); os.makedirs(inst, exist_ok=True)
    procs = []
    for i, (t, c) in enumerate(pick):
        I = float.fromhex(t[2]); a = float.fromhex(t[3]); b = float.fromhex(t[4])
        k = int(c[7]); z = float.fromhex(c[8]); cc = float.fromhex(c[9]); tol = float.fromhex(c[3])
        bound = (tol * abs(I)) ** 0.5 + 1e-12 + 1e-12 * abs(I)
        f = os.path.join(inst, "C15_%d.v" % i)
        open(f, "w").write(
            "From Coq Require Import Reals.\nFrom Coquelicot Require Import Coquelicot.\nFrom Interval Require Import Tactic.\nOpen Scope R_scope.\n"
            "(* case %s : I_impl = %r, window [%r, %r], k=%d z=%r c=%r tol=%r *)\n"
            "Lemma cert : Rabs (RInt (fun r => r ^ %d * exp (- %s * ((r - %s) * (r - %s)))) %s %s - %s) <= %s.\n"
            "Proof. integral with (i_fuel 2000, i_prec 80, i_degree 12). Qed.\nPrint Assumptions cert.\n"
            % (t[1], I, a, b, k, z, cc, tol, k, dyadic(z), dyadic(cc), dyadic(cc), dyadic(a), dyadic(b), dyadic(I), dyadic(bound)))
        procs.append((t[1], f, subprocess.Popen(["timeout", "300", "coqc", "-Q", COQ, "LV", f], stdout=subprocess.PIPE, stderr=subprocess.STDOUT)))
    okc = 0; fail = []
    axioms = set()
    for cid, f, p in procs:
        o, _ = p.communicate()
        if p.returncode == 0:
            okc += 1
            axioms.update(parse_assumptions(o.decode())[1])
        else:
            fail.append((cid, o.decode()[-300:]))
    res.cov["g1_certified_cases"] = okc; res.cov["g1_attempted"] = len(pick); res.cov["g1_not_certified"] = [c for c, _ in fail][:10]
    res.cov["obligations"] = res.cov.get("obligations", 0) + len(pick) - len(fail)
    res.cov["discharged"] = res.cov.get("discharged", 0) + okc
    for a in sorted(axioms):
        s_ = "axiom (Print Assumptions, G1 instances): " + a
        if s_ not in res.cov["trusted_base"]:
            res.cov["trusted_base"].append(s_)
    return fail


def run(tier, replay=None):
    res = Result(PID, tier, LEVEL)
    res.cov["rule"] = ("proof obligations: Properties_C15.v. Correspondence: GCQuadrature::integrate on r^k exp(-z(r-c)^2), both schemes, grid sizes "
                       "2^n-1 / 3*2^n-1 (and sizes that are rounded down), tolerances 1e-8..1e-15, on the library's own window and on the half-line "
                       "map, plus explicit start/end sub-ranges; the extracted model must reproduce maxN, every grid point (1e-13), the window "
                       "transform, the converged flag and the value (1e-12). Property: every converged case vs a composite 20-point Gauss-Legendre "
                       "evaluation of the integral that validated itself by doubling (others counted as oracle-inconclusive). distinct = distinct case lines")
    ok = coq_properties(res, PID)
    if not ok:
        proof_broken(res, PID, "Properties_C15.v no longer checks")
    rng = SplitMix(seed() * 1000 + 15)
    cs = cases(rng, tier)
    tmp = scratch_dir()
    try:
        # boundary stratum: the extracted model itself locates the parameters at which its decisions flip (signature changes between
        # neighbouring parameters, bisected) and the roots of the first acceptance slacks of both schemes (the bands in which two consecutive
        # estimates agree by coincidence); cases are placed on both sides of every such boundary, at the band edges |slack| = tol and
        # slack^2 = tol |T|.  A changed acceptance rule shifts these boundaries, so model and implementation disagree there.
        sf = os.path.join(tmp, "scan.txt")
        rc, sout = sh([os.path.join(OCAML, "drv_quad"), "scan", tier, sf], check=False, timeout=3600)
        sm = [l for l in sout.splitlines() if l.startswith("SCAN")]
        if rc != 0 or not sm:
            raise RuntimeError("boundary scan failed: " + sout[-2000:])
        bcs = [l for l in open(sf).read().splitlines() if l.strip()]
        res.cov["boundary_stratum"] = dict(x.split("=") for x in sm[0].split()[1:])
        cs = cs + bcs
        cf = os.path.join(tmp, "cases.txt"); open(cf, "w").write("\n".join(cs) + "\n")
        exe = compile_driver("drv_quad.cpp", "rel")
        of = os.path.join(tmp, "out.txt")
        rc, out = sh([exe, cf, of], check=False, timeout=3600)
        if rc != 0:
            raise RuntimeError("drv_quad failed: " + out[-2000:])
        rc, out = sh([os.path.join(OCAML, "drv_quad"), of], check=False, timeout=3600)
        summ = [l for l in out.splitlines() if l.startswith("SUMMARY")]
        if rc != 0 or not summ:
            raise RuntimeError("model driver failed: " + out[-2000:])
        kv = dict(x.split("=") for x in summ[0].split()[1:])
        res.cov["evaluations"] = int(kv["cases"]); res.cov["distinct_nontrivial"] = len(set(c.split(" ", 1)[1] for c in cs))
        res.cov["converged_cases"] = int(kv["converged"]); res.cov["oracle_inconclusive"] = int(kv["oracle_inconclusive"])
        res.cov["traces_validated_against_impl"] = int(kv["cases"]) if kv["mismatches"] == "0" else 0
        by = {c.split()[0]: c for c in cs}
        # object histories (drv_quad.cpp): every case is repeated on an object re-initialised to the same size after an in-place
        # transform (_rs) and on one object re-initialised for every case (_ra); they are cases of their own for the model and the property
        for c in cs:
            by[c.split()[0] + "_rs"] = c + "   [object re-initialised to the same size after a transform]"
            by[c.split()[0] + "_ra"] = c + "   [one object re-initialised for every case]"
        res.cov["object_history_cases"] = 2 * len(cs)
        for c in cs[:2] + cs[-1:]:
            res.sample({"case(id type points tol kind zt pt k z c start end)": c})
        mm = [l for l in out.splitlines() if l.startswith("MISMATCH")]
        pv = [l for l in out.splitlines() if l.startswith("PROPVIOL")]
        # known finding: the acceptance tests compare differences of estimates that are all below the
        # tolerance itself, so "converged" is reported on an estimate |I| <= 16*tol whatever the truth is
        known = [k for k in load_known() if k.get("id") == "F-C15-premature" and k.get("status") == "known"]
        known2 = [k for k in load_known() if k.get("id") == "F-C15-coincidence" and k.get("status") == "known"]
        kn, kn2, rest = [], [], []
        for l in pv:
            f = dict(x.split("=") for x in l.split()[2:])
            I = float.fromhex(f["I"]); tolv = float.fromhex(f["tol"])
            if known and abs(I) <= 16.0 * tolv:
                kn.append(l)
            elif known2 and f.get("restored_by_deferral") == "1":
                kn2.append(l)      # the same call with the first acceptance(s) deferred (hook quad_defer) meets the bound or reports non-convergence
            else:
                rest.append(l)
        if kn2:
            res.known("F-C15-coincidence: %d converged cases accepted because two consecutive estimates agree by coincidence miss the integral; deferring the acceptance restores them (e.g. %s: %s)" % (len(kn2), kn2[0].split()[1], by.get(kn2[0].split()[1])))
            res.cov["known_finding_coincidence_cases"] = len(kn2)
        if kn:
            res.known("F-C15-premature: %d converged cases whose accepted estimate is itself <= 16*tolerance miss the integral (e.g. %s: %s)" % (len(kn), kn[0].split()[1], by.get(kn[0].split()[1])))
            res.cov["known_finding_cases"] = len(kn)
        pv = rest
        g1 = certify(res, tier, out, by, tmp)
        for l in pv[:3]:
            cid = l.split()[1]
            res.violation("prop-" + cid, {"theorem_or_correspondence": "converged => |I - I_true| <= sqrt(tol |I|) + 1e-12", "input": by.get(cid), "observed": l,
                                          "oracle": {"grade": "G3", "what": "composite 20-point Gauss-Legendre, 64 vs 128 panels agree to 1e-12"}})
        seen = set()
        for l in mm:
            cid = l.split()[1]
            if cid in seen or len(seen) >= 3:
                continue
            seen.add(cid)
            res.violation("model-" + cid, {"theorem_or_correspondence": "QuadModel (extracted) vs GCQuadrature (grid, transform, adaptive scheme)",
                                           "input": by.get(cid), "observed": [m for m in mm if m.split()[1] == cid][:8]})
    finally:
        shutil.rmtree(tmp, ignore_errors=True)
    res.assumptions += ["integrand family r^k exp(-z (r-c)^2) with the window of its own envelope, as the library uses the engine",
                        "truth by self-validating composite Gauss-Legendre in OCaml doubles (G3); for a subset the inequality |RInt f a b - I_impl| <= bound is proved in Coq by Interval's integral tactic (G1) with the doubles as exact dyadic rationals; an instance that does not certify within its time limit is counted, not alarmed (the G3 verdict stands)",
                        "the comparison adds 1e-12 x |I| to the property's bound: the floor double arithmetic imposes on sums of that magnitude (DESIGN, changes)",
                        "private members of GCQuadrature are read through '#define private public' in the driver only"]
    return res.finish()
