"""C16 — the shipped ECP library loads exactly the published parameters."""
import os, sys, shutil
sys.path.insert(0, os.path.join(os.path.dirname(os.path.abspath(__file__)), "..", "translators"))
from vcommon import *
import t_data

PID = "C16"
LEVEL = "proof"
ATOMS = ["h", "he", "li", "be", "b", "c", "n", "o", "f", "ne", "na", "mg", "al", "si", "p", "s", "cl", "ar", "k", "ca", "sc", "ti", "v", "cr", "mn", "fe", "co", "ni", "cu",
         "zn", "ga", "ge", "as", "se", "br", "kr", "rb", "sr", "y", "zr", "nb", "mo", "tc", "ru", "rh", "pd", "ag", "cd", "in", "sn", "sb", "te", "i", "xe", "cs", "ba", "la", "ce", "pr", "nd", "pm", "sm",
         "eu", "gd", "tb", "dy", "ho", "er", "tm", "yb", "lu", "hf", "ta", "w", "re", "os", "ir", "pt", "au", "hg", "tl", "pb", "bi", "po", "at", "rn", "fr", "ra", "ac", "th", "pa", "u", "np", "pu", "am",
         "cm", "bk", "cf", "es", "fm", "md", "no", "lr", "rf", "db", "sg", "bh", "hs", "mt"]

OBL = """From Coq Require Import String ZArith List Bool.
From LV Require Import EcpLib.EcpLibModel gen.EcpData.
(* exhaustive over every element of every shipped set: the XML is the spec-translation of the raw
   MOLPRO source (decimals compared as exact rationals), and every XML element is well formed *)
Theorem xml_matches_raw : forallb set_ok sets = true.
Proof. vm_compute. reflexivity. Qed.
Print Assumptions xml_matches_raw.
Theorem sets_counted : length sets = %dN /\\ fold_left (fun a s => (a + length (snd s))%%nat) sets 0%%nat = %d%%nat.
Proof. vm_compute. split; reflexivity. Qed.
"""


def run(tier, replay=None):
    res = Result(PID, tier, LEVEL)
    res.cov["rule"] = ("proof obligations: Properties_C16.v (bookkeeping for all primitive sequences) + per-run theorem xml_matches_raw over "
                       "the regenerated token file (all sets, all elements, exhaustive). Correspondence: every element of every set loaded "
                       "through addECP_from_file; N, L, core, l_starts, min_exp*, stored primitives (bit-exact doubles vs correctly rounded "
                       "decimals, grouped by l) and evaluate(r,l) at 12 (thorough: 200) radii compared with the extracted loader model")
    root = build_lib("rel")
    share = os.path.join(root, "src", "share", "libecpint")
    os.makedirs(os.path.join(COQ, "gen"), exist_ok=True)
    tmp = scratch_dir()
    try:
        tokf = os.path.join(tmp, "EcpData.txt")
        try:
            names, stats = t_data.emit(share, os.path.join(COQ, "gen", "EcpData.v"), tokf)
        except Exception as e:
            res.violation("translator", {"theorem_or_correspondence": "T-data could not tokenise the shipped files", "error": repr(e)}, no_input=True)
            return res.finish()
        res.cov["sets"] = stats
        nel = sum(s["elements"] for s in stats.values()); npr = sum(s["primitives"] for s in stats.values())
        open(os.path.join(COQ, "gen", "Obl_C16.v"), "w").write(OBL.replace("%dN", "%d%%nat") % (len(names), nel))
        ok = coq_properties(res, PID)
        coq_make(["EcpLib/EcpLibProofs.vo"])
        rc1, o1 = coqc("gen/EcpData.v", timeout=1200)
        rc2, o2 = coqc("gen/Obl_C16.v", timeout=1200) if rc1 == 0 else (1, o1)
        res.cov["obligations"] += 2
        obligation_ok = rc1 == 0 and rc2 == 0
        if obligation_ok:
            res.cov["discharged"] += 2
        else:
            res.cov["obligation_error"] = (o1 + o2)[-1200:]
        # which element / primitive differs (search for the concrete failing input)
        culprit = None
        if not obligation_ok and rc1 == 0:
            probe = ("From Coq Require Import String ZArith List Bool.\nImport ListNotations.\nFrom LV Require Import EcpLib.EcpLibModel gen.EcpData.\n"
                     "Definition failing := flat_map (fun s => (if Nat.eqb (length (raw_to_atoms (snd (fst s)))) (length (snd s)) then [] else [(fst (fst s), \"element-count\"%string)]) ++ "
                     "flat_map (fun p => if xatom_eqb (fst p) (snd p) && xatom_wf (snd p) then [] else [(fst (fst s), xa_name (snd p))]) "
                     "(combine (raw_to_atoms (snd (fst s))) (snd s))) sets.\nSet Printing Depth 100000.\nEval vm_compute in failing.\n")
            open(os.path.join(COQ, "gen", "Probe_C16.v"), "w").write(probe)
            rc3, o3 = coqc("gen/Probe_C16.v", timeout=1200)
            bad = re.findall(r'\("([\w-]+)"%string,\s*"([\w-]+)"%string\)', o3.replace("\n", " "))
            culprit = {"elements_failing": ["%s:%s" % (a, b) for a, b in bad][:20], "probe_output_tail": o3[-1500:] if not bad else ""}
        # ---- loader correspondence
        import xml.etree.ElementTree as ET
        lst = os.path.join(tmp, "list.txt"); n = 0
        with open(lst, "w") as f:
            for nm in names:
                for a in ET.parse(os.path.join(share, "xml", nm + ".xml")).getroot():
                    if a.tag.lower() in ATOMS:
                        f.write("%s %d\n" % (nm, ATOMS.index(a.tag.lower()) + 1)); n += 1
        import math
        nr = 12 if tier == "quick" else 200
        radii = [1e-3 * (20.0 / 1e-3) ** (i / (nr - 1.0)) for i in range(nr)]
        rs = ",".join(float(r).hex() for r in radii)
        exe = compile_driver("drv_ecplib.cpp", "rel", extra=["-DHAS_PUGIXML"])
        outf = os.path.join(tmp, "out.txt")
        rc, out = sh([exe, share, lst, rs, outf], check=False, timeout=1800)
        if rc != 0:
            raise RuntimeError("drv_ecplib failed: " + out[-2000:])
        shared_mm = [l for l in out.splitlines() if l.startswith("SHAREDMISMATCH")]
        sh_line = [l for l in out.splitlines() if l.startswith("SHARED ")]
        res.cov["loads_into_one_long_lived_basis"] = int(sh_line[0].split()[1].split("=")[1]) if sh_line else 0
        maxl = int(re.search(r"#define LIBECPINT_MAX_L (\d+)", open(os.path.join(root, "b/include/libecpint/config.hpp")).read()).group(1))
        rc, out = sh([os.path.join(OCAML, "drv_ecplib"), tokf, outf, str(maxl), rs], check=False, timeout=1800)
        summ = [l for l in out.splitlines() if l.startswith("SUMMARY")]
        if rc != 0 or not summ:
            raise RuntimeError("model driver failed: " + out[-2000:])
        mm = [l for l in out.splitlines() if l.startswith("MISMATCH")] + [l.replace("SHAREDMISMATCH", "MISMATCH", 1) for l in shared_mm]
        kv = dict(x.split("=") for x in summ[0].split()[1:])
        res.cov["evaluations"] = int(kv["cases"]); res.cov["distinct_nontrivial"] = int(kv["cases"])
        res.cov["quantities_compared"] = int(kv["compared"]); res.cov["elements"] = nel; res.cov["primitives"] = npr
        res.cov["exhaustive"] = True; res.cov["radii"] = nr
        res.cov["traces_validated_against_impl"] = int(kv["cases"]) if not mm else 0
        res.sample({"set": names[0], "stats": stats[names[0]]}); res.sample({"loaded": "lanl2dz:au", "radii": radii[:3]})
        if n != nel:
            mm.append("MISMATCH element count: %d XML elements, %d loadable by symbol" % (nel, n))
        if not obligation_ok:
            if culprit and culprit.get("elements_failing"):
                res.violation("data", {"theorem_or_correspondence": "xml_matches_raw (gen/Obl_C16.v)", "input": culprit,
                                       "note": "for the listed elements the XML differs from the spec-translation of the raw MOLPRO source (or is not well formed)"})
            else:
                res.violation("obligation", {"theorem_or_correspondence": "xml_matches_raw (gen/Obl_C16.v)", "detail": res.cov.get("obligation_error", ""), "probe": culprit}, no_input=True)
        if mm:
            first = mm[0].split()[1]
            res.violation("loader", {"theorem_or_correspondence": "EcpLibModel loader (extracted) vs ECPBasis::addECP_from_file / ECP",
                                     "input": {"element": first}, "mismatches": mm[:20]})
        if not ok and not res.violations:
            proof_broken(res, PID, "Properties_C16.v no longer checks")
    finally:
        shutil.rmtree(tmp, ignore_errors=True)
    res.assumptions += ["translators/t_data.py tokenises only (fields, decimal mantissa/exponent); python's xml.etree reads the XML for the model side, pugixml for the library side",
                        "the spin-orbit lines of the raw files are not part of the XML by design and are outside the property",
                        "OCaml float_of_string / glibc strtod are both correctly rounded"]
    return res.finish()
