"""Tight correspondence for the derivative assembly (C02: order 1, C03: order 2)."""
import os, sys, shutil
sys.path.insert(0, os.path.join(os.path.dirname(os.path.abspath(__file__)), "..", "lib"))
from vcommon import *
import gen


def max_l(root):
    txt = open(os.path.join(root, "b/include/libecpint/config.hpp")).read()
    return int(re.search(r"#define LIBECPINT_MAX_L (\d+)", txt).group(1))


def make_cases(rng, order, tier, maxl):
    cases = []
    lim = maxl - order
    geoms = gen.GEOMS
    lam_list = list(range(0, maxl + 1))
    n = 0
    for LA in range(lim + 1):
        for LB in range(lim + 1):
            for gk in geoms:
                if tier == "quick":
                    # every (LA,LB,geometry); lambda_max sampled (two per class)
                    lams = sorted(set([rng.randint(0, maxl), rng.randint(0, min(maxl, 2))]))
                else:
                    lams = lam_list
                for lam in lams:
                    A, B, C = gen.geometry(rng, gk)
                    sa = gen.rand_shell(rng, LA, A)
                    sb = gen.rand_shell(rng, LB, B)
                    u = gen.rand_ecp(rng, lam, C, nper=(1, 1) if tier == "quick" else (1, 2))
                    cases.append({"id": "d%d_%d_%d_%d_%s_%d" % (order, LA, LB, lam, gk.replace("=", ""), n),
                                  "extra": {"order": order, "geom": gk}, "shells": [sa, sb], "ecps": [u]})
                    n += 1
    # two shells on one centre that share their exponents: identical shells (a true diagonal pair) and
    # general contractions (same exponents, non-proportional coefficients), both off and on the ECP centre
    for k in range(10 if tier == "quick" else 60):
        L_ = rng.randint(0, lim)
        gk = rng.choice(["A=B", "A=B", "A=B=C"])
        A, B, C = gen.geometry(rng, gk)
        sa = gen.rand_shell(rng, L_, A, nprim=rng.randint(2, 3))
        sb = dict(sa, c=list(A))
        if k % 2 == 0:
            sb["d"] = [rng.uniform(0.2, 1.5) * rng.choice([1, -1]) for _ in sa["d"]]      # general contraction
        else:
            sb["d"] = list(sa["d"])                                                        # identical shell
        cases.append({"id": "d%d_gc_%d" % (order, k), "extra": {"order": order, "geom": "same-centre-shared-exponents"},
                      "shells": [sa, sb], "ecps": [gen.rand_ecp(rng, rng.randint(0, 2), C, nper=(1, 1))]})
    # near-threshold geometries: L1 distance on both sides of 1e-6 (decision of the coincidence branches)
    for k in range(6 if tier == "quick" else 30):
        LA, LB = rng.randint(0, lim), rng.randint(0, lim)
        A, B, C = gen.geometry(rng, "distinct")
        eps = rng.choice([0.9e-6, 1.1e-6, 0.34e-6, 0.5e-6])  # 3*0.34e-6 just above 1e-6 in L1, below in L2
        which = rng.choice(["A", "B"])
        P = [c + eps * s for c, s in zip(C, [1, rng.choice([0, 1]), rng.choice([0, 1])])]
        if which == "A":
            A = P
        else:
            B = P
        cases.append({"id": "d%d_thr_%d" % (order, k), "extra": {"order": order, "geom": "threshold"},
                      "shells": [gen.rand_shell(rng, LA, A), gen.rand_shell(rng, LB, B)],
                      "ecps": [gen.rand_ecp(rng, rng.randint(0, 2), C, nper=(1, 1))]})
    # displacements from the ECP centre whose signed components cancel exactly (dyadic coordinates): the coincidence tests
    # are norms of the displacement, and a norm must not vanish on the plane x + y + z = 0 or when two components are opposite
    for k in range(9 if tier == "quick" else 45):
        LA, LB = rng.randint(0, lim), rng.randint(0, lim)
        C = [rng.randint(-64, 64) / 64.0 for _ in range(3)]
        def cancel():
            if rng.randint(0, 1):
                u = rng.randint(16, 160) / 64.0; v = rng.randint(16, 160) / 64.0
                dd = [u, v, -(u + v)]
            else:
                u = rng.randint(16, 160) / 64.0
                dd = [u, -u, 0.0]
            rng.shuffle(dd)
            sgn = rng.choice([1, -1])
            return [c + sgn * x for c, x in zip(C, dd)]
        which = ["A", "B", "AB"][k % 3]
        A = cancel() if which in ("A", "AB") else [c + x for c, x in zip(C, gen.rand_point(rng, 0.4, 2.5))]
        B = cancel() if which in ("B", "AB") else [c + x for c, x in zip(C, gen.rand_point(rng, 0.4, 2.5))]
        cases.append({"id": "d%d_cancel%s_%d" % (order, which, k), "extra": {"order": order, "geom": "cancelling-components-" + which},
                      "shells": [gen.rand_shell(rng, LA, A), gen.rand_shell(rng, LB, B)],
                      "ecps": [gen.rand_ecp(rng, rng.randint(0, 2), C, nper=(1, 1))]})
    # twin shells: the SAME contraction (l, exponents, coefficients) on two different centres, both off the ECP centre (the same element
    # on two atoms); and shells whose public exponents / coefficients were changed in place after construction (renormalised contraction):
    # whatever the routines derive from a shell must be derived from its CURRENT members, and from each shell separately
    lim2 = maxl - order
    for k in range(6 if tier == "quick" else 40):
        L = rng.randint(0, max(0, min(lim2, 2)))
        A, B, C = gen.geometry(rng, "distinct")
        sa = gen.rand_shell(rng, L, A, nprim=rng.randint(1, 2))
        sb = dict(sa); sb["c"] = B
        u = gen.rand_ecp(rng, rng.randint(0, min(maxl, 2)), C, nper=(1, 1))
        cases.append({"id": "d%d_twin_%d" % (order, k), "extra": {"order": order, "geom": "twin-shells"}, "shells": [sa, sb], "ecps": [u]})
    # tight shells on opposite sides of the ECP (a trans / linear X-M-X arrangement): their mutual overlap exp(-mu R_AB^2) is far below
    # any threshold while both still reach the ECP, whose semi-local part does not decay with R_AB
    for k in range(6 if tier == "quick" else 40):
        LA = rng.randint(0, max(0, min(lim2, 2))); LB = rng.randint(0, max(0, min(lim2, 2)))
        C = gen.rand_point(rng, 0.0, 1.0)
        u = gen.rand_dir(rng); d1 = rng.uniform(1.4, 2.4); d2 = rng.uniform(1.4, 2.4)
        A = [c + d1 * x for c, x in zip(C, u)]; B = [c - d2 * x + 0.05 * y for c, x, y in zip(C, u, gen.rand_dir(rng))]
        sa = gen.rand_shell(rng, LA, A, nprim=rng.randint(1, 2), emin=5.0, emax=14.0); sb = gen.rand_shell(rng, LB, B, nprim=rng.randint(1, 2), emin=5.0, emax=14.0)
        uu = gen.rand_ecp(rng, rng.randint(1, min(maxl, 2)), C, nper=(1, 1), amin=0.3, amax=2.0)
        cases.append({"id": "d%d_trans_%d" % (order, k), "extra": {"order": order, "geom": "trans-tight"}, "shells": [sa, sb], "ecps": [uu]})
    for k in range(8 if tier == "quick" else 50):
        LA = rng.randint(0, max(0, min(lim2, 2))); LB = rng.randint(0, max(0, min(lim2, 2)))
        A, B, C = gen.geometry(rng, rng.choice(["distinct", "distinct", "A=B", "B=C"]))
        sa = gen.rand_shell(rng, LA, A, nprim=rng.randint(1, 3)); sb = gen.rand_shell(rng, LB, B, nprim=rng.randint(1, 2))
        u = gen.rand_ecp(rng, rng.randint(0, min(maxl, 2)), C, nper=(1, 1))
        cases.append({"id": "d%d_mut_%d" % (order, k), "extra": {"order": order, "geom": "modified-in-place", "mutate": 1}, "shells": [sa, sb], "ecps": [u]})
    return cases


def run_k(res, order, tier):
    """Returns list of mismatch lines (empty = model and code agree)."""
    root = build_lib("rel")
    maxl = max_l(root)
    rng = SplitMix(seed() * 1000 + order)
    cases = make_cases(rng, order, tier, maxl)
    tmp = scratch_dir()
    try:
        cf = os.path.join(tmp, "cases.txt"); of = os.path.join(tmp, "out.txt")
        gen.write_cases(cf, cases)
        exe = compile_driver("drv_deriv.cpp", "rel")
        rc, out = sh([exe, cf, of], timeout=3600, check=False)
        if rc != 0:
            raise RuntimeError("drv_deriv failed rc=%d\n%s" % (rc, out[-3000:]))
        rc, out = sh([os.path.join(OCAML, "drv_deriv"), of, "1e-12"], timeout=3600, check=False)
        mism = [l for l in out.splitlines() if l.startswith("MISMATCH")]
        summ = [l for l in out.splitlines() if l.startswith("SUMMARY")]
        if rc != 0 or not summ:
            raise RuntimeError("model driver failed rc=%d\n%s" % (rc, out[-3000:]))
        m = dict(kv.split("=") for kv in summ[0].split()[1:])
        res.add("evaluations", int(m["cases"]))
        res.add("entries_compared", int(m["compared"]))
        res.add("distinct_nontrivial", len(set((c["shells"][0]["l"], c["shells"][1]["l"], c["extra"]["geom"], max(p["l"] for p in c["ecps"][0]["p"])) for c in cases)))
        res.cov["nonzero_entries"] = int(m["nonzero"])
        hist = {}
        for c in cases:
            hist[c["extra"]["geom"]] = hist.get(c["extra"]["geom"], 0) + 1
        res.cov["geometry_histogram"] = hist
        for c in cases[:3]:
            res.sample({"id": c["id"], "LA": c["shells"][0]["l"], "LB": c["shells"][1]["l"], "geom": c["extra"]["geom"],
                        "A": c["shells"][0]["c"], "B": c["shells"][1]["c"], "C": c["ecps"][0]["c"]})
        bad = {}
        for l in mism:
            cid = l.split()[1]
            bad.setdefault(cid, []).append(l)
        by_id = {c["id"]: c for c in cases}
        # ---- process-history independence: the same cases run in ONE process in the reverse order (large classes before small ones, so
        #      every engine is constructed after different predecessors) must give the same bits: no result may depend on which engines were
        #      constructed, or which pairs were computed, before
        cf2 = os.path.join(tmp, "cases_rev.txt"); of2 = os.path.join(tmp, "out_rev.txt")
        gen.write_cases(cf2, list(reversed(cases)))
        rc, out2 = sh([exe, cf2, of2], timeout=3600, check=False)
        if rc != 0:
            raise RuntimeError("drv_deriv (reverse order) failed rc=%d\n%s" % (rc, out2[-3000:]))
        def per_case(path):
            d = {}; cur = None
            for l in open(path):
                if l.startswith("case "):
                    cur = l.split()[1]; d[cur] = []
                elif cur is not None:
                    d[cur].append(l)
            return d
        fwd, rev = per_case(of), per_case(of2)
        nhist = 0
        for cid in fwd:
            nhist += 1
            if cid in rev and fwd[cid] != rev[cid] and cid not in bad:
                k = next((i for i, (x, y) in enumerate(zip(fwd[cid], rev[cid])) if x != y), 0)
                bad[cid] = ["MISMATCH %s the result depends on what the process computed before: line %d differs between the forward and the reverse run of the same case list: %s | %s" % (
                    cid, k, fwd[cid][k].strip()[:160], rev[cid][k].strip()[:160])]
        res.cov["cases_compared_bitwise_between_two_process_histories"] = nhist
        return [(by_id[cid], lines) for cid, lines in bad.items()]
    finally:
        shutil.rmtree(tmp, ignore_errors=True)
