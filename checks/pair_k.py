"""Shared machinery for the shell-pair checks (C01, C06, C07, C08): run drv_pair on cases, run the
brute-force specification oracle (drv_spec) in parallel, read blocks."""
import os, sys, shutil, subprocess
from vcommon import *
import gen


def read_blocks(fn):
    d = {}; cur = None
    for l in open(fn):
        t = l.split()
        if not t:
            continue
        if t[0] == "case":
            cur = t[1]; d[cur] = {}
        elif t[0] == "mat":
            d[cur][t[1]] = (int(t[2]), int(t[3]), [float.fromhex(x) for x in t[4:]])
        elif t[0] == "ints":
            d[cur][t[1]] = [int(x) for x in t[3:]]
        elif t[0] == "int":
            d[cur][t[1]] = int(t[2])
    return d


def run_pairs(cases, tmp, tag="p"):
    cf = os.path.join(tmp, tag + "_cases.txt"); of = os.path.join(tmp, tag + "_out.txt")
    gen.write_cases(cf, cases)
    exe = compile_driver("drv_pair.cpp", "rel")
    rc, out = sh([exe, cf, of], check=False, timeout=7200)
    if rc != 0:
        # the implementation aborted (index assertion, crash): find the first case that does it, one process per case
        culprit = None
        done = set(read_blocks(of).keys()) if os.path.exists(of) else set()
        for c in cases:
            if c["id"] in done and len(done) > 1:
                continue
            c1 = os.path.join(tmp, tag + "_one.txt"); o1 = os.path.join(tmp, tag + "_one_out.txt")
            gen.write_cases(c1, [c])
            r1, out1 = sh([exe, c1, o1], check=False, timeout=600)
            if r1 != 0:
                culprit = (c, r1, out1[-1500:]); break
        raise DriverAbort("drv_pair", rc, out[-2000:], culprit)
    return read_blocks(of), out


class DriverAbort(RuntimeError):
    """the implementation driver aborted; .culprit = (case, rc, message) of the first single case that reproduces it"""
    def __init__(self, name, rc, out, culprit):
        RuntimeError.__init__(self, "%s failed rc=%d: %s" % (name, rc, out))
        self.culprit = culprit


def run_spec(cases, tmp, tag="s"):
    """brute-force oracle, sharded over the cores; heavier cases first"""
    order = sorted(range(len(cases)), key=lambda i: -(cases[i]["shells"][0]["l"] + cases[i]["shells"][1]["l"] + 2 * max(p["l"] for p in cases[i]["ecps"][0]["p"])))
    ns = min(NPROC, max(1, len(cases)))
    shards = [[] for _ in range(ns)]
    for k, i in enumerate(order):
        shards[k % ns].append(cases[i])
    procs = []
    for k, sh_ in enumerate(shards):
        if not sh_:
            continue
        cf = os.path.join(tmp, "%s_c%d.txt" % (tag, k)); of = os.path.join(tmp, "%s_o%d.txt" % (tag, k))
        gen.write_cases(cf, sh_)
        procs.append((of, subprocess.Popen([os.path.join(OCAML, "drv_spec"), cf, of], stdout=subprocess.PIPE, stderr=subprocess.STDOUT)))
    res = {}
    for of, p in procs:
        o, _ = p.communicate(timeout=14400)
        if p.returncode != 0:
            raise RuntimeError("drv_spec failed: " + o.decode()[-1000:])
        res.update(read_blocks(of))
    return res
