"""T-tab obligations shared by C01 C02 C03 C04 C11: the constant tables and index macros read from the working tree on
this run (translators/t_tab.py -> coq/gen/Tables.v) are proved equal to what the models and specifications say they are
(coq/gen/Obl_Tab_<pid>.v, one theorem per table the property depends on)."""
import os, sys, re
sys.path.insert(0, os.path.join(os.path.dirname(os.path.abspath(__file__)), "..", "translators"))
from vcommon import *
import t_tab

HEAD = """(* generated per run by checks/tab_k.py *)
From Coq Require Import ZArith List Lia Reals Lra String Arith.
From Interval Require Import Tactic.
From LV Require Import Base.Cart Base.Tables Deriv.DerivModel Api.ApiModel Api.ApiProofs gen.Tables.
Import ListNotations.
Ltac Zify.zify_post_hook ::= Z.to_euclidean_division_equations.

Theorem no_unparsed : unparsed = [].
Proof. reflexivity. Qed.
"""

OBL = {
    "nindex": """
(* the N_INDEX macro of ecpint.hpp, in C int arithmetic, is the position function of the canonical Cartesian order *)
Theorem nindex_src_ok : forall l m : nat, nindex_src (Z.of_nat l) (Z.of_nat m) = Z.of_nat (nindex l m).
Proof.
  intros l m. unfold nindex_src, nindex, tri.
  rewrite ?Z.quot_div_nonneg by nia.
  rewrite Nat2Z.inj_add, Nat2Z.inj_div, Nat2Z.inj_mul, !Nat2Z.inj_add. simpl (Z.of_nat 1). simpl (Z.of_nat 2).
  first [reflexivity | lia | nia].
Qed.
Corollary nindex_src_cart : forall (k l m : nat) d,
  nth (Z.to_nat (nindex_src (Z.of_nat l) (Z.of_nat m))) (cart (k + l + m)) d = (k, l, m).
Proof. intros. rewrite nindex_src_ok, Nat2Z.id. apply cart_index. Qed.
""",
    "hstart": """
(* the H_START macro of api.hpp, in C int arithmetic (truncating division), is the model's hstart on every admissible argument *)
Theorem hstart_src_ok : forall i j N : Z, (0 <= i)%Z -> hstart_src i j N = hstart i j N.
Proof.
  intros i j N Hi. unfold hstart_src, hstart.
  rewrite ?Z.quot_div_nonneg by nia.
  first [reflexivity | lia | nia].
Qed.
(* hence the packing theorem holds for the macro as written in the source *)
Definition packed_src (N : nat) (s : nat * nat * nat) : nat :=
  let '(i, j, c) := s in
  if (i =? j)%nat then Z.to_nat (hstart_src (Z.of_nat i) (Z.of_nat i) (Z.of_nat N) + 3) + c
  else Z.to_nat (hstart_src (Z.of_nat (Nat.min i j)) (Z.of_nat (Nat.max i j)) (Z.of_nat N)) + c.
Theorem hstart_src_enumeration : forall N, map (packed_src N) (slots N) = seq 0 (3 * N * (3 * N + 1) / 2).
Proof.
  intros N. rewrite <- hstart_enumeration. apply map_ext. intros [[i j] c]. unfold packed_src, packed, hpair, hdiag, hoff.
  rewrite !hstart_src_ok by lia. destruct (i =? j)%nat; reflexivity.
Qed.
""",
    "api_maps": """
Theorem ixes_src_ok : ixes_dim = 6%Z /\\ map Z.to_nat ixes_src = map ixes (seq 0 6).
Proof. split; reflexivity. Qed.
Theorem back_ixes_src_ok : back_ixes_dim = 6%Z /\\ map Z.to_nat back_ixes_src = map back_ixes (seq 0 6).
Proof. split; reflexivity. Qed.
Theorem jxes_src_ok : jxes_dim = 9%Z /\\ map Z.to_nat jxes_src = map jxes (seq 0 9).
Proof. split; reflexivity. Qed.
(* what the three maps MEAN: ixes lists the upper triangle pq (p<=q) of a 3x3 component index, back_ixes its transpose, jxes the transpose of all nine *)
Theorem api_maps_meaning :
  map Z.to_nat ixes_src = map (fun pq => 3 * fst pq + snd pq) [(0,0);(0,1);(0,2);(1,1);(1,2);(2,2)] /\\
  map Z.to_nat back_ixes_src = map (fun pq => 3 * snd pq + fst pq) [(0,0);(0,1);(0,2);(1,1);(1,2);(2,2)] /\\
  map Z.to_nat jxes_src = map (fun n => 3 * (n mod 3) + n / 3) (seq 0 9).
Proof. repeat split; reflexivity. Qed.
""",
    "deriv_maps": """
Theorem jaas_src_ok : jaas_dim = 9%Z /\\ map Z.to_nat jaas_src = map jaas (seq 0 9).
Proof. split; reflexivity. Qed.
Theorem jbbs_src_ok : jbbs_dim = 9%Z /\\ map Z.to_nat jbbs_src = map jbbs (seq 0 9).
Proof. split; reflexivity. Qed.
(* meaning: jaas sends the component pair pq of a 3x3 block to the index of the symmetric component {p,q} among xx,xy,xz,yy,yz,zz; jbbs transposes *)
Definition sym6 (p q : nat) : nat := let a := Nat.min p q in let b := Nat.max p q in nth a [0; 3; 5] 0 + (b - a).
Theorem deriv_maps_meaning :
  map Z.to_nat jaas_src = map (fun n => sym6 (n / 3) (n mod 3)) (seq 0 9) /\\
  map Z.to_nat jbbs_src = map (fun n => 3 * (n mod 3) + n / 3) (seq 0 9).
Proof. split; reflexivity. Qed.
""",
    "gamma": """
(* every entry of GAMMA[] is within 1e-13 (relative) of Gamma((i+1)/2) *)
Theorem gamma_src_ok : gamma_dim = 30%Z /\\ List.length gamma_src = 30%nat /\\
  forall i, (i < 30)%nat -> gamma_close i (nth i gamma_src 0%R).
Proof.
  split; [reflexivity|]. split; [reflexivity|]. intros i Hi. unfold gamma_close.
  do 30 (destruct i as [|i]; [cbn [nth gamma_src gamma_half INR]; interval with (i_prec 80)|]). lia.
Qed.
""",
    "fast_pow": """
(* FAST_POW[k](z) = z^k for k <= 20, FAST_POW[21](z) = 1/z, FAST_POW[22](z) = 1/z^2, as real functions of the source text *)
Theorem fast_pow_src_ok : fast_pow_dim = 23%Z /\\ List.length fast_pow_src = 23%nat /\\
  (forall k z, (k <= 20)%nat -> nth k fast_pow_src (fun _ => 0%R) z = (z ^ k)%R) /\\
  (forall z, z <> 0%R -> nth 21 fast_pow_src (fun _ => 0%R) z = (/ z)%R /\\ nth 22 fast_pow_src (fun _ => 0%R) z = (/ (z * z))%R).
Proof.
  split; [reflexivity|]. split; [reflexivity|]. split.
  - intros k z Hk. do 21 (destruct k as [|k]; [cbv [nth fast_pow_src]; match goal with |- ?f z = _ => unfold f end; cbv zeta; ring|]). lia.
  - intros z Hz. split; cbv [nth fast_pow_src]; match goal with |- ?f z = _ => unfold f end; cbv zeta; field; assumption.
Qed.
Theorem fast_pow_names_ok : fast_pow_names =
  ["pow_0"; "pow_1"; "pow_2"; "pow_3"; "pow_4"; "pow_5"; "pow_6"; "pow_7"; "pow_8"; "pow_9"; "pow_10"; "pow_11"; "pow_12"; "pow_13";
   "pow_14"; "pow_15"; "pow_16"; "pow_17"; "pow_18"; "pow_19"; "pow_20"; "pow_m1"; "pow_m2"]%string.
Proof. reflexivity. Qed.
""",
}

WHICH = {
    "C01": ["nindex", "gamma", "fast_pow"],
    "C02": ["nindex"],
    "C03": ["nindex", "deriv_maps"],
    "C04": ["hstart", "api_maps"],
    "C11": ["nindex", "hstart", "api_maps", "deriv_maps", "gamma", "fast_pow"],
}


def obligations(res, pid):
    """returns (ok, failing theorem names)"""
    t = t_tab.extract(REPO)
    os.makedirs(os.path.join(COQ, "gen"), exist_ok=True)
    t_tab.emit(t, os.path.join(COQ, "gen", "Tables.v"))
    res.cov["t_tab"] = {"unparsed": t["unparsed"], "hstart": t["hstart"][2] if t.get("hstart") else None, "nindex": t["nindex"][2] if t.get("nindex") else None,
                        "ixes": t.get("ixes"), "back_ixes": t.get("back_ixes"), "jxes": t.get("jxes"), "jaas": t.get("jaas"), "jbbs": t.get("jbbs"),
                        "gamma_entries": len(t["gamma"][1]) if t.get("gamma") else None, "pow_bodies": len(t.get("pows", {}))}
    rc, out = coqc("gen/Tables.v")
    failing = []
    if rc != 0:
        res.cov.setdefault("coq_errors", []).append(out[-1200:])
        return False, ["gen/Tables.v does not compile"]
    names = WHICH[pid]
    n_thm = 0
    # one file per group so that one broken table does not hide the others
    for g in names:
        fn = "gen/Obl_Tab_%s_%s.v" % (pid, g)
        src = HEAD + OBL[g]
        open(os.path.join(COQ, fn), "w").write(src)
        thms = re.findall(r"^(?:Theorem|Corollary)\s+(\w+)", src, flags=re.M)
        n_thm += len(thms)
        rc, out = coqc(fn, timeout=600)
        if rc != 0:
            failing.append("%s (%s)" % (g, ", ".join(thms)))
            res.cov.setdefault("coq_errors", []).append(out[-1200:])
        else:
            res.cov["discharged"] = res.cov.get("discharged", 0) + len(thms)
    res.cov["obligations"] = res.cov.get("obligations", 0) + n_thm
    res.cov["t_tab_obligations"] = {"groups": names, "failing": failing}
    return not failing, failing


def report(res, pid, ok, failing):
    """call just before res.finish(): a broken table obligation with no failing input found by the correspondence is still a violation"""
    if not ok and not res.violations:
        res.violation("tab-obligation", {"theorem_or_correspondence": "gen/Obl_Tab_%s_*.v (T-tab: tables and index macros read from the source on this run): %s" % (pid, "; ".join(failing)),
                                         "tables_from_source": res.cov.get("t_tab"), "detail": res.cov.get("coq_errors", [])[-3:]}, no_input=True)
