(* C13: makeOmega as coded (fill for lam <= rho, mirrored store) equals the double-integral specification on the whole
   domain the W theorem covers, by a structural argument (no enumeration over Omega entries). *)
From Coq Require Import QArith ZArith List Arith PeanoNat Bool Lia Setoid Morphisms.
From LV Require Import Base.NumOps Base.QInst Angular.AngularModel Angular.AngularProofs Angular.AngThmW.
Import ListNotations.
Local Open Scope Q_scope.

Definition Qsum (l : list Q) : Q := fold_right Qplus 0 l.
Lemma Qsum_nil : Qsum [] = 0. Proof. reflexivity. Qed.
Lemma Qsum_cons x l : Qsum (x :: l) = x + Qsum l. Proof. reflexivity. Qed.
Global Opaque Qsum.

Lemma Qsum_ext {A} (f g : A -> Q) l : (forall x, In x l -> f x == g x) -> Qsum (map f l) == Qsum (map g l).
Proof.
  induction l as [|x l IH]; intros H; cbn [map]; rewrite ?Qsum_cons, ?Qsum_nil; [reflexivity|].
  rewrite (H x) by (now left). rewrite IH; [reflexivity|]. intros; apply H; now right.
Qed.
Lemma Qsum_scal {A} (c : Q) (f : A -> Q) l : c * Qsum (map f l) == Qsum (map (fun x => c * f x) l).
Proof. induction l as [|x l IH]; cbn [map]; rewrite ?Qsum_cons, ?Qsum_nil; [ring|]. rewrite <- IH. ring. Qed.
Lemma Qsum_plus {A} (f g : A -> Q) l : Qsum (map (fun x => f x + g x) l) == Qsum (map f l) + Qsum (map g l).
Proof. induction l as [|x l IH]; cbn [map]; rewrite ?Qsum_cons, ?Qsum_nil; [ring|]. rewrite IH. ring. Qed.
Lemma Qsum_zero {A} (l : list A) : Qsum (map (fun _ => 0) l) == 0.
Proof. induction l as [|x l IH]; cbn [map]; rewrite ?Qsum_cons, ?Qsum_nil; [reflexivity|]. rewrite IH. ring. Qed.
Lemma Qsum_swap {A B} (f : A -> B -> Q) la lb :
  Qsum (map (fun a => Qsum (map (fun b => f a b) lb)) la) == Qsum (map (fun b => Qsum (map (fun a => f a b) la)) lb).
Proof.
  induction la as [|a la IH]; cbn [map]; rewrite ?Qsum_cons, ?Qsum_nil.
  - symmetry. apply Qsum_zero.
  - rewrite IH. rewrite <- Qsum_plus. apply Qsum_ext. intros b _. cbn [map]; rewrite ?Qsum_cons, ?Qsum_nil. reflexivity.
Qed.
Lemma Qsum_app a b : Qsum (a ++ b) == Qsum a + Qsum b.
Proof. induction a as [|x a IH]; cbn [app]; rewrite ?Qsum_cons, ?Qsum_nil; [ring|]. rewrite IH. ring. Qed.
Lemma Qsum_flat_map {A B} (g : A -> list B) (f : B -> Q) l :
  Qsum (map f (flat_map g l)) == Qsum (map (fun x => Qsum (map f (g x))) l).
Proof. induction l as [|x l IH]; cbn [flat_map map]; rewrite ?Qsum_cons, ?Qsum_nil; [reflexivity|]. rewrite map_app, Qsum_app, IH. reflexivity. Qed.

(* accumulating folds of the dictionary's (reducing) addition are sums *)
Lemma fold_acc_Qsum {A} (f : A -> Q) l acc :
  fold_left (fun a x => nadd QOps a (f x)) l acc == acc + Qsum (map f l).
Proof.
  revert acc. induction l as [|x l IH]; intros acc; cbn [fold_left map]; rewrite ?Qsum_cons, ?Qsum_nil; [ring|].
  rewrite IH. cbn [nadd QOps]. rewrite Qred_correct. ring.
Qed.
Lemma fold_acc_Qsum_gen {A} (g : Q -> A -> Q) (f : A -> Q) l acc :
  (forall a x, g a x == a + f x) -> (forall a a' x, a == a' -> g a x == g a' x) ->
  fold_left g l acc == acc + Qsum (map f l).
Proof.
  intros Hg Hc. revert acc. induction l as [|x l IH]; intros acc; cbn [fold_left map]; rewrite ?Qsum_cons, ?Qsum_nil; [ring|].
  rewrite IH, Hg. ring.
Qed.
Lemma sumN_Qsum n f : sumN QOps n f == Qsum (map f (seq 0 n)).
Proof. unfold sumN. rewrite fold_acc_Qsum. cbn [n0 QOps]. ring. Qed.

Lemma nadd_eq a b : nadd QOps a b == a + b. Proof. cbn [nadd QOps]. apply Qred_correct. Qed.
Lemma nmul_eq a b : nmul QOps a b == a * b. Proof. cbn [nmul QOps]. apply Qred_correct. Qed.

Definition tcoef (t : Q * (nat * nat * nat)) : Q := fst t.
Definition ti (t : Q * (nat * nat * nat)) : nat := fst (fst (snd t)).
Definition tj (t : Q * (nat * nat * nat)) : nat := snd (fst (snd t)).
Definition tk (t : Q * (nat * nat * nat)) : nat := snd (snd t).

Lemma wbar_spec_sum k l m lam mu :
  wbar_spec QOps k l m lam mu
  == Qsum (map (fun t => tcoef t * pbar_closed QOps (k + ti t) (l + tj t) (m + tk t)) (yterms QOps lam mu)).
Proof.
  unfold wbar_spec.
  rewrite (fold_acc_Qsum_gen _ (fun t => tcoef t * pbar_closed QOps (k + ti t) (l + tj t) (m + tk t))).
  - cbn [n0 QOps]. ring.
  - intros a [c [[i j] kk]]. unfold tcoef, ti, tj, tk. cbn [fst snd]. rewrite nadd_eq, nmul_eq. reflexivity.
  - intros a a' [c [[i j] kk]] E. rewrite !nadd_eq, E. reflexivity.
Qed.

Lemma obar_spec_sum k l m lam mu rho sigma :
  obar_spec QOps k l m lam mu rho sigma
  == Qsum (map (fun t => tcoef t * wbar_spec QOps (k + ti t) (l + tj t) (m + tk t) rho sigma) (yterms QOps lam mu)).
Proof.
  unfold obar_spec.
  rewrite (fold_acc_Qsum_gen _ (fun t => tcoef t * wbar_spec QOps (k + ti t) (l + tj t) (m + tk t) rho sigma)).
  - cbn [n0 QOps]. ring.
  - intros a [c [[i j] kk]]. unfold tcoef, ti, tj, tk. cbn [fst snd]. rewrite nadd_eq, nmul_eq. reflexivity.
  - intros a a' [c [[i j] kk]] E. rewrite !nadd_eq, E. reflexivity.
Qed.

(* the double integral is symmetric in the two harmonics *)
Theorem obar_spec_sym k l m lam mu rho sigma :
  obar_spec QOps k l m lam mu rho sigma == obar_spec QOps k l m rho sigma lam mu.
Proof.
  rewrite !obar_spec_sum.
  transitivity (Qsum (map (fun t => Qsum (map (fun t' =>
      tcoef t * (tcoef t' * pbar_closed QOps (k + ti t + ti t') (l + tj t + tj t') (m + tk t + tk t'))) (yterms QOps rho sigma))) (yterms QOps lam mu))).
  { apply Qsum_ext. intros t _. rewrite wbar_spec_sum, Qsum_scal. reflexivity. }
  rewrite Qsum_swap. apply Qsum_ext. intros t' _. rewrite wbar_spec_sum, Qsum_scal. apply Qsum_ext. intros t _.
  replace (k + ti t' + ti t)%nat with (k + ti t + ti t')%nat by lia.
  replace (l + tj t' + tj t)%nat with (l + tj t + tj t')%nat by lia.
  replace (m + tk t' + tk t)%nat with (m + tk t + tk t')%nat by lia.
  ring.
Qed.

(* the terms of a harmonic, as a double range *)
Definition ycoef (lam : nat) (mu : Z) (i j : nat) : Q :=
  let u := ubar QOps lam (Z.abs_nat mu) i j in if (mu <? 0)%Z then snd u else fst u.

Lemma over_yterms (F : Q * (nat * nat * nat) -> Q) lam mu :
  Qsum (map F (yterms QOps lam mu))
  == Qsum (map (fun i => Qsum (map (fun j => F (ycoef lam mu i j, (i, j, lam - i - j)%nat)) (seq 0 (S (lam - i))))) (seq 0 (S lam))).
Proof.
  unfold yterms. rewrite Qsum_flat_map. apply Qsum_ext. intros i _. rewrite map_map. reflexivity.
Qed.

(* one fill of makeOmega = the specification, wherever the W theorem applies to the shifted monomials *)
Lemma fill_eq_spec k l m lam mu rho sigma :
  (lam <= 10)%nat -> (rho <= 10)%nat -> (k + lam <= 12)%nat -> (l + lam <= 12)%nat -> (m + lam <= 12)%nat ->
  (- Z.of_nat rho <= sigma <= Z.of_nat rho)%Z ->
  obar_fill_gen QOps (ubar QOps) (wbar_code QOps 10) k l m rho sigma lam mu == obar_spec QOps k l m lam mu rho sigma.
Proof.
  intros Hlam Hrho Hk Hl Hm Hs.
  rewrite obar_spec_sum, over_yterms. unfold obar_fill_gen.
  rewrite sumN_Qsum. apply Qsum_ext. intros i Hi. apply in_seq in Hi.
  rewrite sumN_Qsum. apply Qsum_ext. intros j Hj. apply in_seq in Hj.
  unfold tcoef, ti, tj, tk. cbn [fst snd]. rewrite nmul_eq. fold (ycoef lam mu i j).
  replace (m + lam - i - j)%nat with (m + (lam - i - j))%nat by lia.
  rewrite W_code_eq_spec by (assumption || lia). reflexivity.
Qed.

(* makeOmega as coded = the double integral of x^k y^l z^m Y(lam,mu) Y(rho,sigma) taken term by term, for all harmonics
   up to 10 and all monomials the W theorem reaches after the shift by the smaller harmonic *)
Theorem omega_code_eq_spec k l m lam mu rho sigma :
  (lam <= 10)%nat -> (rho <= 10)%nat ->
  (k + Nat.min lam rho <= 12)%nat -> (l + Nat.min lam rho <= 12)%nat -> (m + Nat.min lam rho <= 12)%nat ->
  (- Z.of_nat lam <= mu <= Z.of_nat lam)%Z -> (- Z.of_nat rho <= sigma <= Z.of_nat rho)%Z ->
  obar_code QOps 10 k l m lam mu rho sigma == obar_spec QOps k l m lam mu rho sigma.
Proof.
  intros Hlam Hrho Hk Hl Hm Hmu Hs. unfold obar_code, obar_code_gen.
  destruct (Nat.leb_spec lam rho) as [Hle|Hgt].
  - rewrite Nat.min_l in * by lia. apply fill_eq_spec; assumption.
  - rewrite Nat.min_r in * by lia. rewrite obar_spec_sym. apply fill_eq_spec; assumption.
Qed.
