From Coq Require Import QArith ZArith List Arith PeanoNat Bool Lia.
From LV Require Import Base.NumOps Base.QInst Angular.AngularModel Angular.AngularProofs.
Local Open Scope nat_scope.

Theorem harmonic_10 : harmonic_ok 10 = true. Proof. vm_compute. reflexivity. Qed.
Theorem lz2_10 : lz2_ok 10 = true. Proof. vm_compute. reflexivity. Qed.
Theorem sign_10 : sign_ok 10 = true. Proof. vm_compute. reflexivity. Qed.
Theorem pbar_30 : pbar_ok 30 = true. Proof. vm_compute. reflexivity. Qed.
Theorem omega_small : omega_ok 10 1 3 = true. Proof. vm_compute. reflexivity. Qed.

(* lifted forms *)
Theorem harmonics_characterised lam mu : lam <= 10 -> (- Z.of_nat lam <= mu <= Z.of_nat lam)%Z ->
  pzero (lam - 2) (laplacian (Y lam mu)) = true /\
  pzero lam (lz (lz (Y lam mu)) ++ pscale (inject_Z (mu * mu)) (Y lam mu)) = true /\
  (forall c i j k, In (c, (i, j, k)) (Y lam mu) -> Qz c || Bool.eqb (Nat.even j) (0 <=? mu)%Z = true) /\
  (let amu := Z.abs_nat mu in
   let e := if (0 <=? mu)%Z then (amu, 0, lam - amu) else (amu - 1, 1, lam - amu) in
   Qcompare 0%Q (coef_of (Y lam mu) e) = Lt).
Proof.
  intros Hl Hm. pose proof (lammu_in 10 lam mu Hl Hm) as Hin.
  pose proof harmonic_10 as H1. pose proof lz2_10 as H2. pose proof sign_10 as H3.
  unfold harmonic_ok in H1. unfold lz2_ok in H2. unfold sign_ok in H3.
  rewrite forallb_forall in H1, H2, H3.
  specialize (H1 _ Hin). specialize (H2 _ Hin). specialize (H3 _ Hin). cbn beta iota zeta in *.
  apply andb_prop in H2. destruct H2 as [H2a H2b]. rewrite forallb_forall in H2b.
  repeat split; try assumption.
  - intros c i j k Ht. exact (H2b _ Ht).
  - cbn [fst snd] in H3. destruct (Qcompare _ _); try discriminate. reflexivity.
Qed.

Theorem pijk_closed_form a b c : a <= 30 -> b <= 30 -> c <= 30 -> Qeq (pbar QOps a b c) (pbar_closed QOps a b c).
Proof.
  intros. pose proof pbar_30 as H2. unfold pbar_ok in H2. rewrite forallb_forall in H2.
  specialize (H2 _ (cube_in 30 a b c ltac:(assumption) ltac:(assumption) ltac:(assumption))). cbn beta iota in H2.
  now apply Qeq_bool_iff.
Qed.

Theorem omega_code_eq_spec_small k l m lam mu rho sigma : k <= 1 -> l <= 1 -> m <= 1 -> lam <= 3 -> rho <= 3 ->
  (- Z.of_nat lam <= mu <= Z.of_nat lam)%Z -> (- Z.of_nat rho <= sigma <= Z.of_nat rho)%Z ->
  Qeq (obar_code QOps 10 k l m lam mu rho sigma) (obar_spec QOps k l m lam mu rho sigma).
Proof.
  intros. pose proof omega_small as H6. unfold omega_ok in H6. rewrite forallb_forall in H6.
  specialize (H6 _ (cube_in 1 k l m ltac:(assumption) ltac:(assumption) ltac:(assumption))). cbn beta iota in H6.
  rewrite forallb_forall in H6. specialize (H6 _ (lammu_in 3 lam mu ltac:(assumption) ltac:(assumption))).
  rewrite forallb_forall in H6. specialize (H6 _ (lammu_in 3 rho sigma ltac:(assumption) ltac:(assumption))).
  cbn [fst snd] in H6. now apply Qeq_bool_iff.
Qed.
