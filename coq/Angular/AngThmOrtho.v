From Coq Require Import QArith ZArith List Arith PeanoNat Bool Lia.
From LV Require Import Base.NumOps Base.QInst Angular.AngularModel Angular.AngularProofs.
Local Open Scope nat_scope.
(* pairs are taken once (a <= b lexicographically): the sphere integral of a product is symmetric *)
Definition leb_lm (a b : nat * Z) : bool := (fst a <? fst b) || ((fst a =? fst b) && (snd a <=? snd b)%Z).
Definition ortho_stmt (a b : nat * Z) : bool :=
  if leb_lm a b then
    let s := sphq (Y (fst a) (snd a)) (Y (fst b) (snd b)) in
    if (fst a =? fst b) && (snd a =? snd b)%Z then Qeq_bool (4 * cnorm QOps (fst a) (snd a) * s)%Q 1%Q else Qz s
  else true.
Theorem ortho_10 : forallb (fun a => forallb (ortho_stmt a) (lammu 10)) (lammu 10) = true.
Proof. vm_compute. reflexivity. Qed.
(* the normalised harmonics S = sqrt(c/pi) Y are orthonormal on the sphere (exact, lam <= 10):
   4 c(lam,mu) int(Y Y)/4pi = 1 and every cross integral vanishes *)
Theorem orthonormal lam mu lam' mu' : lam <= 10 -> lam' <= 10 ->
  (- Z.of_nat lam <= mu <= Z.of_nat lam)%Z -> (- Z.of_nat lam' <= mu' <= Z.of_nat lam')%Z ->
  ortho_stmt (lam, mu) (lam', mu') = true.
Proof.
  intros H1 H2 H3 H4.
  pose proof (proj1 (forallb_forall (fun a => forallb (ortho_stmt a) (lammu 10)) (lammu 10)) ortho_10 (lam, mu) (lammu_in 10 lam mu H1 H3)) as H.
  exact (proj1 (forallb_forall (ortho_stmt (lam, mu)) (lammu 10)) H (lam', mu') (lammu_in 10 lam' mu' H2 H4)).
Qed.
