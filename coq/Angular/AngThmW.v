From Coq Require Import QArith ZArith List Arith PeanoNat Bool Lia.
From LV Require Import Base.NumOps Base.QInst Angular.AngularModel Angular.AngularProofs.
Local Open Scope nat_scope.
Theorem w_memo_10_12 : w_ok_memo 10 12 = true. Proof. vm_compute. reflexivity. Qed.
(* makeW as coded — parity screens, the lam <= min(maxLam,k+l+m) cut, the sorted Pijk lookup, entries
   never written left 0 — equals the term-by-term sphere integral of x^k y^l z^m times the harmonic,
   for every k,l,m <= 12 and every harmonic with lam <= 10 *)
Theorem W_code_eq_spec k l m lam mu : k <= 12 -> l <= 12 -> m <= 12 -> lam <= 10 ->
  (- Z.of_nat lam <= mu <= Z.of_nat lam)%Z ->
  Qeq (wbar_code QOps 10 k l m lam mu) (wbar_spec QOps k l m lam mu).
Proof. apply (w_ok_memo_sound 10 12 w_memo_10_12). Qed.
