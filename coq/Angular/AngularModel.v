(* Exact model of src/lib/angular.cpp (AngularIntegral) with the irrational
   normalisation factored out:
     U(lam,mu,i,j,t)      = ubar * sqrt(c(lam,mu)/pi)
     pijk                 = 4 pi * pbar
     W(k,l,m,lam,mu)      = wbar * 4 sqrt(c(lam,mu) pi)
     Omega(k,l,m,lam,mu,rho,sigma) = obar * 4 sqrt(c(lam,mu) c(rho,sigma))
   with c(lam,mu) = (2 lam+1)(lam-|mu|)!/(2 (lam+|mu|)!) * (1/2 if mu = 0) rational.
   Everything below is rational arithmetic, generic over the numeric dictionary.
   Code-shaped definitions (screens, limits, fill order) AND a specification-shaped
   one (polynomial of the harmonic integrated monomial by monomial, no screens). *)
From Coq Require Import List Arith ZArith PeanoNat Bool.
From LV Require Import Base.NumOps.
Import ListNotations.

Fixpoint zfact (n : nat) : Z := match n with O => 1%Z | S k => (Z.of_nat n * zfact k)%Z end.
Fixpoint zdfact (n : nat) : Z :=           (* n!! with 0!! = 1!! = 1 *)
  match n with O => 1%Z | S O => 1%Z | S (S k as p) => (Z.of_nat n * zdfact k)%Z end.

Section Ang.
  Context {T : Type} (o : NumOps T).
  Local Notation "a +! b" := (nadd o a b) (at level 50, left associativity).
  Local Notation "a *! b" := (nmul o a b) (at level 40, left associativity).
  Local Notation "a /! b" := (ndiv o a b) (at level 40, left associativity).
  Let fact (n : nat) : T := nofZ o (zfact n).
  Let ofN (n : nat) : T := nofZ o (Z.of_nat n).
  Definition sgn (n : nat) : T := if Nat.even n then n1 o else nofZ o (-1).
  Definition sumN (n : nat) (f : nat -> T) : T := fold_left (fun a i => a +! f i) (seq 0 n) (n0 o).
  Definition sumFromTo (a b : nat) (f : nat -> T) : T := fold_left (fun acc i => acc +! f i) (seq a (S b - a)) (n0 o).

  (* calcH1(i,j,l,m), calcH2(i,j,k,m) *)
  Definition calcH1 (i j l m : nat) : T :=
    (fact l /! (fact j *! fact (l - i) *! fact (i - j))) *! (sgn i *! fact (2 * (l - i)) /! fact (l - m - 2 * i)).
  Definition calcH2 (i j k m : nat) : T :=
    if (2 * i <=? k) && (k - 2 * i <=? m) then
      let ki2 := k - 2 * i in
      (fact j *! fact m /! (fact i *! fact (j - i) *! fact ki2 *! fact (m - ki2))) *! sgn ((m - ki2) / 2)
    else n0 o.

  (* rational part of uklm(lam,mu)(k,l): (cos-type slot 0, sin-type slot 1); mu >= 0.
     gbar = 1/(2^lam lam!) *)
  Definition gbar (lam : nat) : T := n1 o /! (nofZ o (2 ^ Z.of_nat lam) *! fact lam).
  Definition ubar (lam mu k l : nat) : T * T :=
    if (mu <=? k + l) && Nat.even (k + l - mu) then
      let j := (k + l - mu) / 2 in
      let u1 := sumFromTo j ((lam - mu) / 2) (fun i => calcH1 i j lam mu) in
      let u2 := sumN (S j) (fun i => calcH2 i j k mu) in
      let u := gbar lam *! u1 *! u2 in
      if mu =? 0 then
        (* u *= (1 - l%2); then both slots take u / sqrt2 (the sqrt2 is in c(lam,0)) *)
        let u' := if Nat.even l then u else n0 o in (u', u')
      else if Nat.even l then (u, n0 o) else (n0 o, u)
    else (n0 o, n0 o).

  (* pijk / 4pi by the ratio recursion of Pijk; arguments sorted descending i >= j >= k *)
  Definition pbar_sorted (i j k : nat) : T :=
    let a := n1 o /! ofN (2 * i + 1) in
    let b := fold_left (fun v jj => v *! ofN (2 * jj - 1) /! ofN (2 * (i + jj) + 1)) (seq 1 j) a in
    fold_left (fun v kk => v *! ofN (2 * kk - 1) /! ofN (2 * (i + j + kk) + 1)) (seq 1 k) b.
  Definition sort3 (a b c : nat) : nat * nat * nat :=
    let hi := Nat.max a (Nat.max b c) in let lo := Nat.min a (Nat.min b c) in (hi, a + b + c - hi - lo, lo).
  (* integral of x^a y^b z^c over the sphere / 4pi, as makeW computes it *)
  Definition pbar (a b c : nat) : T :=
    if Nat.even a && Nat.even b && Nat.even c then
      let '(i, j, k) := sort3 (a / 2) (b / 2) (c / 2) in pbar_sorted i j k
    else n0 o.
  (* the closed form (a-1)!!(b-1)!!(c-1)!!/(a+b+c+1)!! *)
  Definition pbar_closed (a b c : nat) : T :=
    if Nat.even a && Nat.even b && Nat.even c then
      nofZ o (zdfact (a - 1) * zdfact (b - 1) * zdfact (c - 1)) /! nofZ o (zdfact (a + b + c + 1))
    else n0 o.

  (* ---- code-shaped W: makeW's screens and limits; mu signed ---- *)
  Definition wbar_code_gen (ub : nat -> nat -> nat -> nat -> T * T) (pb : nat -> nat -> nat -> T)
             (maxLam : nat) (k l m lam : nat) (mu : Z) : T :=
    let amu := Z.abs_nat mu in
    let plam := (k + l + m) mod 2 in
    let limit := Nat.min maxLam (k + l + m) in
    let smu_neg := Nat.odd l in                      (* smu = 1 - 2*(l%2) *)
    let pmu := (k + l) mod 2 in
    if (lam <=? limit) && (lam mod 2 =? plam) && (amu <=? lam) && (amu mod 2 =? pmu)
       && (Bool.eqb (mu <? 0)%Z (smu_neg && negb (amu =? 0)) || ((amu =? 0)))
    then
      sumN (S lam) (fun i => sumN (S (lam - i)) (fun j =>
        let u := ub lam amu i j in
        (if smu_neg then snd u else fst u) *! pb (k + i) (l + j) (m + lam - i - j)))
    else n0 o.
  Definition wbar_code := wbar_code_gen ubar pbar.

  (* ---- specification-shaped: the harmonic as a polynomial, integrated term by term ---- *)
  (* terms of Y(lam, mu) (mu signed): coefficient and exponents of x, y, z *)
  Definition yterms (lam : nat) (mu : Z) : list (T * (nat * nat * nat)) :=
    let amu := Z.abs_nat mu in
    flat_map (fun k => map (fun l =>
      let u := ubar lam amu k l in
      ((if (mu <? 0)%Z then snd u else fst u), (k, l, lam - k - l))) (seq 0 (S (lam - k)))) (seq 0 (S lam)).
  Definition wbar_spec (k l m lam : nat) (mu : Z) : T :=
    fold_left (fun acc t => let '(c, (i, j, kk)) := t in acc +! c *! pbar_closed (k + i) (l + j) (m + kk))
              (yterms lam mu) (n0 o).

  (* ---- code-shaped Omega (makeOmega): filled for lam <= rho, both orders stored ---- *)
  Definition obar_fill_gen (ub : nat -> nat -> nat -> nat -> T * T) (wb : nat -> nat -> nat -> nat -> Z -> T)
             (k l m rho : nat) (sigma : Z) (lam : nat) (mu : Z) : T :=
    let amu := Z.abs_nat mu in
    sumN (S lam) (fun i => sumN (S (lam - i)) (fun j =>
      let u := ub lam amu i j in
      (if (mu <? 0)%Z then snd u else fst u) *! wb (k + i) (l + j) (m + lam - i - j) rho sigma)).
  Definition obar_code_gen ub wb (k l m lam : nat) (mu : Z) (rho : nat) (sigma : Z) : T :=
    if lam <=? rho then obar_fill_gen ub wb k l m rho sigma lam mu else obar_fill_gen ub wb k l m lam mu rho sigma.
  Definition obar_code (maxLam : nat) := obar_code_gen ubar (wbar_code maxLam).
  Definition obar_spec (k l m lam : nat) (mu : Z) (rho : nat) (sigma : Z) : T :=
    fold_left (fun acc t => let '(c, (i, j, kk)) := t in acc +! c *! wbar_spec (k + i) (l + j) (m + kk) rho sigma)
              (yterms lam mu) (n0 o).

  (* normalisation constant c(lam,mu) (rational): U = ubar sqrt(c/pi) *)
  Definition cnorm (lam : nat) (mu : Z) : T :=
    let amu := Z.abs_nat mu in
    let c := ofN (2 * lam + 1) *! fact (lam - amu) /! (nofZ o 2 *! fact (lam + amu)) in
    if amu =? 0 then c /! nofZ o 2 else c.
End Ang.
