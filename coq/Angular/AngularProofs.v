(* Finite-domain theorems about the exact angular model, proved by evaluation in Q
   (vm_compute) and lifted with forallb_forall.  The bounds are part of each statement. *)
From Coq Require Import QArith ZArith List Arith PeanoNat Bool Lia.
From LV Require Import Base.NumOps Base.QInst Angular.AngularModel.
Import ListNotations.
Local Open Scope nat_scope.

Definition Qz (q : Q) : bool := Qeq_bool q 0%Q.
Definition mus (lam : nat) : list Z := map (fun i => (Z.of_nat i - Z.of_nat lam)%Z) (seq 0 (2 * lam + 1)).
Definition lammu (L : nat) : list (nat * Z) := flat_map (fun lam => map (fun mu => (lam, mu)) (mus lam)) (seq 0 (S L)).
Definition monos (d : nat) : list (nat * nat * nat) :=      (* all exponent triples of total degree d *)
  flat_map (fun i => map (fun j => (i, j, d - i - j)) (seq 0 (S (d - i)))) (seq 0 (S d)).
Definition cube (n : nat) : list (nat * nat * nat) :=
  flat_map (fun i => flat_map (fun j => map (fun k => (i, j, k)) (seq 0 (S n))) (seq 0 (S n))) (seq 0 (S n)).

(* ---- polynomial helpers over term lists ---- *)
Definition pterm := (Q * (nat * nat * nat))%type.
Definition coef_of (p : list pterm) (e : nat * nat * nat) : Q :=
  fold_left (fun a t => let '(c, (i, j, k)) := t in let '(i', j', k') := e in
                        if (i =? i') && (j =? j') && (k =? k') then Qred (a + c)%Q else a) p 0%Q.
Definition pzero (deg : nat) (p : list pterm) : bool := forallb (fun e => Qz (coef_of p e)) (monos deg).
Definition d2 (ax : nat) (t : pterm) : list pterm :=
  let '(c, (i, j, k)) := t in
  match ax with
  | 0 => if 2 <=? i then [((c * inject_Z (Z.of_nat (i * (i - 1))))%Q, (i - 2, j, k))] else []
  | 1 => if 2 <=? j then [((c * inject_Z (Z.of_nat (j * (j - 1))))%Q, (i, j - 2, k))] else []
  | _ => if 2 <=? k then [((c * inject_Z (Z.of_nat (k * (k - 1))))%Q, (i, j, k - 2))] else []
  end.
Definition laplacian (p : list pterm) : list pterm := flat_map (fun t => d2 0 t ++ d2 1 t ++ d2 2 t) p.
(* Lz = x d/dy - y d/dx *)
Definition lz (p : list pterm) : list pterm :=
  flat_map (fun t => let '(c, (i, j, k)) := t in
     (if 1 <=? j then [((c * inject_Z (Z.of_nat j))%Q, (S i, j - 1, k))] else []) ++
     (if 1 <=? i then [((- c * inject_Z (Z.of_nat i))%Q, (i - 1, S j, k))] else [])) p.
Definition pscale (a : Q) (p : list pterm) : list pterm := map (fun t => ((a * fst t)%Q, snd t)) p.
Definition sphq (p q : list pterm) : Q :=       (* integral of p*q over the sphere / 4pi *)
  fold_left (fun a t => fold_left (fun a' s =>
     let '(c, (i, j, k)) := t in let '(c', (i', j', k')) := s in
     Qred (a' + c * c' * pbar_closed QOps (i + i') (j + j') (k + k'))%Q) q a) p 0%Q.

Definition Y (lam : nat) (mu : Z) : list pterm := yterms QOps lam mu.

(* 1. each Y(lam,mu) is harmonic *)
Definition harmonic_ok (L : nat) : bool := forallb (fun lm => pzero (fst lm - 2) (laplacian (Y (fst lm) (snd lm)))) (lammu L).
(* 2. orthonormal after normalisation: 4 c(lam,mu) int Y Y / 4pi = 1, and int Y Y' = 0 otherwise *)
Definition ortho_ok (L : nat) : bool :=
  forallb (fun a => forallb (fun b =>
     let s := sphq (Y (fst a) (snd a)) (Y (fst b) (snd b)) in
     if (fst a =? fst b) && (snd a =? snd b)%Z then Qeq_bool (4 * cnorm QOps (fst a) (snd a) * s)%Q 1%Q else Qz s) (lammu L)) (lammu L).
(* 3. Lz^2 Y = - mu^2 Y ; y-parity: even in y for mu >= 0, odd for mu < 0 *)
Definition lz2_ok (L : nat) : bool :=
  forallb (fun lm => let '(lam, mu) := lm in
     pzero lam (lz (lz (Y lam mu)) ++ pscale (inject_Z (mu * mu)) (Y lam mu)) &&
     forallb (fun t => let '(c, (i, j, k)) := t in Qz c || Bool.eqb (Nat.even j) (0 <=? mu)%Z) (Y lam mu)) (lammu L).
(* 4. sign / ordering convention: leading coefficient positive (no Condon-Shortley phase) *)
Definition sign_ok (L : nat) : bool :=
  forallb (fun lm => let '(lam, mu) := lm in let amu := Z.abs_nat mu in
     let e := if (0 <=? mu)%Z then (amu, 0, lam - amu) else (amu - 1, 1, lam - amu) in
     match Qcompare 0%Q (coef_of (Y lam mu) e) with Lt => true | _ => false end) (lammu L).

(* 5. Pijk's ratio recursion is the double-factorial closed form *)
Definition pbar_ok (n : nat) : bool := forallb (fun e => let '(a, b, c) := e in Qeq_bool (pbar QOps a b c) (pbar_closed QOps a b c)) (cube n).
(* 6. makeW (screens, limit cut) = term-by-term integral of the harmonic, incl. never-written entries being 0 *)
Definition w_ok (maxLam n : nat) : bool :=
  forallb (fun e => let '(k, l, m) := e in
     forallb (fun lm => Qeq_bool (wbar_code QOps maxLam k l m (fst lm) (snd lm)) (wbar_spec QOps k l m (fst lm) (snd lm))) (lammu maxLam)) (cube n).
(* 7. makeOmega (fill order, mirrored store, mu = 0 rule) = the double integral spec *)
Definition omega_ok (maxLam n L : nat) : bool :=
  forallb (fun e => let '(k, l, m) := e in
     forallb (fun a => forallb (fun b =>
        Qeq_bool (obar_code QOps maxLam k l m (fst a) (snd a) (fst b) (snd b)) (obar_spec QOps k l m (fst a) (snd a) (fst b) (snd b)))
        (lammu L)) (lammu L)) (cube n).

Lemma lammu_in L lam mu : lam <= L -> (- Z.of_nat lam <= mu <= Z.of_nat lam)%Z -> In (lam, mu) (lammu L).
Proof.
  intros H1 H2. unfold lammu. apply in_flat_map. exists lam. split; [apply in_seq; lia|].
  apply in_map_iff. exists mu. split; [reflexivity|]. unfold mus. apply in_map_iff.
  exists (Z.to_nat (mu + Z.of_nat lam)). split; [lia|]. apply in_seq. lia.
Qed.
Lemma cube_in n i j k : i <= n -> j <= n -> k <= n -> In (i, j, k) (cube n).
Proof.
  intros. unfold cube. apply in_flat_map. exists i. split; [apply in_seq; lia|].
  apply in_flat_map. exists j. split; [apply in_seq; lia|]. apply in_map_iff. exists k. split; [reflexivity|apply in_seq; lia].
Qed.

(* ---- memoised evaluation of check 6 (same functions, the U row tabulated once per (lam,mu)) ---- *)
Definition utab (lam amu : nat) : list (list (Q * Q)) :=
  map (fun i => map (fun j => ubar QOps lam amu i j) (seq 0 (S (lam - i)))) (seq 0 (S lam)).
Definition ulook (tab : list (list (Q * Q))) (i j : nat) : Q * Q := nth j (nth i tab []) (0%Q, 0%Q).
Definition yterms_tab (tab : list (list (Q * Q))) (lam : nat) (mu : Z) : list (Q * (nat * nat * nat)) :=
  flat_map (fun k => map (fun l => let u := ulook tab k l in
     ((if (mu <? 0)%Z then snd u else fst u), (k, l, lam - k - l))) (seq 0 (S (lam - k)))) (seq 0 (S lam)).
Definition wspec_of (ys : list (Q * (nat * nat * nat))) (k l m : nat) : Q :=
  fold_left (fun acc t => let '(c, (i, j, kk)) := t in nadd QOps acc (nmul QOps c (pbar_closed QOps (k + i) (l + j) (m + kk)))) ys (n0 QOps).
Definition w_ok_memo (maxLam n : nat) : bool :=
  forallb (fun lm => let '(lam, mu) := lm in
     let tab := utab lam (Z.abs_nat mu) in
     let ub := fun (_ _ i j : nat) => ulook tab i j in
     let ys := yterms_tab tab lam mu in
     forallb (fun e => let '(k, l, m) := e in
        Qeq_bool (wbar_code_gen QOps ub (pbar QOps) maxLam k l m lam mu) (wspec_of ys k l m)) (cube n)) (lammu maxLam).

Lemma nth_map_seq0 {A} (f : nat -> A) n j d : j < n -> nth j (map f (seq 0 n)) d = f j.
Proof.
  intros H. rewrite nth_indep with (d' := f 0) by (now rewrite map_length, seq_length).
  rewrite map_nth. now rewrite seq_nth.
Qed.
Lemma ulook_utab lam amu i j : i <= lam -> j <= lam - i -> ulook (utab lam amu) i j = ubar QOps lam amu i j.
Proof.
  intros Hi Hj. unfold ulook, utab. rewrite (nth_map_seq0 _ (S lam) i) by lia.
  now rewrite (nth_map_seq0 _ (S (lam - i)) j) by lia.
Qed.
Lemma sumN_ext {T} (o : NumOps T) n f g : (forall i, i < n -> f i = g i) -> sumN o n f = sumN o n g.
Proof.
  unfold sumN. intros H. assert (G : forall l acc, (forall i, In i l -> f i = g i) ->
     fold_left (fun a i => nadd o a (f i)) l acc = fold_left (fun a i => nadd o a (g i)) l acc).
  { induction l as [|x l IH]; intros acc Hl; cbn; [reflexivity|]. rewrite Hl by (now left). apply IH. intros; apply Hl; now right. }
  apply G. intros i Hi. apply in_seq in Hi. apply H. lia.
Qed.
Lemma wbar_code_gen_ext {T} (o : NumOps T) ub ub' pb maxLam k l m lam mu :
  (forall i j, i <= lam -> j <= lam - i -> ub lam (Z.abs_nat mu) i j = ub' lam (Z.abs_nat mu) i j) ->
  wbar_code_gen o ub pb maxLam k l m lam mu = wbar_code_gen o ub' pb maxLam k l m lam mu.
Proof.
  intros H. unfold wbar_code_gen. cbn zeta.
  match goal with |- (if ?c then _ else _) = _ => destruct c; [|reflexivity] end.
  apply sumN_ext. intros i Hi. apply sumN_ext. intros j Hj. rewrite H by lia. reflexivity.
Qed.
Lemma flat_map_ext_in' {A B} (f g : A -> list B) l : (forall x, In x l -> f x = g x) -> flat_map f l = flat_map g l.
Proof.
  induction l as [|x l IH]; intros H; cbn; [reflexivity|]. rewrite H by (now left). f_equal. apply IH. intros; apply H; now right.
Qed.
Lemma yterms_tab_eq lam mu : yterms_tab (utab lam (Z.abs_nat mu)) lam mu = yterms QOps lam mu.
Proof.
  unfold yterms_tab, yterms. apply flat_map_ext_in'. intros k Hk. apply in_seq in Hk.
  apply map_ext_in. intros l Hl. apply in_seq in Hl. rewrite ulook_utab by lia. reflexivity.
Qed.

(* lifting: the boolean sweep implies the quantified statement *)
Lemma w_ok_memo_sound maxLam n : w_ok_memo maxLam n = true ->
  forall k l m lam mu, k <= n -> l <= n -> m <= n -> lam <= maxLam -> (- Z.of_nat lam <= mu <= Z.of_nat lam)%Z ->
  Qeq (wbar_code QOps maxLam k l m lam mu) (wbar_spec QOps k l m lam mu).
Proof.
  intros H k l m lam mu Hk Hl Hm Hlam Hmu. unfold w_ok_memo in H. rewrite forallb_forall in H.
  specialize (H (lam, mu) (lammu_in _ _ _ Hlam Hmu)). cbn beta iota zeta in H.
  rewrite forallb_forall in H. specialize (H (k, l, m) (cube_in _ _ _ _ Hk Hl Hm)). cbn beta iota in H.
  apply Qeq_bool_iff in H.
  rewrite (wbar_code_gen_ext QOps _ (ubar QOps)) in H by (intros; apply ulook_utab; assumption).
  unfold wspec_of in H. rewrite yterms_tab_eq in H. exact H.
Qed.
