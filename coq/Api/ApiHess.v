(* Second-derivative scatter (C04): what compute_second_derivs adds to each packed Hessian slot, for every number
   of atoms and every assignment of the two shells and the ECP to atoms.

   Blocks: t i (i < 45) are the 45 matrices of one (shellA, shellB, ECP) triple at one entry, laid out
   AA 0-5, AB 6-14, AC 15-23, BB 24-29, BC 30-38, CC 39-44.  D t P Q p q is the block of d2/dP_p dQ_q for the centre
   labels P, Q in {0 = A, 1 = B, 2 = C}.  The packed slot of ((X,p),(Y,q)), X <= Y, must receive the sum of D t P Q p q
   over all ordered label pairs with P on atom X and Q on atom Y -- nothing else, and exactly once. *)
From Coq Require Import List Arith ZArith PeanoNat Bool Lia Reals Lra.
From LV Require Import Base.NumOps Base.Cart Base.RInst Api.ApiModel Api.ApiProofs.
Import ListNotations.

(* ---- slots: membership and injectivity of the packing ---- *)
Lemma in_slots_diag N X c : X < N -> c < 6 -> In (X, X, c) (slots N).
Proof.
  intros HX Hc. unfold slots. apply in_flat_map. exists X. split; [apply in_seq; lia|].
  unfold slots_row. apply in_or_app. left. apply in_map_iff. exists c. split; [reflexivity|apply in_seq; lia].
Qed.
Lemma in_slots_off N X Y c : X < Y -> Y < N -> c < 9 -> In (X, Y, c) (slots N).
Proof.
  intros HXY HY Hc. unfold slots. apply in_flat_map. exists X. split; [apply in_seq; lia|].
  unfold slots_row. apply in_or_app. right. apply in_flat_map. exists Y. split; [apply in_seq; lia|].
  apply in_map_iff. exists c. split; [reflexivity|apply in_seq; lia].
Qed.

Lemma NoDup_map_inj {A B} (f : A -> B) l : NoDup (map f l) -> forall x y, In x l -> In y l -> f x = f y -> x = y.
Proof.
  induction l as [|a l IH]; intros Hnd x y Hx Hy E; [destruct Hx|].
  cbn [map] in Hnd. inversion Hnd as [|? ? Hnin Hnd']; subst.
  destruct Hx as [->|Hx], Hy as [->|Hy].
  - reflexivity.
  - exfalso. apply Hnin. rewrite E. now apply in_map.
  - exfalso. apply Hnin. rewrite <- E. now apply in_map.
  - now apply IH.
Qed.

Lemma packed_inj N s s' : In s (slots N) -> In s' (slots N) -> packed N s = packed N s' -> s = s'.
Proof. apply NoDup_map_inj. apply hstart_bijection. Qed.

Definition teqb (s s' : nat * nat * nat) : bool :=
  let '(a, b, c) := s in let '(a', b', c') := s' in (a =? a') && (b =? b') && (c =? c').
Lemma teqb_spec s s' : reflect (s = s') (teqb s s').
Proof.
  destruct s as [[a b] c], s' as [[a' b'] c']. cbn [teqb].
  destruct (Nat.eqb_spec a a'), (Nat.eqb_spec b b'), (Nat.eqb_spec c c'); cbn; constructor; congruence.
Qed.
Lemma packed_eqb N s s' : In s (slots N) -> In s' (slots N) -> (packed N s =? packed N s') = teqb s s'.
Proof.
  intros H H'. destruct (teqb_spec s s') as [->|Hne]; [apply Nat.eqb_refl|].
  apply Nat.eqb_neq. intros E. apply Hne. now apply (packed_inj N).
Qed.

Lemma hpair_sym i j N : hpair i j N = hpair j i N.
Proof.
  unfold hpair. rewrite (Nat.eqb_sym j i). destruct (Nat.eqb_spec i j) as [->|Hne]; [reflexivity|].
  unfold hoff. now rewrite Nat.min_comm, Nat.max_comm.
Qed.

(* the address arithmetic of the code, as slot comparisons *)
Lemma E_diag N Z n s0 : Z < N -> n < 6 -> In s0 (slots N) -> (hdiag Z N + n =? packed N s0) = teqb (Z, Z, n) s0.
Proof.
  intros HZ Hn H0. rewrite <- (packed_eqb N) by (try assumption; now apply in_slots_diag).
  change (packed N (Z, Z, n)) with (hpair Z Z N + n). unfold hpair. now rewrite Nat.eqb_refl.
Qed.
Lemma E_off N Z W n s0 : Z < W -> W < N -> n < 9 -> In s0 (slots N) ->
  (hpair Z W N + n =? packed N s0) = teqb (Z, W, n) s0 /\ (hpair W Z N + n =? packed N s0) = teqb (Z, W, n) s0.
Proof.
  intros HZW HW Hn H0. rewrite (hpair_sym W Z). rewrite <- (packed_eqb N) by (try assumption; now apply in_slots_off).
  split; reflexivity.
Qed.

Lemma E_off' N Z W n s0 : Z < N -> W < N -> Z <> W -> n < 9 -> In s0 (slots N) ->
  (hpair Z W N + n =? packed N s0) = teqb (if Z <? W then (Z, W, n) else (W, Z, n)) s0.
Proof.
  intros HZ HW Hne Hn H0. destruct (Nat.ltb_spec Z W) as [Hlt|Hge].
  - apply (E_off N Z W n s0); assumption.
  - apply (E_off N W Z n s0); (assumption || lia).
Qed.

Local Open Scope R_scope.

(* ---- the specification ---- *)
Definition sym6 (p q : nat) : nat := nth (3 * p + q) [0; 1; 2; 1; 3; 4; 2; 4; 5]%nat 0%nat.
Definition D (t : nat -> R) (P Q p q : nat) : R :=
  match P, Q with
  | 0, 0 => t (sym6 p q)
  | 0, 1 => t (6 + 3 * p + q)
  | 1, 0 => t (6 + 3 * q + p)
  | 0, 2 => t (15 + 3 * p + q)
  | 2, 0 => t (15 + 3 * q + p)
  | 1, 1 => t (24 + sym6 p q)
  | 1, 2 => t (30 + 3 * p + q)
  | 2, 1 => t (30 + 3 * q + p)
  | _, _ => t (39 + sym6 p q)
  end%nat.
Definition hess_spec (labels : list nat) (at_ : nat -> nat) (t : nat -> R) (X Y p q : nat) : R :=
  fold_right Rplus 0 (flat_map (fun P => map (fun Q => ind ((at_ P =? X) && (at_ Q =? Y))%nat (D t P Q p q)) labels) labels).
Definition slot_of (X Y p q : nat) : nat * nat * nat := (X, Y, if (X =? Y)%nat then sym6 p q else (3 * p + q)%nat).
Definition atom_of (Aix Bix Cix P : nat) : nat := nth P [Aix; Bix; Cix] 0%nat.

Lemma slot_in N X Y p q : (X <= Y)%nat -> (Y < N)%nat -> (p < 3)%nat -> (q < 3)%nat -> In (slot_of X Y p q) (slots N).
Proof.
  intros HXY HY Hp Hq. unfold slot_of. destruct (Nat.eqb_spec X Y) as [->|Hne].
  - apply in_slots_diag; [assumption|]. destruct p as [|[|[|p]]], q as [|[|[|q]]]; cbn; lia.
  - apply in_slots_off; lia.
Qed.

Ltac eqb_resolve :=
  repeat match goal with
  | |- context [(?a =? ?a)%nat] => rewrite (Nat.eqb_refl a)
  | |- context [(?a =? ?b)%nat] =>
      first [ replace (a =? b)%nat with false by (symmetry; apply Nat.eqb_neq; lia)
            | replace (a =? b)%nat with true by (symmetry; apply Nat.eqb_eq; lia) ]
  end.
Ltac ltb_resolve :=
  repeat match goal with
  | |- context [(?a <? ?b)%nat] =>
      first [ replace (a <? b)%nat with false by (symmetry; apply Nat.ltb_ge; lia)
            | replace (a <? b)%nat with true by (symmetry; apply Nat.ltb_lt; lia) ]
  end.

Theorem hess_scatter_distinct N Aix Bix Cix X Y p q (t : nat -> R) acc :
  (Aix < N)%nat -> (Bix < N)%nat -> (Cix < N)%nat -> Aix <> Bix -> Aix <> Cix -> Bix <> Cix ->
  (X <= Y)%nat -> (Y < N)%nat -> (p < 3)%nat -> (q < 3)%nat -> (X = Y -> (p <= q)%nat) ->
  apply_upds ROps (packed N (slot_of X Y p q)) acc (updates2 N Aix Bix Cix t)
  = acc + hess_spec [0; 1; 2]%nat (atom_of Aix Bix Cix) t X Y p q.
Proof.
  intros HA HB HC HAB HAC HBC HXY HY Hp Hq Hpq.
  rewrite apply_upds_R. f_equal.
  pose proof (slot_in N X Y p q HXY HY Hp Hq) as H0.
  remember (slot_of X Y p q) as s0 eqn:Es0.
  assert (OAB : (Aix < Bix \/ Bix < Aix)%nat) by lia.
  assert (OAC : (Aix < Cix \/ Cix < Aix)%nat) by lia.
  assert (OBC : (Bix < Cix \/ Cix < Bix)%nat) by lia.
  pose proof (fun Z n HZ Hn => E_diag N Z n s0 HZ Hn H0) as ED.
  pose proof (fun Z W n HZ HW Hne Hn => E_off' N Z W n s0 HZ HW Hne Hn H0) as EO.
  unfold updates2. eqb_resolve. cbn [orb negb].
  destruct OAB, OAC, OBC; try lia; ltb_resolve;
  cbn [flat_map map app fold_right fst snd];
  rewrite ?ED by lia; rewrite ?EO by lia; ltb_resolve.
  all: subst s0; unfold slot_of, teqb, hess_spec, atom_of; cbn [flat_map map app fold_right nth].
  all: destruct (Nat.eq_dec X Aix) as [->|nXA]; [|destruct (Nat.eq_dec X Bix) as [->|nXB]; [|destruct (Nat.eq_dec X Cix) as [->|nXC]]].
  all: destruct (Nat.eq_dec Y Aix) as [->|nYA]; [|destruct (Nat.eq_dec Y Bix) as [->|nYB]; [|destruct (Nat.eq_dec Y Cix) as [->|nYC]]].
  all: try lia.
  all: eqb_resolve; cbn [andb].
  all: destruct p as [|[|[|p]]]; try lia; destruct q as [|[|[|q]]]; try lia.
  all: try (exfalso; specialize (Hpq eq_refl); lia).
  all: unfold ind, D, sym6; cbn; clear; lra.
Qed.

(* both shells on one atom, the ECP on another *)
Theorem hess_scatter_AeqB N Aix Cix X Y p q (t : nat -> R) acc :
  (Aix < N)%nat -> (Cix < N)%nat -> Aix <> Cix ->
  (X <= Y)%nat -> (Y < N)%nat -> (p < 3)%nat -> (q < 3)%nat -> (X = Y -> (p <= q)%nat) ->
  apply_upds ROps (packed N (slot_of X Y p q)) acc (updates2 N Aix Aix Cix t)
  = acc + hess_spec [0; 1; 2]%nat (atom_of Aix Aix Cix) t X Y p q.
Proof.
  intros HA HC HAC HXY HY Hp Hq Hpq.
  rewrite apply_upds_R. f_equal.
  pose proof (slot_in N X Y p q HXY HY Hp Hq) as H0.
  remember (slot_of X Y p q) as s0 eqn:Es0.
  assert (OAC : (Aix < Cix \/ Cix < Aix)%nat) by lia.
  pose proof (fun Z n HZ Hn => E_diag N Z n s0 HZ Hn H0) as ED.
  pose proof (fun Z W n HZ HW Hne Hn => E_off' N Z W n s0 HZ HW Hne Hn H0) as EO.
  unfold updates2. eqb_resolve. cbn [orb negb].
  destruct OAC; ltb_resolve;
  cbn [flat_map map app fold_right fst snd ixes back_ixes jxes nth];
  rewrite ?ED by lia; rewrite ?EO by lia; ltb_resolve.
  all: subst s0; unfold slot_of, teqb, hess_spec, atom_of; cbn [flat_map map app fold_right nth].
  all: destruct (Nat.eq_dec X Aix) as [->|nXA]; [|destruct (Nat.eq_dec X Cix) as [->|nXC]].
  all: destruct (Nat.eq_dec Y Aix) as [->|nYA]; [|destruct (Nat.eq_dec Y Cix) as [->|nYC]].
  all: try lia.
  all: eqb_resolve; cbn [andb].
  all: destruct p as [|[|[|p]]]; try lia; destruct q as [|[|[|q]]]; try lia.
  all: try (exfalso; specialize (Hpq eq_refl); lia).
  all: unfold ind, D, sym6; cbn; clear; lra.
Qed.

(* the ECP on the atom of one of the shells (the blocks are then those of the joint displacement: only AA, AB, BB are read) *)
Theorem hess_scatter_coincident N Aix Bix Cix X Y p q (t : nat -> R) acc :
  (Aix < N)%nat -> (Bix < N)%nat -> Aix <> Bix -> (Cix = Aix \/ Cix = Bix) ->
  (X <= Y)%nat -> (Y < N)%nat -> (p < 3)%nat -> (q < 3)%nat -> (X = Y -> (p <= q)%nat) ->
  apply_upds ROps (packed N (slot_of X Y p q)) acc (updates2 N Aix Bix Cix t)
  = acc + hess_spec [0; 1]%nat (atom_of Aix Bix Cix) t X Y p q.
Proof.
  intros HA HB HAB HCo HXY HY Hp Hq Hpq.
  rewrite apply_upds_R. f_equal.
  pose proof (slot_in N X Y p q HXY HY Hp Hq) as H0.
  remember (slot_of X Y p q) as s0 eqn:Es0.
  assert (OAB : (Aix < Bix \/ Bix < Aix)%nat) by lia.
  pose proof (fun Z n HZ Hn => E_diag N Z n s0 HZ Hn H0) as ED.
  pose proof (fun Z W n HZ HW Hne Hn => E_off' N Z W n s0 HZ HW Hne Hn H0) as EO.
  unfold updates2.
  destruct HCo as [-> | ->]; eqb_resolve; cbn [orb negb].
  all: destruct OAB; ltb_resolve;
  cbn [flat_map map app fold_right fst snd ixes back_ixes jxes nth];
  rewrite ?ED by lia; rewrite ?EO by lia; ltb_resolve.
  all: subst s0; unfold slot_of, teqb, hess_spec, atom_of; cbn [flat_map map app fold_right nth].
  all: destruct (Nat.eq_dec X Aix) as [->|nXA]; [|destruct (Nat.eq_dec X Bix) as [->|nXB]].
  all: destruct (Nat.eq_dec Y Aix) as [->|nYA]; [|destruct (Nat.eq_dec Y Bix) as [->|nYB]].
  all: try lia.
  all: eqb_resolve; cbn [andb].
  all: destruct p as [|[|[|p]]]; try lia; destruct q as [|[|[|q]]]; try lia.
  all: try (exfalso; specialize (Hpq eq_refl); lia).
  all: unfold ind, D, sym6; cbn; clear; lra.
Qed.

(* everything on one atom: nothing is added (translational invariance) *)
Theorem hess_scatter_all_coincident N Aix (t : nat -> R) : updates2 N Aix Aix Aix t = [].
Proof. unfold updates2. rewrite Nat.eqb_refl. reflexivity. Qed.

(* nothing is written outside the packed Hessian *)
Lemma K_diag N Z n : (Z < N)%nat -> (n < 6)%nat -> (hdiag Z N + n < 3 * N * (3 * N + 1) / 2)%nat.
Proof.
  intros HZ Hn. apply hstart_bijection. apply in_map_iff. exists (Z, Z, n). split; [|now apply in_slots_diag].
  unfold packed, hpair. now rewrite Nat.eqb_refl.
Qed.
Lemma K_off N Z W n : (Z < N)%nat -> (W < N)%nat -> Z <> W -> (n < 9)%nat -> (hpair Z W N + n < 3 * N * (3 * N + 1) / 2)%nat.
Proof.
  intros HZ HW Hne Hn. apply hstart_bijection. apply in_map_iff.
  destruct (Nat.ltb_spec Z W).
  - exists (Z, W, n). split; [reflexivity|apply in_slots_off; lia].
  - exists (W, Z, n). split; [unfold packed; now rewrite hpair_sym|apply in_slots_off; lia].
Qed.

Theorem hess_scatter_range N Aix Bix Cix (t : nat -> R) :
  (Aix < N)%nat -> (Bix < N)%nat -> (Cix < N)%nat ->
  Forall (fun u => (fst u < 3 * N * (3 * N + 1) / 2)%nat) (updates2 N Aix Bix Cix t).
Proof.
  intros HA HB HC. unfold updates2.
  destruct (Nat.eqb_spec Aix Cix), (Nat.eqb_spec Bix Cix), (Nat.eqb_spec Bix Aix), (Nat.eqb_spec Aix Bix); try lia; cbn [orb negb];
    destruct (Bix <? Aix)%nat, (Cix <? Aix)%nat, (Cix <? Bix)%nat;
    cbn [flat_map map app fst snd]; repeat constructor; cbn [fst];
    first [apply K_diag; lia | apply K_off; lia].
Qed.
