(* Model of the high-level integrator, src/lib/api.cpp:
     init (atom-id assignment), compute_integrals, compute_first_derivs,
     compute_second_derivs (H_START packing, ixes/back_ixes/jxes, five branches).
   The low-level shell-pair blocks are oracle arguments.  No proofs here. *)
From Coq Require Import List Arith ZArith PeanoNat Bool.
From LV Require Import Base.NumOps Base.Cart.
Import ListNotations.

(* ---- packed Hessian index: the H_START macro, in C int arithmetic (Z) ---- *)
Definition hstart (i j N : Z) : Z := (9 * j + 3 * (3 * N - 1) * i - (9 * i * (i + 1)) / 2 - 3)%Z.
(* first slot of the (i,i) diagonal group (6 slots) / of the (i<j) group (9 slots) *)
Definition hdiag (i N : nat) : nat := Z.to_nat (hstart (Z.of_nat i) (Z.of_nat i) (Z.of_nat N) + 3).
Definition hoff (i j N : nat) : nat :=
  Z.to_nat (hstart (Z.of_nat (Nat.min i j)) (Z.of_nat (Nat.max i j)) (Z.of_nat N)).
(* `sab = H_START(min,max,N); sab = Aix==Bix ? sab+3 : sab` *)
Definition hpair (i j N : nat) : nat := if i =? j then hdiag i N else hoff i j N.

Definition ixes (n : nat) : nat := nth n [0; 1; 2; 4; 5; 8] 0.
Definition back_ixes (n : nat) : nat := nth n [0; 3; 6; 4; 7; 8] 0.
Definition jxes (n : nat) : nat := nth n [0; 3; 6; 1; 4; 7; 2; 5; 8] 0.

Section Api.
  Context {T : Type} (o : NumOps T).
  Definition point := (T * T * T)%type.

  (* ---- init(): atom ids by first appearance, L1 distance < 1e-4 ---- *)
  Definition l1 (c s : point) : T :=
    let '(c0, c1, c2) := c in let '(s0, s1, s2) := s in
    nadd o (nadd o (nabs o (nsub o c0 s0)) (nabs o (nsub o c1 s1))) (nabs o (nsub o c2 s2)).
  Definition same_atom (c s : point) : bool := nltb o (l1 c s) (ndec o 1 (-4)).

  Fixpoint find_atom (cs : list point) (p : point) (i : nat) : option nat :=
    match cs with
    | [] => None
    | c :: cs' => if same_atom c p then Some i else find_atom cs' p (S i)
    end.

  Fixpoint assign_ids (cs : list point) (ps : list point) : list nat * list point :=
    match ps with
    | [] => ([], cs)
    | p :: ps' =>
      match find_atom cs p 0 with
      | Some i => let '(ids, cs') := assign_ids cs ps' in (i :: ids, cs')
      | None => let '(ids, cs') := assign_ids (cs ++ [p]) ps' in (length cs :: ids, cs')
      end
    end.

  (* shells first, then ECPs; returns (shell ids, ecp ids, natoms) *)
  Definition atom_ids (shells ecps : list point) : list nat * list nat * nat :=
    let '(sid, cs) := assign_ids [] shells in
    let '(eid, cs') := assign_ids cs ecps in
    (sid, eid, length cs').

  (* ---- where a global cartesian index lives: (shell, local index) ---- *)
  Fixpoint locate (ls : list nat) (g s : nat) : nat * nat :=
    match ls with
    | [] => (s, g)
    | l :: ls' => if g <? ncart l then (s, g) else locate ls' (g - ncart l) (S s)
    end.

  (* ---- scatter lists: (matrix index, addend), in source order ---- *)
  Definition upd := (nat * T)%type.

  (* compute_first_derivs: t i = tempValues[i](k,l), i < 9 *)
  Definition updates1 (Aix Bix Cix : nat) (t : nat -> T) : list upd :=
    flat_map (fun n => [(3 * Aix + n, t n); (3 * Bix + n, t (n + 3)); (3 * Cix + n, t (n + 6))]) [0; 1; 2].

  (* compute_second_derivs: t i = tempValues[i](k,l), i < 45 *)
  Definition updates2 (N Aix Bix Cix : nat) (t : nat -> T) : list upd :=
    let saa := hdiag Aix N in let sbb := hdiag Bix N in let scc := hdiag Cix N in
    let sab := hpair Aix Bix N in let sac := hpair Aix Cix N in let sbc := hpair Bix Cix N in
    let six := [0; 1; 2; 3; 4; 5] in
    let nine := [0; 1; 2; 3; 4; 5; 6; 7; 8] in
    let ab n := if Bix <? Aix then (sab + n, t (jxes n + 6)) else (sab + n, t (n + 6)) in
    if (Aix =? Cix) || (Bix =? Cix) then
      if negb (Bix =? Aix) then
        flat_map (fun n => [(saa + n, t n); (sbb + n, t (n + 24))]) six ++ map ab nine
      else []
    else if Aix =? Bix then
      flat_map (fun n => [(saa + n, t n); (saa + n, t (n + 24)); (scc + n, t (n + 39));
                          (saa + n, t (ixes n + 6)); (saa + n, t (back_ixes n + 6))]) six ++
      flat_map (fun n => if Cix <? Aix then [(sac + n, t (jxes n + 15)); (sac + n, t (jxes n + 30))]
                         else [(sac + n, t (n + 15)); (sac + n, t (n + 30))]) nine
    else
      flat_map (fun n => [(saa + n, t n); (sbb + n, t (n + 24)); (scc + n, t (n + 39))]) six ++
      flat_map (fun n => [ab n;
                          (if Cix <? Aix then (sac + n, t (jxes n + 15)) else (sac + n, t (n + 15)));
                          (if Cix <? Bix then (sbc + n, t (jxes n + 30)) else (sbc + n, t (n + 30)))]) nine.

  Definition apply_upds (idx : nat) (acc : T) (us : list upd) : T :=
    fold_left (fun a u => if fst u =? idx then nadd o a (snd u) else a) us acc.

  (* ---- whole-matrix entries ---- *)
  Variable shell_l : list nat.        (* angular momenta, in the order given *)
  Variable shell_atom : list nat.
  Variable ecp_atom : list nat.
  Variable natoms : nat.

  Definition ordered (gk gl : nat) : (nat * nat) * (nat * nat) :=
    let a := locate shell_l gk 0 in let b := locate shell_l gl 0 in
    if fst b <=? fst a then (a, b) else (b, a).

  (* compute_integrals; mask s1 e = the (shell s1, ECP e) pair passed the API screen *)
  Definition integrals_entry (mask : nat -> nat -> bool) (blk0 : nat -> nat -> nat -> nat -> nat -> T)
             (gk gl : nat) : T :=
    let '((s1, k), (s2, l)) := ordered gk gl in
    fold_left (fun acc e => if mask s1 e then nadd o acc (blk0 s1 s2 e k l) else acc)
              (seq 0 (length ecp_atom)) (n0 o).

  Definition first_entry (blk1 : nat -> nat -> nat -> nat -> nat -> nat -> T) (idx gk gl : nat) : T :=
    let '((s1, k), (s2, l)) := ordered gk gl in
    let Aix := nth s1 shell_atom 0 in let Bix := nth s2 shell_atom 0 in
    fold_left (fun acc e =>
                 apply_upds idx acc (updates1 Aix Bix (nth e ecp_atom 0) (fun i => blk1 s1 s2 e i k l)))
              (seq 0 (length ecp_atom)) (n0 o).

  Definition second_entry (blk2 : nat -> nat -> nat -> nat -> nat -> nat -> T) (idx gk gl : nat) : T :=
    let '((s1, k), (s2, l)) := ordered gk gl in
    let Aix := nth s1 shell_atom 0 in let Bix := nth s2 shell_atom 0 in
    fold_left (fun acc e =>
                 apply_upds idx acc (updates2 natoms Aix Bix (nth e ecp_atom 0) (fun i => blk2 s1 s2 e i k l)))
              (seq 0 (length ecp_atom)) (n0 o).
End Api.
