(* Proofs about the integrator model (ApiModel.v). *)
From Coq Require Import List Arith ZArith PeanoNat Bool Lia Reals Lra.
From LV Require Import Base.NumOps Base.Cart Base.RInst Api.ApiModel.
Import ListNotations.

(* ------------------------------------------------------------------ *)
(* 1. H_START packing: a bijection onto [0, 3N(3N+1)/2) in documented order *)
(* ------------------------------------------------------------------ *)

(* closed forms of the macro, in nat *)
Definition row_len (N i : nat) : nat := 6 + 9 * (N - 1 - i).
Fixpoint row_start (N i : nat) : nat :=
  match i with 0 => 0 | S i' => row_start N i' + row_len N i' end.

Lemma tri_even i : (i * (i + 1) = 2 * tri i)%nat.
Proof.
  induction i as [|i IH]; [reflexivity|]. rewrite tri_S. lia.
Qed.

Lemma row_start_closed N i : i <= N ->
  (2 * row_start N i + 9 * i * (i + 1) = 2 * (6 * i + 9 * N * i))%nat.
Proof.
  induction i as [|i IH]; intros H; [cbn; lia|].
  cbn [row_start]. unfold row_len. specialize (IH ltac:(lia)).
  replace (N - 1 - i) with (N - (i + 1)) by lia.
  assert (E : 9 * (N - (i + 1)) + 9 * (i + 1) = 9 * N) by lia.
  nia.
Qed.

Lemma hdiag_row_start N i : i < N -> hdiag i N = row_start N i.
Proof.
  intros H. unfold hdiag, hstart.
  pose proof (row_start_closed N i ltac:(lia)) as C.
  pose proof (tri_even i) as E.
  set (t := tri i) in *. set (r := row_start N i) in *.
  assert (Hd : (9 * Z.of_nat i * (Z.of_nat i + 1) / 2 = 9 * Z.of_nat t)%Z).
  { replace (9 * Z.of_nat i * (Z.of_nat i + 1))%Z with (9 * Z.of_nat t * 2)%Z by nia.
    apply Z.div_mul. lia. }
  rewrite Hd. apply Nat2Z.inj. rewrite Z2Nat.id; nia.
Qed.

Lemma hoff_row_start N i j : i < j -> j < N -> hoff i j N = row_start N i + 6 + 9 * (j - i - 1).
Proof.
  intros Hij HjN. unfold hoff. rewrite Nat.min_l, Nat.max_r by lia.
  pose proof (hdiag_row_start N i ltac:(lia)) as Hd. unfold hdiag in Hd.
  unfold hstart in *.
  set (q := (9 * Z.of_nat i * (Z.of_nat i + 1) / 2)%Z) in *.
  assert (Hr : (Z.of_nat (row_start N i) = 9 * Z.of_nat i + 3 * (3 * Z.of_nat N - 1) * Z.of_nat i - q - 3 + 3)%Z).
  { rewrite <- Hd. rewrite Z2Nat.id; [reflexivity|].
    (* non-negativity: from the closed form *)
    pose proof (row_start_closed N i ltac:(lia)) as C. pose proof (tri_even i) as E.
    subst q.
    replace (9 * Z.of_nat i * (Z.of_nat i + 1))%Z with (9 * Z.of_nat (tri i) * 2)%Z by nia.
    rewrite Z.div_mul by lia. nia. }
  apply Nat2Z.inj. rewrite Z2Nat.id by lia. lia.
Qed.

(* the documented enumeration: for i ascending: (i,i) with 6 components, then (i,j), j>i, with 9 *)
Definition slots_row (N i : nat) : list (nat * nat * nat) :=
  map (fun c => (i, i, c)) (seq 0 6) ++
  flat_map (fun j => map (fun c => (i, j, c)) (seq 0 9)) (seq (S i) (N - 1 - i)).
Definition slots (N : nat) : list (nat * nat * nat) := flat_map (slots_row N) (seq 0 N).
Definition packed (N : nat) (s : nat * nat * nat) : nat := let '(i, j, c) := s in hpair i j N + c.

Lemma map_add_seq (a s n : nat) : map (fun c => a + c) (seq s n) = seq (a + s) n.
Proof.
  revert s. induction n as [|n IH]; intros s; [reflexivity|].
  cbn [seq map]. rewrite IH. replace (a + S s) with (S (a + s)) by lia. reflexivity.
Qed.
Lemma map_seq_shift (a b n : nat) : map (fun c => a + b + c) (seq 0 n) = seq (a + b) n.
Proof. rewrite (map_add_seq (a + b) 0 n). f_equal. lia. Qed.

Lemma off_block_seq N i n : S i + n <= N ->
  flat_map (fun j => map (fun c => packed N (i, j, c)) (seq 0 9)) (seq (S i) n)
  = seq (row_start N i + 6) (9 * n).
Proof.
  induction n as [|n IH]; intros H.
  - cbn. replace (9 * 0) with 0 by lia. reflexivity.
  - rewrite (seq_S n (S i)), flat_map_app, IH by lia. cbn [flat_map]. rewrite app_nil_r.
    replace (9 * S n) with (9 * n + 9) by lia. rewrite seq_app. f_equal.
    unfold packed, hpair. replace (i =? S i + n) with false by (symmetry; apply Nat.eqb_neq; lia).
    rewrite hoff_row_start by lia.
    replace (S i + n - i - 1) with n by lia.
    replace (row_start N i + 6 + 9 * n) with (row_start N i + 6 + 9 * n + 0) at 2 by lia.
    rewrite <- (map_seq_shift (row_start N i + 6) (9 * n) 9). apply map_ext. intros; lia.
Qed.

Lemma map_flat_map {A B C} (f : B -> C) (g : A -> list B) l :
  map f (flat_map g l) = flat_map (fun x => map f (g x)) l.
Proof. induction l as [|x l IH]; cbn; [reflexivity|]. now rewrite map_app, IH. Qed.

Lemma row_packed N i : i < N ->
  map (packed N) (slots_row N i) = seq (row_start N i) (row_len N i).
Proof.
  intros H. unfold slots_row, row_len. rewrite map_app, map_map, map_flat_map.
  rewrite seq_app. f_equal.
  - unfold packed, hpair. rewrite Nat.eqb_refl, hdiag_row_start by lia.
    rewrite <- (map_add_seq (row_start N i) 0 6), Nat.add_0_r || idtac.
    replace (seq (row_start N i) 6) with (seq (row_start N i + 0) 6) by (f_equal; lia).
    rewrite <- (map_add_seq (row_start N i) 0 6). apply map_ext. intros; lia.
  - erewrite flat_map_ext; [|intros j; rewrite map_map; reflexivity].
    apply off_block_seq. lia.
Qed.

Lemma rows_packed N n : n <= N ->
  map (packed N) (flat_map (slots_row N) (seq 0 n)) = seq 0 (row_start N n).
Proof.
  induction n as [|n IH]; intros H; [reflexivity|].
  rewrite seq_S, flat_map_app, map_app, IH by lia. cbn [flat_map]. rewrite app_nil_r.
  rewrite row_packed by lia. cbn [row_start]. now rewrite seq_app.
Qed.

Lemma row_start_total N : row_start N N = 3 * N * (3 * N + 1) / 2.
Proof.
  pose proof (row_start_closed N N (le_n _)) as C.
  apply Nat.div_unique with (r := 0); nia.
Qed.

(* The packing theorem: enumerating the documented slot order and applying the
   H_START arithmetic yields exactly 0,1,2,...,3N(3N+1)/2-1. *)
Theorem hstart_enumeration N :
  map (packed N) (slots N) = seq 0 (3 * N * (3 * N + 1) / 2).
Proof. unfold slots. rewrite rows_packed by lia. now rewrite row_start_total. Qed.

Corollary hstart_bijection N :
  NoDup (map (packed N) (slots N)) /\
  (forall idx, idx < 3 * N * (3 * N + 1) / 2 <-> In idx (map (packed N) (slots N))).
Proof.
  rewrite hstart_enumeration. split; [apply seq_NoDup|].
  intros idx. rewrite in_seq. lia.
Qed.

(* ------------------------------------------------------------------ *)
(* 2. first-derivative scatter                                          *)
(* ------------------------------------------------------------------ *)
Local Open Scope R_scope.

Definition ind (b : bool) (x : R) : R := if b then x else 0.

Lemma apply_upds_R idx acc us :
  apply_upds ROps idx acc us = acc + fold_right Rplus 0 (map (fun u => ind (fst u =? idx)%nat (snd u)) us).
Proof.
  unfold apply_upds. revert acc. induction us as [|u us IH]; intros acc; cbn [fold_left map fold_right].
  - lra.
  - rewrite IH. unfold ind. destruct (fst u =? idx)%nat; cbn [nadd ROps]; lra.
Qed.

(* Entry 3X+q of the first-derivative list receives exactly the blocks of the centres
   that sit on atom X: A-block if the first shell is on X, B-block if the second is,
   C-block if the ECP is — for every atom numbering. *)
Theorem first_scatter (Aix Bix Cix X q : nat) (t : nat -> R) acc : (q < 3)%nat ->
  apply_upds ROps (3 * X + q) acc (updates1 Aix Bix Cix t)
  = acc + ind (Aix =? X)%nat (t q) + ind (Bix =? X)%nat (t (q + 3)%nat) + ind (Cix =? X)%nat (t (q + 6)%nat).
Proof.
  intros Hq. rewrite apply_upds_R. unfold updates1. cbn [flat_map map app fold_right fst snd].
  assert (E : forall Y n, (n < 3)%nat -> (3 * Y + n =? 3 * X + q)%nat = ((Y =? X)%nat && (n =? q)%nat)).
  { intros Y n Hn. destruct (Nat.eqb_spec Y X), (Nat.eqb_spec n q), (Nat.eqb_spec (3 * Y + n) (3 * X + q)); cbn; try reflexivity; lia. }
  rewrite !E by lia.
  destruct q as [|[|[|q]]]; try lia;
    destruct (Aix =? X)%nat, (Bix =? X)%nat, (Cix =? X)%nat; cbn; lra.
Qed.

(* nothing is written beyond the 3*natoms matrices *)
Theorem first_scatter_range (Aix Bix Cix N : nat) (t : nat -> R) :
  (Aix < N)%nat -> (Bix < N)%nat -> (Cix < N)%nat ->
  Forall (fun u => (fst u < 3 * N)%nat) (updates1 Aix Bix Cix t).
Proof. intros. unfold updates1. cbn. repeat constructor; cbn; lia. Qed.

(* ------------------------------------------------------------------ *)
(* 3. atom ids: first-appearance numbering (any numeric dictionary)     *)
(* ------------------------------------------------------------------ *)
Section Atoms.
  Context {T : Type} (o : NumOps T).
  Local Close Scope R_scope.

  Lemma find_atom_some cs p off i d : find_atom o cs p off = Some i ->
    off <= i /\ i - off < length cs /\ same_atom o (nth (i - off) cs d) p = true /\
    forall i', i' < i - off -> same_atom o (nth i' cs d) p = false.
  Proof.
    revert off. induction cs as [|c cs IH]; intros off H; cbn [find_atom] in H; [discriminate|].
    destruct (same_atom o c p) eqn:E.
    - inversion H; subst. replace (i - i) with 0 by lia. cbn. repeat split; try lia; auto.
    - apply IH in H. destruct H as (H1 & H2 & H3 & H4).
      replace (i - off) with (S (i - S off)) by lia. cbn [length nth]. repeat split; try lia; auto.
      intros [|i'] Hi; [exact E|]. apply H4. lia.
  Qed.

  Lemma find_atom_none cs p off d : find_atom o cs p off = None ->
    forall i', i' < length cs -> same_atom o (nth i' cs d) p = false.
  Proof.
    revert off. induction cs as [|c cs IH]; intros off H i' Hi; cbn in Hi; [lia|].
    cbn [find_atom] in H. destruct (same_atom o c p) eqn:E; [discriminate|].
    destruct i' as [|i']; [exact E|]. cbn [nth]. eapply IH; [exact H|lia].
  Qed.

  Definition id_ok (cs' : list (point (T:=T))) (p : point) (i : nat) : Prop :=
    i < length cs' /\
    (forall i', i' < i -> same_atom o (nth i' cs' p) p = false) /\
    (same_atom o (nth i cs' p) p = true \/ nth i cs' p = p).

  (* Each point receives the number of the FIRST centre (in order of first appearance)
     it matches, or a fresh number if it matches none; centres only ever get appended. *)
  Theorem assign_ids_spec ps : forall cs ids cs',
    assign_ids o cs ps = (ids, cs') ->
    (exists ext, cs' = cs ++ ext) /\ Forall2 (id_ok cs') ps ids.
  Proof.
    induction ps as [|p ps IH]; intros cs ids cs' H; cbn [assign_ids] in H.
    - inversion H; subst. split; [exists []; now rewrite app_nil_r|constructor].
    - destruct (find_atom o cs p 0) as [i|] eqn:F.
      + destruct (assign_ids o cs ps) as [ids0 cs0] eqn:A. inversion H; subst.
        destruct (IH _ _ _ A) as ((ext & ->) & HF). split; [now exists ext|].
        constructor; [|exact HF].
        apply (find_atom_some _ _ _ _ p) in F. rewrite Nat.sub_0_r in F.
        destruct F as (_ & Hlt & Hm & Hb). unfold id_ok. rewrite app_length.
        split; [lia|]. split.
        * intros i' Hi'. rewrite app_nth1 by lia. now apply Hb.
        * left. rewrite app_nth1 by lia. exact Hm.
      + destruct (assign_ids o (cs ++ [p]) ps) as [ids0 cs0] eqn:A. inversion H; subst.
        destruct (IH _ _ _ A) as ((ext & ->) & HF). split; [exists ([p] ++ ext); now rewrite app_assoc|].
        constructor; [|exact HF].
        pose proof (find_atom_none _ _ _ p F) as Hb. unfold id_ok.
        rewrite !app_length. cbn [length]. split; [lia|]. split.
        * intros i' Hi'. rewrite <- app_assoc. rewrite app_nth1 by lia. now apply Hb.
        * right. rewrite <- app_assoc. rewrite app_nth2 by lia.
          replace (length cs - length cs) with 0 by lia. reflexivity.
  Qed.
End Atoms.

(* ------------------------------------------------------------------ *)
(* 4. symmetry of the assembled matrices (C07)                           *)
(* ------------------------------------------------------------------ *)
Lemma fold_left_ext_local {A B} (f g : A -> B -> A) l a : (forall acc x, In x l -> f acc x = g acc x) -> fold_left f l a = fold_left g l a.
Proof. revert a. induction l as [|x l IH]; intros a H; cbn; [reflexivity|]. rewrite H by (now left). apply IH. intros; apply H; now right. Qed.

Section Symmetry.
  Context {T : Type} (o : NumOps T).
  Variable shell_l shell_atom ecp_atom : list nat.
  Variable natoms : nat.

  Lemma ordered_swap gk gl :
    fst (locate shell_l gk 0) <> fst (locate shell_l gl 0) ->
    ordered shell_l gk gl = ordered shell_l gl gk.
  Proof.
    intros Hne. unfold ordered. set (a := locate shell_l gk 0) in *. set (b := locate shell_l gl 0) in *.
    destruct (Nat.leb_spec (fst b) (fst a)), (Nat.leb_spec (fst a) (fst b)); try reflexivity; lia.
  Qed.

  (* entries in two different shells: (gk,gl) and (gl,gk) are the same expression, whatever the blocks *)
  Theorem integrals_symmetric_off mask blk0 gk gl :
    fst (locate shell_l gk 0) <> fst (locate shell_l gl 0) ->
    integrals_entry o shell_l ecp_atom mask blk0 gk gl = integrals_entry o shell_l ecp_atom mask blk0 gl gk.
  Proof. intros H. unfold integrals_entry. now rewrite (ordered_swap gk gl H). Qed.
  Theorem first_symmetric_off blk1 idx gk gl :
    fst (locate shell_l gk 0) <> fst (locate shell_l gl 0) ->
    first_entry o shell_l shell_atom ecp_atom blk1 idx gk gl = first_entry o shell_l shell_atom ecp_atom blk1 idx gl gk.
  Proof. intros H. unfold first_entry. now rewrite (ordered_swap gk gl H). Qed.
  Theorem second_symmetric_off blk2 idx gk gl :
    fst (locate shell_l gk 0) <> fst (locate shell_l gl 0) ->
    second_entry o shell_l shell_atom ecp_atom natoms blk2 idx gk gl = second_entry o shell_l shell_atom ecp_atom natoms blk2 idx gl gk.
  Proof. intros H. unfold second_entry. now rewrite (ordered_swap gk gl H). Qed.

  (* entries inside one shell's diagonal block: symmetric as soon as that block is *)
  Theorem integrals_symmetric_diag mask blk0 gk gl :
    fst (locate shell_l gk 0) = fst (locate shell_l gl 0) ->
    (forall s e k l, blk0 s s e k l = blk0 s s e l k) ->
    integrals_entry o shell_l ecp_atom mask blk0 gk gl = integrals_entry o shell_l ecp_atom mask blk0 gl gk.
  Proof.
    intros He Hs. unfold integrals_entry, ordered.
    destruct (locate shell_l gk 0) as [s1 k], (locate shell_l gl 0) as [s2 l]. cbn [fst snd] in *. subst s2.
    rewrite Nat.leb_refl.
    apply fold_left_ext_local. intros acc e _. destruct (mask s1 e); [|reflexivity]. now rewrite Hs.
  Qed.
End Symmetry.

(* ------------------------------------------------------------------ *)
(* 5. the API-level screen removes additive terms and nothing else (C06)  *)
(* ------------------------------------------------------------------ *)
Section Screen.
  Local Open Scope R_scope.
  Variable shell_l ecp_atom : list nat.
  Lemma fold_mask_split (f : nat -> R) (m : nat -> bool) l acc :
    fold_left (fun a e => if m e then nadd ROps a (f e) else a) l acc
    = fold_left (fun a e => nadd ROps a (f e)) l acc - fold_right Rplus 0 (map (fun e => if m e then 0 else f e) l).
  Proof.
    revert acc. induction l as [|e l IH]; intros acc; cbn [fold_left map fold_right]; [lra|].
    rewrite IH. destruct (m e); cbn [nadd ROps].
    - lra.
    - assert (G : forall a b, fold_left (fun a0 e0 => a0 + f e0) l (a + b) = fold_left (fun a0 e0 => a0 + f e0) l a + b).
      { clear. induction l as [|x l IH]; intros a b; cbn; [reflexivity|]. rewrite <- IH. f_equal. lra. }
      cbn [nadd ROps] in *. rewrite G. lra.
  Qed.
  (* screened result = unscreened result - sum of the skipped (shell,ECP) blocks; no other effect *)
  Theorem api_screen_additive mask blk0 gk gl :
    let '((s1, k), (s2, l)) := ordered shell_l gk gl in
    integrals_entry ROps shell_l ecp_atom mask blk0 gk gl
    = integrals_entry ROps shell_l ecp_atom (fun _ _ => true) blk0 gk gl
      - fold_right Rplus 0 (map (fun e => if mask s1 e then 0 else blk0 s1 s2 e k l) (seq 0 (length ecp_atom))).
  Proof.
    unfold integrals_entry. destruct (ordered shell_l gk gl) as [[s1 k] [s2 l]].
    rewrite (fold_mask_split (fun e => blk0 s1 s2 e k l) (mask s1)). reflexivity.
  Qed.
End Screen.
