(* Whole-matrix statements (C04): every entry of every first- and second-derivative matrix the integrator returns is
   the sum over the ECPs of the per-triple contributions characterised in ApiProofs/ApiHess. *)
From Coq Require Import List Arith ZArith PeanoNat Bool Lia Reals Lra.
From LV Require Import Base.NumOps Base.Cart Base.RInst Api.ApiModel Api.ApiProofs Api.ApiHess.
Import ListNotations.
Local Open Scope R_scope.

Definition Rsum (l : list R) : R := fold_right Rplus 0 l.

Lemma fold_contrib {A} (g : R -> A -> R) (h : A -> R) l acc :
  (forall a x, g a x = a + h x) -> fold_left g l acc = acc + Rsum (map h l).
Proof.
  intros H. revert acc. induction l as [|x l IH]; intros acc; cbn [fold_left map Rsum fold_right]; [lra|].
  rewrite IH, H. unfold Rsum. lra.
Qed.

(* what one (shellA, shellB, ECP) triple contributes to the packed slot of ((X,p),(Y,q)) *)
Definition hess_contrib (Aix Bix Cix : nat) (t : nat -> R) (X Y p q : nat) : R :=
  if (Aix =? Bix)%nat && (Aix =? Cix)%nat then 0
  else if (Cix =? Aix)%nat || (Cix =? Bix)%nat then hess_spec [0; 1]%nat (atom_of Aix Bix Cix) t X Y p q
  else hess_spec [0; 1; 2]%nat (atom_of Aix Bix Cix) t X Y p q.

Theorem hess_scatter_any N Aix Bix Cix X Y p q (t : nat -> R) acc :
  (Aix < N)%nat -> (Bix < N)%nat -> (Cix < N)%nat ->
  (X <= Y)%nat -> (Y < N)%nat -> (p < 3)%nat -> (q < 3)%nat -> (X = Y -> (p <= q)%nat) ->
  apply_upds ROps (packed N (slot_of X Y p q)) acc (updates2 N Aix Bix Cix t) = acc + hess_contrib Aix Bix Cix t X Y p q.
Proof.
  intros HA HB HC HXY HY Hp Hq Hpq. unfold hess_contrib.
  destruct (Nat.eqb_spec Aix Bix) as [Eab|Nab]; destruct (Nat.eqb_spec Aix Cix) as [Eac|Nac]; cbn [andb].
  - subst Bix Cix. rewrite hess_scatter_all_coincident. cbn. lra.
  - subst Bix. replace ((Cix =? Aix)%nat || (Cix =? Aix)%nat) with false by (symmetry; apply orb_false_iff; split; apply Nat.eqb_neq; lia).
    apply hess_scatter_AeqB; (assumption || lia).
  - subst Cix. rewrite Nat.eqb_refl. cbn [orb]. apply hess_scatter_coincident; (assumption || lia || (left; reflexivity)).
  - destruct (Nat.eqb_spec Cix Aix) as [E1|N1]; [lia|]. destruct (Nat.eqb_spec Cix Bix) as [E2|N2]; cbn [orb].
    + apply hess_scatter_coincident; (assumption || lia || (right; assumption)).
    + apply hess_scatter_distinct; (assumption || lia).
Qed.

Section Whole.
  Variable shell_l shell_atom ecp_atom : list nat.
  Variable natoms : nat.
  Hypothesis Hsa : forall s, (nth s shell_atom 0 < natoms)%nat.
  Hypothesis Hea : forall e, (nth e ecp_atom 0 < natoms)%nat.

  (* every packed Hessian entry of the (gk, gl) matrix element is the sum over the ECPs of the per-triple contributions *)
  Theorem second_entry_sum blk2 X Y p q gk gl :
    (X <= Y)%nat -> (Y < natoms)%nat -> (p < 3)%nat -> (q < 3)%nat -> (X = Y -> (p <= q)%nat) ->
    let '((s1, k), (s2, l)) := ordered shell_l gk gl in
    second_entry ROps shell_l shell_atom ecp_atom natoms blk2 (packed natoms (slot_of X Y p q)) gk gl
    = Rsum (map (fun e => hess_contrib (nth s1 shell_atom 0%nat) (nth s2 shell_atom 0%nat) (nth e ecp_atom 0%nat) (fun i => blk2 s1 s2 e i k l) X Y p q)
                (seq 0 (length ecp_atom))).
  Proof.
    intros HXY HY Hp Hq Hpq. unfold second_entry. destruct (ordered shell_l gk gl) as [[s1 k] [s2 l]].
    rewrite (fold_contrib _ (fun e => hess_contrib (nth s1 shell_atom 0%nat) (nth s2 shell_atom 0%nat) (nth e ecp_atom 0%nat) (fun i => blk2 s1 s2 e i k l) X Y p q)).
    - cbn [n0 ROps]. lra.
    - intros a e. apply hess_scatter_any; auto.
  Qed.

  Theorem first_entry_sum blk1 X q gk gl : (q < 3)%nat ->
    let '((s1, k), (s2, l)) := ordered shell_l gk gl in
    first_entry ROps shell_l shell_atom ecp_atom blk1 (3 * X + q) gk gl
    = Rsum (map (fun e => ind (nth s1 shell_atom 0 =? X)%nat (blk1 s1 s2 e q k l) + ind (nth s2 shell_atom 0 =? X)%nat (blk1 s1 s2 e (q + 3)%nat k l)
                          + ind (nth e ecp_atom 0 =? X)%nat (blk1 s1 s2 e (q + 6)%nat k l)) (seq 0 (length ecp_atom))).
  Proof.
    intros Hq. unfold first_entry. destruct (ordered shell_l gk gl) as [[s1 k] [s2 l]].
    rewrite (fold_contrib _ (fun e => ind (nth s1 shell_atom 0 =? X)%nat (blk1 s1 s2 e q k l) + ind (nth s2 shell_atom 0 =? X)%nat (blk1 s1 s2 e (q + 3)%nat k l)
                          + ind (nth e ecp_atom 0 =? X)%nat (blk1 s1 s2 e (q + 6)%nat k l))).
    - cbn [n0 ROps]. lra.
    - intros a e. rewrite first_scatter by exact Hq. lra.
  Qed.
End Whole.
