(* Canonical Cartesian ordering of a shell of angular momentum L, as every
   loop nest `for x=L..0, for y=L-x..0, z=L-x-y` in libecpint enumerates it,
   and the closed form N_INDEX(l,m) = (l+m)(l+m+1)/2 + m of the position. *)
From Coq Require Import List Arith Lia PeanoNat.
Import ListNotations.

Definition tri (s : nat) : nat := s * (s + 1) / 2.
Definition nindex (l m : nat) : nat := tri (l + m) + m.      (* N_INDEX *)
Definition ncart (L : nat) : nat := (L + 1) * (L + 2) / 2.

Definition cart_row (L s : nat) : list (nat * nat * nat) :=
  map (fun m => (L - s, s - m, m)) (seq 0 (S s)).
Definition cart (L : nat) : list (nat * nat * nat) :=
  flat_map (cart_row L) (seq 0 (S L)).

Lemma tri_S s : tri (S s) = tri s + S s.
Proof.
  unfold tri. replace (S s * (S s + 1)) with (s * (s + 1) + S s * 2) by lia.
  rewrite Nat.div_add by lia. reflexivity.
Qed.

Lemma tri_mono a b : a <= b -> tri a <= tri b.
Proof. induction 1; [lia | rewrite tri_S; lia]. Qed.

Lemma tri_lt a b : a < b -> tri a + a < tri b.
Proof.
  intros H. assert (tri (S a) <= tri b) by (apply tri_mono; lia).
  rewrite tri_S in *. lia.
Qed.

Lemma ncart_tri L : ncart L = tri (S L).
Proof. unfold ncart, tri. f_equal. lia. Qed.

Lemma cart_row_length L s : length (cart_row L s) = S s.
Proof. unfold cart_row. now rewrite map_length, seq_length. Qed.

Lemma nth_map_seq {A} (f : nat -> A) a n j d : j < n ->
  nth j (map f (seq a n)) d = f (a + j).
Proof.
  intros H. rewrite nth_indep with (d' := f 0) by (now rewrite map_length, seq_length).
  rewrite map_nth. now rewrite seq_nth.
Qed.

Section FlatTri.
  Context {A : Type} (f : nat -> list A).
  Hypothesis Hlen : forall s, length (f s) = S s.

  Lemma flat_tri_length n : length (flat_map f (seq 0 n)) = tri n.
  Proof.
    induction n as [|n IH]; [reflexivity|].
    rewrite seq_S, flat_map_app, app_length, IH. cbn [flat_map].
    rewrite app_nil_r, Hlen, tri_S. reflexivity.
  Qed.

  Lemma flat_tri_nth n s m d : s < n -> m <= s ->
    nth (tri s + m) (flat_map f (seq 0 n)) d = nth m (f s) d.
  Proof.
    induction n as [|n IH]; [lia|]. intros Hs Hm.
    rewrite seq_S, flat_map_app. cbn [flat_map]. rewrite app_nil_r.
    destruct (Nat.eq_dec s n) as [->|Hne].
    - rewrite app_nth2; rewrite flat_tri_length; [|lia].
      f_equal. lia.
    - rewrite app_nth1; [apply IH; lia|].
      rewrite flat_tri_length. assert (tri s + s < tri n) by (apply tri_lt; lia). lia.
  Qed.
End FlatTri.

Theorem cart_length L : length (cart L) = ncart L.
Proof.
  unfold cart. rewrite (flat_tri_length _ (cart_row_length L)). now rewrite ncart_tri.
Qed.

(* position nindex l m of cart (k+l+m) holds (k,l,m): independent of L *)
Theorem cart_nth L l m d : l + m <= L ->
  nth (nindex l m) (cart L) d = (L - (l + m), l, m).
Proof.
  intros H. unfold cart, nindex.
  rewrite (flat_tri_nth _ (cart_row_length L)) by lia.
  unfold cart_row. rewrite nth_map_seq by lia. f_equal. f_equal. lia.
Qed.

Theorem cart_index k l m d : nth (nindex l m) (cart (k + l + m)) d = (k, l, m).
Proof. rewrite cart_nth by lia. f_equal. f_equal. lia. Qed.

Lemma nindex_lt L l m : l + m <= L -> nindex l m < ncart L.
Proof.
  intros H. unfold nindex. rewrite ncart_tri.
  assert (tri (l + m) + (l + m) < tri (S L)) by (apply tri_lt; lia). lia.
Qed.

(* every position of cart L is nindex l m of exactly the element stored there *)
Lemma in_cart L k l m : In (k, l, m) (cart L) <-> k + l + m = L.
Proof.
  unfold cart. rewrite in_flat_map. split.
  - intros (s & Hs & Hin). apply in_seq in Hs. unfold cart_row in Hin.
    apply in_map_iff in Hin. destruct Hin as (m0 & Heq & Hm0). apply in_seq in Hm0.
    inversion Heq; subst. lia.
  - intros <-. exists (l + m). split; [apply in_seq; lia|].
    unfold cart_row. apply in_map_iff. exists m. split; [|apply in_seq; lia].
    f_equal. f_equal; lia.
Qed.

Lemma cart_enum L n d : n < ncart L ->
  exists k l m, nth n (cart L) d = (k, l, m) /\ k + l + m = L /\ n = nindex l m.
Proof.
  intros Hn.
  assert (Hin : In (nth n (cart L) d) (cart L)) by (apply nth_In; now rewrite cart_length).
  destruct (nth n (cart L) d) as [[k l] m] eqn:E.
  apply in_cart in Hin. exists k, l, m. split; [reflexivity|]. split; [exact Hin|].
  (* uniqueness of positions: NoDup via injectivity of nindex on the triangle *)
  revert E. revert Hn. unfold cart. rewrite ncart_tri.
  (* locate the row of n *)
  assert (Hrow : forall N n, n < tri N -> exists s j, s < N /\ j <= s /\ n = tri s + j).
  { induction N as [|N IH]; intros n0 Hn0; [unfold tri in Hn0; simpl in Hn0; lia|].
    rewrite tri_S in Hn0. destruct (Nat.lt_ge_cases n0 (tri N)) as [Hlt|Hge].
    - destruct (IH _ Hlt) as (s & j & ? & ? & ?). exists s, j. repeat split; lia.
    - exists N, (n0 - tri N). repeat split; lia. }
  intros Hn E. destruct (Hrow _ _ Hn) as (s & j & Hs & Hj & ->).
  rewrite (flat_tri_nth _ (cart_row_length L)) in E by lia.
  unfold cart_row in E. rewrite nth_map_seq in E by lia. cbn in E. inversion E; subst.
  unfold nindex. match goal with |- tri ?a + _ = tri ?c + _ => replace c with a by lia end. reflexivity.
Qed.

Lemma nindex_inj l m l' m' : nindex l m = nindex l' m' -> l = l' /\ m = m'.
Proof.
  unfold nindex. intros H.
  assert (l + m = l' + m').
  { destruct (Nat.lt_trichotomy (l + m) (l' + m')) as [Hlt|[Heq|Hgt]]; [|exact Heq|].
    - pose proof (tri_lt _ _ Hlt). lia.
    - pose proof (tri_lt _ _ Hgt). lia. }
  rewrite H0 in H. lia.
Qed.
