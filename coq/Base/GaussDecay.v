(* r^m exp(-p r^2) -> 0 as r -> +inf, for every m and p > 0: the boundary terms of the integrations by parts vanish. *)
From Coq Require Import Reals Lra Lia Arith.
From Coquelicot Require Import Coquelicot.
Local Open Scope R_scope.

Lemma term_le_sum (f : nat -> R) n : (forall k, 0 <= f k) -> f n <= sum_f_R0 f n.
Proof.
  intros Hf. destruct n as [|n]; [simpl; lra|]. cbn [sum_f_R0].
  assert (0 <= sum_f_R0 f n) by (apply cond_pos_sum; exact Hf). lra.
Qed.

Lemma exp_ge_pow (u : R) (n : nat) : 0 <= u -> u ^ n / INR (fact n) <= exp u.
Proof.
  intros Hu. eapply Rle_trans; [| apply (exp_ge_taylor u n Hu)].
  apply (term_le_sum (fun k => u ^ k / INR (fact k))). intros k.
  apply Rmult_le_pos; [apply pow_le; exact Hu|]. apply Rlt_le, Rinv_0_lt_compat, lt_0_INR, lt_O_fact.
Qed.

Lemma pow_gauss_bound (p : R) (m : nat) (r : R) : 0 < p -> 1 <= r ->
  0 <= r ^ m * exp (- (p * (r * r))) <= INR (fact (S m)) / p ^ S m * / r.
Proof.
  intros Hp Hr. assert (0 < r) as Hr0 by lra.
  assert (0 < exp (- (p * (r * r)))) as He by apply exp_pos.
  split; [apply Rmult_le_pos; [apply pow_le; lra | lra]|].
  set (u := p * (r * r)). assert (0 <= u) as Hu by (unfold u; apply Rmult_le_pos; [lra | apply Rmult_le_pos; lra]).
  pose proof (exp_ge_pow u (S m) Hu) as G.
  assert (0 < INR (fact (S m))) as Hf by (apply lt_0_INR, lt_O_fact).
  assert (0 < u ^ S m) as Hum by (apply pow_lt; unfold u; apply Rmult_lt_0_compat; [lra | apply Rmult_lt_0_compat; lra]).
  (* exp(-u) = 1/exp u <= fact/u^(m+1) *)
  assert (exp (- u) <= INR (fact (S m)) / u ^ S m) as E.
  { rewrite exp_Ropp. apply Rle_trans with (/ (u ^ S m / INR (fact (S m)))).
    - apply Rinv_le_contravar; [apply Rdiv_lt_0_compat; assumption | exact G].
    - right. field. split; lra. }
  apply Rle_trans with (r ^ m * (INR (fact (S m)) / u ^ S m)).
  { apply Rmult_le_compat_l; [apply pow_le; lra | exact E]. }
  assert (0 < p ^ S m) as Hpm by (apply pow_lt; exact Hp).
  assert (0 < r ^ m) as Hrm by (apply pow_lt; exact Hr0).
  set (D := (r * r) ^ S m). assert (0 < D) as HD by (apply pow_lt; apply Rmult_lt_0_compat; lra).
  assert (r ^ m * r <= D) as K.
  { unfold D. rewrite Rpow_mult_distr. replace (r ^ m * r) with (r ^ S m) by (cbn [pow]; ring).
    assert (1 <= r ^ S m) by (apply pow_R1_Rle; exact Hr). nra. }
  assert (r ^ m / D <= / r) as K2.
  { apply Rmult_le_reg_r with (r := D * r); [apply Rmult_lt_0_compat; lra|].
    replace (r ^ m / D * (D * r)) with (r ^ m * r) by (field; lra).
    replace (/ r * (D * r)) with D by (field; lra). exact K. }
  replace (r ^ m * (INR (fact (S m)) / u ^ S m)) with (INR (fact (S m)) / p ^ S m * (r ^ m / D)).
  2:{ unfold u, D. rewrite (Rpow_mult_distr p (r * r)). fold D. field. repeat split; lra. }
  apply Rmult_le_compat_l; [apply Rlt_le, Rdiv_lt_0_compat; assumption | exact K2].
Qed.

Theorem pow_gauss_decay (p : R) (m : nat) : 0 < p ->
  is_lim (fun r => r ^ m * exp (- (p * (r * r)))) p_infty 0.
Proof.
  intros Hp.
  apply (is_lim_le_le_loc (fun _ => 0) (fun r => INR (fact (S m)) / p ^ S m * / r)).
  - exists 1. intros r Hr. apply pow_gauss_bound; [exact Hp | lra].
  - apply is_lim_const.
  - replace (Finite 0) with (Rbar_mult (INR (fact (S m)) / p ^ S m) (Rbar_inv p_infty)) by (cbn; f_equal; ring).
    apply is_lim_scal_l. apply is_lim_inv; [apply is_lim_id | discriminate].
Qed.
