(* Gaussian moments  I_n(p) = int_0^inf r^n exp(-p r^2) dr  and the table GAMMA.
   The recurrence I_{n+2} = (n+1)/(2p) I_n is one integration by parts (machine-checked, as in Radial/RadialRec.v: the integrals are
   assumed to exist and the boundary term r^{n+1} exp(-p r^2) to vanish at infinity); with the two anchors I_0 = sqrt(pi/p)/2 (the
   Gauss integral, hypothesis) and I_1 = 1/(2p) this gives, for every n,
        I_n(p) = gamma_half n / (2 p^((n+1)/2))          with gamma_half n = Gamma((n+1)/2) of Base/Tables.v,
   which is what the both-on-centre closed form of ECPIntegral::type2 writes as 0.5 * GAMMA[N] * FAST_POW[N+1](1/sqrt(p)). *)
From Coq Require Import Reals Lra Lia Arith.
From Coquelicot Require Import Coquelicot.
From LV Require Import Base.Tables Base.GaussDecay.
Local Open Scope R_scope.

Section GaussMoment.
  Variable p : R.
  Hypothesis Hp : 0 < p.
  Definition gint (n : nat) (r : R) : R := r ^ n * exp (- (p * (r * r))).
  Definition gbnd (n : nat) (r : R) : R := - (r ^ S n * exp (- (p * (r * r)))) / (2 * p).

  Variable Im : nat -> R.
  Hypothesis HI : forall n, is_RInt_gen (gint n) (at_point 0) (Rbar_locally p_infty) (Im n).
  Hypothesis HB : forall n, filterlim (gbnd n) (Rbar_locally p_infty) (locally 0).

  Lemma gbnd_derive n r : is_derive (gbnd n) r (gint (S (S n)) r - INR (S n) / (2 * p) * gint n r).
  Proof.
    unfold gbnd, gint. auto_derive; [exact I|].
    assert (2 * p <> 0) by lra. rewrite <- !tech_pow_Rmult. cbn [Init.Nat.pred].
    change (match n with | 0%nat => 1 | S _ => INR n + 1 end) with (INR (S n)). rewrite !S_INR. field. lra.
  Qed.

  Theorem moment_rec n : Im (S (S n)) = INR (S n) / (2 * p) * Im n.
  Proof.
    assert (is_RInt_gen (Derive (gbnd n)) (at_point 0) (Rbar_locally p_infty) (0 - gbnd n 0)) as I1.
    { apply (is_RInt_gen_Derive (gbnd n) (gbnd n 0) 0).
      - apply filter_forall. intros ab r _. eexists. apply gbnd_derive.
      - apply filter_forall. intros ab r _.
        apply (continuous_ext (fun t => gint (S (S n)) t - INR (S n) / (2 * p) * gint n t)).
        + intros t. symmetry. apply is_derive_unique. apply gbnd_derive.
        + apply (ex_derive_continuous (K := R_AbsRing) (V := R_NormedModule)). unfold gint. auto_derive. exact I.
      - intros P HP. unfold filtermap, at_point. apply locally_singleton. exact HP.
      - apply HB. }
    assert (gbnd n 0 = 0) as E0 by (unfold gbnd; simpl; field; lra).
    rewrite E0 in I1.
    assert (is_RInt_gen (fun t => gint (S (S n)) t - INR (S n) / (2 * p) * gint n t) (at_point 0) (Rbar_locally p_infty) (0 - 0)) as I2.
    { apply (is_RInt_gen_ext (Derive (gbnd n))); [|exact I1].
      apply filter_forall. intros ab r _. apply is_derive_unique. apply gbnd_derive. }
    assert (is_RInt_gen (fun t => gint (S (S n)) t - INR (S n) / (2 * p) * gint n t) (at_point 0) (Rbar_locally p_infty)
              (Im (S (S n)) - INR (S n) / (2 * p) * Im n)) as I3.
    { apply (is_RInt_gen_minus (V := R_CompleteNormedModule) (gint (S (S n))) (fun t => INR (S n) / (2 * p) * gint n t)); [apply HI|].
      apply (is_RInt_gen_scal (V := R_CompleteNormedModule) (gint n) (INR (S n) / (2 * p)) (Im n)). apply HI. }
    pose proof (is_RInt_gen_unique _ _ I2) as U2. pose proof (is_RInt_gen_unique _ _ I3) as U3. rewrite U2 in U3. lra.
  Qed.

  (* closed form in terms of gamma_half, from the two anchors *)
  Hypothesis H0 : Im 0 = sqrt (PI / p) / 2.
  Hypothesis H1 : Im 1 = 1 / (2 * p).

  Definition orp : R := / sqrt p.      (* 1/sqrt(p), the o_root_p of the source *)
  Theorem moment_closed n : Im n = gamma_half n * orp ^ S n / 2.
  Proof.
    assert (0 < sqrt p) as Hs by (apply sqrt_lt_R0; exact Hp).
    assert (orp * orp = / p) as Hoo.
    { unfold orp. rewrite <- Rinv_mult. rewrite sqrt_sqrt by lra. reflexivity. }
    induction n as [n IH] using lt_wf_ind. destruct n as [|[|n]].
    - rewrite H0. cbn [gamma_half pow]. rewrite sqrt_div_alt by exact Hp. unfold orp. field. lra.
    - rewrite H1. cbn [gamma_half pow]. rewrite Rmult_1_r, Hoo. field. lra.
    - rewrite moment_rec, IH by lia. rewrite gamma_half_rec.
      replace (orp ^ S (S (S n))) with (orp * orp * orp ^ S n) by (cbn [pow]; ring). rewrite Hoo. field. lra.
  Qed.
End GaussMoment.

(* ---- the boundary term and the first odd moment proved: only the existence of the integrals and the Gauss integral remain ---- *)
Section GaussMoment2.
  Variable p : R.
  Hypothesis Hp : 0 < p.

  (* the boundary term of the integration by parts vanishes at infinity: no longer a hypothesis *)
  Lemma gbnd_decay n : filterlim (gbnd p n) (Rbar_locally p_infty) (locally 0).
  Proof.
    pose proof (pow_gauss_decay p (S n) Hp) as L.
    apply (is_lim_scal_l _ (- / (2 * p))) in L.
    replace (Rbar_mult (- / (2 * p)) 0) with (Finite 0) in L by (cbn; f_equal; ring).
    change (is_lim (gbnd p n) p_infty 0).
    eapply is_lim_ext; [|exact L]. intros r. unfold gbnd. field. lra.
  Qed.

  Variable Im : nat -> R.
  Hypothesis HI : forall n, is_RInt_gen (gint p n) (at_point 0) (Rbar_locally p_infty) (Im n).

  (* the first odd moment, by the antiderivative -exp(-p r^2)/(2p) *)
  Lemma moment_one : Im 1%nat = 1 / (2 * p).
  Proof.
    set (G := fun r : R => - exp (- (p * (r * r))) / (2 * p)).
    assert (forall r, is_derive G r (gint p 1 r)) as DG.
    { intros r. unfold G, gint. auto_derive; [exact I|]. field. lra. }
    assert (is_RInt_gen (Derive G) (at_point 0) (Rbar_locally p_infty) (0 - G 0)) as I1.
    { apply (is_RInt_gen_Derive G (G 0) 0).
      - apply filter_forall. intros ab r _. eexists. apply DG.
      - apply filter_forall. intros ab r _.
        apply (continuous_ext (gint p 1)).
        + intros t. symmetry. apply is_derive_unique. apply DG.
        + apply (ex_derive_continuous (K := R_AbsRing) (V := R_NormedModule)). unfold gint. auto_derive. exact I.
      - intros P HP. unfold filtermap, at_point. apply locally_singleton. exact HP.
      - pose proof (pow_gauss_decay p 0 Hp) as L.
        apply (is_lim_scal_l _ (- / (2 * p))) in L.
        replace (Rbar_mult (- / (2 * p)) 0) with (Finite 0) in L by (cbn; f_equal; ring).
        change (is_lim G p_infty 0).
        eapply is_lim_ext; [|exact L]. intros r. unfold G. cbn [pow]. field. lra. }
    assert (is_RInt_gen (gint p 1) (at_point 0) (Rbar_locally p_infty) (0 - G 0)) as I2.
    { apply (is_RInt_gen_ext (Derive G)); [|exact I1].
      apply filter_forall. intros ab r _. apply is_derive_unique. apply DG. }
    pose proof (is_RInt_gen_unique _ _ I2) as U2. pose proof (is_RInt_gen_unique _ _ (HI 1%nat)) as U1.
    rewrite U1 in U2. rewrite U2. unfold G. rewrite Rmult_0_r, Rmult_0_r, Ropp_0, exp_0. field. lra.
  Qed.

  (* every Gaussian moment from the Gauss integral alone *)
  Theorem moment_closed_from_gauss :
    Im 0%nat = sqrt (PI / p) / 2 -> forall n, Im n = gamma_half n * orp p ^ S n / 2.
  Proof. intros H0. exact (moment_closed p Hp Im HI gbnd_decay H0 moment_one). Qed.
End GaussMoment2.
