(* The numeric dictionary every numeric model is written against.
   Instantiated with Coq reals for theorems (ROps, in Base/RInst.v), with Q for
   exact evaluation, and with OCaml doubles (supplied by the extracted
   driver as an ordinary record value) for differential runs. *)
From Coq Require Import ZArith List.
Import ListNotations.

Record NumOps (T : Type) : Type := mkNumOps {
  n0 : T;
  n1 : T;
  nadd : T -> T -> T;
  nsub : T -> T -> T;
  nmul : T -> T -> T;
  ndiv : T -> T -> T;
  nopp : T -> T;
  nabs : T -> T;
  nofZ : Z -> T;
  nltb : T -> T -> bool;       (* strict < *)
  nsqrt : T -> T;
  nexp : T -> T;
  ncos : T -> T;
  nsin : T -> T;
  natan2 : T -> T -> T;
  ndec : Z -> Z -> T;          (* ndec m e = m * 10^e : decimal literals of the source *)
}.

Arguments n0 {T}. Arguments n1 {T}. Arguments nadd {T}. Arguments nsub {T}.
Arguments nmul {T}. Arguments ndiv {T}. Arguments nopp {T}. Arguments nabs {T}.
Arguments nofZ {T}. Arguments nltb {T}. Arguments nsqrt {T}. Arguments nexp {T}.
Arguments ncos {T}. Arguments nsin {T}. Arguments natan2 {T}. Arguments ndec {T}.

Section Helpers.
  Context {T : Type} (o : NumOps T).
  Definition nofN (n : nat) : T := nofZ o (Z.of_nat n).
  Definition nsum (l : list T) : T := fold_left (nadd o) l (n0 o).
  Definition ngtb (a b : T) : bool := nltb o b a.
End Helpers.
