(* Exact rational instance of the numeric dictionary (field operations only; the
   transcendental slots are never used by the models that are run exactly). *)
From Coq Require Import QArith Qabs ZArith.
From LV Require Import Base.NumOps.
Local Open Scope Q_scope.

Definition Qltb (a b : Q) : bool := match Qcompare a b with Lt => true | _ => false end.
Definition QOps : NumOps Q :=
  mkNumOps Q 0 1 (fun a b => Qred (a + b)) (fun a b => Qred (a - b)) (fun a b => Qred (a * b))
           (fun a b => Qred (a / b)) (fun a => - a) Qabs (fun z => inject_Z z) Qltb
           (fun a => a) (fun a => a) (fun a => a) (fun a => a) (fun a _ => a)
           (fun m e => Qred (inject_Z m * Qpower 10 e)).
