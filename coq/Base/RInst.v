(* The real-number instance of the numeric dictionary: what theorems are stated over. *)
From Coq Require Import Reals ZArith Lra.
From LV Require Import Base.NumOps.
Local Open Scope R_scope.

Definition Rltb (a b : R) : bool := if Rlt_dec a b then true else false.

Definition Ratan2 (y x : R) : R :=
  if Rlt_dec 0 x then atan (y / x)
  else if Rlt_dec x 0 then (if Rle_dec 0 y then atan (y / x) + PI else atan (y / x) - PI)
  else if Rlt_dec 0 y then PI / 2 else if Rlt_dec y 0 then - PI / 2 else 0.

Definition ROps : NumOps R :=
  mkNumOps R 0 1 Rplus Rminus Rmult Rdiv Ropp Rabs IZR Rltb sqrt exp cos sin Ratan2
           (fun m e => IZR m * powerRZ 10 e).

Lemma Rltb_true a b : Rltb a b = true <-> a < b.
Proof. unfold Rltb. destruct (Rlt_dec a b); split; intros; try lra; try discriminate; auto. Qed.
Lemma Rltb_false a b : Rltb a b = false <-> b <= a.
Proof. unfold Rltb. destruct (Rlt_dec a b); split; intros; try lra; try discriminate; auto. Qed.
