(* Meaning of the small constant tables of the library (what T-tab's per-run obligations prove the
   source text equal to).

   gamma_half i = Gamma((i+1)/2), characterised by Gamma(1/2) = sqrt(pi), Gamma(1) = 1 and the functional
   equation Gamma(x+1) = x Gamma(x) (the standard library has no Gamma function; the characterisation is the
   specification).  gaussian_moment_* (GaussMoment.v) relate it to int_0^inf r^i exp(-p r^2) dr. *)
From Coq Require Import Reals List Arith Lia ZArith Lra.
Import ListNotations.
Local Open Scope R_scope.

Fixpoint gamma_half (i : nat) : R :=
  match i with
  | O => sqrt PI
  | S O => 1
  | S (S j as p) => INR (S j) / 2 * gamma_half j
  end.

Lemma gamma_half_rec i : gamma_half (S (S i)) = INR (S i) / 2 * gamma_half i.
Proof. reflexivity. Qed.

Lemma gamma_half_pos i : 0 < gamma_half i.
Proof.
  induction i as [i IH] using lt_wf_ind. destruct i as [|[|j]].
  - simpl. apply sqrt_lt_R0. apply PI_RGT_0.
  - simpl. lra.
  - rewrite gamma_half_rec. apply Rmult_lt_0_compat; [|apply IH; lia].
    apply Rdiv_lt_0_compat; [apply lt_0_INR; lia | lra].
Qed.

(* odd index: Gamma(k+1) = k! *)
Lemma gamma_half_odd k : gamma_half (2 * k + 1) = INR (fact k).
Proof.
  induction k as [|k IH]; [simpl; lra|].
  replace (2 * S k + 1)%nat with (S (S (2 * k + 1))) by lia. rewrite gamma_half_rec, IH.
  replace (S (2 * k + 1)) with (2 * S k)%nat by lia. rewrite mult_INR.
  change (fact (S k)) with (S k * fact k)%nat. rewrite mult_INR. simpl (INR 2). field.
Qed.

(* even index: Gamma(k + 1/2) = sqrt(pi) (2k-1)!! / 2^k, written with the running product *)
Fixpoint odd_prod (k : nat) : R := match k with O => 1 | S k' => INR (2 * k' + 1) * odd_prod k' end.
Lemma gamma_half_even k : gamma_half (2 * k) = sqrt PI * odd_prod k / 2 ^ k.
Proof.
  induction k as [|k IH]; [simpl; field|].
  replace (2 * S k)%nat with (S (S (2 * k))) by lia. rewrite gamma_half_rec, IH.
  replace (S (2 * k)) with (2 * k + 1)%nat by lia. cbn [odd_prod pow]. field. apply pow_nonzero. lra.
Qed.

(* closeness predicate used by the GAMMA obligation: relative 1e-13 *)
Definition gamma_close (i : nat) (g : R) : Prop := Rabs (g - gamma_half i) <= 1 / 10 ^ 13 * gamma_half i.

(* integer tables as functions, for comparison with the models' nth-based definitions *)
Definition ztab (l : list Z) (n : nat) : nat := Z.to_nat (nth n l 0%Z).
