(* The large-argument branch of both Bessel evaluators (z > 16), as real functions of the model text:
   it evaluates A_l(1/z)/2 of the closed form exactly, so its error is the dropped term B_l(1/z) e^{-2z}/2,
   which is below 1e-12 for EVERY z >= 16 and every order the library can request (l <= 15 = 2 MAX_L + MAX_L). *)
From Coq Require Import Reals List ZArith Lra Lia Arith.
From Interval Require Import Tactic.
From LV Require Import Base.NumOps Base.RInst Bessel.BesselModel Bessel.BesselSpec.
Import ListNotations.
Local Open Scope R_scope.

Definition asym_vec (l : nat) (z : R) : R :=
  let v0 := ndec ROps 5 (-1) / z in
  let '(Rl, _) := fold_left (fun acc k => let '(R, Tlk) := acc in
       let cof := IZR (Z.of_nat ((l - k + 1) * (l + k))) / IZR (Z.of_nat k) in
       let Tlk' := Tlk * (- cof * v0) in (R + Tlk', Tlk')) (seq 1 l) (1, 1) in v0 * Rl.

Lemma asym_vec_PA : forall l, (l <= 15)%nat -> forall z, z <> 0 -> asym_vec l z = peval (PA l) (/ z) / 2.
Proof.
  intros l Hl z Hz.
  do 16 (destruct l as [|l]; [cbv - [Rplus Rmult Rdiv Ropp Rminus Rinv IZR]; field; assumption|]). lia.
Qed.

Lemma asym_err : forall l, (l <= 15)%nat -> forall z, 16 <= z ->
  Rabs (peval (PB l) (/ z) * exp (- 2 * z) / 2) <= 1 / 10 ^ 12.
Proof.
  intros l Hl z Hz.
  do 16 (destruct l as [|l]; [cbv - [Rplus Rmult Rdiv Ropp Rminus Rinv IZR exp Rabs Rle pow]; interval with (i_prec 60)|]). lia.
Qed.

Lemma small_lt16 : ndec ROps 1 (-7) < 16.
Proof. cbn. interval with (i_prec 40). Qed.

Lemma regime_large z : 16 < z ->
  negb (nltb ROps (n0 ROps) z) = false /\ nltb ROps z (SMALL ROps) = false /\ nltb ROps (nofZ ROps 16) z = true.
Proof.
  intros Hz. pose proof small_lt16 as Hs. cbn [nltb ROps n0 nofZ]. unfold SMALL.
  repeat split.
  - rewrite (proj2 (Rltb_true 0 z)); [reflexivity | lra].
  - apply Rltb_false. lra.
  - apply Rltb_true. lra.
Qed.

(* the single-order overload in the large-z regime *)
Lemma calc_one_large_PA N dKt fl z L : 16 < z -> (L <= 15)%nat ->
  calc_one ROps N dKt fl z L = peval (PA L) (/ z) / 2.
Proof.
  intros Hz HL. destruct (regime_large z Hz) as (E1 & E2 & E3).
  unfold calc_one. rewrite E1, E2, E3. clear E1 E2 E3.
  assert (z <> 0) as Hz0 by lra.
  do 16 (destruct L as [|L]; [cbv - [Rplus Rmult Rdiv Ropp Rminus Rinv IZR]; field; assumption|]). lia.
Qed.

Lemma nth_cons_map_seq {A} (f : nat -> A) v0 m rest l d : (1 <= l <= m)%nat ->
  nth l (v0 :: map f (seq 1 m) ++ rest) d = f l.
Proof.
  intros H. destruct l as [|l]; [lia|]. cbn [nth].
  rewrite app_nth1 by (rewrite map_length, seq_length; lia).
  rewrite nth_indep with (d' := f 0%nat) by (rewrite map_length, seq_length; lia).
  rewrite map_nth. rewrite seq_nth by lia. reflexivity.
Qed.

Lemma calc_vec_large_PA lMax N Kt dKt fl z maxL old l : 16 < z -> (l <= Nat.min maxL lMax)%nat -> (l <= 15)%nat ->
  nth l (calc_vec ROps lMax N Kt dKt fl z maxL old) 0 = peval (PA l) (/ z) / 2.
Proof.
  intros Hz Hl HL. destruct (regime_large z Hz) as (E1 & E2 & E3).
  unfold calc_vec. rewrite E1, E2, E3. clear E1 E2 E3.
  assert (z <> 0) as Hz0 by lra.
  destruct l as [|l].
  - cbn [nth app]. cbv - [Rplus Rmult Rdiv Ropp Rminus Rinv IZR]. field. assumption.
  - cbv zeta. rewrite nth_cons_map_seq by lia.
    change (asym_vec (S l) z = peval (PA (S l)) (/ z) / 2).
    apply asym_vec_PA; assumption.
Qed.

Lemma M_minus_PA l z : 0 < z -> M l z - peval (PA l) (/ z) / 2 = peval (PB l) (/ z) * exp (- 2 * z) / 2.
Proof. intros Hz. rewrite M_closed by assumption. unfold closed. field. Qed.

Theorem calc_vec_large : forall lMax N Kt dKt fl z maxL old l, 16 < z -> (l <= Nat.min maxL lMax)%nat -> (l <= 15)%nat ->
  Rabs (nth l (calc_vec ROps lMax N Kt dKt fl z maxL old) 0 - M l z) <= 1 / 10 ^ 12.
Proof.
  intros. rewrite calc_vec_large_PA by assumption. rewrite Rabs_minus_sym, M_minus_PA by lra. apply asym_err; [assumption | lra].
Qed.
Theorem calc_one_large : forall N dKt fl z L, 16 < z -> (L <= 15)%nat ->
  Rabs (calc_one ROps N dKt fl z L - M L z) <= 1 / 10 ^ 12.
Proof.
  intros. rewrite calc_one_large_PA by assumption. rewrite Rabs_minus_sym, M_minus_PA by lra. apply asym_err; [assumption | lra].
Qed.
(* the two evaluators agree exactly (as real numbers) in this regime *)
Corollary large_overloads_agree : forall lMax N Kt dKt fl z maxL old l, 16 < z -> (l <= Nat.min maxL lMax)%nat -> (l <= 15)%nat ->
  nth l (calc_vec ROps lMax N Kt dKt fl z maxL old) 0 = calc_one ROps N dKt fl z l.
Proof. intros. rewrite calc_vec_large_PA, calc_one_large_PA by assumption. reflexivity. Qed.
