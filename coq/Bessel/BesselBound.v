(* A bound on M_l for arguments z >= 1, from the closed form: |M_l(z)| <= (S(A_l) + S(B_l)) / 2 with S the sum of the absolute values of
   the coefficients (the polynomials are evaluated at 1/z <= 1 and exp(-2z) <= 1).  For every order. *)
From Coq Require Import Reals List ZArith Lra Lia.
From LV Require Import Bessel.BesselSpec.
Import ListNotations.
Local Open Scope R_scope.

Fixpoint abs_sum (p : poly) : R := match p with [] => 0 | c :: p' => Rabs (IZR c) + abs_sum p' end.

Lemma abs_sum_nonneg p : 0 <= abs_sum p.
Proof. induction p as [|c p IH]; cbn [abs_sum]; [lra|]. pose proof (Rabs_pos (IZR c)). lra. Qed.

Lemma peval_abs_bound p u : 0 <= u <= 1 -> Rabs (peval p u) <= abs_sum p.
Proof.
  intros Hu. induction p as [|c p IH]; cbn [peval abs_sum].
  - rewrite Rabs_R0. lra.
  - eapply Rle_trans; [apply Rabs_triang|]. apply Rplus_le_compat_l.
    rewrite Rabs_mult, (Rabs_pos_eq u) by lra.
    pose proof (abs_sum_nonneg p). pose proof (Rabs_pos (peval p u)).
    apply Rle_trans with (1 * Rabs (peval p u)); [apply Rmult_le_compat_r; lra | lra].
Qed.

Definition Mbound (l : nat) : R := (abs_sum (PA l) + abs_sum (PB l)) / 2.

Theorem M_bounded l z : 1 <= z -> Rabs (M l z) <= Mbound l.
Proof.
  intros Hz. rewrite M_closed by lra. unfold closed, Mbound.
  assert (0 <= / z <= 1) as Hu.
  { split; [apply Rlt_le, Rinv_0_lt_compat; lra|]. rewrite <- Rinv_1. apply Rinv_le_contravar; lra. }
  assert (0 < exp (- 2 * z) <= 1) as He.
  { split; [apply exp_pos|]. rewrite <- exp_0. destruct (Req_dec (-2 * z) 0) as [E|E]; [rewrite E; lra|]. apply Rlt_le, exp_increasing. lra. }
  unfold Rdiv. rewrite Rabs_mult, (Rabs_pos_eq (/ 2)) by lra. apply Rmult_le_compat_r; [lra|].
  eapply Rle_trans; [apply Rabs_triang|]. apply Rplus_le_compat; [apply peval_abs_bound; exact Hu|].
  rewrite Rabs_mult, (Rabs_pos_eq (exp (- 2 * z))) by lra.
  pose proof (peval_abs_bound (PB l) (/ z) Hu) as HB. pose proof (Rabs_pos (peval (PB l) (/ z))). 
  apply Rle_trans with (Rabs (peval (PB l) (/ z)) * 1); [apply Rmult_le_compat_l; lra | lra].
Qed.
