(* Derivative recurrences of M_l(z) = exp(-z) i_l(z), for every order l and every z > 0, from the definition
   (closed M_0, M_1 + three-term recurrence).  The last one is the rule BesselFunction::tabulate iterates to fill the
   Taylor coefficients dK[n+1][l] from dK[n][l-1], dK[n][l], dK[n][l+1]. *)
From Coq Require Import Reals Lra Lia.
From Coquelicot Require Import Coquelicot.
From LV Require Import Bessel.BesselSpec.
Local Open Scope R_scope.

Lemma M0_eq z : M 0 z = M0 z. Proof. reflexivity. Qed.
Lemma M1_eq z : M 1 z = M1 z. Proof. reflexivity. Qed.

Lemma M0_derive z : 0 < z -> is_derive M0 z (M1 z - M0 z).
Proof. intros Hz. unfold M0, M1. auto_derive; [lra|]. field. lra. Qed.
Lemma M1_derive z : 0 < z -> is_derive M1 z (M0 z - 2 / z * M1 z - M1 z).
Proof. intros Hz. unfold M0, M1. auto_derive; [repeat split; nra|]. field. lra. Qed.

(* A_l : M_l' = (l/z) M_l + M_{l+1} - M_l ;  B_{l+1} : M_{l+1}' = M_l - ((l+2)/z) M_{l+1} - M_{l+1} *)
Lemma M_derive_pair l :
  (forall z, 0 < z -> is_derive (M l) z (INR l / z * M l z + M (S l) z - M l z)) /\
  (forall z, 0 < z -> is_derive (M (S l)) z (M l z - (INR l + 2) / z * M (S l) z - M (S l) z)).
Proof.
  induction l as [|l [IA IB]].
  - split; intros z Hz.
    + apply is_derive_ext with (f := M0); [reflexivity|].
      replace (INR 0 / z * M 0 z + M 1 z - M 0 z) with (M1 z - M0 z) by (change (M 0 z) with (M0 z); change (M 1 z) with (M1 z); simpl; field; lra).
      now apply M0_derive.
    + apply is_derive_ext with (f := M1); [reflexivity|].
      replace (M 0 z - (INR 0 + 2) / z * M 1 z - M 1 z) with (M0 z - 2 / z * M1 z - M1 z) by (change (M 0 z) with (M0 z); change (M 1 z) with (M1 z); simpl; field; lra).
      now apply M1_derive.
  - split; intros z Hz.
    + replace (INR (S l) / z * M (S l) z + M (S (S l)) z - M (S l) z) with (M l z - (INR l + 2) / z * M (S l) z - M (S l) z).
      * now apply IB.
      * rewrite M_rec, S_INR. field. lra.
    + apply is_derive_ext with (f := fun t => M l t - (2 * INR l + 3) / t * M (S l) t).
      { intros t. symmetry. apply M_rec. }
      auto_derive.
      { repeat split; try lra; first [eexists; apply IA; assumption | eexists; apply IB; assumption]. }
      change (Derive (fun x : R => M l x) z) with (Derive (M l) z). change (Derive (fun x : R => M (S l) x) z) with (Derive (M (S l)) z).
      rewrite (is_derive_unique _ _ _ (IA z Hz)), (is_derive_unique _ _ _ (IB z Hz)).
      rewrite !M_rec, !S_INR. field. lra.
Qed.

Theorem M_derive_up l z : 0 < z -> is_derive (M l) z (INR l / z * M l z + M (S l) z - M l z).
Proof. apply (proj1 (M_derive_pair l)). Qed.
Theorem M_derive_down l z : 0 < z -> is_derive (M (S l)) z (M l z - (INR l + 2) / z * M (S l) z - M (S l) z).
Proof. apply (proj2 (M_derive_pair l)). Qed.

(* the rule of the table: M_0' = M_1 - M_0,  M_l' = (l M_{l-1} + (l+1) M_{l+1})/(2l+1) - M_l *)
Theorem M_derive_table0 z : 0 < z -> is_derive (M 0) z (M 1 z - M 0 z).
Proof. intros Hz. replace (M 1 z - M 0 z) with (INR 0 / z * M 0 z + M 1 z - M 0 z) by (simpl; field; lra). now apply M_derive_up. Qed.
Theorem M_derive_table l z : 0 < z ->
  is_derive (M (S l)) z ((INR (S l) * M l z + (INR (S l) + 1) * M (S (S l)) z) / (2 * INR (S l) + 1) - M (S l) z).
Proof.
  intros Hz. pose proof (M_derive_up (S l) z Hz) as HA. pose proof (M_derive_down l z Hz) as HB.
  pose proof (is_derive_unique _ _ _ HA) as EA. pose proof (is_derive_unique _ _ _ HB) as EB.
  replace ((INR (S l) * M l z + (INR (S l) + 1) * M (S (S l)) z) / (2 * INR (S l) + 1) - M (S l) z)
    with (Derive (M (S l)) z).
  - apply Derive_correct. eexists; exact HA.
  - assert (0 < INR (S l)) by (apply lt_0_INR; lia).
    assert (2 * INR (S l) + 1 <> 0) by (apply Rgt_not_eq; lra).
    apply Rmult_eq_reg_l with (r := 2 * INR (S l) + 1); [|assumption].
    transitivity (INR (S l) * Derive (M (S l)) z + (INR (S l) + 1) * Derive (M (S l)) z); [ring|].
    rewrite EB at 1. rewrite EA. rewrite !S_INR. field. rewrite S_INR in *. split; apply Rgt_not_eq; lra.
Qed.
