(* Model of src/lib/bessel.cpp (BesselFunction): series tabulation on the N+1 nodes, the derivative
   recurrence, the three-regime evaluators (both overloads) and upper_bound.  Generic over the
   numeric dictionary.  No proofs here. *)
From Coq Require Import List Arith ZArith PeanoNat Bool.
From LV Require Import Base.NumOps.
Import ListNotations.

Definition TAYLOR_CUT : nat := 5.

Section Bessel.
  Context {T : Type} (o : NumOps T).
  Local Notation "a +! b" := (nadd o a b) (at level 50, left associativity).
  Local Notation "a -! b" := (nsub o a b) (at level 50, left associativity).
  Local Notation "a *! b" := (nmul o a b) (at level 40, left associativity).
  Local Notation "a /! b" := (ndiv o a b) (at level 40, left associativity).
  Let ofN (n : nat) := nofZ o (Z.of_nat n).
  Definition SMALL : T := ndec o 1 (-7).

  (* DFAC[i] as initFactorials fills it: DFAC[0]=DFAC[1]=1, DFAC[i] = i * DFAC[i-2] *)
  Fixpoint dfac (n : nat) : T :=
    match n with
    | O => n1 o | S O => n1 o
    | S (S k as p) => ofN n *! dfac k
    end.

  Variable lMax N order : nat.
  Variable accuracy : T.
  Definition lmax := lMax + TAYLOR_CUT.
  Definition scale : T := ofN N /! nofZ o 16.

  (* series for K_0 at z: returns (K0, [F_0; ...; F_{j-1}]) where j is the break index *)
  Fixpoint series (fuel j : nat) (z2 Fprev ratio K0 : T) (Fs : list T) : T * list T :=
    match fuel with
    | O => (K0, Fs)
    | S f =>
      if nltb o ratio accuracy then (K0, Fs)
      else
        let Fj := Fprev *! z2 /! ofN j in
        let r := Fj /! dfac (2 * j + 1) in
        series f (S j) z2 Fj r (K0 +! r) (Fs ++ [Fj])
    end.

  (* K[i][l], l = 0..lmax at node i *)
  Definition node_K (i : nat) : list T :=
    let z := ofN i /! (ofN N /! nofZ o 16) in
    let z2 := z *! z /! nofZ o 2 in
    let F0 := nexp o (nopp o z) in
    let r0 := F0 /! dfac 0 in
    let '(K0, Fs) := series order 1 z2 F0 r0 r0 [F0] in
    (* note: when the loop runs to j = order+1 without a break the source sums F[m], m < order+1 *)
    let Kl := fst (fold_left (fun acc l =>
                let '(ks, zp) := acc in
                let ratio := fold_left (fun a mF => a +! snd mF /! dfac (2 * l + 2 * fst mF + 1)) (combine (seq 0 (length Fs)) Fs) (n0 o) in
                (ks ++ [zp *! ratio], zp *! z)) (seq 1 lmax) ([], z)) in
    K0 :: Kl.

  (* derivative table at a node: dK[n][l], n = 0..TAYLOR_CUT *)
  Definition Ccoef (l : nat) : T := ofN l /! (nofZ o 2 *! ofN l +! n1 o).
  Definition next_deriv (n : nat) (prev : list T) : list T :=
    let g := fun l => nth l prev (n0 o) in
    (g 1 -! g 0) ::
    map (fun l => Ccoef l *! g (l - 1) +! (Ccoef l +! n1 o /! (nofZ o 2 *! ofN l +! n1 o)) *! g (l + 1) -! g l)
        (seq 1 (lMax + TAYLOR_CUT - n)).
  Definition node_dK (Ks : list T) : list (list T) :=
    fst (fold_left (fun acc n => let '(tab, prev) := acc in let d := next_deriv n prev in (tab ++ [d], d))
                   (seq 1 TAYLOR_CUT) ([Ks], Ks)).

  (* table lookups are arguments so that the driver can memoise: Kt ix l, dKt ix n l *)
  Variable Kt : nat -> nat -> T.
  Variable dKt : nat -> nat -> nat -> T.
  Variable floor_idx : T -> nat.        (* floor(z*scale + 0.5) as an index; the driver supplies the float floor *)

  (* calculate(z, maxL, values): the values written, given the previous content `old` of the vector *)
  Definition calc_vec (z : T) (maxL : nat) (old : list T) : list T :=
    let maxL := Nat.min maxL lMax in
    if negb (nltb o (n0 o) z) then ((n1 o) :: repeat (n0 o) maxL) ++ skipn (S maxL) old     (* z <= 0 : K_0 = 1, K_l = 0 *)
    else if nltb o z SMALL then
      fst (fold_left (fun acc l => let '(vs, prev) := acc in
                                   let v := prev *! z /! (nofZ o 2 *! ofN l +! n1 o) in (vs ++ [v], v))
                     (seq 1 maxL) ([n1 o -! z], n1 o -! z))
      ++ skipn (S maxL) old
    else if nltb o (nofZ o 16) z then
      let v0 := ndec o 5 (-1) /! z in
      v0 :: map (fun l =>
                   let '(Rl, _) := fold_left (fun acc k => let '(R, Tlk) := acc in
                                     let cof := ofN ((l - k + 1) * (l + k)) /! ofN k in
                                     let Tlk' := Tlk *! (nopp o cof *! v0) in (R +! Tlk', Tlk'))
                                   (seq 1 l) (n1 o, n1 o) in
                   v0 *! Rl) (seq 1 maxL)
      ++ skipn (S maxL) old
    else
      let ix := floor_idx (z *! scale +! ndec o 5 (-1)) in
      let dz := z -! ofN ix /! scale in
      (if nltb o (nabs o dz) (ndec o 1 (-12)) then map (fun l => Kt ix l) (seq 0 (S maxL))
       else
         let dzn := fst (fold_left (fun acc n => let '(ds, prev) := acc in let d := prev *! dz /! ofN n in (ds ++ [d], d))
                                   (seq 1 TAYLOR_CUT) ([n1 o], n1 o)) in
         map (fun l => fold_left (fun a nd => a +! snd nd *! dKt ix (fst nd) l) (combine (seq 0 (S TAYLOR_CUT)) dzn) (n0 o))
             (seq 0 (S maxL)))
      ++ skipn (S maxL) old.

  (* calculate(z, L) *)
  Definition calc_one (z : T) (L : nat) : T :=
    if negb (nltb o (n0 o) z) then (match L with O => n1 o | _ => n0 o end)
    else if nltb o z SMALL then
      fold_left (fun v _ => v *! (z /! (nofZ o 2 *! ofN L +! n1 o))) (seq 1 L) (n1 o -! z)
    else if nltb o (nofZ o 16) z then
      let v0 := ndec o 5 (-1) /! z in
      let '(value, _) := fold_left (fun acc k => let '(v, Tlk) := acc in
                            let Tlk' := Tlk *! (nopp o v0 *! ofN (L - k + 1) *! ofN (L + k) /! ofN k) in (v +! Tlk', Tlk'))
                          (seq 1 L) (n1 o, n1 o) in
      v0 *! value
    else
      let ix := floor_idx (z *! scale +! ndec o 5 (-1)) in
      let dz := z -! ofN ix /! scale in
      fst (fold_left (fun acc n => let '(v, dzn) := acc in (v +! dzn *! dKt ix n L, dzn *! (dz /! ofN (n + 1))))
                     (seq 0 (S TAYLOR_CUT)) (n0 o, n1 o)).
End Bessel.
