(* The interpolation error of the Bessel table, for every order and every node at or above 1 (C14).
   calculate() sums the 5th-order Taylor polynomial of M_l around a table node x; its coefficients are the derivatives of M_l at x
   (BesselTaylor.v).  Here: the iterated rule is bounded, |Dn n l z| <= 2^n max_{m <= l+n} Mbound m for z >= 1 (the rule's
   coefficients sum to 2 in absolute value; |M_m| <= Mbound m, BesselBound.v), hence by Taylor-Lagrange (Coquelicot) the polynomial
   evaluated at y > x >= 1 differs from M_l(y) by at most (y-x)^6 / 720 * 64 * max_{m <= l+6} Mbound m.
   Forward direction (y > x) only; the bound is computable but not sharp. *)
From Coq Require Import Reals Lra Lia Arith.
From Coquelicot Require Import Coquelicot.
From LV Require Import Bessel.BesselSpec Bessel.BesselDeriv Bessel.BesselTaylor Bessel.BesselBound.
Local Open Scope R_scope.

Fixpoint Bmax (l : nat) : R := match l with O => Mbound 0 | S l' => Rmax (Bmax l') (Mbound (S l')) end.

Lemma Bmax_ge l : forall m, (m <= l)%nat -> Mbound m <= Bmax l.
Proof.
  induction l as [|l IH]; intros m Hm.
  - assert (m = 0%nat) as -> by lia. cbn [Bmax]. lra.
  - cbn [Bmax]. destruct (Nat.eq_dec m (S l)) as [->|Hne].
    + apply Rmax_r.
    + apply Rle_trans with (Bmax l); [apply IH; lia | apply Rmax_l].
Qed.

Lemma Bmax_mono l l' : (l <= l')%nat -> Bmax l <= Bmax l'.
Proof.
  induction 1 as [|l' _ IH]; [lra|]. apply Rle_trans with (Bmax l'); [exact IH|]. cbn [Bmax]. apply Rmax_l.
Qed.

Lemma rule_bound (g : nat -> R) l C : (forall m, (m <= S l)%nat -> Rabs (g m) <= C) -> Rabs (rule g l) <= 2 * C.
Proof.
  intros Hg. destruct l as [|l']; unfold rule.
  - pose proof (Hg 0%nat ltac:(lia)) as H0. pose proof (Hg 1%nat ltac:(lia)) as H1.
    apply Rabs_le_between in H0. apply Rabs_le_between in H1. apply Rabs_le_between. lra.
  - pose proof (Hg l' ltac:(lia)) as H0. pose proof (Hg (S l') ltac:(lia)) as H1. pose proof (Hg (S (S l')) ltac:(lia)) as H2.
    assert (0 < INR (S l')) as Hl by (apply lt_0_INR; lia).
    set (c1 := INR (S l') / (2 * INR (S l') + 1)). set (c2 := c1 + 1 / (2 * INR (S l') + 1)).
    assert (0 <= c1) as Hc1 by (unfold c1; apply Rlt_le, Rdiv_lt_0_compat; lra).
    assert (0 <= c2) as Hc2.
    { unfold c2. assert (0 < 1 / (2 * INR (S l') + 1)) by (apply Rdiv_lt_0_compat; lra). lra. }
    assert (c1 + c2 = 1) as Hs by (unfold c2, c1; field; lra).
    assert (Rabs (c1 * g l') <= c1 * C) as B1 by (rewrite Rabs_mult, (Rabs_pos_eq c1) by exact Hc1; apply Rmult_le_compat_l; assumption).
    assert (Rabs (c2 * g (S (S l'))) <= c2 * C) as B2 by (rewrite Rabs_mult, (Rabs_pos_eq c2) by exact Hc2; apply Rmult_le_compat_l; assumption).
    apply Rabs_le_between in B1. apply Rabs_le_between in B2. apply Rabs_le_between in H1. apply Rabs_le_between.
    assert (c1 * C + c2 * C = C) as E by (rewrite <- Rmult_plus_distr_r, Hs; ring). lra.
Qed.

Lemma Dn_bound n : forall l z, 1 <= z -> Rabs (Dn n l z) <= 2 ^ n * Bmax (l + n).
Proof.
  induction n as [|n IH]; intros l z Hz.
  - cbn [Dn pow]. rewrite Rmult_1_l. apply Rle_trans with (Mbound l); [apply M_bounded; exact Hz | apply Bmax_ge; lia].
  - cbn [Dn]. replace (2 ^ S n * Bmax (l + S n)) with (2 * (2 ^ n * Bmax (S l + n))) by (cbn [pow]; replace (l + S n)%nat with (S l + n)%nat by lia; ring).
    apply rule_bound. intros m Hm. apply Rle_trans with (2 ^ n * Bmax (m + n)); [apply IH; exact Hz|].
    apply Rmult_le_compat_l; [apply pow_le; lra | apply Bmax_mono; lia].
Qed.

Lemma M_ex_derive_n l k t : 0 < t -> ex_derive_n (M l) k t.
Proof.
  intros Ht. destruct k as [|k]; [exact I|]. cbn [ex_derive_n].
  apply ex_derive_ext_loc with (f := Dn k l).
  - exists (mkposreal t Ht). intros u Hu. symmetry. apply Dn_is_nth_derivative.
    unfold ball in Hu; cbn in Hu. unfold AbsRing_ball, abs, minus, plus, opp in Hu. cbn in Hu. apply Rabs_def2 in Hu. lra.
  - eexists. apply Dn_derive. exact Ht.
Qed.

Theorem taylor_lagrange_M l x y : 0 < x -> x < y ->
  exists zeta, x < zeta < y /\
    M l y = sum_f_R0 (fun m => (y - x) ^ m / INR (fact m) * Dn m l x) 5 + (y - x) ^ 6 / INR (fact 6) * Dn 6 l zeta.
Proof.
  intros Hx Hxy.
  destruct (Taylor_Lagrange (M l) 5 x y Hxy) as (zeta & Hz & E).
  { intros t Ht k _. apply M_ex_derive_n. lra. }
  exists zeta. split; [exact Hz|]. rewrite E. f_equal.
  - apply sum_eq. intros i _. rewrite Dn_is_nth_derivative by exact Hx. reflexivity.
  - rewrite Dn_is_nth_derivative by lra. reflexivity.
Qed.

Theorem table_interpolation_error l x y : 1 <= x -> x < y ->
  Rabs (M l y - sum_f_R0 (fun m => (y - x) ^ m / INR (fact m) * Dn m l x) 5) <= (y - x) ^ 6 / 720 * (64 * Bmax (l + 6)).
Proof.
  intros Hx Hxy. destruct (taylor_lagrange_M l x y ltac:(lra) Hxy) as (zeta & Hz & E).
  rewrite E. match goal with |- Rabs (?a + ?b - ?a) <= _ => replace (a + b - a) with b by ring end.
  rewrite Rabs_mult. replace (INR (fact 6)) with 720 by (cbn; lra).
  assert (0 <= (y - x) ^ 6 / 720) as P by (apply Rmult_le_pos; [apply pow_le; lra | lra]).
  rewrite (Rabs_pos_eq _ P). apply Rmult_le_compat_l; [exact P|].
  pose proof (Dn_bound 6 l zeta ltac:(lra)) as B. replace (2 ^ 6) with 64 in B by (cbn; lra). exact B.
Qed.
