(* The specification of the scaled modified spherical Bessel function M_l(z) = exp(-z) i_l(z), z > 0:
     M_0 = (1 - e^{-2z})/(2z),  M_1 = ((z-1) + (z+1) e^{-2z})/(2 z^2),
     M_{l+2} = M_l - (2l+3)/z M_{l+1}                                   (DLMF 10.47, 10.51)
   and its closed form  2 M_l(z) = A_l(1/z) + B_l(1/z) e^{-2z}  with integer polynomials A_l, B_l
   computed by the same recurrence.  The closed form is what the kernel-certified enclosures
   (Interval) are taken of, and what the library's large-z branch evaluates. *)
From Coq Require Import Reals List ZArith Lra Lia.
Import ListNotations.
Local Open Scope R_scope.

Definition M0 (z : R) : R := (1 - exp (- 2 * z)) / (2 * z).
Definition M1 (z : R) : R := ((z - 1) + (z + 1) * exp (- 2 * z)) / (2 * z * z).
Fixpoint Mpair (l : nat) (z : R) : R * R :=
  match l with
  | O => (M0 z, M1 z)
  | S l' => let '(a, b) := Mpair l' z in (b, a - (2 * INR l' + 3) / z * b)
  end.
Definition M (l : nat) (z : R) : R := fst (Mpair l z).

Lemma M_rec l z : M (S (S l)) z = M l z - (2 * INR l + 3) / z * M (S l) z.
Proof. unfold M. cbn [Mpair]. destruct (Mpair l z) as [a b]. reflexivity. Qed.

(* integer polynomials in u = 1/z, lowest degree first *)
Definition poly := list Z.
Fixpoint peval (p : poly) (u : R) : R := match p with [] => 0 | c :: p' => IZR c + u * peval p' u end.
Fixpoint padd (p q : poly) : poly :=
  match p, q with
  | [], _ => q | _, [] => p
  | a :: p', b :: q' => (a + b)%Z :: padd p' q'
  end.
Definition pscale (c : Z) (p : poly) : poly := map (Z.mul c) p.
Definition pshift (p : poly) : poly := 0%Z :: p.

Lemma peval_padd p q u : peval (padd p q) u = peval p u + peval q u.
Proof.
  revert q. induction p as [|a p IH]; intros [|b q]; cbn [padd peval]; try lra.
  rewrite IH, plus_IZR. lra.
Qed.
Lemma peval_pscale c p u : peval (pscale c p) u = IZR c * peval p u.
Proof. induction p as [|a p IH]; cbn [pscale map peval]; [lra|]. fold (pscale c p). rewrite IH, mult_IZR. lra. Qed.
Lemma peval_pshift p u : peval (pshift p) u = u * peval p u.
Proof. cbn. lra. Qed.

(* (A_l, B_l) and (A_{l+1}, B_{l+1}) *)
Fixpoint ABpair (l : nat) : (poly * poly) * (poly * poly) :=
  match l with
  | O => (([0; 1]%Z, [0; -1]%Z), ([0; 1; -1]%Z, [0; 1; 1]%Z))
  | S l' =>
    let '((a0, b0), (a1, b1)) := ABpair l' in
    let c := (- (2 * Z.of_nat l' + 3))%Z in
    ((a1, b1), (padd a0 (pscale c (pshift a1)), padd b0 (pscale c (pshift b1))))
  end.
Definition PA (l : nat) : poly := fst (fst (ABpair l)).
Definition PB (l : nat) : poly := snd (fst (ABpair l)).
Definition closed (l : nat) (z : R) : R := (peval (PA l) (/ z) + peval (PB l) (/ z) * exp (- 2 * z)) / 2.

Theorem M_closed_pair l z : 0 < z ->
  let '((a0, b0), (a1, b1)) := ABpair l in
  Mpair l z = ((peval a0 (/ z) + peval b0 (/ z) * exp (- 2 * z)) / 2,
               (peval a1 (/ z) + peval b1 (/ z) * exp (- 2 * z)) / 2).
Proof.
  intros Hz. induction l as [|l IH].
  - cbn [ABpair Mpair peval]. unfold M0, M1. f_equal; field; lra.
  - cbn [ABpair Mpair]. destruct (ABpair l) as [[a0 b0] [a1 b1]]. rewrite IH. f_equal.
    rewrite !peval_padd, !peval_pscale, !peval_pshift.
    rewrite opp_IZR, plus_IZR, mult_IZR, <- INR_IZR_INZ. cbn [IZR IPR IPR_2]. field. lra.
Qed.

(* the closed form IS the recurrence-defined function, for every order and every z > 0 *)
Theorem M_closed l z : 0 < z -> M l z = closed l z.
Proof.
  intros Hz. pose proof (M_closed_pair l z Hz) as H. unfold M, closed, PA, PB.
  destruct (ABpair l) as [[a0 b0] [a1 b1]]. rewrite H. reflexivity.
Qed.
