(* The Taylor coefficients of the Bessel table.  BesselFunction::tabulate fills dK[n+1][l] from dK[n][l-1], dK[n][l], dK[n][l+1] by
     dK[n+1][0] = dK[n][1] - dK[n][0],   dK[n+1][l] = C_l dK[n][l-1] + (C_l + 1/(2l+1)) dK[n][l+1] - dK[n][l],  C_l = l/(2l+1).
   Dn n l z is that rule iterated n times on the exact values M_l(z).  Theorem: Dn n l z IS the n-th derivative of M_l at z, for every
   n, every order l and every z > 0 (so the table stores, in exact arithmetic, the true Taylor coefficients). *)
From Coq Require Import Reals Lra Lia Arith List.
From Coquelicot Require Import Coquelicot.
From LV Require Import Base.NumOps Base.RInst Bessel.BesselModel Bessel.BesselSpec Bessel.BesselDeriv.
Import ListNotations.
Local Open Scope R_scope.

Definition rule (g : nat -> R) (l : nat) : R :=
  match l with
  | O => g 1%nat - g 0%nat
  | S l' => INR l / (2 * INR l + 1) * g l' + (INR l / (2 * INR l + 1) + 1 / (2 * INR l + 1)) * g (S l) - g l
  end.

Fixpoint Dn (n l : nat) (z : R) : R :=
  match n with
  | O => M l z
  | S n' => rule (fun m => Dn n' m z) l
  end.

Lemma rule_derive (g dg : nat -> R -> R) z l :
  (forall m, is_derive (g m) z (dg m z)) ->
  is_derive (fun t => rule (fun m => g m t) l) z (rule (fun m => dg m z) l).
Proof.
  intros Hg. destruct l as [|l']; unfold rule.
  - pose proof (Hg 1%nat) as D1. pose proof (Hg 0%nat) as D0. auto_derive.
    + repeat split; try exact I; eexists; eassumption.
    + change (Derive (fun x => g 1%nat x) z) with (Derive (g 1%nat) z). change (Derive (fun x => g 0%nat x) z) with (Derive (g 0%nat) z).
      rewrite (is_derive_unique _ _ _ D1), (is_derive_unique _ _ _ D0). ring.
  - pose proof (Hg l') as D1. pose proof (Hg (S (S l'))) as D2. pose proof (Hg (S l')) as D3.
    set (c1 := INR (S l') / (2 * INR (S l') + 1)). set (c2 := c1 + 1 / (2 * INR (S l') + 1)).
    auto_derive.
    + repeat split; try exact I; eexists; eassumption.
    + change (Derive (fun x => g l' x) z) with (Derive (g l') z). change (Derive (fun x => g (S (S l')) x) z) with (Derive (g (S (S l'))) z).
      change (Derive (fun x => g (S l') x) z) with (Derive (g (S l')) z).
      rewrite (is_derive_unique _ _ _ D1), (is_derive_unique _ _ _ D2), (is_derive_unique _ _ _ D3). ring.
Qed.

Lemma M_derive_rule l z : 0 < z -> is_derive (M l) z (rule (fun m => M m z) l).
Proof.
  intros Hz. destruct l as [|l'].
  - exact (M_derive_table0 z Hz).
  - pose proof (M_derive_table l' z Hz) as D. unfold rule.
    assert (0 < INR (S l')) by (apply lt_0_INR; lia).
    replace (INR (S l') / (2 * INR (S l') + 1) * M l' z + (INR (S l') / (2 * INR (S l') + 1) + 1 / (2 * INR (S l') + 1)) * M (S (S l')) z - M (S l') z)
      with ((INR (S l') * M l' z + (INR (S l') + 1) * M (S (S l')) z) / (2 * INR (S l') + 1) - M (S l') z); [exact D|].
    field. lra.
Qed.

(* every iterate is differentiable on (0, inf), with the next iterate as derivative *)
Lemma Dn_derive n : forall l z, 0 < z -> is_derive (Dn n l) z (Dn (S n) l z).
Proof.
  induction n as [|n IH]; intros l z Hz.
  - cbn [Dn]. apply is_derive_ext with (f := M l); [reflexivity|]. now apply M_derive_rule.
  - change (Dn (S n) l) with (fun t => rule (fun m => Dn n m t) l).
    change (Dn (S (S n)) l z) with (rule (fun m => Dn (S n) m z) l).
    apply (rule_derive (fun m => Dn n m) (fun m t => Dn (S n) m t)). intros m. now apply IH.
Qed.

Theorem Dn_is_nth_derivative n : forall l z, 0 < z -> Derive_n (M l) n z = Dn n l z.
Proof.
  induction n as [|n IH]; intros l z Hz; [reflexivity|].
  cbn [Derive_n].
  rewrite (Derive_ext_loc _ (Dn n l)).
  - apply is_derive_unique. now apply Dn_derive.
  - exists (mkposreal z Hz). intros t Ht. apply IH.
    unfold ball in Ht; cbn in Ht. unfold AbsRing_ball, abs, minus, plus, opp in Ht. cbn in Ht. apply Rabs_def2 in Ht. lra.
Qed.

(* the recurrence between consecutive derivative orders, as tabulate() uses it *)
Corollary derivative_table_rule n l z : 0 < z ->
  Derive_n (M l) (S n) z = rule (fun m => Derive_n (M m) n z) l.
Proof.
  intros Hz. rewrite Dn_is_nth_derivative by assumption. cbn [Dn].
  destruct l as [|l']; unfold rule; rewrite ?Dn_is_nth_derivative by assumption; reflexivity.
Qed.

(* ---- the model's table construction (BesselModel.next_deriv / node_dK over the reals) computes exactly these iterates ---- *)
Lemma ofN_INR (l : nat) : nofZ ROps (Z.of_nat l) = INR l.
Proof. cbn [nofZ ROps]. now rewrite INR_IZR_INZ. Qed.

Lemma next_deriv_nth lMax n prev l : (l <= lMax + TAYLOR_CUT - n)%nat ->
  nth l (next_deriv ROps lMax n prev) 0 = rule (fun m => nth m prev 0) l.
Proof.
  intros Hl. unfold next_deriv. destruct l as [|l'].
  - reflexivity.
  - cbn [nth].
    match goal with |- nth _ (map ?f _) _ = _ => set (ff := f) end.
    rewrite nth_indep with (d' := ff 0%nat) by (rewrite map_length, seq_length; lia).
    rewrite map_nth. rewrite seq_nth by lia. unfold ff, rule, Ccoef.
    cbn [nofZ ROps n0 n1 nmul nadd nsub ndiv]. rewrite <- !INR_IZR_INZ.
    replace (1 + l' - 1)%nat with l' by lia. replace (1 + l' + 1)%nat with (S (S l')) by lia. replace (1 + l')%nat with (S l') by lia.
    reflexivity.
Qed.

Section NodeTable.
  Variables (lMax : nat) (z : R).
  Hypothesis Hz : 0 < z.
  Definition good (n : nat) (lst : list R) : Prop := forall l, (l <= lMax + TAYLOR_CUT - n)%nat -> nth l lst 0 = Dn n l z.

  Lemma good_step n prev : (S n <= TAYLOR_CUT)%nat -> good n prev -> good (S n) (next_deriv ROps lMax (S n) prev).
  Proof.
    intros Hn G l Hl. rewrite next_deriv_nth by exact Hl. cbn [Dn]. unfold good, TAYLOR_CUT in *.
    destruct l as [|l']; unfold rule.
    - rewrite !G by lia. reflexivity.
    - rewrite !G by lia. reflexivity.
  Qed.

  (* node_dK on the exact node values M_0(z), ..., M_{lMax+5}(z): row n, entry l is the n-th derivative of M_l at z *)
  Theorem node_dK_is_taylor (Ks : list R) :
    (forall l, (l <= lMax + TAYLOR_CUT)%nat -> nth l Ks 0 = M l z) ->
    forall n l, (n <= TAYLOR_CUT)%nat -> (l <= lMax + TAYLOR_CUT - n)%nat ->
    nth l (nth n (node_dK ROps lMax Ks) []) 0 = Derive_n (M l) n z.
  Proof.
    intros HK n l Hn Hl. rewrite Dn_is_nth_derivative by exact Hz.
    assert (good 0 Ks) as G0 by (intros m Hm; rewrite HK by lia; reflexivity).
    assert (forall k, (k < 5)%nat -> (S k <= TAYLOR_CUT)%nat) as T5 by (intros k Hk; unfold TAYLOR_CUT; lia).
    pose proof (good_step _ _ (T5 0%nat ltac:(lia)) G0) as G1. pose proof (good_step _ _ (T5 1%nat ltac:(lia)) G1) as G2.
    pose proof (good_step _ _ (T5 2%nat ltac:(lia)) G2) as G3. pose proof (good_step _ _ (T5 3%nat ltac:(lia)) G3) as G4.
    pose proof (good_step _ _ (T5 4%nat ltac:(lia)) G4) as G5.
    unfold node_dK, TAYLOR_CUT in *. cbn [seq fold_left fst app].
    do 6 (destruct n as [|n]; [cbn [nth]; first [apply G0 | apply G1 | apply G2 | apply G3 | apply G4 | apply G5]; exact Hl|]). lia.
  Qed.
End NodeTable.
