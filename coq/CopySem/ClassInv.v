(* Inventory rule for the copy semantics of EVERY class of the library (T-copy reads the fields and which copy operations
   are user-declared from clang's AST on every run; the types are tokenised into `ty`).

   A member is *aliasing* when a member-wise copy of it makes two objects share storage: raw pointers, references,
   shared_ptr, and sequences / maps / arrays of those.  A class whose copy constructor or copy assignment is the implicit
   (member-wise) one must have no aliasing member: otherwise that copy path yields an object that shares storage with its
   source.  A class with aliasing members needs BOTH operations user-provided (what they do is then examined member by
   member by the obligations over shell_sem / path_complete).  The single exemption is the integrator's engine: a
   shared_ptr to an object that no public path mutates after init() (documented design: copies of an integrator share
   one immutable engine). *)
From Coq Require Import List String Bool.
Import ListNotations.
Local Open Scope string_scope.

Inductive ty :=
| TArith                       (* bool, integers, floating point, enums *)
| TNamed (n : string)          (* a class of the library, held by value *)
| TStd (n : string)            (* a std value type without template arguments that matter: std::string *)
| TPtr (t : ty) | TRef (t : ty) | TShared (t : ty)
| TUnique (t : ty)
| TSeq (t : ty)                (* vector, array, C array, list, deque *)
| TMap (k v : ty)
| TOther (s : string).         (* not recognised by the tokeniser *)

Record cls := mkCls { cname : string; cfields : list (string * ty); user_cctor : bool; user_cassign : bool }.

Fixpoint aliasing (t : ty) : bool :=
  match t with
  | TArith | TNamed _ | TStd _ => false
  | TPtr _ | TRef _ | TShared _ => true
  | TUnique _ => false           (* not implicitly copyable at all *)
  | TSeq t' => aliasing t'
  | TMap k v => aliasing k || aliasing v
  | TOther _ => true             (* unknown: conservatively aliasing *)
  end.

Definition exempt (c f : string) : bool := (String.eqb c "ECPIntegrator" && String.eqb f "ecpint").

Definition cls_ok (c : cls) : bool :=
  let bad := filter (fun ft => aliasing (snd ft) && negb (exempt (cname c) (fst ft))) (cfields c) in
  match bad with
  | [] => true
  | _ => user_cctor c && user_cassign c
  end.
(* the offending (class, member) pairs, for the replay *)
Definition offenders (cs : list cls) : list (string * string) :=
  flat_map (fun c => if cls_ok c then [] else
                       map (fun ft => (cname c, fst ft)) (filter (fun ft => aliasing (snd ft) && negb (exempt (cname c) (fst ft))) (cfields c))) cs.

(* every by-value member class is itself in the inventory (so the rule reaches it) *)
Fixpoint named_in (t : ty) : list string :=
  match t with
  | TNamed n => [n]
  | TPtr t' | TRef t' | TShared t' | TUnique t' | TSeq t' => named_in t'
  | TMap k v => named_in k ++ named_in v
  | _ => []
  end.
Definition closed_inventory (cs : list cls) : bool :=
  forallb (fun c => forallb (fun ft => forallb (fun n => existsb (fun c' => String.eqb (cname c') n) cs) (named_in (snd ft))) (cfields c)) cs.

Definition inventory_ok (cs : list cls) : bool := forallb cls_ok cs && closed_inventory cs.

(* A member-wise copy of an object without aliasing members shares no storage with its source: in the abstract store
   model below an object is a list of member values, a member value is either plain data or an address; copying plain data
   duplicates it.  (The statement is the obvious one; it is what `cls_ok` stands for.) *)
Inductive mval := Data (d : nat) | Addr (a : nat).
Definition mval_of (t : ty) (d : nat) : mval := if aliasing t then Addr d else Data d.
Definition shares (o1 o2 : list mval) : Prop := exists a, In (Addr a) o1 /\ In (Addr a) o2.
Lemma memberwise_copy_independent (c : cls) (vals : list nat) :
  (forall ft, In ft (cfields c) -> aliasing (snd ft) = false) ->
  let obj := map (fun p => mval_of (snd (fst p)) (snd p)) (combine (cfields c) vals) in
  ~ shares obj obj.
Proof.
  intros H obj [a [Ha _]]. unfold obj in Ha. apply in_map_iff in Ha. destruct Ha as [[[f t] d] [E I]].
  cbn [fst snd] in E. unfold mval_of in E.
  assert (In (f, t) (cfields c)) as I2 by (apply in_combine_l in I; exact I).
  pose proof (H _ I2) as H2. cbn [snd] in H2. rewrite H2 in E. discriminate.
Qed.
