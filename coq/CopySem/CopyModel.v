(* Model of the value semantics of GaussianShell (include/libecpint/gshell.hpp):
   objects with identities in a store, the centre pointer as an abstract
   pointer (external cell / local array of object j), and the three copy paths
   (copy constructor, copy assignment, copy()) INTERPRETED FROM A DESCRIPTION
   that translators/t_copy.py reads from clang's AST on every crun.
   Plus the generic "field-wise copy" model used for ECP, GaussianECP and the
   multi-index arrays.  No proofs here. *)
From Coq Require Import List Arith ZArith PeanoNat Bool.
Import ListNotations.

(* ------------------------------------------------------------------ *)
(* generic value classes: a copy path copies a number of elements of each field *)
(* ------------------------------------------------------------------ *)
Record fdesc := mkF { f_size : nat; f_copied : nat }.       (* size of the member (1 = scalar), elements the path copies *)
Definition path_complete (p : list fdesc) : bool := forallb (fun f => f_size f <=? f_copied f) p.
(* an object: per field the list of element values (None = indeterminate) *)
Definition gobj := list (list (option Z)).
Definition copy_field (f : fdesc) (src : list (option Z)) : list (option Z) :=
  firstn (f_copied f) src ++ repeat None (length src - f_copied f).
Definition gcopy (p : list fdesc) (src : gobj) : gobj := map (fun fs => copy_field (fst fs) (snd fs)) (combine p src).

(* ------------------------------------------------------------------ *)
(* GaussianShell                                                        *)
(* ------------------------------------------------------------------ *)
Inductive ptr := Ext (a : nat) | Loc (id : nat).

Record shell := mkShell {
  exps : list Z; coeffs : list Z;
  cvec : option ptr;            (* centerVec *)
  lptr : option bool;           (* local_ptr *)
  lcenter : option Z;           (* localCenter (one abstract value for the three doubles) *)
  minexp : option Z; am : option Z; atom : option Z }.

(* which members a copy path writes, and whether it re-seats the pointer at the
   destination's own local array when the source is local *)
Record cpath := mkPath {
  c_exps : bool; c_coeffs : bool; c_cvec : bool; c_lptr : bool; c_lcenter : bool;
  c_minexp : bool; c_am : bool; c_atom : bool; c_reseat : bool }.

Definition implicit_path : cpath := mkPath true true true true true true true true false.
Definition path_ok (p : cpath) : bool :=
  c_exps p && c_coeffs p && c_cvec p && c_lptr p && c_lcenter p && c_minexp p && c_am p && c_atom p && c_reseat p.

Record sem := mkSem { s_ctor : cpath; s_assign : cpath; s_copym : cpath }.
Definition sem_ok (s : sem) : bool := path_ok (s_ctor s) && path_ok (s_assign s) && path_ok (s_copym s).

Definition pick {A} (b : bool) (new old : A) : A := if b then new else old.

(* write `src` over `dst` (whose identity is `self`) along path p *)
Definition apply_path (p : cpath) (self : nat) (dst src : shell) : shell :=
  let cv := pick (c_cvec p) (cvec src) (cvec dst) in
  let lp := pick (c_lptr p) (lptr src) (lptr dst) in
  let cv' := match lp with
             | Some true => if c_reseat p then Some (Loc self) else cv
             | _ => cv
             end in
  mkShell (pick (c_exps p) (exps src) (exps dst)) (pick (c_coeffs p) (coeffs src) (coeffs dst))
          cv' lp (pick (c_lcenter p) (lcenter src) (lcenter dst))
          (pick (c_minexp p) (minexp src) (minexp dst)) (pick (c_am p) (am src) (am dst))
          (pick (c_atom p) (atom src) (atom dst)).

Definition blank : shell := mkShell [] [] None None None None None None.

Record cstate := mkSt { objs : nat -> option shell; next : nat; ext : nat -> Z }.
Definition cinit : cstate := mkSt (fun _ => None) 0 (fun _ => 0%Z).
Definition upd {A} (f : nat -> A) (i : nat) (v : A) : nat -> A := fun j => if j =? i then v else f j.

Inductive cop :=
| OCtorExt (a : nat) (l : Z)
| OCtorLoc (c : Z) (l : Z)
| OCopy (src : nat)
| OAssign (dst src : nat)
| OCopyM (src : nat)
| ODestroy (x : nat)
| OSetLocal (x : nat) (c : Z)
| OSetExt (a : nat) (c : Z)
| OSetAtom (x : nat) (z : Z)
| OAddPrim (x : nat) (e c : Z).

Section Step.
  Variable sm : sem.
  Definition alloc (s : cstate) (v : shell) : cstate := mkSt (upd (objs s) (next s) (Some v)) (S (next s)) (ext s).

  Definition cstep (s : cstate) (o : cop) : cstate :=
    match o with
    | OCtorExt a l => alloc s (mkShell [] [] (Some (Ext a)) (Some false) None (Some 100%Z) (Some l) None)
    | OCtorLoc c l => alloc s (mkShell [] [] (Some (Loc (next s))) (Some true) (Some c) (Some 100%Z) (Some l) None)
    | OCopy src =>
      match objs s src with
      | Some v => alloc s (apply_path (s_ctor sm) (next s) blank v)
      | None => s
      end
    | OAssign dst src =>
      match objs s dst, objs s src with
      | Some d, Some v => mkSt (upd (objs s) dst (Some (apply_path (s_assign sm) dst d v))) (next s) (ext s)
      | _, _ => s
      end
    | OCopyM src =>
      match objs s src with
      | Some v =>
        (* copy(): `GaussianShell result(centerVec, l)` (the members the description lists as
           constructor arguments), then the member writes on `result` *)
        let p := s_copym sm in
        let r0 := mkShell [] [] (pick (c_cvec p) (cvec v) None) (Some false) None (Some 100%Z) (pick (c_am p) (am v) None) None in
        alloc s (apply_path (mkPath (c_exps p) (c_coeffs p) false (c_lptr p) (c_lcenter p) (c_minexp p) false (c_atom p) (c_reseat p))
                            (next s) r0 v)
      | None => s
      end
    | ODestroy x => mkSt (upd (objs s) x None) (next s) (ext s)
    | OSetLocal x c =>
      match objs s x with
      | Some v => mkSt (upd (objs s) x (Some (mkShell (exps v) (coeffs v) (cvec v) (lptr v) (Some c) (minexp v) (am v) (atom v)))) (next s) (ext s)
      | None => s
      end
    | OSetExt a c => mkSt (objs s) (next s) (upd (ext s) a c)
    | OSetAtom x z =>
      match objs s x with
      | Some v => mkSt (upd (objs s) x (Some (mkShell (exps v) (coeffs v) (cvec v) (lptr v) (lcenter v) (minexp v) (am v) (Some z)))) (next s) (ext s)
      | None => s
      end
    | OAddPrim x e c =>
      match objs s x with
      | Some v => mkSt (upd (objs s) x (Some (mkShell (exps v ++ [e]) (coeffs v ++ [c]) (cvec v) (lptr v) (lcenter v)
                                                    (match minexp v with Some m => Some (Z.min e m) | None => None end) (am v) (atom v)))) (next s) (ext s)
      | None => s
      end
    end.
  Definition crun (h : list cop) : cstate := fold_left cstep h cinit.
End Step.

(* ---- observation ---- *)
Inductive centre_obs := CVal (z : Z) | CIndet | CDangling | CNoPtr.
Definition centre_of (s : cstate) (v : shell) : centre_obs :=
  match cvec v with
  | None => CNoPtr
  | Some (Ext a) => CVal (ext s a)
  | Some (Loc j) => match objs s j with
                    | Some w => match lcenter w with Some z => CVal z | None => CIndet end
                    | None => CDangling
                    end
  end.
Record obs := mkObs { o_exps : list Z; o_coeffs : list Z; o_centre : centre_obs; o_minexp : option Z; o_am : option Z; o_atom : option Z }.
Definition observe (s : cstate) (v : shell) : obs :=
  mkObs (exps v) (coeffs v) (centre_of s v) (minexp v) (am v) (atom v).
Definition obs_of (s : cstate) (x : nat) : option obs := option_map (observe s) (objs s x).

(* pointer classification the driver checks by ADDRESS comparison (no dereference) *)
Inductive pclass := PSelf | PExt (a : nat) | POther (j : nat) | PDangling (j : nat) | PNone.
Definition pclass_of (s : cstate) (x : nat) (v : shell) : pclass :=
  match cvec v with
  | None => PNone
  | Some (Ext a) => PExt a
  | Some (Loc j) => if j =? x then PSelf else match objs s j with Some _ => POther j | None => PDangling j end
  end.

(* the invariant as a boolean over the allocated identities *)
Definition inv_obj (x : nat) (v : shell) : bool :=
  match lptr v, cvec v with
  | Some true, Some (Loc j) => j =? x
  | Some true, _ => false
  | Some false, Some (Ext _) => true
  | _, _ => false
  end.
Definition invb (s : cstate) : bool :=
  forallb (fun x => match objs s x with Some v => inv_obj x v | None => true end) (seq 0 (next s)).

(* does the newest / assigned object carry every attribute of its source (decidable check used by the witness search) *)
Definition obs_eqb (a b : obs) : bool :=
  let zl := fun (x y : list Z) => if list_eq_dec Z.eq_dec x y then true else false in
  let oz := fun (x y : option Z) => match x, y with Some p, Some q => Z.eqb p q | None, None => false | _, _ => false end in
  zl (o_exps a) (o_exps b) && zl (o_coeffs a) (o_coeffs b) &&
  (match o_centre a, o_centre b with CVal p, CVal q => Z.eqb p q | _, _ => false end) &&
  oz (o_minexp a) (o_minexp b) && oz (o_am a) (o_am b) &&
  (* the atom index must be carried when the source has one; an unset source imposes nothing *)
  (match o_atom b with Some q => match o_atom a with Some p => Z.eqb p q | None => false end | None => true end).
