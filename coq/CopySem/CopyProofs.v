From Coq Require Import List Arith ZArith PeanoNat Bool Lia.
From LV Require Import CopySem.CopyModel.
Import ListNotations.

Definition full_path : cpath := mkPath true true true true true true true true true.

Lemma path_ok_full p : path_ok p = true -> p = full_path.
Proof.
  destruct p as [a b c d e f g h i]. unfold path_ok. cbn.
  destruct a, b, c, d, e, f, g, h, i; cbn; intros H; try discriminate; reflexivity.
Qed.

Lemma sem_ok_full sm : sem_ok sm = true -> sm = mkSem full_path full_path full_path.
Proof.
  destruct sm as [a b c]. unfold sem_ok. cbn. intros H.
  apply andb_prop in H. destruct H as [H H3]. apply andb_prop in H. destruct H as [H1 H2].
  now rewrite (path_ok_full _ H1), (path_ok_full _ H2), (path_ok_full _ H3).
Qed.

Definition Inv (s : cstate) : Prop := forall x v, objs s x = Some v -> inv_obj x v = true.
Definition wf (s : cstate) : Prop := forall x, next s <= x -> objs s x = None.

Lemma upd_same {A} (f : nat -> A) i v : upd f i v i = v.
Proof. unfold upd. now rewrite Nat.eqb_refl. Qed.
Lemma upd_other {A} (f : nat -> A) i j v : j <> i -> upd f i v j = f j.
Proof. unfold upd. intros H. destruct (Nat.eqb_spec j i); [contradiction|reflexivity]. Qed.

Lemma inv_obj_cases x v : inv_obj x v = true ->
  (lptr v = Some true /\ cvec v = Some (Loc x)) \/ (lptr v = Some false /\ exists a, cvec v = Some (Ext a)).
Proof.
  unfold inv_obj. destruct (lptr v) as [[|]|], (cvec v) as [[a|j]|]; intros H; try discriminate.
  - left. apply Nat.eqb_eq in H. subst. auto.
  - right. eauto.
Qed.

Lemma inv_obj_irrel x v w : lptr w = lptr v -> cvec w = cvec v -> inv_obj x w = inv_obj x v.
Proof. unfold inv_obj. intros -> ->. reflexivity. Qed.

Section Full.
  Let sm := mkSem full_path full_path full_path.

  (* the object a full path produces at identity `self` from source v *)
  Definition copied (self : nat) (v : shell) : shell :=
    mkShell (exps v) (coeffs v)
            (match lptr v with Some true => Some (Loc self) | _ => cvec v end)
            (lptr v) (lcenter v) (minexp v) (am v) (atom v).

  Lemma apply_full self dst v : apply_path full_path self dst v = copied self v.
  Proof. reflexivity. Qed.

  Lemma copied_inv x y v : inv_obj x v = true -> inv_obj y (copied y v) = true.
  Proof.
    intros H. destruct (inv_obj_cases _ _ H) as [[Hl Hc]|[Hl [a Hc]]]; unfold inv_obj, copied; cbn; rewrite Hl.
    - apply Nat.eqb_refl.
    - now rewrite Hc.
  Qed.

  (* T1: the invariant is preserved by every operation *)
  Theorem step_inv s o : wf s -> Inv s -> wf (cstep sm s o) /\ Inv (cstep sm s o).
  Proof.
    intros Hwf Hinv.
    assert (Halloc : forall v, inv_obj (next s) v = true -> wf (alloc s v) /\ Inv (alloc s v)).
    { intros v Hv. split.
      - intros x Hx. cbn in *. rewrite upd_other by lia. apply Hwf. lia.
      - intros x w Hw. cbn in Hw. destruct (Nat.eq_dec x (next s)) as [->|Hne].
        + rewrite upd_same in Hw. inversion Hw; subst. exact Hv.
        + rewrite upd_other in Hw by exact Hne. now apply Hinv. }
    assert (Hset : forall x w, (forall v, objs s x = Some v -> inv_obj x w = true) -> objs s x <> None ->
                               wf (mkSt (upd (objs s) x (Some w)) (next s) (ext s)) /\ Inv (mkSt (upd (objs s) x (Some w)) (next s) (ext s))).
    { intros x w Hw Hlive. split.
      - intros y Hy. cbn in *. destruct (Nat.eq_dec y x) as [->|Hne].
        + exfalso. apply Hlive. now apply Hwf.
        + rewrite upd_other by exact Hne. now apply Hwf.
      - intros y u Hu. cbn in Hu. destruct (Nat.eq_dec y x) as [->|Hne].
        + rewrite upd_same in Hu. inversion Hu; subst. destruct (objs s x) eqn:E; [|contradiction]. eapply Hw; reflexivity.
        + rewrite upd_other in Hu by exact Hne. now apply Hinv. }
    destruct o; cbn [cstep].
    - apply Halloc. reflexivity.
    - apply Halloc. cbn. apply Nat.eqb_refl.
    - destruct (objs s src) as [v|] eqn:E; [|now split]. cbn [s_ctor sm]. rewrite apply_full.
      apply Halloc. eapply copied_inv. eapply Hinv; eassumption.
    - destruct (objs s dst) as [d|] eqn:Ed; [|now split]. destruct (objs s src) as [v|] eqn:Es; [|now split].
      cbn [s_assign sm]. rewrite apply_full. apply Hset; [|congruence].
      intros _ _. eapply copied_inv. eapply Hinv; eassumption.
    - destruct (objs s src) as [v|] eqn:E; [|now split]. cbn [s_copym sm full_path c_exps c_coeffs c_lptr c_lcenter c_minexp c_atom c_reseat].
      apply Halloc. pose proof (Hinv _ _ E) as Hv.
      destruct (inv_obj_cases _ _ Hv) as [[Hl Hc]|[Hl [a Hc]]]; unfold apply_path, inv_obj, pick; cbn; rewrite Hl; cbn.
      + apply Nat.eqb_refl.
      + now rewrite Hc.
    - split.
      + intros y Hy. cbn. unfold upd. destruct (y =? x); [reflexivity|now apply Hwf].
      + intros y u Hu. cbn in Hu. unfold upd in Hu. destruct (y =? x); [discriminate|now apply Hinv].
    - destruct (objs s x) as [v|] eqn:E; [|now split]. apply Hset; [|congruence].
      intros v' Hv'. rewrite E in Hv'. inversion Hv'; subst v'. erewrite inv_obj_irrel; [eapply Hinv; eassumption|reflexivity|reflexivity].
    - split; [exact Hwf|exact Hinv].
    - destruct (objs s x) as [v|] eqn:E; [|now split]. apply Hset; [|congruence].
      intros v' Hv'. rewrite E in Hv'. inversion Hv'; subst v'. erewrite inv_obj_irrel; [eapply Hinv; eassumption|reflexivity|reflexivity].
    - destruct (objs s x) as [v|] eqn:E; [|now split]. apply Hset; [|congruence].
      intros v' Hv'. rewrite E in Hv'. inversion Hv'; subst v'. erewrite inv_obj_irrel; [eapply Hinv; eassumption|reflexivity|reflexivity].
  Qed.

  Theorem run_inv h : wf (crun sm h) /\ Inv (crun sm h).
  Proof.
    unfold crun. assert (H0 : wf cinit /\ Inv cinit).
    { split; [intros x _; reflexivity|intros x v H; discriminate H]. }
    revert H0. generalize cinit. induction h as [|o h IH]; intros s [Hw Hi]; cbn [fold_left]; [now split|].
    apply IH. now apply step_inv.
  Qed.

  (* the centre a live object observes, under the invariant, depends only on the object itself and
     on external memory *)
  Lemma centre_own s x v : Inv s -> objs s x = Some v ->
    centre_of s v = match cvec v with
                    | Some (Ext a) => CVal (ext s a)
                    | _ => match lcenter v with Some z => CVal z | None => CIndet end
                    end.
  Proof.
    intros Hinv E. pose proof (Hinv _ _ E) as Hv.
    destruct (inv_obj_cases _ _ Hv) as [[Hl Hc]|[Hl [a Hc]]]; unfold centre_of; rewrite Hc; [|reflexivity].
    now rewrite E.
  Qed.

  (* T2: a copy carries every attribute of its source (all three paths) *)
  Theorem copy_fidelity s src v : wf s -> Inv s -> objs s src = Some v ->
    obs_of (cstep sm s (OCopy src)) (next s) = obs_of (cstep sm s (OCopy src)) src /\
    obs_of (cstep sm s (OCopyM src)) (next s) = obs_of (cstep sm s (OCopyM src)) src /\
    forall dst, objs s dst <> None ->
      obs_of (cstep sm s (OAssign dst src)) dst = obs_of (cstep sm s (OAssign dst src)) src.
  Proof.
    intros Hwf Hinv E.
    assert (Hsrc : src < next s).
    { destruct (Nat.lt_ge_cases src (next s)); [assumption|]. rewrite Hwf in E by assumption. discriminate. }
    pose proof (Hinv _ _ E) as Hv.
    repeat split.
    - destruct (step_inv s (OCopy src) Hwf Hinv) as [Hw' Hi'].
      cbn [cstep] in *. rewrite E in *. cbn [s_ctor sm] in *. rewrite apply_full in *.
      unfold obs_of. cbn [alloc objs]. rewrite upd_same, upd_other by lia. rewrite E. cbn [option_map]. f_equal.
      unfold observe. f_equal.
      rewrite (centre_own _ (next s) _ Hi') by (cbn; now rewrite upd_same).
      rewrite (centre_own _ src _ Hi') by (cbn; rewrite upd_other by lia; exact E).
      destruct (inv_obj_cases _ _ Hv) as [[Hl Hc]|[Hl [a Hc]]]; cbn; rewrite Hl, Hc; reflexivity.
    - destruct (step_inv s (OCopyM src) Hwf Hinv) as [Hw' Hi'].
      cbn [cstep] in *. rewrite E in *.
      unfold obs_of. cbn [alloc objs]. rewrite upd_same, upd_other by lia. rewrite E. cbn [option_map]. f_equal.
      unfold observe.
      match goal with |- context [centre_of ?st ?w] => 
        rewrite (centre_own st (next s) w Hi') by (cbn; now rewrite upd_same) end.
      rewrite (centre_own _ src _ Hi') by (cbn; rewrite upd_other by lia; exact E).
      destruct (inv_obj_cases _ _ Hv) as [[Hl Hc]|[Hl [a Hc]]]; cbn; rewrite Hl, ?Hc; cbn; rewrite ?Hc; reflexivity.
    - intros dst Hd. destruct (objs s dst) as [d|] eqn:Ed; [|contradiction].
      destruct (step_inv s (OAssign dst src) Hwf Hinv) as [Hw' Hi'].
      cbn [cstep] in *. rewrite Ed, E in *. cbn [s_assign sm] in *. rewrite apply_full in *.
      unfold obs_of. cbn [objs]. rewrite upd_same.
      destruct (Nat.eq_dec src dst) as [->|Hne].
      + rewrite upd_same. reflexivity.
      + rewrite upd_other by exact Hne. rewrite E. cbn [option_map]. f_equal. unfold observe. f_equal.
        rewrite (centre_own _ dst _ Hi') by (cbn; now rewrite upd_same).
        rewrite (centre_own _ src _ Hi') by (cbn; rewrite upd_other by exact Hne; exact E).
        destruct (inv_obj_cases _ _ Hv) as [[Hl Hc]|[Hl [a Hc]]]; cbn; rewrite Hl, Hc; reflexivity.
  Qed.

  (* which object an operation writes *)
  Definition target (o : cop) : option nat :=
    match o with
    | OAssign d _ => Some d | ODestroy x => Some x | OSetLocal x _ => Some x
    | OSetAtom x _ => Some x | OAddPrim x _ _ => Some x | _ => None
    end.

  (* T3: changing, overwriting or destroying one object leaves every other live object's
     observable attributes unchanged; so does creating new objects. *)
  Theorem independence s o y : wf s -> Inv s -> (forall a c, o <> OSetExt a c) ->
    objs s y <> None -> target o <> Some y ->
    obs_of (cstep sm s o) y = obs_of s y.
  Proof.
    intros Hwf Hinv Hnoext Hy Ht.
    destruct (objs s y) as [vy|] eqn:Ey; [|contradiction].
    assert (Hylt : y < next s).
    { destruct (Nat.lt_ge_cases y (next s)); [assumption|]. rewrite Hwf in Ey by assumption. discriminate. }
    destruct (step_inv s o Hwf Hinv) as [Hw' Hi'].
    assert (Hkeep : objs (cstep sm s o) y = Some vy /\ ext (cstep sm s o) = ext s).
    { destruct o; cbn [cstep target] in *;
        repeat match goal with |- context [match objs s ?z with _ => _ end] => destruct (objs s z) eqn:? end;
        cbn [alloc objs ext]; try (split; [|reflexivity]); try assumption;
        try (rewrite upd_other by lia; assumption);
        try (rewrite upd_other by congruence; assumption).
      exfalso. eapply Hnoext. reflexivity. }
    destruct Hkeep as [Hk He].
    unfold obs_of. rewrite Hk, Ey. cbn [option_map]. f_equal. unfold observe. f_equal.
    rewrite (centre_own _ y _ Hi' Hk), (centre_own _ y _ Hinv Ey), He. reflexivity.
  Qed.
End Full.

(* ---- refutations for the semantics of the unrepaired header ---- *)
Definition upstream_ctor : cpath := mkPath true true true true true true true false true.   (* atom_id omitted *)
Definition upstream_copym : cpath := mkPath true true true true true true true false true.
Definition upstream : sem := mkSem upstream_ctor implicit_path upstream_copym.

(* implicit member-wise assignment: the destination's pointer aliases the source's local array,
   so moving the source moves the "independent" copy *)
Theorem assign_refuted :
  let h := [OCtorLoc 1 0; OCtorLoc 2 0; OAssign 0 1]%Z in
  let s := crun upstream h in
  invb s = false /\
  obs_of (cstep upstream s (OSetLocal 1 7%Z)) 0 <> obs_of s 0 /\
  (exists v, objs (cstep upstream s (ODestroy 1)) 0 = Some v /\ centre_of (cstep upstream s (ODestroy 1)) v = CDangling).
Proof.
  cbn zeta. split; [vm_compute; reflexivity|]. split.
  - vm_compute. intros H. discriminate H.
  - eexists. split; vm_compute; reflexivity.
Qed.

(* the copy constructor omits the atom index: a copy of an initialised shell has none *)
Theorem atomid_refuted :
  let s := crun upstream [OCtorLoc 1 0; OSetAtom 0 3; OCopy 0; OCopyM 0]%Z in
  option_map o_atom (obs_of s 0) = Some (Some 3%Z) /\
  option_map o_atom (obs_of s 1) = Some None /\ option_map o_atom (obs_of s 2) = Some None.
Proof. vm_compute. repeat split. Qed.

(* ---- generic value classes ---- *)
Lemma copy_field_complete f src : length src <= f_copied f -> copy_field f src = src.
Proof.
  intros H. unfold copy_field. rewrite firstn_all2 by exact H.
  replace (length src - f_copied f) with 0 by lia. cbn. apply app_nil_r.
Qed.

Theorem gcopy_complete p src : path_complete p = true ->
  length p = length src -> Forall2 (fun f fs => length fs = f_size f) p src ->
  gcopy p src = src.
Proof.
  unfold gcopy, path_complete. revert src. induction p as [|f p IH]; intros [|fs src] Hc Hl HF; cbn in *; try reflexivity; try discriminate.
  inversion HF; subst. apply andb_prop in Hc. destruct Hc as [Hf Hp].
  rewrite copy_field_complete by (apply Nat.leb_le in Hf; lia).
  f_equal. apply IH; auto.
Qed.
