(* Mixed second derivatives (C03): the entries mixed_second_derivative computes are the contraction, over BOTH
   shells, of the formal first-derivative rule applied once on each side,
       d/dA_p d/dB_q <g_A(tA) | U | g_B(tB)>  =  B2 (D1 a p tA) (D1 b q tB),
   for every LA, LB (including the dummy Q_mm/Q_mp/Q_pm blocks of s shells), every entry and all nine (p,q). *)
From Coq Require Import List Arith ZArith PeanoNat Bool Lia Reals Lra.
From LV Require Import Base.NumOps Base.Cart Base.RInst Deriv.DerivModel Deriv.DerivProofs.
From LV Require Import Deriv.DerivSecond.
Import ListNotations.
Local Open Scope R_scope.

Lemma plus_idx_pos p t : (p < 3)%nat -> let '(k, l, m) := t in lsd_plus_idx p l m = pos (up p t).
Proof. destruct t as [[k l] m]. intros Hp. destruct p as [|[|[|p]]]; try lia; cbn [lsd_plus_idx up pos]; first [reflexivity | f_equal; lia]. Qed.

Lemma minus_idx_pos p t L : (p < 3)%nat -> deg t = L -> (0 < comp p t)%nat ->
  let '(k, l, m) := t in mix_m_idx (ncart (L - 1)) p l m = pos (down p t).
Proof.
  destruct t as [[k l] m]. intros Hp Hd Hc. cbn [deg comp comp3] in *.
  destruct p as [|[|[|p]]]; try lia; cbn [mix_m_idx down pos comp3] in *; unfold idx_or0.
  - pose proof (nindex_lt (L - 1) l m). lia.
  - replace (0 <? l)%nat with true by (symmetry; apply Nat.ltb_lt; lia). reflexivity.
  - replace (0 <? m)%nat with true by (symmetry; apply Nat.ltb_lt; lia). reflexivity.
Qed.

Lemma Rsum_lin4 {A} (f1 f2 f3 f4 : A -> R) x1 x2 x3 x4 l :
  Rsum (map (fun a => x1 * f1 a - x2 * f2 a - x3 * f3 a + x4 * f4 a) l)
  = x1 * Rsum (map f1 l) - x2 * Rsum (map f2 l) - x3 * Rsum (map f3 l) + x4 * Rsum (map f4 l).
Proof. unfold Rsum. induction l as [|x l IH]; cbn [map fold_right]; [ring|]. rewrite IH. ring. Qed.

Section Mixed.
  Variables primsA primsB : list (R * R).
  (* the bilinear functional on a pair of primitives: exponents a, b and monomials tA, tB *)
  Variable B2 : R -> R -> triple -> triple -> R.

  Definition BB2 (pa pb : nat) (tA tB : triple) : R :=
    Rsum (map (fun ca => Rsum (map (fun cb =>
      fst ca * snd ca ^ pa * (fst cb * snd cb ^ pb) * B2 (snd ca) (snd cb) tA tB) primsB)) primsA).
  (* what compute_shell_pair returns for (shellA or tempA, shellB or tempB) at shifted angular momenta *)
  Definition block2 (pa pb LA LB : nat) : blk R := fun i j => BB2 pa pb (klm_at LA i) (klm_at LB j).
  Definition eval2 (a b : R) (lA lB : lincomb) : R :=
    Rsum (map (fun wa => Rsum (map (fun wb => fst wa * fst wb * B2 a b (snd wa) (snd wb)) lB)) lA).

  Lemma block2_BB pa pb LA LB i j tA tB : deg tA = LA -> deg tB = LB -> i = pos tA -> j = pos tB ->
    block2 pa pb LA LB i j = BB2 pa pb tA tB.
  Proof. intros <- <- -> ->. unfold block2. now rewrite !klm_at_pos. Qed.

  Lemma inner_DD (c a : R) p q tA tB :
    Rsum (map (fun cb => c * fst cb * eval2 a (snd cb) (D1 a p tA) (D1 (snd cb) q tB)) primsB)
    = INR (comp p tA) * INR (comp q tB) * Rsum (map (fun cb => c * a ^ 0 * (fst cb * snd cb ^ 0) * B2 a (snd cb) (down p tA) (down q tB)) primsB)
      - 2 * INR (comp q tB) * Rsum (map (fun cb => c * a ^ 1 * (fst cb * snd cb ^ 0) * B2 a (snd cb) (up p tA) (down q tB)) primsB)
      - 2 * INR (comp p tA) * Rsum (map (fun cb => c * a ^ 0 * (fst cb * snd cb ^ 1) * B2 a (snd cb) (down p tA) (up q tB)) primsB)
      + 4 * Rsum (map (fun cb => c * a ^ 1 * (fst cb * snd cb ^ 1) * B2 a (snd cb) (up p tA) (up q tB)) primsB).
  Proof.
    unfold Rsum. induction primsB as [|[d b] ps IH]; cbn [map fold_right fst snd]; [ring|].
    rewrite IH. unfold eval2, D1, Rsum. cbn [map fold_right fst snd]. ring.
  Qed.

  Lemma contracted_DD2 p q tA tB :
    Rsum (map (fun ca => Rsum (map (fun cb =>
      fst ca * fst cb * eval2 (snd ca) (snd cb) (D1 (snd ca) p tA) (D1 (snd cb) q tB)) primsB)) primsA)
    = INR (comp p tA) * INR (comp q tB) * BB2 0 0 (down p tA) (down q tB)
      - 2 * INR (comp q tB) * BB2 1 0 (up p tA) (down q tB)
      - 2 * INR (comp p tA) * BB2 0 1 (down p tA) (up q tB)
      + 4 * BB2 1 1 (up p tA) (up q tB).
  Proof.
    unfold BB2.
    rewrite <- (Rsum_lin4
      (fun ca => Rsum (map (fun cb => fst ca * snd ca ^ 0 * (fst cb * snd cb ^ 0) * B2 (snd ca) (snd cb) (down p tA) (down q tB)) primsB))
      (fun ca => Rsum (map (fun cb => fst ca * snd ca ^ 1 * (fst cb * snd cb ^ 0) * B2 (snd ca) (snd cb) (up p tA) (down q tB)) primsB))
      (fun ca => Rsum (map (fun cb => fst ca * snd ca ^ 0 * (fst cb * snd cb ^ 1) * B2 (snd ca) (snd cb) (down p tA) (up q tB)) primsB))
      (fun ca => Rsum (map (fun cb => fst ca * snd ca ^ 1 * (fst cb * snd cb ^ 1) * B2 (snd ca) (snd cb) (up p tA) (up q tB)) primsB))).
    apply Rsum_map_ext. intros [c a] _. cbn [fst snd]. apply inner_DD.
  Qed.

  Theorem mixed_linear (LA LB : nat) (Qmm Qmp Qpm : blk R) (p q na nb : nat) :
    (p < 3)%nat -> (q < 3)%nat -> (na < ncart LA)%nat -> (nb < ncart LB)%nat ->
    (forall LA' LB', LA = S LA' -> LB = S LB' -> forall i j, (i < ncart LA')%nat -> (j < ncart LB')%nat -> Qmm i j = block2 0 0 LA' LB' i j) ->
    (forall LA', LA = S LA' -> forall i j, (i < ncart LA')%nat -> Qmp i j = block2 0 1 LA' (S LB) i j) ->
    (forall LB', LB = S LB' -> forall i j, (j < ncart LB')%nat -> Qpm i j = block2 1 0 (S LA) LB' i j) ->
    mixed ROps LA LB (ncart (LA - 1)) (ncart (LB - 1)) Qmm Qmp Qpm (block2 1 1 (S LA) (S LB)) p q na nb
    = Rsum (map (fun ca => Rsum (map (fun cb =>
        fst ca * fst cb * eval2 (snd ca) (snd cb) (D1 (snd ca) p (klm_at LA na)) (D1 (snd cb) q (klm_at LB nb))) primsB)) primsA).
  Proof.
    intros Hp Hq Hna Hnb Hmm Hmp Hpm.
    destruct (klm_at_spec LA na Hna) as (ka & la & ma & EA & HsA & HnA).
    destruct (klm_at_spec LB nb Hnb) as (kb & lb & mb & EB & HsB & HnB).
    rewrite contracted_DD2. unfold mixed. rewrite EA, EB. cbn [nadd nsub nmul nofZ ROps].
    change (IZR 2) with 2. change (IZR 4) with 4. rewrite <- !INR_IZR_INZ.
    pose proof (plus_idx_pos p (ka, la, ma) Hp) as PA. pose proof (plus_idx_pos q (kb, lb, mb) Hq) as PB. cbn beta iota in PA, PB.
    pose proof (minus_idx_pos p (ka, la, ma) LA Hp HsA) as MA. pose proof (minus_idx_pos q (kb, lb, mb) LB Hq HsB) as MB. cbn beta iota in MA, MB.
    unfold mix_p_idx. rewrite PA, PB.
    change (comp3 p ka la ma) with (comp p (ka, la, ma)). change (comp3 q kb lb mb) with (comp q (kb, lb, mb)).
    set (tA := (ka, la, ma)) in *. set (tB := (kb, lb, mb)) in *.
    assert (HdA : deg tA = LA) by exact HsA. assert (HdB : deg tB = LB) by exact HsB.
    pose proof (deg_up p tA) as UA. pose proof (deg_up q tB) as UB.
    pose proof (deg_down p tA) as DA. pose proof (deg_down q tB) as DB.
    pose proof (pos_lt (down p tA)) as LtA. pose proof (pos_lt (down q tB)) as LtB.
    apply four_terms.
    - rewrite mult_INR, !Rmult_assoc. apply wmul. intros HcA. apply wmul. intros HcB.
      rewrite (MA HcA), (MB HcB). specialize (DA HcA). specialize (DB HcB).
      rewrite (Hmm (deg (down p tA)) (deg (down q tB))) by (assumption || lia).
      apply block2_BB; reflexivity.
    - rewrite !Rmult_assoc. f_equal. apply wmul. intros HcB. rewrite (MB HcB). specialize (DB HcB).
      rewrite (Hpm (deg (down q tB))) by (assumption || lia).
      apply block2_BB; (reflexivity || lia).
    - rewrite !Rmult_assoc. f_equal. apply wmul. intros HcA. rewrite (MA HcA). specialize (DA HcA).
      rewrite (Hmp (deg (down p tA))) by (assumption || lia).
      apply block2_BB; (reflexivity || lia).
    - f_equal. apply block2_BB; (reflexivity || lia).
  Qed.
End Mixed.
