(* Model of the derivative assembly of src/lib/ecpint.cpp:
     left_shell_derivative, left_shell_second_derivative,
     mixed_second_derivative, compute_shell_pair_derivative,
     compute_shell_pair_second_derivative.
   The shell-pair blocks of shifted angular momentum that those routines obtain
   from compute_shell_pair(..., shiftA, shiftB) are *arguments* here
   (functions row -> column -> T): the contract of the layer below (C01).
   No proofs in this file. *)
From Coq Require Import List Arith ZArith PeanoNat Bool.
From LV Require Import Base.NumOps Base.Cart.
Import ListNotations.

Definition blk (T : Type) := nat -> nat -> T.

Section Deriv.
  Context {T : Type} (o : NumOps T).
  Local Notation "a +! b" := (nadd o a b) (at level 50, left associativity).
  Local Notation "a -! b" := (nsub o a b) (at level 50, left associativity).
  Local Notation "a *! b" := (nmul o a b) (at level 40, left associativity).
  Let two := nofZ o 2.
  Let four := nofZ o 4.
  Let ofN (n : nat) := nofZ o (Z.of_nat n).

  Definition klm_at (L na : nat) : nat * nat * nat := nth na (cart L) (0, 0, 0).

  (* ---- index computations, exactly as written in the source (clamps included) ---- *)
  Definition idx_or0 (c : bool) (i : nat) : nat := if c then i else 0.

  (* left_shell_derivative, one (nA,nB) entry of component q; dimm = Q_minus.dims[0] *)
  Definition lsd_minus_idx (dimm : nat) (q l m : nat) : nat :=
    match q with
    | 0 => Nat.min (nindex l m) (dimm - 1)
    | 1 => idx_or0 (0 <? l) (nindex (l - 1) m)
    | _ => idx_or0 (0 <? m) (nindex l (m - 1))
    end.
  Definition lsd_plus_idx (q l m : nat) : nat :=
    match q with
    | 0 => nindex l m
    | 1 => nindex (l + 1) m
    | _ => nindex l (m + 1)
    end.
  Definition comp3 (q k l m : nat) : nat := match q with 0 => k | 1 => l | _ => m end.

  Definition lsd (LA : nat) (dimm : nat) (Qm Qp : blk T) (q na nb : nat) : T :=
    match LA with
    | 0 => two *! Qp q nb
    | _ =>
      let '(k, l, m) := klm_at LA na in
      (nofZ o (- Z.of_nat (comp3 q k l m))) *! Qm (lsd_minus_idx dimm q l m) nb
      +! two *! Qp (lsd_plus_idx q l m) nb
    end.

  (* left_shell_second_derivative; dimm = Q_minus.dims[0] *)
  Definition lssd (LA : nat) (dimm : nat) (Qm Q0 Qp : blk T) (c na nb : nat) : T :=
    let '(k, l, m) := klm_at LA na in
    let z := 0 in
    match c with
    | 0 => (* xx *)
      let mp := nindex l m in let pp := mp in let mm := Nat.min mp (dimm - 1) in
      ofN (k * (k - 1)) *! Qm mm nb -! two *! ofN (2 * k + 1) *! Q0 mp nb +! four *! Qp pp nb
    | 1 => (* xy *)
      let pm := idx_or0 (0 <? l) (nindex (l - 1) m) in
      let mm := idx_or0 (0 <? k) pm in
      let pp := nindex (l + 1) m in
      let mp := idx_or0 (0 <? k) pp in
      ofN (k * l) *! Qm mm nb -! two *! ofN k *! Q0 mp nb -! two *! ofN l *! Q0 pm nb +! four *! Qp pp nb
    | 2 => (* xz *)
      let pm := idx_or0 (0 <? m) (nindex l (m - 1)) in
      let mm := idx_or0 (0 <? k) pm in
      let pp := nindex l (m + 1) in
      let mp := idx_or0 (0 <? k) pp in
      ofN (k * m) *! Qm mm nb -! two *! ofN k *! Q0 mp nb -! two *! ofN m *! Q0 pm nb +! four *! Qp pp nb
    | 3 => (* yy *)
      let mm := idx_or0 (1 <? l) (nindex (l - 2) m) in
      let mp := nindex l m in
      let pp := nindex (l + 2) m in
      ofN (l * (l - 1)) *! Qm mm nb -! two *! ofN (2 * l + 1) *! Q0 mp nb +! four *! Qp pp nb
    | 4 => (* yz *)
      let mm := idx_or0 (0 <? l * m) (nindex (l - 1) (m - 1)) in
      let mp := idx_or0 (0 <? l) (nindex (l - 1) (m + 1)) in
      let pm := idx_or0 (0 <? m) (nindex (l + 1) (m - 1)) in
      let pp := nindex (l + 1) (m + 1) in
      ofN (l * m) *! Qm mm nb -! two *! ofN l *! Q0 mp nb -! two *! ofN m *! Q0 pm nb +! four *! Qp pp nb
    | _ => (* zz *)
      let mm := idx_or0 (1 <? m) (nindex l (m - 2)) in
      let mp := nindex l m in
      let pp := nindex l (m + 2) in
      ofN (m * (m - 1)) *! Qm mm nb -! two *! ofN (2 * m + 1) *! Q0 mp nb +! four *! Qp pp nb
    end.

  (* mixed_second_derivative; dm0,dm1 = Q_mm.dims[0], Q_mm.dims[1] *)
  Definition mix_m_idx (dim : nat) (p l m : nat) : nat :=
    match p with
    | 0 => Nat.min (nindex l m) (dim - 1)
    | 1 => idx_or0 (0 <? l) (nindex (l - 1) m)
    | _ => idx_or0 (0 <? m) (nindex l (m - 1))
    end.
  Definition mix_p_idx (p l m : nat) : nat := lsd_plus_idx p l m.

  Definition mixed (LA LB : nat) (dm0 dm1 : nat) (Qmm Qmp Qpm Qpp : blk T) (p q na nb : nat) : T :=
    let '(ka, la, ma) := klm_at LA na in
    let '(kb, lb, mb) := klm_at LB nb in
    let al := comp3 p ka la ma in
    let bl := comp3 q kb lb mb in
    let am := mix_m_idx dm0 p la ma in let ap := mix_p_idx p la ma in
    let bm := mix_m_idx dm1 q lb mb in let bp := mix_p_idx q lb mb in
    ofN (al * bl) *! Qmm am bm -! two *! ofN bl *! Qpm ap bm -! two *! ofN al *! Qmp am bp
      +! four *! Qpp ap bp.

  (* ---- centre-coincidence tests ---- *)
  Definition l1dist (A C : T * T * T) : T :=
    let '(a0, a1, a2) := A in let '(c0, c1, c2) := C in
    nabs o (a0 -! c0) +! nabs o (a1 -! c1) +! nabs o (a2 -! c2).
  Definition off_centre (A C : T * T * T) : bool := nltb o (ndec o 1 (-6)) (l1dist A C).

  (* compute_shell_pair_derivative: results[i](na,nb), i<9.
     QA q na nb = left_shell_derivative(U,A,B)[q](na,nb);
     QB q nb na = left_shell_derivative(U,B,A)[q](nb,na). *)
  Definition cspd (offA offB : bool) (QA QB : nat -> blk T) (i na nb : nat) : T :=
    let q := i mod 3 in
    match i / 3 with
    | 0 => (* A block *)
      if offA then QA q na nb
      else if offB then (QB q nb na) *! nofZ o (-1) else n0 o
    | 1 => (* B block *)
      if offB then QB q nb na
      else if offA then (QA q na nb) *! nofZ o (-1) else n0 o
    | _ => (* C block *)
      if offA && offB then nofZ o (-1) *! (QA q na nb +! QB q nb na) else n0 o
    end.

  (* compute_shell_pair_second_derivative: results[i](na,nb), i<45 *)
  Definition jaas (j : nat) : nat := nth j [0; 1; 2; 1; 3; 4; 2; 4; 5] 0.
  Definition jbbs (j : nat) : nat := nth j [0; 3; 6; 1; 4; 7; 2; 5; 8] 0.
  (* the last j in 0..8 with jaas j = c : CC is assigned in increasing j, so the last write wins *)
  Definition last_j_of (c : nat) : nat := nth c [0; 3; 6; 4; 7; 8] 0.

  Definition csp2 (offA offB : bool) (QAA QBB : nat -> blk T) (QAB : nat -> blk T) (i na nb : nat) : T :=
    let m1 := nofZ o (-1) in
    let AC j := m1 *! (QAA (jaas j) na nb +! QAB j na nb) in
    let BC j := m1 *! (QBB (jaas j) nb na +! QAB (jbbs j) na nb) in
    if offA then
      if offB then
        if i <? 6 then QAA i na nb
        else if i <? 15 then QAB (i - 6) na nb
        else if i <? 24 then AC (i - 15)
        else if i <? 30 then QBB (i - 24) nb na
        else if i <? 39 then BC (i - 30)
        else let j := last_j_of (i - 39) in nopp o (BC j) -! AC j
      else
        if i <? 6 then QAA i na nb
        else if i <? 15 then QAA (jaas (i - 6)) na nb *! m1
        else if i <? 24 then n0 o
        else if i <? 30 then QAA (i - 24) na nb
        else n0 o
    else if offB then
      if i <? 6 then QBB i nb na
      else if i <? 15 then QBB (jaas (i - 6)) nb na *! m1
      else if i <? 24 then n0 o
      else if i <? 30 then QBB (i - 24) nb na
      else n0 o
    else n0 o.
End Deriv.
