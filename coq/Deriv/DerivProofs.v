(* Proofs about the derivative-assembly model (DerivModel.v).
   1. index theorems: every index the routines compute is in range, and is the
      position of the intended shifted monomial whenever its coefficient is non-zero
      (all LA);
   2. linear-combination theorems: over the reals the assembled entries are the
      contraction of the formal derivative rule
         d/dA_q g(t) = - t_q g(t - e_q) + 2 a g(t + e_q)
      applied once (first derivatives) or composed twice (second derivatives);
   3. the translational sum rules and the 45-block layout. *)
From Coq Require Import List Arith ZArith PeanoNat Bool Lia Reals Lra.
From LV Require Import Base.NumOps Base.Cart Base.RInst Deriv.DerivModel.
Import ListNotations.

Definition triple := (nat * nat * nat)%type.
Definition up (q : nat) (t : triple) : triple :=
  let '(k, l, m) := t in match q with 0 => (S k, l, m) | 1 => (k, S l, m) | _ => (k, l, S m) end.
Definition down (q : nat) (t : triple) : triple :=
  let '(k, l, m) := t in match q with 0 => (k - 1, l, m) | 1 => (k, l - 1, m) | _ => (k, l, m - 1) end.
Definition comp (q : nat) (t : triple) : nat := let '(k, l, m) := t in comp3 q k l m.
Definition deg (t : triple) : nat := let '(k, l, m) := t in k + l + m.

Lemma ncart_pos L : 0 < ncart L.
Proof. pose proof (nindex_lt L 0 0). lia. Qed.

Lemma klm_at_spec L na : na < ncart L ->
  exists k l m, klm_at L na = (k, l, m) /\ k + l + m = L /\ na = nindex l m.
Proof. apply cart_enum. Qed.

Lemma klm_at_nindex L l m : l + m <= L -> klm_at L (nindex l m) = (L - (l + m), l, m).
Proof. apply cart_nth. Qed.

(* position of a triple in its own shell *)
Definition pos (t : triple) : nat := let '(_, l, m) := t in nindex l m.

Lemma klm_at_pos t : klm_at (deg t) (pos t) = t.
Proof. destruct t as [[k l] m]. cbn [deg pos]. rewrite klm_at_nindex by lia. f_equal. f_equal. lia. Qed.

Lemma pos_lt t : pos t < ncart (deg t).
Proof. destruct t as [[k l] m]. cbn [deg pos]. apply nindex_lt. lia. Qed.

Lemma deg_up q t : deg (up q t) = S (deg t).
Proof. destruct t as [[k l] m]; destruct q as [|[|q]]; cbn; lia. Qed.
Lemma deg_down q t : 0 < comp q t -> S (deg (down q t)) = deg t.
Proof. destruct t as [[k l] m]; destruct q as [|[|q]]; cbn; lia. Qed.

(* ------------------------------------------------------------------ *)
(* 1. index theorems                                                   *)
(* ------------------------------------------------------------------ *)

Theorem lsd_indices LA na q t : q < 3 -> na < ncart (S LA) -> klm_at (S LA) na = t ->
  let '(k, l, m) := t in
  let dimm := ncart LA in
  na = pos t /\ deg t = S LA /\
  lsd_plus_idx q l m = pos (up q t) /\
  lsd_plus_idx q l m < ncart (S (S LA)) /\
  lsd_minus_idx dimm q l m < dimm /\
  (0 < comp q t -> lsd_minus_idx dimm q l m = pos (down q t)).
Proof.
  intros Hq Hna Ht. destruct (klm_at_spec _ _ Hna) as (k & l & m & E & Hs & Hn).
  rewrite E in Ht. subst t. cbn zeta.
  pose proof (ncart_pos LA) as Hp.
  split; [exact Hn|]. split; [exact Hs|].
  destruct q as [|[|[|q]]]; try lia; cbn [lsd_plus_idx lsd_minus_idx up down comp comp3 pos].
  - split; [reflexivity|]. split; [apply nindex_lt; lia|]. split; [lia|].
    intros Hk. assert (nindex l m < ncart LA) by (apply nindex_lt; lia). lia.
  - split; [f_equal; lia|]. split; [apply nindex_lt; lia|].
    unfold idx_or0. destruct (Nat.ltb_spec 0 l) as [Hl|Hl].
    + split; [apply nindex_lt; lia|]. reflexivity.
    + split; [lia|]. lia.
  - split; [f_equal; lia|]. split; [apply nindex_lt; lia|].
    unfold idx_or0. destruct (Nat.ltb_spec 0 m) as [Hl|Hl].
    + split; [apply nindex_lt; lia|]. reflexivity.
    + split; [lia|]. lia.
Qed.

(* ------------------------------------------------------------------ *)
(* 2. formal derivative rule and contraction                            *)
(* ------------------------------------------------------------------ *)
Local Open Scope R_scope.

Definition lincomb := list (R * triple).
(* d/dA_q of the primitive with exponent a and monomial t *)
Definition D1 (a : R) (q : nat) (t : triple) : lincomb :=
  [(- INR (comp q t), down q t); (2 * a, up q t)].
Definition Dlin (a : R) (q : nat) (lc : lincomb) : lincomb :=
  flat_map (fun wt => map (fun wt' => (fst wt * fst wt', snd wt')) (D1 a q (snd wt))) lc.

Definition Rsum (l : list R) : R := fold_right Rplus 0 l.

Lemma Rsum_map_plus {A} (f g : A -> R) l :
  Rsum (map f l) + Rsum (map g l) = Rsum (map (fun x => f x + g x) l).
Proof. unfold Rsum. induction l as [|x l IH]; cbn [map fold_right]; [lra|]. rewrite <- IH. lra. Qed.
Lemma Rsum_map_scal {A} (c : R) (f : A -> R) l :
  c * Rsum (map f l) = Rsum (map (fun x => c * f x) l).
Proof. unfold Rsum. induction l as [|x l IH]; cbn [map fold_right]; [lra|]. rewrite <- IH. lra. Qed.
Lemma Rsum_map_ext {A} (f g : A -> R) l : (forall x, In x l -> f x = g x) ->
  Rsum (map f l) = Rsum (map g l).
Proof.
  unfold Rsum. induction l as [|x l IH]; intros H; cbn [map fold_right]; [reflexivity|].
  rewrite H by (left; reflexivity). rewrite IH; [reflexivity|]. intros; apply H; now right.
Qed.

Section Contraction.
  (* prims: (coefficient, exponent) of the contracted left shell.
     Bp a t nb : the value of the (bi)linear functional on the primitive with
     exponent a and monomial t against the nb-th function of the right shell. *)
  Variable prims : list (R * R).
  Variable Bp : R -> triple -> nat -> R.

  Definition eval (a : R) (lc : lincomb) (nb : nat) : R :=
    Rsum (map (fun wt => fst wt * Bp a (snd wt) nb) lc).

  (* shell-pair block with angular momentum L on the left and the coefficients
     multiplied `pw` times by the exponents (what compute_shell_pair returns for
     tempA): entry (na, nb) *)
  Definition block (pw : nat) (L : nat) : blk R :=
    fun na nb => Rsum (map (fun ca => fst ca * snd ca ^ pw * Bp (snd ca) (klm_at L na) nb) prims).

  Lemma block_pos pw t nb :
    block pw (deg t) (pos t) nb = Rsum (map (fun ca => fst ca * snd ca ^ pw * Bp (snd ca) t nb) prims).
  Proof. unfold block. now rewrite klm_at_pos. Qed.

  (* --- first derivatives --- *)
  Theorem lsd_linear (LA : nat) (Qm : blk R) (q na nb : nat) :
    (q < 3)%nat -> (na < ncart LA)%nat ->
    (forall LA', LA = S LA' -> forall i j, (i < ncart LA')%nat -> Qm i j = block 0 LA' i j) ->
    lsd ROps LA (ncart (LA - 1)) Qm (block 1 (S LA)) q na nb
    = Rsum (map (fun ca => fst ca * eval (snd ca) (D1 (snd ca) q (klm_at LA na)) nb) prims).
  Proof.
    intros Hq Hna HQm. destruct LA as [|LA].
    - (* s shell *)
      assert (na = 0)%nat by (unfold ncart in Hna; cbn in Hna; lia). subst na.
      cbn [lsd]. change (klm_at 0 0) with ((0, 0, 0)%nat : triple).
      unfold eval, D1. cbn [map Rsum fold_right fst snd comp comp3].
      assert (Hup : klm_at 1 q = up q (0, 0, 0)%nat).
      { destruct q as [|[|[|q]]]; try lia; reflexivity. }
      unfold block. rewrite Hup. cbn [nmul ROps nofZ].
      rewrite Rsum_map_scal. apply Rsum_map_ext. intros [c a] _. cbn [fst snd].
      destruct q as [|[|[|q]]]; try lia; cbn; lra.
    - pose proof (lsd_indices LA na q _ Hq Hna eq_refl) as H.
      destruct (klm_at (S LA) na) as [[k l] m] eqn:E.
      destruct H as (Hpos & Hdeg & Hplus & Hplt & Hmlt & Hminus).
      cbn [lsd]. rewrite E. replace (S LA - 1)%nat with LA by lia.
      cbn [nmul nadd ROps nofZ].
      rewrite (HQm LA eq_refl) by exact Hmlt.
      rewrite Hplus.
      assert (Hd : deg (up q (k, l, m)) = S (S LA)) by (rewrite deg_up; cbn in *; lia).
      rewrite <- Hd at 1. rewrite block_pos.
      unfold eval, D1. cbn [map Rsum fold_right fst snd].
      destruct (Nat.eq_dec (comp q (k, l, m)) 0) as [Hz|Hnz].
      + cbn [comp] in Hz. rewrite Hz. cbn [Z.of_nat Z.opp].
        rewrite Rmult_0_l, Rplus_0_l, Rsum_map_scal. apply Rsum_map_ext. intros [c a] _.
        cbn [fst snd comp]. rewrite Hz. cbn. lra.
      + rewrite Hminus by lia.
        assert (Hdd : deg (down q (k, l, m)) = LA).
        { pose proof (deg_down q (k, l, m)). cbn in Hdeg. cbn [deg] in H. lia. }
        rewrite <- Hdd at 1. rewrite block_pos.
        rewrite !Rsum_map_scal, Rsum_map_plus. apply Rsum_map_ext. intros [c a] _.
        cbn [fst snd comp]. rewrite opp_IZR, <- INR_IZR_INZ. cbn. lra.
  Qed.
End Contraction.

(* ------------------------------------------------------------------ *)
(* 3. sum rules of the assembled blocks                                 *)
(* ------------------------------------------------------------------ *)

Theorem first_sum_rule offA offB (QA QB : nat -> blk R) q na nb : (q < 3)%nat ->
  cspd ROps offA offB QA QB q na nb + cspd ROps offA offB QA QB (q + 3) na nb
  + cspd ROps offA offB QA QB (q + 6) na nb = 0.
Proof.
  intros Hq. destruct q as [|[|[|q]]]; try lia;
    destruct offA, offB; cbn; lra.
Qed.

(* coincident centres: the returned blocks are those of the joint displacement *)
Theorem first_additive_BC (QA QB : nat -> blk R) q na nb : (q < 3)%nat ->
  (* B on the ECP: moving (B,C) together is minus moving A *)
  cspd ROps true false QA QB (q + 3) na nb = - cspd ROps true false QA QB q na nb /\
  cspd ROps true false QA QB (q + 6) na nb = 0.
Proof. intros Hq. destruct q as [|[|[|q]]]; try lia; cbn; split; lra. Qed.

Theorem first_additive_AC (QA QB : nat -> blk R) q na nb : (q < 3)%nat ->
  cspd ROps false true QA QB q na nb = - cspd ROps false true QA QB (q + 3) na nb /\
  cspd ROps false true QA QB (q + 6) na nb = 0.
Proof. intros Hq. destruct q as [|[|[|q]]]; try lia; cbn; split; lra. Qed.

Theorem first_all_coincident (QA QB : nat -> blk R) i na nb : (i < 9)%nat ->
  cspd ROps false false QA QB i na nb = 0.
Proof. intros Hi. do 9 (destruct i as [|i]; [reflexivity|]). lia. Qed.

(* the 45-block layout: AA 0-5, AB 6-14, AC 15-23, BB 24-29, BC 30-38, CC 39-44 *)
Theorem hess_layout (QAA QBB QAB : nat -> blk R) na nb :
  let r := fun i => csp2 ROps true true QAA QBB QAB i na nb in
  (forall c, (c < 6)%nat -> r c = QAA c na nb /\ r (24 + c)%nat = QBB c nb na) /\
  (forall j, (j < 9)%nat ->
     r (6 + j)%nat = QAB j na nb /\
     r (15 + j)%nat = - (r (jaas j) + r (6 + j)%nat) /\                 (* AC = -(AA + AB) *)
     r (30 + j)%nat = - (r (24 + jaas j)%nat + r (6 + jbbs j)%nat) /\   (* BC_pq = -(BB_pq + AB_qp) *)
     r (39 + jaas j)%nat = - (r (15 + j)%nat + r (30 + j)%nat)).        (* CC = -(AC + BC), for EVERY j *)
Proof.
  cbn zeta. split.
  - intros c Hc. do 6 (destruct c as [|c]; [cbn; split; reflexivity|]). lia.
  - intros j Hj. do 9 (destruct j as [|j]; [cbn; repeat split; lra|]). lia.
Qed.
