(* Second-derivative assembly (C03): the entries left_shell_second_derivative computes are the contraction
   of the formal first-derivative rule applied TWICE,
       d/dA_p d/dA_q g(t)  =  Dlin p (D1 q t),
   for every LA (including the dummy Q_minus block when LA <= 1), every row, column and component. *)
From Coq Require Import List Arith ZArith PeanoNat Bool Lia Reals Lra.
From LV Require Import Base.NumOps Base.Cart Base.RInst Deriv.DerivModel Deriv.DerivProofs.
Import ListNotations.
Local Open Scope R_scope.

(* component c of the six symmetric second derivatives -> (p, q) *)
Definition cp (c : nat) : nat := nth c [0; 0; 0; 1; 1; 2]%nat 0%nat.
Definition cq (c : nat) : nat := nth c [0; 1; 2; 1; 2; 2]%nat 0%nat.

Lemma wmul (n : nat) (X Y : R) : ((0 < n)%nat -> X = Y) -> INR n * X = INR n * Y.
Proof. intros H. destruct n as [|n]; [cbn; lra|]. rewrite H by lia. reflexivity. Qed.

Lemma four_terms a1 a2 a3 a4 b1 b2 b3 b4 : a1 = b1 -> a2 = b2 -> a3 = b3 -> a4 = b4 -> a1 - a2 - a3 + a4 = b1 - b2 - b3 + b4.
Proof. intros -> -> -> ->. reflexivity. Qed.

Section Second.
  Variable prims : list (R * R).
  Variable Bp : R -> triple -> nat -> R.
  Local Notation block := (block prims Bp).
  Local Notation eval := (eval Bp).

  (* contraction of the functional over the shell, exponents folded in pw times *)
  Definition BB (pw : nat) (t : triple) (nb : nat) : R := Rsum (map (fun ca => fst ca * snd ca ^ pw * Bp (snd ca) t nb) prims).

  Lemma block_BB pw L i t nb : deg t = L -> i = pos t -> block pw L i nb = BB pw t nb.
  Proof. intros <- ->. apply block_pos. Qed.

  (* the formal rule applied twice, contracted *)
  Lemma contracted_DD p q t nb :
    Rsum (map (fun ca => fst ca * eval (snd ca) (Dlin (snd ca) p (D1 (snd ca) q t)) nb) prims)
    = INR (comp q t) * INR (comp p (down q t)) * BB 0 (down p (down q t)) nb
      - 2 * INR (comp q t) * BB 1 (up p (down q t)) nb
      - 2 * INR (comp p (up q t)) * BB 1 (down p (up q t)) nb
      + 4 * BB 2 (up p (up q t)) nb.
  Proof.
    unfold BB, Rsum. induction prims as [|[c a] ps IH]; cbn [map fold_right fst snd]; [ring|].
    rewrite IH. unfold DerivProofs.eval, Dlin, D1, Rsum. cbn [flat_map map app fst snd fold_right]. ring.
  Qed.

  Lemma ofN_INR (n : nat) : IZR (Z.of_nat n) = INR n.
  Proof. symmetry. apply INR_IZR_INZ. Qed.

  Section Row.
    Variables (LA : nat) (Qm : blk R) (nb : nat).
    Hypothesis HQm : forall LA', LA = S (S LA') -> forall i j, (i < ncart LA')%nat -> Qm i j = block 0 LA' i j.
    Definition dimm_of := if (1 <? LA)%nat then ncart (LA - 2) else 1%nat.

    (* the three kinds of block access, with the index only required to be right when it matters *)
    Lemma acc_m i t : S (S (deg t)) = LA -> i = pos t -> Qm i nb = BB 0 t nb.
    Proof.
      intros Hd Hi. rewrite (HQm (deg t)) by (try lia; rewrite Hi; apply pos_lt). now apply block_BB.
    Qed.
    Lemma acc_0 i t : deg t = LA -> i = pos t -> block 1 LA i nb = BB 1 t nb.
    Proof. apply block_BB. Qed.
    Lemma acc_p i t : deg t = S (S LA) -> i = pos t -> block 2 (S (S LA)) i nb = BB 2 t nb.
    Proof. apply block_BB. Qed.

    Lemma dimm_big : (2 <= LA)%nat -> dimm_of = ncart (LA - 2).
    Proof. intros H. unfold dimm_of. replace (1 <? LA)%nat with true by (symmetry; apply Nat.ltb_lt; lia). reflexivity. Qed.
  End Row.

  Ltac side := cbn [deg pos]; first [lia | reflexivity | (f_equal; lia)].
  Ltac ltb_true := repeat match goal with |- context [(?a <? ?b)%nat] => replace (a <? b)%nat with true by (symmetry; apply Nat.ltb_lt; nia) end.

  Lemma four_terms' a1 a2 a3 a4 b1 b2 b3 b4 : a1 = b1 -> a2 = b3 -> a3 = b2 -> a4 = b4 -> a1 - a2 - a3 + a4 = b1 - b2 - b3 + b4.
  Proof. intros -> -> -> ->. ring. Qed.
  Lemma diag_terms a1 a2 a4 b1 b2 b3 b4 : a1 = b1 -> a2 = b2 + b3 -> a4 = b4 -> a1 - a2 + a4 = b1 - b2 - b3 + b4.
  Proof. intros -> -> ->. ring. Qed.
  (* -2k B(S(k-1)) - 2(k+1) B(S k - 1) = -2(2k+1) B(k) : the two middle terms of a diagonal component *)
  Lemma diag_mid (f : nat -> R) k : 2 * INR (2 * k + 1) * f k = 2 * INR k * f (S (k - 1)) + 2 * INR (S k) * f (S k - 1)%nat.
  Proof.
    replace (S k - 1)%nat with k by lia. rewrite plus_INR, mult_INR, S_INR. cbn [INR].
    destruct k as [|k]; [cbn [INR]; ring|]. replace (S (S k - 1)) with (S k) by lia. ring.
  Qed.

  Theorem lssd_linear (LA : nat) (Qm : blk R) (c na nb : nat) :
    (c < 6)%nat -> (na < ncart LA)%nat ->
    (forall LA', LA = S (S LA') -> forall i j, (i < ncart LA')%nat -> Qm i j = block 0 LA' i j) ->
    lssd ROps LA (if (1 <? LA)%nat then ncart (LA - 2) else 1%nat) Qm (block 1 LA) (block 2 (S (S LA))) c na nb
    = Rsum (map (fun ca => fst ca * eval (snd ca) (Dlin (snd ca) (cp c) (D1 (snd ca) (cq c) (klm_at LA na))) nb) prims).
  Proof.
    intros Hc Hna HQm.
    destruct (klm_at_spec LA na Hna) as (k & l & m & E & Hs & Hn).
    rewrite contracted_DD. unfold lssd. rewrite E. cbn [nadd nsub nmul nofZ ROps].
    change (IZR 2) with 2. change (IZR 4) with 4. rewrite !ofN_INR.
    pose proof (acc_m LA Qm nb HQm) as Am. pose proof (acc_0 LA nb) as A0. pose proof (acc_p LA nb) as Ap.
    destruct c as [|[|[|[|[|[|c]]]]]]; try lia; cbn [cp cq nth comp comp3 down up]; unfold idx_or0.
    - (* xx *)
      apply diag_terms.
      + rewrite <- mult_INR. apply wmul. intros Hp. assert (2 <= k)%nat by nia. ltb_true.
        rewrite Nat.min_l by (pose proof (nindex_lt (LA - 2) l m); lia).
        apply Am; side.
      + rewrite (A0 _ (k, l, m)) by side. exact (diag_mid (fun kk => BB 1 (kk, l, m) nb) k).
      + f_equal. apply Ap; side.
    - (* xy *)
      apply four_terms'.
      + rewrite (Rmult_comm (INR l)), <- mult_INR. apply wmul. intros Hp. assert (1 <= k /\ 1 <= l)%nat by nia. ltb_true. apply Am; side.
      + rewrite !Rmult_assoc. f_equal. apply wmul. intros Hp. ltb_true. apply A0; side.
      + rewrite !Rmult_assoc. f_equal. apply wmul. intros Hp. ltb_true. apply A0; side.
      + f_equal. apply Ap; side.
    - (* xz *)
      apply four_terms'.
      + rewrite (Rmult_comm (INR m)), <- mult_INR. apply wmul. intros Hp. assert (1 <= k /\ 1 <= m)%nat by nia. ltb_true. apply Am; side.
      + rewrite !Rmult_assoc. f_equal. apply wmul. intros Hp. ltb_true. apply A0; side.
      + rewrite !Rmult_assoc. f_equal. apply wmul. intros Hp. ltb_true. apply A0; side.
      + f_equal. apply Ap; side.
    - (* yy *)
      apply diag_terms.
      + rewrite <- mult_INR. apply wmul. intros Hp. assert (2 <= l)%nat by nia. ltb_true. apply Am; side.
      + rewrite (A0 _ (k, l, m)) by side. exact (diag_mid (fun ll => BB 1 (k, ll, m) nb) l).
      + f_equal. apply Ap; side.
    - (* yz *)
      apply four_terms'.
      + rewrite (Rmult_comm (INR m)), <- mult_INR. apply wmul. intros Hp. assert (1 <= l /\ 1 <= m)%nat by nia. ltb_true. apply Am; side.
      + rewrite !Rmult_assoc. f_equal. apply wmul. intros Hp. ltb_true. apply A0; side.
      + rewrite !Rmult_assoc. f_equal. apply wmul. intros Hp. ltb_true. apply A0; side.
      + f_equal. apply Ap; side.
    - (* zz *)
      apply diag_terms.
      + rewrite <- mult_INR. apply wmul. intros Hp. assert (2 <= m)%nat by nia. ltb_true. apply Am; side.
      + rewrite (A0 _ (k, l, m)) by side. exact (diag_mid (fun mm => BB 1 (k, l, mm) nb) m).
      + f_equal. apply Ap; side.
  Qed.
End Second.
