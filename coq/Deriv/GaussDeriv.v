(* The formal derivative rule D1 IS the derivative of the primitive Cartesian Gaussian with respect to its centre:
     d/dA_q [ (x-A)^t exp(-a |x-A|^2) ] = - t_q (x-A)^(t-e_q) exp(..) + 2a (x-A)^(t+e_q) exp(..)
   pointwise in the field point x, for every monomial t, every exponent a and every q < 3 (Coquelicot is_derive); and the rule
   applied twice (Dlin p (D1 q t)) is the second partial derivative.  This is the link between the contraction theorems
   lsd_linear / lssd_linear / mixed_linear (which are about the formal rule) and the geometric derivative of the integrand. *)
From Coq Require Import Reals List Lra Lia Arith.
From Coquelicot Require Import Coquelicot.
From LV Require Import Base.NumOps Base.Cart Base.RInst Deriv.DerivModel Deriv.DerivProofs.
Import ListNotations.
Local Open Scope R_scope.

Ltac Rring := match goal with |- @eq _ ?l ?r => change (@eq R l r) end; ring.

Definition vec3 := (R * R * R)%type.
Definition vget (q : nat) (v : vec3) : R := let '(a, b, c) := v in match q with 0%nat => a | 1%nat => b | _ => c end.
Definition vset (q : nat) (v : vec3) (s : R) : vec3 := let '(a, b, c) := v in match q with 0%nat => (s, b, c) | 1%nat => (a, s, c) | _ => (a, b, s) end.

(* the primitive Cartesian Gaussian with exponent a and monomial t centred at A, at the field point x *)
Definition prim (a : R) (t : triple) (A x : vec3) : R :=
  let '(k, l, m) := t in let '(a0, a1, a2) := A in let '(x0, x1, x2) := x in
  (x0 - a0) ^ k * (x1 - a1) ^ l * (x2 - a2) ^ m * exp (- a * ((x0 - a0) * (x0 - a0) + (x1 - a1) * (x1 - a1) + (x2 - a2) * (x2 - a2))).

Definition lc_eval (a : R) (lc : lincomb) (A x : vec3) : R := Rsum (map (fun wt => fst wt * prim a (snd wt) A x) lc).

Lemma pow_shift_derive (k : nat) (x s : R) : is_derive (fun u => (x - u) ^ k) s (- INR k * (x - s) ^ (k - 1)).
Proof.
  destruct k as [|k].
  - simpl. replace (- 0 * 1) with 0 by ring. apply (is_derive_const (K := R_AbsRing) (V := R_NormedModule)).
  - auto_derive; [exact I|]. replace (S k - 1)%nat with k by lia. cbn [Init.Nat.pred]. rewrite S_INR.
    change (match k with | 0%nat => 1 | S _ => INR k + 1 end) with (INR (S k)). rewrite S_INR. unfold Rminus. ring.
Qed.

Theorem D1_is_derivative (a : R) (t : triple) (A x : vec3) (q : nat) : (q < 3)%nat ->
  is_derive (fun s => prim a t (vset q A s) x) (vget q A) (lc_eval a (D1 a q t) A x).
Proof.
  intros Hq. destruct t as [[k l] m]. destruct A as [[a0 a1] a2]. destruct x as [[x0 x1] x2].
  unfold lc_eval, D1, Rsum. cbn [map fold_right fst snd].
  destruct q as [|[|[|q]]]; [| | |lia]; cbn [vset vget prim comp comp3 down up].
  - pose proof (pow_shift_derive k x0 a0) as P.
    apply (is_derive_ext (fun s => (x0 - s) ^ k * ((x1 - a1) ^ l * (x2 - a2) ^ m) * exp (- a * ((x0 - s) * (x0 - s) + (x1 - a1) * (x1 - a1) + (x2 - a2) * (x2 - a2))))).
    { intros s. Rring. }
    auto_derive; [repeat split; exact I|].
    destruct k as [|k]; rewrite ?S_INR; cbn [Init.Nat.pred Nat.sub pow INR]; rewrite ?Nat.sub_0_r; unfold Rminus; ring.
  - pose proof (pow_shift_derive l x1 a1) as P.
    apply (is_derive_ext (fun s => (x1 - s) ^ l * ((x0 - a0) ^ k * (x2 - a2) ^ m) * exp (- a * ((x0 - a0) * (x0 - a0) + (x1 - s) * (x1 - s) + (x2 - a2) * (x2 - a2))))).
    { intros s. Rring. }
    auto_derive; [repeat split; exact I|].
    destruct l as [|l]; rewrite ?S_INR; cbn [Init.Nat.pred Nat.sub pow INR]; rewrite ?Nat.sub_0_r; unfold Rminus; ring.
  - pose proof (pow_shift_derive m x2 a2) as P.
    apply (is_derive_ext (fun s => (x2 - s) ^ m * ((x0 - a0) ^ k * (x1 - a1) ^ l) * exp (- a * ((x0 - a0) * (x0 - a0) + (x1 - a1) * (x1 - a1) + (x2 - s) * (x2 - s))))).
    { intros s. Rring. }
    auto_derive; [repeat split; exact I|].
    destruct m as [|m]; rewrite ?S_INR; cbn [Init.Nat.pred Nat.sub pow INR]; rewrite ?Nat.sub_0_r; unfold Rminus; ring.
Qed.

(* linear combinations: the rule applied to a combination is the derivative of the combination; hence the rule applied twice
   (Dlin p (D1 q t), what lssd_linear / mixed_linear are about) is the second partial derivative d/dA_p d/dA_q of the primitive *)
Lemma is_derive_ext_val2 (f g : R -> R) r d d' : (forall s, g s = f s) -> is_derive g r d -> d = d' -> is_derive f r d'.
Proof. intros E H Ed. rewrite <- Ed. apply (is_derive_ext g f); assumption. Qed.

Lemma Rsum_app l1 l2 : Rsum (l1 ++ l2) = Rsum l1 + Rsum l2.
Proof. unfold Rsum. induction l1 as [|y l1 IH]; cbn [app fold_right]; [lra|]. rewrite IH. lra. Qed.

Theorem Dlin_is_derivative (a : R) (lc : lincomb) (A x : vec3) (p : nat) : (p < 3)%nat ->
  is_derive (fun s => lc_eval a lc (vset p A s) x) (vget p A) (lc_eval a (Dlin a p lc) A x).
Proof.
  intros Hp. induction lc as [|[w t] lc IH].
  - unfold lc_eval, Dlin, Rsum. cbn [map flat_map fold_right]. apply (is_derive_const (K := R_AbsRing) (V := R_NormedModule)).
  - unfold lc_eval in *. unfold Dlin in *. cbn [map flat_map]. rewrite map_app, Rsum_app.
    pose proof (D1_is_derivative a t A x p Hp) as D.
    pose proof (is_derive_scal _ _ w _ D) as Dw.
    pose proof (is_derive_plus (K := R_AbsRing) (V := R_NormedModule) _ _ _ _ _ Dw IH) as Dsum.
    eapply is_derive_ext_val2; [| exact Dsum |].
    + intros s. unfold Rsum. cbn [map fold_right fst snd]. reflexivity.
    + unfold lc_eval, D1, Rsum, plus. cbn [map fold_right fst snd]. cbn. ring.
Qed.

Corollary D2_is_derivative (a : R) (t : triple) (A x : vec3) (p q : nat) : (p < 3)%nat -> (q < 3)%nat ->
  is_derive (fun s => lc_eval a (D1 a q t) (vset p A s) x) (vget p A) (lc_eval a (Dlin a p (D1 a q t)) A x).
Proof. intros Hp _. now apply Dlin_is_derivative. Qed.
