(* The core-electron bookkeeping of ECPBasis::addECP_from_file (core_electrons: insert (q, ncore) unless q is present) and
   getECPCore, for EVERY sequence of loads: the count reported for an element is the one of the FIRST load of that element,
   whatever was loaded before, between or after; in particular it does not depend on the order in which different elements
   are loaded.  (First-wins also when one element is loaded from two sets with different cores - documented behaviour of
   the model, observed on the library: Tl from ecp60mdf then lanl2dz reports 60.) *)
From Coq Require Import List ZArith Bool Lia.
Import ListNotations.

Definition cmap := list (Z * Z).
Fixpoint lookup (m : cmap) (q : Z) : option Z :=
  match m with [] => None | (k, v) :: m' => if Z.eqb k q then Some v else lookup m' q end.
Definition insert_absent (m : cmap) (q c : Z) : cmap :=
  match lookup m q with Some _ => m | None => m ++ [(q, c)] end.
Definition load_all (loads : list (Z * Z)) : cmap := fold_left (fun m qc => insert_absent m (fst qc) (snd qc)) loads [].
Definition get_core (m : cmap) (q : Z) : Z := match lookup m q with Some c => c | None => 0%Z end.

Fixpoint first_load (loads : list (Z * Z)) (q : Z) : option Z :=
  match loads with [] => None | (k, v) :: l' => if Z.eqb k q then Some v else first_load l' q end.

Lemma lookup_app m1 m2 q : lookup (m1 ++ m2) q = match lookup m1 q with Some v => Some v | None => lookup m2 q end.
Proof. induction m1 as [|[k v] m1 IH]; cbn [app lookup]; [reflexivity|]. destruct (Z.eqb k q); [reflexivity | exact IH]. Qed.

Lemma lookup_insert m q c q' :
  lookup (insert_absent m q c) q' = match lookup m q' with Some v => Some v | None => if Z.eqb q q' then Some c else None end.
Proof.
  unfold insert_absent. destruct (lookup m q) as [v|] eqn:E.
  - destruct (lookup m q') as [v'|] eqn:E'; [reflexivity|].
    destruct (Z.eqb_spec q q') as [->|]; [congruence | reflexivity].
  - rewrite lookup_app. destruct (lookup m q'); [reflexivity|]. cbn [lookup]. destruct (Z.eqb q q'); reflexivity.
Qed.

Lemma fold_lookup loads : forall m q,
  lookup (fold_left (fun m qc => insert_absent m (fst qc) (snd qc)) loads m) q
  = match lookup m q with Some v => Some v | None => first_load loads q end.
Proof.
  induction loads as [|[k v] l IH]; intros m q; cbn [fold_left first_load fst snd].
  - destruct (lookup m q); reflexivity.
  - rewrite IH, lookup_insert. destruct (lookup m q); [reflexivity|]. destruct (Z.eqb k q); reflexivity.
Qed.

Theorem core_is_first_load loads q : lookup (load_all loads) q = first_load loads q.
Proof. unfold load_all. rewrite fold_lookup. reflexivity. Qed.

(* loads of pairwise different elements: the reported core of each is its own, in any order *)
Lemma first_load_in loads q c : NoDup (map fst loads) -> In (q, c) loads -> first_load loads q = Some c.
Proof.
  induction loads as [|[k v] l IH]; intros ND I; [destruct I|].
  cbn [map fst] in ND. inversion ND as [|x xs Hnot ND']; subst. cbn [first_load].
  destruct I as [E | I].
  - inversion E; subst. rewrite Z.eqb_refl. reflexivity.
  - destruct (Z.eqb_spec k q) as [->|]; [|now apply IH].
    exfalso. apply Hnot. apply in_map_iff. exists (q, c). split; [reflexivity | exact I].
Qed.

Theorem core_order_independent loads loads' q c :
  NoDup (map fst loads) -> (forall x, In x loads <-> In x loads') -> NoDup (map fst loads') ->
  In (q, c) loads -> get_core (load_all loads) q = c /\ get_core (load_all loads') q = c.
Proof.
  intros ND P ND' I. unfold get_core. rewrite !core_is_first_load.
  rewrite (first_load_in loads q c ND I). rewrite (first_load_in loads' q c ND' (proj1 (P _) I)). split; reflexivity.
Qed.
