(* Model of the shipped ECP library:
     raw_to_atoms : the MOLPRO layout of share/libecpint/raw/*.ecp
                    (header `ECP,sym,ncore,maxl[,nso]`, then maxl+1 shell lines in the order
                     [maxl, 0, 1, ..., maxl-1], each `nprim; n,x,c; n,x,c; ...`)
     the XML structure (tokenised), the loader ECPBasis::addECP_from_file / ECP::addPrimitive
     (power - 2, N, L, min_exp, min_exp_l, l_starts), ECP::sort (any sort by l) and ECP::evaluate. *)
From Coq Require Import String ZArith List Bool Arith PeanoNat.
From LV Require Import Base.NumOps.
Import ListNotations.
Local Open Scope Z_scope.

Inductive tok := W (s : string) | D (m e : Z).      (* word | decimal m * 10^e *)
Inductive line := LC | LD (fields : list (list tok)).

Record xshell := mkXShell { xs_l : tok; xs_nexp : tok; xs_prims : list (tok * tok * tok) }.
Record xatom := mkXAtom { xa_name : string; xa_ncore : tok; xa_maxl : tok; xa_shells : list xshell }.

(* ---- exact comparison of decimal tokens ---- *)
Definition dec_eqb (a b : tok) : bool :=
  match a, b with
  | D m1 e1, D m2 e2 =>
    if e1 <=? e2 then m1 =? m2 * 10 ^ (e2 - e1) else m1 * 10 ^ (e1 - e2) =? m2
  | W s1, W s2 => String.eqb s1 s2
  | _, _ => false
  end.
Definition tok_int (t : tok) : option Z :=
  match t with D m e => if 0 <=? e then Some (m * 10 ^ e) else None | W _ => None end.

(* ---- raw -> atoms, from the MOLPRO layout ---- *)
Definition is_data (l : line) : bool := match l with LD _ => true | LC => false end.

Definition shell_of_line (lval : Z) (l : line) : option xshell :=
  match l with
  | LD ([nprim] :: rest) =>
    let prims := flat_map (fun f => match f with [n; x; c] => [(n, x, c)] | _ => [] end) rest in
    Some (mkXShell (D lval 0) nprim prims)
  | _ => None
  end.

Fixpoint shells_from (maxl : Z) (i : nat) (ls : list line) : list xshell :=
  match ls with
  | [] => []
  | l :: ls' =>
    let lval := match i with O => maxl | S i' => Z.of_nat i' end in
    match shell_of_line lval l with
    | Some s => s :: shells_from maxl (S i) ls'
    | None => shells_from maxl (S i) ls'
    end
  end.

Fixpoint raw_to_atoms (ls : list line) : list xatom :=
  match ls with
  | [] => []
  | LD ((W "ecp" :: W name :: ncore :: maxl :: _) :: _) :: rest =>
    match tok_int maxl with
    | Some ml =>
      mkXAtom name ncore maxl (shells_from ml 0 (firstn (Z.to_nat ml + 1) (filter is_data rest))) :: raw_to_atoms rest
    | None => raw_to_atoms rest
    end
  | _ :: rest => raw_to_atoms rest
  end.

(* ---- structural equality up to the VALUE of decimals ---- *)
Fixpoint list_eqb {A} (eqb : A -> A -> bool) (a b : list A) : bool :=
  match a, b with
  | [], [] => true
  | x :: a', y :: b' => eqb x y && list_eqb eqb a' b'
  | _, _ => false
  end.
Definition prim_eqb (a b : tok * tok * tok) : bool :=
  let '(n1, x1, c1) := a in let '(n2, x2, c2) := b in dec_eqb n1 n2 && dec_eqb x1 x2 && dec_eqb c1 c2.
Definition xshell_eqb (a b : xshell) : bool :=
  dec_eqb (xs_l a) (xs_l b) && dec_eqb (xs_nexp a) (xs_nexp b) && list_eqb prim_eqb (xs_prims a) (xs_prims b).
Definition xatom_eqb (a b : xatom) : bool :=
  String.eqb (xa_name a) (xa_name b) && dec_eqb (xa_ncore a) (xa_ncore b) && dec_eqb (xa_maxl a) (xa_maxl b) &&
  list_eqb xshell_eqb (xa_shells a) (xa_shells b).
(* internal consistency of an XML element: nexp = number of primitives, every lval <= maxl, and
   the first shell listed is the local part lval = maxl *)
Definition xatom_wf (a : xatom) : bool :=
  forallb (fun s => match tok_int (xs_nexp s) with Some n => n =? Z.of_nat (length (xs_prims s)) | None => false end) (xa_shells a) &&
  match tok_int (xa_maxl a) with
  | Some ml => forallb (fun s => match tok_int (xs_l s) with Some l => (0 <=? l) && (l <=? ml) | None => false end) (xa_shells a) &&
               (Z.of_nat (length (xa_shells a)) =? ml + 1)
  | None => false
  end.
Definition set_ok (s : string * list line * list xatom) : bool :=
  let '(_, raw, xml) := s in
  list_eqb xatom_eqb (raw_to_atoms raw) xml && forallb xatom_wf xml.

(* ---- the loader ---- *)
Record gprim := mkG { g_n : Z; g_l : Z; g_a : tok; g_d : tok }.     (* n already reduced by 2 *)

Definition prims_of (a : xatom) : list gprim :=
  flat_map (fun s => match tok_int (xs_l s) with
                     | Some l => flat_map (fun p => let '(n, x, c) := p in
                                                    match tok_int n with Some nz => [mkG (nz - 2) l x c] | None => [] end) (xs_prims s)
                     | None => [] end) (xa_shells a).

(* l_starts bookkeeping of addPrimitive: for lx in l+1 .. MAX_L+1: l_starts[lx] += 1 *)
Definition bump (l : Z) (ls : list Z) : list Z :=
  map (fun p => if l <? Z.of_nat (fst p) then snd p + 1 else snd p) (combine (seq 0 (length ls)) ls).
Definition l_starts_of (maxL : nat) (ps : list gprim) : list Z :=
  fold_left (fun ls g => bump (g_l g) ls) ps (repeat 0 (maxL + 2)).
Definition maxl_of (ps : list gprim) : Z := fold_left (fun L g => if L <? g_l g then g_l g else L) ps (-1).

Section Eval.
  Context {T : Type} (o : NumOps T).
  Definition tnum (t : tok) : T := match t with D m e => ndec o m e | W _ => n0 o end.
  (* FAST_POW[p](r), p = n > -1 ? n : MAX_POW - n *)
  Fixpoint npow (r : T) (k : nat) : T := match k with O => n1 o | S k' => nmul o r (npow r k') end.
  Definition fast_pow (p : Z) (r : T) : T :=
    if p =? 21 then ndiv o (n1 o) r
    else if p =? 22 then ndiv o (n1 o) (nmul o r r)
    else npow r (Z.to_nat p).
  Definition pow_index (n : Z) : Z := if -1 <? n then n else 20 - n.
  Definition term (r : T) (g : gprim) : T :=
    nmul o (nmul o (fast_pow (pow_index (g_n g)) r) (tnum (g_d g))) (nexp o (nopp o (nmul o (tnum (g_a g)) (nmul o r r)))).
  (* evaluate(r, l) over the stored (sorted) primitives and l_starts *)
  Definition evaluate (sorted : list gprim) (ls : list Z) (r : T) (l : nat) : T :=
    let a := Z.to_nat (nth l ls 0) in let b := Z.to_nat (nth (S l) ls 0) in
    fold_left (fun acc g => nadd o acc (term r g)) (firstn (b - a) (skipn a sorted)) (n0 o).
  (* the specification: the sum of the Gaussians of angular momentum l *)
  Definition evaluate_spec (ps : list gprim) (r : T) (l : nat) : T :=
    fold_left (fun acc g => nadd o acc (term r g)) (filter (fun g => g_l g =? Z.of_nat l) ps) (n0 o).
  Definition min_by (ps : list gprim) (init : T) (sel : gprim -> bool) : T :=
    fold_left (fun m g => if sel g then (if nltb o (tnum (g_a g)) m then tnum (g_a g) else m) else m) ps init.
End Eval.
