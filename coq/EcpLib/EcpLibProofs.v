From Coq Require Import String ZArith List Bool Arith PeanoNat Lia Permutation Sorting.Sorted.
From LV Require Import Base.NumOps EcpLib.EcpLibModel.
Import ListNotations.
Local Open Scope Z_scope.

Definition cnt (p : gprim -> bool) (ps : list gprim) : Z := Z.of_nat (length (filter p ps)).

Lemma bump_length l ls : length (bump l ls) = length ls.
Proof. unfold bump. rewrite map_length, combine_length, seq_length. lia. Qed.

Lemma map_nth_lt {A B} (f : A -> B) l j d d' : (j < length l)%nat -> nth j (map f l) d = f (nth j l d').
Proof. revert j. induction l as [|x l IH]; intros [|j] H; cbn in *; try lia; auto. apply IH. lia. Qed.

Lemma nth_bump l ls j : (j < length ls)%nat ->
  nth j (bump l ls) 0 = nth j ls 0 + (if l <? Z.of_nat j then 1 else 0).
Proof.
  intros H. unfold bump.
  rewrite (map_nth_lt _ _ _ _ (0%nat, 0)) by (rewrite combine_length, seq_length; lia).
  rewrite combine_nth by (now rewrite seq_length).
  rewrite seq_nth by exact H. cbn [fst snd]. replace (0 + j)%nat with j by lia. destruct (l <? Z.of_nat j); lia.
Qed.

Lemma fold_bump_length ps ls : length (fold_left (fun ls g => bump (g_l g) ls) ps ls) = length ls.
Proof. revert ls. induction ps as [|g ps IH]; intros ls; cbn; [reflexivity|]. now rewrite IH, bump_length. Qed.

Lemma fold_bump_nth ps ls j : (j < length ls)%nat ->
  nth j (fold_left (fun ls g => bump (g_l g) ls) ps ls) 0 = nth j ls 0 + cnt (fun g => g_l g <? Z.of_nat j) ps.
Proof.
  revert ls. induction ps as [|g ps IH]; intros ls H; cbn [fold_left].
  - unfold cnt. cbn. lia.
  - rewrite IH by (now rewrite bump_length). rewrite nth_bump by exact H.
    unfold cnt. cbn [filter]. destruct (g_l g <? Z.of_nat j); cbn [length]; lia.
Qed.

(* l_starts[j] = number of primitives with angular momentum below j, after ANY sequence of addPrimitive *)
Theorem lstarts_count maxL ps j : (j <= maxL + 1)%nat ->
  nth j (l_starts_of maxL ps) 0 = cnt (fun g => g_l g <? Z.of_nat j) ps.
Proof.
  intros H. unfold l_starts_of. rewrite fold_bump_nth by (rewrite repeat_length; lia).
  rewrite nth_repeat. lia.
Qed.

(* ---- sorted lists split into < l, = l, > l ---- *)
Definition key_le (a b : gprim) : Prop := g_l a <= g_l b.

Lemma filter_nil_of {A} (p : A -> bool) s : (forall x, In x s -> p x = false) -> filter p s = [].
Proof.
  induction s as [|x s IH]; intros H; cbn; [reflexivity|].
  rewrite H by (now left). apply IH. intros; apply H; now right.
Qed.

Lemma sorted_split s l : StronglySorted key_le s ->
  s = filter (fun g => g_l g <? l) s ++ filter (fun g => g_l g =? l) s ++ filter (fun g => l <? g_l g) s.
Proof.
  induction 1 as [|x s Hs IH Hall]; [reflexivity|].
  rewrite Forall_forall in Hall. cbn [filter].
  destruct (Z.ltb_spec (g_l x) l) as [Hlt|Hge].
  - replace (g_l x =? l) with false by (symmetry; apply Z.eqb_neq; lia).
    replace (l <? g_l x) with false by (symmetry; apply Z.ltb_ge; lia).
    cbn [app]. f_equal. exact IH.
  - assert (E1 : filter (fun g => g_l g <? l) s = []).
    { apply filter_nil_of. intros y Hy. specialize (Hall _ Hy). unfold key_le in Hall. apply Z.ltb_ge. lia. }
    rewrite E1 in *. cbn [app] in *.
    destruct (Z.eqb_spec (g_l x) l) as [Heq|Hne].
    + replace (l <? g_l x) with false by (symmetry; apply Z.ltb_ge; lia). cbn [app]. f_equal. exact IH.
    + assert (E2 : filter (fun g => g_l g =? l) s = []).
      { apply filter_nil_of. intros y Hy. specialize (Hall _ Hy). unfold key_le in Hall. apply Z.eqb_neq. lia. }
      rewrite E2 in *. cbn [app] in *.
      replace (l <? g_l x) with true by (symmetry; apply Z.ltb_lt; lia). f_equal. exact IH.
Qed.

Lemma perm_filter_length {A} (p : A -> bool) s t : Permutation s t -> length (filter p s) = length (filter p t).
Proof.
  induction 1 as [|x s t _ IH|x y s|s t u _ IH1 _ IH2]; cbn; try lia.
  - destruct (p x); cbn; lia.
  - destruct (p x), (p y); cbn; lia.
Qed.

Lemma cnt_succ ps (l : nat) :
  cnt (fun g => g_l g <? Z.of_nat (S l)) ps = cnt (fun g => g_l g <? Z.of_nat l) ps + cnt (fun g => g_l g =? Z.of_nat l) ps.
Proof.
  unfold cnt. induction ps as [|g ps IH]; cbn [filter length]; [reflexivity|].
  destruct (Z.ltb_spec (g_l g) (Z.of_nat (S l))), (Z.ltb_spec (g_l g) (Z.of_nat l)), (Z.eqb_spec (g_l g) (Z.of_nat l));
    cbn [length]; lia.
Qed.

(* For ANY arrangement of the primitives that is sorted by angular momentum (whatever std::sort
   produced), the positions [l_starts[l], l_starts[l+1]) hold exactly the primitives of momentum l. *)
Theorem sorted_slice maxL ps sorted (l : nat) :
  Permutation sorted ps -> StronglySorted key_le sorted -> (l <= maxL)%nat ->
  let ls := l_starts_of maxL ps in
  let a := Z.to_nat (nth l ls 0) in let b := Z.to_nat (nth (S l) ls 0) in
  firstn (b - a) (skipn a sorted) = filter (fun g => g_l g =? Z.of_nat l) sorted.
Proof.
  intros Hp Hs Hl. cbn zeta.
  rewrite !lstarts_count by lia. rewrite cnt_succ.
  unfold cnt. rewrite <- !(perm_filter_length _ _ _ Hp).
  set (A := filter (fun g => g_l g <? Z.of_nat l) sorted).
  set (B := filter (fun g => g_l g =? Z.of_nat l) sorted).
  rewrite Nat2Z.id. rewrite <- Nat2Z.inj_add, Nat2Z.id.
  replace (length A + length B - length A)%nat with (length B) by lia.
  rewrite (sorted_split sorted (Z.of_nat l) Hs) at 1. fold A B.
  rewrite skipn_app, skipn_all, Nat.sub_diag. cbn [skipn app].
  rewrite firstn_app, firstn_all, Nat.sub_diag. cbn [firstn]. apply app_nil_r.
Qed.

(* ECP::evaluate returns the sum of the Gaussians of angular momentum l (any numeric dictionary) *)
Theorem evaluate_sum {T} (o : NumOps T) maxL ps sorted r (l : nat) :
  Permutation sorted ps -> StronglySorted key_le sorted -> (l <= maxL)%nat ->
  evaluate o sorted (l_starts_of maxL ps) r l = evaluate_spec o sorted r l.
Proof. intros Hp Hs Hl. unfold evaluate, evaluate_spec. now rewrite (sorted_slice maxL ps sorted l Hp Hs Hl). Qed.

(* the local part sits at the highest angular momentum: L = max l *)
Lemma maxl_of_ge ps : forall L0 g, In g ps ->
  g_l g <= fold_left (fun L g => if L <? g_l g then g_l g else L) ps L0.
Proof.
  induction ps as [|x ps IH]; intros L0 g Hin; [destruct Hin|]. cbn [fold_left].
  assert (Hmono : forall L1 L2, L1 <= L2 ->
     fold_left (fun L g => if L <? g_l g then g_l g else L) ps L1 <= fold_left (fun L g => if L <? g_l g then g_l g else L) ps L2).
  { clear. induction ps as [|y ps IH]; intros L1 L2 H; cbn [fold_left]; [exact H|].
    apply IH. destruct (Z.ltb_spec L1 (g_l y)), (Z.ltb_spec L2 (g_l y)); lia. }
  assert (Hge : forall L1, L1 <= fold_left (fun L g => if L <? g_l g then g_l g else L) ps L1).
  { clear. induction ps as [|y ps IH]; intros L1; cbn [fold_left]; [lia|].
    etransitivity; [|apply IH]. destruct (Z.ltb_spec L1 (g_l y)); lia. }
  destruct Hin as [->|Hin].
  - etransitivity; [|apply Hge]. destruct (Z.ltb_spec L0 (g_l g)); lia.
  - now apply IH.
Qed.
Theorem maxl_is_max ps g : In g ps -> g_l g <= maxl_of ps.
Proof. apply maxl_of_ge. Qed.

(* negative powers are routed to the reciprocal entries of the table *)
Theorem pow_index_range n : -2 <= n <= 20 -> 0 <= pow_index n <= 22 /\
  (n = -1 -> pow_index n = 21) /\ (n = -2 -> pow_index n = 22) /\ (0 <= n -> pow_index n = n).
Proof. unfold pow_index. intros H. destruct (Z.ltb_spec (-1) n); lia. Qed.
