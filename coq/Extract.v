(* Extraction of the executable models.  ExtrOcamlBasic only: bool, option,
   unit, list, prod, sumbool, sumor are mapped to OCaml's; nat, positive, Z, Q
   stay as extracted inductives; numbers of the models are whatever NumOps
   record the OCaml driver passes in. *)
From Coq Require Extraction.
From Coq Require Import ExtrOcamlBasic.
From LV Require Import Base.NumOps Base.Cart Deriv.DerivModel Api.ApiModel History.HistoryModel CopySem.CopyModel EcpLib.EcpLibModel Base.QInst Angular.AngularModel Quad.QuadModel Bessel.BesselModel Bessel.BesselSpec Rot.RotModel ShellPair.ShellPairModel ShellPair.PairEstimate Radial.EstimateModel.
Extraction Language OCaml.
Extraction "vext.ml" mkNumOps cart nindex ncart lsd lssd mixed off_centre cspd csp2
  atom_ids locate updates1 updates2 integrals_entry first_entry second_entry hdiag hpair
  trace init_state discipline_ok
  cstep cinit obs_of obs_eqb invb pclass_of centre_of sem_ok path_complete gcopy
  prims_of l_starts_of maxl_of tok_int tnum term evaluate evaluate_spec min_by
  QOps ubar pbar pbar_closed wbar_code_gen wbar_code wbar_spec obar_code_gen obar_code obar_spec yterms cnorm
  maxN_one maxN_two init_grid integrate_one integrate_two rminmax st_indices
  node_K node_dK calc_vec calc_one PA PB expand
  type1 t2_both rolled_up rolled_up_special combine_pair pair_t2
  prim_estimate upper_bound pair_estimate.
