(* Extraction of the executable models.  ExtrOcamlBasic only: bool, option,
   unit, list, prod, sumbool, sumor are mapped to OCaml's; nat, positive, Z, Q
   stay as extracted inductives; numbers of the models are whatever NumOps
   record the OCaml driver passes in. *)
From Coq Require Extraction.
From Coq Require Import ExtrOcamlBasic.
From LV Require Import Base.NumOps Base.Cart Deriv.DerivModel.
Extraction Language OCaml.
Extraction "vext.ml" mkNumOps cart nindex ncart lsd lssd mixed off_centre cspd csp2.
