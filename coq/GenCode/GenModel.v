(* C09: validation of the generated (unrolled) angular-contraction code against the exact angular model.
   A generated line
       values(na, nb, mui) += c * CA(0, na', ax, ay, az) * CB(0, nb', bx, by, bz) * radials(N, l1, l2) * SA(l1', m1i) * SB(l2', m2i);
   is read by the translator into an [rterm] (all fields as printed; the coefficient as the exact rational value of the
   decimal).  [class_ok] decides, in exact rational arithmetic, that the lines of one class
     - are index-consistent and within the loop ranges of the generic contraction (qgen::rolled_up),
     - carry, for every line, the coefficient 16 pi^2 Omega_A Omega_B of the exact angular model to 1e-11 relative
       (or |c| <= delta when the exact coefficient vanishes),
     - contain no duplicate and miss no term whose exact coefficient is non-zero.
   No proofs here (GenProofs.v). *)
From Coq Require Import List Arith ZArith QArith Qabs Bool PeanoNat.
From LV Require Import Base.NumOps Base.Cart Base.QInst Angular.AngularModel ShellPair.ShellPairModel.
Import ListNotations.
Local Open Scope nat_scope.

Record rterm := mkRT {
  r_na : nat; r_nb : nat; r_mui : nat; r_coef : Q;
  r_cana : nat; r_a : nat * nat * nat; r_cbnb : nat; r_b : nat * nat * nat;
  r_N : nat; r_l1 : nat; r_l2 : nat; r_sal : nat; r_sam : nat; r_sbl : nat; r_sbm : nat }.

Definition key := list nat.
Fixpoint keyeqb (a b : key) : bool :=
  match a, b with
  | [], [] => true
  | x :: a', y :: b' => Nat.eqb x y && keyeqb a' b'
  | _, _ => false
  end.
Fixpoint nodupb (l : list key) : bool :=
  match l with [] => true | x :: r => negb (existsb (keyeqb x) r) && nodupb r end.
Definition memb (k : key) (l : list key) : bool := existsb (keyeqb k) l.

Definition deg (t : nat * nat * nat) : nat := let '(x, y, z) := t in x + y + z.
Definition le3 (a f : nat * nat * nat) : bool :=
  let '(ax, ay, az) := a in let '(x, y, z) := f in (ax <=? x) && (ay <=? y) && (az <=? z).

(* ---- the exact angular factors, memoised: Omega(a; lam mu; l m) = 4 obar sqrt(c(lam,mu) c(l,m)) ---- *)
Definition okey_of (a : nat * nat * nat) (mui l mi : nat) : key := let '(ax, ay, az) := a in [ax; ay; az; mui; l; mi].
Definition obq_key (lam : nat) (k : key) : Q :=
  match k with
  | [ax; ay; az; mui; l; mi] => obar_code QOps 10 ax ay az lam (Z.of_nat mui - Z.of_nat lam) l (Z.of_nat mi - Z.of_nat l)
  | _ => 0%Q
  end.
Definition alphas1 : list (nat * nat * nat) := [(0, 0, 0); (1, 0, 0); (0, 1, 0); (0, 0, 1)].
Definition okeys (lam : nat) : list key :=
  flat_map (fun a => flat_map (fun mui => flat_map (fun l => map (fun mi => okey_of a mui l mi) (seq 0 (2 * l + 1)))
                                                     (seq 0 (lam + 2))) (seq 0 (2 * lam + 1))) alphas1.
Definition in_dom (lam : nat) (k : key) : bool :=
  match k with
  | [ax; ay; az; mui; l; mi] => (ax + ay + az <=? 1) && (mui <=? 2 * lam) && (l <=? lam + 1) && (mi <=? 2 * l)
  | _ => false
  end.
Definition omtab (lam : nat) : list (key * Q) :=
  filter (fun kv => negb (Qeq_bool (snd kv) 0%Q)) (map (fun k => (k, obq_key lam k)) (okeys lam)).
Fixpoint assocq (tab : list (key * Q)) (k : key) : Q :=
  match tab with [] => 0%Q | (k', v) :: r => if keyeqb k k' then v else assocq r k end.
Definition oblook (lam : nat) (tab : list (key * Q)) (k : key) : Q :=
  if in_dom lam k then assocq tab k else obq_key lam k.

(* ---- the rational test for |d - pi^2 qp sqrt(s)| <= eps |pi^2 qp sqrt(s)| ---- *)
Definition PIlo : Q := (3141592653589793238462643383279502884197 # 1000000000000000000000000000000000000000)%Q.
Definition PIhi : Q := (3141592653589793238462643383279502884198 # 1000000000000000000000000000000000000000)%Q.
Definition eps : Q := (1 # 100000000000)%Q.
Definition delta : Q := (158 # 100000000000)%Q.        (* >= 1e-11 * 16 pi^2 *)
Definition coef_close (d qp s : Q) : bool :=
  let r := Qred (d / qp)%Q in
  let r2 := Qred (r * r)%Q in
  Qle_bool 0%Q r
  && Qle_bool (Qred ((1 - eps) * (1 - eps) * (PIhi * PIhi * PIhi * PIhi) * s)%Q) r2
  && Qle_bool r2 (Qred ((1 + eps) * (1 + eps) * (PIlo * PIlo * PIlo * PIlo) * s)%Q).

Section Target.
  Variables (lam : nat) (tab : list (key * Q)).
  Definition ob (a : nat * nat * nat) (mui l mi : nat) : Q := oblook lam tab (okey_of a mui l mi).
  Definition cn (l mi : nat) : Q := cnorm QOps l (Z.of_nat mi - Z.of_nat l).
  Definition tkey (t : rterm) : key :=
    let '(ax, ay, az) := r_a t in let '(bx, by_, bz) := r_b t in [ax; ay; az; bx; by_; bz; r_l1 t; r_sam t; r_l2 t; r_sbm t].
  (* rational part and radicand of the exact coefficient pi^2 * qpart * sqrt(spart) *)
  Definition qpart (mui : nat) (a b : nat * nat * nat) (l1 m1i l2 m2i : nat) : Q :=
    Qred (256 * ob a mui l1 m1i * ob b mui l2 m2i * cn lam mui)%Q.
  Definition spart (l1 m1i l2 m2i : nat) : Q := Qred (cn l1 m1i * cn l2 m2i)%Q.
  Definition in_loops (a b : nat * nat * nat) (l1 m1i l2 m2i : nat) : bool :=
    (l1 <=? lam + deg a) && (l2 <=? lam + deg b) && ((l1 + (deg a + deg b)) mod 2 =? l2 mod 2) && (m1i <=? 2 * l1) && (m2i <=? 2 * l2).
  Definition tq (mui : nat) (t : rterm) : Q :=
    if in_loops (r_a t) (r_b t) (r_l1 t) (r_sam t) (r_l2 t) (r_sbm t)
    then qpart mui (r_a t) (r_b t) (r_l1 t) (r_sam t) (r_l2 t) (r_sbm t) else 0%Q.
  Definition ts (t : rterm) : Q := spart (r_l1 t) (r_sam t) (r_l2 t) (r_sbm t).

  (* one generated line, for the target (na, nb, mui) with Cartesian functions fa, fb *)
  Definition wf_term (fa fb : nat * nat * nat) (na nb : nat) (t : rterm) : bool :=
    (r_cana t =? na) && (r_cbnb t =? nb) && (r_sal t =? r_l1 t) && (r_sbl t =? r_l2 t) && (r_N t =? deg (r_a t) + deg (r_b t))
    && le3 (r_a t) fa && le3 (r_b t) fb.
  Definition coef_ok (mui : nat) (t : rterm) : bool :=
    let qp := tq mui t in
    if Qeq_bool qp 0%Q then Qle_bool (Qabs (r_coef t)) delta else coef_close (r_coef t) qp (ts t).

  (* the keys of the non-zero terms, in the loop order of qgen::rolled_up *)
  Definition expected (fa fb : nat * nat * nat) (mui : nat) : list key :=
    flat_map (fun a => flat_map (fun b =>
      flat_map (fun l1 => flat_map (fun l2 =>
        flat_map (fun m1i => flat_map (fun m2i =>
          if Qeq_bool (qpart mui a b l1 m1i l2 m2i) 0%Q then []
          else [let '(ax, ay, az) := a in let '(bx, by_, bz) := b in [ax; ay; az; bx; by_; bz; l1; m1i; l2; m2i]])
          (seq 0 (2 * l2 + 1))) (seq 0 (2 * l1 + 1)))
        (step2_from ((l1 + (deg a + deg b)) mod 2) (lam + deg b))) (upto (lam + deg a)))
      (subidx fb)) (subidx fa).

  Definition target_ok (fa fb : nat * nat * nat) (na nb mui : nat) (G : list rterm) : bool :=
    let E := expected fa fb mui in
    let Gnz := filter (fun t => negb (Qeq_bool (tq mui t) 0%Q)) G in
    forallb (wf_term fa fb na nb) G && forallb (coef_ok mui) G
    && nodupb (map tkey G) && nodupb E
    && forallb (fun k => memb k (map tkey Gnz)) E
    && forallb (fun t => memb (tkey t) E) Gnz.
End Target.

Definition is_target (na nb mui : nat) (t : rterm) : bool := (r_na t =? na) && (r_nb t =? nb) && (r_mui t =? mui).

(* all lines of the class Q(LA, LB, lam) *)
Definition class_ok_tab (tab : list (key * Q)) (LA LB lam : nat) (G : list rterm) : bool :=
  forallb (fun t => (r_na t <? ncart LA) && (r_nb t <? ncart LB) && (r_mui t <=? 2 * lam)) G
  && forallb (fun na => forallb (fun nb => forallb (fun mui =>
       target_ok lam tab (nth na (cart LA) (0, 0, 0)) (nth nb (cart LB) (0, 0, 0)) na nb mui (filter (is_target na nb mui) G))
       (seq 0 (2 * lam + 1))) (seq 0 (ncart LB))) (seq 0 (ncart LA)).
Definition class_ok (LA LB lam : nat) (G : list rterm) : bool := class_ok_tab (omtab lam) LA LB lam G.

(* all unrolled classes of one configuration: (LA, LB, lam, lines) *)
Definition config_ok (cls : list (nat * nat * nat * list rterm)) : bool :=
  forallb (fun c => let '(LA, LB, lam, G) := c in class_ok LA LB lam G) cls.
(* diagnostic: the classes that fail *)
Definition config_bad (cls : list (nat * nat * nat * list rterm)) : list (nat * nat * nat) :=
  map (fun c => let '(LA, LB, lam, _) := c in (LA, LB, lam)) (filter (fun c => let '(LA, LB, lam, G) := c in negb (class_ok LA LB lam G)) cls).

(* diagnostics for a failing class: (na, nb, mui, code, key) with code 1 = ill-formed line, 2 = coefficient, 3 = duplicate line,
   4 = missing non-zero term, 5 = line with a non-zero exact coefficient outside the loop ranges, 6 = target outside the block *)
Definition target_diag (lam : nat) (tab : list (key * Q)) (fa fb : nat * nat * nat) (na nb mui : nat) (G : list rterm)
  : list (nat * nat * nat * nat * key) :=
  let E := expected lam tab fa fb mui in
  let Gnz := filter (fun t => negb (Qeq_bool (tq lam tab mui t) 0%Q)) G in
  map (fun t => (na, nb, mui, 1, tkey t)) (filter (fun t => negb (wf_term fa fb na nb t)) G)
  ++ map (fun t => (na, nb, mui, 2, tkey t)) (filter (fun t => negb (coef_ok lam tab mui t)) G)
  ++ (if nodupb (map tkey G) then [] else [(na, nb, mui, 3, [])])
  ++ map (fun k => (na, nb, mui, 4, k)) (filter (fun k => negb (memb k (map tkey Gnz))) E)
  ++ map (fun t => (na, nb, mui, 5, tkey t)) (filter (fun t => negb (memb (tkey t) E)) Gnz).
Definition class_diag (LA LB lam : nat) (G : list rterm) : list (nat * nat * nat * nat * key) :=
  let tab := omtab lam in
  map (fun t => (r_na t, r_nb t, r_mui t, 6, tkey t)) (filter (fun t => negb ((r_na t <? ncart LA) && (r_nb t <? ncart LB) && (r_mui t <=? 2 * lam))) G)
  ++ flat_map (fun na => flat_map (fun nb => flat_map (fun mui =>
       target_diag lam tab (nth na (cart LA) (0, 0, 0)) (nth nb (cart LB) (0, 0, 0)) na nb mui (filter (is_target na nb mui) G))
       (seq 0 (2 * lam + 1))) (seq 0 (ncart LB))) (seq 0 (ncart LA)).
Definition config_diag (cls : list (nat * nat * nat * list rterm)) : list (nat * nat * nat * list (nat * nat * nat * nat * key)) :=
  flat_map (fun c => let '(LA, LB, lam, G) := c in
                     if class_ok LA LB lam G then [] else [(LA, LB, lam, firstn 6 (class_diag LA LB lam G))]) cls.
