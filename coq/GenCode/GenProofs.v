(* C09: soundness of the rational checker of GenModel.v over the reals.
   If [class_ok LA LB lam G = true] then, for every target values(na, nb, mui) of the class and every value of the leaves
   (binomial coefficient arrays, radial table, harmonics), the sum of the generated lines differs from the sum of the
   exact terms  16 pi^2 Omega_A Omega_B * CA CB radials SA SB  (exact angular model of C13, loop ranges of
   qgen::rolled_up) by at most eps * (sum of the absolute exact terms) + delta * (sum of |leaf monomial| over the lines
   whose exact coefficient vanishes). *)
From Coq Require Import List Arith ZArith QArith Qabs Qreals Bool PeanoNat Reals Lra Lia Permutation.
From Interval Require Import Tactic.
From LV Require Import Base.NumOps Base.Cart Base.QInst Angular.AngularModel ShellPair.ShellPairModel.
From LV Require Import ShellPair.ShellPairScreen ShellPair.ShellPairSym GenCode.GenModel.
Import ListNotations.
Local Open Scope R_scope.

(* ---------- booleans on keys ---------- *)
Lemma keyeqb_eq a b : keyeqb a b = true <-> a = b.
Proof.
  revert b. induction a as [|x a IH]; intros [|y b]; cbn [keyeqb]; split; intros H; try reflexivity; try discriminate.
  - apply andb_prop in H. destruct H as [H1 H2]. apply Nat.eqb_eq in H1. apply IH in H2. now subst.
  - inversion H; subst. rewrite Nat.eqb_refl. cbn. now apply IH.
Qed.
Lemma memb_In k l : memb k l = true <-> In k l.
Proof.
  unfold memb. rewrite existsb_exists. split.
  - intros [x [Hx He]]. apply keyeqb_eq in He. now subst.
  - intros H. exists k. split; [exact H | now apply keyeqb_eq].
Qed.
Lemma nodupb_NoDup l : nodupb l = true -> NoDup l.
Proof.
  induction l as [|x l IH]; cbn [nodupb]; intros H; [constructor|].
  apply andb_prop in H. destruct H as [H1 H2]. constructor; [|now apply IH].
  intros Hin. apply memb_In in Hin. unfold memb in Hin. rewrite Hin in H1. discriminate.
Qed.

(* ---------- Q2R helpers ---------- *)
Lemma Q2R_red q : Q2R (Qred q) = Q2R q.
Proof. apply Qeq_eqR. apply Qred_correct. Qed.
Lemma Q2R_abs q : Q2R (Qabs q) = Rabs (Q2R q).
Proof.
  apply Qabs_case; intros H.
  - rewrite Rabs_right; [reflexivity|]. apply Rle_ge. replace 0 with (Q2R 0) by (unfold Q2R; cbn; lra). now apply Qle_Rle.
  - rewrite Q2R_opp, Rabs_left1; [reflexivity|]. replace 0 with (Q2R 0) by (unfold Q2R; cbn; lra). now apply Qle_Rle.
Qed.
Lemma Q2R_0 : Q2R 0 = 0. Proof. unfold Q2R; cbn; lra. Qed.
Lemma Q2R_1 : Q2R 1 = 1. Proof. unfold Q2R; cbn; lra. Qed.
Lemma Qle_bool_R a b : Qle_bool a b = true -> Q2R a <= Q2R b.
Proof. intros H. apply Qle_Rle. now apply Qle_bool_iff. Qed.
Lemma Qeq_bool_R a : Qeq_bool a 0 = true -> Q2R a = 0.
Proof. intros H. rewrite <- Q2R_0. apply Qeq_eqR. now apply Qeq_bool_iff. Qed.
Lemma Qeq_bool_R_neq a : Qeq_bool a 0 = false -> Q2R a <> 0.
Proof.
  intros H E. rewrite <- Q2R_0 in E. apply eqR_Qeq in E. apply Qeq_bool_iff in E. congruence.
Qed.

(* ---------- pi between the two rationals ---------- *)
Lemma PI_bounds : Q2R PIlo < PI < Q2R PIhi.
Proof.
  unfold PIlo, PIhi, Q2R. cbn [Qnum Qden].
  split; interval with (i_prec 160).
Qed.

(* ---------- the coefficient test ---------- *)
Lemma sq_le_le a b : 0 <= a -> 0 <= b -> a * a <= b * b -> a <= b.
Proof. intros Ha Hb H. destruct (Rle_lt_dec a b) as [|L]; [assumption|]. exfalso. assert (b * b < a * a) by nra. lra. Qed.

Lemma coef_close_sound d qp s :
  coef_close d qp s = true -> Q2R qp <> 0 -> 0 <= Q2R s ->
  Rabs (Q2R d - PI * PI * Q2R qp * sqrt (Q2R s)) <= Q2R eps * Rabs (PI * PI * Q2R qp * sqrt (Q2R s)).
Proof.
  unfold coef_close. intros H Hq Hs.
  apply andb_prop in H. destruct H as [H H3]. apply andb_prop in H. destruct H as [H1 H2].
  set (rq := Qred (d / qp)) in *.
  apply Qle_bool_R in H1, H2, H3.
  assert (Hqq : ~ (qp == 0)%Q) by (intros E; apply Hq; rewrite <- Q2R_0; now apply Qeq_eqR).
  assert (Erq : Q2R rq = Q2R (d / qp)) by apply Q2R_red.
  rewrite Q2R_0 in H1.
  repeat first [rewrite Q2R_red in H2 | rewrite Q2R_mult in H2 | rewrite Q2R_minus in H2].
  repeat first [rewrite Q2R_red in H3 | rewrite Q2R_mult in H3 | rewrite Q2R_plus in H3].
  rewrite ?Q2R_1 in H2, H3.
  set (r := Q2R rq) in *.
  assert (Er : Q2R d = r * Q2R qp).
  { subst r. rewrite Erq. unfold Qdiv. rewrite Q2R_mult, Q2R_inv by exact Hqq. field. exact Hq. }
  pose proof PI_bounds as [Pl Ph].
  assert (Pl0 : 0 < Q2R PIlo) by (unfold PIlo, Q2R; cbn [Qnum Qden]; lra).
  set (e := Q2R eps) in *.
  assert (He : 0 < e < 1) by (unfold e, eps, Q2R; cbn [Qnum Qden]; lra).
  set (S := Q2R s) in *. set (lo := Q2R PIlo) in *. set (hi := Q2R PIhi) in *.
  set (E := PI * PI * sqrt S).
  assert (HE : 0 <= E) by (unfold E; pose proof (sqrt_pos S); nra).
  assert (HE2 : E * E = PI * PI * PI * PI * S).
  { unfold E. transitivity (PI * PI * PI * PI * (sqrt S * sqrt S)); [ring|]. rewrite sqrt_sqrt by exact Hs. reflexivity. }
  assert (P4l : lo * lo * lo * lo <= PI * PI * PI * PI).
  { assert (lo * lo <= PI * PI) by nra. nra. }
  assert (P4h : PI * PI * PI * PI <= hi * hi * hi * hi).
  { assert (PI * PI <= hi * hi) by nra. assert (0 <= PI * PI) by nra. nra. }
  (* (1-e) E <= r <= (1+e) E *)
  assert (L1 : (1 - e) * E <= r).
  { apply sq_le_le; [nra | exact H1 |].
    apply Rle_trans with ((1 - e) * (1 - e) * (hi * hi * hi * hi) * S); [|exact H2].
    replace ((1 - e) * E * ((1 - e) * E)) with ((1 - e) * (1 - e) * (E * E)) by ring. rewrite HE2.
    replace ((1 - e) * (1 - e) * (hi * hi * hi * hi) * S) with ((1 - e) * (1 - e) * ((hi * hi * hi * hi) * S)) by ring.
    apply Rmult_le_compat_l; [nra|]. apply Rmult_le_compat_r; [exact Hs | exact P4h]. }
  assert (L2 : r <= (1 + e) * E).
  { apply sq_le_le; [exact H1 | nra |].
    apply Rle_trans with ((1 + e) * (1 + e) * (lo * lo * lo * lo) * S); [exact H3|].
    replace ((1 + e) * E * ((1 + e) * E)) with ((1 + e) * (1 + e) * (E * E)) by ring. rewrite HE2.
    replace ((1 + e) * (1 + e) * (lo * lo * lo * lo) * S) with ((1 + e) * (1 + e) * ((lo * lo * lo * lo) * S)) by ring.
    apply Rmult_le_compat_l; [nra|]. apply Rmult_le_compat_r; [exact Hs | exact P4l]. }
  rewrite Er.
  replace (r * Q2R qp - PI * PI * Q2R qp * sqrt S) with ((r - E) * Q2R qp) by (unfold E; ring).
  replace (PI * PI * Q2R qp * sqrt S) with (E * Q2R qp) by (unfold E; ring).
  rewrite !Rabs_mult. rewrite (Rabs_right E) by lra.
  rewrite <- Rmult_assoc. apply Rmult_le_compat_r; [apply Rabs_pos|].
  apply Rabs_le. lra.
Qed.

(* ---------- the memoised angular factor equals the direct evaluation ---------- *)
Lemma in_dom_In lam k : in_dom lam k = true -> In k (okeys lam).
Proof.
  destruct k as [|ax [|ay [|az [|mui [|l [|mi [|? ?]]]]]]]; cbn [in_dom]; try discriminate.
  intros H. repeat (apply andb_prop in H; destruct H as [H ?]).
  apply Nat.leb_le in H, H0, H1, H2.
  unfold okeys. apply in_flat_map. exists (ax, ay, az). split.
  { unfold alphas1. destruct ax as [|[|?]], ay as [|[|?]], az as [|[|?]]; try lia; cbn; auto 6. }
  apply in_flat_map. exists mui. split; [apply in_seq; lia|].
  apply in_flat_map. exists l. split; [apply in_seq; lia|].
  apply in_map_iff. exists mi. split; [reflexivity | apply in_seq; lia].
Qed.

Lemma assocq_spec (f : key -> Q) keys k :
  In k keys ->
  Q2R (assocq (filter (fun kv => negb (Qeq_bool (snd kv) 0)) (map (fun k => (k, f k)) keys)) k) = Q2R (f k).
Proof.
  induction keys as [|k0 keys IH]; intros Hin; [destruct Hin|].
  cbn [map filter snd].
  destruct (Qeq_bool (f k0) 0) eqn:Ez; cbn [negb].
  - destruct (keyeqb k k0) eqn:Ek.
    + apply keyeqb_eq in Ek. subst k0.
      (* f k == 0: whatever the rest of the table holds for k is also f k or 0 *)
      assert (G : forall ks, Q2R (assocq (filter (fun kv => negb (Qeq_bool (snd kv) 0)) (map (fun k => (k, f k)) ks)) k) = Q2R (f k)).
      { induction ks as [|k1 ks IHk]; cbn [map filter snd assocq].
        - rewrite Q2R_0. symmetry. now apply Qeq_bool_R.
        - destruct (Qeq_bool (f k1) 0) eqn:E1; cbn [negb]; [exact IHk|].
          cbn [assocq]. destruct (keyeqb k k1) eqn:Ek1; [|exact IHk]. apply keyeqb_eq in Ek1. now subst. }
      apply G.
    + apply IH. destruct Hin as [->|]; [|assumption]. rewrite (proj2 (keyeqb_eq k k)) in Ek by reflexivity. discriminate.
  - cbn [assocq]. destruct (keyeqb k k0) eqn:Ek.
    + apply keyeqb_eq in Ek. now subst.
    + apply IH. destruct Hin as [->|]; [|assumption]. rewrite (proj2 (keyeqb_eq k k)) in Ek by reflexivity. discriminate.
Qed.

Lemma oblook_spec lam k : Q2R (oblook lam (omtab lam) k) = Q2R (obq_key lam k).
Proof.
  unfold oblook. destruct (in_dom lam k) eqn:E; [|reflexivity].
  unfold omtab. apply assocq_spec. now apply in_dom_In.
Qed.

(* ---------- sums ---------- *)
Lemma Rsum_perm l l' : Permutation l l' -> Rsum l = Rsum l'.
Proof. unfold Rsum. induction 1; cbn [fold_right]; lra. Qed.
Lemma Rsum_map_perm {A} (f : A -> R) l l' : Permutation l l' -> Rsum (map f l) = Rsum (map f l').
Proof. intros H. apply Rsum_perm. now apply Permutation_map. Qed.
Lemma Rsum_abs_le {A} (f g : A -> R) l : (forall x, In x l -> Rabs (f x) <= g x) -> Rabs (Rsum (map f l)) <= Rsum (map g l).
Proof.
  unfold Rsum. induction l as [|x l IH]; intros H; cbn [map fold_right]; [rewrite Rabs_R0; lra|].
  eapply Rle_trans; [apply Rabs_triang|]. apply Rplus_le_compat; [apply H; now left | apply IH; intros; apply H; now right].
Qed.
Lemma Rsum_minus {A} (f g : A -> R) l : Rsum (map f l) - Rsum (map g l) = Rsum (map (fun x => f x - g x) l).
Proof. unfold Rsum. induction l as [|x l IH]; cbn [map fold_right]; [lra|]. rewrite <- IH. lra. Qed.
Lemma Rsum_scal {A} c (f : A -> R) l : c * Rsum (map f l) = Rsum (map (fun x => c * f x) l).
Proof. unfold Rsum. induction l as [|x l IH]; cbn [map fold_right]; [lra|]. rewrite <- IH. lra. Qed.
Lemma Rsum_filter_split {A} (p : A -> bool) (f : A -> R) l :
  Rsum (map f l) = Rsum (map f (filter p l)) + Rsum (map f (filter (fun x => negb (p x)) l)).
Proof.
  unfold Rsum. induction l as [|x l IH]; cbn [map filter fold_right]; [lra|].
  destruct (p x); cbn [negb map fold_right]; rewrite IH; lra.
Qed.
Lemma NoDup_map_filter {A B} (f : A -> B) p l : NoDup (map f l) -> NoDup (map f (filter p l)).
Proof.
  induction l as [|x l IH]; cbn [map filter]; intros H; [constructor|]. inversion H; subst.
  destruct (p x); cbn [map]; [|now apply IH]. constructor; [|now apply IH].
  intros Hin. apply in_map_iff in Hin. destruct Hin as [y [Ey Hy]]. apply filter_In in Hy. destruct Hy as [Hy _].
  apply H2. apply in_map_iff. exists y. now split.
Qed.

(* ---------- semantics over the reals ---------- *)
Section Sem.
  Variables (CA CB : nat -> nat * nat * nat -> R) (rad : nat -> nat -> nat -> R) (SA SB : nat -> nat -> R).
  (* the value a generated line adds to its target *)
  Definition eval_term (t : rterm) : R :=
    Q2R (r_coef t) * CA (r_cana t) (r_a t) * CB (r_cbnb t) (r_b t) * rad (r_N t) (r_l1 t) (r_l2 t) * SA (r_sal t) (r_sam t) * SB (r_sbl t) (r_sbm t).
  (* what the generated function leaves in values(na, nb, mui) (the array starts at zero) *)
  Definition gen_value (G : list rterm) (na nb mui : nat) : R := Rsum (map eval_term (filter (is_target na nb mui) G)).
  (* product of the leaves a key selects *)
  Definition Xk (na nb : nat) (k : key) : R :=
    match k with
    | [ax; ay; az; bx; by_; bz; l1; m1i; l2; m2i] =>
      CA na (ax, ay, az) * CB nb (bx, by_, bz) * rad (ax + ay + az + (bx + by_ + bz)) l1 l2 * SA l1 m1i * SB l2 m2i
    | _ => 0
    end.
  (* the exact coefficient 16 pi^2 Omega_A Omega_B of a key, from the exact angular model (no table) *)
  Definition obk (lam : nat) (a : nat * nat * nat) (mui l mi : nat) : Q := obq_key lam (okey_of a mui l mi).
  Definition cexact (lam mui : nat) (k : key) : R :=
    match k with
    | [ax; ay; az; bx; by_; bz; l1; m1i; l2; m2i] =>
      PI * PI * (256 * Q2R (obk lam (ax, ay, az) mui l1 m1i) * Q2R (obk lam (bx, by_, bz) mui l2 m2i) * Q2R (cn lam mui))
      * sqrt (Q2R (cn l1 m1i) * Q2R (cn l2 m2i))
    | _ => 0
    end.
End Sem.

Section Sound.
  Variables (CA CB : nat -> nat * nat * nat -> R) (rad : nat -> nat -> nat -> R) (SA SB : nat -> nat -> R).
  Variable lam : nat.
  Local Notation tab := (omtab lam).
  Local Notation ev := (eval_term CA CB rad SA SB).
  Local Notation X := (Xk CA CB rad SA SB).

  Lemma cn_nonneg l mi : 0 <= Q2R (cn l mi).
  Proof.
    unfold cn, cnorm. cbn [QOps nofZ nmul ndiv].
    set (amu := Z.abs_nat (Z.of_nat mi - Z.of_nat l)).
    assert (P : forall n, (0 < zfact n)%Z) by (induction n as [|n IH]; cbn [zfact]; [lia | apply Z.mul_pos_pos; lia]).
    assert (G : 0 <= Q2R (Qred (Qred (inject_Z (Z.of_nat (2 * l + 1)) * inject_Z (zfact (l - amu))) / Qred (inject_Z 2 * inject_Z (zfact (l + amu)))))).
    { rewrite Q2R_red. unfold Qdiv. rewrite Q2R_mult, !Q2R_red, !Q2R_mult.
      pose proof (P (l - amu)%nat) as P1. pose proof (P (l + amu)%nat) as P2.
      assert (N2 : ~ (Qred (inject_Z 2 * inject_Z (zfact (l + amu))) == 0)%Q).
      { rewrite Qred_correct. unfold Qeq, Qmult, inject_Z. cbn [Qnum Qden]. rewrite Z.mul_0_l. lia. }
      rewrite Q2R_inv by exact N2. rewrite Q2R_red, Q2R_mult.
      unfold Q2R, inject_Z. cbn [Qnum Qden]. rewrite !Rinv_1, !Rmult_1_r.
      apply Rmult_le_pos.
      - apply Rmult_le_pos; apply IZR_le; lia.
      - left. apply Rinv_0_lt_compat. apply Rmult_lt_0_compat; apply IZR_lt; lia. }
    destruct (amu =? 0)%nat; [|exact G].
    rewrite Q2R_red. unfold Qdiv. rewrite Q2R_mult.
    assert (N2 : ~ (inject_Z 2 == 0)%Q) by (unfold Qeq, inject_Z; cbn; lia).
    rewrite Q2R_inv by exact N2. apply Rmult_le_pos; [exact G|].
    left. apply Rinv_0_lt_compat. unfold Q2R, inject_Z. cbn. lra.
  Qed.

  (* the rational data of a line agree with the exact coefficient of its key *)
  Lemma tq_cexact mui t :
    in_loops lam (r_a t) (r_b t) (r_l1 t) (r_sam t) (r_l2 t) (r_sbm t) = true ->
    PI * PI * Q2R (tq lam tab mui t) * sqrt (Q2R (ts t)) = cexact lam mui (tkey t).
  Proof.
    intros Hl. unfold tq, ts. rewrite Hl. unfold qpart, spart, tkey, cexact.
    destruct (r_a t) as [[ax ay] az], (r_b t) as [[bx by_] bz].
    rewrite !Q2R_red, !Q2R_mult. unfold ob. rewrite !oblook_spec. unfold obk.
    replace (Q2R 256) with 256 by (unfold Q2R; cbn; lra). reflexivity.
  Qed.

  Theorem target_sound fa fb na nb mui G :
    target_ok lam tab fa fb na nb mui G = true ->
    Rabs (Rsum (map ev G) - Rsum (map (fun k => cexact lam mui k * X na nb k) (expected lam tab fa fb mui)))
    <= Q2R eps * Rsum (map (fun k => Rabs (cexact lam mui k * X na nb k)) (expected lam tab fa fb mui))
       + Q2R delta * Rsum (map (fun t => Rabs (X na nb (tkey t))) (filter (fun t => Qeq_bool (tq lam tab mui t) 0) G)).
  Proof.
    unfold target_ok. set (E := expected lam tab fa fb mui).
    set (nz := fun t => negb (Qeq_bool (tq lam tab mui t) 0)).
    intros H. rewrite !andb_true_iff in H. destruct H as [[[[[Hwf Hco] HndG] HndE] HEG] HGE].
    rewrite forallb_forall in Hwf, Hco, HGE, HEG.
    apply nodupb_NoDup in HndE, HndG.
    (* every line is its coefficient times the leaves of its key *)
    assert (Hev : forall t, In t G -> ev t = Q2R (r_coef t) * X na nb (tkey t)).
    { intros t Ht. specialize (Hwf t Ht). unfold wf_term in Hwf.
      rewrite !andb_true_iff in Hwf. destruct Hwf as [[[[[[E1 E2] E3] E4] E5] _] _].
      apply Nat.eqb_eq in E1, E2, E3, E4, E5. unfold eval_term, Xk, tkey.
      rewrite E1, E2, E3, E4, E5. destruct (r_a t) as [[ax ay] az], (r_b t) as [[bx by_] bz]. cbn [deg]. ring. }
    rewrite (Rsum_ext ev (fun t => Q2R (r_coef t) * X na nb (tkey t)) G Hev).
    rewrite (Rsum_filter_split nz (fun t => Q2R (r_coef t) * X na nb (tkey t)) G).
    set (Gnz := filter nz G). set (Gz := filter (fun t => negb (nz t)) G).
    (* the keys of the lines with a non-zero exact coefficient are a permutation of the expected keys *)
    assert (Hperm : Permutation (map (tkey) Gnz) E).
    { apply NoDup_Permutation; [apply NoDup_map_filter; exact HndG | exact HndE |].
      intros k. split.
      - intros Hk. apply in_map_iff in Hk. destruct Hk as [t [<- Ht]]. apply memb_In. now apply HGE.
      - intros Hk. apply memb_In. now apply HEG. }
    rewrite <- (Rsum_map_perm (fun k => cexact lam mui k * X na nb k) _ _ Hperm).
    rewrite <- (Rsum_map_perm (fun k => Rabs (cexact lam mui k * X na nb k)) _ _ Hperm).
    rewrite !map_map.
    replace (filter (fun t => Qeq_bool (tq lam tab mui t) 0) G) with Gz.
    2:{ unfold Gz, nz. apply filter_ext. intros t. now rewrite negb_involutive. }
    match goal with |- Rabs (?a + ?b - ?c) <= _ => replace (a + b - c) with ((a - c) + b) by ring end.
    eapply Rle_trans; [apply Rabs_triang|]. apply Rplus_le_compat.
    - rewrite Rsum_minus, Rsum_scal. apply Rsum_abs_le. intros t Ht.
      apply filter_In in Ht. destruct Ht as [Ht Hnz]. unfold nz in Hnz. apply negb_true_iff in Hnz.
      specialize (Hco t Ht). unfold coef_ok in Hco. rewrite Hnz in Hco.
      assert (Hl : in_loops lam (r_a t) (r_b t) (r_l1 t) (r_sam t) (r_l2 t) (r_sbm t) = true).
      { destruct (in_loops lam (r_a t) (r_b t) (r_l1 t) (r_sam t) (r_l2 t) (r_sbm t)) eqn:El; [reflexivity|].
        unfold tq in Hnz. rewrite El in Hnz. discriminate. }
      pose proof (coef_close_sound _ _ _ Hco (Qeq_bool_R_neq _ Hnz)) as Hc.
      assert (Hs : 0 <= Q2R (ts t)).
      { unfold ts, spart. rewrite Q2R_red, Q2R_mult. apply Rmult_le_pos; apply cn_nonneg. }
      specialize (Hc Hs). rewrite (tq_cexact mui t Hl) in Hc.
      replace (Q2R (r_coef t) * X na nb (tkey t) - cexact lam mui (tkey t) * X na nb (tkey t))
        with ((Q2R (r_coef t) - cexact lam mui (tkey t)) * X na nb (tkey t)) by ring.
      rewrite !Rabs_mult, <- Rmult_assoc. apply Rmult_le_compat_r; [apply Rabs_pos | exact Hc].
    - rewrite Rsum_scal. apply Rsum_abs_le. intros t Ht.
      apply filter_In in Ht. destruct Ht as [Ht Hz]. unfold nz in Hz. rewrite negb_involutive in Hz.
      specialize (Hco t Ht). unfold coef_ok in Hco. rewrite Hz in Hco.
      apply Qle_bool_R in Hco. rewrite Q2R_abs in Hco.
      rewrite Rabs_mult. apply Rmult_le_compat_r; [apply Rabs_pos | exact Hco].
  Qed.
End Sound.

(* ---------- the whole class ---------- *)
Section ClassSound.
  Variables (CA CB : nat -> nat * nat * nat -> R) (rad : nat -> nat -> nat -> R) (SA SB : nat -> nat -> R).

  (* the exact value of values(na, nb, mui) for the class (LA, LB, lam): sum over the keys of the non-zero exact terms *)
  Definition exact_value (LA LB lam na nb mui : nat) : R :=
    Rsum (map (fun k => cexact lam mui k * Xk CA CB rad SA SB na nb k)
              (expected lam (omtab lam) (nth na (cart LA) (0, 0, 0)%nat) (nth nb (cart LB) (0, 0, 0)%nat) mui)).
  Definition exact_abs (LA LB lam na nb mui : nat) : R :=
    Rsum (map (fun k => Rabs (cexact lam mui k * Xk CA CB rad SA SB na nb k))
              (expected lam (omtab lam) (nth na (cart LA) (0, 0, 0)%nat) (nth nb (cart LB) (0, 0, 0)%nat) mui)).
  Definition extra_abs (lam na nb mui : nat) (G : list rterm) : R :=
    Rsum (map (fun t => Rabs (Xk CA CB rad SA SB na nb (tkey t)))
              (filter (fun t => Qeq_bool (tq lam (omtab lam) mui t) 0) (filter (is_target na nb mui) G))).

  Theorem class_sound LA LB lam G :
    class_ok LA LB lam G = true ->
    forall na nb mui, (na < ncart LA)%nat -> (nb < ncart LB)%nat -> (mui <= 2 * lam)%nat ->
      Rabs (gen_value CA CB rad SA SB G na nb mui - exact_value LA LB lam na nb mui)
      <= Q2R eps * exact_abs LA LB lam na nb mui + Q2R delta * extra_abs lam na nb mui G.
  Proof.
    unfold class_ok, class_ok_tab. intros H na nb mui Hna Hnb Hmu.
    apply andb_prop in H. destruct H as [_ H].
    assert (I1 : In na (seq 0 (ncart LA))) by (apply in_seq; lia).
    assert (I2 : In nb (seq 0 (ncart LB))) by (apply in_seq; lia).
    assert (I3 : In mui (seq 0 (2 * lam + 1))) by (apply in_seq; lia).
    rewrite forallb_forall in H. specialize (H na I1).
    rewrite forallb_forall in H. specialize (H nb I2).
    rewrite forallb_forall in H. specialize (H mui I3).
    apply (target_sound CA CB rad SA SB lam _ _ na nb mui _ H).
  Qed.

  (* nothing is written outside the block *)
  Theorem class_targets_in_range LA LB lam G :
    class_ok LA LB lam G = true ->
    forall t, In t G -> (r_na t < ncart LA)%nat /\ (r_nb t < ncart LB)%nat /\ (r_mui t <= 2 * lam)%nat.
  Proof.
    unfold class_ok, class_ok_tab. intros H t Ht. apply andb_prop in H. destruct H as [H _].
    rewrite forallb_forall in H. specialize (H t Ht). rewrite !andb_true_iff in H. destruct H as [[H1 H2] H3].
    apply Nat.ltb_lt in H1, H2. apply Nat.leb_le in H3. auto.
  Qed.
End ClassSound.

Theorem config_sound cls : config_ok cls = true ->
  forall LA LB lam G, In (LA, LB, lam, G) cls -> class_ok LA LB lam G = true.
Proof. unfold config_ok. intros H LA LB lam G Hin. rewrite forallb_forall in H. exact (H _ Hin). Qed.
