(* C09: the sum of the exact terms that GenModel.expected enumerates IS the generic contraction qgen::rolled_up of the
   shell-pair model (ShellPairModel.rolled_up over the reals), evaluated with the exact angular factors
     Omega(a; lam mu; l m) = 4 obar sqrt(c(lam,mu) c(l,m))
   of the exact angular model.  Together with GenProofs.class_sound: a class that passes the rational checker computes
   the same numbers as rolled_up, up to eps * (sum of absolute terms) + delta * (extra lines). *)
From Coq Require Import List Arith ZArith QArith Qabs Qreals Bool PeanoNat Reals Lra Lia Permutation.
From LV Require Import Base.NumOps Base.RInst Base.Cart Base.QInst Angular.AngularModel ShellPair.ShellPairModel.
From LV Require Import ShellPair.ShellPairScreen ShellPair.ShellPairSym GenCode.GenModel GenCode.GenProofs.
Import ListNotations.
Local Open Scope R_scope.

Definition OmR (k l m lam : nat) (mu : Z) (rho : nat) (sigma : Z) : R :=
  4 * Q2R (obar_code QOps 10 k l m lam mu rho sigma) * sqrt (Q2R (cnorm QOps lam mu) * Q2R (cnorm QOps rho sigma)).
(* harmonics indexed as the code stores them, SA(l, l+m) *)
Definition Sz (S : nat -> nat -> R) (l : nat) (m : Z) : R := S l (Z.to_nat (m + Z.of_nat l)).

Lemma Rsum_flat_map {A B} (f : B -> R) (g : A -> list B) l :
  Rsum (map f (flat_map g l)) = Rsum (map (fun x => Rsum (map f (g x))) l).
Proof.
  induction l as [|x l IH]; cbn [flat_map map]; [reflexivity|].
  rewrite map_app, Rsum_app, IH. unfold Rsum at 3. cbn [fold_right]. reflexivity.
Qed.
Lemma Rsum_mult {A B} (f : A -> R) (g : B -> R) la lb :
  Rsum (map f la) * Rsum (map g lb) = Rsum (map (fun a => Rsum (map (fun b => f a * g b) lb)) la).
Proof.
  induction la as [|a la IH]; cbn [map].
  - unfold Rsum at 1 3. cbn [fold_right]. lra.
  - unfold Rsum at 1 3. cbn [fold_right]. fold (Rsum (map f la)).
    fold (Rsum (map (fun a0 => Rsum (map (fun b => f a0 * g b) lb)) la)). rewrite <- IH, <- Rsum_scal. lra.
Qed.
Lemma Rsum_zrange (f : Z -> R) l :
  Rsum (map f (zrange l)) = Rsum (map (fun i => f (Z.of_nat i - Z.of_nat l)%Z) (seq 0 (2 * l + 1))).
Proof. unfold zrange. now rewrite map_map. Qed.
Lemma Rsum_all_zero {A} (f : A -> R) l : (forall x, In x l -> f x = 0) -> Rsum (map f l) = 0.
Proof. intros H. rewrite (Rsum_ext f (fun _ => 0) l H). apply Rsum_zero. Qed.

Lemma sqrt_pair c c1 c2 : 0 <= c -> 0 <= c1 -> 0 <= c2 -> sqrt (c * c1) * sqrt (c * c2) = c * sqrt (c1 * c2).
Proof.
  intros H H1 H2. rewrite !sqrt_mult by assumption.
  replace (sqrt c * sqrt c1 * (sqrt c * sqrt c2)) with (sqrt c * sqrt c * (sqrt c1 * sqrt c2)) by ring.
  now rewrite sqrt_sqrt.
Qed.

Section Rolled.
  Variables (rad : nat -> nat -> nat -> R) (SA SB : nat -> nat -> R).
  Variables (lam : nat) (fa fb : nat * nat * nat) (A B : R * R * R) (mui : nat).
  Let mu : Z := (Z.of_nat mui - Z.of_nat lam)%Z.
  Let CA (_ : nat) (a : nat * nat * nat) : R := cC3 fa A a.
  Let CB (_ : nat) (b : nat * nat * nat) : R := cC3 fb B b.

  Lemma qpart_R a b l1 m1i l2 m2i :
    Q2R (qpart lam (omtab lam) mui a b l1 m1i l2 m2i)
    = 256 * Q2R (obk lam a mui l1 m1i) * Q2R (obk lam b mui l2 m2i) * Q2R (cn lam mui).
  Proof.
    unfold qpart, ob. rewrite Q2R_red, !Q2R_mult, !oblook_spec. unfold obk.
    replace (Q2R 256) with 256 by (unfold Q2R; cbn; lra). reflexivity.
  Qed.

  (* one (a, b, l1, l2, m1, m2) term, both ways *)
  Lemma term_eq na nb ax ay az bx by_ bz l1 m1i l2 m2i :
    cexact lam mui [ax; ay; az; bx; by_; bz; l1; m1i; l2; m2i] * Xk CA CB rad SA SB na nb [ax; ay; az; bx; by_; bz; l1; m1i; l2; m2i]
    = 16 * PI * PI * (cC3 fa A (ax, ay, az) * cC3 fb B (bx, by_, bz)) * rad (ax + ay + az + (bx + by_ + bz))%nat l1 l2
      * (Sz SA l1 (Z.of_nat m1i - Z.of_nat l1) * OmR ax ay az lam mu l1 (Z.of_nat m1i - Z.of_nat l1))
      * (Sz SB l2 (Z.of_nat m2i - Z.of_nat l2) * OmR bx by_ bz lam mu l2 (Z.of_nat m2i - Z.of_nat l2)).
  Proof.
    unfold cexact, Xk, OmR, Sz, CA, CB, obk, okey_of, obq_key, cn. fold mu.
    replace (Z.to_nat (Z.of_nat m1i - Z.of_nat l1 + Z.of_nat l1)) with m1i by lia.
    replace (Z.to_nat (Z.of_nat m2i - Z.of_nat l2 + Z.of_nat l2)) with m2i by lia.
    set (c := Q2R (cnorm QOps lam mu)). set (c1 := Q2R (cnorm QOps l1 (Z.of_nat m1i - Z.of_nat l1))).
    set (c2 := Q2R (cnorm QOps l2 (Z.of_nat m2i - Z.of_nat l2))).
    assert (Hc : 0 <= c) by apply cn_nonneg. assert (Hc1 : 0 <= c1) by apply cn_nonneg. assert (Hc2 : 0 <= c2) by apply cn_nonneg.
    set (oa := Q2R (obar_code QOps 10 ax ay az lam mu l1 (Z.of_nat m1i - Z.of_nat l1))).
    set (ob_ := Q2R (obar_code QOps 10 bx by_ bz lam mu l2 (Z.of_nat m2i - Z.of_nat l2))).
    transitivity (16 * PI * PI * (cC3 fa A (ax, ay, az) * cC3 fb B (bx, by_, bz)) * rad (ax + ay + az + (bx + by_ + bz))%nat l1 l2
                  * SA l1 m1i * SB l2 m2i * (16 * oa * ob_) * (sqrt (c * c1) * sqrt (c * c2))); [|ring].
    rewrite sqrt_pair by assumption. ring.
  Qed.

  Theorem expected_is_rolled_up na nb :
    (forall a b, In a (subidx fa) -> In b (subidx fb) ->
       cC3 fa A a * cC3 fb B b = 0 \/ IZR 1 * powerRZ 10 (-15) < Rabs (cC3 fa A a * cC3 fb B b)) ->
    Rsum (map (fun k => cexact lam mui k * Xk CA CB rad SA SB na nb k) (expected lam (omtab lam) fa fb mui))
    = rolled_up ROps PI OmR (Sz SA) (Sz SB) rad lam fa fb A B mu.
  Proof.
    intros Hthr. rewrite rolled_up_sum. unfold expected.
    rewrite Rsum_flat_map. apply Rsum_ext. intros a Ha.
    rewrite Rsum_flat_map. apply Rsum_ext. intros b Hb.
    destruct a as [[ax ay] az], b as [[bx by_] bz]. unfold ru_term, deg3. cbn [deg].
    set (N := (ax + ay + az + (bx + by_ + bz))%nat).
    set (C := cC3 fa A (ax, ay, az) * cC3 fb B (bx, by_, bz)).
    (* the left side as a plain sixfold sum *)
    assert (L : forall l1 l2,
      Rsum (map (fun k => cexact lam mui k * Xk CA CB rad SA SB na nb k)
        (flat_map (fun m1i => flat_map (fun m2i =>
           if Qeq_bool (qpart lam (omtab lam) mui (ax, ay, az) (bx, by_, bz) l1 m1i l2 m2i) 0 then []
           else [[ax; ay; az; bx; by_; bz; l1; m1i; l2; m2i]]) (seq 0 (2 * l2 + 1))) (seq 0 (2 * l1 + 1))))
      = 16 * PI * PI * C * rad N l1 l2 * wsum OmR (Sz SA) lam mu (ax, ay, az) l1 * wsum OmR (Sz SB) lam mu (bx, by_, bz) l2).
    { intros l1 l2. unfold wsum. rewrite !Rsum_zrange.
      rewrite Rmult_assoc, Rsum_mult, Rsum_scal.
      rewrite Rsum_flat_map. apply Rsum_ext. intros m1i _.
      rewrite Rsum_flat_map, Rsum_scal. apply Rsum_ext. intros m2i _.
      destruct (Qeq_bool (qpart lam (omtab lam) mui (ax, ay, az) (bx, by_, bz) l1 m1i l2 m2i) 0) eqn:Ez.
      - cbn [map]. unfold Rsum. cbn [fold_right].
        (* the exact coefficient vanishes, so does the product of the two angular factors *)
        apply Qeq_bool_R in Ez. rewrite qpart_R in Ez.
        pose proof (term_eq na nb ax ay az bx by_ bz l1 m1i l2 m2i) as T. fold C N in T.
        assert (Z0 : cexact lam mui [ax; ay; az; bx; by_; bz; l1; m1i; l2; m2i] = 0).
        { unfold cexact. replace (256 * Q2R (obk lam (ax, ay, az) mui l1 m1i) * Q2R (obk lam (bx, by_, bz) mui l2 m2i) * Q2R (cn lam mui)) with 0 by (symmetry; exact Ez). ring. }
        rewrite Z0, Rmult_0_l in T. rewrite Rmult_assoc in T. lra.
      - cbn [map]. unfold Rsum. cbn [fold_right].
        pose proof (term_eq na nb ax ay az bx by_ bz l1 m1i l2 m2i) as T. fold C N in T. rewrite T. ring. }
    destruct (Hthr _ _ Ha Hb) as [C0|Cbig]; fold C in C0 || fold C in Cbig.
    - (* C = 0: both sides vanish *)
      assert (R0 : (if Rltb (IZR 1 * powerRZ 10 (-15)) (Rabs C) then
                 Rsum (map (fun l1 => Rsum (map (fun l2 => if ((l1 + N) mod 2 =? l2 mod 2)%nat then
                   16 * PI * PI * C * rad N l1 l2 * wsum OmR (Sz SA) lam mu (ax, ay, az) l1 * wsum OmR (Sz SB) lam mu (bx, by_, bz) l2 else 0)
                   (upto (lam + (bx + by_ + bz))))) (upto (lam + (ax + ay + az)))) else 0) = 0).
      { destruct (Rltb _ _); [|reflexivity]. apply Rsum_all_zero. intros l1 _. apply Rsum_all_zero. intros l2 _.
        destruct (_ =? _)%nat; [rewrite C0; ring | reflexivity]. }
      rewrite R0. rewrite Rsum_flat_map. apply Rsum_all_zero. intros l1 _.
      rewrite Rsum_flat_map. apply Rsum_all_zero. intros l2 _. rewrite L, C0. ring.
    - assert (Hb' : Rltb (IZR 1 * powerRZ 10 (-15)) (Rabs C) = true) by (now apply Rltb_true).
      rewrite Hb'. rewrite Rsum_flat_map. apply Rsum_ext. intros l1 _.
      rewrite Rsum_flat_map.
      rewrite (Rsum_ext _ (fun l2 => 16 * PI * PI * C * rad N l1 l2 * wsum OmR (Sz SA) lam mu (ax, ay, az) l1 * wsum OmR (Sz SB) lam mu (bx, by_, bz) l2) _ (fun l2 _ => L l1 l2)).
      rewrite step2_as_filter by (apply Nat.mod_upper_bound; lia).
      apply Rsum_ext. intros l2 _. rewrite (Nat.eqb_sym (l2 mod 2)). reflexivity.
  Qed.
End Rolled.

(* ---------- a checked class against rolled_up ---------- *)
Definition CAf (L : nat) (A : R * R * R) (n : nat) (a : nat * nat * nat) : R := cC3 (nth n (cart L) (0, 0, 0)%nat) A a.

Theorem checked_class_is_rolled_up LA LB lam G :
  class_ok LA LB lam G = true ->
  forall (A B : R * R * R) (rad : nat -> nat -> nat -> R) (SA SB : nat -> nat -> R) na nb mui,
    (na < ncart LA)%nat -> (nb < ncart LB)%nat -> (mui <= 2 * lam)%nat ->
    let fa := nth na (cart LA) (0, 0, 0)%nat in let fb := nth nb (cart LB) (0, 0, 0)%nat in
    (forall a b, In a (subidx fa) -> In b (subidx fb) ->
       cC3 fa A a * cC3 fb B b = 0 \/ IZR 1 * powerRZ 10 (-15) < Rabs (cC3 fa A a * cC3 fb B b)) ->
    Rabs (gen_value (CAf LA A) (CAf LB B) rad SA SB G na nb mui
          - rolled_up ROps PI OmR (Sz SA) (Sz SB) rad lam fa fb A B (Z.of_nat mui - Z.of_nat lam))
    <= Q2R eps * exact_abs (CAf LA A) (CAf LB B) rad SA SB LA LB lam na nb mui
       + Q2R delta * extra_abs (CAf LA A) (CAf LB B) rad SA SB lam na nb mui G.
Proof.
  intros Hok A B rad SA SB na nb mui Hna Hnb Hmu fa fb Hthr.
  pose proof (class_sound (CAf LA A) (CAf LB B) rad SA SB LA LB lam G Hok na nb mui Hna Hnb Hmu) as S.
  rewrite <- (expected_is_rolled_up rad SA SB lam fa fb A B mui na nb Hthr).
  unfold exact_value in S. fold fa fb in S.
  replace (Rsum (map (fun k => cexact lam mui k * Xk (fun _ a => cC3 fa A a) (fun _ b => cC3 fb B b) rad SA SB na nb k) (expected lam (omtab lam) fa fb mui)))
    with (Rsum (map (fun k => cexact lam mui k * Xk (CAf LA A) (CAf LB B) rad SA SB na nb k) (expected lam (omtab lam) fa fb mui))) by reflexivity.
  exact S.
Qed.
