(* State-machine model of the call history of an ECPIntegrator (src/lib/api.cpp):
   coordinate updates and the three compute routines, parametrised by the
   container discipline each compute routine uses for its result container
   (extracted from the source on every run by translators/t_api.py).
   A container entry is a *formal sum* of evaluations F(coordinate version):
   this is what lets the same model predict the behaviour of an appending
   implementation as well as of a resetting one. *)
From Coq Require Import List Arith PeanoNat Bool.
Import ListNotations.
From Coq Require Import String.
Local Open Scope list_scope.

(* Unknown: the translator could not classify the routine; never counted as resetting *)
Inductive disc := Assign | PushBack | ClearPush | Unknown.
Record discipline := mkDisc { d_int : disc; d_first : disc; d_second : disc }.

Definition resetting (d : disc) : bool := match d with Assign | ClearPush => true | _ => false end.
Definition discipline_ok (d : discipline) : bool :=
  resetting (d_int d) && resetting (d_first d) && resetting (d_second d).

(* ReInit: init() called again on the same integrator (e.g. init(1) during an optimisation, init(2) for the Hessian): it rebuilds the engine and
   re-derives the atom ids from the CURRENT coordinates; it touches neither the coordinates nor the result containers *)
Inductive op := UpdShells (v : nat) | UpdEcps (v : nat) | CompInt | CompFirst | CompSecond | ReInit.

Definition version := (nat * nat)%type.           (* (shell-coordinate version, ECP-coordinate version) *)
Definition fsum := list version.                  (* formal sum of F at those versions *)

Record state := mkState {
  sv : nat; ev : nat;
  ints : list fsum; firsts : list fsum; seconds : list fsum }.

Definition init_state : state := mkState 0 0 [] [] [].

(* the data members of ECPIntegrator that this state abstracts: the inputs (shells, ecps: the two coordinate versions), the
   engine and the set-up constants fixed by init (ecpint, maxLB, deriv, ncart, natoms, min_alpha, the two flags), and the
   three result containers.  T-api reads the actual member list from api.hpp on every run (gen/Obl_C05.v: members_ok). *)
Definition modelled_members : list string :=
  ["shells"; "ecps"; "ecpint"; "maxLB"; "deriv"; "ncart"; "natoms"; "min_alpha"; "ecp_is_set"; "basis_is_set";
   "integrals"; "first_derivs"; "second_derivs"]%string.

Definition init_cont (d : disc) (old : list fsum) (n : nat) : list fsum :=
  match d with Assign | ClearPush => repeat [] n | _ => old ++ repeat [] n end.
Definition accumulate (cont : list fsum) (n : nat) (v : version) : list fsum :=
  map (fun e => e ++ [v]) (firstn n cont) ++ skipn n cont.

Section Run.
  Variable d : discipline.
  Variable natoms : nat.
  Definition n_first := 3 * natoms.
  Definition n_second := (3 * natoms * (3 * natoms + 1)) / 2.

  Definition step (s : state) (o : op) : state :=
    let v := (sv s, ev s) in
    match o with
    | UpdShells w => mkState w (ev s) (ints s) (firsts s) (seconds s)
    | UpdEcps w => mkState (sv s) w (ints s) (firsts s) (seconds s)
    | CompInt => mkState (sv s) (ev s) (accumulate (init_cont (d_int d) (ints s) 1) 1 v) (firsts s) (seconds s)
    | CompFirst => mkState (sv s) (ev s) (ints s) (accumulate (init_cont (d_first d) (firsts s) n_first) n_first v) (seconds s)
    | CompSecond => mkState (sv s) (ev s) (ints s) (firsts s) (accumulate (init_cont (d_second d) (seconds s) n_second) n_second v)
    | ReInit => s
    end.
  Definition run (h : list op) : state := fold_left step h init_state.
  (* the trace of states after each operation (what the driver reads back) *)
  Fixpoint trace (s : state) (h : list op) : list state :=
    match h with [] => [] | o :: h' => let s' := step s o in s' :: trace s' h' end.
End Run.
