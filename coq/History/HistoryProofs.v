From Coq Require Import List Arith PeanoNat Bool Lia.
From LV Require Import History.HistoryModel.
Import ListNotations.

Lemma accumulate_fresh n v : accumulate (repeat [] n) n v = repeat [v] n.
Proof.
  unfold accumulate. rewrite firstn_all2 by (rewrite repeat_length; lia).
  rewrite skipn_all2 by (rewrite repeat_length; lia). rewrite app_nil_r.
  induction n as [|n IH]; cbn; [reflexivity|now rewrite IH].
Qed.

Lemma init_cont_resetting dd old n : resetting dd = true -> init_cont dd old n = repeat [] n.
Proof. destruct dd; cbn; intros H; try reflexivity; discriminate. Qed.

Section Thm.
  Variable d : discipline.
  Variable natoms : nat.
  Hypothesis Hok : discipline_ok d = true.

  Lemma ok3 : resetting (d_int d) = true /\ resetting (d_first d) = true /\ resetting (d_second d) = true.
  Proof. unfold discipline_ok in Hok. apply andb_prop in Hok. destruct Hok as [H1 H3].
         apply andb_prop in H1. tauto. Qed.

  (* After ANY history, a compute call leaves in its container exactly one evaluation at the
     CURRENT coordinates in every slot, and the documented number of slots. *)
  Theorem history_independent (h : list op) :
    let s := run d natoms h in
    ints (step d natoms s CompInt) = [[(sv s, ev s)]] /\
    firsts (step d natoms s CompFirst) = repeat [(sv s, ev s)] (3 * natoms) /\
    seconds (step d natoms s CompSecond) = repeat [(sv s, ev s)] ((3 * natoms * (3 * natoms + 1)) / 2).
  Proof.
    destruct ok3 as (H1 & H2 & H3). cbn zeta. cbn [step ints firsts seconds].
    rewrite !init_cont_resetting by assumption. unfold n_first, n_second.
    rewrite !accumulate_fresh. repeat split; reflexivity.
  Qed.

  (* computing one quantity never disturbs the containers of the others, and coordinate updates
     never touch a container *)
  Theorem computes_do_not_interfere s :
    firsts (step d natoms s CompInt) = firsts s /\ seconds (step d natoms s CompInt) = seconds s /\
    ints (step d natoms s CompFirst) = ints s /\ seconds (step d natoms s CompFirst) = seconds s /\
    ints (step d natoms s CompSecond) = ints s /\ firsts (step d natoms s CompSecond) = firsts s /\
    (forall w, ints (step d natoms s (UpdShells w)) = ints s /\ firsts (step d natoms s (UpdShells w)) = firsts s /\
               seconds (step d natoms s (UpdShells w)) = seconds s) /\
    (forall w, ints (step d natoms s (UpdEcps w)) = ints s /\ firsts (step d natoms s (UpdEcps w)) = firsts s /\
               seconds (step d natoms s (UpdEcps w)) = seconds s).
  Proof. cbn. repeat split. Qed.

  (* recomputing without changing anything returns the same thing *)
  Theorem recompute_idempotent (h : list op) :
    let s1 := step d natoms (run d natoms h) CompFirst in
    firsts (step d natoms s1 CompFirst) = firsts s1.
  Proof.
    destruct ok3 as (H1 & H2 & H3). cbn zeta. cbn [step firsts sv ev].
    rewrite !init_cont_resetting by assumption. reflexivity.
  Qed.
End Thm.

(* The appending discipline (push_back without clear) violates the property: an explicit
   two-step history doubles the list and accumulates twice into the leading entries. *)
Theorem append_refuted natoms : 0 < natoms ->
  let d := mkDisc Assign PushBack PushBack in
  let s := run d natoms [CompFirst; CompFirst] in
  length (firsts s) = 2 * (3 * natoms) /\
  nth 0 (firsts s) [] = [(0, 0); (0, 0)] /\
  firsts s <> repeat [(0, 0)] (3 * natoms).
Proof.
  intros Hn. cbn zeta. unfold run. cbn [fold_left step init_state firsts sv ev d_first init_cont app].
  unfold n_first. set (n := 3 * natoms). assert (Hn' : 0 < n) by (unfold n; lia).
  rewrite accumulate_fresh.
  unfold accumulate. rewrite firstn_app, firstn_all2 by (rewrite repeat_length; lia).
  rewrite repeat_length, Nat.sub_diag. cbn [firstn]. rewrite app_nil_r.
  rewrite skipn_app, skipn_all2 by (rewrite repeat_length; lia).
  rewrite repeat_length, Nat.sub_diag. cbn [skipn app].
  split; [rewrite app_length, map_length, !repeat_length; lia|].
  destruct n as [|n]; [lia|]. cbn. split; [reflexivity|]. intros H. discriminate H.
Qed.
