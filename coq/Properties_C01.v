(* C01 — shell-pair integrals: theorems claimed (skeleton); see DESIGN for what is compared rather than proved. *)
From Coq Require Import List Arith PeanoNat.
From LV Require Import Base.Cart.
Theorem C01_cart_index : forall k l m d, nth (nindex l m) (cart (k + l + m)) d = (k, l, m).
Proof. exact cart_index. Qed.
Print Assumptions C01_cart_index.

(* makeC (the shift of a Cartesian Gaussian to the ECP frame): the coefficients the shell-pair model computes,
   calcC(a,m,A) = (-1)^(a-m) A^(a-m) a!/(m!(a-m)!), are those of the shifted monomial: sum_m calcC(a,m,A) x^m = (x - A)^a,
   for every a and every A, x.  The shell-pair model itself (ShellPair/ShellPairModel.v: type 1, the three type-2
   branches, rolled_up / rolled_up_special, the mu sum) is tied to ecpint.cpp and qgen.cpp by the K-a correspondence. *)
From Coq Require Import Reals.
From LV Require Import Base.NumOps Base.RInst ShellPair.ShellPairModel ShellPair.ShellPairProofs.
Theorem C01_makeC_binomial : forall a A x,
  sum_f_R0 (fun m => Rmult (calcC ROps a m A) (pow x m)) a = pow (Rminus x A) a.
Proof. exact makeC_binomial. Qed.
Print Assumptions C01_makeC_binomial.

(* The three type-2 branches of compute_shell_pair agree with one another (ShellPair/ShellPairLimit.v).
   (i) One shell on the ECP centre: qgen::rolled_up_special IS qgen::rolled_up evaluated with the leaves that shell has on
   the centre -- zero shift (makeC's coefficients become a Kronecker delta), the constant harmonic SA(0,0) = 1/sqrt(4 pi),
   and a radial table that vanishes for l1 > 0 (M_l(0) = [l = 0]); in particular the prefactor 8 pi sqrt(pi) is
   16 pi^2 / sqrt(4 pi).  For every class, every lambda, mu, every second shell and every table Om. *)
From Coq Require Import ZArith List.
From LV Require Import ShellPair.ShellPairSym ShellPair.ShellPairLimit.
Theorem C01_special_is_limit : forall Om (SA SB : nat -> Z -> R) rad lam fa fb B mu,
  SA 0%nat 0%Z = (/ sqrt (4 * PI))%R ->
  (forall N l1 l2, 0 < l1 -> rad N l1 l2 = 0%R) ->
  rolled_up ROps PI Om SA SB rad lam fa fb (0%R, 0%R, 0%R) B mu = rolled_up_special ROps PI Om SB rad lam fa fb B mu.
Proof. exact special_is_limit. Qed.
Print Assumptions C01_special_is_limit.
(* (ii) Both shells on the centre: the closed form (t2_both) is rolled_up_special with the second shell's on-centre leaves,
   given that the radial entry (N,0,0) is the Gaussian-moment sum the closed form writes out (t2_value) and that the
   product of the two angular factors vanishes when the total Cartesian degree is odd (parity of the tables, C13). *)
Theorem C01_both_is_limit : forall Om (SB : nat -> Z -> R) rad gamma lam LA LB pA pB pU fa fb mu,
  SB 0%nat 0%Z = (/ sqrt (4 * PI))%R ->
  (forall N l1 l2, 0 < l2 -> rad N l1 l2 = 0%R) ->
  rad (deg3 fa + deg3 fb) 0 0 = t2_value gamma lam LA LB pA pB pU ->
  (Nat.odd (deg3 fa + deg3 fb) = true ->
     ((let '(x1, r1, z1) := fa in Om x1 r1 z1 lam mu 0%nat 0%Z) * (let '(x2, y2, z2) := fb in Om x2 y2 z2 lam mu 0%nat 0%Z))%R = 0%R) ->
  rolled_up_special ROps PI Om SB rad lam fa fb (0%R, 0%R, 0%R) mu = t2_both ROps PI Om gamma lam LA LB pA pB pU fa fb mu.
Proof. exact both_is_limit. Qed.
Print Assumptions C01_both_is_limit.

(* The both-on-centre closed form (ECPIntegral::type2, special case A = B = C): its radial factor 0.5 * GAMMA[N] * FAST_POW[N+1](1/sqrt(p))
   IS the Gaussian moment int_0^inf r^N exp(-p r^2) dr, for every N and every p > 0 (Base/GaussMoment.v): the recurrence
   I_{n+2} = (n+1)/(2p) I_n by a machine-checked integration by parts whose boundary term is proved to vanish (Base/GaussDecay.v), the odd
   anchor I_1 = 1/(2p) proved from the antiderivative; what remains assumed is that the integrals exist (they do: n >= 0) and the Gauss
   integral I_0 = sqrt(pi/p)/2.  gamma_half n = Gamma((n+1)/2) is the exact specification of the GAMMA table, which a per-run obligation
   compares with the 30 literals of the source (T-tab, Interval). *)
From Coquelicot Require Import Coquelicot.
From LV Require Import Base.Tables Base.GaussMoment.
Theorem C01_gamma_half_values : forall k, gamma_half (2 * k + 1) = INR (fact k) /\ gamma_half (2 * k) = (sqrt PI * odd_prod k / 2 ^ k)%R.
Proof. intros k. split; [apply gamma_half_odd | apply gamma_half_even]. Qed.
Print Assumptions C01_gamma_half_values.
Theorem C01_gaussian_moment_recurrence : forall p : R, (0 < p)%R -> forall Im : nat -> R,
  (forall n, is_RInt_gen (gint p n) (at_point 0%R) (Rbar_locally p_infty) (Im n)) ->
  forall n, Im (S (S n)) = (INR (S n) / (2 * p) * Im n)%R.
Proof. intros p Hp Im HI. exact (moment_rec p Hp Im HI (gbnd_decay p Hp)). Qed.
Print Assumptions C01_gaussian_moment_recurrence.
Theorem C01_gaussian_moments_from_the_gauss_integral : forall p : R, (0 < p)%R -> forall Im : nat -> R,
  (forall n, is_RInt_gen (gint p n) (at_point 0%R) (Rbar_locally p_infty) (Im n)) ->
  Im 0%nat = (sqrt (PI / p) / 2)%R -> forall n, Im n = (gamma_half n * orp p ^ S n / 2)%R.
Proof. exact moment_closed_from_gauss. Qed.
Print Assumptions C01_gaussian_moments_from_the_gauss_integral.
