(* C01 — shell-pair integrals: theorems claimed (skeleton); see DESIGN for what is compared rather than proved. *)
From Coq Require Import List Arith PeanoNat.
From LV Require Import Base.Cart.
Theorem C01_cart_index : forall k l m d, nth (nindex l m) (cart (k + l + m)) d = (k, l, m).
Proof. exact cart_index. Qed.
Print Assumptions C01_cart_index.

(* makeC (the shift of a Cartesian Gaussian to the ECP frame): the coefficients the shell-pair model computes,
   calcC(a,m,A) = (-1)^(a-m) A^(a-m) a!/(m!(a-m)!), are those of the shifted monomial: sum_m calcC(a,m,A) x^m = (x - A)^a,
   for every a and every A, x.  The shell-pair model itself (ShellPair/ShellPairModel.v: type 1, the three type-2
   branches, rolled_up / rolled_up_special, the mu sum) is tied to ecpint.cpp and qgen.cpp by the K-a correspondence. *)
From Coq Require Import Reals.
From LV Require Import Base.NumOps Base.RInst ShellPair.ShellPairModel ShellPair.ShellPairProofs.
Theorem C01_makeC_binomial : forall a A x,
  sum_f_R0 (fun m => Rmult (calcC ROps a m A) (pow x m)) a = pow (Rminus x A) a.
Proof. exact makeC_binomial. Qed.
Print Assumptions C01_makeC_binomial.

(* The three type-2 branches of compute_shell_pair agree with one another (ShellPair/ShellPairLimit.v).
   (i) One shell on the ECP centre: qgen::rolled_up_special IS qgen::rolled_up evaluated with the leaves that shell has on
   the centre -- zero shift (makeC's coefficients become a Kronecker delta), the constant harmonic SA(0,0) = 1/sqrt(4 pi),
   and a radial table that vanishes for l1 > 0 (M_l(0) = [l = 0]); in particular the prefactor 8 pi sqrt(pi) is
   16 pi^2 / sqrt(4 pi).  For every class, every lambda, mu, every second shell and every table Om. *)
From Coq Require Import ZArith List.
From LV Require Import ShellPair.ShellPairSym ShellPair.ShellPairLimit.
Theorem C01_special_is_limit : forall Om (SA SB : nat -> Z -> R) rad lam fa fb B mu,
  SA 0%nat 0%Z = (/ sqrt (4 * PI))%R ->
  (forall N l1 l2, 0 < l1 -> rad N l1 l2 = 0%R) ->
  rolled_up ROps PI Om SA SB rad lam fa fb (0%R, 0%R, 0%R) B mu = rolled_up_special ROps PI Om SB rad lam fa fb B mu.
Proof. exact special_is_limit. Qed.
Print Assumptions C01_special_is_limit.
(* (ii) Both shells on the centre: the closed form (t2_both) is rolled_up_special with the second shell's on-centre leaves,
   given that the radial entry (N,0,0) is the Gaussian-moment sum the closed form writes out (t2_value) and that the
   product of the two angular factors vanishes when the total Cartesian degree is odd (parity of the tables, C13). *)
Theorem C01_both_is_limit : forall Om (SB : nat -> Z -> R) rad gamma lam LA LB pA pB pU fa fb mu,
  SB 0%nat 0%Z = (/ sqrt (4 * PI))%R ->
  (forall N l1 l2, 0 < l2 -> rad N l1 l2 = 0%R) ->
  rad (deg3 fa + deg3 fb) 0 0 = t2_value gamma lam LA LB pA pB pU ->
  (Nat.odd (deg3 fa + deg3 fb) = true ->
     ((let '(x1, r1, z1) := fa in Om x1 r1 z1 lam mu 0%nat 0%Z) * (let '(x2, y2, z2) := fb in Om x2 y2 z2 lam mu 0%nat 0%Z))%R = 0%R) ->
  rolled_up_special ROps PI Om SB rad lam fa fb (0%R, 0%R, 0%R) mu = t2_both ROps PI Om gamma lam LA LB pA pB pU fa fb mu.
Proof. exact both_is_limit. Qed.
Print Assumptions C01_both_is_limit.
