(* C01 — shell-pair integrals: theorems claimed (skeleton); see DESIGN for what is compared rather than proved. *)
From Coq Require Import List Arith PeanoNat.
From LV Require Import Base.Cart.
Theorem C01_cart_index : forall k l m d, nth (nindex l m) (cart (k + l + m)) d = (k, l, m).
Proof. exact cart_index. Qed.
Print Assumptions C01_cart_index.
