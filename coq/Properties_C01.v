(* C01 — shell-pair integrals: theorems claimed (skeleton); see DESIGN for what is compared rather than proved. *)
From Coq Require Import List Arith PeanoNat.
From LV Require Import Base.Cart.
Theorem C01_cart_index : forall k l m d, nth (nindex l m) (cart (k + l + m)) d = (k, l, m).
Proof. exact cart_index. Qed.
Print Assumptions C01_cart_index.

(* makeC (the shift of a Cartesian Gaussian to the ECP frame): the coefficients the shell-pair model computes,
   calcC(a,m,A) = (-1)^(a-m) A^(a-m) a!/(m!(a-m)!), are those of the shifted monomial: sum_m calcC(a,m,A) x^m = (x - A)^a,
   for every a and every A, x.  The shell-pair model itself (ShellPair/ShellPairModel.v: type 1, the three type-2
   branches, rolled_up / rolled_up_special, the mu sum) is tied to ecpint.cpp and qgen.cpp by the K-a correspondence. *)
From Coq Require Import Reals.
From LV Require Import Base.NumOps Base.RInst ShellPair.ShellPairModel ShellPair.ShellPairProofs.
Theorem C01_makeC_binomial : forall a A x,
  sum_f_R0 (fun m => Rmult (calcC ROps a m A) (pow x m)) a = pow (Rminus x A) a.
Proof. exact makeC_binomial. Qed.
Print Assumptions C01_makeC_binomial.
