(* C02 — analytic first derivatives: the theorems claimed for this property.
   Nothing but statements closed by [exact], each followed by Print Assumptions. *)
From Coq Require Import List Arith ZArith Reals.
From LV Require Import Base.NumOps Base.Cart Base.RInst Deriv.DerivModel Deriv.DerivProofs.
Import ListNotations.

(* The canonical Cartesian order: position N_INDEX(l,m) of shell k+l+m holds (k,l,m), for every L. *)
Theorem C02_cart_index : forall k l m d, nth (nindex l m) (cart (k + l + m)) d = (k, l, m).
Proof. exact cart_index. Qed.
Print Assumptions C02_cart_index.

Theorem C02_cart_length : forall L, length (cart L) = ncart L.
Proof. exact cart_length. Qed.
Print Assumptions C02_cart_length.

(* Every index left_shell_derivative computes is in range; the "+" index is the position of
   t+e_q in shell LA+1; the "-" index is the position of t-e_q in shell LA-1 whenever its
   integer coefficient t_q is non-zero.  All LA >= 1, all rows, all three components. *)
Theorem C02_lsd_indices : forall LA na q t, q < 3 -> na < ncart (S LA) -> klm_at (S LA) na = t ->
  let '(k, l, m) := t in
  let dimm := ncart LA in
  na = pos t /\ deg t = S LA /\
  lsd_plus_idx q l m = pos (up q t) /\
  lsd_plus_idx q l m < ncart (S (S LA)) /\
  lsd_minus_idx dimm q l m < dimm /\
  (0 < comp q t -> lsd_minus_idx dimm q l m = pos (down q t)).
Proof. exact lsd_indices. Qed.
Print Assumptions C02_lsd_indices.

(* Over the reals: if the two blocks handed to the assembly are the contractions
   sum_i c_i B(g_i[LA-1]) and sum_i c_i a_i B(g_i[LA+1]) of ANY functional B over primitives
   (the C01 contract), every assembled entry is sum_i c_i B applied to the formal derivative
   -t_q g(t-e_q) + 2 a_i g(t+e_q) of the primitive — for every LA (including the s-shell
   special case), every row, column and component. *)
Theorem C02_lsd_linear : forall (prims : list (R * R)) (Bp : R -> triple -> nat -> R)
    (LA : nat) (Qm : blk R) (q na nb : nat),
    q < 3 -> na < ncart LA ->
    (forall LA', LA = S LA' -> forall i j, i < ncart LA' -> Qm i j = block prims Bp 0 LA' i j) ->
    lsd ROps LA (ncart (LA - 1)) Qm (block prims Bp 1 (S LA)) q na nb
    = Rsum (map (fun ca => (fst ca * eval Bp (snd ca) (D1 (snd ca) q (klm_at LA na)) nb)%R) prims).
Proof. exact lsd_linear. Qed.
Print Assumptions C02_lsd_linear.

(* Translational invariance: in every coincidence branch R_A + R_B + R_C = 0 elementwise. *)
Theorem C02_first_sum_rule : forall offA offB (QA QB : nat -> blk R) q na nb, q < 3 ->
  (cspd ROps offA offB QA QB q na nb + cspd ROps offA offB QA QB (q + 3) na nb
   + cspd ROps offA offB QA QB (q + 6) na nb = 0)%R.
Proof. exact first_sum_rule. Qed.
Print Assumptions C02_first_sum_rule.

(* Coincident centres: the blocks returned are additive (joint displacement). *)
Theorem C02_first_additive_BC : forall (QA QB : nat -> blk R) q na nb, q < 3 ->
  (cspd ROps true false QA QB (q + 3) na nb = - cspd ROps true false QA QB q na nb /\
   cspd ROps true false QA QB (q + 6) na nb = 0)%R.
Proof. exact first_additive_BC. Qed.
Print Assumptions C02_first_additive_BC.

Theorem C02_first_additive_AC : forall (QA QB : nat -> blk R) q na nb, q < 3 ->
  (cspd ROps false true QA QB q na nb = - cspd ROps false true QA QB (q + 3) na nb /\
   cspd ROps false true QA QB (q + 6) na nb = 0)%R.
Proof. exact first_additive_AC. Qed.
Print Assumptions C02_first_additive_AC.

Theorem C02_first_all_coincident : forall (QA QB : nat -> blk R) i na nb, i < 9 ->
  cspd ROps false false QA QB i na nb = 0%R.
Proof. exact first_all_coincident. Qed.
Print Assumptions C02_first_all_coincident.

(* Non-vacuity: a concrete d-shell row meets the hypotheses of the index theorem. *)
Example C02_example_indices :
  klm_at 2 (nindex 1 0) = (1, 1, 0) /\ nindex 1 0 < ncart 2 /\
  lsd_minus_idx (ncart 1) 0 1 0 = pos (down 0 (1, 1, 0)) /\ lsd_plus_idx 1 1 0 = pos (up 1 (1, 1, 0)).
Proof. vm_compute. repeat split; auto. Qed.

From Coq Require Import Reals.
From Coquelicot Require Import Coquelicot.
From LV Require Import Base.Cart Deriv.DerivModel Deriv.DerivProofs Deriv.GaussDeriv.
(* The formal rule D1 the contraction theorem is about IS the derivative of the primitive Cartesian Gaussian w.r.t. its centre (Deriv/GaussDeriv.v). *)
Theorem C02_formal_rule_is_the_derivative : forall (a : R) (t : triple) (A x : vec3) (q : nat), (q < 3)%nat ->
  is_derive (fun s => prim a t (vset q A s) x) (vget q A) (lc_eval a (D1 a q t) A x).
Proof. exact D1_is_derivative. Qed.
Print Assumptions C02_formal_rule_is_the_derivative.
