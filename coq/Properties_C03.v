(* C03 — analytic second derivatives: theorems claimed. *)
From Coq Require Import List Arith ZArith Reals.
From LV Require Import Base.NumOps Base.Cart Base.RInst Deriv.DerivModel Deriv.DerivProofs.
Import ListNotations.

(* Layout and translational sum rules of the 45 returned blocks (distinct centres):
   AA 0-5, AB 6-14, AC 15-23, BB 24-29, BC 30-38, CC 39-44;
   AC = -(AA + AB); BC_pq = -(BB_pq + AB_qp); CC = -(AC + BC), and the two writes to each
   off-diagonal CC component agree (the rule holds for EVERY j mapping to it). *)
Theorem C03_hess_layout : forall (QAA QBB QAB : nat -> blk R) na nb,
  let r := fun i => csp2 ROps true true QAA QBB QAB i na nb in
  (forall c, c < 6 -> r c = QAA c na nb /\ r (24 + c) = QBB c nb na) /\
  (forall j, j < 9 ->
     r (6 + j) = QAB j na nb /\
     r (15 + j) = Ropp (Rplus (r (jaas j)) (r (6 + j))) /\
     r (30 + j) = Ropp (Rplus (r (24 + jaas j)) (r (6 + jbbs j))) /\
     r (39 + jaas j) = Ropp (Rplus (r (15 + j)) (r (30 + j)))).
Proof. exact hess_layout. Qed.
Print Assumptions C03_hess_layout.
