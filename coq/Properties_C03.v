(* C03 — analytic second derivatives: theorems claimed. *)
From Coq Require Import List Arith ZArith Reals.
From LV Require Import Base.NumOps Base.Cart Base.RInst Deriv.DerivModel Deriv.DerivProofs Deriv.DerivSecond Deriv.DerivMixed.
Import ListNotations.

(* Layout and translational sum rules of the 45 returned blocks (distinct centres):
   AA 0-5, AB 6-14, AC 15-23, BB 24-29, BC 30-38, CC 39-44;
   AC = -(AA + AB); BC_pq = -(BB_pq + AB_qp); CC = -(AC + BC), and the two writes to each
   off-diagonal CC component agree (the rule holds for EVERY j mapping to it). *)
Theorem C03_hess_layout : forall (QAA QBB QAB : nat -> blk R) na nb,
  let r := fun i => csp2 ROps true true QAA QBB QAB i na nb in
  (forall c, c < 6 -> r c = QAA c na nb /\ r (24 + c) = QBB c nb na) /\
  (forall j, j < 9 ->
     r (6 + j) = QAB j na nb /\
     r (15 + j) = Ropp (Rplus (r (jaas j)) (r (6 + j))) /\
     r (30 + j) = Ropp (Rplus (r (24 + jaas j)) (r (6 + jbbs j))) /\
     r (39 + jaas j) = Ropp (Rplus (r (15 + j)) (r (30 + j)))).
Proof. exact hess_layout. Qed.
Print Assumptions C03_hess_layout.

(* Diagonal-centre second derivatives: every entry of every one of the six components that
   left_shell_second_derivative assembles (clamped dummy indices and the LA <= 1 dummy Q_minus block
   included) equals the contraction over the shell of the formal derivative rule applied twice,
   d/dA_p d/dA_q g_a(t) = Dlin a p (D1 a q t), for every LA, every contraction and every functional Bp. *)
Theorem C03_lssd_linear : forall (prims : list (R * R)) (Bp : R -> triple -> nat -> R) (LA : nat) (Qm : blk R) (c na nb : nat),
  c < 6 -> na < ncart LA ->
  (forall LA', LA = S (S LA') -> forall i j, i < ncart LA' -> Qm i j = block prims Bp 0 LA' i j) ->
  lssd ROps LA (if 1 <? LA then ncart (LA - 2) else 1) Qm (block prims Bp 1 LA) (block prims Bp 2 (S (S LA))) c na nb
  = Rsum (map (fun ca => Rmult (fst ca) (eval Bp (snd ca) (Dlin (snd ca) (cp c) (D1 (snd ca) (cq c) (klm_at LA na))) nb)) prims).
Proof. exact lssd_linear. Qed.
Print Assumptions C03_lssd_linear.

(* Mixed second derivatives: every entry of all nine components that mixed_second_derivative assembles equals the
   contraction over BOTH shells of the formal rule applied once on each side, for every LA, LB (dummy blocks of
   s shells included) and every bilinear functional B2. *)
Theorem C03_mixed_linear : forall (primsA primsB : list (R * R)) (B2 : R -> R -> triple -> triple -> R)
    (LA LB : nat) (Qmm Qmp Qpm : blk R) (p q na nb : nat),
  p < 3 -> q < 3 -> na < ncart LA -> nb < ncart LB ->
  (forall LA' LB', LA = S LA' -> LB = S LB' -> forall i j, i < ncart LA' -> j < ncart LB' -> Qmm i j = block2 primsA primsB B2 0 0 LA' LB' i j) ->
  (forall LA', LA = S LA' -> forall i j, i < ncart LA' -> Qmp i j = block2 primsA primsB B2 0 1 LA' (S LB) i j) ->
  (forall LB', LB = S LB' -> forall i j, j < ncart LB' -> Qpm i j = block2 primsA primsB B2 1 0 (S LA) LB' i j) ->
  mixed ROps LA LB (ncart (LA - 1)) (ncart (LB - 1)) Qmm Qmp Qpm (block2 primsA primsB B2 1 1 (S LA) (S LB)) p q na nb
  = Rsum (map (fun ca => Rsum (map (fun cb =>
      Rmult (Rmult (fst ca) (fst cb)) (eval2 B2 (snd ca) (snd cb) (D1 (snd ca) p (klm_at LA na)) (D1 (snd cb) q (klm_at LB nb)))) primsB)) primsA).
Proof. exact mixed_linear. Qed.
Print Assumptions C03_mixed_linear.

From Coq Require Import Reals.
From Coquelicot Require Import Coquelicot.
From LV Require Import Base.Cart Deriv.DerivModel Deriv.DerivProofs Deriv.GaussDeriv.
(* The rule applied twice is the second partial derivative of the primitive (Deriv/GaussDeriv.v). *)
Theorem C03_formal_rule_twice_is_the_second_derivative : forall (a : R) (t : triple) (A x : vec3) (p q : nat), (p < 3)%nat -> (q < 3)%nat ->
  is_derive (fun s => lc_eval a (D1 a q t) (vset p A s) x) (vget p A) (lc_eval a (Dlin a p (D1 a q t)) A x).
Proof. exact D2_is_derivative. Qed.
Print Assumptions C03_formal_rule_twice_is_the_second_derivative.
