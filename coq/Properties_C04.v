(* C04 — integrator assembly: theorems claimed. *)
From Coq Require Import List Arith ZArith PeanoNat Bool Reals.
From LV Require Import Base.NumOps Base.Cart Base.RInst Api.ApiModel Api.ApiProofs.
Import ListNotations.

(* H_START packing: enumerating the documented slot order (i ascending; (i,i) with six
   components, then (i,j), j>i, with nine) and applying the macro's arithmetic yields exactly
   0,1,...,3N(3N+1)/2-1 — for every number of atoms N. *)
Theorem C04_hstart_enumeration : forall N,
  map (packed N) (slots N) = seq 0 (3 * N * (3 * N + 1) / 2).
Proof. exact hstart_enumeration. Qed.
Print Assumptions C04_hstart_enumeration.

Theorem C04_hstart_bijection : forall N,
  NoDup (map (packed N) (slots N)) /\
  (forall idx, idx < 3 * N * (3 * N + 1) / 2 <-> In idx (map (packed N) (slots N))).
Proof. exact hstart_bijection. Qed.
Print Assumptions C04_hstart_bijection.

(* first-derivative scatter: entry 3X+q receives exactly the blocks of the centres on atom X *)
Theorem C04_first_scatter : forall (Aix Bix Cix X q : nat) (t : nat -> R) acc, q < 3 ->
  apply_upds ROps (3 * X + q) acc (updates1 Aix Bix Cix t)
  = Rplus (Rplus (Rplus acc (ind (Aix =? X) (t q))) (ind (Bix =? X) (t (q + 3)))) (ind (Cix =? X) (t (q + 6))).
Proof. exact first_scatter. Qed.
Print Assumptions C04_first_scatter.

Theorem C04_first_scatter_range : forall (Aix Bix Cix N : nat) (t : nat -> R),
  Aix < N -> Bix < N -> Cix < N -> Forall (fun u => fst u < 3 * N) (updates1 Aix Bix Cix t).
Proof. exact first_scatter_range. Qed.
Print Assumptions C04_first_scatter_range.

(* atom ids are first-appearance numbers (any numeric dictionary) *)
Theorem C04_assign_ids_spec : forall {T} (o : NumOps T) ps cs ids cs',
    assign_ids o cs ps = (ids, cs') ->
    (exists ext, cs' = cs ++ ext) /\ Forall2 (id_ok o cs') ps ids.
Proof. intros T o. exact (assign_ids_spec o). Qed.
Print Assumptions C04_assign_ids_spec.

Example C04_example_packing : map (packed 2) (slots 2) = seq 0 21 /\ hpair 0 1 2 = 6 /\ hdiag 1 2 = 15.
Proof. vm_compute. repeat split. Qed.
