(* C04 — integrator assembly: theorems claimed. *)
From Coq Require Import List Arith ZArith PeanoNat Bool Reals Lia Lra.
From LV Require Import Base.NumOps Base.Cart Base.RInst Api.ApiModel Api.ApiProofs Api.ApiHess.
Import ListNotations.

(* H_START packing: enumerating the documented slot order (i ascending; (i,i) with six
   components, then (i,j), j>i, with nine) and applying the macro's arithmetic yields exactly
   0,1,...,3N(3N+1)/2-1 — for every number of atoms N. *)
Theorem C04_hstart_enumeration : forall N,
  map (packed N) (slots N) = seq 0 (3 * N * (3 * N + 1) / 2).
Proof. exact hstart_enumeration. Qed.
Print Assumptions C04_hstart_enumeration.

Theorem C04_hstart_bijection : forall N,
  NoDup (map (packed N) (slots N)) /\
  (forall idx, idx < 3 * N * (3 * N + 1) / 2 <-> In idx (map (packed N) (slots N))).
Proof. exact hstart_bijection. Qed.
Print Assumptions C04_hstart_bijection.

(* first-derivative scatter: entry 3X+q receives exactly the blocks of the centres on atom X *)
Theorem C04_first_scatter : forall (Aix Bix Cix X q : nat) (t : nat -> R) acc, q < 3 ->
  apply_upds ROps (3 * X + q) acc (updates1 Aix Bix Cix t)
  = Rplus (Rplus (Rplus acc (ind (Aix =? X) (t q))) (ind (Bix =? X) (t (q + 3)))) (ind (Cix =? X) (t (q + 6))).
Proof. exact first_scatter. Qed.
Print Assumptions C04_first_scatter.

Theorem C04_first_scatter_range : forall (Aix Bix Cix N : nat) (t : nat -> R),
  Aix < N -> Bix < N -> Cix < N -> Forall (fun u => fst u < 3 * N) (updates1 Aix Bix Cix t).
Proof. exact first_scatter_range. Qed.
Print Assumptions C04_first_scatter_range.

(* atom ids are first-appearance numbers (any numeric dictionary) *)
Theorem C04_assign_ids_spec : forall {T} (o : NumOps T) ps cs ids cs',
    assign_ids o cs ps = (ids, cs') ->
    (exists ext, cs' = cs ++ ext) /\ Forall2 (id_ok o cs') ps ids.
Proof. intros T o. exact (assign_ids_spec o). Qed.
Print Assumptions C04_assign_ids_spec.

Example C04_example_packing : map (packed 2) (slots 2) = seq 0 21 /\ hpair 0 1 2 = 6 /\ hdiag 1 2 = 15.
Proof. vm_compute. repeat split. Qed.

(* Hessian scatter: what compute_second_derivs adds to the packed slot of ((X,p),(Y,q)), X <= Y, for one
   (shellA, shellB, ECP) triple is the sum of the blocks D t P Q p q over all ordered pairs of centre labels
   (P, Q in A, B, C) with P on atom X and Q on atom Y -- for every number of atoms, every atom assignment,
   every slot.  Three cases cover all assignments (the fourth, all on one atom, adds nothing). *)
Theorem C04_hess_scatter_distinct : forall N Aix Bix Cix X Y p q (t : nat -> R) acc,
  Aix < N -> Bix < N -> Cix < N -> Aix <> Bix -> Aix <> Cix -> Bix <> Cix ->
  X <= Y -> Y < N -> p < 3 -> q < 3 -> (X = Y -> p <= q) ->
  apply_upds ROps (packed N (slot_of X Y p q)) acc (updates2 N Aix Bix Cix t)
  = Rplus acc (hess_spec [0; 1; 2] (atom_of Aix Bix Cix) t X Y p q).
Proof. exact hess_scatter_distinct. Qed.
Print Assumptions C04_hess_scatter_distinct.

Theorem C04_hess_scatter_AeqB : forall N Aix Cix X Y p q (t : nat -> R) acc,
  Aix < N -> Cix < N -> Aix <> Cix ->
  X <= Y -> Y < N -> p < 3 -> q < 3 -> (X = Y -> p <= q) ->
  apply_upds ROps (packed N (slot_of X Y p q)) acc (updates2 N Aix Aix Cix t)
  = Rplus acc (hess_spec [0; 1; 2] (atom_of Aix Aix Cix) t X Y p q).
Proof. exact hess_scatter_AeqB. Qed.
Print Assumptions C04_hess_scatter_AeqB.

(* ECP on the atom of one shell: the blocks are those of the joint displacement and only AA, AB, BB are read *)
Theorem C04_hess_scatter_coincident : forall N Aix Bix Cix X Y p q (t : nat -> R) acc,
  Aix < N -> Bix < N -> Aix <> Bix -> (Cix = Aix \/ Cix = Bix) ->
  X <= Y -> Y < N -> p < 3 -> q < 3 -> (X = Y -> p <= q) ->
  apply_upds ROps (packed N (slot_of X Y p q)) acc (updates2 N Aix Bix Cix t)
  = Rplus acc (hess_spec [0; 1] (atom_of Aix Bix Cix) t X Y p q).
Proof. exact hess_scatter_coincident. Qed.
Print Assumptions C04_hess_scatter_coincident.

Theorem C04_hess_scatter_all_coincident : forall N Aix (t : nat -> R), updates2 N Aix Aix Aix t = [].
Proof. exact hess_scatter_all_coincident. Qed.
Print Assumptions C04_hess_scatter_all_coincident.

(* every index written is a packed Hessian index *)
Theorem C04_hess_scatter_range : forall N Aix Bix Cix (t : nat -> R),
  Aix < N -> Bix < N -> Cix < N ->
  Forall (fun u => fst u < 3 * N * (3 * N + 1) / 2) (updates2 N Aix Bix Cix t).
Proof. exact hess_scatter_range. Qed.
Print Assumptions C04_hess_scatter_range.

(* non-vacuity: a concrete assignment, slot and block function *)
Example C04_example_scatter :
  apply_upds ROps (packed 3 (slot_of 0 2 1 2)) 0%R (updates2 3 2 0 1 (fun i => INR i)) = INR (6 + 3 * 2 + 1).
Proof.
  rewrite (hess_scatter_distinct 3 2 0 1 0 2 1 2) by lia.
  unfold hess_spec, atom_of, ind, D. cbn [flat_map map app fold_right nth Nat.eqb andb]. cbn. lra.
Qed.

(* Whole-matrix form: for every system (shell list, atom assignment, ECP list, block oracle) and every matrix element
   (gk, gl), each packed Hessian entry / each first-derivative entry the integrator returns is the sum over the ECPs of the
   per-triple contributions characterised above. *)
From LV Require Import Api.ApiWhole.
Theorem C04_second_entry_sum : forall shell_l shell_atom ecp_atom natoms,
  (forall s, nth s shell_atom 0 < natoms) -> (forall e, nth e ecp_atom 0 < natoms) ->
  forall blk2 X Y p q gk gl, X <= Y -> Y < natoms -> p < 3 -> q < 3 -> (X = Y -> p <= q) ->
    let '((s1, k), (s2, l)) := ordered shell_l gk gl in
    second_entry ROps shell_l shell_atom ecp_atom natoms blk2 (packed natoms (slot_of X Y p q)) gk gl
    = ApiWhole.Rsum (map (fun e => hess_contrib (nth s1 shell_atom 0) (nth s2 shell_atom 0) (nth e ecp_atom 0) (fun i => blk2 s1 s2 e i k l) X Y p q)
                (seq 0 (length ecp_atom))).
Proof. exact second_entry_sum. Qed.
Print Assumptions C04_second_entry_sum.
Theorem C04_first_entry_sum : forall shell_l shell_atom ecp_atom blk1 X q gk gl, q < 3 ->
    let '((s1, k), (s2, l)) := ordered shell_l gk gl in
    first_entry ROps shell_l shell_atom ecp_atom blk1 (3 * X + q) gk gl
    = ApiWhole.Rsum (map (fun e => Rplus (Rplus (ind (Nat.eqb (nth s1 shell_atom 0) X) (blk1 s1 s2 e q k l)) (ind (Nat.eqb (nth s2 shell_atom 0) X) (blk1 s1 s2 e (q + 3) k l)))
                                    (ind (Nat.eqb (nth e ecp_atom 0) X) (blk1 s1 s2 e (q + 6) k l))) (seq 0 (length ecp_atom))).
Proof. exact first_entry_sum. Qed.
Print Assumptions C04_first_entry_sum.
