(* C05 — results depend only on the current inputs, not on the call history. *)
From Coq Require Import List Arith PeanoNat Bool.
From LV Require Import History.HistoryModel History.HistoryProofs.
Import ListNotations.

(* For every discipline that resets its container, every history, every compute call:
   exactly one evaluation at the current coordinates per slot, documented lengths. *)
Theorem C05_history_independent : forall d natoms, discipline_ok d = true -> forall h,
  let s := run d natoms h in
  ints (step d natoms s CompInt) = [[(sv s, ev s)]] /\
  firsts (step d natoms s CompFirst) = repeat [(sv s, ev s)] (3 * natoms) /\
  seconds (step d natoms s CompSecond) = repeat [(sv s, ev s)] ((3 * natoms * (3 * natoms + 1)) / 2).
Proof. exact history_independent. Qed.
Print Assumptions C05_history_independent.

Theorem C05_computes_do_not_interfere : forall d natoms s,
    firsts (step d natoms s CompInt) = firsts s /\ seconds (step d natoms s CompInt) = seconds s /\
    ints (step d natoms s CompFirst) = ints s /\ seconds (step d natoms s CompFirst) = seconds s /\
    ints (step d natoms s CompSecond) = ints s /\ firsts (step d natoms s CompSecond) = firsts s /\
    (forall w, ints (step d natoms s (UpdShells w)) = ints s /\ firsts (step d natoms s (UpdShells w)) = firsts s /\
               seconds (step d natoms s (UpdShells w)) = seconds s) /\
    (forall w, ints (step d natoms s (UpdEcps w)) = ints s /\ firsts (step d natoms s (UpdEcps w)) = firsts s /\
               seconds (step d natoms s (UpdEcps w)) = seconds s).
Proof. exact computes_do_not_interfere. Qed.
Print Assumptions C05_computes_do_not_interfere.

Theorem C05_recompute_idempotent : forall d natoms, discipline_ok d = true -> forall h,
    let s1 := step d natoms (run d natoms h) CompFirst in
    firsts (step d natoms s1 CompFirst) = firsts s1.
Proof. exact recompute_idempotent. Qed.
Print Assumptions C05_recompute_idempotent.

(* the appending discipline is refuted by a two-step history (the witness the check replays) *)
Theorem C05_append_refuted : forall natoms, 0 < natoms ->
  let d := mkDisc Assign PushBack PushBack in
  let s := run d natoms [CompFirst; CompFirst] in
  length (firsts s) = 2 * (3 * natoms) /\
  nth 0 (firsts s) [] = [(0, 0); (0, 0)] /\
  firsts s <> repeat [(0, 0)] (3 * natoms).
Proof. exact append_refuted. Qed.
Print Assumptions C05_append_refuted.

(* non-vacuity: a resetting discipline exists and a concrete history meets the statement *)
Example C05_example : discipline_ok (mkDisc Assign Assign ClearPush) = true /\
  firsts (run (mkDisc Assign Assign ClearPush) 2 [CompFirst; UpdShells 1; CompSecond; CompFirst])
  = repeat [(1, 0)] 6.
Proof. vm_compute. split; reflexivity. Qed.
