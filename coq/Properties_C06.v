(* C06 — screening is a pure optimisation: theorem claimed (integrator model; magnitudes are measured, not proved). *)
From Coq Require Import List Arith PeanoNat Reals.
From LV Require Import Base.NumOps Base.RInst Api.ApiModel Api.ApiProofs.
(* the screened matrix entry is the unscreened one minus the sum of the skipped (shell, ECP) blocks: screens remove
   additive terms and change nothing else (no state, no renormalisation) — for every system and mask *)
Theorem C06_api_screen_additive : forall shell_l ecp_atom mask blk0 gk gl,
    let '((s1, k), (s2, l)) := ordered shell_l gk gl in
    integrals_entry ROps shell_l ecp_atom mask blk0 gk gl
    = Rminus (integrals_entry ROps shell_l ecp_atom (fun _ _ => true) blk0 gk gl)
             (fold_right Rplus 0%R (map (fun e => if mask s1 e then 0%R else blk0 s1 s2 e k l) (seq 0 (length ecp_atom)))).
Proof. exact api_screen_additive. Qed.
Print Assumptions C06_api_screen_additive.

(* the same at the shell-pair level (model of compute_shell_pair's per-angular-momentum screen, ShellPairModel.combine_pair,
   tied to ecpint.cpp by C01's K-a correspondence): the screened block entry is the unscreened one minus the skipped local
   part minus the skipped semi-local channels -- nothing else changes, for every mask *)
From Coq Require Import ZArith.
From LV Require Import ShellPair.ShellPairModel ShellPair.ShellPairScreen.
Theorem C06_pair_screen_additive : forall L mask noType1 t1 (t2 : nat -> Z -> R),
  combine_pair ROps L mask noType1 t1 t2
  = Rminus (Rminus (combine_pair ROps L (fun _ => true) noType1 t1 t2) (if orb (mask L) noType1 then 0%R else t1))
           (Rsum (map (fun l => if mask l then 0%R else t2_l t2 l) (seq 0 L))).
Proof. exact pair_screen_additive. Qed.
Print Assumptions C06_pair_screen_additive.

(* the primitive estimate (model of RadialIntegral::estimate_type2, tied to radial_quad.cpp by a tight correspondence on
   every run): its evaluation point is the non-negative stationary point of the envelope r^c0 exp(-p r^2 + c1 r), and the
   estimate is the same for both orders of the two shells *)
From LV Require Import Radial.EstimateModel Radial.EstimateProofs.
Theorem C06_est_point_stationary : forall c0 c1 p, (0 < p)%R -> (0 <= c0)%R -> (0 <= c1)%R ->
  let P := est_point ROps c0 c1 p in (2 * p * P * P - c1 * P - c0 = 0 /\ 0 <= P /\ c1 / (2 * p) <= P)%R.
Proof. exact est_point_stationary. Qed.
Print Assumptions C06_est_point_stationary.
Theorem C06_prim_estimate_swap : forall pi_ erf Ntab lMax Kt fl N l1 l2 n a b A B,
  prim_estimate ROps pi_ erf Ntab lMax Kt fl N l1 l2 n a b A B = prim_estimate ROps pi_ erf Ntab lMax Kt fl N l2 l1 n b a B A.
Proof. exact prim_estimate_swap. Qed.
Print Assumptions C06_prim_estimate_swap.

(* The per-l shell-pair estimate (ShellPair/PairEstimate.v, tied to ECPIntegral::estimate_type2 by the extracted-model correspondence) is
   symmetric under exchange of the two shells with their data, for every input: the per-l screen decides alike for (A,B) and (B,A). *)
From LV Require Import ShellPair.PairEstimate ShellPair.PairEstimateProofs.
Theorem C06_pair_estimate_swap : forall (euler sinh1 pi_ : R) LA LB A2 B2 Am Bm minA minB pA pB l min_eta gs,
  pair_estimate ROps euler sinh1 pi_ LA LB A2 B2 Am Bm minA minB pA pB l min_eta gs
  = pair_estimate ROps euler sinh1 pi_ LB LA B2 A2 Bm Am minB minA pB pA l min_eta gs.
Proof. exact pair_estimate_swap. Qed.
Print Assumptions C06_pair_estimate_swap.
