(* C06 — screening is a pure optimisation: theorem claimed (integrator model; magnitudes are measured, not proved). *)
From Coq Require Import List Arith PeanoNat Reals.
From LV Require Import Base.NumOps Base.RInst Api.ApiModel Api.ApiProofs.
(* the screened matrix entry is the unscreened one minus the sum of the skipped (shell, ECP) blocks: screens remove
   additive terms and change nothing else (no state, no renormalisation) — for every system and mask *)
Theorem C06_api_screen_additive : forall shell_l ecp_atom mask blk0 gk gl,
    let '((s1, k), (s2, l)) := ordered shell_l gk gl in
    integrals_entry ROps shell_l ecp_atom mask blk0 gk gl
    = Rminus (integrals_entry ROps shell_l ecp_atom (fun _ _ => true) blk0 gk gl)
             (fold_right Rplus 0%R (map (fun e => if mask s1 e then 0%R else blk0 s1 s2 e k l) (seq 0 (length ecp_atom)))).
Proof. exact api_screen_additive. Qed.
Print Assumptions C06_api_screen_additive.
