(* C07 — symmetry under exchange of the two shells: theorems claimed (integrator model). *)
From Coq Require Import List Arith PeanoNat.
From LV Require Import Base.NumOps Base.Cart Api.ApiModel Api.ApiProofs.

(* any two entries lying in different shells: (i,j) and (j,i) are the same expression, for every block oracle,
   numeric dictionary, shell list and atom assignment *)
Theorem C07_integrals_symmetric_off : forall {T} (o : NumOps T) shell_l ecp_atom mask blk0 gk gl,
    fst (locate shell_l gk 0) <> fst (locate shell_l gl 0) ->
    integrals_entry o shell_l ecp_atom mask blk0 gk gl = integrals_entry o shell_l ecp_atom mask blk0 gl gk.
Proof. intros T o. exact (integrals_symmetric_off o). Qed.
Print Assumptions C07_integrals_symmetric_off.
Theorem C07_first_symmetric_off : forall {T} (o : NumOps T) shell_l shell_atom ecp_atom blk1 idx gk gl,
    fst (locate shell_l gk 0) <> fst (locate shell_l gl 0) ->
    first_entry o shell_l shell_atom ecp_atom blk1 idx gk gl = first_entry o shell_l shell_atom ecp_atom blk1 idx gl gk.
Proof. intros T o. exact (first_symmetric_off o). Qed.
Print Assumptions C07_first_symmetric_off.
Theorem C07_second_symmetric_off : forall {T} (o : NumOps T) shell_l shell_atom ecp_atom natoms blk2 idx gk gl,
    fst (locate shell_l gk 0) <> fst (locate shell_l gl 0) ->
    second_entry o shell_l shell_atom ecp_atom natoms blk2 idx gk gl = second_entry o shell_l shell_atom ecp_atom natoms blk2 idx gl gk.
Proof. intros T o. exact (second_symmetric_off o). Qed.
Print Assumptions C07_second_symmetric_off.
(* inside one shell's own block the matrix is symmetric as soon as that diagonal block is (the low-level statement of C07 for A = B) *)
Theorem C07_integrals_symmetric_diag : forall {T} (o : NumOps T) shell_l ecp_atom mask blk0 gk gl,
    fst (locate shell_l gk 0) = fst (locate shell_l gl 0) ->
    (forall s e k l, blk0 s s e k l = blk0 s s e l k) ->
    integrals_entry o shell_l ecp_atom mask blk0 gk gl = integrals_entry o shell_l ecp_atom mask blk0 gl gk.
Proof. intros T o. exact (integrals_symmetric_diag o). Qed.
Print Assumptions C07_integrals_symmetric_diag.

(* The low-level statement on the shell-pair model (ShellPairModel, tied to ecpint.cpp / qgen.cpp by C01's K-a
   correspondence): in exact arithmetic the generic semi-local contraction and the local contraction are unchanged when
   the two shells are exchanged together with their leaves (harmonics SA <-> SB, the two angular indices of the radial
   table) -- for every lambda, mu, pair of Cartesian functions, shifts, and every table. *)
From Coq Require Import ZArith Reals.
From LV Require Import Base.RInst ShellPair.ShellPairModel ShellPair.ShellPairSym.
Theorem C07_rolled_up_swap : forall (pi_ : R) Om (S1 S2 : nat -> Z -> R) (rad : nat -> nat -> nat -> R) lam fa fb A B mu,
  rolled_up ROps pi_ Om S1 S2 rad lam fa fb A B mu
  = rolled_up ROps pi_ Om S2 S1 (fun N l1 l2 => rad N l2 l1) lam fb fa B A mu.
Proof. exact rolled_up_swap. Qed.
Print Assumptions C07_rolled_up_swap.
Theorem C07_type1_swap : forall (pi_ : R) W rad1 fa fb A B,
  type1 ROps pi_ W rad1 fa fb A B = type1 ROps pi_ W rad1 fb fa B A.
Proof. exact type1_swap. Qed.
Print Assumptions C07_type1_swap.

(* ... and the whole dispatch of ECPIntegral::type2 (both on the centre / one on the centre, mirrored for B / the LA <= LB
   choice with the transposed copy-back), as modelled by pair_t2 (the function the K-a correspondence executes): exchanging
   the shells -- functions, shifts, harmonics, primitive lists, on-centre flags, and the radial tables as the library
   stores them for the exchanged call -- gives the same value. *)
From LV Require Import ShellPair.ShellPairDispatch.
Theorem C07_pair_t2_swap : forall (pi_ : R) Om gamma onA onB LA LB pA pB pU (SA SB : nat -> Z -> R)
    (radq radg radq' radg' : nat -> nat -> nat -> R) lam fa fb A B mu,
  (forall N l1 l2, radq' N l1 l2 = radq N l2 l1) ->
  (if Nat.eqb LA LB then forall N l1 l2, radg' N l1 l2 = radg N l2 l1 else forall N l1 l2, radg' N l1 l2 = radg N l1 l2) ->
  pair_t2 ROps pi_ Om gamma onA onB LA LB pA pB pU SA SB radq radg lam fa fb A B mu
  = pair_t2 ROps pi_ Om gamma onB onA LB LA pB pA pU SB SA radq' radg' lam fb fa B A mu.
Proof. exact pair_t2_swap. Qed.
Print Assumptions C07_pair_t2_swap.
