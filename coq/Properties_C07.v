(* C07 — symmetry under exchange of the two shells: theorems claimed (integrator model). *)
From Coq Require Import List Arith PeanoNat.
From LV Require Import Base.NumOps Base.Cart Api.ApiModel Api.ApiProofs.

(* any two entries lying in different shells: (i,j) and (j,i) are the same expression, for every block oracle,
   numeric dictionary, shell list and atom assignment *)
Theorem C07_integrals_symmetric_off : forall {T} (o : NumOps T) shell_l ecp_atom mask blk0 gk gl,
    fst (locate shell_l gk 0) <> fst (locate shell_l gl 0) ->
    integrals_entry o shell_l ecp_atom mask blk0 gk gl = integrals_entry o shell_l ecp_atom mask blk0 gl gk.
Proof. intros T o. exact (integrals_symmetric_off o). Qed.
Print Assumptions C07_integrals_symmetric_off.
Theorem C07_first_symmetric_off : forall {T} (o : NumOps T) shell_l shell_atom ecp_atom blk1 idx gk gl,
    fst (locate shell_l gk 0) <> fst (locate shell_l gl 0) ->
    first_entry o shell_l shell_atom ecp_atom blk1 idx gk gl = first_entry o shell_l shell_atom ecp_atom blk1 idx gl gk.
Proof. intros T o. exact (first_symmetric_off o). Qed.
Print Assumptions C07_first_symmetric_off.
Theorem C07_second_symmetric_off : forall {T} (o : NumOps T) shell_l shell_atom ecp_atom natoms blk2 idx gk gl,
    fst (locate shell_l gk 0) <> fst (locate shell_l gl 0) ->
    second_entry o shell_l shell_atom ecp_atom natoms blk2 idx gk gl = second_entry o shell_l shell_atom ecp_atom natoms blk2 idx gl gk.
Proof. intros T o. exact (second_symmetric_off o). Qed.
Print Assumptions C07_second_symmetric_off.
(* inside one shell's own block the matrix is symmetric as soon as that diagonal block is (the low-level statement of C07 for A = B) *)
Theorem C07_integrals_symmetric_diag : forall {T} (o : NumOps T) shell_l ecp_atom mask blk0 gk gl,
    fst (locate shell_l gk 0) = fst (locate shell_l gl 0) ->
    (forall s e k l, blk0 s s e k l = blk0 s s e l k) ->
    integrals_entry o shell_l ecp_atom mask blk0 gk gl = integrals_entry o shell_l ecp_atom mask blk0 gl gk.
Proof. intros T o. exact (integrals_symmetric_diag o). Qed.
Print Assumptions C07_integrals_symmetric_diag.
