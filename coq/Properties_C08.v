(* C08 — translation invariance and tensor covariance: theorems claimed. *)
From Coq Require Import List Arith ZArith PeanoNat Reals.
From LV Require Import Base.NumOps Base.RInst Rot.RotModel Rot.RotProofs Deriv.DerivModel.
Local Open Scope R_scope.

(* for every real 3x3 matrix, every exponent triple and every point: the term list the harness uses evaluates to the rotated monomial *)
Theorem C08_expand_correct : forall (Rm : (R * R * R) * (R * R * R) * (R * R * R)) (k l m : nat) (r : R * R * R),
  let '(r0, r1, r2) := Rm in let '(x, y, z) := r in
  let dot := fun row : R * R * R => let '(a, b, c) := row in a * x + b * y + c * z in
  peval (expand ROps Rm k l m) r = dot r0 ^ k * dot r1 ^ l * dot r2 ^ m.
Proof. exact expand_correct. Qed.
Print Assumptions C08_expand_correct.

Theorem C08_expand_degree : forall (Rm : (R * R * R) * (R * R * R) * (R * R * R)) (k l m : nat),
  Forall (fun t => tdeg t = (k + l + m)%nat) (expand ROps Rm k l m).
Proof. exact expand_degree. Qed.
Print Assumptions C08_expand_degree.

(* the centre-coincidence decision of the derivative routines depends on differences only *)
Theorem C08_off_centre_translation : forall a0 a1 a2 c0 c1 c2 t0 t1 t2 : R,
  off_centre ROps (a0 + t0, a1 + t1, a2 + t2) (c0 + t0, c1 + t1, c2 + t2) = off_centre ROps (a0, a1, a2) (c0, c1, c2).
Proof.
  intros. unfold off_centre, l1dist. cbn [nsub nadd nabs ROps].
  replace (a0 + t0 - (c0 + t0)) with (a0 - c0) by ring. replace (a1 + t1 - (c1 + t1)) with (a1 - c1) by ring.
  replace (a2 + t2 - (c2 + t2)) with (a2 - c2) by ring. reflexivity.
Qed.
Print Assumptions C08_off_centre_translation.
