(* C09 — results do not depend on the code-generation configuration.
   The unrolled classes are validated line by line against the exact angular model by a rational checker
   (GenCode/GenModel.v, run on the regenerated data in gen/Obl_C09.v on every check); these theorems say what a passed
   check means over the reals: the value the generated lines leave in values(na, nb, mui) equals the generic
   contraction qgen::rolled_up (shell-pair model, exact angular factors) up to
       eps * (sum of the absolute exact terms) + delta * (sum of |leaf product| over lines whose exact coefficient is 0),
   eps = 1e-11, delta = 1.58e-9, for every value of the binomial coefficients, radial table and harmonics. *)
From Coq Require Import List Arith ZArith QArith Reals.
From LV Require Import Base.NumOps Base.RInst Base.Cart ShellPair.ShellPairModel ShellPair.ShellPairScreen ShellPair.ShellPairSym.
From LV Require Import GenCode.GenModel GenCode.GenProofs GenCode.GenRolled.
Import ListNotations.
Local Open Scope R_scope.

(* the rational coefficient test is sound: |d - pi^2 q sqrt(s)| <= 1e-11 |pi^2 q sqrt(s)| *)
Theorem C09_coef_close_sound : forall d qp s,
  coef_close d qp s = true -> Q2R qp <> 0 -> 0 <= Q2R s ->
  Rabs (Q2R d - PI * PI * Q2R qp * sqrt (Q2R s)) <= Q2R eps * Rabs (PI * PI * Q2R qp * sqrt (Q2R s)).
Proof. exact coef_close_sound. Qed.
Print Assumptions C09_coef_close_sound.

(* a class that passes the checker: generated lines vs the sum of the exact terms *)
Theorem C09_class_sound : forall CA CB rad SA SB LA LB lam G,
  class_ok LA LB lam G = true ->
  forall na nb mui, (na < ncart LA)%nat -> (nb < ncart LB)%nat -> (mui <= 2 * lam)%nat ->
    Rabs (gen_value CA CB rad SA SB G na nb mui - exact_value CA CB rad SA SB LA LB lam na nb mui)
    <= Q2R eps * exact_abs CA CB rad SA SB LA LB lam na nb mui + Q2R delta * extra_abs CA CB rad SA SB lam na nb mui G.
Proof. exact class_sound. Qed.
Print Assumptions C09_class_sound.

Theorem C09_targets_in_range : forall LA LB lam G,
  class_ok LA LB lam G = true ->
  forall t, In t G -> (r_na t < ncart LA)%nat /\ (r_nb t < ncart LB)%nat /\ (r_mui t <= 2 * lam)%nat.
Proof. exact class_targets_in_range. Qed.
Print Assumptions C09_targets_in_range.

(* the sum of the exact terms is the generic contraction *)
Theorem C09_expected_is_rolled_up : forall rad SA SB lam fa fb A B mui na nb,
  (forall a b, In a (subidx fa) -> In b (subidx fb) ->
     cC3 fa A a * cC3 fb B b = 0 \/ IZR 1 * powerRZ 10 (-15) < Rabs (cC3 fa A a * cC3 fb B b)) ->
  Rsum (map (fun k => cexact lam mui k * Xk (fun _ a => cC3 fa A a) (fun _ b => cC3 fb B b) rad SA SB na nb k) (expected lam (omtab lam) fa fb mui))
  = rolled_up ROps PI OmR (Sz SA) (Sz SB) rad lam fa fb A B (Z.of_nat mui - Z.of_nat lam).
Proof. exact expected_is_rolled_up. Qed.
Print Assumptions C09_expected_is_rolled_up.

(* both together: the unrolled translation against the rolled-up one *)
Theorem C09_unrolled_vs_rolled_up : forall LA LB lam G,
  class_ok LA LB lam G = true ->
  forall (A B : R * R * R) (rad : nat -> nat -> nat -> R) (SA SB : nat -> nat -> R) na nb mui,
    (na < ncart LA)%nat -> (nb < ncart LB)%nat -> (mui <= 2 * lam)%nat ->
    let fa := nth na (cart LA) (0, 0, 0)%nat in let fb := nth nb (cart LB) (0, 0, 0)%nat in
    (forall a b, In a (subidx fa) -> In b (subidx fb) ->
       cC3 fa A a * cC3 fb B b = 0 \/ IZR 1 * powerRZ 10 (-15) < Rabs (cC3 fa A a * cC3 fb B b)) ->
    Rabs (gen_value (CAf LA A) (CAf LB B) rad SA SB G na nb mui
          - rolled_up ROps PI OmR (Sz SA) (Sz SB) rad lam fa fb A B (Z.of_nat mui - Z.of_nat lam))
    <= Q2R eps * exact_abs (CAf LA A) (CAf LB B) rad SA SB LA LB lam na nb mui
       + Q2R delta * extra_abs (CAf LA A) (CAf LB B) rad SA SB lam na nb mui G.
Proof. exact checked_class_is_rolled_up. Qed.
Print Assumptions C09_unrolled_vs_rolled_up.

(* non-vacuity: the (s,s,l=0) class with its single line 16 pi^2 * (1/4pi)... = 157.91367041742967 passes;
   the six-digit coefficient the generator printed before its repair does not *)
Example C09_class_000_ok :
  class_ok 0 0 0 [mkRT 0 0 0 (Qmake 15791367041742967 100000000000000) 0 (0,0,0)%nat 0 (0,0,0)%nat 0 0 0 0 0 0 0] = true.
Proof. vm_compute. reflexivity. Qed.
Example C09_six_digits_refuted :
  class_ok 0 0 0 [mkRT 0 0 0 (Qmake 157914 1000) 0 (0,0,0)%nat 0 (0,0,0)%nat 0 0 0 0 0 0 0] = false.
Proof. vm_compute. reflexivity. Qed.
Example C09_missing_line_refuted : class_ok 0 0 0 [] = false.
Proof. vm_compute. reflexivity. Qed.
