(* C10 — thread safety: theorems claimed (event model). *)
From Coq Require Import List Arith PeanoNat Bool.
From LV Require Import Race.RaceModel Race.RaceProofs.
Import ListNotations.

Theorem C10_compute_race_free : forall fp bodies, fp_ok fp = true -> private_ctors bodies -> has_race fp bodies = false.
Proof. exact compute_race_free. Qed.
Print Assumptions C10_compute_race_free.

Theorem C10_ctor_race : forall fp g rest, ctor_global_writes fp = g :: rest -> In g (compute_global_reads fp) ->
  has_race fp [[Construct 1]; [Construct 2]] = true /\ has_race fp [[Construct 1]; [Compute 0]] = true.
Proof. exact ctor_race. Qed.
Print Assumptions C10_ctor_race.

Example C10_example : fp_ok (mkFp [] [0; 1] [] [0; 1; 2] false) = true /\
  has_race (mkFp [] [0; 1] [] [0; 1; 2] false) [[Compute 0; Compute 0]; [Construct 1; Compute 1]; [Compute 0]] = false /\
  has_race (mkFp [0] [0; 1] [] [0; 1; 2] false) [[Compute 0]; [Construct 1]] = true.
Proof. vm_compute. repeat split. Qed.
