(* C11 — index safety: the statements of the other developments that say "every index the model evaluates is
   within the corresponding dimension", collected. *)
From Coq Require Import List Arith ZArith PeanoNat Permutation Lia.
From LV Require Import Base.Cart Deriv.DerivModel Deriv.DerivProofs Api.ApiModel Api.ApiProofs Quad.QuadModel Quad.QuadProofs.

(* positions computed by N_INDEX stay inside the shell, for every L *)
Theorem C11_nindex_lt : forall L l m, l + m <= L -> nindex l m < ncart L.
Proof. exact nindex_lt. Qed.
Print Assumptions C11_nindex_lt.

(* derivative assembly: "+" indices < ncart(LA+2), clamped "-" indices < ncart(LA) — all LA, rows, components *)
Theorem C11_lsd_bounds : forall LA na q t, q < 3 -> na < ncart (S LA) -> klm_at (S LA) na = t ->
  let '(k, l, m) := t in lsd_plus_idx q l m < ncart (S (S LA)) /\ lsd_minus_idx (ncart LA) q l m < ncart LA.
Proof.
  intros LA na q t Hq Hna Ht. pose proof (lsd_indices LA na q t Hq Hna Ht) as H. destruct t as [[k l] m].
  cbn zeta in H. destruct H as (_ & _ & _ & H1 & H2 & _). split; assumption.
Qed.
Print Assumptions C11_lsd_bounds.

(* packed Hessian slots: exactly [0, 3N(3N+1)/2) — every write of compute_second_derivs lands in the list *)
Theorem C11_hstart_range : forall N idx, In idx (map (packed N) (slots N)) -> idx < 3 * N * (3 * N + 1) / 2.
Proof. intros N idx H. now apply (proj2 (hstart_bijection N)). Qed.
Print Assumptions C11_hstart_range.

(* quadrature: every grid index the one-point scheme reads is below maxN, at every level of every grid size *)
Theorem C11_quadrature_bounds : forall h s j, 1 <= s ->
  let n := 2 * h + 1 in let maxN := 2 * (n + 1) * s - 1 in In j (visited maxN n s 2) -> j < maxN.
Proof. exact onepoint_level_bounds. Qed.
Print Assumptions C11_quadrature_bounds.

(* fixed-size tables: GAMMA[N], FAST_POW[N+1], FAST_POW[N+2] with N = 2+LA+LB+n, shifted momenta <= MAX_L+... *)
Theorem C11_table_indices : forall LA LB n maxl, LA <= maxl -> LB <= maxl -> maxl <= 5 -> n <= 2 ->
  let N := LA + LB + n in N < 30 /\ N + 1 < 23 /\ N + 2 < 23.
Proof. intros. cbn zeta. lia. Qed.
Print Assumptions C11_table_indices.
