(* C12 — primitive radial integrals: static theorems; they are instantiated on the case table regenerated from
   src/lib/radial_gen.cpp on every run in gen/Obl_C12.v (table_ok_now, table_wf_now, cases_sound). *)
From Coq Require Import ZArith QArith List Bool Reals.
From LV Require Import Radial.RadialSym Radial.RadialSound Radial.RadialTable.
Import ListNotations.
Local Open Scope Z_scope.
(* the normaliser rejects what it must: a non-monomial divisor and a C++ integer/integer division *)
Example C12_norm_rejects : norm (RDiv RP (RAdd RX RY)) = None /\ norm (RMul (RDiv (RI 3) (RI 2)) RX) = None /\
  norm (RDiv (RMul (RI 3) RX) (RI 2)) = Some [((3 # 2)%Q, (0, 1, 0))].
Proof. vm_compute. repeat split. Qed.
(* an erroneous table entry is detected: the shipped (1,1,10) case before its repair *)
Example C12_detects_wrong_case :
  let tab := [(10, [(BV 8, RI 1)]); (109, [(BV 6, RNeg (RDiv (RI 1) (RMul (RI 2) RY))); (BV 7, RI 1)]);
              (111, [(BV 8, RNeg (RDiv (RI 1) (RMul (RI 2) RY))); (BV 9, RI 1)]);
              (10110, [(BV 6, RNeg (RDiv (RI 1) (RMul (RMul (RI 4) RX) RY))); (BV 8, RNeg (RDiv (RAdd (RDiv RP (RI 2)) (RMul RY RY)) (RMul RX RY)));
                       (BV 7, RDiv (RI 1) (RMul (RI 2) RX)); (BV 9, RDiv RP RX)])] in
  is_bad (check_case tab 10110) = true.
Proof. vm_compute. reflexivity. Qed.

(* Soundness of the normal form: a coefficient expression the normaliser accepts evaluates, in the reals, to its
   Laurent normal form at every p, x, y <> 0 (the guard rejects integer/integer divisions, the only place where the
   C++ value and the real value of such an expression differ). *)
Theorem C12_norm_sound : forall (p x y : R), p <> 0%R -> x <> 0%R -> y <> 0%R ->
  forall e l, norm e = Some l -> elp p x y l = ere p x y e.
Proof. exact norm_sound. Qed.
Print Assumptions C12_norm_sound.

(* The table theorem: if a case table is well-formed and passes the symbolic check (no VBad verdict), then for EVERY
   family T(i,j,k) that satisfies T(0,0,k) = values[k-2] and the two recurrences R_j, R_i, at every p, x, y <> 0, the
   exact-arithmetic value of the case selected for (i,j,k) -- the sum over its statements of coefficient expression
   times base integral, as written in the source -- is T(i,j,k); the only cases taken on trust are those no recurrence
   reaches (verdict VUnchecked).  The recurrences are only required where the integrals they speak of exist (power k >= 1 of r in every
   integral involved: k >= 2 at the left-hand side), so that the hypotheses are satisfied by the actual integrals. *)
Theorem C12_case_value : forall (p x y : R), p <> 0%R -> x <> 0%R -> y <> 0%R ->
  forall (vals : basis -> R) (Tf : Z -> Z -> Z -> R),
  (forall k, 1 <= k -> Tf 0 0 k = vals (BV (k - 2))) ->
  (forall j k, 2 <= j -> 2 <= k -> Tf 0 j k = (Tf 0%Z (j - 2)%Z k - IZR (2 * j - 1) / (2 * y) * Tf 0%Z (j - 1)%Z (k - 1)%Z)%R) ->
  (forall i j k, 1 <= i -> 1 <= j -> 2 <= k ->
     Tf i j k = (IZR (2 + j - i - k) / (2 * x) * Tf (i - 1)%Z j (k - 1)%Z - y / x * Tf (i - 1)%Z (j - 1)%Z k + p / x * Tf (i - 1)%Z j (k + 1)%Z)%R) ->
  forall tab, table_wf tab = true -> table_ok tab = true ->
  (forall i j k l, 0 <= j < 100 -> 0 <= k < 100 -> check_case tab (key_of i j k) = VUnchecked ->
     lookup tab i j k = Some l -> elc p x y vals l = Tf i j k) ->
  forall i j k c, 0 <= i -> 0 <= j < 100 -> 0 <= k < 100 ->
    find (fun c => fst c =? key_of i j k) tab = Some c -> ecase p x y vals (snd c) = Tf i j k.
Proof. exact case_value. Qed.
Print Assumptions C12_case_value.

(* non-vacuity: a three-entry table that passes, with its R_j entry *)
Example C12_example_table :
  let tab := [(2, [(BV 0, RI 1)]); (4, [(BV 2, RI 1)]); (103, [(BV 0, RNeg (RDiv (RI 1) (RMul (RI 2) RY))); (BV 1, RI 1)]);
              (204, [(BV 0, RDiv (RI 3) (RMul (RI 4) (RMul RY RY))); (BV 2, RI 1); (BV 1, RNeg (RDiv (RI 3) (RMul (RI 2) RY)))])] in
  table_wf tab = true /\ table_ok tab = true /\ check_case tab 204 = VRj.
Proof. vm_compute. repeat split. Qed.

(* The numeric model of the closed-form path (Radial/RadialNum.v: base integrals, seeds, the translated case evaluated
   statement by statement), whose extracted form reproduces the library's closed-form values on every run, computes --
   over the reals -- exactly the expression C12_case_value is about: the translated case evaluated on the model's base
   integrals and seeds. *)
From LV Require Import Base.NumOps Base.RInst Radial.RadialNum Radial.RadialNumProofs.
Theorem C12_closed_value_is_case : forall root_pi dawson tab nbase i j k (zeta a b A B v s : R),
  closed_value ROps root_pi dawson tab nbase i j k zeta a b A B = Some (v, s) ->
  exists c vl g1a g1b h2,
    find (fun c => Z.eqb (fst c) (key_of i j k)) tab = Some c /\
    v = ecase (zeta + a + b)%R (a * A)%R (b * B)%R (gbasis ROps vl g1a g1b h2) (snd c).
Proof. exact closed_value_is_case. Qed.
Print Assumptions C12_closed_value_is_case.

(* The two recurrences C12_case_value assumes, FROM the definition of the integrals (Radial/RadialRec.v).  T i j k is the improper
   integral over (0, inf) of F i j k r = r^k exp(-zeta r^2 - a (r-A)^2 - b (r-B)^2) M_i(2aAr) M_j(2bBr); that the integrals exist is
   the hypothesis (is_RInt_gen ... (T i j k)); Fa is the filter of the lower end (at_point 0 or at_right 0).
   R_j: three-term recurrence of M_l, linearity and uniqueness of the integral - for every i, j, k. *)
From Coquelicot Require Import Coquelicot.
From LV Require Import Bessel.BesselSpec Radial.RadialRec.
Theorem C12_recurrence_j_from_the_integrals : forall (zeta a b A B : R), (0 < b * B)%R ->
  forall (Fa : (R -> Prop) -> Prop) (FFa : ProperFilter Fa), Fa (fun u => (0 <= u)%R) ->
  forall T : nat -> nat -> Z -> R,
  (forall i j k, (1 <= k)%Z -> is_RInt_gen (F zeta a b A B i j k) Fa (Rbar_locally p_infty) (T i j k)) ->
  forall (i j : nat) (k : Z), (2 <= k)%Z -> T i (S (S j)) k = (T i j k - (2 * INR j + 3) / (2 * (b * B)) * T i (S j) (k - 1)%Z)%R.
Proof. intros zeta a b A B Hy Fa FFa HFa T HT. exact (T_rec_j zeta a b A B Hy Fa HFa T HT). Qed.
Print Assumptions C12_recurrence_j_from_the_integrals.
(* R_i: one integration by parts.  With H(r) = r^k env(r) M_i(2aAr) M_{j+1}(2bBr), whose derivative is the combination of four integrands
   (derivative rules of M_l, C14), and H vanishing at both ends of (0, inf):
     2 aA T(i+1, j+1, k) = (2 + j - i - k) T(i, j+1, k-1) + 2 (zeta+a+b) T(i, j+1, k+1) - 2 bB T(i, j, k). *)
Theorem C12_recurrence_i_by_parts : forall (zeta a b A B : R), (0 < b * B)%R ->
  forall (Fa : (R -> Prop) -> Prop) (FFa : ProperFilter Fa), Fa (fun u => (0 <= u)%R) ->
  forall T : nat -> nat -> Z -> R,
  (forall i j k, (1 <= k)%Z -> is_RInt_gen (F zeta a b A B i j k) Fa (Rbar_locally p_infty) (T i j k)) ->
  (0 < a * A)%R ->
  forall (i j : nat) (k : Z), (2 <= k)%Z -> Fa (fun u => (0 < u)%R) ->
  filterlim (H zeta a b A B i j k) Fa (locally 0%R) -> filterlim (H zeta a b A B i j k) (Rbar_locally p_infty) (locally 0%R) ->
  (2 * (a * A) * T (S i) (S j) k
   = IZR (2 + Z.of_nat j - Z.of_nat i - k) * T i (S j) (k - 1)%Z + 2 * (zeta + a + b) * T i (S j) (k + 1)%Z - 2 * (b * B) * T i j k)%R.
Proof. intros zeta a b A B Hy Fa FFa HFa T HT Hx. exact (T_rec_i zeta a b A B Hy Fa HFa T HT Hx). Qed.
Print Assumptions C12_recurrence_i_by_parts.
(* in the form C12_case_value takes them (Z indices; Tz i j k = T (Z.to_nat i) (Z.to_nat j) k) *)
Theorem C12_SRj_from_the_integrals : forall (zeta a b A B : R), (0 < b * B)%R ->
  forall (Fa : (R -> Prop) -> Prop) (FFa : ProperFilter Fa), Fa (fun u => (0 <= u)%R) ->
  forall T : nat -> nat -> Z -> R,
  (forall i j k, (1 <= k)%Z -> is_RInt_gen (F zeta a b A B i j k) Fa (Rbar_locally p_infty) (T i j k)) ->
  forall j k : Z, (2 <= j)%Z -> (2 <= k)%Z ->
  Tz T 0 j k = (Tz T 0 (j - 2)%Z k - IZR (2 * j - 1) / (2 * (b * B)) * Tz T 0 (j - 1)%Z (k - 1)%Z)%R.
Proof. intros zeta a b A B Hy Fa FFa HFa T HT. exact (SRj_from_integrals zeta a b A B Hy Fa HFa T HT). Qed.
Theorem C12_SRi_from_the_integrals : forall (zeta a b A B : R), (0 < b * B)%R ->
  forall (Fa : (R -> Prop) -> Prop) (FFa : ProperFilter Fa), Fa (fun u => (0 <= u)%R) ->
  forall T : nat -> nat -> Z -> R,
  (forall i j k, (1 <= k)%Z -> is_RInt_gen (F zeta a b A B i j k) Fa (Rbar_locally p_infty) (T i j k)) ->
  (0 < a * A)%R ->
  forall i j k : Z, (1 <= i)%Z -> (1 <= j)%Z -> (2 <= k)%Z -> Fa (fun u => (0 < u)%R) ->
  filterlim (H zeta a b A B (Z.to_nat (i - 1)) (Z.to_nat (j - 1)) k) Fa (locally 0%R) ->
  filterlim (H zeta a b A B (Z.to_nat (i - 1)) (Z.to_nat (j - 1)) k) (Rbar_locally p_infty) (locally 0%R) ->
  Tz T i j k = (IZR (2 + j - i - k) / (2 * (a * A)) * Tz T (i - 1)%Z j (k - 1)%Z - (b * B) / (a * A) * Tz T (i - 1)%Z (j - 1)%Z k
                + (zeta + a + b) / (a * A) * Tz T (i - 1)%Z j (k + 1)%Z)%R.
Proof. intros zeta a b A B Hy Fa FFa HFa T HT Hx. exact (SRi_from_integrals zeta a b A B Hy Fa HFa T HT Hx). Qed.
Print Assumptions C12_SRi_from_the_integrals.

Local Open Scope Z_scope.
(* The table theorem for the integrals themselves: C12_case_value with the two recurrences discharged by Radial/RadialRec.v.
   T i j k is the improper integral over (0, inf) of r^k exp(-zeta r^2 - a (r-A)^2 - b (r-B)^2) M_i(2aAr) M_j(2bBr) (lower end: at_right 0).
   Every hypothesis about the integrals is restricted to the powers k for which it is true of the actual integrals (F(i,j,k) ~ r^(k+i+j)
   and H(i,j,k) ~ r^(k+i+j+1) at 0): existence for k >= 1, vanishing boundary terms for k >= 2, base integrals for k >= 1 - exactly
   the instances the table check uses (keys have 1 <= k <= 98; a recurrence step is only accepted for k >= 2).
   Remaining hypotheses: the integrals exist; the boundary terms of the integration by parts vanish; the base integrals values[k-2] are
   T(0,0,k) (the Dawson-function formulas of compute_base_integrals: compared numerically, C12 correspondence); the cases no recurrence
   reaches.  Then for EVERY well-formed table that passes the check - in particular the one translated from radial_gen.cpp on this run -
   the exact-arithmetic value of the case the switch selects for (i,j,k) is the integral T(i,j,k). *)
Theorem C12_case_value_for_the_integrals : forall (zeta a b A B : R), (0 < a * A)%R -> (0 < b * B)%R -> (zeta + a + b <> 0)%R ->
  forall T : nat -> nat -> Z -> R,
  (forall i j k, 1 <= k -> is_RInt_gen (F zeta a b A B i j k) (at_right 0%R) (Rbar_locally p_infty) (T i j k)) ->
  (forall i j k, 2 <= k -> filterlim (H zeta a b A B i j k) (at_right 0%R) (locally 0%R)) ->
  (forall i j k, 2 <= k -> filterlim (H zeta a b A B i j k) (Rbar_locally p_infty) (locally 0%R)) ->
  forall (vals : basis -> R),
  (forall k, 1 <= k -> Tz T 0 0 k = vals (BV (k - 2))) ->
  forall tab, table_wf tab = true -> table_ok tab = true ->
  (forall i j k l, 0 <= j < 100 -> 0 <= k < 100 -> check_case tab (key_of i j k) = VUnchecked ->
     lookup tab i j k = Some l -> elc (zeta + a + b) (a * A) (b * B) vals l = Tz T i j k) ->
  forall i j k c, 0 <= i -> 0 <= j < 100 -> 0 <= k < 100 ->
    find (fun c => fst c =? key_of i j k) tab = Some c -> ecase (zeta + a + b) (a * A) (b * B) vals (snd c) = Tz T i j k.
Proof.
  intros zeta a b A B Hx Hy Hp T HT HB0 HBi vals Hbase tab Hwf Hok Hanch.
  assert (Fpos : at_right 0%R (fun u => (0 <= u)%R)).
  { exists (mkposreal 1 Rlt_0_1). intros y _ Hy0. apply Rlt_le. exact Hy0. }
  assert (Fspos : at_right 0%R (fun u => (0 < u)%R)).
  { exists (mkposreal 1 Rlt_0_1). intros y _ Hy0. exact Hy0. }
  apply (case_value (zeta + a + b) (a * A) (b * B) Hp (Rgt_not_eq _ _ Hx) (Rgt_not_eq _ _ Hy) vals (Tz T) Hbase).
  - intros j k Hj Hk. exact (SRj_from_integrals zeta a b A B Hy (at_right 0%R) Fpos T HT j k Hj Hk).
  - intros i j k Hi Hj Hk. exact (SRi_from_integrals zeta a b A B Hy (at_right 0%R) Fpos T HT Hx i j k Hi Hj Hk Fspos (HB0 _ _ _ Hk) (HBi _ _ _ Hk)).
  - exact Hwf.
  - exact Hok.
  - exact Hanch.
Qed.
Print Assumptions C12_case_value_for_the_integrals.

(* The boundary term at infinity is no longer a hypothesis (Radial/RadialDecay.v: M_l is bounded for arguments >= 1, r^m exp(-q r^2) -> 0):
   H(r) -> 0 as r -> +inf for every i, j, k whenever zeta + a + b > 0 and aA, bB > 0.  The table theorem for the integrals with one
   hypothesis less: *)
From LV Require Import Radial.RadialDecay.
Theorem C12_boundary_term_vanishes_at_infinity : forall (zeta a b A B : R), (0 < a * A)%R -> (0 < b * B)%R -> (0 < zeta + a + b)%R ->
  forall i j k, filterlim (H zeta a b A B i j k) (Rbar_locally p_infty) (locally 0%R).
Proof. exact H_decay. Qed.
Print Assumptions C12_boundary_term_vanishes_at_infinity.
Theorem C12_case_value_for_the_integrals_2 : forall (zeta a b A B : R), (0 < a * A)%R -> (0 < b * B)%R -> (0 < zeta + a + b)%R ->
  forall T : nat -> nat -> Z -> R,
  (forall i j k, 1 <= k -> is_RInt_gen (F zeta a b A B i j k) (at_right 0%R) (Rbar_locally p_infty) (T i j k)) ->
  (forall i j k, 2 <= k -> filterlim (H zeta a b A B i j k) (at_right 0%R) (locally 0%R)) ->
  forall (vals : basis -> R),
  (forall k, 1 <= k -> Tz T 0 0 k = vals (BV (k - 2))) ->
  forall tab, table_wf tab = true -> table_ok tab = true ->
  (forall i j k l, 0 <= j < 100 -> 0 <= k < 100 -> check_case tab (key_of i j k) = VUnchecked ->
     lookup tab i j k = Some l -> elc (zeta + a + b) (a * A) (b * B) vals l = Tz T i j k) ->
  forall i j k c, 0 <= i -> 0 <= j < 100 -> 0 <= k < 100 ->
    find (fun c => fst c =? key_of i j k) tab = Some c -> ecase (zeta + a + b) (a * A) (b * B) vals (snd c) = Tz T i j k.
Proof.
  intros zeta a b A B Hx Hy Hp T HT HB0. apply (C12_case_value_for_the_integrals zeta a b A B Hx Hy (Rgt_not_eq _ _ Hp) T HT HB0).
  intros i j k _. apply H_decay; assumption.
Qed.
Print Assumptions C12_case_value_for_the_integrals_2.
