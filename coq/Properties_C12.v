(* C12 — primitive radial integrals: static theorems (the table theorem is per run, gen/Obl_C12.v). *)
From Coq Require Import ZArith QArith List Bool.
From LV Require Import Radial.RadialSym.
Import ListNotations.
Local Open Scope Z_scope.
(* the normaliser rejects what it must: a non-monomial divisor and a C++ integer/integer division *)
Example C12_norm_rejects : norm (RDiv RP (RAdd RX RY)) = None /\ norm (RMul (RDiv (RI 3) (RI 2)) RX) = None /\
  norm (RDiv (RMul (RI 3) RX) (RI 2)) = Some [((3 # 2)%Q, (0, 1, 0))].
Proof. vm_compute. repeat split. Qed.
(* an erroneous table entry is detected: the shipped (1,1,10) case before its repair *)
Example C12_detects_wrong_case :
  let tab := [(10, [(BV 8, RI 1)]); (109, [(BV 6, RNeg (RDiv (RI 1) (RMul (RI 2) RY))); (BV 7, RI 1)]);
              (111, [(BV 8, RNeg (RDiv (RI 1) (RMul (RI 2) RY))); (BV 9, RI 1)]);
              (10110, [(BV 6, RNeg (RDiv (RI 1) (RMul (RMul (RI 4) RX) RY))); (BV 8, RNeg (RDiv (RAdd (RDiv RP (RI 2)) (RMul RY RY)) (RMul RX RY)));
                       (BV 7, RDiv (RI 1) (RMul (RI 2) RX)); (BV 9, RDiv RP RX)])] in
  is_bad (check_case tab 10110) = true.
Proof. vm_compute. reflexivity. Qed.
