(* C13 — angular tables and real spherical harmonics: theorems claimed (exact rational arithmetic;
   each bound is part of the statement; proofs are kernel evaluations lifted by forallb_forall). *)
From Coq Require Import QArith ZArith List Arith PeanoNat Bool.
From LV Require Import Base.NumOps Base.QInst Angular.AngularModel Angular.AngularProofs
  Angular.AngThmHarm Angular.AngThmOrtho Angular.AngThmW.
Local Open Scope nat_scope.

(* The polynomials Y(lam,mu) built from the uklm coefficients are the real solid harmonics:
   harmonic, eigenfunctions of Lz^2 with eigenvalue -mu^2, even in y for mu>=0 / odd for mu<0,
   leading coefficient positive (no Condon-Shortley phase; S(l, l+m) ordering). lam <= 10. *)
Theorem C13_harmonics_characterised : forall lam mu, lam <= 10 -> (- Z.of_nat lam <= mu <= Z.of_nat lam)%Z ->
  pzero (lam - 2) (laplacian (Y lam mu)) = true /\
  pzero lam (lz (lz (Y lam mu)) ++ pscale (inject_Z (mu * mu)) (Y lam mu)) = true /\
  (forall c i j k, In (c, (i, j, k)) (Y lam mu) -> Qz c || Bool.eqb (Nat.even j) (0 <=? mu)%Z = true) /\
  (let amu := Z.abs_nat mu in
   let e := if (0 <=? mu)%Z then (amu, 0, lam - amu) else (amu - 1, 1, lam - amu) in
   Qcompare 0%Q (coef_of (Y lam mu) e) = Lt).
Proof. exact harmonics_characterised. Qed.
Print Assumptions C13_harmonics_characterised.

(* orthonormality of S = sqrt(c/pi) Y, exact, all pairs with lam, lam' <= 10 *)
Theorem C13_orthonormal : forall lam mu lam' mu', lam <= 10 -> lam' <= 10 ->
  (- Z.of_nat lam <= mu <= Z.of_nat lam)%Z -> (- Z.of_nat lam' <= mu' <= Z.of_nat lam')%Z ->
  ortho_stmt (lam, mu) (lam', mu') = true.
Proof. exact orthonormal. Qed.
Print Assumptions C13_orthonormal.

(* Pijk's ratio recursion = (a-1)!!(b-1)!!(c-1)!!/(a+b+c+1)!! for all exponents <= 30 *)
Theorem C13_pijk_closed_form : forall a b c, a <= 30 -> b <= 30 -> c <= 30 -> Qeq (pbar QOps a b c) (pbar_closed QOps a b c).
Proof. exact pijk_closed_form. Qed.
Print Assumptions C13_pijk_closed_form.

(* type-1 table as coded = sphere integral of x^k y^l z^m Y(lam,mu), k,l,m <= 12, lam <= 10 *)
Theorem C13_W_code_eq_spec : forall k l m lam mu, k <= 12 -> l <= 12 -> m <= 12 -> lam <= 10 ->
  (- Z.of_nat lam <= mu <= Z.of_nat lam)%Z ->
  Qeq (wbar_code QOps 10 k l m lam mu) (wbar_spec QOps k l m lam mu).
Proof. exact W_code_eq_spec. Qed.
Print Assumptions C13_W_code_eq_spec.

(* type-2 table as coded (fill order, mirrored store, mu=0 rule) = double-harmonic integral; small domain *)
Theorem C13_omega_code_eq_spec_small : forall k l m lam mu rho sigma, k <= 1 -> l <= 1 -> m <= 1 -> lam <= 3 -> rho <= 3 ->
  (- Z.of_nat lam <= mu <= Z.of_nat lam)%Z -> (- Z.of_nat rho <= sigma <= Z.of_nat rho)%Z ->
  Qeq (obar_code QOps 10 k l m lam mu rho sigma) (obar_spec QOps k l m lam mu rho sigma).
Proof. exact omega_code_eq_spec_small. Qed.
Print Assumptions C13_omega_code_eq_spec_small.

(* makeOmega on the whole domain the W theorem reaches (structural proof, no enumeration over Omega entries): the table
   as coded -- filled for lam <= rho from the U coefficients and W, mirrored store -- equals the double integral of
   x^k y^l z^m Y(lam,mu) Y(rho,sigma) taken term by term, for all harmonics up to 10 and every monomial with
   k,l,m + min(lam,rho) <= 12 (covers k,l,m <= 7 with a projector up to 5, i.e. every class incl. second derivatives). *)
From LV Require Import Angular.AngOmega.
Theorem C13_omega_code_eq_spec : forall k l m lam mu rho sigma,
  lam <= 10 -> rho <= 10 -> k + Nat.min lam rho <= 12 -> l + Nat.min lam rho <= 12 -> m + Nat.min lam rho <= 12 ->
  (- Z.of_nat lam <= mu <= Z.of_nat lam)%Z -> (- Z.of_nat rho <= sigma <= Z.of_nat rho)%Z ->
  Qeq (obar_code QOps 10 k l m lam mu rho sigma) (obar_spec QOps k l m lam mu rho sigma).
Proof. exact omega_code_eq_spec. Qed.
Print Assumptions C13_omega_code_eq_spec.
(* the double integral is symmetric in the two harmonics (what justifies the mirrored store) *)
Theorem C13_obar_spec_sym : forall k l m lam mu rho sigma,
  Qeq (obar_spec QOps k l m lam mu rho sigma) (obar_spec QOps k l m rho sigma lam mu).
Proof. exact obar_spec_sym. Qed.
Print Assumptions C13_obar_spec_sym.
