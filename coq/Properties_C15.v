(* C15 — adaptive Gauss-Chebyshev quadrature: theorems claimed. *)
From Coq Require Import List Arith PeanoNat Permutation Reals.
From LV Require Import Base.NumOps Base.RInst Quad.QuadModel Quad.QuadProofs.
Import ListNotations.

(* One-point scheme, every grid size 2^p - 1 and every doubling level: at the level that doubles the
   n-point rule (n = 2h+1, spacing s, maxN + 1 = 2(n+1)s) sumTerms visits exactly the odd multiples
   of s (minus one), each once — direct indices give the even ones, mirrors the odd ones. *)
Theorem C15_onepoint_level_indices : forall h s, 1 <= s ->
  let n := 2 * h + 1 in let maxN := 2 * (n + 1) * s - 1 in
  Permutation (odd_multiples n s) (visited maxN n s 2).
Proof. exact onepoint_level_indices. Qed.
Print Assumptions C15_onepoint_level_indices.

Theorem C15_onepoint_level_bounds : forall h s j, 1 <= s ->
  let n := 2 * h + 1 in let maxN := 2 * (n + 1) * s - 1 in
  In j (visited maxN n s 2) -> j < maxN.
Proof. exact onepoint_level_bounds. Qed.
Print Assumptions C15_onepoint_level_bounds.

(* start/end clipping is exact when the tabulated integrand vanishes outside [start,end]
   (how every caller in the library prepares it); any scheme, any level *)
Theorem C15_clip_zero_outside : forall (wf : nat -> R) maxN limit start end_ shift skip,
  (forall i, i < start \/ end_ < i -> wf i = 0%R) ->
  sum_terms ROps wf maxN limit start end_ shift skip
  = fold_left (fun v p => (v + wf (fst p) + wf (snd p))%R) (st_indices maxN limit shift skip) 0%R.
Proof. exact clip_zero_outside. Qed.
Print Assumptions C15_clip_zero_outside.

(* nesting: the (2n+1)-point rule on spacing s is the n-point rule on spacing 2s plus the odd multiples *)
Theorem C15_rule_doubling : forall wf s n,
  rule wf s (2 * n + 1) = (rule wf (2 * s) n + Rsum (map wf (odd_multiples n s)))%R.
Proof. exact rule_doubling. Qed.
Print Assumptions C15_rule_doubling.

(* the recurrence used for the abscissae generates sin(i z1), cos(i z1) *)
Theorem C15_trig_recurrence : forall z1 n i,
  trig_rec n (cos z1) (sin z1) (sin (INR i * z1)) (cos (INR i * z1)) = (sin (INR (i + n) * z1), cos (INR (i + n) * z1)).
Proof. exact trig_recurrence. Qed.
Print Assumptions C15_trig_recurrence.

Example C15_example : visited 15 3 2 2 = [1; 13; 9; 5] /\ odd_multiples 3 2 = [1; 5; 9; 13] /\ maxN_one 256 = 255 /\ maxN_two 256 = 191.
Proof. vm_compute. repeat split. Qed.

(* ---- the two-point scheme ---- *)
From LV Require Import Quad.QuadTwo.
(* at the level that doubles the m-point rule of the two-point sequence (m + 1 = 3 J, spacing 2 s, maxN + 1 = 6 J s)
   sumTerms with skip 3 visits exactly the points t*s - 1, t odd, not a multiple of 3, t < 6 J -- each once, all
   inside the grid -- for every J and s (the code has J, s powers of two) *)
Theorem C15_twopoint_level_indices : forall J s, 1 <= s -> 1 <= J ->
  Permutation (twopoint_new J s) (visited (6 * J * s - 1) ((2 * (3 * J - 1) - 1) / 3) s 3).
Proof. exact twopoint_level_indices. Qed.
Print Assumptions C15_twopoint_level_indices.
Theorem C15_twopoint_new_char : forall J s j, In j (twopoint_new J s) <->
  exists t, j = t * s - 1 /\ t < 6 * J /\ t mod 2 = 1 /\ t mod 3 <> 0.
Proof. exact twopoint_new_char. Qed.
Print Assumptions C15_twopoint_new_char.
Theorem C15_twopoint_level_bounds : forall J s j, 1 <= s -> 1 <= J ->
  In j (visited (6 * J * s - 1) ((2 * (3 * J - 1) - 1) / 3) s 3) -> j < 6 * J * s - 1.
Proof. exact twopoint_level_bounds. Qed.
Print Assumptions C15_twopoint_level_bounds.
(* T2m1 = Tm + Tn - Tn12 + sumTerms(skip 3) counts every point of the finer rule exactly once *)
Theorem C15_two_rule_doubling : forall wf s J, 1 <= J ->
  rule wf s (6 * J - 1) = Rplus (Rplus (rule wf (2 * s) (3 * J - 1)) (Rminus (rule wf (3 * s) (2 * J - 1)) (rule wf (6 * s) (J - 1))))
                                (Rsum (map wf (twopoint_new J s))).
Proof. exact two_rule_doubling. Qed.
Print Assumptions C15_two_rule_doubling.
Example C15_example_two : twopoint_new 2 4 = [3; 27; 19; 43] /\ visited 47 3 4 3 = [3; 43; 27; 19].
Proof. vm_compute. split; reflexivity. Qed.

From Coq Require Import Reals List ZArith.
From Coquelicot Require Import Coquelicot.
From LV Require Import Base.NumOps Base.RInst Quad.QuadModel Quad.QuadTransform.
Import ListNotations.
Local Open Scope R_scope.
(* The linear interval map of transformRMinMax preserves the integral (Quad/QuadTransform.v). *)
Theorem C15_window_of_the_linear_map : forall z p, 0 < z -> 0 <= p ->
  let '(rmid, amid) := rminmax ROps z p in
  amid - rmid = rmin_of z p /\ amid + rmid = rmax_of z p /\ 0 < rmid.
Proof. exact rminmax_window. Qed.
Theorem C15_transformed_rule_sum : forall (rmid amid : R) (f : R -> R) (xw : list (R * R)),
  fold_right (fun p acc => (rmid * snd p) * f (rmid * fst p + amid) + acc) 0 xw
  = fold_right (fun p acc => snd p * (rmid * f (rmid * fst p + amid)) + acc) 0 xw.
Proof. exact transformed_rule_sum. Qed.
Theorem C15_linear_map_preserves_the_integral : forall z p (f : R -> R), 0 < z -> 0 <= p ->
  ex_RInt f (rmin_of z p) (rmax_of z p) ->
  let '(rmid, amid) := rminmax ROps z p in
  RInt (fun t => rmid * f (rmid * t + amid)) (-1) 1 = RInt f (rmin_of z p) (rmax_of z p).
Proof. exact window_integral. Qed.
Print Assumptions C15_linear_map_preserves_the_integral.

