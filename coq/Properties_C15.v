(* C15 — adaptive Gauss-Chebyshev quadrature: theorems claimed. *)
From Coq Require Import List Arith PeanoNat Permutation Reals.
From LV Require Import Base.NumOps Base.RInst Quad.QuadModel Quad.QuadProofs.
Import ListNotations.

(* One-point scheme, every grid size 2^p - 1 and every doubling level: at the level that doubles the
   n-point rule (n = 2h+1, spacing s, maxN + 1 = 2(n+1)s) sumTerms visits exactly the odd multiples
   of s (minus one), each once — direct indices give the even ones, mirrors the odd ones. *)
Theorem C15_onepoint_level_indices : forall h s, 1 <= s ->
  let n := 2 * h + 1 in let maxN := 2 * (n + 1) * s - 1 in
  Permutation (odd_multiples n s) (visited maxN n s 2).
Proof. exact onepoint_level_indices. Qed.
Print Assumptions C15_onepoint_level_indices.

Theorem C15_onepoint_level_bounds : forall h s j, 1 <= s ->
  let n := 2 * h + 1 in let maxN := 2 * (n + 1) * s - 1 in
  In j (visited maxN n s 2) -> j < maxN.
Proof. exact onepoint_level_bounds. Qed.
Print Assumptions C15_onepoint_level_bounds.

(* start/end clipping is exact when the tabulated integrand vanishes outside [start,end]
   (how every caller in the library prepares it); any scheme, any level *)
Theorem C15_clip_zero_outside : forall (wf : nat -> R) maxN limit start end_ shift skip,
  (forall i, i < start \/ end_ < i -> wf i = 0%R) ->
  sum_terms ROps wf maxN limit start end_ shift skip
  = fold_left (fun v p => (v + wf (fst p) + wf (snd p))%R) (st_indices maxN limit shift skip) 0%R.
Proof. exact clip_zero_outside. Qed.
Print Assumptions C15_clip_zero_outside.

(* nesting: the (2n+1)-point rule on spacing s is the n-point rule on spacing 2s plus the odd multiples *)
Theorem C15_rule_doubling : forall wf s n,
  rule wf s (2 * n + 1) = (rule wf (2 * s) n + Rsum (map wf (odd_multiples n s)))%R.
Proof. exact rule_doubling. Qed.
Print Assumptions C15_rule_doubling.

(* the recurrence used for the abscissae generates sin(i z1), cos(i z1) *)
Theorem C15_trig_recurrence : forall z1 n i,
  trig_rec n (cos z1) (sin z1) (sin (INR i * z1)) (cos (INR i * z1)) = (sin (INR (i + n) * z1), cos (INR (i + n) * z1)).
Proof. exact trig_recurrence. Qed.
Print Assumptions C15_trig_recurrence.

Example C15_example : visited 15 3 2 2 = [1; 13; 9; 5] /\ odd_multiples 3 2 = [1; 5; 9; 13] /\ maxN_one 256 = 255 /\ maxN_two 256 = 191.
Proof. vm_compute. repeat split. Qed.
