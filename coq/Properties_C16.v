(* C16 — the shipped ECP library: theorems claimed (the exhaustive data theorem is re-proved
   per run over the regenerated gen/EcpData.v, see checks/c16.py). *)
From Coq Require Import String ZArith List Bool Arith PeanoNat Permutation Sorting.Sorted.
From LV Require Import Base.NumOps EcpLib.EcpLibModel EcpLib.EcpLibProofs.
Import ListNotations.
Local Open Scope Z_scope.

(* l_starts[j] = #{primitives with l < j} after ANY sequence of addPrimitive calls *)
Theorem C16_lstarts_count : forall maxL ps j, (j <= maxL + 1)%nat ->
  nth j (l_starts_of maxL ps) 0 = cnt (fun g => g_l g <? Z.of_nat j) ps.
Proof. exact lstarts_count. Qed.
Print Assumptions C16_lstarts_count.

(* whatever permutation sorted by l std::sort produced, the slice [l_starts l, l_starts (l+1))
   holds exactly the primitives of angular momentum l *)
Theorem C16_sorted_slice : forall maxL ps sorted (l : nat),
  Permutation sorted ps -> StronglySorted key_le sorted -> (l <= maxL)%nat ->
  let ls := l_starts_of maxL ps in
  let a := Z.to_nat (nth l ls 0) in let b := Z.to_nat (nth (S l) ls 0) in
  firstn (b - a) (skipn a sorted) = filter (fun g => g_l g =? Z.of_nat l) sorted.
Proof. exact sorted_slice. Qed.
Print Assumptions C16_sorted_slice.

(* the evaluator returns the sum of the Gaussians of angular momentum l — for every numeric dictionary *)
Theorem C16_evaluate_sum : forall {T} (o : NumOps T) maxL ps sorted r (l : nat),
  Permutation sorted ps -> StronglySorted key_le sorted -> (l <= maxL)%nat ->
  evaluate o sorted (l_starts_of maxL ps) r l = evaluate_spec o sorted r l.
Proof. intros T o. exact (evaluate_sum o). Qed.
Print Assumptions C16_evaluate_sum.

Theorem C16_maxl_is_max : forall ps g, In g ps -> g_l g <= maxl_of ps.
Proof. exact maxl_is_max. Qed.
Print Assumptions C16_maxl_is_max.

Theorem C16_pow_index_range : forall n, -2 <= n <= 20 -> 0 <= pow_index n <= 22 /\
  (n = -1 -> pow_index n = 21) /\ (n = -2 -> pow_index n = 22) /\ (0 <= n -> pow_index n = n).
Proof. exact pow_index_range. Qed.
Print Assumptions C16_pow_index_range.

Example C16_example : let ps := [mkG 0 2 (D 1 0) (D 1 0); mkG 0 0 (D 2 0) (D 1 0); mkG (-1) 0 (D 3 0) (D 1 0)] in
  l_starts_of 5 ps = [0; 2; 2; 3; 3; 3; 3] /\ maxl_of ps = 2.
Proof. vm_compute. split; reflexivity. Qed.

(* Core-electron bookkeeping (EcpLib/CoreMap.v: insert-unless-present, as ECPBasis::addECP_from_file does): for EVERY sequence of loads
   the count reported for an element is that of its first load; for loads of pairwise different elements it is the element's own count
   in any order. *)
From LV Require Import EcpLib.CoreMap.
Theorem C16_core_is_first_load : forall loads q, CoreMap.lookup (load_all loads) q = first_load loads q.
Proof. exact core_is_first_load. Qed.
Print Assumptions C16_core_is_first_load.
Theorem C16_core_order_independent : forall loads loads' q c,
  NoDup (map fst loads) -> (forall x, In x loads <-> In x loads') -> NoDup (map fst loads') ->
  In (q, c) loads -> get_core (load_all loads) q = c /\ get_core (load_all loads') q = c.
Proof. exact core_order_independent. Qed.
Print Assumptions C16_core_order_independent.
