(* C17 — copies are independent values: theorems claimed. *)
From Coq Require Import List Arith ZArith PeanoNat Bool.
From LV Require Import CopySem.CopyModel CopySem.CopyProofs.
Import ListNotations.

(* any semantics whose three copy paths copy every member and re-seat the pointer is THE full one *)
Theorem C17_sem_ok_full : forall sm, sem_ok sm = true -> sm = mkSem full_path full_path full_path.
Proof. exact sem_ok_full. Qed.
Print Assumptions C17_sem_ok_full.

(* Invariant for every history: a live shell with a local centre points at its OWN local array;
   an external-pointer shell points at external memory; nothing is allocated beyond `next`. *)
Theorem C17_run_inv : forall h,
  wf (crun (mkSem full_path full_path full_path) h) /\ Inv (crun (mkSem full_path full_path full_path) h).
Proof. exact run_inv. Qed.
Print Assumptions C17_run_inv.

(* a copy (copy construction, copy(), assignment) carries every attribute of its source *)
Theorem C17_copy_fidelity : forall s src v, wf s -> Inv s -> objs s src = Some v ->
    let sm := mkSem full_path full_path full_path in
    obs_of (cstep sm s (OCopy src)) (next s) = obs_of (cstep sm s (OCopy src)) src /\
    obs_of (cstep sm s (OCopyM src)) (next s) = obs_of (cstep sm s (OCopyM src)) src /\
    forall dst, objs s dst <> None ->
      obs_of (cstep sm s (OAssign dst src)) dst = obs_of (cstep sm s (OAssign dst src)) src.
Proof. exact copy_fidelity. Qed.
Print Assumptions C17_copy_fidelity.

(* changing, overwriting or destroying one object leaves every other object unchanged *)
Theorem C17_independence : forall s o y, wf s -> Inv s -> (forall a c, o <> OSetExt a c) ->
    objs s y <> None -> target o <> Some y ->
    obs_of (cstep (mkSem full_path full_path full_path) s o) y = obs_of s y.
Proof. exact independence. Qed.
Print Assumptions C17_independence.

(* the member-wise assignment / atom-omitting copy of the unrepaired header violate the property *)
Theorem C17_assign_refuted :
  let h := [OCtorLoc 1 0; OCtorLoc 2 0; OAssign 0 1]%Z in
  let s := crun upstream h in
  invb s = false /\
  obs_of (cstep upstream s (OSetLocal 1 7%Z)) 0 <> obs_of s 0 /\
  (exists v, objs (cstep upstream s (ODestroy 1)) 0 = Some v /\ centre_of (cstep upstream s (ODestroy 1)) v = CDangling).
Proof. exact assign_refuted. Qed.
Print Assumptions C17_assign_refuted.

Theorem C17_atomid_refuted :
  let s := crun upstream [OCtorLoc 1 0; OSetAtom 0 3; OCopy 0; OCopyM 0]%Z in
  option_map o_atom (obs_of s 0) = Some (Some 3%Z) /\
  option_map o_atom (obs_of s 1) = Some None /\ option_map o_atom (obs_of s 2) = Some None.
Proof. exact atomid_refuted. Qed.
Print Assumptions C17_atomid_refuted.

(* plain value classes: a copy path that copies every element of every member reproduces the object *)
Theorem C17_gcopy_complete : forall p src, path_complete p = true ->
  length p = length src -> Forall2 (fun f fs => length fs = f_size f) p src -> gcopy p src = src.
Proof. exact gcopy_complete. Qed.
Print Assumptions C17_gcopy_complete.

Example C17_example_inv : invb (crun (mkSem full_path full_path full_path)
    [OCtorLoc 1 0; OCtorExt 0 1; OCopy 0; OAssign 1 2; OCopyM 1; ODestroy 0; OSetLocal 2 5]%Z) = true.
Proof. vm_compute. reflexivity. Qed.
