(* Model of src/lib/gaussquad.cpp (GCQuadrature): grid construction by the trigonometric
   recurrence with mirrored halves, sumTerms with start/end clipping, the one-point (Perez92) and
   two-point (Perez93) adaptive schemes with their exact convergence tests, and the two interval
   transformations.  Generic over the numeric dictionary; the tabulated integrand is a function of
   the grid index.  No proofs here. *)
From Coq Require Import List Arith ZArith PeanoNat Bool.
From LV Require Import Base.NumOps.
Import ListNotations.

(* largest p with 2^p <= n (n >= 1), by fuel *)
Fixpoint log2_floor_aux (fuel n acc : nat) : nat :=
  match fuel with O => acc | S f => if 2 <=? n then log2_floor_aux f (n / 2) (S acc) else acc end.
Definition log2_floor (n : nat) : nat := log2_floor_aux n n 0.
Definition maxN_one (points : nat) : nat := 2 ^ log2_floor (points + 1) - 1.
Definition maxN_two (points : nat) : nat := 3 * 2 ^ log2_floor ((points + 2) / 3) - 1.

(* ---- index sets of sumTerms (integer part only; used by the nesting theorems) ---- *)
(* for i = 0, 2, 4, ... <= limit : ix = (skip*i+1)*shift - 1 and its mirror maxN - ix - 1 *)
Definition even_upto (limit : nat) : list nat := map (fun t => 2 * t) (seq 0 (S (limit / 2))).
Definition st_indices (maxN limit shift skip : nat) : list (nat * nat) :=
  map (fun i => let ix := (skip * i + 1) * shift - 1 in (ix, maxN - ix - 1)) (even_upto limit).

Section Quad.
  Context {T : Type} (o : NumOps T).
  Local Notation "a +! b" := (nadd o a b) (at level 50, left associativity).
  Local Notation "a -! b" := (nsub o a b) (at level 50, left associativity).
  Local Notation "a *! b" := (nmul o a b) (at level 40, left associativity).
  Local Notation "a /! b" := (ndiv o a b) (at level 40, left associativity).
  Let ofN (n : nat) := nofZ o (Z.of_nat n).
  Variable pi : T.

  (* ---- initGrid: returns the lists x, w (length maxN) ---- *)
  (* half : (x_n, w_n) for n = 0..M-1 by the recurrence *)
  Fixpoint grid_half (M : nat) (z1 c1 s1 zi si ci : T) : list (T * T) :=
    match M with
    | O => []
    | S M' =>
      let s2 := si *! si in
      let wv := s2 *! s2 in
      let o23pi := nofZ o 2 /! (nofZ o 3 *! pi) in
      let xv := n1 o +! o23pi *! ((nofZ o 3 +! nofZ o 2 *! s2) *! ci *! si -! nofZ o 3 *! zi) in
      (xv, wv) :: grid_half M' z1 c1 s1 (zi +! z1) (c1 *! si +! s1 *! ci) (c1 *! ci -! s1 *! si)
    end.
  Definition init_grid (maxN : nat) : list T * list T :=
    let M := (maxN - 1) / 2 in
    let z1 := pi /! ofN (maxN + 1) in
    let c1 := ncos o z1 in let s1 := nsin o z1 in
    let h := grid_half M z1 c1 s1 z1 s1 c1 in
    (* x[n] = -xv, x[maxN-1-n] = +xv ; w symmetric ; midpoint x=0, w=1 *)
    (map (fun p => nopp o (fst p)) h ++ [n0 o] ++ rev (map fst h),
     map snd h ++ [n1 o] ++ rev (map snd h)).

  (* ---- sumTerms ---- *)
  Variable wf : nat -> T.          (* w[ix] * f(x[ix], p, ix) *)
  Definition sum_terms (maxN limit start end_ shift skip : nat) : T :=
    fold_left (fun v p =>
                 let v1 := if start <=? fst p then v +! wf (fst p) else v in
                 if snd p <=? end_ then v1 +! wf (snd p) else v1)
              (st_indices maxN limit shift skip) (n0 o).

  (* ---- ONEPOINT scheme; fuel = number of doubling levels available ---- *)
  (* state: Tn, Tn12, n, p ; returns (I, converged, n) *)
  Fixpoint one_loop (fuel : nat) (maxN start end_ : nat) (tol : T) (Tn Tn12 : T) (n p : nat) (T2last : T) : T * bool * nat :=
    match fuel with
    | O => (nofZ o 16 *! T2last /! (nofZ o 3 *! (ofN n +! n1 o)), false, n)
    | S f =>
      if n <? maxN then
        let T2n1 := Tn +! sum_terms maxN n start end_ p 2 in
        let dT := T2n1 -! nofZ o 2 *! Tn in
        let n' := 2 * n + 1 in
        if negb (nltb o (nabs o (T2n1 -! Tn12) *! tol) (dT *! dT)) then   (* dT*dT <= |T2n1 - Tn12| * tol *)
          (nofZ o 16 *! T2n1 /! (nofZ o 3 *! (ofN n' +! n1 o)), true, n')
        else one_loop f maxN start end_ tol T2n1 (nofZ o 4 *! Tn) n' (p / 2) T2n1
      else (nofZ o 16 *! T2last /! (nofZ o 3 *! (ofN n +! n1 o)), false, n)
    end.
  Definition integrate_one (maxN start end_ : nat) (tol : T) : T * bool * nat :=
    let M := (maxN - 1) / 2 in
    let Tn := wf M in
    one_loop (S (log2_floor (maxN + 1))) maxN start end_ tol Tn (nofZ o 2 *! Tn) 1 ((M + 1) / 2) (n0 o).

  (* ---- TWOPOINT scheme ---- *)
  Fixpoint two_loop (fuel : nat) (maxN start end_ : nat) (tol : T) (Tn Tm Tn12 : T) (n m p M2 : nat) (T2mlast : T) : T * bool * nat :=
    match fuel with
    | O => (nofZ o 16 *! T2mlast /! (nofZ o 3 *! (ofN m +! n1 o)), false, m)
    | S f =>
      if m <? maxN then
        let T2m1 := Tm +! Tn -! Tn12 +! sum_terms maxN ((2 * m - 1) / 3) start end_ M2 3 in
        let err1 := nofZ o 16 *! nabs o (ndec o 5 (-1) *! T2m1 -! Tm) /! (nofZ o 3 *! ofN (m + 1)) in
        if nltb o tol err1 then
          let T2n1 := Tn +! sum_terms maxN n start end_ p 2 in
          let err2 := nofZ o 16 *! nabs o (nofZ o 2 *! T2m1 -! nofZ o 3 *! T2n1) /! (nofZ o 18 *! ofN (n + 1)) in
          let m' := 2 * m + 1 in let n' := 2 * n + 1 in
          if nltb o err2 tol then (nofZ o 16 *! T2m1 /! (nofZ o 3 *! (ofN m' +! n1 o)), true, m')
          else two_loop f maxN start end_ tol T2n1 T2m1 Tn n' m' (p / 2) (M2 / 2) T2m1
        else (nofZ o 16 *! T2m1 /! (nofZ o 3 *! (ofN (2 * m + 1) +! n1 o)), true, 2 * m + 1)
      else (nofZ o 16 *! T2mlast /! (nofZ o 3 *! (ofN m +! n1 o)), false, m)
    end.
  Definition integrate_two (maxN start end_ : nat) (tol : T) : T * bool * nat :=
    let M := (maxN - 1) / 2 in
    let Tn := wf M in
    let M2 := (maxN - 2) / 3 in
    let Tm := wf M2 +! wf (maxN - M2 - 1) in
    two_loop (S (log2_floor (maxN + 1))) maxN start end_ tol Tn Tm (n0 o) 1 2 ((M + 1) / 2) ((M2 + 1) / 2) (n0 o).
End Quad.

Section Transforms.
  Context {T : Type} (o : NumOps T).
  (* transformRMinMax(z,p): returns (rmid, amid) ; x' = rmid x + amid, w' = rmid w *)
  Definition rminmax (z p : T) : T * T :=
    let osz := ndiv o (n1 o) (nsqrt o z) in
    let rmin0 := nsub o p (nmul o (nofZ o 7) osz) in
    let rmin := if nltb o (n0 o) rmin0 then rmin0 else n0 o in
    let rmax := nadd o p (nmul o (nofZ o 9) osz) in
    let rmid := nmul o (ndec o 5 (-1)) (nsub o rmax rmin) in
    (rmid, nadd o rmid rmin).
End Transforms.
