(* Proofs about the quadrature model: which grid points each refinement level of the one-point
   scheme visits (all doubling levels, all grid sizes 2^p - 1), that clipping by start/end is exact
   when the tabulated integrand vanishes outside the range, the telescoping of the nested rules,
   and the trigonometric recurrence behind the abscissae. *)
From Coq Require Import List Arith ZArith PeanoNat Bool Lia Permutation Reals Lra.
From LV Require Import Base.NumOps Base.RInst Quad.QuadModel.
Import ListNotations.

(* ------------------------------------------------------------------ *)
(* 1. index sets of sumTerms at a one-point refinement level            *)
(* ------------------------------------------------------------------ *)
Definition visited (maxN limit shift skip : nat) : list nat :=
  flat_map (fun p => [fst p; snd p]) (st_indices maxN limit shift skip).
Definition odd_multiples (n s : nat) : list nat := map (fun t => (2 * t + 1) * s - 1) (seq 0 (S n)).

Lemma even_upto_in limit i : In i (even_upto limit) <-> exists u, i = 2 * u /\ u <= limit / 2.
Proof.
  unfold even_upto. rewrite in_map_iff. split.
  - intros (u & <- & Hu). apply in_seq in Hu. exists u. split; [reflexivity|lia].
  - intros (u & -> & Hu). exists u. split; [reflexivity|apply in_seq; lia].
Qed.

Lemma half_odd h : (2 * h + 1) / 2 = h.
Proof. symmetry. apply Nat.div_unique with (r := 1); lia. Qed.

Lemma flat_pair_length {A} (l : list (A * A)) : length (flat_map (fun p => [fst p; snd p]) l) = 2 * length l.
Proof. induction l as [|x l IH]; cbn [flat_map app length]; [reflexivity|]. rewrite IH. lia. Qed.
Lemma visited_length maxN limit shift skip : length (visited maxN limit shift skip) = 2 * S (limit / 2).
Proof.
  unfold visited. rewrite flat_pair_length. unfold st_indices, even_upto. now rewrite !map_length, seq_length.
Qed.

(* at the level that doubles the n-point rule (n odd), with spacing s and maxN + 1 = 2 (n+1) s,
   the points added are exactly the odd multiples of s (minus one), each once *)
Theorem onepoint_level_indices h s : 1 <= s ->
  let n := 2 * h + 1 in
  let maxN := 2 * (n + 1) * s - 1 in
  Permutation (odd_multiples n s) (visited maxN n s 2).
Proof.
  intros Hs n maxN.
  apply NoDup_Permutation_bis.
  - (* the targets are pairwise distinct *)
    unfold odd_multiples. apply FinFun.Injective_map_NoDup; [|apply seq_NoDup].
    intros a b Hab. nia.
  - rewrite visited_length. unfold odd_multiples. rewrite map_length, seq_length.
    subst n. rewrite half_odd. lia.
  - intros j Hj. unfold odd_multiples in Hj. apply in_map_iff in Hj. destruct Hj as (t & <- & Ht). apply in_seq in Ht.
    unfold visited. apply in_flat_map.
    assert (Hdiv : n / 2 = h) by (subst n; apply half_odd).
    destruct (Nat.even t) eqn:Ev.
    + (* even t = 2u : the direct index of i = 2u *)
      apply Nat.even_spec in Ev. destruct Ev as (u & ->).
      exists ((2 * (2 * u) + 1) * s - 1, maxN - ((2 * (2 * u) + 1) * s - 1) - 1). split; [|left; reflexivity].
      unfold st_indices. apply in_map_iff. exists (2 * u). split; [reflexivity|].
      apply even_upto_in. exists u. split; [reflexivity|]. rewrite Hdiv. subst n. lia.
    + (* odd t : the mirror of i = n - t *)
      assert (Hodd : Nat.odd t = true) by (rewrite <- Nat.negb_even, Ev; reflexivity).
      apply Nat.odd_spec in Hodd. destruct Hodd as (v & ->).
      set (u := h - v).
      exists ((2 * (2 * u) + 1) * s - 1, maxN - ((2 * (2 * u) + 1) * s - 1) - 1). split.
      * unfold st_indices. apply in_map_iff. exists (2 * u). split; [reflexivity|].
        apply even_upto_in. exists u. split; [reflexivity|]. rewrite Hdiv. subst u. lia.
      * right. left. cbn [snd]. subst maxN n u.
        assert (v <= h) by lia.
        replace (2 * (2 * (h - v)) + 1) with (4 * h - 4 * v + 1) by lia.
        assert (E : (4 * h - 4 * v + 1) * s + (2 * (2 * v + 1) + 1) * s = 2 * (2 * h + 1 + 1) * s) by nia.
        assert (1 <= (4 * h - 4 * v + 1) * s) by nia.
        assert (1 <= (2 * (2 * v + 1) + 1) * s) by nia.
        lia.
Qed.

(* every visited index is inside the grid *)
Theorem onepoint_level_bounds h s j : 1 <= s ->
  let n := 2 * h + 1 in let maxN := 2 * (n + 1) * s - 1 in
  In j (visited maxN n s 2) -> j < maxN.
Proof.
  intros Hs n maxN Hj.
  apply (Permutation_in _ (Permutation_sym (onepoint_level_indices h s Hs))) in Hj.
  unfold odd_multiples in Hj. apply in_map_iff in Hj. destruct Hj as (t & <- & Ht). apply in_seq in Ht.
  subst maxN n. nia.
Qed.

(* ------------------------------------------------------------------ *)
(* 2. clipping is exact when the integrand is zero outside [start,end]   *)
(* ------------------------------------------------------------------ *)
Local Open Scope R_scope.
Section Clip.
  Variable wf : nat -> R.
  Theorem clip_zero_outside maxN limit start end_ shift skip :
    (forall i, (i < start)%nat \/ (end_ < i)%nat -> wf i = 0) ->
    sum_terms ROps wf maxN limit start end_ shift skip
    = fold_left (fun v p => v + wf (fst p) + wf (snd p)) (st_indices maxN limit shift skip) 0.
  Proof.
    intros Hz. unfold sum_terms. cbn [n0 ROps].
    generalize (st_indices maxN limit shift skip) as l. intros l. generalize 0 as acc.
    induction l as [|p l IH]; intros acc; cbn [fold_left]; [reflexivity|].
    rewrite <- IH. f_equal.
    destruct (Nat.leb_spec start (fst p)), (Nat.leb_spec (snd p) end_); cbn [nadd ROps];
      rewrite ?(Hz (fst p)) by (left; lia); rewrite ?(Hz (snd p)) by (right; lia); lra.
  Qed.
End Clip.

(* ------------------------------------------------------------------ *)
(* 3. telescoping of the nested rules                                    *)
(* ------------------------------------------------------------------ *)
Definition Rsum (l : list R) : R := fold_right Rplus 0 l.
(* the plain m-point rule on the sub-grid of spacing s: points j*s - 1, j = 1..m *)
Definition rule (wf : nat -> R) (s m : nat) : R := Rsum (map (fun j => wf (j * s - 1)%nat) (seq 1 m)).

Lemma Rsum_app a b : Rsum (a ++ b) = Rsum a + Rsum b.
Proof. unfold Rsum. induction a as [|x a IH]; cbn; [lra|]. rewrite IH. lra. Qed.

Lemma rule_S wf s m : rule wf s (S m) = rule wf s m + wf (S m * s - 1)%nat.
Proof.
  unfold rule. rewrite seq_S, map_app, Rsum_app. cbn [map]. unfold Rsum. cbn [fold_right].
  replace (1 + m)%nat with (S m) by lia. lra.
Qed.
Lemma odd_multiples_S n s : odd_multiples (S n) s = odd_multiples n s ++ [((2 * S n + 1) * s - 1)%nat].
Proof. unfold odd_multiples. rewrite (seq_S (S n) 0), map_app. cbn [map]. repeat f_equal. Qed.

(* T_{2n+1} on spacing s  =  T_n on spacing 2s  +  the odd multiples of s *)
Theorem rule_doubling wf s n :
  rule wf s (2 * n + 1) = rule wf (2 * s) n + Rsum (map wf (odd_multiples n s)).
Proof.
  induction n as [|n IH].
  - unfold rule, odd_multiples. cbn [seq map Rsum fold_right Nat.mul Nat.add]. unfold Rsum. cbn [fold_right].
    replace ((0 + 1) * s - 1)%nat with (1 * s - 1)%nat by (f_equal; lia). lra.
  - replace (2 * S n + 1)%nat with (S (S (2 * n + 1))) by lia.
    rewrite !rule_S, IH, odd_multiples_S, map_app, Rsum_app. cbn [map]. unfold Rsum. cbn [fold_right].
    replace (S (2 * n + 1) * s - 1)%nat with (S n * (2 * s) - 1)%nat by (f_equal; nia).
    replace (S (S (2 * n + 1)) * s - 1)%nat with ((2 * S n + 1) * s - 1)%nat by (f_equal; nia).
    lra.
Qed.

(* ------------------------------------------------------------------ *)
(* 4. the trigonometric recurrence generates sin(i z1), cos(i z1)        *)
(* ------------------------------------------------------------------ *)
Fixpoint trig_rec (n : nat) (c1 s1 si ci : R) : R * R :=
  match n with O => (si, ci) | S k => trig_rec k c1 s1 (c1 * si + s1 * ci) (c1 * ci - s1 * si) end.
Theorem trig_recurrence z1 n i :
  trig_rec n (cos z1) (sin z1) (sin (INR i * z1)) (cos (INR i * z1)) = (sin (INR (i + n) * z1), cos (INR (i + n) * z1)).
Proof.
  revert i. induction n as [|n IH]; intros i; cbn [trig_rec].
  - now rewrite Nat.add_0_r.
  - replace (cos z1 * sin (INR i * z1) + sin z1 * cos (INR i * z1)) with (sin (INR (S i) * z1))
      by (rewrite S_INR, Rmult_plus_distr_r, Rmult_1_l, sin_plus; lra).
    replace (cos z1 * cos (INR i * z1) - sin z1 * sin (INR i * z1)) with (cos (INR (S i) * z1))
      by (rewrite S_INR, Rmult_plus_distr_r, Rmult_1_l, cos_plus; lra).
    rewrite IH. replace (S i + n)%nat with (i + S n)%nat by lia. reflexivity.
Qed.
