(* C15, "the interval transformations preserve the value of the integral": the linear map of GCQuadrature::transformRMinMax.
   As the model computes it (Quad/QuadModel.rminmax, tied to gaussquad.cpp by the correspondence), (rmid, amid) are half the length
   and the midpoint of the window [max(0, p - 7/sqrt z), p + 9/sqrt z]; the transformed rule has abscissae rmid x + amid and weights rmid w.
   (i) the window, (ii) the discrete identity sum w'_i f(x'_i) = sum w_i g(x_i) with g(t) = rmid f(rmid t + amid), for every rule,
   (iii) the integral: int_{-1}^{1} g = int_{rmin}^{rmax} f for every integrable f. *)
From Coq Require Import Reals List Lra ZArith.
From Coquelicot Require Import Coquelicot.
From LV Require Import Base.NumOps Base.RInst Quad.QuadModel.
Import ListNotations.
Local Open Scope R_scope.

Definition rmin_of (z p : R) : R := Rmax 0 (p - 7 / sqrt z).
Definition rmax_of (z p : R) : R := p + 9 / sqrt z.

Theorem rminmax_window z p : 0 < z -> 0 <= p ->
  let '(rmid, amid) := rminmax ROps z p in
  amid - rmid = rmin_of z p /\ amid + rmid = rmax_of z p /\ 0 < rmid.
Proof.
  intros Hz Hp0. unfold rminmax, rmin_of, rmax_of. cbn [ROps nsub nmul nadd ndiv nofZ n0 n1 nltb nsqrt ndec].
  assert (0 < sqrt z) as Hs by (apply sqrt_lt_R0; exact Hz).
  assert (0 < / sqrt z) as Hi by (apply Rinv_0_lt_compat; exact Hs).
  replace (IZR 5 * powerRZ 10 (-1)) with (/ 2) by (simpl; field).
  unfold Rltb, Rdiv. destruct (Rlt_dec 0 (p - 7 * (1 * / sqrt z))) as [H|H].
  - rewrite Rmax_right by lra. repeat split; lra.
  - apply Rnot_lt_le in H. rewrite Rmax_left by lra. repeat split; lra.
Qed.

(* the transformed rule applied to f is the original rule applied to g *)
Theorem transformed_rule_sum (rmid amid : R) (f : R -> R) (xw : list (R * R)) :
  fold_right (fun p acc => (rmid * snd p) * f (rmid * fst p + amid) + acc) 0 xw
  = fold_right (fun p acc => snd p * (rmid * f (rmid * fst p + amid)) + acc) 0 xw.
Proof. induction xw as [|q xw IH]; cbn [fold_right]; [reflexivity|]. rewrite IH. ring. Qed.

(* and the integral of g over [-1,1] is the integral of f over the window *)
Theorem linear_map_preserves_integral (rmid amid : R) (f : R -> R) :
  ex_RInt f (amid - rmid) (amid + rmid) ->
  RInt (fun t => rmid * f (rmid * t + amid)) (-1) 1 = RInt f (amid - rmid) (amid + rmid).
Proof.
  intros Hf.
  replace (amid - rmid) with (rmid * (-1) + amid) in * by ring.
  replace (amid + rmid) with (rmid * 1 + amid) in * by ring.
  exact (RInt_comp_lin f rmid amid (-1) 1 Hf).
Qed.

Corollary window_integral z p (f : R -> R) : 0 < z -> 0 <= p ->
  ex_RInt f (rmin_of z p) (rmax_of z p) ->
  let '(rmid, amid) := rminmax ROps z p in
  RInt (fun t => rmid * f (rmid * t + amid)) (-1) 1 = RInt f (rmin_of z p) (rmax_of z p).
Proof.
  intros Hz Hp0 Hf. pose proof (rminmax_window z p Hz Hp0) as W. destruct (rminmax ROps z p) as [rmid amid].
  destruct W as (E1 & E2 & _). rewrite <- E1, <- E2 in *. now apply linear_map_preserves_integral.
Qed.
