(* Two-point (Perez93) scheme: which grid points a refinement level adds, and the telescoping identity behind
   T2m1 = Tm + Tn - Tn12 + sumTerms(..., skip 3), for all grid sizes and all levels. *)
From Coq Require Import List Arith ZArith PeanoNat Bool Lia Permutation Reals Lra.
From LV Require Import Base.NumOps Base.RInst Quad.QuadModel Quad.QuadProofs.
Import ListNotations.

(* odd multiples of s that are not multiples of 3s, below 6 J s : t = 6u+1 and t = 6u+5 *)
Definition twopoint_new (J s : nat) : list nat :=
  map (fun u => (6 * u + 1) * s - 1) (seq 0 J) ++ map (fun u => (6 * u + 5) * s - 1) (seq 0 J).

Lemma twopoint_limit J : 1 <= J -> (2 * (3 * J - 1) - 1) / 3 = 2 * J - 1.
Proof. intros H. symmetry. apply Nat.div_unique with (r := 0); lia. Qed.
Lemma half_2Jm1 J : 1 <= J -> (2 * J - 1) / 2 = J - 1.
Proof. intros H. symmetry. apply Nat.div_unique with (r := 1); lia. Qed.

Lemma NoDup_app_local {A} (a b : list A) : NoDup a -> NoDup b -> (forall x, In x a -> ~ In x b) -> NoDup (a ++ b).
Proof.
  induction a as [|x a IH]; intros Ha Hb Hd; cbn [app]; [exact Hb|].
  inversion Ha as [|? ? Hn Ha']; subst. constructor.
  - intros Hin. apply in_app_or in Hin. destruct Hin as [Hin|Hin]; [contradiction|]. apply (Hd x); [now left|exact Hin].
  - apply IH; [exact Ha'|exact Hb|]. intros y Hy. apply Hd. now right.
Qed.

(* at the level that doubles the m-point rule of the two-point sequence (m + 1 = 3 J subintervals, spacing 2 s,
   maxN + 1 = 6 J s), sumTerms with skip 3 visits exactly the odd multiples of s that the one-point sequence
   (spacing 3 s) does not own, each once *)
Theorem twopoint_level_indices J s : 1 <= s -> 1 <= J ->
  let m := 3 * J - 1 in
  let maxN := 6 * J * s - 1 in
  Permutation (twopoint_new J s) (visited maxN ((2 * m - 1) / 3) s 3).
Proof.
  intros Hs HJ m maxN. subst m. rewrite (twopoint_limit J HJ).
  apply NoDup_Permutation_bis.
  - unfold twopoint_new. apply NoDup_app_local.
    + apply FinFun.Injective_map_NoDup; [|apply seq_NoDup]. intros a b Hab.
      assert (1 <= (6 * a + 1) * s) by nia. assert (1 <= (6 * b + 1) * s) by nia.
      assert (E : (6 * a + 1) * s = (6 * b + 1) * s) by lia. apply Nat.mul_cancel_r in E; lia.
    + apply FinFun.Injective_map_NoDup; [|apply seq_NoDup]. intros a b Hab.
      assert (1 <= (6 * a + 5) * s) by nia. assert (1 <= (6 * b + 5) * s) by nia.
      assert (E : (6 * a + 5) * s = (6 * b + 5) * s) by lia. apply Nat.mul_cancel_r in E; lia.
    + intros x Ha Hb. apply in_map_iff in Ha. destruct Ha as (a & <- & _). apply in_map_iff in Hb. destruct Hb as (b & Hb & _).
      assert (1 <= (6 * a + 1) * s) by nia. assert (1 <= (6 * b + 5) * s) by nia.
      assert (E : (6 * b + 5) * s = (6 * a + 1) * s) by lia. apply Nat.mul_cancel_r in E; lia.
  - rewrite visited_length. unfold twopoint_new. rewrite app_length, !map_length, seq_length, (half_2Jm1 J HJ). lia.
  - intros j Hj. unfold twopoint_new in Hj. apply in_app_or in Hj. unfold visited. apply in_flat_map.
    destruct Hj as [Hj|Hj]; apply in_map_iff in Hj; destruct Hj as (u & <- & Hu); apply in_seq in Hu.
    + (* direct index of i = 2u *)
      exists ((3 * (2 * u) + 1) * s - 1, maxN - ((3 * (2 * u) + 1) * s - 1) - 1). split.
      * unfold st_indices. apply in_map_iff. exists (2 * u). split; [reflexivity|].
        apply even_upto_in. exists u. split; [reflexivity|]. rewrite (half_2Jm1 J HJ). lia.
      * left. cbn [fst]. f_equal. f_equal. lia.
    + (* mirror of i = 2 (J - 1 - u) *)
      set (v := J - 1 - u).
      exists ((3 * (2 * v) + 1) * s - 1, maxN - ((3 * (2 * v) + 1) * s - 1) - 1). split.
      * unfold st_indices. apply in_map_iff. exists (2 * v). split; [reflexivity|].
        apply even_upto_in. exists v. split; [reflexivity|]. rewrite (half_2Jm1 J HJ). subst v. lia.
      * right. left. cbn [snd]. subst maxN v.
        assert (E : (3 * (2 * (J - 1 - u)) + 1) * s + (6 * u + 5) * s = 6 * J * s) by nia.
        assert (1 <= (3 * (2 * (J - 1 - u)) + 1) * s) by nia.
        assert (1 <= (6 * u + 5) * s) by nia.
        lia.
Qed.

Theorem twopoint_level_bounds J s j : 1 <= s -> 1 <= J ->
  In j (visited (6 * J * s - 1) ((2 * (3 * J - 1) - 1) / 3) s 3) -> j < 6 * J * s - 1.
Proof.
  intros Hs HJ Hj. apply (Permutation_in _ (Permutation_sym (twopoint_level_indices J s Hs HJ))) in Hj.
  unfold twopoint_new in Hj. apply in_app_or in Hj.
  destruct Hj as [Hj|Hj]; apply in_map_iff in Hj; destruct Hj as (u & <- & Hu); apply in_seq in Hu; nia.
Qed.

(* the points are exactly t*s - 1 for t odd, not a multiple of 3, t < 6 J *)
Theorem twopoint_new_char J s j : In j (twopoint_new J s) <->
  exists t, j = t * s - 1 /\ t < 6 * J /\ t mod 2 = 1 /\ t mod 3 <> 0.
Proof.
  unfold twopoint_new. rewrite in_app_iff, !in_map_iff. split.
  - intros [(u & <- & Hu)|(u & <- & Hu)]; apply in_seq in Hu.
    + exists (6 * u + 1). repeat split; try lia.
      * replace (6 * u + 1) with (1 + (3 * u) * 2) by lia. rewrite Nat.mod_add by lia. reflexivity.
      * replace (6 * u + 1) with (1 + (2 * u) * 3) by lia. rewrite Nat.mod_add by lia. cbn. lia.
    + exists (6 * u + 5). repeat split; try lia.
      * replace (6 * u + 5) with (1 + (3 * u + 2) * 2) by lia. rewrite Nat.mod_add by lia. reflexivity.
      * replace (6 * u + 5) with (2 + (2 * u + 1) * 3) by lia. rewrite Nat.mod_add by lia. cbn. lia.
  - intros (t & -> & Ht & H2 & H3).
    pose proof (Nat.div_mod t 6 ltac:(lia)) as D. pose proof (Nat.mod_upper_bound t 6 ltac:(lia)) as B.
    set (u := t / 6) in *. set (r := t mod 6) in *.
    assert (R2 : t mod 2 = r mod 2). { rewrite D. replace (6 * u + r) with (r + (3 * u) * 2) by lia. now rewrite Nat.mod_add by lia. }
    assert (R3 : t mod 3 = r mod 3). { rewrite D. replace (6 * u + r) with (r + (2 * u) * 3) by lia. now rewrite Nat.mod_add by lia. }
    rewrite R2 in H2. rewrite R3 in H3. clearbody u r.
    destruct r as [|[|[|[|[|[|r]]]]]]; cbn in H2, H3; try lia.
    + left. exists u. split; [f_equal; f_equal; lia|apply in_seq; lia].
    + right. exists u. split; [f_equal; f_equal; lia|apply in_seq; lia].
Qed.

Local Open Scope R_scope.

Lemma twopoint_new_S wf J s :
  Rsum (map wf (twopoint_new (S J) s))
  = Rsum (map wf (twopoint_new J s)) + wf ((6 * J + 1) * s - 1)%nat + wf ((6 * J + 5) * s - 1)%nat.
Proof.
  unfold twopoint_new. rewrite (seq_S J 0), !map_app, !Rsum_app. cbn [map Nat.add]. unfold Rsum. cbn [fold_right]. lra.
Qed.

(* the telescoping identity of the two-point scheme: with spacing s and 6 J subintervals,
     T_{6J-1}(s) = T_{3J-1}(2s) + ( T_{2J-1}(3s) - T_{J-1}(6s) ) + (the points of twopoint_new),
   i.e. T2m1 = Tm + Tn - Tn12 + sumTerms(skip 3): every grid point of the finer rule is counted exactly once *)
Theorem two_rule_doubling wf s J : (1 <= J)%nat ->
  rule wf s (6 * J - 1) = rule wf (2 * s) (3 * J - 1) + (rule wf (3 * s) (2 * J - 1) - rule wf (6 * s) (J - 1))
                          + Rsum (map wf (twopoint_new J s)).
Proof.
  intros HJ. destruct J as [|J]; [lia|]. clear HJ. induction J as [|J IH].
  - change (6 * 1 - 1)%nat with 5%nat. change (3 * 1 - 1)%nat with 2%nat. change (2 * 1 - 1)%nat with 1%nat. change (1 - 1)%nat with 0%nat.
    unfold rule, twopoint_new. cbn [seq map app]. unfold Rsum. cbn [fold_right].
    replace (1 * (2 * s) - 1)%nat with (2 * s - 1)%nat by (f_equal; lia).
    replace (2 * (2 * s) - 1)%nat with (4 * s - 1)%nat by (f_equal; lia).
    replace (1 * (3 * s) - 1)%nat with (3 * s - 1)%nat by (f_equal; lia).
    replace ((6 * 0 + 1) * s - 1)%nat with (1 * s - 1)%nat by (f_equal; lia).
    replace ((6 * 0 + 5) * s - 1)%nat with (5 * s - 1)%nat by (f_equal; lia).
    lra.
  - replace (6 * S (S J) - 1)%nat with (S (S (S (S (S (S (6 * S J - 1))))))) by lia.
    replace (3 * S (S J) - 1)%nat with (S (S (S (3 * S J - 1)))) by lia.
    replace (2 * S (S J) - 1)%nat with (S (S (2 * S J - 1))) by lia.
    replace (S (S J) - 1)%nat with (S (S J - 1)) by lia.
    rewrite !rule_S, IH, (twopoint_new_S wf (S J) s).
    replace (S (3 * S J - 1) * (2 * s) - 1)%nat with (S (6 * S J - 1) * s - 1)%nat by (f_equal; nia).
    replace (S (S (3 * S J - 1)) * (2 * s) - 1)%nat with (S (S (S (6 * S J - 1))) * s - 1)%nat by (f_equal; nia).
    replace (S (S (S (3 * S J - 1))) * (2 * s) - 1)%nat with (S (S (S (S (S (6 * S J - 1))))) * s - 1)%nat by (f_equal; nia).
    replace (S (2 * S J - 1) * (3 * s) - 1)%nat with (S (6 * S J - 1) * s - 1)%nat by (f_equal; nia).
    replace (S (S (2 * S J - 1)) * (3 * s) - 1)%nat with (S (S (S (S (6 * S J - 1)))) * s - 1)%nat by (f_equal; nia).
    replace (S (S J - 1) * (6 * s) - 1)%nat with (S (6 * S J - 1) * s - 1)%nat by (f_equal; nia).
    replace ((6 * S J + 1) * s - 1)%nat with (S (S (6 * S J - 1)) * s - 1)%nat by (f_equal; nia).
    replace ((6 * S J + 5) * s - 1)%nat with (S (S (S (S (S (S (6 * S J - 1)))))) * s - 1)%nat by (f_equal; nia).
    lra.
Qed.
