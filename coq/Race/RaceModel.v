(* Event model for C10: a main thread runs `pre` sequentially, then T worker threads run their
   bodies concurrently, then are joined.  Each operation expands to memory events according to a
   footprint that a translator (T-glob) reads from the sources on every run:
     Construct e : writes every field of engine e; reads and possibly writes global tables
     Compute e   : reads engine e's fields and the global tables; writes only thread-local scratch.
   happens-before = program order + (pre -> every worker event).  A race = two conflicting events
   (same location, at least one write) of two different workers.  No proofs here. *)
From Coq Require Import List Arith PeanoNat Bool.
Import ListNotations.

Inductive loc := Global (g : nat) | Engine (e : nat) | Scratch (t : nat).
Inductive rw := R | W.
Definition event := (rw * loc)%type.
Inductive op := Construct (e : nat) | Compute (e : nat).

(* what T-glob extracts *)
Record footprint := mkFp {
  ctor_global_writes : list nat;     (* globals a constructor writes WITHOUT once-only synchronisation *)
  ctor_global_reads : list nat;
  compute_global_writes : list nat;  (* globals / statics / mutable members a const compute path writes *)
  compute_global_reads : list nat;
  compute_engine_writes : bool       (* does a compute entry point write a member of the shared engine? *)
}.

Definition events_of (fp : footprint) (t : nat) (o : op) : list event :=
  match o with
  | Construct e => (W, Engine e) :: map (fun g => (W, Global g)) (ctor_global_writes fp) ++ map (fun g => (R, Global g)) (ctor_global_reads fp)
  | Compute e => (if compute_engine_writes fp then [(W, Engine e)] else []) ++ (R, Engine e) :: (W, Scratch t)
                 :: map (fun g => (W, Global g)) (compute_global_writes fp) ++ map (fun g => (R, Global g)) (compute_global_reads fp)
  end.
Definition thread_events (fp : footprint) (t : nat) (body : list op) : list event := flat_map (events_of fp t) body.

Definition loc_eqb (a b : loc) : bool :=
  match a, b with
  | Global g, Global h => g =? h | Engine e, Engine f => e =? f | Scratch s, Scratch t => s =? t | _, _ => false
  end.
Definition conflict (a b : event) : bool :=
  loc_eqb (snd a) (snd b) && (match fst a, fst b with R, R => false | _, _ => true end).

(* workers are numbered by their position *)
Definition races_between (fp : footprint) (i j : nat) (bi bj : list op) : bool :=
  existsb (fun a => existsb (fun b => conflict a b) (thread_events fp j bj)) (thread_events fp i bi).
Fixpoint any_pair {A} (f : nat -> nat -> A -> A -> bool) (i : nat) (l : list A) : bool :=
  match l with
  | [] => false
  | x :: l' => (fix go (j : nat) (r : list A) : bool := match r with [] => false | y :: r' => f i j x y || go (S j) r' end) (S i) l'
               || any_pair f (S i) l'
  end.
Definition has_race (fp : footprint) (bodies : list (list op)) : bool := any_pair (races_between fp) 0 bodies.

(* engines a body constructs / uses *)
Definition constructs (b : list op) : list nat := flat_map (fun o => match o with Construct e => [e] | _ => [] end) b.
Definition uses (b : list op) : list nat := flat_map (fun o => match o with Construct e => [e] | Compute e => [e] end) b.

Definition fp_ok (fp : footprint) : bool :=
  match ctor_global_writes fp, compute_global_writes fp with [], [] => negb (compute_engine_writes fp) | _, _ => false end.
