From Coq Require Import List Arith PeanoNat Bool Lia.
From LV Require Import Race.RaceModel.
Import ListNotations.

(* private engines: an engine constructed by one worker is used by no other worker *)
Definition private_ctors (bodies : list (list op)) : Prop :=
  forall i j bi bj e, i <> j -> nth_error bodies i = Some bi -> nth_error bodies j = Some bj ->
    In e (constructs bi) -> ~ In e (uses bj).

Lemma any_pair_true {A} (f : nat -> nat -> A -> A -> bool) l k : any_pair f k l = true ->
  exists i j x y, i < j /\ nth_error l i = Some x /\ nth_error l j = Some y /\ f (k + i) (k + j) x y = true.
Proof.
  revert k. induction l as [|x l IH]; intros k H; cbn [any_pair] in H; [discriminate|].
  apply orb_prop in H. destruct H as [H|H].
  - assert (G : forall r j0, (fix go (j : nat) (r : list A) : bool := match r with [] => false | y :: r' => f k j x y || go (S j) r' end) j0 r = true ->
                  exists d y, nth_error r d = Some y /\ f k (j0 + d) x y = true).
    { induction r as [|y r IHr]; intros j0 Hr; [discriminate|]. apply orb_prop in Hr. destruct Hr as [Hr|Hr].
      - exists 0, y. split; [reflexivity|]. now rewrite Nat.add_0_r.
      - destruct (IHr _ Hr) as (d & y' & Hd & Hf). exists (S d), y'. split; [exact Hd|]. now replace (j0 + S d) with (S j0 + d) by lia. }
    destruct (G _ _ H) as (d & y & Hd & Hf). exists 0, (S d), x, y. repeat split; try lia; auto.
    now rewrite Nat.add_0_r; replace (k + S d) with (S k + d) by lia.
  - destruct (IH _ H) as (i & j & a & b & Hij & Hi & Hj & Hf). exists (S i), (S j), a, b. repeat split; try lia; auto.
    now replace (k + S i) with (S k + i) by lia; replace (k + S j) with (S k + j) by lia.
Qed.

Lemma in_thread_events fp t body ev : In ev (thread_events fp t body) -> exists o, In o body /\ In ev (events_of fp t o).
Proof. unfold thread_events. rewrite in_flat_map. auto. Qed.

(* Race freedom for EVERY program of the shape "construct what is shared first, then run workers":
   if no compute entry point writes a global, a static, a mutable member or a member of the engine,
   and constructors write no unsynchronised global, then any number of workers doing any sequence of
   computes on shared engines and constructing/using their own private engines have no data race —
   under every interleaving (the definition quantifies over event pairs, not over schedules). *)
Theorem compute_race_free fp bodies : fp_ok fp = true -> private_ctors bodies -> has_race fp bodies = false.
Proof.
  intros Hok Hpriv. destruct (has_race fp bodies) eqn:E; [|reflexivity]. exfalso.
  unfold has_race in E. destruct (any_pair_true _ _ _ E) as (i & j & bi & bj & Hij & Hi & Hj & Hr).
  cbn [Nat.add] in Hr. unfold races_between in Hr.
  apply existsb_exists in Hr. destruct Hr as (a & Ha & Hr). apply existsb_exists in Hr. destruct Hr as (b & Hb & Hc).
  unfold fp_ok in Hok. destruct (ctor_global_writes fp) eqn:E1; [|discriminate]. destruct (compute_global_writes fp) eqn:E2; [|discriminate].
  apply negb_true_iff in Hok.
  destruct (in_thread_events _ _ _ _ Ha) as (oa & Hoa & Hea). destruct (in_thread_events _ _ _ _ Hb) as (ob & Hob & Heb).
  assert (Hne : i <> j) by lia.
  (* enumerate the events of each op under the ok footprint *)
  assert (EvC : forall t e ev, In ev (events_of fp t (Construct e)) -> ev = (W, Engine e) \/ exists g, ev = (R, Global g)).
  { intros t e ev H. cbn [events_of] in H. rewrite E1 in H. cbn [map app] in H. destruct H as [<-|H]; [now left|].
    apply in_map_iff in H. destruct H as (g & <- & _). right. now exists g. }
  assert (EvK : forall t e ev, In ev (events_of fp t (Compute e)) -> ev = (R, Engine e) \/ ev = (W, Scratch t) \/ exists g, ev = (R, Global g)).
  { intros t e ev H. cbn [events_of] in H. rewrite Hok, E2 in H. cbn [map app] in H.
    destruct H as [<-|[<-|H]]; [now left|right; now left|]. apply in_map_iff in H. destruct H as (g & <- & _). right. right. now exists g. }
  assert (Huse : forall (b : list op) o e, In o b -> (o = Construct e \/ o = Compute e) -> In e (uses b)).
  { intros b0 o e Hin [->| ->]; unfold uses; apply in_flat_map; eexists; split; try eassumption; cbn; auto. }
  assert (Hcons : forall (b : list op) e, In (Construct e) b -> In e (constructs b)).
  { intros b0 e Hin. unfold constructs. apply in_flat_map. eexists. split; [eassumption|]. cbn. auto. }
  unfold conflict in Hc. apply andb_prop in Hc. destruct Hc as [Hl Hk].
  destruct oa as [ea|ea], ob as [eb|eb].
  - destruct (EvC _ _ _ Hea) as [->|(g & ->)], (EvC _ _ _ Heb) as [->|(h & ->)]; cbn in Hl, Hk; try discriminate.
    apply Nat.eqb_eq in Hl. subst eb. eapply (Hpriv i j bi bj ea Hne Hi Hj); [now apply Hcons|eapply Huse; [exact Hob|now left]].
  - destruct (EvC _ _ _ Hea) as [->|(g & ->)], (EvK _ _ _ Heb) as [->|[->|(h & ->)]]; cbn in Hl, Hk; try discriminate.
    apply Nat.eqb_eq in Hl. subst eb. eapply (Hpriv i j bi bj ea Hne Hi Hj); [now apply Hcons|eapply Huse; [exact Hob|now right]].
  - destruct (EvK _ _ _ Hea) as [->|[->|(g & ->)]], (EvC _ _ _ Heb) as [->|(h & ->)]; cbn in Hl, Hk; try discriminate.
    apply Nat.eqb_eq in Hl. subst eb. eapply (Hpriv j i bj bi ea (not_eq_sym Hne) Hj Hi); [now apply Hcons|eapply Huse; [exact Hoa|now right]].
  - destruct (EvK _ _ _ Hea) as [->|[->|(g & ->)]], (EvK _ _ _ Heb) as [->|[->|(h & ->)]]; cbn in Hl, Hk; try discriminate.
    apply Nat.eqb_eq in Hl. lia.
Qed.

(* If a constructor writes a global table that is also read (as upstream's initFactorials does,
   unconditionally), two concurrent constructions race, and a construction races with a compute. *)
Theorem ctor_race fp g rest : ctor_global_writes fp = g :: rest -> In g (compute_global_reads fp) ->
  has_race fp [[Construct 1]; [Construct 2]] = true /\ has_race fp [[Construct 1]; [Compute 0]] = true.
Proof.
  intros Hw Hr.
  assert (Hin : forall t e, In (W, Global g) (thread_events fp t [Construct e])).
  { intros t e. unfold thread_events. cbn [flat_map events_of]. rewrite Hw, app_nil_r. right. cbn [map app]. now left. }
  assert (Hin2 : forall t e, In (R, Global g) (thread_events fp t [Compute e])).
  { intros t e. unfold thread_events. cbn [flat_map events_of]. rewrite app_nil_r. apply in_or_app. right. right. right.
    apply in_or_app. right. apply in_map_iff. exists g. auto. }
  assert (Hc1 : conflict (W, Global g) (W, Global g) = true) by (unfold conflict; cbn [fst snd loc_eqb]; rewrite Nat.eqb_refl; reflexivity).
  assert (Hc2 : conflict (W, Global g) (R, Global g) = true) by (unfold conflict; cbn [fst snd loc_eqb]; rewrite Nat.eqb_refl; reflexivity).
  split; unfold has_race; cbn [any_pair]; unfold races_between.
  - apply orb_true_iff. left. apply orb_true_iff. left.
    apply existsb_exists. exists (W, Global g). split; [apply Hin|]. apply existsb_exists. exists (W, Global g). split; [apply Hin|exact Hc1].
  - apply orb_true_iff. left. apply orb_true_iff. left.
    apply existsb_exists. exists (W, Global g). split; [apply Hin|]. apply existsb_exists. exists (R, Global g). split; [apply Hin2|exact Hc2].
Qed.
