(* Model of the primitive screening estimate RadialIntegral::estimate_type2 (src/lib/radial_quad.cpp) and of
   BesselFunction::upper_bound (src/lib/bessel.cpp): the integrand envelope r^N exp(-n r^2 - a (r-A)^2 - b (r-B)^2)
   times the tabulated Bessel values, evaluated at the stationary point P of r^c0 exp(-p r^2 + (kA+kB) r),
   c0 = max(N - l1 - l2, 0), and multiplied by the Gaussian integral sqrt(pi/p)/2 (1 + erf(sqrt p P)).
   Generic over the numeric dictionary; erf, pi, the floor function and the K table are arguments.  No proofs here. *)
From Coq Require Import List Arith ZArith PeanoNat Bool.
From LV Require Import Base.NumOps.
Import ListNotations.

Section Est.
  Context {T : Type} (o : NumOps T).
  Local Notation "a +! b" := (nadd o a b) (at level 50, left associativity).
  Local Notation "a -! b" := (nsub o a b) (at level 50, left associativity).
  Local Notation "a *! b" := (nmul o a b) (at level 40, left associativity).
  Local Notation "a /! b" := (ndiv o a b) (at level 40, left associativity).
  Let ofN (n : nat) := nofZ o (Z.of_nat n).
  Variable pi : T.
  Variable erf : T -> T.
  Fixpoint epow (x : T) (k : nat) : T := match k with O => n1 o | S k' => x *! epow x k' end.

  (* upper_bound(z, L) = K[ix][lx], ix = min(N, max(minix, floor(N z / 16))), minix = (L > 0), lx = min(L, lMax) *)
  Variable Ntab lMax : nat.
  Variable Kt : nat -> nat -> T.
  Variable floor_nat : T -> nat.       (* floor of a non-negative number, as an index *)
  Definition upper_bound (z : T) (L : nat) : T :=
    let ix := floor_nat (ofN Ntab *! z /! nofZ o 16) in
    let minix := if (0 <? L) then 1 else 0 in
    Kt (Nat.min Ntab (Nat.max minix ix)) (Nat.min L lMax).

  Definition est_point (c0 c1 p : T) : T :=
    (c1 +! nsqrt o (c1 *! c1 +! nofZ o 8 *! p *! c0)) /! (nofZ o 4 *! p).

  Definition prim_estimate (N l1 l2 : nat) (n a b A B : T) : T :=
    let kA := nofZ o 2 *! a *! A in
    let kB := nofZ o 2 *! b *! B in
    let c0 := ofN (N - l1 - l2) in             (* max(N - l1 - l2, 0) *)
    let c1 := kA +! kB in
    let p := a +! b +! n in
    let P := est_point c0 c1 p in
    let zA := P -! A in let zB := P -! B in
    let b1 := upper_bound (kA *! P) l1 in
    let b2 := upper_bound (kB *! P) l2 in
    let Fres := epow P N *! nexp o (nopp o n *! P *! P -! a *! zA *! zA -! b *! zB *! zB) *! b1 *! b2 in
    ndec o 5 (-1) *! nsqrt o (pi /! p) *! Fres *! (n1 o +! erf (nsqrt o p *! P)).
End Est.
