(* What the evaluation point of the primitive estimate is: the non-negative stationary point of the envelope
   r^c0 exp(-p r^2 + c1 r), i.e. the root of  c0/r - 2 p r + c1 = 0  <=>  2 p r^2 - c1 r - c0 = 0. *)
From Coq Require Import Reals Lra Psatz.
From LV Require Import Base.NumOps Base.RInst Radial.EstimateModel.
Local Open Scope R_scope.

Theorem est_point_stationary c0 c1 p : 0 < p -> 0 <= c0 -> 0 <= c1 ->
  let P := est_point ROps c0 c1 p in 2 * p * P * P - c1 * P - c0 = 0 /\ 0 <= P /\ c1 / (2 * p) <= P.
Proof.
  intros Hp H0 H1. unfold est_point. cbn [nadd nmul ndiv nsqrt nofZ ROps].
  set (D := c1 * c1 + 8 * p * c0).
  assert (HD : 0 <= D) by (unfold D; nra).
  pose proof (sqrt_pos D) as Hs. pose proof (sqrt_sqrt D HD) as Hss.
  set (s := sqrt D) in *.
  assert (c1 <= s).
  { apply Rsqr_incr_0_var; [|exact Hs]. unfold Rsqr. rewrite Hss. unfold D. nra. }
  repeat split.
  - field_simplify; [|lra]. replace (s ^ 2) with D by (rewrite <- Hss; ring). unfold D. field. lra.
  - apply Rmult_le_pos; [lra|]. left. apply Rinv_0_lt_compat. lra.
  - apply Rmult_le_reg_r with (4 * p); [lra|]. field_simplify; lra.
Qed.

(* the estimate does not depend on the order of the two shells (the per-primitive screen cannot break C07) *)
Theorem prim_estimate_swap pi_ erf Ntab lMax Kt fl N l1 l2 n a b A B :
  prim_estimate ROps pi_ erf Ntab lMax Kt fl N l1 l2 n a b A B = prim_estimate ROps pi_ erf Ntab lMax Kt fl N l2 l1 n b a B A.
Proof.
  unfold prim_estimate. cbn [nadd nsub nmul ndiv nopp nsqrt nexp nofZ ndec n1 ROps].
  replace (N - l2 - l1)%nat with (N - l1 - l2)%nat by lia.
  replace (2 * b * B + 2 * a * A) with (2 * a * A + 2 * b * B) by ring.
  replace (b + a + n) with (a + b + n) by ring.
  set (P := est_point ROps _ _ _). 
  replace (- n * P * P - b * (P - B) * (P - B) - a * (P - A) * (P - A)) with (- n * P * P - a * (P - A) * (P - A) - b * (P - B) * (P - B)) by ring.
  ring.
Qed.
