(* The boundary term of the integration by parts in Radial/RadialRec.v vanishes at infinity - proved, for every i, j, k:
   H(r) = r^k env(r) M_i(2aAr) M_{j+1}(2bBr) -> 0 as r -> +inf, whenever p = zeta + a + b > 0 and aA, bB > 0
   (M_l is bounded for arguments >= 1, Bessel/BesselBound.v; r^m exp(-q r^2) -> 0, Base/GaussDecay.v). *)
From Coq Require Import Reals ZArith Lra Lia.
From Coquelicot Require Import Coquelicot.
From LV Require Import Base.GaussDecay Bessel.BesselSpec Bessel.BesselBound Radial.RadialRec.
Local Open Scope R_scope.

Lemma powerRZ_abs_bound r k : 1 <= r -> Rabs (powerRZ r k) <= r ^ Z.abs_nat k.
Proof.
  intros Hr. assert (0 < r) by lra.
  destruct k as [|n|n]; cbn [powerRZ Z.abs_nat].
  - rewrite Rabs_R1. simpl. lra.
  - rewrite Rabs_pos_eq by (apply pow_le; lra). lra.
  - assert (1 <= r ^ Pos.to_nat n) by (apply pow_R1_Rle; exact Hr).
    rewrite Rabs_pos_eq by (apply Rlt_le, Rinv_0_lt_compat; lra).
    apply Rle_trans with 1; [|exact H0]. rewrite <- Rinv_1. apply Rinv_le_contravar; lra.
Qed.

Section Decay.
  Variables zeta a b A B : R.
  Hypothesis Hx : 0 < a * A.
  Hypothesis Hy : 0 < b * B.
  Hypothesis Hp : 0 < zeta + a + b.
  Let p := zeta + a + b.
  Let c1 := 2 * (a * A + b * B).
  Let c0 := - (a * (A * A) + b * (B * B)).

  Lemma env_exponent r : env zeta a b A B r = exp (- (p * (r * r)) + c1 * r + c0).
  Proof. unfold env, p, c1, c0. f_equal. ring. Qed.

  Lemma env_bound r : 1 <= r -> 2 * (Rabs c1 + Rabs c0) / p <= r -> env zeta a b A B r <= exp (- (p / 2 * (r * r))).
  Proof.
    intros H1 H2. rewrite env_exponent.
    assert (p <> 0) as Hp0 by (apply Rgt_not_eq; unfold p; lra).
    assert (0 < p) as Hpp by (unfold p; lra).
    assert (c1 * r + c0 <= p / 2 * (r * r)) as K.
    { assert (c1 * r <= Rabs c1 * r) by (apply Rmult_le_compat_r; [lra | apply Rle_abs]).
      assert (c0 <= Rabs c0 * r).
      { pose proof (Rle_abs c0). pose proof (Rabs_pos c0). assert (Rabs c0 * 1 <= Rabs c0 * r) by (apply Rmult_le_compat_l; lra). lra. }
      assert ((Rabs c1 + Rabs c0) <= p / 2 * r).
      { apply Rmult_le_reg_l with (r := 2 / p); [apply Rdiv_lt_0_compat; lra|].
        replace (2 / p * (p / 2 * r)) with r by (field; exact Hp0).
        replace (2 / p * (Rabs c1 + Rabs c0)) with (2 * (Rabs c1 + Rabs c0) / p) by (field; exact Hp0). exact H2. }
      assert ((Rabs c1 + Rabs c0) * r <= p / 2 * r * r) by (apply Rmult_le_compat_r; lra). lra. }
    destruct (Req_dec (- (p * (r * r)) + c1 * r + c0) (- (p / 2 * (r * r)))) as [E|E]; [rewrite E; lra|].
    apply Rlt_le, exp_increasing. lra.
  Qed.

  Theorem H_decay i j k : filterlim (H zeta a b A B i j k) (Rbar_locally p_infty) (locally 0).
  Proof.
    set (m := Z.abs_nat k). set (Cb := Mbound i * Mbound (S j)).
    assert (0 <= Mbound i) as Mi by (unfold Mbound; pose proof (abs_sum_nonneg (PA i)); pose proof (abs_sum_nonneg (PB i)); lra).
    assert (0 <= Mbound (S j)) as Mj by (unfold Mbound; pose proof (abs_sum_nonneg (PA (S j))); pose proof (abs_sum_nonneg (PB (S j))); lra).
    pose proof (pow_gauss_decay (p / 2) m ltac:(unfold p; lra)) as L.
    assert (is_lim (fun r => Cb * (r ^ m * exp (- (p / 2 * (r * r))))) p_infty 0) as Lu.
    { replace (Finite 0) with (Rbar_mult Cb 0) by (cbn; f_equal; ring). apply is_lim_scal_l. exact L. }
    assert (is_lim (fun r => - (Cb * (r ^ m * exp (- (p / 2 * (r * r)))))) p_infty 0) as Ll.
    { replace (Finite 0) with (Rbar_opp 0) by (cbn; f_equal; ring). apply is_lim_opp. exact Lu. }
    change (is_lim (H zeta a b A B i j k) p_infty 0).
    apply (is_lim_le_le_loc (fun r => - (Cb * (r ^ m * exp (- (p / 2 * (r * r)))))) (fun r => Cb * (r ^ m * exp (- (p / 2 * (r * r)))))); [| exact Ll | exact Lu].
    set (R0 := Rmax (Rmax 1 (2 * (Rabs c1 + Rabs c0) / p)) (Rmax (/ (2 * (a * A))) (/ (2 * (b * B))))).
    exists R0. intros r Hr. apply Rlt_le in Hr.
    assert (1 <= r) as H1 by (unfold R0 in Hr; pose proof (Rmax_l (Rmax 1 (2 * (Rabs c1 + Rabs c0) / p)) (Rmax (/ (2 * (a * A))) (/ (2 * (b * B))))); pose proof (Rmax_l 1 (2 * (Rabs c1 + Rabs c0) / p)); lra).
    assert (2 * (Rabs c1 + Rabs c0) / p <= r) as H2 by (unfold R0 in Hr; pose proof (Rmax_l (Rmax 1 (2 * (Rabs c1 + Rabs c0) / p)) (Rmax (/ (2 * (a * A))) (/ (2 * (b * B))))); pose proof (Rmax_r 1 (2 * (Rabs c1 + Rabs c0) / p)); lra).
    assert (/ (2 * (a * A)) <= r) as H3 by (unfold R0 in Hr; pose proof (Rmax_r (Rmax 1 (2 * (Rabs c1 + Rabs c0) / p)) (Rmax (/ (2 * (a * A))) (/ (2 * (b * B))))); pose proof (Rmax_l (/ (2 * (a * A))) (/ (2 * (b * B)))); lra).
    assert (/ (2 * (b * B)) <= r) as H4 by (unfold R0 in Hr; pose proof (Rmax_r (Rmax 1 (2 * (Rabs c1 + Rabs c0) / p)) (Rmax (/ (2 * (a * A))) (/ (2 * (b * B))))); pose proof (Rmax_r (/ (2 * (a * A))) (/ (2 * (b * B)))); lra).
    assert (1 <= 2 * (a * A) * r) as Z1.
    { apply Rmult_le_reg_l with (r := / (2 * (a * A))); [apply Rinv_0_lt_compat; lra|]. rewrite Rmult_1_r.
      replace (/ (2 * (a * A)) * (2 * (a * A) * r)) with r by (field; repeat split; intros E; rewrite E in Hx; lra). exact H3. }
    assert (1 <= 2 * (b * B) * r) as Z2.
    { apply Rmult_le_reg_l with (r := / (2 * (b * B))); [apply Rinv_0_lt_compat; lra|]. rewrite Rmult_1_r.
      replace (/ (2 * (b * B)) * (2 * (b * B) * r)) with r by (field; repeat split; intros E; rewrite E in Hy; lra). exact H4. }
    assert (Rabs (H zeta a b A B i j k r) <= Cb * (r ^ m * exp (- (p / 2 * (r * r))))) as Habs.
    { unfold H. rewrite !Rabs_mult.
      pose proof (powerRZ_abs_bound r k H1) as B1. fold m in B1.
      pose proof (env_bound r H1 H2) as B2.
      assert (0 < env zeta a b A B r) as E0 by (unfold env; apply exp_pos).
      rewrite (Rabs_pos_eq (env zeta a b A B r)) by lra.
      pose proof (M_bounded i _ Z1) as B3. pose proof (M_bounded (S j) _ Z2) as B4.
      pose proof (Rabs_pos (powerRZ r k)). pose proof (Rabs_pos (M i (2 * (a * A) * r))). pose proof (Rabs_pos (M (S j) (2 * (b * B) * r))).
      assert (0 <= r ^ m) by (apply pow_le; lra).
      assert (0 < exp (- (p / 2 * (r * r)))) by apply exp_pos.
      unfold Cb.
      apply Rle_trans with (r ^ m * exp (- (p / 2 * (r * r))) * Mbound i * Mbound (S j)); [|right; ring].
      repeat apply Rmult_le_compat; try lra; try (apply Rmult_le_pos; lra).
      apply Rmult_le_pos; [apply Rmult_le_pos; lra | lra]. }
    apply Rabs_le_between in Habs. lra.
  Qed.
End Decay.
