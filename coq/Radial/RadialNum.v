(* Numeric model of the closed-form path of RadialIntegral::type2(triples, ...) (src/lib/radial_gen.cpp), generic over
   the numeric dictionary:
     - the per-primitive-pair quantities p, x = aA, y = bB, P1, P2, X1, X2 and the seed integrals G1A, G1B, H2
       (the Dawson function is an argument),
     - compute_base_integrals(2, 3 + nbase, ...): the even (F) and odd (G) base integrals values[0 .. nbase+1],
       with the powers of P2 obtained by multiplication,
     - the evaluation of one case of the switch, AS TRANSLATED from the source by T-rad (gen/RadialCases.v), statement by
       statement in source order: result (+)= (coefficient expression) * (values[i] | G1A | G1B | H2).
   The extracted form is run against the library on every check (checks/c12.py); the symbolic side of the same table is
   RadialSym/RadialSound/RadialTable.  No proofs here. *)
From Coq Require Import List Arith ZArith PeanoNat Bool.
From LV Require Import Base.NumOps Radial.RadialSym.
Import ListNotations.

Section Num.
  Context {T : Type} (o : NumOps T).
  Local Notation "a +! b" := (nadd o a b) (at level 50, left associativity).
  Local Notation "a -! b" := (nsub o a b) (at level 50, left associativity).
  Local Notation "a *! b" := (nmul o a b) (at level 40, left associativity).
  Local Notation "a /! b" := (ndiv o a b) (at level 40, left associativity).
  Let ofN (n : nat) := nofZ o (Z.of_nat n).
  Let half := ndec o 5 (-1).

  (* a coefficient expression of the source, evaluated as C++ evaluates it (the normaliser of RadialSym rejects
     integer/integer divisions, the only place where the two could differ) *)
  Fixpoint gexpr (p x y : T) (e : rexpr) : T :=
    match e with
    | RI n => nofZ o n | RP => p | RX => x | RY => y
    | RNeg a => nopp o (gexpr p x y a)
    | RAdd a b => gexpr p x y a +! gexpr p x y b
    | RSub a b => gexpr p x y a -! gexpr p x y b
    | RMul a b => gexpr p x y a *! gexpr p x y b
    | RDiv a b => gexpr p x y a /! gexpr p x y b
    end.
  Definition gbasis (vals : list T) (g1a g1b h2 : T) (b : basis) : T :=
    match b with BV n => nth (Z.to_nat n) vals (n0 o) | BG1A => g1a | BG1B => g1b | BH2 => h2 end.
  (* (result, sum of |terms|) *)
  Definition gcase (p x y : T) (vals : list T) (g1a g1b h2 : T) (c : list (basis * rexpr)) : T * T :=
    fold_left (fun acc t => let v := gexpr p x y (snd t) *! gbasis vals g1a g1b h2 (fst t) in (fst acc +! v, snd acc +! nabs o v))
              c (n0 o, n0 o).

  (* powers by repeated multiplication, as the loops build them *)
  Fixpoint imul (b x : T) (k : nat) : T := match k with O => b | S k' => imul b x k' *! x end.
  Definition ipow (x : T) (k : nat) : T := imul (n1 o) x k.

  (* F_n, n >= 1: values[2n - 2] *)
  Definition base_F (n : nat) (p C0 P1_2 P2_2 X1 X2 oP1 : T) : T :=
    let dk0 := ipow P1_2 (n - 1) *! X1 in
    let ek0 := ipow P2_2 (n - 1) *! X2 in
    let '(ck, dk, val) :=
      fold_left (fun acc k => let '(ck, dk, val) := acc in
        let ck' := ck *! (nofZ o (Z.of_nat (2 * k * (2 * k - 1))) *! (ofN (n - k) -! half) /! (nofZ o (Z.of_nat ((2 * n - 2 * k) * (2 * n - 2 * k - 1))) *! p)) in
        let dk' := dk *! oP1 in
        let ek' := ipow P2_2 (k - 1) *! X2 in
        (ck', dk', val +! ck' *! (dk' -! ek')))
        (rev (seq 2 (n - 2))) (C0, dk0, C0 *! (dk0 -! ek0)) in
    if 1 <? n then
      let ck' := ck *! (nofZ o 2 *! (ofN n -! ndec o 15 (-1)) /! (nofZ o (Z.of_nat ((2 * n - 2) * (2 * n - 3))) *! p)) in
      val +! ck' *! (X1 -! X2)
    else val.
  (* G_n, n >= 1: values[2n - 1] *)
  Definition base_G (n : nat) (p C0 P1 P2 P1_2 P2_2 X1 X2 oP1 : T) : T :=
    let dk0 := imul P1 P1_2 (n - 1) *! X1 in
    let ek0 := imul P2 P2_2 (n - 1) *! X2 in
    let '(_, _, val) :=
      fold_left (fun acc k => let '(ck, dk, val) := acc in
        let ck' := ck *! (nofZ o (Z.of_nat (2 * k * (2 * k + 1))) *! (ofN (n - k) -! half) /! (nofZ o (Z.of_nat ((2 * n - 2 * k) * (2 * n - 1 - 2 * k))) *! p)) in
        let dk' := dk *! oP1 in
        let ek' := P2 *! ipow P2_2 (k - 1) *! X2 in
        (ck', dk', val +! ck' *! (dk' -! ek')))
        (rev (seq 1 (n - 1))) (C0, dk0, C0 *! (dk0 -! ek0)) in
    val.
  (* compute_base_integrals(2, Nmax, ...): values[0 .. Nmax - 2] *)
  Definition base_integrals (Nmax : nat) (p C0 P1 P2 P1_2 P2_2 X1 X2 oP1 : T) : list T :=
    map (fun i => if Nat.even i then base_F (i / 2 + 1) p C0 P1_2 P2_2 X1 X2 oP1
                  else base_G ((i + 1) / 2) p C0 P1 P2 P1_2 P2_2 X1 X2 oP1) (seq 0 (Nmax - 1)).

  Variable root_pi : T.
  Variable dawson : T -> T.
  (* one primitive pair, one triple on the closed-form path: Some (result, sum |terms|) if the switch has the case *)
  Definition closed_value (tab : list (Z * list (basis * rexpr))) (nbase : nat) (i j k : Z) (zeta a b A B : T) : option (T * T) :=
    let p := zeta +! a +! b in
    let x := a *! A in let y := b *! B in
    let P1 := (x +! y) /! p in let P2 := (y -! x) /! p in
    let P1_2 := P1 *! P1 in let P2_2 := P2 *! P2 in
    let oP1 := n1 o /! P1_2 in
    let root_p := nsqrt o p in let o_root_p := n1 o /! root_p in
    let aAbB := a *! A *! A +! b *! B *! B in
    let Kab := n1 o /! (nofZ o 16 *! x *! y) in
    let X1 := nexp o (p *! P1_2 -! aAbB) *! Kab in
    let X2 := nexp o (p *! P2_2 -! aAbB) *! Kab in
    let daw1 := X1 *! dawson (root_p *! P1) in
    let daw2 := X2 *! dawson (root_p *! P2) in
    let G1B := nofZ o 2 *! root_pi *! (daw1 -! daw2) in
    let G1A := nofZ o 2 *! root_pi *! (daw1 +! daw2) in
    let H2 := root_pi *! (X1 +! X2) *! o_root_p in
    let vals := base_integrals (3 + nbase) p (o_root_p *! root_pi) P1 P2 P1_2 P2_2 X1 X2 oP1 in
    match find (fun c => Z.eqb (fst c) (key_of i j k)) tab with
    | Some c => Some (gcase p x y vals G1A G1B H2 (snd c))
    | None => None
    end.
End Num.
