(* The numeric model of the closed-form path, instantiated with the reals, evaluates exactly the expression whose
   correctness RadialTable.case_value is about: the value of the translated case, sum over its statements of
   (coefficient expression) x (base integral), with the base integrals the model computed. *)
From Coq Require Import ZArith List Bool Reals Lra.
From LV Require Import Base.NumOps Base.RInst Radial.RadialSym Radial.RadialSound Radial.RadialTable Radial.RadialNum.
Import ListNotations.
Local Open Scope R_scope.

Lemma gexpr_ere p x y e : gexpr ROps p x y e = ere p x y e.
Proof. induction e; cbn [gexpr ere nofZ nopp nadd nsub nmul ndiv ROps]; congruence. Qed.

Lemma gcase_ecase p x y vl g1a g1b h2 c :
  fst (gcase ROps p x y vl g1a g1b h2 c) = ecase p x y (gbasis ROps vl g1a g1b h2) c.
Proof.
  unfold gcase.
  assert (G : forall a0 b0, fst (fold_left (fun acc t => let v := nmul ROps (gexpr ROps p x y (snd t)) (gbasis ROps vl g1a g1b h2 (fst t)) in
                                         (nadd ROps (fst acc) v, nadd ROps (snd acc) (nabs ROps v))) c (a0, b0))
                            = a0 + ecase p x y (gbasis ROps vl g1a g1b h2) c).
  { induction c as [|t c IH]; intros a0 b0; cbn [fold_left ecase fold_right]; [cbn; lra|].
    rewrite IH. cbn [fst snd nadd nmul ROps]. rewrite gexpr_ere. unfold ecase. lra. }
  rewrite G. cbn [n0 ROps]. lra.
Qed.

(* what closed_value returns is the translated case evaluated on the model's base integrals and seeds *)
Theorem closed_value_is_case root_pi dawson tab nbase i j k zeta a b A B v s :
  closed_value ROps root_pi dawson tab nbase i j k zeta a b A B = Some (v, s) ->
  exists c vl g1a g1b h2,
    find (fun c => Z.eqb (fst c) (key_of i j k)) tab = Some c /\
    v = ecase (zeta + a + b) (a * A) (b * B) (gbasis ROps vl g1a g1b h2) (snd c).
Proof.
  unfold closed_value. cbn [nadd nmul ROps].
  destruct (find (fun c => Z.eqb (fst c) (key_of i j k)) tab) as [c|] eqn:F; [|discriminate].
  intros H. injection H as H. apply (f_equal fst) in H. cbn [fst] in H.
  eexists c, _, _, _, _. split; [reflexivity|].
  rewrite <- H. apply gcase_ecase.
Qed.
