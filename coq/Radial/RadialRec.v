(* The j-recurrence of the primitive type-2 radial integrals, FROM their definition as improper integrals:
     T(i, j+2, k) = T(i, j, k) - (2j+3)/(2 y) T(i, j+1, k-1),      y = b B,
   for every i, j, k, by the three-term recurrence of M_l (Bessel/BesselSpec.v), linearity of the integral and
   uniqueness of its value.  The only hypothesis is that the integrals exist (is_RInt_gen ... (T i j k)): T is not an
   abstract family any more but the integral of r^k exp(-zeta r^2 - a (r-A)^2 - b (r-B)^2) M_i(2aAr) M_j(2bBr) over (0, inf).
   This discharges the hypothesis SRj of RadialTable.case_value. *)
From Coq Require Import Reals ZArith Lra Lia.
From Coquelicot Require Import Coquelicot.
From LV Require Import Bessel.BesselSpec.
Local Open Scope R_scope.

Section RadialRec.
  Variables zeta a b A B : R.
  Hypothesis Hy : 0 < b * B.

  Definition env (r : R) : R := exp (- (zeta * (r * r)) - a * ((r - A) * (r - A)) - b * ((r - B) * (r - B))).
  Definition F (i j : nat) (k : Z) (r : R) : R :=
    powerRZ r k * env r * M i (2 * (a * A) * r) * M j (2 * (b * B) * r).

  Variable T : nat -> nat -> Z -> R.
  Hypothesis HT : forall i j k, is_RInt_gen (F i j k) (at_point 0) (Rbar_locally p_infty) (T i j k).

  Lemma F_rec i j k r : 0 < r ->
    F i (S (S j)) k r = F i j k r - (2 * INR j + 3) / (2 * (b * B)) * F i (S j) (k - 1) r.
  Proof.
    intros Hr. unfold F. rewrite M_rec.
    assert (r <> 0) as Hr0 by lra.
    replace (powerRZ r k) with (r * powerRZ r (k - 1)).
    2:{ replace k with (1 + (k - 1))%Z at 2 by lia. rewrite powerRZ_add by assumption. rewrite powerRZ_1. reflexivity. }
    field. repeat split; try assumption; intros E; rewrite E in Hy; lra.
  Qed.

  Theorem T_rec_j i j k :
    T i (S (S j)) k = T i j k - (2 * INR j + 3) / (2 * (b * B)) * T i (S j) (k - 1).
  Proof.
    pose proof (HT i (S (S j)) k) as H2.
    assert (is_RInt_gen (F i (S (S j)) k) (at_point 0) (Rbar_locally p_infty)
              (T i j k - (2 * INR j + 3) / (2 * (b * B)) * T i (S j) (k - 1))) as H3.
    { apply is_RInt_gen_ext with (f := fun r => minus (F i j k r) (scal ((2 * INR j + 3) / (2 * (b * B))) (F i (S j) (k - 1) r))).
      - exists (fun u => u = 0) (fun v => 0 < v).
        + reflexivity.
        + exists 0. intros v Hv. exact Hv.
        + intros u v Hu Hv r. cbn [fst snd]. subst u. rewrite Rmin_left, Rmax_right by lra. intros [Hr _].
          rewrite F_rec by assumption. reflexivity.
      - apply (is_RInt_gen_minus (V := R_CompleteNormedModule)); [apply HT|].
        apply (is_RInt_gen_scal (V := R_CompleteNormedModule)). apply HT. }
    rewrite <- (is_RInt_gen_unique _ _ H2). rewrite <- (is_RInt_gen_unique _ _ H3). reflexivity.
  Qed.
End RadialRec.
