(* The j-recurrence of the primitive type-2 radial integrals, FROM their definition as improper integrals:
     T(i, j+2, k) = T(i, j, k) - (2j+3)/(2 y) T(i, j+1, k-1),      y = b B,
   for every i, j, k, by the three-term recurrence of M_l (Bessel/BesselSpec.v), linearity of the integral and
   uniqueness of its value.  The only hypothesis is that the integrals exist (is_RInt_gen ... (T i j k)): T is not an
   abstract family any more but the integral of r^k exp(-zeta r^2 - a (r-A)^2 - b (r-B)^2) M_i(2aAr) M_j(2bBr) over (0, inf).
   This discharges the hypothesis SRj of RadialTable.case_value. *)
From Coq Require Import Reals ZArith Lra Lia.
From Coquelicot Require Import Coquelicot.
From LV Require Import Bessel.BesselSpec Bessel.BesselDeriv.
Local Open Scope R_scope.

Lemma is_derive_ext_val (f : R -> R) r d d' : is_derive f r d -> d = d' -> is_derive f r d'.
Proof. intros H E. now rewrite <- E. Qed.

Section RadialRec.
  Variables zeta a b A B : R.
  Hypothesis Hy : 0 < b * B.

  Definition env (r : R) : R := exp (- (zeta * (r * r)) - a * ((r - A) * (r - A)) - b * ((r - B) * (r - B))).
  Definition F (i j : nat) (k : Z) (r : R) : R :=
    powerRZ r k * env r * M i (2 * (a * A) * r) * M j (2 * (b * B) * r).

  (* the lower end of the integral: any proper filter on the non-negative reals (at_point 0, at_right 0) *)
  Variable Fa : (R -> Prop) -> Prop.
  Context {FFa : ProperFilter Fa}.
  Hypothesis HFa : Fa (fun u => 0 <= u).

  Variable T : nat -> nat -> Z -> R.
  (* k >= 1: the integrand behaves like r^(k+i+j) at 0, so that the integrals exist exactly on a domain of this kind *)
  Hypothesis HT : forall i j k, (1 <= k)%Z -> is_RInt_gen (F i j k) Fa (Rbar_locally p_infty) (T i j k).

  (* eventually (u, v) in Fa x +inf : every point strictly between u and v is positive *)
  Lemma between_pos : filter_prod Fa (Rbar_locally p_infty) (fun ab => forall r, Rmin (fst ab) (snd ab) < r < Rmax (fst ab) (snd ab) -> 0 < r).
  Proof.
    exists (fun u => 0 <= u) (fun v => 0 < v); [exact HFa | exists 0; intros v Hv; exact Hv |].
    intros u v Hu Hv r. cbn [fst snd]. intros [Hr _]. unfold Rmin in Hr. destruct (Rle_dec u v); lra.
  Qed.

  Lemma F_rec i j k r : 0 < r ->
    F i (S (S j)) k r = F i j k r - (2 * INR j + 3) / (2 * (b * B)) * F i (S j) (k - 1) r.
  Proof.
    intros Hr. unfold F. rewrite M_rec.
    assert (r <> 0) as Hr0 by lra.
    replace (powerRZ r k) with (r * powerRZ r (k - 1)).
    2:{ replace k with (1 + (k - 1))%Z at 2 by lia. rewrite powerRZ_add by assumption. rewrite powerRZ_1. reflexivity. }
    field. repeat split; try assumption; intros E; rewrite E in Hy; lra.
  Qed.

  Theorem T_rec_j i j k : (2 <= k)%Z ->
    T i (S (S j)) k = T i j k - (2 * INR j + 3) / (2 * (b * B)) * T i (S j) (k - 1).
  Proof.
    intros Hk. pose proof (HT i (S (S j)) k ltac:(lia)) as H2.
    assert (is_RInt_gen (F i (S (S j)) k) Fa (Rbar_locally p_infty)
              (T i j k - (2 * INR j + 3) / (2 * (b * B)) * T i (S j) (k - 1))) as H3.
    { apply is_RInt_gen_ext with (f := fun r => minus (F i j k r) (scal ((2 * INR j + 3) / (2 * (b * B))) (F i (S j) (k - 1) r))).
      - pose proof between_pos as BP. revert BP. apply filter_imp. intros ab Hab r Hr. rewrite F_rec by (apply Hab; exact Hr). reflexivity.
      - apply (is_RInt_gen_minus (V := R_CompleteNormedModule)); [apply HT; lia|].
        apply (is_RInt_gen_scal (V := R_CompleteNormedModule)). apply HT. lia. }
    rewrite <- (is_RInt_gen_unique _ _ H2). rewrite <- (is_RInt_gen_unique _ _ H3). reflexivity.
  Qed.

  (* ---------------------------------------------------------------------------------------------------------------------
     The i-recurrence, by one integration by parts: with H(r) = r^k env(r) M_i(2xr) M_{j+1}(2yr),
       H' = (k + i - j - 2) F(i,j+1,k-1) - 2p F(i,j+1,k+1) + 2x F(i+1,j+1,k) + 2y F(i,j,k)
     (derivative rules of M_l, Bessel/BesselDeriv.v), so that, when H vanishes at both ends of (0, inf),
       2x T(i+1,j+1,k) = (2 + j - i - k) T(i,j+1,k-1) + 2p T(i,j+1,k+1) - 2y T(i,j,k),
     which is hypothesis SRi of RadialTable.case_value (there with i, j shifted by one and divided by 2x).
     --------------------------------------------------------------------------------------------------------------------- *)
  Hypothesis Hx : 0 < a * A.
  Let x := a * A. Let y := b * B. Let p := zeta + a + b.
  (* the function whose derivative is the combination of integrands *)
  Definition H (i j : nat) (k : Z) (r : R) : R := powerRZ r k * env r * M i (2 * (a * A) * r) * M (S j) (2 * (b * B) * r).

  Lemma env_derive r : is_derive env r ((-2 * p * r + 2 * x + 2 * y) * env r).
  Proof. unfold env, p, x, y. auto_derive; [exact I|]. unfold Rminus. ring. Qed.

  Lemma powerRZ_derive k r : 0 < r -> is_derive (fun t => powerRZ t k) r (IZR k * powerRZ r (k - 1)).
  Proof.
    intros Hr. destruct k as [|n|n].
    - simpl. replace (0 * _) with 0 by ring. apply (is_derive_const (K := R_AbsRing) (V := R_NormedModule)).
    - cbn [powerRZ]. replace (Z.pos n - 1)%Z with (Z.of_nat (Pos.to_nat n - 1)) by lia.
      rewrite <- pow_powerRZ. replace (IZR (Z.pos n)) with (INR (Pos.to_nat n)) by (rewrite INR_IZR_INZ; f_equal; lia).
      auto_derive; [exact I|]. rewrite Rmult_1_l. replace (Init.Nat.pred (Pos.to_nat n)) with (Pos.to_nat n - 1)%nat by lia. ring.
    - cbn [powerRZ].
      assert (r ^ Pos.to_nat n <> 0) by (apply pow_nonzero; lra).
      auto_derive; [assumption|].
      replace (Z.neg n - 1)%Z with (Z.opp (Z.of_nat (S (Pos.to_nat n)))) by lia.
      rewrite powerRZ_neg', <- pow_powerRZ.
      replace (IZR (Z.neg n)) with (- INR (Pos.to_nat n)) by (rewrite INR_IZR_INZ, <- opp_IZR; f_equal; lia).
      destruct (Pos.to_nat n) as [|m] eqn:E; [lia|]. cbn [Init.Nat.pred pow]. rewrite S_INR.
      cbn [pow] in H0. field. repeat split; try lra. intros Z0. apply H0. rewrite Z0. ring.
  Qed.

  Lemma is_derive_mult4 (f1 f2 f3 f4 : R -> R) r d1 d2 d3 d4 :
    is_derive f1 r d1 -> is_derive f2 r d2 -> is_derive f3 r d3 -> is_derive f4 r d4 ->
    is_derive (fun t => f1 t * f2 t * f3 t * f4 t) r
      (d1 * f2 r * f3 r * f4 r + f1 r * d2 * f3 r * f4 r + f1 r * f2 r * d3 * f4 r + f1 r * f2 r * f3 r * d4).
  Proof.
    intros D1 D2 D3 D4. auto_derive.
    - repeat split; try exact I; eexists; eassumption.
    - change (Derive (fun x0 : R => f1 x0) r) with (Derive f1 r). change (Derive (fun x0 : R => f2 x0) r) with (Derive f2 r).
      change (Derive (fun x0 : R => f3 x0) r) with (Derive f3 r). change (Derive (fun x0 : R => f4 x0) r) with (Derive f4 r).
      rewrite (is_derive_unique _ _ _ D1), (is_derive_unique _ _ _ D2), (is_derive_unique _ _ _ D3), (is_derive_unique _ _ _ D4). ring.
  Qed.
  Lemma is_derive_lin (g : R -> R) c r d : is_derive g (c * r) d -> is_derive (fun t => g (c * t)) r (c * d).
  Proof.
    intros D. auto_derive.
    - repeat split; try exact I; eexists; eassumption.
    - change (Derive (fun x0 : R => g x0) (c * r)) with (Derive g (c * r)). rewrite (is_derive_unique _ _ _ D). ring.
  Qed.

  Lemma H_derive i j k r : 0 < r ->
    is_derive (H i j k) r
      (IZR (k + Z.of_nat i - Z.of_nat j - 2) * F i (S j) (k - 1) r - 2 * p * F i (S j) (k + 1) r
       + 2 * x * F (S i) (S j) k r + 2 * y * F i j k r).
  Proof.
    intros Hr. unfold H.
    assert (0 < 2 * (a * A) * r) as Hz1 by (apply Rmult_lt_0_compat; lra).
    assert (0 < 2 * (b * B) * r) as Hz2 by (apply Rmult_lt_0_compat; lra).
    pose proof (powerRZ_derive k r Hr) as D1.
    pose proof (env_derive r) as D2.
    pose proof (is_derive_lin (M i) _ _ _ (M_derive_up i _ Hz1)) as D3.
    pose proof (is_derive_lin (M (S j)) _ _ _ (M_derive_down j _ Hz2)) as D4.
    pose proof (is_derive_mult4 _ _ _ _ _ _ _ _ _ D1 D2 D3 D4) as D. cbv beta in D.
    eapply is_derive_ext_val; [exact D|]. clear D D1 D2 D3 D4.
    unfold F. fold x y.
    assert (r <> 0) as Hr0 by lra.
    replace (powerRZ r (k + 1)) with (r * r * powerRZ r (k - 1)).
    2:{ replace (k + 1)%Z with (1 + (1 + (k - 1)))%Z by lia. rewrite !powerRZ_add by assumption. rewrite powerRZ_1. ring. }
    replace (powerRZ r k) with (r * powerRZ r (k - 1)).
    2:{ replace k with (1 + (k - 1))%Z at 2 by lia. rewrite powerRZ_add by assumption. rewrite powerRZ_1. reflexivity. }
    rewrite !minus_IZR, plus_IZR, <- !INR_IZR_INZ. unfold x, y, p. match goal with |- @eq _ ?l ?r => change (@eq R l r) end. field.
    repeat split; try assumption; intros E; first [rewrite E in Hx | rewrite E in Hy]; lra.
  Qed.

  Lemma F_ex_derive i j k r : 0 < r -> ex_derive (F i j k) r.
  Proof.
    intros Hr. unfold F.
    assert (0 < 2 * (a * A) * r) as Hz1 by (apply Rmult_lt_0_compat; lra).
    assert (0 < 2 * (b * B) * r) as Hz2 by (apply Rmult_lt_0_compat; lra).
    eexists. apply (is_derive_mult4 _ _ _ _ _ _ _ _ _ (powerRZ_derive k r Hr) (env_derive r)
                      (is_derive_lin (M i) _ _ _ (M_derive_up i _ Hz1)) (is_derive_lin (M j) _ _ _ (M_derive_up j _ Hz2))).
  Qed.

  Definition G (i j : nat) (k : Z) (r : R) : R :=
    IZR (k + Z.of_nat i - Z.of_nat j - 2) * F i (S j) (k - 1) r - 2 * p * F i (S j) (k + 1) r
    + 2 * x * F (S i) (S j) k r + 2 * y * F i j k r.

  Lemma G_continuous i j k r : 0 < r -> continuous (G i j k) r.
  Proof.
    intros Hr. apply (ex_derive_continuous (K := R_AbsRing) (V := R_NormedModule)). unfold G.
    pose proof (F_ex_derive i (S j) (k - 1) r Hr). pose proof (F_ex_derive i (S j) (k + 1) r Hr).
    pose proof (F_ex_derive (S i) (S j) k r Hr). pose proof (F_ex_derive i j k r Hr).
    auto_derive. repeat split; try exact I; assumption.
  Qed.

  Lemma is_RInt_gen_lin4 (f1 f2 f3 f4 : R -> R) (c1 c2 c3 c4 l1 l2 l3 l4 : R) :
    is_RInt_gen f1 Fa (Rbar_locally p_infty) l1 -> is_RInt_gen f2 Fa (Rbar_locally p_infty) l2 ->
    is_RInt_gen f3 Fa (Rbar_locally p_infty) l3 -> is_RInt_gen f4 Fa (Rbar_locally p_infty) l4 ->
    is_RInt_gen (fun r => c1 * f1 r - c2 * f2 r + c3 * f3 r + c4 * f4 r) Fa (Rbar_locally p_infty) (c1 * l1 - c2 * l2 + c3 * l3 + c4 * l4).
  Proof.
    intros I1 I2 I3 I4.
    apply (is_RInt_gen_plus (V := R_CompleteNormedModule) (fun r => c1 * f1 r - c2 * f2 r + c3 * f3 r) (fun r => c4 * f4 r)).
    - apply (is_RInt_gen_plus (V := R_CompleteNormedModule) (fun r => c1 * f1 r - c2 * f2 r) (fun r => c3 * f3 r)).
      + apply (is_RInt_gen_minus (V := R_CompleteNormedModule) (fun r => c1 * f1 r) (fun r => c2 * f2 r)).
        * apply (is_RInt_gen_scal (V := R_CompleteNormedModule) f1 c1 l1 I1).
        * apply (is_RInt_gen_scal (V := R_CompleteNormedModule) f2 c2 l2 I2).
      + apply (is_RInt_gen_scal (V := R_CompleteNormedModule) f3 c3 l3 I3).
    - apply (is_RInt_gen_scal (V := R_CompleteNormedModule) f4 c4 l4 I4).
  Qed.

  (* the integration by parts *)
  Theorem T_rec_i i j k : (2 <= k)%Z ->
    Fa (fun u => 0 < u) ->
    filterlim (H i j k) Fa (locally 0) -> filterlim (H i j k) (Rbar_locally p_infty) (locally 0) ->
    2 * x * T (S i) (S j) k
    = IZR (2 + Z.of_nat j - Z.of_nat i - k) * T i (S j) (k - 1) + 2 * p * T i (S j) (k + 1) - 2 * y * T i j k.
  Proof.
    intros Hk HFpos L0 Linf.
    assert (filter_prod Fa (Rbar_locally p_infty) (fun ab => forall r, Rmin (fst ab) (snd ab) <= r <= Rmax (fst ab) (snd ab) -> 0 < r)) as BP.
    { exists (fun u => 0 < u) (fun v => 0 < v); [exact HFpos | exists 0; intros v Hv; exact Hv |].
      intros u v Hu Hv r. cbn [fst snd]. intros [Hr _]. unfold Rmin in Hr. destruct (Rle_dec u v); lra. }
    assert (forall r, 0 < r -> Derive (H i j k) r = G i j k r) as DG.
    { intros r Hr. apply is_derive_unique. apply H_derive. exact Hr. }
    (* (1) the integral of H' is the difference of the boundary values: 0 *)
    assert (is_RInt_gen (Derive (H i j k)) Fa (Rbar_locally p_infty) (0 - 0)) as I1.
    { apply (is_RInt_gen_Derive (H i j k) 0 0); [| | exact L0 | exact Linf].
      - revert BP. apply filter_imp. intros ab Hab r Hr. eexists. apply H_derive. apply Hab. exact Hr.
      - revert BP. apply filter_imp. intros ab Hab r Hr. pose proof (Hab r Hr) as Hr0.
        apply (continuous_ext_loc (Derive (H i j k)) (G i j k)); [| apply G_continuous; exact Hr0].
        exists (mkposreal r Hr0). intros t Ht. symmetry. apply DG.
        unfold ball in Ht; cbn in Ht. unfold AbsRing_ball, abs, minus, plus, opp in Ht. cbn in Ht.
        apply Rabs_def2 in Ht. lra. }
    (* (2) H' = G on (0, inf), and G integrates to the combination of the T's *)
    assert (is_RInt_gen (G i j k) Fa (Rbar_locally p_infty) (0 - 0)) as I2.
    { apply (is_RInt_gen_ext (Derive (H i j k))); [|exact I1].
      pose proof between_pos as BP2. revert BP2. apply filter_imp. intros ab Hab r Hr. apply DG. apply Hab. exact Hr. }
    pose proof (is_RInt_gen_lin4 _ _ _ _ (IZR (k + Z.of_nat i - Z.of_nat j - 2)) (2 * p) (2 * x) (2 * y) _ _ _ _
                  (HT i (S j) (k - 1) ltac:(lia)) (HT i (S j) (k + 1) ltac:(lia)) (HT (S i) (S j) k ltac:(lia)) (HT i j k ltac:(lia))) as I3.
    change (is_RInt_gen (G i j k) Fa (Rbar_locally p_infty)
              (IZR (k + Z.of_nat i - Z.of_nat j - 2) * T i (S j) (k - 1) - 2 * p * T i (S j) (k + 1) + 2 * x * T (S i) (S j) k + 2 * y * T i j k)) in I3.
    pose proof (is_RInt_gen_unique _ _ I2) as U2. pose proof (is_RInt_gen_unique _ _ I3) as U3.
    rewrite U2 in U3. rewrite !minus_IZR, !plus_IZR in *. lra.
  Qed.

  (* the two recurrences in the form RadialTable.case_value takes them (indices in Z, T(i, j, k) with i = l1, j = l2, k = N) *)
  Definition Tz (i j k : Z) : R := T (Z.to_nat i) (Z.to_nat j) k.

  Corollary SRj_from_integrals : forall j k, (2 <= j)%Z -> (2 <= k)%Z ->
    Tz 0 j k = Tz 0 (j - 2) k - IZR (2 * j - 1) / (2 * y) * Tz 0 (j - 1) (k - 1).
  Proof.
    intros j k Hj Hk. unfold Tz.
    replace (Z.to_nat j) with (S (S (Z.to_nat (j - 2)))) by lia.
    replace (Z.to_nat (j - 1)) with (S (Z.to_nat (j - 2))) by lia.
    rewrite T_rec_j by exact Hk. unfold y. f_equal. f_equal. f_equal.
    rewrite INR_IZR_INZ, Z2Nat.id by lia. rewrite <- mult_IZR, <- plus_IZR. f_equal. lia.
  Qed.

  Corollary SRi_from_integrals : forall i j k, (1 <= i)%Z -> (1 <= j)%Z -> (2 <= k)%Z ->
    Fa (fun u => 0 < u) ->
    filterlim (H (Z.to_nat (i - 1)) (Z.to_nat (j - 1)) k) Fa (locally 0) ->
    filterlim (H (Z.to_nat (i - 1)) (Z.to_nat (j - 1)) k) (Rbar_locally p_infty) (locally 0) ->
    Tz i j k = IZR (2 + j - i - k) / (2 * x) * Tz (i - 1) j (k - 1) - y / x * Tz (i - 1) (j - 1) k + p / x * Tz (i - 1) j (k + 1).
  Proof.
    intros i j k Hi Hj Hk HF L0 Li. unfold Tz.
    pose proof (T_rec_i (Z.to_nat (i - 1)) (Z.to_nat (j - 1)) k Hk HF L0 Li) as E.
    replace (S (Z.to_nat (i - 1))) with (Z.to_nat i) in E by lia.
    replace (S (Z.to_nat (j - 1))) with (Z.to_nat j) in E by lia.
    rewrite !Z2Nat.id in E by lia.
    replace (2 + (j - 1) - (i - 1) - k)%Z with (2 + j - i - k)%Z in E by lia.
    assert (x <> 0) as Hx0 by (unfold x; lra).
    apply Rmult_eq_reg_l with (r := 2 * x); [|lra]. rewrite E. field. exact Hx0.
  Qed.
End RadialRec.
