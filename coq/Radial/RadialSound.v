(* Soundness of the symbolic table check (C12): real-number semantics of the Laurent normal form and of the
   linear combinations, and the theorem that a table accepted by check_case reproduces ANY family T(i,j,k) that
   satisfies the base cases and the two recurrences -- at every p, x, y <> 0 -- provided the cases the recurrences
   cannot reach (verdict VUnchecked) are right. *)
From Coq Require Import ZArith QArith List Bool Reals Lra Lia Qreals.
From LV Require Import Radial.RadialSym.
Import ListNotations.
Local Open Scope R_scope.

Section Sem.
  Variables p x y : R.
  Hypothesis Hp : p <> 0.
  Hypothesis Hx : x <> 0.
  Hypothesis Hy : y <> 0.

  Definition emono (m : mono) : R := let '(a, b, c) := m in powerRZ p a * powerRZ x b * powerRZ y c.
  Definition elp (l : lpoly) : R := fold_right (fun t acc => Q2R (fst t) * emono (snd t) + acc) 0 l.
  Fixpoint ere (e : rexpr) : R :=
    match e with
    | RI n => IZR n | RP => p | RX => x | RY => y
    | RNeg a => - ere a
    | RAdd a b => ere a + ere b | RSub a b => ere a - ere b | RMul a b => ere a * ere b | RDiv a b => ere a / ere b
    end.

  Lemma emono_ne m : emono m <> 0.
  Proof. destruct m as [[a b] c]. cbn. repeat apply Rmult_integral_contrapositive_currified; apply powerRZ_NOR; assumption. Qed.
  Lemma emono_mul a b : emono (mono_mul a b) = emono a * emono b.
  Proof. destruct a as [[a1 a2] a3], b as [[b1 b2] b3]. cbn. rewrite !powerRZ_add by assumption. ring. Qed.
  Lemma emono_inv m : emono (mono_inv m) = / emono m.
  Proof.
    destruct m as [[a b] c]. cbn. rewrite !powerRZ_neg'. rewrite !Rinv_mult. reflexivity.
  Qed.
  Lemma emono_one : emono (0, 0, 0)%Z = 1.
  Proof. cbn. ring. Qed.

  Lemma mono_cmp_eq a b : mono_cmp a b = Eq -> a = b.
  Proof.
    destruct a as [[a1 a2] a3], b as [[b1 b2] b3]. cbn.
    destruct (Z.compare_spec a1 b1); try discriminate. destruct (Z.compare_spec a2 b2); try discriminate.
    intros Hc. apply Z.compare_eq in Hc. congruence.
  Qed.

  Lemma Q2R_zero c : Qeq_bool c 0 = true -> Q2R c = 0.
  Proof. intros H. apply Qeq_bool_eq in H. rewrite (Qeq_eqR _ _ H). apply RMicromega.Q2R_0. Qed.
  Lemma Q2R_red c : Q2R (Qred c) = Q2R c.
  Proof. apply Qeq_eqR. apply Qred_correct. Qed.

  Lemma ins_sound c m l : elp (ins c m l) = Q2R c * emono m + elp l.
  Proof.
    induction l as [|[c' m'] l IH]; cbn [ins].
    - destruct (Qeq_bool c 0) eqn:E; cbn [elp fold_right fst snd]; [rewrite (Q2R_zero c E); ring | rewrite Q2R_red; ring].
    - destruct (mono_cmp m m') eqn:Cm.
      + apply mono_cmp_eq in Cm. subst m'.
        destruct (Qeq_bool (Qred (c + c')) 0) eqn:E.
        * apply Q2R_zero in E. rewrite Q2R_red, Q2R_plus in E. cbn [elp fold_right fst snd]. fold (elp l).
          replace (Q2R c * emono m + (Q2R c' * emono m + elp l)) with ((Q2R c + Q2R c') * emono m + elp l) by ring.
          rewrite E. ring.
        * cbn [elp fold_right fst snd]. fold (elp l). rewrite Q2R_red, Q2R_plus. ring.
      + destruct (Qeq_bool c 0) eqn:E; cbn [elp fold_right fst snd]; fold (elp l); [rewrite (Q2R_zero c E); ring | rewrite Q2R_red; ring].
      + cbn [elp fold_right fst snd]. fold (elp l). fold (elp (ins c m l)). rewrite IH. ring.
  Qed.

  Lemma ladd_sound a b : elp (ladd a b) = elp a + elp b.
  Proof.
    unfold ladd. revert b. induction a as [|[c m] a IH]; intros b; cbn [fold_left].
    - cbn. ring.
    - rewrite IH, ins_sound. cbn [elp fold_right fst snd]. fold (elp a). ring.
  Qed.
  Lemma lscale_sound_acc c m a acc :
    elp (fold_left (fun acc t => ins (c * fst t) (mono_mul m (snd t)) acc) a acc) = Q2R c * emono m * elp a + elp acc.
  Proof.
    revert acc. induction a as [|[c' m'] a IH]; intros acc; cbn [fold_left].
    - cbn. ring.
    - rewrite IH, ins_sound, Q2R_mult, emono_mul. cbn [elp fold_right fst snd]. fold (elp a). ring.
  Qed.
  Lemma lscale_sound c m a : elp (lscale c m a) = Q2R c * emono m * elp a.
  Proof. unfold lscale. rewrite lscale_sound_acc. cbn. ring. Qed.
  Lemma lneg_sound a : elp (lneg a) = - elp a.
  Proof. unfold lneg. rewrite lscale_sound, emono_one. replace (Q2R (-1 # 1)) with (-1) by (unfold Q2R; cbn; lra). ring. Qed.
  Lemma lmul_sound a b : elp (lmul a b) = elp a * elp b.
  Proof.
    unfold lmul. assert (G : forall acc, elp (fold_left (fun acc t => ladd acc (lscale (fst t) (snd t) b)) a acc) = elp a * elp b + elp acc).
    { induction a as [|[c m] a IH]; intros acc; cbn [fold_left].
      - cbn. ring.
      - rewrite IH, ladd_sound, lscale_sound. cbn [elp fold_right fst snd]. fold (elp a). ring. }
    rewrite G. cbn. ring.
  Qed.
  Lemma qmono_sound c m : elp (qmono c m) = Q2R c * emono m.
  Proof. unfold qmono. rewrite ins_sound. cbn. ring. Qed.

  (* the normal form of a C++ coefficient expression evaluates to the expression (real division: the guard in norm
     rejects integer/integer divisions, the only place where C++ and real arithmetic differ) *)
  Lemma norm_sound e : forall l, norm e = Some l -> elp l = ere e.
  Proof.
    induction e as [n| | | |a IHa|a IHa b IHb|a IHa b IHb|a IHa b IHb|a IHa b IHb]; intros l H; cbn [norm ere] in *.
    - assert (E : l = ins (inject_Z n) (0, 0, 0)%Z []) by (injection H as <-; reflexivity). rewrite E.
      rewrite ins_sound, emono_one. unfold inject_Z, Q2R. cbn. field.
    - injection H as <-. unfold elp, emono; cbn [fold_right fst snd]. rewrite RMicromega.Q2R_1, powerRZ_1, !powerRZ_O. ring.
    - injection H as <-. unfold elp, emono; cbn [fold_right fst snd]. rewrite RMicromega.Q2R_1, powerRZ_1, !powerRZ_O. ring.
    - injection H as <-. unfold elp, emono; cbn [fold_right fst snd]. rewrite RMicromega.Q2R_1, powerRZ_1, !powerRZ_O. ring.
    - destruct (norm a) as [u|]; [|discriminate]. injection H as <-. rewrite lneg_sound, (IHa u eq_refl). reflexivity.
    - destruct (norm a) as [u|], (norm b) as [v|]; try discriminate. injection H as <-.
      rewrite ladd_sound, (IHa u eq_refl), (IHb v eq_refl). reflexivity.
    - destruct (norm a) as [u|], (norm b) as [v|]; try discriminate. injection H as <-.
      rewrite ladd_sound, lneg_sound, (IHa u eq_refl), (IHb v eq_refl). ring.
    - destruct (norm a) as [u|], (norm b) as [v|]; try discriminate. injection H as <-.
      rewrite lmul_sound, (IHa u eq_refl), (IHb v eq_refl). reflexivity.
    - destruct (int_only a && int_only b); [discriminate|].
      destruct (norm a) as [u|]; [|discriminate]. destruct (norm b) as [[|[c m] [|? ?]]|]; try discriminate.
      destruct (Qeq_bool c 0) eqn:E; [discriminate|]. injection H as <-.
      rewrite lscale_sound, emono_inv, (IHa u eq_refl), <- (IHb _ eq_refl).
      cbn [elp fold_right fst snd].
      assert (Hc : Q2R c <> 0).
      { intros Z. apply Qeq_bool_neq in E. apply E. apply eqR_Qeq. rewrite Z. symmetry. apply RMicromega.Q2R_0. }
      rewrite Q2R_inv by (intros Z; apply Qeq_bool_neq in E; contradiction).
      pose proof (emono_ne m). field. split; assumption.
  Qed.

  (* ---- linear combinations of basis integrals ---- *)
  Variable vals : basis -> R.
  Definition elc (l : lincomb) : R := fold_right (fun t acc => elp (snd t) * vals (fst t) + acc) 0 l.

  Lemma basis_eqb_eq a b : basis_eqb a b = true -> a = b.
  Proof. destruct a, b; cbn; intros H; try discriminate; try reflexivity. apply Z.eqb_eq in H. now subst. Qed.

  Lemma lc_ins_sound b c l : elc (lc_ins b c l) = elp c * vals b + elc l.
  Proof.
    induction l as [|[b' c'] l IH]; cbn [lc_ins].
    - destruct c; cbn; ring.
    - destruct (basis_eqb b b') eqn:E.
      + apply basis_eqb_eq in E. subst b'. pose proof (ladd_sound c c') as S.
        destruct (ladd c c') as [|t s] eqn:El.
        * cbn [elc fold_right fst snd]. fold (elc l). cbn in S.
          replace (elp c * vals b + (elp c' * vals b + elc l)) with ((elp c + elp c') * vals b + elc l) by ring.
          rewrite <- S. ring.
        * cbn [elc fold_right fst snd]. fold (elc l). rewrite S. ring.
      + cbn [elc fold_right fst snd]. fold (elc l). fold (elc (lc_ins b c l)). rewrite IH. ring.
  Qed.
  Lemma lc_add_sound a b : elc (lc_add a b) = elc a + elc b.
  Proof.
    unfold lc_add. revert b. induction a as [|[b0 c0] a IH]; intros b; cbn [fold_left].
    - cbn. ring.
    - rewrite IH, lc_ins_sound. cbn [elc fold_right fst snd]. fold (elc a). ring.
  Qed.
  Lemma lc_scale_sound c a : elc (lc_scale c a) = elp c * elc a.
  Proof.
    unfold lc_scale. assert (G : forall acc, elc (fold_left (fun acc t => lc_ins (fst t) (lmul c (snd t)) acc) a acc) = elp c * elc a + elc acc).
    { induction a as [|[b0 c0] a IH]; intros acc; cbn [fold_left].
      - cbn. ring.
      - rewrite IH, lc_ins_sound, lmul_sound. cbn [elc fold_right fst snd]. fold (elc a). ring. }
    rewrite G. cbn. ring.
  Qed.
  Lemma lc_eqb_sound a b : lc_eqb a b = true -> elc a = elc b.
  Proof.
    unfold lc_eqb, lc_sub. intros H.
    assert (E : elc (lc_add a (lc_scale [((-1 # 1)%Q, (0, 0, 0)%Z)] b)) = 0) by (destruct (lc_add a _); [reflexivity|discriminate]).
    rewrite lc_add_sound, lc_scale_sound in E. cbn [elp fold_right fst snd] in E. rewrite emono_one in E.
    replace (Q2R (-1 # 1)) with (-1) in E by (unfold Q2R; cbn; lra). lra.
  Qed.

  Definition ecase (c : list (basis * rexpr)) : R := fold_right (fun t acc => ere (snd t) * vals (fst t) + acc) 0 c.
  Lemma norm_case_sound c l : norm_case c = Some l -> elc l = ecase c.
  Proof.
    unfold norm_case.
    assert (G : forall acc l0, fold_left (fun acc t => match acc, norm (snd t) with Some l, Some q => Some (lc_ins (fst t) q l) | _, _ => None end) c acc = Some l0 ->
                exists a0, acc = Some a0 /\ elc l0 = ecase c + elc a0).
    { induction c as [|[b e] c IH]; intros acc l0 H; cbn [fold_left] in H.
      - exists l0. split; [exact H|]. cbn. ring.
      - apply IH in H. destruct H as (a1 & E1 & E2). destruct acc as [a0|]; [|discriminate].
        cbn [snd fst] in E1. destruct (norm e) as [q|] eqn:En; [|discriminate]. injection E1 as <-.
        exists a0. split; [reflexivity|]. rewrite E2, lc_ins_sound, (norm_sound e q En). cbn [ecase fold_right fst snd]. fold (ecase c). ring. }
    intros H. destruct (G _ _ H) as (a0 & E & ->). injection E as <-. cbn. ring.
  Qed.
End Sem.
