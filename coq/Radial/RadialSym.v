(* Symbolic side of C12: the coefficient expressions of the closed-form radial cases are
   Laurent polynomials in (p, x, y) with rational coefficients.  Normal form, evaluation to the
   reals, and the recurrence-consistency checks over the case table that translators/t_rad.py
   regenerates from src/lib/radial_gen.cpp on every run. *)
From Coq Require Import ZArith QArith List Bool.
Import ListNotations.
Local Open Scope Z_scope.

Inductive rexpr := RI (n : Z) | RP | RX | RY | RNeg (e : rexpr) | RAdd (a b : rexpr) | RSub (a b : rexpr) | RMul (a b : rexpr) | RDiv (a b : rexpr).
Inductive basis := BV (n : Z) | BG1A | BG1B | BH2.           (* values[n], G1A, G1B, H2 *)

Definition mono := (Z * Z * Z)%type.                          (* exponents of p, x, y *)
Definition lpoly := list (Q * mono).                          (* normal form: sorted by mono, no zero coefficients *)

Definition mono_cmp (a b : mono) : comparison :=
  let '(a1, a2, a3) := a in let '(b1, b2, b3) := b in
  match a1 ?= b1 with Eq => (match a2 ?= b2 with Eq => a3 ?= b3 | c => c end) | c => c end.
Definition mono_mul (a b : mono) : mono := let '(a1, a2, a3) := a in let '(b1, b2, b3) := b in (a1 + b1, a2 + b2, a3 + b3).
Definition mono_inv (a : mono) : mono := let '(a1, a2, a3) := a in (- a1, - a2, - a3).

Fixpoint ins (c : Q) (m : mono) (p : lpoly) : lpoly :=
  match p with
  | [] => if Qeq_bool c 0 then [] else [(Qred c, m)]
  | (c', m') :: p' =>
    match mono_cmp m m' with
    | Lt => if Qeq_bool c 0 then p else (Qred c, m) :: p
    | Eq => let s := Qred (c + c') in if Qeq_bool s 0 then p' else (s, m) :: p'
    | Gt => (c', m') :: ins c m p'
    end
  end.
Definition ladd (a b : lpoly) : lpoly := fold_left (fun acc t => ins (fst t) (snd t) acc) a b.
Definition lscale (c : Q) (m : mono) (a : lpoly) : lpoly := fold_left (fun acc t => ins (c * fst t) (mono_mul m (snd t)) acc) a [].
Definition lneg (a : lpoly) : lpoly := lscale (-1 # 1) (0, 0, 0) a.
Definition lmul (a b : lpoly) : lpoly := fold_left (fun acc t => ladd acc (lscale (fst t) (snd t) b)) a [].
Definition lpoly_eqb (a b : lpoly) : bool :=
  (fix go (a b : lpoly) : bool :=
     match a, b with
     | [], [] => true
     | (c, m) :: a', (c', m') :: b' => Qeq_bool c c' && (match mono_cmp m m' with Eq => true | _ => false end) && go a' b'
     | _, _ => false
     end) a b.

(* no variable below: a C++ sub-expression of integer type *)
Fixpoint int_only (e : rexpr) : bool :=
  match e with
  | RI _ => true | RP | RX | RY => false
  | RNeg a => int_only a
  | RAdd a b | RSub a b | RMul a b | RDiv a b => int_only a && int_only b
  end.

(* normalise; None when a divisor is not a monomial, or when the C++ expression would divide two integers *)
Fixpoint norm (e : rexpr) : option lpoly :=
  match e with
  | RI n => Some (ins (inject_Z n) (0, 0, 0) [])
  | RP => Some [(1%Q, (1, 0, 0))] | RX => Some [(1%Q, (0, 1, 0))] | RY => Some [(1%Q, (0, 0, 1))]
  | RNeg a => option_map lneg (norm a)
  | RAdd a b => match norm a, norm b with Some u, Some v => Some (ladd u v) | _, _ => None end
  | RSub a b => match norm a, norm b with Some u, Some v => Some (ladd u (lneg v)) | _, _ => None end
  | RMul a b => match norm a, norm b with Some u, Some v => Some (lmul u v) | _, _ => None end
  | RDiv a b =>
    if int_only a && int_only b then None
    else match norm a, norm b with
         | Some u, Some [(c, m)] => if Qeq_bool c 0 then None else Some (lscale (Qinv c) (mono_inv m) u)
         | _, _ => None
         end
  end.

(* a closed-form case as a linear combination of basis integrals with Laurent coefficients *)
Definition lincomb := list (basis * lpoly).
Definition basis_eqb (a b : basis) : bool :=
  match a, b with BV n, BV m => n =? m | BG1A, BG1A | BG1B, BG1B | BH2, BH2 => true | _, _ => false end.
Fixpoint lc_ins (b : basis) (c : lpoly) (l : lincomb) : lincomb :=
  match l with
  | [] => match c with [] => [] | _ => [(b, c)] end
  | (b', c') :: l' => if basis_eqb b b' then (match ladd c c' with [] => l' | s => (b', s) :: l' end) else (b', c') :: lc_ins b c l'
  end.
Definition lc_add (a b : lincomb) : lincomb := fold_left (fun acc t => lc_ins (fst t) (snd t) acc) a b.
Definition lc_scale (c : lpoly) (a : lincomb) : lincomb := fold_left (fun acc t => lc_ins (fst t) (lmul c (snd t)) acc) a [].
(* equality up to order *)
Definition lc_sub (a b : lincomb) : lincomb := lc_add a (lc_scale [(-1 # 1, (0, 0, 0))] b).
Definition lc_eqb (a b : lincomb) : bool := match lc_sub a b with [] => true | _ => false end.

Definition norm_case (c : list (basis * rexpr)) : option lincomb :=
  fold_left (fun acc t => match acc, norm (snd t) with Some l, Some p => Some (lc_ins (fst t) p l) | _, _ => None end) c (Some []).

(* ---- the table ---- *)
Definition key_of (i j k : Z) : Z := i * 10000 + j * 100 + k.
Definition lookup (tab : list (Z * list (basis * rexpr))) (i j k : Z) : option lincomb :=
  match find (fun c => fst c =? key_of i j k) tab with Some c => norm_case (snd c) | None => None end.
Definition in_table (tab : list (Z * list (basis * rexpr))) (i j k : Z) : bool :=
  existsb (fun c => fst c =? key_of i j k) tab.

Definition qmono (c : Q) (m : mono) : lpoly := ins c m [].
(* R_j :  T(k,0,j) = T(k,0,j-2) - (2j-1)/(2y) T(k-1,0,j-1) *)
Definition rj_rhs tab (j k : Z) : option lincomb :=
  match lookup tab 0 (j - 2) k, lookup tab 0 (j - 1) (k - 1) with
  | Some a, Some b => Some (lc_add a (lc_scale (qmono (- (2 * j - 1) # 2) (0, 0, -1)) b))
  | _, _ => None
  end.
(* R_i :  T(k,i,j) = (2+j-i-k)/(2x) T(k-1,i-1,j) - (y/x) T(k,i-1,j-1) + (p/x) T(k+1,i-1,j) *)
Definition ri_rhs tab (i j k : Z) : option lincomb :=
  match lookup tab (i - 1) j (k - 1), lookup tab (i - 1) (j - 1) k, lookup tab (i - 1) j (k + 1) with
  | Some a, Some b, Some c =>
    Some (lc_add (lc_add (lc_scale (qmono ((2 + j - i - k) # 2) (0, -1, 0)) a) (lc_scale (qmono (-1 # 1) (0, -1, 1)) b))
                 (lc_scale (qmono 1 (1, -1, 0)) c))
  | _, _, _ => None
  end.

Inductive verdict := VBase | VRj | VRi | VUnchecked | VBad.
Definition check_case tab (key : Z) : verdict :=
  let i := key / 10000 in let j := (key / 100) mod 100 in let k := key mod 100 in
  match lookup tab i j k with
  | None => VBad                                            (* does not normalise *)
  | Some c =>
    if (i =? 0) && (j =? 0) then (if lc_eqb c [(BV (k - 2), qmono 1 (0, 0, 0))] then VBase else VBad)
    else if i =? 0 then
      match rj_rhs tab j k with Some r => if lc_eqb c r then VRj else VBad | None => VUnchecked end
    else
      match ri_rhs tab i j k with Some r => if lc_eqb c r then VRi else VBad | None => VUnchecked end
  end.
Definition is_bad (v : verdict) : bool := match v with VBad => true | _ => false end.
(* largest values[] index a case touches *)
Definition max_index (c : list (basis * rexpr)) : Z := fold_left (fun m t => match fst t with BV n => Z.max m n | _ => m end) c (-1).
Definition index_ok (c : Z * list (basis * rexpr)) : bool :=
  let key := fst c in let i := key / 10000 in let k := key mod 100 in max_index (snd c) <=? k + i - 2.
