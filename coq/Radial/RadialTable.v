(* The table theorem (C12): a case table accepted by the per-run symbolic check computes T(i,j,k). *)
From Coq Require Import ZArith QArith List Bool Reals Lra Lia Qreals.
From LV Require Import Radial.RadialSym Radial.RadialSound.
Import ListNotations.
Local Open Scope Z_scope.
Ltac Zify.zify_post_hook ::= Z.div_mod_to_equations.

Definition wf_key (key : Z) : bool :=
  let i := key / 10000 in let j := (key / 100) mod 100 in let k := key mod 100 in
  (0 <=? i) && (j <=? 98) && (1 <=? k) && (k <=? 98).
Definition table_wf (tab : list (Z * list (basis * rexpr))) : bool := forallb (fun c => wf_key (fst c)) tab.
Definition table_ok (tab : list (Z * list (basis * rexpr))) : bool := forallb (fun c => negb (is_bad (check_case tab (fst c)))) tab.

Lemma decode_key i j k : 0 <= j < 100 -> 0 <= k < 100 ->
  key_of i j k / 10000 = i /\ (key_of i j k / 100) mod 100 = j /\ key_of i j k mod 100 = k.
Proof. unfold key_of. intros Hj Hk. lia. Qed.

Lemma lookup_found tab i j k l : lookup tab i j k = Some l ->
  exists c, In c tab /\ fst c = key_of i j k /\ norm_case (snd c) = Some l.
Proof.
  unfold lookup. destruct (find _ tab) as [c|] eqn:F; [|discriminate]. intros H.
  apply find_some in F. destruct F as [Hin He]. apply Z.eqb_eq in He. exists c. auto.
Qed.

Section Table.
  Local Open Scope R_scope.
  Variables p x y : R.
  Hypothesis Hp : p <> 0.
  Hypothesis Hx : x <> 0.
  Hypothesis Hy : y <> 0.
  Variable vals : basis -> R.            (* the base integrals values[n], G1A, G1B, H2 *)
  Variable Tf : Z -> Z -> Z -> R.        (* the radial integrals T(i = l1, j = l2, k = N) *)
  Local Notation elc := (elc p x y vals).
  Local Notation elp := (elp p x y).

  (* what the closed-form scheme is derived from *)
  Hypothesis Sbase : forall k, (1 <= k)%Z -> Tf 0 0 k = vals (BV (k - 2)).
  Hypothesis SRj : forall j k, (2 <= j)%Z -> (2 <= k)%Z ->
    Tf 0 j k = Tf 0 (j - 2) k - IZR (2 * j - 1) / (2 * y) * Tf 0 (j - 1) (k - 1).
  Hypothesis SRi : forall i j k, (1 <= i)%Z -> (1 <= j)%Z -> (2 <= k)%Z ->
    Tf i j k = IZR (2 + j - i - k) / (2 * x) * Tf (i - 1) j (k - 1) - y / x * Tf (i - 1) (j - 1) k + p / x * Tf (i - 1) j (k + 1).

  Variable tab : list (Z * list (basis * rexpr)).
  Hypothesis Hwf : table_wf tab = true.
  Hypothesis Hok : table_ok tab = true.
  (* the cases no recurrence reaches are taken as right (they are compared numerically) *)
  Hypothesis Hanchor : forall i j k l, (0 <= j < 100)%Z -> (0 <= k < 100)%Z ->
    check_case tab (key_of i j k) = VUnchecked -> lookup tab i j k = Some l -> elc l = Tf i j k.

  Lemma powerRZ_m1 z : powerRZ z (-1) = / z.
  Proof. change (-1)%Z with (Z.opp 1). rewrite powerRZ_neg', powerRZ_1. reflexivity. Qed.
  Lemma e_m1 : emono p x y (0, -1, 0)%Z = / x. Proof. unfold emono. rewrite !powerRZ_O, powerRZ_m1. ring. Qed.
  Lemma e_m2 : emono p x y (0, 0, -1)%Z = / y. Proof. unfold emono. rewrite !powerRZ_O, powerRZ_m1. ring. Qed.
  Lemma e_m3 : emono p x y (0, -1, 1)%Z = y / x. Proof. unfold emono. rewrite !powerRZ_O, powerRZ_m1, powerRZ_1. unfold Rdiv. ring. Qed.
  Lemma e_m4 : emono p x y (1, -1, 0)%Z = p / x. Proof. unfold emono. rewrite !powerRZ_O, powerRZ_m1, powerRZ_1. unfold Rdiv. ring. Qed.
  Lemma Q2R_half n : Q2R (n # 2) = IZR n / 2.
  Proof. unfold Q2R. cbn [Qnum Qden]. reflexivity. Qed.

  Lemma found_wf c : In c tab -> wf_key (fst c) = true.
  Proof. intros H. unfold table_wf in Hwf. rewrite forallb_forall in Hwf. now apply Hwf. Qed.
  Lemma found_ok c : In c tab -> is_bad (check_case tab (fst c)) = false.
  Proof. intros H. unfold table_ok in Hok. rewrite forallb_forall in Hok. apply negb_true_iff. now apply Hok. Qed.

  Theorem table_sound : forall n i j k l, (0 <= i)%Z -> (0 <= j < 100)%Z -> (0 <= k < 100)%Z -> (Z.to_nat (i + j) <= n)%nat ->
    lookup tab i j k = Some l -> elc l = Tf i j k.
  Proof.
    induction n as [|n IH]; intros i j k l Hi Hj Hk Hn Hl.
    - (* i = j = 0 *)
      assert (i = 0%Z /\ j = 0%Z) as [-> ->] by lia. clear Hn.
      destruct (lookup_found _ _ _ _ _ Hl) as (c & Hin & Hkey & Hnc).
      pose proof (found_ok c Hin) as Ok. rewrite Hkey in Ok. unfold check_case in Ok.
      destruct (decode_key 0 0 k ltac:(lia) Hk) as (D1 & D2 & D3). rewrite D1, D2, D3, Hl in Ok. cbn [Z.eqb andb] in Ok.
      destruct (lc_eqb l _) eqn:E; [|discriminate]. apply (lc_eqb_sound p x y Hp Hx Hy vals) in E. rewrite E.
      pose proof (found_wf c Hin) as Wc. rewrite Hkey in Wc. unfold wf_key in Wc. rewrite D1, D2, D3 in Wc.
      cbn [RadialSound.elc fold_right fst snd]. rewrite qmono_sound, emono_one, RMicromega.Q2R_1, Sbase by lia. ring.
    - destruct (lookup_found _ _ _ _ _ Hl) as (c & Hin & Hkey & Hnc).
      pose proof (found_ok c Hin) as Ok. rewrite Hkey in Ok.
      destruct (check_case tab (key_of i j k)) eqn:V; try discriminate; try (now apply (Hanchor i j k l Hj Hk V Hl)); clear Ok;
        unfold check_case in V; destruct (decode_key i j k Hj Hk) as (D1 & D2 & D3); rewrite D1, D2, D3, Hl in V.
      + (* VBase *)
        destruct ((i =? 0)%Z && (j =? 0)%Z) eqn:B.
        * apply andb_true_iff in B. destruct B as [Bi Bj]. apply Z.eqb_eq in Bi, Bj. subst i j.
          destruct (lc_eqb l _) eqn:E; [|discriminate]. apply (lc_eqb_sound p x y Hp Hx Hy vals) in E. rewrite E.
          pose proof (found_wf c Hin) as Wc. rewrite Hkey in Wc. unfold wf_key in Wc. rewrite D1, D2, D3 in Wc.
          cbn [RadialSound.elc fold_right fst snd]. rewrite qmono_sound, emono_one, RMicromega.Q2R_1, Sbase by lia. ring.
        * destruct (i =? 0)%Z; [destruct (rj_rhs tab j k) as [r|]; [destruct (lc_eqb l r)|]|destruct (ri_rhs tab i j k) as [r|]; [destruct (lc_eqb l r)|]]; discriminate.
      + (* VRj *)
        destruct ((i =? 0)%Z && (j =? 0)%Z) eqn:B; [destruct (lc_eqb l _); discriminate|].
        destruct (Z.eqb_spec i 0) as [->|Hi0]; [|destruct (ri_rhs tab i j k) as [r|]; [destruct (lc_eqb l r)|]; discriminate].
        cbn [andb] in B. apply Z.eqb_neq in B.
        unfold rj_rhs in V. destruct (lookup tab 0 (j - 2) k) as [a|] eqn:La; [|discriminate].
        destruct (lookup tab 0 (j - 1) (k - 1)) as [b|] eqn:Lb; [|discriminate].
        destruct (lc_eqb l _) eqn:E; [|discriminate]. apply (lc_eqb_sound p x y Hp Hx Hy vals) in E. rewrite E.
        rewrite lc_add_sound, lc_scale_sound, qmono_sound, e_m2 by assumption.
        pose proof (found_wf c Hin) as Wc. rewrite Hkey in Wc. unfold wf_key in Wc. rewrite D1, D2, D3 in Wc.
        assert (Hk1 : (1 <= k <= 98)%Z) by lia.
        (* j = 1 would need a case with a negative key *)
        assert (Hj2 : (2 <= j)%Z).
        { destruct (Z_lt_le_dec j 2) as [Hlt|]; [|assumption]. exfalso.
          destruct (lookup_found _ _ _ _ _ La) as (ca & Hina & Hka & _). pose proof (found_wf ca Hina) as Wa.
          rewrite Hka in Wa. unfold wf_key, key_of in Wa. lia. }
        (* k = 1 would need a case with k = 0 *)
        assert (Hk2 : (2 <= k)%Z).
        { destruct (Z_lt_le_dec k 2) as [Hlt|]; [|assumption]. exfalso.
          destruct (lookup_found _ _ _ _ _ Lb) as (cb & Hinb & Hkb & _). pose proof (found_wf cb Hinb) as Wb.
          rewrite Hkb in Wb. unfold wf_key, key_of in Wb. lia. }
        rewrite (IH 0%Z (j - 2)%Z k a) by (assumption || lia).
        rewrite (IH 0%Z (j - 1)%Z (k - 1)%Z b) by (assumption || lia).
        rewrite (SRj j k Hj2 Hk2). rewrite Q2R_half, opp_IZR. field. assumption.
      + (* VRi *)
        destruct ((i =? 0)%Z && (j =? 0)%Z) eqn:B; [destruct (lc_eqb l _); discriminate|].
        destruct (Z.eqb_spec i 0) as [->|Hi0]; [destruct (rj_rhs tab j k) as [r|]; [destruct (lc_eqb l r)|]; discriminate|].
        unfold ri_rhs in V. destruct (lookup tab (i - 1) j (k - 1)) as [a|] eqn:La; [|discriminate].
        destruct (lookup tab (i - 1) (j - 1) k) as [b|] eqn:Lb; [|discriminate].
        destruct (lookup tab (i - 1) j (k + 1)) as [c'|] eqn:Lc; [|discriminate].
        destruct (lc_eqb l _) eqn:E; [|discriminate]. apply (lc_eqb_sound p x y Hp Hx Hy vals) in E. rewrite E.
        rewrite !lc_add_sound, !lc_scale_sound, !qmono_sound, e_m1, e_m3, e_m4 by assumption.
        pose proof (found_wf c Hin) as Wc. rewrite Hkey in Wc. unfold wf_key in Wc. rewrite D1, D2, D3 in Wc.
        assert (Hk1 : (1 <= k <= 98)%Z) by lia.
        assert (Hk2 : (2 <= k)%Z).
        { destruct (Z_lt_le_dec k 2) as [Hlt|]; [|assumption]. exfalso.
          destruct (lookup_found _ _ _ _ _ La) as (ca & Hina & Hka & _). pose proof (found_wf ca Hina) as Wa.
          rewrite Hka in Wa. unfold wf_key, key_of in Wa. lia. }
        assert (Hj1 : (1 <= j)%Z).
        { destruct (Z_lt_le_dec j 1) as [Hlt|]; [|assumption]. exfalso.
          destruct (lookup_found _ _ _ _ _ Lb) as (cb & Hinb & Hkb & _). pose proof (found_wf cb Hinb) as Wb.
          rewrite Hkb in Wb. unfold wf_key, key_of in Wb. lia. }
        rewrite (IH (i - 1)%Z j (k - 1)%Z a) by (assumption || lia).
        rewrite (IH (i - 1)%Z (j - 1)%Z k b) by (assumption || lia).
        rewrite (IH (i - 1)%Z j (k + 1)%Z c') by (assumption || lia).
        rewrite (SRi i j k ltac:(lia) Hj1 Hk2). rewrite Q2R_half, RMicromega.Q2R_1.
        replace (Q2R (-1 # 1)) with (-1) by (unfold Q2R; cbn; lra). field. assumption.
  Qed.

  (* in terms of the source text: the value the switch computes for (i,j,k) in exact arithmetic -- the sum over the
     case's statements of coefficient expression x base integral -- is T(i,j,k) *)
  Corollary case_value i j k c : (0 <= i)%Z -> (0 <= j < 100)%Z -> (0 <= k < 100)%Z ->
    find (fun c => (fst c =? key_of i j k)%Z) tab = Some c ->
    ecase p x y vals (snd c) = Tf i j k.
  Proof.
    intros Hi Hj Hk F. pose proof F as F'. apply find_some in F'. destruct F' as [Hin He]. apply Z.eqb_eq in He.
    pose proof (found_ok c Hin) as Ok. rewrite He in Ok. unfold check_case in Ok.
    destruct (decode_key i j k Hj Hk) as (D1 & D2 & D3). rewrite D1, D2, D3 in Ok.
    destruct (lookup tab i j k) as [l|] eqn:L; [|discriminate]. clear Ok.
    assert (Hn : norm_case (snd c) = Some l) by (unfold lookup in L; rewrite F in L; exact L).
    rewrite <- (norm_case_sound p x y Hp Hx Hy vals _ _ Hn).
    apply (table_sound (Z.to_nat (i + j)) i j k l); (assumption || lia).
  Qed.
End Table.
