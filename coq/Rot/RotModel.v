(* C08: how products of Cartesian monomials transform under a linear map r -> R r.
   expand R k l m is the polynomial (R0.r)^k (R1.r)^l (R2.r)^m as an (uncollected) list of terms;
   the harness transforms integral blocks with exactly these term lists. *)
From Coq Require Import List Arith ZArith PeanoNat.
From LV Require Import Base.NumOps.
Import ListNotations.

Section Rot.
  Context {T : Type} (o : NumOps T).
  Definition term := (T * (nat * nat * nat))%type.
  Definition pmul (p q : list term) : list term :=
    flat_map (fun t => map (fun s => (nmul o (fst t) (fst s),
                                     (let '(i, j, k) := snd t in let '(i', j', k') := snd s in (i + i', j + j', k + k')))) q) p.
  Fixpoint ppow (p : list term) (n : nat) : list term :=
    match n with O => [(n1 o, (0, 0, 0))] | S n' => pmul p (ppow p n') end.
  Definition lin (row : T * T * T) : list term :=
    let '(a, b, c) := row in [(a, (1, 0, 0)); (b, (0, 1, 0)); (c, (0, 0, 1))].
  Definition expand (R : (T * T * T) * (T * T * T) * (T * T * T)) (k l m : nat) : list term :=
    let '(r0, r1, r2) := R in pmul (ppow (lin r0) k) (pmul (ppow (lin r1) l) (ppow (lin r2) m)).
End Rot.
