From Coq Require Import List Arith ZArith PeanoNat Reals Lra Lia.
From LV Require Import Base.NumOps Base.RInst Rot.RotModel.
Import ListNotations.
Local Open Scope R_scope.

Definition mono (r : R * R * R) (e : nat * nat * nat) : R :=
  let '(x, y, z) := r in let '(i, j, k) := e in x ^ i * y ^ j * z ^ k.
Definition peval (p : list (term (T:=R))) (r : R * R * R) : R := fold_right (fun t acc => fst t * mono r (snd t) + acc) 0 p.

Lemma peval_app p q r : peval (p ++ q) r = peval p r + peval q r.
Proof. unfold peval. induction p as [|t p IH]; cbn [app fold_right]; [lra|]. rewrite IH. lra. Qed.

Lemma mono_add r e f : mono r (let '(i, j, k) := e in let '(i', j', k') := f in (i + i', j + j', k + k')%nat) = mono r e * mono r f.
Proof. destruct r as [[x y] z], e as [[i j] k], f as [[i' j'] k']. cbn [mono]. rewrite !pow_add. ring. Qed.

Lemma peval_scale_term t q r :
  peval (map (fun s => (nmul ROps (fst t) (fst s), (let '(i, j, k) := snd t in let '(i', j', k') := snd s in (i + i', j + j', k + k')%nat))) q) r
  = fst t * mono r (snd t) * peval q r.
Proof.
  unfold peval. induction q as [|s q IH]; cbn [map fold_right]; [lra|].
  rewrite IH. cbn [fst snd nmul ROps]. rewrite (mono_add r (snd t) (snd s)). ring.
Qed.

Lemma peval_pmul p q r : peval (pmul ROps p q) r = peval p r * peval q r.
Proof.
  unfold pmul. induction p as [|t p IH]; cbn [flat_map]; [unfold peval; cbn; lra|].
  rewrite peval_app, IH, peval_scale_term. change (peval (t :: p) r) with (fst t * mono r (snd t) + peval p r). ring.
Qed.

Lemma peval_ppow p n r : peval (ppow ROps p n) r = peval p r ^ n.
Proof.
  induction n as [|n IH]; cbn [ppow pow].
  - unfold peval. cbn. destruct r as [[x y] z]. cbn. lra.
  - now rewrite peval_pmul, IH.
Qed.

Lemma peval_lin row r : peval (lin row) r = (let '(a, b, c) := row in let '(x, y, z) := r in a * x + b * y + c * z).
Proof. destruct row as [[a b] c], r as [[x y] z]. unfold peval. cbn. ring. Qed.

(* the rotated monomial is the evaluation of the expanded term list, for every real 3x3 matrix and all exponents *)
Theorem expand_correct (Rm : (R * R * R) * (R * R * R) * (R * R * R)) (k l m : nat) (r : R * R * R) :
  let '(r0, r1, r2) := Rm in let '(x, y, z) := r in
  let dot := fun row : R * R * R => let '(a, b, c) := row in a * x + b * y + c * z in
  peval (expand ROps Rm k l m) r = dot r0 ^ k * dot r1 ^ l * dot r2 ^ m.
Proof.
  destruct Rm as [[r0 r1] r2], r as [[x y] z]. cbn zeta. unfold expand.
  rewrite !peval_pmul, !peval_ppow, !peval_lin. destruct r0 as [[a b] c], r1 as [[a1 b1] c1], r2 as [[a2 b2] c2]. ring.
Qed.

(* every term of the expansion has total degree k+l+m: it indexes the same shell *)
Definition tdeg (t : term (T:=R)) : nat := let '(i, j, k) := snd t in (i + j + k)%nat.
Lemma pmul_deg p q a b : Forall (fun t => tdeg t = a) p -> Forall (fun t => tdeg t = b) q -> Forall (fun t => tdeg t = (a + b)%nat) (pmul ROps p q).
Proof.
  intros Hp Hq. unfold pmul. apply Forall_forall. intros t Ht. apply in_flat_map in Ht. destruct Ht as (u & Hu & Ht).
  apply in_map_iff in Ht. destruct Ht as (s & <- & Hs).
  rewrite Forall_forall in Hp, Hq. specialize (Hp _ Hu). specialize (Hq _ Hs).
  unfold tdeg in *. cbn [snd]. destruct (snd u) as [[i j] k], (snd s) as [[i' j'] k']. lia.
Qed.
Lemma ppow_deg p n : Forall (fun t => tdeg t = 1%nat) p -> Forall (fun t => tdeg t = n) (ppow ROps p n).
Proof.
  intros H. induction n as [|n IH]; cbn [ppow]; [repeat constructor|].
  replace (S n) with (1 + n)%nat by lia. now apply pmul_deg.
Qed.
Theorem expand_degree (Rm : (R * R * R) * (R * R * R) * (R * R * R)) (k l m : nat) : Forall (fun t => tdeg t = (k + l + m)%nat) (expand ROps Rm k l m).
Proof.
  destruct Rm as [[r0 r1] r2]. unfold expand.
  assert (L : forall row, Forall (fun t => tdeg t = 1%nat) (lin (T:=R) row)) by (intros [[a b] c]; repeat constructor).
  replace (k + l + m)%nat with (k + (l + m))%nat by lia.
  apply pmul_deg; [apply ppow_deg, L|]. apply pmul_deg; apply ppow_deg, L.
Qed.
