(* Model of ECPIntegral::estimate_type2 (src/lib/ecpint.cpp): the per-angular-momentum screening estimate of a shell pair,
   results[l] = (2l+1)^2 * a_bound * b_bound * ab_bound, compared with the tolerance 1e-12 by compute_shell_pair (for the pair itself and
   for every shifted / exponent-weighted pair the derivative routines build).  Generic over the numeric dictionary; the extracted form must
   reproduce the library's values (C06 correspondence), so that a changed formula is a violation whatever it is attributed to.
   Inputs: LA, LB; A2 = |A-C|^2, B2, Am = |A-C|, Bm; for each shell its min_exp and its primitives (exponent, coefficient);
   for the channel l: min_exp_l[l] and the primitives (exponent, coefficient) of that channel.  euler = M_EULER, sinh1 = SINH_1. *)
From Coq Require Import List Arith ZArith PeanoNat Bool.
From LV Require Import Base.NumOps.
Import ListNotations.

Section PairEstimate.
  Context {T : Type} (o : NumOps T).
  Local Notation "a +! b" := (nadd o a b) (at level 50, left associativity).
  Local Notation "a -! b" := (nsub o a b) (at level 50, left associativity).
  Local Notation "a *! b" := (nmul o a b) (at level 40, left associativity).
  Local Notation "a /! b" := (ndiv o a b) (at level 40, left associativity).
  Let ofN (n : nat) := nofZ o (Z.of_nat n).
  Variables euler sinh1 pi : T.

  Fixpoint ppow (x : T) (n : nat) : T := match n with O => n1 o | S n' => x *! ppow x n' end.

  (* sigma of one shell: on the centre (squared distance below 1e-6) or off it *)
  Definition sigma_of (L : nat) (D2 minexp min_eta : T) : T :=
    let an := minexp +! min_eta in
    let n2 := min_eta *! min_eta in
    if nltb o D2 (ndec o 1 (-6)) then ndec o 5 (-1) *! an /! minexp
    else ndec o 5 (-1) *! ofN L *! an *! an /! (minexp *! (n2 *! D2 +! ofN L *! an)).

  Definition shell_sum (L : nat) (N0 sigma : T) (prims : list (T * T)) : T :=
    fold_left (fun acc p => acc +! ppow (nsqrt o (N0 /! (fst p *! sigma))) L *! nabs o (snd p)) prims (n0 o).

  Definition pair_estimate (LA LB : nat) (A2 B2 Am Bm minA minB : T) (pA pB : list (T * T)) (l : nat) (min_eta : T) (gs : list (T * T)) : T :=
    let Na0 := ndec o 5 (-1) *! ofN LA /! euler in
    let Nb0 := ndec o 5 (-1) *! ofN LB /! euler in
    let sa := sigma_of LA A2 minA min_eta in
    let sb := sigma_of LB B2 minB min_eta in
    let atilde := (n1 o -! sa) *! minA in
    let btilde := (n1 o -! sb) *! minB in
    let a_bound := shell_sum LA Na0 sa pA in
    let b_bound := shell_sum LB Nb0 sb pB in
    let Tk0 := nofZ o 2 *! atilde *! btilde *! Am *! Bm in
    let xp := atilde *! atilde *! A2 +! btilde *! btilde *! B2 in
    let x0 := atilde *! A2 +! btilde *! B2 in
    let ab_bound := fold_left (fun acc g =>
        let zt := atilde +! btilde +! fst g in
        let Tk := Tk0 /! zt in
        let Tk' := if nltb o (n1 o) Tk then ndec o 5 (-1) *! nexp o (Tk +! xp /! zt -! x0) /! Tk
                   else sinh1 *! nexp o (xp /! zt -! x0) in
        acc +! nabs o (snd g) *! ppow (nsqrt o (pi /! fst g)) 3 *! Tk') gs (n0 o) in
    ofN ((2 * l + 1) * (2 * l + 1)) *! a_bound *! b_bound *! ab_bound.
End PairEstimate.
