(* The per-l shell-pair screening estimate is symmetric under exchange of the two shells (with their data): the screen takes the same
   decision for (A,B) and (B,A), so it cannot break the exchange symmetry of the blocks (C07) - over the reals, for every input. *)
From Coq Require Import Reals List ZArith Lra.
From LV Require Import Base.NumOps Base.RInst ShellPair.PairEstimate.
Import ListNotations.
Local Open Scope R_scope.

Lemma fold_left_ext_R {A} (f g : R -> A -> R) (l : list A) (a : R) :
  (forall acc x, f acc x = g acc x) -> fold_left f l a = fold_left g l a.
Proof. intros H. revert a. induction l as [|x l IH]; intros a; cbn [fold_left]; [reflexivity|]. rewrite H. apply IH. Qed.

Theorem pair_estimate_swap (euler sinh1 pi_ : R) LA LB A2 B2 Am Bm minA minB pA pB l min_eta gs :
  pair_estimate ROps euler sinh1 pi_ LA LB A2 B2 Am Bm minA minB pA pB l min_eta gs
  = pair_estimate ROps euler sinh1 pi_ LB LA B2 A2 Bm Am minB minA pB pA l min_eta gs.
Proof.
  unfold pair_estimate. cbn zeta.
  set (sa := sigma_of ROps LA A2 minA min_eta). set (sb := sigma_of ROps LB B2 minB min_eta).
  set (SA := shell_sum ROps LA _ sa pA). set (SB := shell_sum ROps LB _ sb pB).
  cbn [nmul nadd nsub ndiv n1 n0 nofZ ROps].
  match goal with |- _ * ?X = _ * ?Y => assert (X = Y) as E end.
  { set (at_ := (1 - sa) * minA). set (bt := (1 - sb) * minB).
    apply fold_left_ext_R. intros acc g.
    replace (2 * bt * at_ * Bm * Am) with (2 * at_ * bt * Am * Bm) by ring.
    replace (bt + at_ + fst g) with (at_ + bt + fst g) by ring.
    replace (bt * bt * B2 + at_ * at_ * A2) with (at_ * at_ * A2 + bt * bt * B2) by ring.
    replace (bt * B2 + at_ * A2) with (at_ * A2 + bt * B2) by ring.
    reflexivity. }
  rewrite E. ring.
Qed.
