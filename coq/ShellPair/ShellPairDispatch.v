(* C07: the whole type-2 dispatch of the shell-pair model is symmetric under exchange of the two shells. *)
From Coq Require Import List Arith ZArith PeanoNat Bool Reals Lra Lia FunctionalExtensionality.
From LV Require Import Base.NumOps Base.RInst Base.Cart Angular.AngularModel.
From LV Require Import ShellPair.ShellPairModel ShellPair.ShellPairScreen ShellPair.ShellPairSym.
Import ListNotations.
Local Open Scope R_scope.

Section Disp.
  Variable pi_ : R.
  Variable Om : nat -> nat -> nat -> nat -> Z -> nat -> Z -> R.
  Variable gamma : nat -> R.

  (* both shells on the ECP centre *)
  Lemma t2_both_swap lam LA LB pA pB (pU : list (Z * nat * R * R)) fa fb mu :
    t2_both ROps pi_ Om gamma lam LA LB pA pB pU fa fb mu = t2_both ROps pi_ Om gamma lam LB LA pB pA pU fb fa mu.
  Proof.
    unfold t2_both. destruct fa as [[x1 r1] z1], fb as [[x2 y2] z2].
    cbn [nmul nofZ ROps].
    assert (E : forall acc,
      fold_left (fun acc g => let '(nC, l, zC, dC) := g in
        if (l =? lam)%nat then fold_left (fun acc pa => fold_left (fun acc pb =>
            nadd ROps acc (nmul ROps (nmul ROps (nmul ROps (nmul ROps (nmul ROps (ndec ROps 5 (-1)) (snd pa)) (snd pb)) dC) (gamma (Z.to_nat (2 + Z.of_nat LA + Z.of_nat LB + nC))))
                 (tpow ROps (ndiv ROps (n1 ROps) (nsqrt ROps (nadd ROps (nadd ROps (fst pa) (fst pb)) zC))) (Z.to_nat (2 + Z.of_nat LA + Z.of_nat LB + nC) + 1)))) pB acc) pA acc
        else acc) pU acc
      = fold_left (fun acc g => let '(nC, l, zC, dC) := g in
        if (l =? lam)%nat then fold_left (fun acc pb => fold_left (fun acc pa =>
            nadd ROps acc (nmul ROps (nmul ROps (nmul ROps (nmul ROps (nmul ROps (ndec ROps 5 (-1)) (snd pb)) (snd pa)) dC) (gamma (Z.to_nat (2 + Z.of_nat LB + Z.of_nat LA + nC))))
                 (tpow ROps (ndiv ROps (n1 ROps) (nsqrt ROps (nadd ROps (nadd ROps (fst pb) (fst pa)) zC))) (Z.to_nat (2 + Z.of_nat LB + Z.of_nat LA + nC) + 1)))) pA acc) pB acc
        else acc) pU acc).
    { induction pU as [|[[[nC l] zC] dC] pU IH]; intros acc; cbn [fold_left]; [reflexivity|].
      destruct (l =? lam)%nat; [|apply IH].
      set (h := fun (pa pb : R * R) => nmul ROps (nmul ROps (nmul ROps (nmul ROps (nmul ROps (ndec ROps 5 (-1)) (snd pa)) (snd pb)) dC) (gamma (Z.to_nat (2 + Z.of_nat LA + Z.of_nat LB + nC))))
                 (tpow ROps (ndiv ROps (n1 ROps) (nsqrt ROps (nadd ROps (nadd ROps (fst pa) (fst pb)) zC))) (Z.to_nat (2 + Z.of_nat LA + Z.of_nat LB + nC) + 1))).
      rewrite (fold_nested _ (fun pa => Rsum (map (fun pb => h pa pb) pB))).
      2:{ intros pa a. rewrite (fold_nested _ (fun pb => h pa pb)); [reflexivity|]. intros pb a'. reflexivity. }
      rewrite (fold_nested _ (fun pb => Rsum (map (fun pa => h pa pb) pA))).
      2:{ intros pb a. rewrite (fold_nested _ (fun pa => h pa pb)); [reflexivity|]. intros pa a'. unfold h. cbn [nadd nmul ndiv nsqrt n1 ndec ROps].
          replace (2 + Z.of_nat LB + Z.of_nat LA + nC)%Z with (2 + Z.of_nat LA + Z.of_nat LB + nC)%Z by lia.
          replace (fst pb + fst pa) with (fst pa + fst pb) by ring. ring. }
      rewrite Rsum_swap. apply IH. }
    rewrite E. match goal with |- ?a * ?F1 = ?b * ?F2 => change F2 with F1; f_equal end. ring.
  Qed.

  (* the dispatch: exchanging the shells (with their harmonics, primitive lists, on-centre flags and the radial tables as the
     library stores them for the exchanged call) gives the same value for every lambda, mu and pair of Cartesian functions *)
  Theorem pair_t2_swap onA onB LA LB pA pB pU (SA SB : nat -> Z -> R) (radq radg radq' radg' : nat -> nat -> nat -> R) lam fa fb A B mu :
    (forall N l1 l2, radq' N l1 l2 = radq N l2 l1) ->
    (if (LA =? LB)%nat then forall N l1 l2, radg' N l1 l2 = radg N l2 l1 else forall N l1 l2, radg' N l1 l2 = radg N l1 l2) ->
    pair_t2 ROps pi_ Om gamma onA onB LA LB pA pB pU SA SB radq radg lam fa fb A B mu
    = pair_t2 ROps pi_ Om gamma onB onA LB LA pB pA pU SB SA radq' radg' lam fb fa B A mu.
  Proof.
    intros Hq Hg. unfold pair_t2.
    assert (Eq1 : (fun N l1 l2 => radq' N l2 l1) = radq) by (extensionality N; extensionality l1; extensionality l2; apply Hq).
    assert (Eq2 : radq' = (fun N l1 l2 => radq N l2 l1)) by (extensionality N; extensionality l1; extensionality l2; apply Hq).
    destruct onA, onB; cbn [andb].
    - apply t2_both_swap.
    - rewrite Eq1. reflexivity.
    - rewrite Eq2. reflexivity.
    - destruct (Nat.eqb_spec LA LB) as [->|Hne].
      + rewrite Nat.leb_refl.
        assert (Eg : (fun N l1 l2 => radg N l2 l1) = radg') by (extensionality N; extensionality l1; extensionality l2; symmetry; apply Hg).
        rewrite <- Eg. apply rolled_up_swap.
      + assert (Eg : radg' = radg) by (extensionality N; extensionality l1; extensionality l2; apply Hg). rewrite Eg.
        destruct (Nat.leb_spec LA LB), (Nat.leb_spec LB LA); try lia; reflexivity.
  Qed.
End Disp.
