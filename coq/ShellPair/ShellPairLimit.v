(* C01: the three type-2 branches of compute_shell_pair are consistent with one another.
   rolled_up_special (one shell on the ECP centre) IS rolled_up evaluated with the leaves that shell has on the centre:
   shift A = 0 (so makeC's coefficients are a Kronecker delta), SA(l,m) = [l = 0]/sqrt(4 pi) (a constant harmonic), and a
   radial table that vanishes for l1 > 0 (M_l(0) = [l = 0]).  And the both-on-centre closed form t2_both is
   rolled_up_special with the second shell on the centre as well, provided the radial entry (N,0,0) is the
   Gaussian-moment sum the closed form writes out. *)
From Coq Require Import List Arith ZArith PeanoNat Bool Reals Lra Lia.
From LV Require Import Base.NumOps Base.RInst Base.Cart Angular.AngularModel ShellPair.ShellPairModel.
From LV Require Import ShellPair.ShellPairScreen ShellPair.ShellPairSym ShellPair.ShellPairProofs.
Import ListNotations.
Local Open Scope R_scope.

(* ---- sums (kept local: this file precedes GenCode) ---- *)
Lemma Rsum_flat_map' {A B} (f : B -> R) (g : A -> list B) l :
  Rsum (map f (flat_map g l)) = Rsum (map (fun x => Rsum (map f (g x))) l).
Proof.
  induction l as [|x l IH]; cbn [flat_map map]; [reflexivity|].
  rewrite map_app, Rsum_app, IH. unfold Rsum at 3. cbn [fold_right]. reflexivity.
Qed.
Lemma Rsum_all_zero' {A} (f : A -> R) l : (forall x, In x l -> f x = 0) -> Rsum (map f l) = 0.
Proof. intros H. rewrite (Rsum_ext f (fun _ => 0) l H). apply Rsum_zero. Qed.
Lemma Rsum_scal' {A} c (f : A -> R) l : c * Rsum (map f l) = Rsum (map (fun x => c * f x) l).
Proof. unfold Rsum. induction l as [|x l IH]; cbn [map fold_right]; [lra|]. rewrite <- IH. lra. Qed.
(* a sum over 0..n of a function that vanishes below n *)
Lemma Rsum_upto_last (f : nat -> R) n : (forall i, (i < n)%nat -> f i = 0) -> Rsum (map f (upto n)) = f n.
Proof.
  intros H. unfold upto. rewrite seq_S, map_app, Rsum_app. cbn [map Nat.add]. unfold Rsum at 2. cbn [fold_right].
  rewrite Rsum_all_zero'; [lra|]. intros i Hi. apply in_seq in Hi. apply H. lia.
Qed.
(* a sum over 0..n of a function that vanishes above 0 *)
Lemma Rsum_upto_first (f : nat -> R) n : (forall i, (0 < i)%nat -> f i = 0) -> Rsum (map f (upto n)) = f 0%nat.
Proof.
  intros H. unfold upto. cbn [seq map]. unfold Rsum. cbn [fold_right]. fold (Rsum (map f (seq 1 n))).
  rewrite Rsum_all_zero'; [lra|]. intros i Hi. apply in_seq in Hi. apply H. lia.
Qed.

(* ---- makeC at zero shift ---- *)
Lemma zfact_pos n : (0 < zfact n)%Z.
Proof. induction n as [|n IH]; cbn [zfact]; [lia | apply Z.mul_pos_pos; lia]. Qed.
Lemma calcC_zero_lt a m : (m < a)%nat -> calcC ROps a m 0 = 0.
Proof.
  intros H. unfold calcC. cbn [nmul ndiv nofZ n1 ROps].
  replace (a - m)%nat with (S (a - m - 1)) by lia. cbn [tpow nmul ROps]. ring.
Qed.
Lemma calcC_zero_eq a : calcC ROps a a 0 = 1.
Proof.
  unfold calcC. cbn [nmul ndiv nofZ n1 ROps]. rewrite Nat.sub_diag. cbn [Nat.even tpow n1 ROps zfact].
  assert (IZR (zfact a) <> 0) by (apply not_0_IZR; pose proof (zfact_pos a); lia). field. exact H.
Qed.
(* CA(na, a) at A = 0: one for a = the function's own exponents, zero below *)
Lemma cC_zero_self f : cC3 f (0, 0, 0) f = 1.
Proof. destruct f as [[x y] z]. unfold cC3, cC. cbn [nmul ROps]. rewrite !calcC_zero_eq. ring. Qed.
Lemma cC_zero_other x y z i j k : (i <= x)%nat -> (j <= y)%nat -> (k <= z)%nat -> (i, j, k) <> (x, y, z) -> cC3 (x, y, z) (0, 0, 0) (i, j, k) = 0.
Proof.
  intros Hi Hj Hk Hne. unfold cC3, cC. cbn [nmul ROps].
  destruct (Nat.eq_dec i x) as [->|]; [|rewrite (calcC_zero_lt x i) by lia; ring].
  destruct (Nat.eq_dec j y) as [->|]; [|rewrite (calcC_zero_lt y j) by lia; ring].
  destruct (Nat.eq_dec k z) as [->|]; [congruence|]. rewrite (calcC_zero_lt z k) by lia. ring.
Qed.

(* a sum over the sub-exponents of f of a function that vanishes except at f itself *)
Lemma Rsum_subidx_last (g : nat * nat * nat -> R) x y z :
  (forall i j k, (i <= x)%nat -> (j <= y)%nat -> (k <= z)%nat -> (i, j, k) <> (x, y, z) -> g (i, j, k) = 0) ->
  Rsum (map g (subidx (x, y, z))) = g (x, y, z).
Proof.
  intros H. unfold subidx.
  rewrite Rsum_flat_map'.
  rewrite (Rsum_upto_last (fun i => Rsum (map g (flat_map (fun j => map (fun k => (i, j, k)) (upto z)) (upto y)))) x).
  - rewrite Rsum_flat_map'.
    rewrite (Rsum_upto_last (fun j => Rsum (map g (map (fun k => (x, j, k)) (upto z)))) y).
    + rewrite map_map. rewrite (Rsum_upto_last (fun k => g (x, y, k)) z); [reflexivity|].
      intros k Hk. apply H; try lia. intros E. inversion E. lia.
    + intros j Hj. rewrite map_map. apply Rsum_all_zero'. intros k Hk. unfold upto in Hk. apply in_seq in Hk.
      apply H; try lia. intros E. inversion E. lia.
  - intros i Hi. rewrite Rsum_flat_map'. apply Rsum_all_zero'. intros j Hj. rewrite map_map. apply Rsum_all_zero'. intros k Hk.
    unfold upto in Hj, Hk. apply in_seq in Hj. apply in_seq in Hk. apply H; try lia. intros E. inversion E. lia.
Qed.
Lemma In_subidx x y z i j k : In (i, j, k) (subidx (x, y, z)) -> (i <= x)%nat /\ (j <= y)%nat /\ (k <= z)%nat.
Proof.
  unfold subidx, upto. intros H. apply in_flat_map in H. destruct H as [i' [Hi H]]. apply in_flat_map in H. destruct H as [j' [Hj H]].
  apply in_map_iff in H. destruct H as [k' [E Hk]]. inversion E; subst. apply in_seq in Hi, Hj, Hk. lia.
Qed.

Section Limit.
  Variable Om : nat -> nat -> nat -> nat -> Z -> nat -> Z -> R.
  Variables (SA SB : nat -> Z -> R) (rad : nat -> nat -> nat -> R).

  (* rolled_up_special as a sum over the second shell's sub-exponents *)
  Definition rs_term (lam : nat) (mu : Z) (fa fb : nat * nat * nat) (B : R * R * R) (b3 : nat * nat * nat) : R :=
    let '(x1, r1, z1) := fa in
    let N := (deg3 fa + deg3 b3)%nat in
    let C := cC3 fb B b3 in
    if Rltb (IZR 1 * powerRZ 10 (-15)) (Rabs C) then
      Rsum (map (fun l2 => Rsum (map (fun m2 =>
        8 * PI * sqrt PI * C * rad N 0%nat l2 * SB l2 m2 * Om x1 r1 z1 lam mu 0%nat 0%Z * (let '(bx, by_, bz) := b3 in Om bx by_ bz lam mu l2 m2))
        (zrange l2))) (step2_from (N mod 2) (lam + deg3 b3)))
    else 0.
  Lemma rolled_up_special_sum lam fa fb B mu :
    rolled_up_special ROps PI Om SB rad lam fa fb B mu = Rsum (map (rs_term lam mu fa fb B) (subidx fb)).
  Proof.
    unfold rolled_up_special. destruct fa as [[x1 r1] z1].
    rewrite (fold_nested _ (rs_term lam mu (x1, r1, z1) fb B)); [cbn [n0 ROps]; lra|].
    intros b3 acc. destruct b3 as [[bx by_] bz]. unfold rs_term, deg3, cC3.
    cbn [nltb nabs ndec nmul nofZ nsqrt ROps].
    destruct (Rltb _ _); [|lra].
    rewrite (fold_nested _ (fun l2 => Rsum (map (fun m2 =>
      8 * PI * sqrt PI * cC ROps fb B bx by_ bz * rad (x1 + r1 + z1 + (bx + by_ + bz))%nat 0%nat l2 * SB l2 m2 * Om x1 r1 z1 lam mu 0%nat 0%Z * Om bx by_ bz lam mu l2 m2)
      (zrange l2)))); [reflexivity|].
    intros l2 acc'.
    rewrite (fold_nested _ (fun m2 => 8 * PI * sqrt PI * cC ROps fb B bx by_ bz * rad (x1 + r1 + z1 + (bx + by_ + bz))%nat 0%nat l2 * SB l2 m2 * Om x1 r1 z1 lam mu 0%nat 0%Z * Om bx by_ bz lam mu l2 m2)); [reflexivity|].
    intros m2 a4. cbn [nadd nmul ROps]. lra.
  Qed.

  Lemma pref_eq : 16 * PI * PI * / sqrt (4 * PI) = 8 * PI * sqrt PI.
  Proof.
    assert (Hp : 0 < PI) by apply PI_RGT_0.
    assert (Hs : 0 < sqrt PI) by (apply sqrt_lt_R0; lra).
    replace (4 * PI) with (2 * 2 * PI) by ring. rewrite sqrt_mult by lra. rewrite sqrt_square by lra.
    pose proof (sqrt_sqrt PI ltac:(lra)) as E.
    replace (16 * PI * PI) with (16 * PI * (sqrt PI * sqrt PI)) by (rewrite E; ring). field. lra.
  Qed.

  (* one shell on the centre: the special contraction is the generic one with that shell's on-centre leaves *)
  Theorem special_is_limit lam fa fb B mu :
    SA 0%nat 0%Z = / sqrt (4 * PI) ->
    (forall N l1 l2, (0 < l1)%nat -> rad N l1 l2 = 0) ->
    rolled_up ROps PI Om SA SB rad lam fa fb (0, 0, 0) B mu = rolled_up_special ROps PI Om SB rad lam fa fb B mu.
  Proof.
    intros HS0 Hrad. rewrite rolled_up_sum, rolled_up_special_sum.
    destruct fa as [[x1 r1] z1].
    (* only a3 = fa contributes *)
    rewrite (Rsum_subidx_last (fun a3 => Rsum (map (fun b3 => ru_term PI Om SA SB rad lam mu (x1, r1, z1) fb (0, 0, 0) B a3 b3) (subidx fb))) x1 r1 z1).
    2:{ intros i j k Hi Hj Hk Hne. apply Rsum_all_zero'. intros b3 _. unfold ru_term.
        rewrite (cC_zero_other x1 r1 z1 i j k Hi Hj Hk Hne). rewrite Rmult_0_l, Rabs_R0.
        replace (Rltb (IZR 1 * powerRZ 10 (-15)) 0) with false; [reflexivity|].
        symmetry. apply Rltb_false. cbn [powerRZ]. assert (0 < / 10 ^ Pos.to_nat 15) by (apply Rinv_0_lt_compat, pow_lt; lra). lra. }
    apply Rsum_ext. intros b3 Hb. unfold ru_term, rs_term. rewrite cC_zero_self. replace (1 * cC3 fb B b3) with (cC3 fb B b3) by ring.
    destruct (Rltb _ _); [|reflexivity].
    set (N := (deg3 (x1, r1, z1) + deg3 b3)%nat).
    (* only l1 = 0 contributes *)
    rewrite (Rsum_upto_first (fun l1 => Rsum (map (fun l2 => if ((l1 + N) mod 2 =? l2 mod 2)%nat then
        16 * PI * PI * cC3 fb B b3 * rad N l1 l2 * wsum Om SA lam mu (x1, r1, z1) l1 * wsum Om SB lam mu b3 l2 else 0) (upto (lam + deg3 b3))))).
    2:{ intros l1 Hl1. apply Rsum_all_zero'. intros l2 _. destruct (_ =? _)%nat; [|reflexivity]. rewrite (Hrad N l1 l2 Hl1). ring. }
    rewrite Nat.add_0_l.
    rewrite (step2_as_filter (fun l2 => Rsum (map (fun m2 =>
        8 * PI * sqrt PI * cC3 fb B b3 * rad N 0%nat l2 * SB l2 m2 * Om x1 r1 z1 lam mu 0%nat 0%Z * (let '(bx, by_, bz) := b3 in Om bx by_ bz lam mu l2 m2)) (zrange l2))))
      by (apply Nat.mod_upper_bound; lia).
    apply Rsum_ext. intros l2 _. rewrite (Nat.eqb_sym (l2 mod 2)). destruct (_ =? _)%nat; [|reflexivity].
    unfold wsum at 1. cbn [zrange seq map Nat.mul Nat.add]. unfold Rsum at 1. cbn [fold_right]. replace (Z.of_nat 0 - Z.of_nat 0)%Z with 0%Z by lia.
    rewrite HS0. unfold wsum. destruct b3 as [[bx by_] bz]. rewrite Rsum_scal'. apply Rsum_ext. intros m2 _.
    rewrite <- pref_eq. ring.
  Qed.

  (* both shells on the centre: the closed form is the special contraction with the second shell's on-centre leaves,
     given that the radial entry (N,0,0) is the Gaussian-moment sum the closed form writes out *)
  Variable gamma : nat -> R.
  Definition t2_value (lam LA LB : nat) (primsA primsB : list (R * R)) (primsU : list (Z * nat * R * R)) : R :=
    fold_left (fun acc g => let '(nC, l, zC, dC) := g in
      if (l =? lam)%nat then
        fold_left (fun acc pa => fold_left (fun acc pb =>
          let p := fst pa + fst pb + zC in
          let orp := 1 / sqrt p in
          let N := Z.to_nat (2 + Z.of_nat LA + Z.of_nat LB + nC) in
          acc + IZR 5 * powerRZ 10 (-1) * snd pa * snd pb * dC * gamma N * tpow ROps orp (N + 1)) primsB acc) primsA acc
      else acc) primsU 0.
  Lemma t2_both_value lam LA LB pA pB pU fa fb mu :
    t2_both ROps PI Om gamma lam LA LB pA pB pU fa fb mu
    = let '(x1, r1, z1) := fa in let '(x2, y2, z2) := fb in
      4 * PI * Om x1 r1 z1 lam mu 0%nat 0%Z * Om x2 y2 z2 lam mu 0%nat 0%Z * t2_value lam LA LB pA pB pU.
  Proof. unfold t2_both, t2_value. destruct fa as [[x1 r1] z1], fb as [[x2 y2] z2]. reflexivity. Qed.

  Lemma Rsum_step2_first (f : nat -> R) p b : (p < 2)%nat -> (forall l, (0 < l)%nat -> f l = 0) ->
    Rsum (map f (step2_from p b)) = if (p =? 0)%nat then f 0%nat else 0.
  Proof.
    intros Hp H. rewrite step2_as_filter by exact Hp.
    rewrite (Rsum_upto_first (fun l => if (l mod 2 =? p)%nat then f l else 0)).
    - cbn [Nat.modulo Nat.divmod fst snd Nat.sub]. rewrite (Nat.eqb_sym 0 p). reflexivity.
    - intros l Hl. destruct (_ =? _)%nat; [now apply H | reflexivity].
  Qed.

  Theorem both_is_limit lam LA LB pA pB pU fa fb mu :
    SB 0%nat 0%Z = / sqrt (4 * PI) ->
    (forall N l1 l2, (0 < l2)%nat -> rad N l1 l2 = 0) ->
    rad (deg3 fa + deg3 fb)%nat 0%nat 0%nat = t2_value lam LA LB pA pB pU ->
    (Nat.odd (deg3 fa + deg3 fb) = true ->
       (let '(x1, r1, z1) := fa in Om x1 r1 z1 lam mu 0%nat 0%Z) * (let '(x2, y2, z2) := fb in Om x2 y2 z2 lam mu 0%nat 0%Z) = 0) ->
    rolled_up_special ROps PI Om SB rad lam fa fb (0, 0, 0) mu = t2_both ROps PI Om gamma lam LA LB pA pB pU fa fb mu.
  Proof.
    intros HS0 Hrad H00 Hpar. rewrite rolled_up_special_sum, t2_both_value.
    destruct fa as [[x1 r1] z1], fb as [[x2 y2] z2].
    rewrite (Rsum_subidx_last (rs_term lam mu (x1, r1, z1) (x2, y2, z2) (0, 0, 0)) x2 y2 z2).
    2:{ intros i j k Hi Hj Hk Hne. unfold rs_term. rewrite (cC_zero_other x2 y2 z2 i j k Hi Hj Hk Hne), Rabs_R0.
        replace (Rltb (IZR 1 * powerRZ 10 (-15)) 0) with false; [reflexivity|].
        symmetry. apply Rltb_false. cbn [powerRZ]. assert (0 < / 10 ^ Pos.to_nat 15) by (apply Rinv_0_lt_compat, pow_lt; lra). lra. }
    unfold rs_term. rewrite cC_zero_self, Rabs_R1.
    replace (Rltb (IZR 1 * powerRZ 10 (-15)) 1) with true.
    2:{ symmetry. apply Rltb_true. cbn [powerRZ].
        set (t := 10 ^ Pos.to_nat 15).
        assert (H1 : 1 < t) by (apply Rlt_pow_R1; [lra | apply Pos2Nat.is_pos]).
        assert (H0 : 0 < 1 * t) by lra.
        pose proof (Rinv_lt_contravar 1 t H0 H1) as H2. rewrite Rinv_1 in H2. lra. }
    set (N := (deg3 (x1, r1, z1) + deg3 (x2, y2, z2))%nat) in *.
    rewrite (Rsum_step2_first (fun l2 => Rsum (map (fun m2 => 8 * PI * sqrt PI * 1 * rad N 0%nat l2 * SB l2 m2 * Om x1 r1 z1 lam mu 0%nat 0%Z * Om x2 y2 z2 lam mu l2 m2) (zrange l2))))
      by (first [apply Nat.mod_upper_bound; lia | intros l Hl; apply Rsum_all_zero'; intros m2 _; rewrite (Hrad N 0%nat l Hl); ring]).
    destruct (Nat.eqb_spec (N mod 2) 0) as [Ev|Od].
    - cbn [zrange seq map Nat.mul Nat.add]. unfold Rsum. cbn [fold_right]. replace (Z.of_nat 0 - Z.of_nat 0)%Z with 0%Z by lia.
      rewrite HS0, H00. rewrite <- pref_eq.
      assert (Hs : sqrt (4 * PI) <> 0) by (apply Rgt_not_eq, sqrt_lt_R0; pose proof PI_RGT_0; lra).
      pose proof (sqrt_sqrt (4 * PI) ltac:(pose proof PI_RGT_0; lra)) as Hq.
      set (s4 := sqrt (4 * PI)) in *.
      replace (16 * PI * PI) with (4 * PI * (s4 * s4)) by (rewrite Hq; ring).
      field. exact Hs.
    - assert (O : Nat.odd N = true).
      { rewrite <- Nat.negb_even. destruct (Nat.even N) eqn:E; [|reflexivity].
        apply Nat.even_spec in E. destruct E as [k Ek]. exfalso. apply Od. rewrite Ek, Nat.mul_comm. apply Nat.mod_mul. lia. }
      specialize (Hpar O). cbn beta iota in Hpar.
      replace (4 * PI * Om x1 r1 z1 lam mu 0%nat 0%Z * Om x2 y2 z2 lam mu 0%nat 0%Z * t2_value lam LA LB pA pB pU)
        with (4 * PI * (Om x1 r1 z1 lam mu 0%nat 0%Z * Om x2 y2 z2 lam mu 0%nat 0%Z) * t2_value lam LA LB pA pB pU) by ring.
      rewrite Hpar. ring.
  Qed.
End Limit.
