(* Model of ECPIntegral::compute_shell_pair (src/lib/ecpint.cpp) and of the generic angular
   contractions qgen::rolled_up / rolled_up_special (src/lib/qgen.cpp):
     shift to the ECP frame, binomial coefficients (makeC), per-l mask, type-1 contraction,
     the three type-2 branches (both shells on the centre: closed form; one on the centre:
     rolled_up_special, mirrored for B; none: the LA<=LB dispatch to rolled_up with the
     transposition of the result), and the sum over mu.
   Leaves are arguments: the angular tables W and Omega, the harmonics SA/SB, the radial
   integrals rad1/rad2, the per-l screening estimates, GAMMA.  Generic over the numeric
   dictionary.  No proofs here. *)
From Coq Require Import List Arith ZArith PeanoNat Bool.
From LV Require Import Base.NumOps Base.Cart Angular.AngularModel.
Import ListNotations.

Section ShellPair.
  Context {T : Type} (o : NumOps T).
  Local Notation "a +! b" := (nadd o a b) (at level 50, left associativity).
  Local Notation "a -! b" := (nsub o a b) (at level 50, left associativity).
  Local Notation "a *! b" := (nmul o a b) (at level 40, left associativity).
  Local Notation "a /! b" := (ndiv o a b) (at level 40, left associativity).
  Let ofN (n : nat) := nofZ o (Z.of_nat n).
  Variable pi : T.

  Fixpoint tpow (x : T) (k : nat) : T := match k with O => n1 o | S k' => x *! tpow x k' end.
  Definition sum_list {A} (l : list A) (f : A -> T) : T := fold_left (fun acc x => acc +! f x) l (n0 o).
  Definition upto (n : nat) : list nat := seq 0 (S n).                 (* 0..n *)
  Definition step2 (a b : nat) : list nat := map (fun t => a + 2 * t) (seq 0 (S ((b - a) / 2))).   (* a, a+2, ... <= b, for a <= b *)
  Definition step2_from (a b : nat) : list nat := if a <=? b then step2 a b else [].
  Definition zrange (l : nat) : list Z := map (fun i => (Z.of_nat i - Z.of_nat l)%Z) (seq 0 (2 * l + 1)).   (* -l..l *)

  (* calcC(a, m, A) = (-1)^(a-m) A^(a-m) a!/(m!(a-m)!) *)
  Definition calcC (a m : nat) (A : T) : T :=
    (if Nat.even (a - m) then n1 o else nofZ o (-1)) *! tpow A (a - m) *! (nofZ o (zfact a) /! (nofZ o (zfact m) *! nofZ o (zfact (a - m)))).
  (* CA(0, na, k, l, m) for the Cartesian function (x,y,z) *)
  Definition cC (f : nat * nat * nat) (A : T * T * T) (k l m : nat) : T :=
    let '(x, y, z) := f in let '(a0, a1, a2) := A in calcC x k a0 *! calcC y l a1 *! calcC z m a2.
  Definition subidx (f : nat * nat * nat) : list (nat * nat * nat) :=
    let '(x, y, z) := f in flat_map (fun i => flat_map (fun j => map (fun k => (i, j, k)) (upto z)) (upto y)) (upto x).

  (* ---------------- type 1 ---------------- *)
  Variable W : nat -> nat -> nat -> nat -> Z -> T.             (* angInts.getIntegral(k,l,m,lam,mu) *)
  Variable rad1 : nat -> nat -> Z -> T.                         (* radials(ix, lam, lam+mu) *)
  Definition type1 (fa fb : nat * nat * nat) (A B : T * T * T) : T :=
    let s :=
      fold_left (fun acc a3 =>
        fold_left (fun acc b3 =>
          let '(k1, l1, m1) := a3 in let '(k2, l2, m2) := b3 in
          let C := cC fa A k1 l1 m1 *! cC fb B k2 l2 m2 in
          if nltb o (ndec o 1 (-14)) (nabs o C) then
            let k := k1 + k2 in let l := l1 + l2 in let m := m1 + m2 in
            let ix := k + l + m in
            let lparity := ix mod 2 in
            let neg := Nat.odd l in
            let mparity := (lparity + m) mod 2 in
            fold_left (fun acc lam =>
              fold_left (fun acc mu =>
                let smu := if neg then (- Z.of_nat mu)%Z else Z.of_nat mu in
                acc +! C *! W k l m lam smu *! rad1 ix lam smu) (step2_from mparity lam) acc)
              (step2_from lparity ix) acc
          else acc) (subidx fb) acc) (subidx fa) (n0 o) in
    s *! (nofZ o 4 *! pi).
  (* NB the source loops k1,k2,l1,l2,m1,m2 interleaved (k1 outer, k2, l1, l2, m1, m2); the model's order is
     (k1,l1,m1) outer and (k2,l2,m2) inner: a different summation order of the same terms. *)

  (* ---------------- type 2 ---------------- *)
  Variable Om : nat -> nat -> nat -> nat -> Z -> nat -> Z -> T.   (* angInts.getIntegral(k,l,m,lam,mu,rho,sigma) *)

  (* both shells on the ECP centre *)
  Variable gamma : nat -> T.                                      (* GAMMA[i] *)
  Definition t2_both (lam LA LB : nat) (primsA primsB : list (T * T)) (primsU : list (Z * nat * T * T))
             (fa fb : nat * nat * nat) (mu : Z) : T :=
    let value :=
      fold_left (fun acc g => let '(nC, l, zC, dC) := g in
        if l =? lam then
          fold_left (fun acc pa => fold_left (fun acc pb =>
            let p := fst pa +! fst pb +! zC in
            let orp := n1 o /! nsqrt o p in
            let N := Z.to_nat (2 + Z.of_nat LA + Z.of_nat LB + nC) in
            acc +! ndec o 5 (-1) *! snd pa *! snd pb *! dC *! gamma N *! tpow orp (N + 1)) primsB acc) primsA acc
        else acc) primsU (n0 o) in
    let '(x1, r1, z1) := fa in let '(x2, y2, z2) := fb in
    (nofZ o 4 *! pi) *! Om x1 r1 z1 lam mu 0 0%Z *! Om x2 y2 z2 lam mu 0 0%Z *! value.

  (* qgen::rolled_up: values(na, nb, lam+mu) *)
  Variable SA SB : nat -> Z -> T.                                  (* SA(l, l+m) *)
  Variable rad2 : nat -> nat -> nat -> T.                           (* radials(N, l1, l2) *)
  Definition rolled_up (lam : nat) (fa fb : nat * nat * nat) (A B : T * T * T) (mu : Z) : T :=
    let prefac := nofZ o 16 *! pi *! pi in
    fold_left (fun acc a3 =>
      fold_left (fun acc b3 =>
        let '(ax, ay, az) := a3 in let '(bx, by_, bz) := b3 in
        let alpha := ax + ay + az in let beta := bx + by_ + bz in let N := alpha + beta in
        let C := cC fa A ax ay az *! cC fb B bx by_ bz in
        if nltb o (ndec o 1 (-15)) (nabs o C) then
          let w1 l1 := sum_list (zrange l1) (fun m1 => SA l1 m1 *! Om ax ay az lam mu l1 m1) in
          let w2 l2 := sum_list (zrange l2) (fun m2 => SB l2 m2 *! Om bx by_ bz lam mu l2 m2) in
          fold_left (fun acc l1 =>
            fold_left (fun acc l2 => acc +! prefac *! C *! rad2 N l1 l2 *! w1 l1 *! w2 l2)
                      (step2_from ((l1 + N) mod 2) (lam + beta)) acc)
            (upto (lam + alpha)) acc
        else acc) (subidx fb) acc) (subidx fa) (n0 o).

  (* qgen::rolled_up_special: the first shell sits on the ECP centre *)
  Definition rolled_up_special (lam : nat) (fa fb : nat * nat * nat) (B : T * T * T) (mu : Z) : T :=
    let prefac := nofZ o 8 *! pi *! nsqrt o pi in
    let '(x1, r1, z1) := fa in
    let alpha := x1 + r1 + z1 in
    fold_left (fun acc b3 =>
      let '(bx, by_, bz) := b3 in
      let beta := bx + by_ + bz in let N := alpha + beta in
      let C := cC fb B bx by_ bz in
      if nltb o (ndec o 1 (-15)) (nabs o C) then
        fold_left (fun acc l2 =>
          let val1 := prefac *! C *! rad2 N 0 l2 in
          fold_left (fun acc m2 => acc +! val1 *! SB l2 m2 *! Om x1 r1 z1 lam mu 0 0%Z *! Om bx by_ bz lam mu l2 m2) (zrange l2) acc)
          (step2_from (N mod 2) (lam + beta)) acc
      else acc) (subidx fb) (n0 o).

  (* compute_shell_pair: type 1 (if the local-part estimate passes and the local part is not identically zero)
     plus, for every l < L whose estimate passes, the sum over mu of the type-2 block *)
  Definition combine_pair (L : nat) (mask : nat -> bool) (noType1 : bool) (t1 : T) (t2 : nat -> Z -> T) : T :=
    fold_left (fun acc l => if mask l then fold_left (fun acc m => acc +! t2 l m) (zrange l) acc else acc)
              (seq 0 L) (if mask L && negb noType1 then t1 else n0 o).
End ShellPair.

(* ECPIntegral::type2's dispatch for one angular momentum lam of the ECP and one pair of Cartesian functions:
     both shells on the centre -> closed form; one on the centre -> rolled_up_special with the OTHER shell's harmonics
     (for B on the centre the roles are exchanged and the radial table is read transposed); none -> the generated class
     Q(min, max, lam), i.e. rolled_up called with the lower angular momentum first (for LA > LB the shells are exchanged
     and the result is copied back transposed).  radq / radg: the radial tables as the library stores them in the
     respective branch.  No proofs here. *)
Section Dispatch.
  Context {T : Type} (o : NumOps T).
  Variable pi : T.
  Variable Om : nat -> nat -> nat -> nat -> Z -> nat -> Z -> T.
  Variable gamma : nat -> T.
  Definition pair_t2 (onA onB : bool) (LA LB : nat) (primsA primsB : list (T * T)) (primsU : list (Z * nat * T * T))
             (SA SB : nat -> Z -> T) (radq radg : nat -> nat -> nat -> T)
             (lam : nat) (fa fb : nat * nat * nat) (A B : T * T * T) (mu : Z) : T :=
    if onA && onB then t2_both o pi Om gamma lam LA LB primsA primsB primsU fa fb mu
    else if onA then rolled_up_special o pi Om SB radq lam fa fb B mu
    else if onB then rolled_up_special o pi Om SA (fun N l1 l2 => radq N l2 l1) lam fb fa A mu
    else if LA <=? LB then rolled_up o pi Om SA SB radg lam fa fb A B mu
    else rolled_up o pi Om SB SA radg lam fb fa B A mu.
End Dispatch.
