From Coq Require Import List Arith ZArith PeanoNat Bool Reals Lra Lia.
From LV Require Import Base.NumOps Base.RInst Base.Cart Angular.AngularModel ShellPair.ShellPairModel.
Import ListNotations.
Local Open Scope R_scope.

Lemma tpow_pow x k : tpow ROps x k = x ^ k.
Proof. induction k as [|k IH]; cbn [tpow pow nmul n1 ROps]; [reflexivity|]. now rewrite IH. Qed.

Lemma zfact_fact n : IZR (zfact n) = INR (fact n).
Proof.
  induction n as [|n IH]; [reflexivity|].
  cbn [zfact fact]. rewrite mult_IZR, IH, <- INR_IZR_INZ, <- mult_INR. reflexivity.
Qed.

(* the model's binomial coefficient is the standard library's C(a,m) with the alternating sign *)
Lemma calcC_binom a m A : (m <= a)%nat -> calcC ROps a m A = C a m * (- A) ^ (a - m).
Proof.
  intros H. unfold calcC, C. cbn [nmul ndiv nofZ n1 ROps]. rewrite tpow_pow, !zfact_fact.
  replace ((- A) ^ (a - m)) with ((if Nat.even (a - m) then 1 else -1) * A ^ (a - m)).
  - destruct (Nat.even (a - m)); cbn [IZR IPR IPR_2]; unfold Rdiv; ring.
  - replace (- A) with (-1 * A) by ring. rewrite Rpow_mult_distr. f_equal.
    destruct (Nat.even (a - m)) eqn:E.
    + apply Nat.even_spec in E. destruct E as (k & ->). rewrite pow_1_even. reflexivity.
    + assert (O : Nat.odd (a - m) = true) by (rewrite <- Nat.negb_even, E; reflexivity).
      apply Nat.odd_spec in O. destruct O as (k & ->). replace (2 * k + 1)%nat with (S (2 * k)) by lia. rewrite pow_1_odd. reflexivity.
Qed.

(* makeC: the coefficients calcC(a,m,A) are those of the shifted monomial (x - A)^a, for every a *)
Theorem makeC_binomial a A x : sum_f_R0 (fun m => calcC ROps a m A * x ^ m) a = (x - A) ^ a.
Proof.
  replace (x - A) with (x + - A) by ring. rewrite binomial.
  apply sum_eq. intros m Hm. rewrite calcC_binom by exact Hm. ring.
Qed.
