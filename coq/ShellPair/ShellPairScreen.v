(* C06 at the shell-pair level: the per-angular-momentum screen of compute_shell_pair (model: combine_pair) removes
   additive terms and nothing else. *)
From Coq Require Import List Arith ZArith PeanoNat Bool Reals Lra Lia.
From LV Require Import Base.NumOps Base.RInst Base.Cart Angular.AngularModel ShellPair.ShellPairModel.
Import ListNotations.
Local Open Scope R_scope.

Definition Rsum (l : list R) : R := fold_right Rplus 0 l.

Lemma fold_add_shift {A} (f : A -> R) l acc : fold_left (fun a x => a + f x) l acc = acc + Rsum (map f l).
Proof. revert acc. induction l as [|x l IH]; intros acc; cbn [fold_left map Rsum fold_right]; [lra|]. rewrite IH. unfold Rsum. lra. Qed.

(* the sum over mu of one angular momentum's type-2 block *)
Definition t2_l (t2 : nat -> Z -> R) (l : nat) : R := Rsum (map (t2 l) (zrange l)).

Lemma combine_pair_sum L mask noType1 t1 t2 :
  combine_pair ROps L mask noType1 t1 t2
  = (if mask L && negb noType1 then t1 else 0) + Rsum (map (fun l => if mask l then t2_l t2 l else 0) (seq 0 L)).
Proof.
  unfold combine_pair. change (n0 ROps) with 0. generalize (if mask L && negb noType1 then t1 else 0). generalize (seq 0 L).
  induction l as [|l ls IH]; intros acc; cbn [fold_left map Rsum fold_right]; [cbn; lra|].
  rewrite IH. destruct (mask l).
  - cbn [nadd ROps]. rewrite (fold_add_shift (t2 l)). unfold t2_l, Rsum. lra.
  - unfold Rsum. lra.
Qed.

(* screened = unscreened - (the skipped local part) - (the skipped semi-local channels); nothing else changes *)
Theorem pair_screen_additive L mask noType1 t1 t2 :
  combine_pair ROps L mask noType1 t1 t2
  = combine_pair ROps L (fun _ => true) noType1 t1 t2
    - (if mask L || noType1 then 0 else t1)
    - Rsum (map (fun l => if mask l then 0 else t2_l t2 l) (seq 0 L)).
Proof.
  rewrite !combine_pair_sum.
  assert (E : forall ls, Rsum (map (fun l => if mask l then t2_l t2 l else 0) ls)
                         = Rsum (map (fun l => if true then t2_l t2 l else 0) ls) - Rsum (map (fun l => if mask l then 0 else t2_l t2 l) ls)).
  { induction ls as [|l ls IH]; cbn [map Rsum fold_right]; [lra|]. unfold Rsum in *. rewrite IH. destruct (mask l); lra. }
  rewrite E. destruct (mask L), noType1; cbn [andb orb negb]; lra.
Qed.

(* with every estimate passing, the result is the plain sum: local part + all channels *)
Corollary pair_unscreened L t1 t2 :
  combine_pair ROps L (fun _ => true) false t1 t2 = t1 + Rsum (map (t2_l t2) (seq 0 L)).
Proof. rewrite combine_pair_sum. cbn [andb negb]. f_equal. Qed.
