(* C07 at the shell-pair level: the generic contractions of the model are symmetric under exchange of the two shells
   (exact arithmetic), given leaves that are exchanged accordingly. *)
From Coq Require Import List Arith ZArith PeanoNat Bool Reals Lra Lia.
From LV Require Import Base.NumOps Base.RInst Base.Cart Angular.AngularModel ShellPair.ShellPairModel.
From LV Require Import ShellPair.ShellPairScreen.
Import ListNotations.
Local Open Scope R_scope.

(* ---- sums ---- *)
Lemma Rsum_app a b : Rsum (a ++ b) = Rsum a + Rsum b.
Proof. unfold Rsum. induction a as [|x a IH]; cbn [app fold_right]; [lra|]. rewrite IH. lra. Qed.
Lemma Rsum_ext {A} (f g : A -> R) l : (forall x, In x l -> f x = g x) -> Rsum (map f l) = Rsum (map g l).
Proof. unfold Rsum. induction l as [|x l IH]; intros H; cbn [map fold_right]; [reflexivity|]. rewrite H by (now left). rewrite IH; [reflexivity|]. intros; apply H; now right. Qed.
Lemma Rsum_plus {A} (f g : A -> R) l : Rsum (map (fun x => f x + g x) l) = Rsum (map f l) + Rsum (map g l).
Proof. unfold Rsum. induction l as [|x l IH]; cbn [map fold_right]; [lra|]. rewrite IH. lra. Qed.
Lemma Rsum_zero {A} (l : list A) : Rsum (map (fun _ => 0) l) = 0.
Proof. unfold Rsum. induction l as [|x l IH]; cbn [map fold_right]; [lra|]. rewrite IH. lra. Qed.
Lemma Rsum_swap {A B} (f : A -> B -> R) la lb :
  Rsum (map (fun a => Rsum (map (fun b => f a b) lb)) la) = Rsum (map (fun b => Rsum (map (fun a => f a b) la)) lb).
Proof.
  induction la as [|a la IH]; cbn [map].
  - unfold Rsum at 1. cbn [fold_right]. symmetry. apply Rsum_zero.
  - unfold Rsum at 1. cbn [fold_right]. fold (Rsum (map (fun a0 => Rsum (map (fun b => f a0 b) lb)) la)). rewrite IH.
    rewrite <- Rsum_plus. apply Rsum_ext. intros b _. unfold Rsum. cbn [map fold_right]. lra.
Qed.

(* nested fold_left accumulations as sums *)
Lemma fold_nested {A} (g : A -> R -> R) (h : A -> R) l acc :
  (forall x a, g x a = a + h x) -> fold_left (fun a x => g x a) l acc = acc + Rsum (map h l).
Proof.
  intros H. revert acc. induction l as [|x l IH]; intros acc; cbn [fold_left map]; [unfold Rsum; cbn; lra|].
  rewrite IH, H. unfold Rsum. cbn [fold_right]. lra.
Qed.

(* the parity-stepped range as a filtered full range *)
Lemma step2_as_filter (g : nat -> R) (p b : nat) : (p < 2)%nat ->
  Rsum (map g (step2_from p b)) = Rsum (map (fun l => if (l mod 2 =? p)%nat then g l else 0) (upto b)).
Proof.
  intros Hp. unfold step2_from, upto.
  assert (G : forall n, Rsum (map (fun l => if (l mod 2 =? p)%nat then g l else 0) (seq 0 n))
                        = Rsum (map g (map (fun t => p + 2 * t)%nat (seq 0 ((n + 1 - p) / 2))))).
  { induction n as [|n IH].
    - cbn [seq map]. replace ((0 + 1 - p) / 2)%nat with 0%nat by (destruct p as [|[|p]]; try lia; reflexivity). reflexivity.
    - rewrite seq_S, map_app, Rsum_app, IH. rewrite Nat.add_0_l. cbn [map]. unfold Rsum at 2. cbn [fold_right].
      pose proof (Nat.div_mod n 2 ltac:(lia)) as D.
      assert (Hm : (n mod 2 < 2)%nat) by (apply Nat.mod_upper_bound; lia).
      set (h := (n / 2)%nat) in *. set (r := (n mod 2)%nat) in *. clearbody h r.
      destruct (Nat.eqb_spec r p) as [E|E].
      + (* n = p + 2 h : one more element *)
        assert (E1 : ((n + 1 - p) / 2 = h)%nat).
        { replace (n + 1 - p)%nat with (1 + h * 2)%nat by lia. rewrite Nat.div_add by lia. reflexivity. }
        assert (E2 : ((S n + 1 - p) / 2 = S h)%nat).
        { replace (S n + 1 - p)%nat with ((h + 1) * 2)%nat by lia. rewrite Nat.div_mul by lia. lia. }
        rewrite E1, E2, seq_S, !map_app, Rsum_app. cbn [map]. unfold Rsum at 3. cbn [fold_right].
        replace (p + 2 * (0 + h))%nat with n by lia. lra.
      + assert (E3 : ((S n + 1 - p) / 2 = (n + 1 - p) / 2)%nat).
        { destruct p as [|[|p]]; try lia.
          - assert (r = 1)%nat by lia. replace (S n + 1 - 0)%nat with (1 + (h + 1) * 2)%nat by lia. rewrite Nat.div_add by lia.
            replace (n + 1 - 0)%nat with ((h + 1) * 2)%nat by lia. rewrite Nat.div_mul by lia. reflexivity.
          - assert (r = 0)%nat by lia. replace (S n + 1 - 1)%nat with (1 + h * 2)%nat by lia. rewrite Nat.div_add by lia.
            replace (n + 1 - 1)%nat with (h * 2)%nat by lia. rewrite Nat.div_mul by lia. reflexivity. }
        rewrite E3. lra. }
  rewrite (G (S b)). destruct (Nat.leb_spec p b) as [Hle|Hgt].
  - unfold step2. f_equal. f_equal. f_equal. f_equal.
    (* S ((b - p) / 2) = (S b + 1 - p) / 2 *)
    replace (S b + 1 - p)%nat with ((b - p) + 1 * 2)%nat by lia. rewrite Nat.div_add by lia. lia.
  - replace ((S b + 1 - p) / 2)%nat with 0%nat; [reflexivity|]. destruct p as [|[|p]]; try lia. replace b with 0%nat by lia. reflexivity.
Qed.

Lemma sum_list_Rsum {A} (l : list A) (f : A -> R) : sum_list ROps l f = Rsum (map f l).
Proof. unfold sum_list. rewrite (fold_nested (fun x a => a + f x) f) by reflexivity. cbn. lra. Qed.

Lemma parity_sym a b N : (((a + N) mod 2 =? b mod 2) = ((b + N) mod 2 =? a mod 2))%nat.
Proof.
  rewrite (Nat.add_mod a N 2), (Nat.add_mod b N 2) by lia.
  pose proof (Nat.mod_upper_bound a 2 ltac:(lia)). pose proof (Nat.mod_upper_bound b 2 ltac:(lia)). pose proof (Nat.mod_upper_bound N 2 ltac:(lia)).
  destruct (a mod 2)%nat as [|[|?]], (b mod 2)%nat as [|[|?]], (N mod 2)%nat as [|[|?]]; try lia; reflexivity.
Qed.

Definition deg3 (t : nat * nat * nat) : nat := let '(x, y, z) := t in (x + y + z)%nat.
Definition cC3 (f : nat * nat * nat) (A : R * R * R) (t : nat * nat * nat) : R := let '(k, l, m) := t in cC ROps f A k l m.

Section Sym.
  Variable pi_ : R.
  Variable Om : nat -> nat -> nat -> nat -> Z -> nat -> Z -> R.

  Definition wsum (S_ : nat -> Z -> R) (lam : nat) (mu : Z) (t : nat * nat * nat) (l : nat) : R :=
    let '(x, y, z) := t in Rsum (map (fun m => S_ l m * Om x y z lam mu l m) (zrange l)).

  (* the (a3, b3) term of rolled_up as a plain double sum over the rectangle with the parity condition *)
  Definition ru_term (S1 S2 : nat -> Z -> R) (rad : nat -> nat -> nat -> R) lam mu (fa fb : nat * nat * nat) (A B : R * R * R) (a3 b3 : nat * nat * nat) : R :=
    let alpha := deg3 a3 in let beta := deg3 b3 in let N := (alpha + beta)%nat in
    let C := cC3 fa A a3 * cC3 fb B b3 in
    if Rltb (IZR 1 * powerRZ 10 (-15)) (Rabs C) then
      Rsum (map (fun l1 => Rsum (map (fun l2 =>
        if ((l1 + N) mod 2 =? l2 mod 2)%nat then 16 * pi_ * pi_ * C * rad N l1 l2 * wsum S1 lam mu a3 l1 * wsum S2 lam mu b3 l2 else 0)
        (upto (lam + beta)))) (upto (lam + alpha)))
    else 0.

  Lemma rolled_up_sum S1 S2 rad lam fa fb A B mu :
    rolled_up ROps pi_ Om S1 S2 rad lam fa fb A B mu
    = Rsum (map (fun a3 => Rsum (map (fun b3 => ru_term S1 S2 rad lam mu fa fb A B a3 b3) (subidx fb))) (subidx fa)).
  Proof.
    unfold rolled_up.
    rewrite (fold_nested _ (fun a3 => Rsum (map (fun b3 => ru_term S1 S2 rad lam mu fa fb A B a3 b3) (subidx fb)))).
    - cbn [n0 ROps]. lra.
    - intros a3 acc.
      rewrite (fold_nested _ (fun b3 => ru_term S1 S2 rad lam mu fa fb A B a3 b3)); [reflexivity|].
      intros b3 acc'. destruct a3 as [[ax ay] az], b3 as [[bx by_] bz]. unfold ru_term, deg3, cC3.
      cbn [nltb nabs ndec nmul ROps].
      destruct (Rltb _ _); [|lra].
      rewrite (fold_nested _ (fun l1 => Rsum (map (fun l2 => if ((l1 + (ax + ay + az + (bx + by_ + bz))) mod 2 =? l2 mod 2)%nat
          then 16 * pi_ * pi_ * (cC ROps fa A ax ay az * cC ROps fb B bx by_ bz) * rad (ax + ay + az + (bx + by_ + bz))%nat l1 l2 * wsum S1 lam mu (ax, ay, az) l1 * wsum S2 lam mu (bx, by_, bz) l2 else 0)
          (upto (lam + (bx + by_ + bz)))))); [reflexivity|].
      intros l1 acc''.
      rewrite (fold_nested _ (fun l2 => 16 * pi_ * pi_ * (cC ROps fa A ax ay az * cC ROps fb B bx by_ bz) * rad (ax + ay + az + (bx + by_ + bz))%nat l1 l2 * wsum S1 lam mu (ax, ay, az) l1 * wsum S2 lam mu (bx, by_, bz) l2)).
      + f_equal. rewrite step2_as_filter by (apply Nat.mod_upper_bound; lia).
        apply Rsum_ext. intros l2 _. rewrite (Nat.eqb_sym (l2 mod 2)). reflexivity.
      + intros l2 a4. cbn [nadd nmul nofZ ROps]. unfold wsum. rewrite !sum_list_Rsum. lra.
  Qed.

  Lemma ru_term_swap S1 S2 rad lam mu fa fb A B a3 b3 :
    ru_term S1 S2 rad lam mu fa fb A B a3 b3 = ru_term S2 S1 (fun N l1 l2 => rad N l2 l1) lam mu fb fa B A b3 a3.
  Proof.
    unfold ru_term. rewrite (Rmult_comm (cC3 fb B b3)). rewrite (Nat.add_comm (deg3 b3)).
    destruct (Rltb _ _); [|reflexivity].
    rewrite Rsum_swap. apply Rsum_ext. intros l2 _. apply Rsum_ext. intros l1 _.
    rewrite (parity_sym l1 l2). destruct (_ =? _)%nat; [ring|reflexivity].
  Qed.

  (* the generic type-2 contraction: exchanging the two shells (functions, shifts, harmonics, and the two angular
     indices of the radial table) leaves every (lambda, mu) value unchanged -- so compute_shell_pair's LA<=LB dispatch
     with the transposed copy-back computes the same numbers either way *)
  Theorem rolled_up_swap S1 S2 rad lam fa fb A B mu :
    rolled_up ROps pi_ Om S1 S2 rad lam fa fb A B mu
    = rolled_up ROps pi_ Om S2 S1 (fun N l1 l2 => rad N l2 l1) lam fb fa B A mu.
  Proof.
    rewrite !rolled_up_sum. rewrite Rsum_swap. apply Rsum_ext. intros b3 _. apply Rsum_ext. intros a3 _. apply ru_term_swap.
  Qed.
End Sym.

Section Sym1.
  Variable pi_ : R.
  Variable W : nat -> nat -> nat -> nat -> Z -> R.
  Variable rad1 : nat -> nat -> Z -> R.

  Definition t1_term (fa fb : nat * nat * nat) (A B : R * R * R) (a3 b3 : nat * nat * nat) : R :=
    let '(k1, l1, m1) := a3 in let '(k2, l2, m2) := b3 in
    let C := cC ROps fa A k1 l1 m1 * cC ROps fb B k2 l2 m2 in
    if Rltb (IZR 1 * powerRZ 10 (-14)) (Rabs C) then
      let k := (k1 + k2)%nat in let l := (l1 + l2)%nat in let m := (m1 + m2)%nat in
      let ix := (k + l + m)%nat in
      Rsum (map (fun lam => Rsum (map (fun mu =>
        let smu := if Nat.odd l then (- Z.of_nat mu)%Z else Z.of_nat mu in C * W k l m lam smu * rad1 ix lam smu)
        (step2_from ((ix mod 2 + m) mod 2) lam))) (step2_from (ix mod 2) ix))
    else 0.

  Lemma type1_sum fa fb A B :
    type1 ROps pi_ W rad1 fa fb A B
    = Rsum (map (fun a3 => Rsum (map (fun b3 => t1_term fa fb A B a3 b3) (subidx fb))) (subidx fa)) * (4 * pi_).
  Proof.
    unfold type1. cbn [nmul nofZ ROps]. f_equal.
    rewrite (fold_nested _ (fun a3 => Rsum (map (fun b3 => t1_term fa fb A B a3 b3) (subidx fb)))).
    - cbn [n0 ROps]. lra.
    - intros a3 acc. rewrite (fold_nested _ (fun b3 => t1_term fa fb A B a3 b3)); [reflexivity|].
      intros b3 acc'. destruct a3 as [[k1 l1] m1], b3 as [[k2 l2] m2]. unfold t1_term.
      cbn [nltb nabs ndec nmul ROps]. destruct (Rltb _ _); [|lra]. cbn zeta.
      rewrite (fold_nested _ (fun lam => Rsum (map (fun mu =>
        cC ROps fa A k1 l1 m1 * cC ROps fb B k2 l2 m2 * W (k1 + k2)%nat (l1 + l2)%nat (m1 + m2)%nat lam (if Nat.odd (l1 + l2) then (- Z.of_nat mu)%Z else Z.of_nat mu)
        * rad1 (k1 + k2 + (l1 + l2) + (m1 + m2))%nat lam (if Nat.odd (l1 + l2) then (- Z.of_nat mu)%Z else Z.of_nat mu))
        (step2_from (((k1 + k2 + (l1 + l2) + (m1 + m2)) mod 2 + (m1 + m2)) mod 2) lam)))); [reflexivity|].
      intros lam acc''. rewrite (fold_nested _ (fun mu =>
        cC ROps fa A k1 l1 m1 * cC ROps fb B k2 l2 m2 * W (k1 + k2)%nat (l1 + l2)%nat (m1 + m2)%nat lam (if Nat.odd (l1 + l2) then (- Z.of_nat mu)%Z else Z.of_nat mu)
        * rad1 (k1 + k2 + (l1 + l2) + (m1 + m2))%nat lam (if Nat.odd (l1 + l2) then (- Z.of_nat mu)%Z else Z.of_nat mu))); [reflexivity|].
      intros mu a4. cbn [nadd nmul ROps]. lra.
  Qed.

  Lemma t1_term_swap fa fb A B a3 b3 : t1_term fa fb A B a3 b3 = t1_term fb fa B A b3 a3.
  Proof.
    destruct a3 as [[k1 l1] m1], b3 as [[k2 l2] m2]. unfold t1_term.
    rewrite (Rmult_comm (cC ROps fb B k2 l2 m2)), (Nat.add_comm k2), (Nat.add_comm l2), (Nat.add_comm m2). reflexivity.
  Qed.

  (* the local-potential contraction is symmetric under exchange of the two shells *)
  Theorem type1_swap fa fb A B : type1 ROps pi_ W rad1 fa fb A B = type1 ROps pi_ W rad1 fb fa B A.
  Proof.
    rewrite !type1_sum. f_equal. rewrite Rsum_swap. apply Rsum_ext. intros b3 _. apply Rsum_ext. intros a3 _. apply t1_term_swap.
  Qed.
End Sym1.
