// C13 driver: dumps every stored type-1 and type-2 angular integral of an
// AngularIntegral(LB,LE) in a fixed logical order (binary doubles), the table
// dimensions, and realSphericalHarmonics on a direction set.
// usage: drv_angular tables LB LE out.bin | dims LB LE | harm lmax dirs.txt out.txt
#include <vector>
#include <array>
#include <string>
#include <cstdio>
#include <cstdlib>
#include <cmath>
#include <fstream>
#include <sstream>
#include <algorithm>
#include <tuple>
#include <memory>
#include <vector>
#include <string>
#define private public
#include "angular.hpp"
#undef private
#include "mathutil.hpp"
using namespace libecpint;

int main(int argc, char** argv) {
  if (argc < 2) return 2;
  std::string mode = argv[1];
  initFactorials();
  if (mode == "seq") {
    // several engines constructed one after the other in ONE process: "seq outprefix LB LE LB LE ..."; the tables of the i-th engine
    // go to <outprefix>_<i>.bin in the format of mode "tables" (they must not depend on what was constructed before)
    std::string pre = argv[2];
    std::vector<std::unique_ptr<AngularIntegral>> keep;
    for (int a = 3, i = 0; a + 1 < argc; a += 2, i++) {
      int LB = std::atoi(argv[a]), LE = std::atoi(argv[a + 1]);
      keep.emplace_back(new AngularIntegral(LB, LE)); AngularIntegral& A = *keep.back(); A.compute();
      FILE* f = std::fopen((pre + "_" + std::to_string(i) + ".bin").c_str(), "wb");
      int hdr[4] = {A.wDim, A.maxL, LB, LE}; std::fwrite(hdr, sizeof(int), 4, f);
      for (int k = 0; k <= A.wDim; k++) for (int l = 0; l <= A.wDim; l++) for (int m = 0; m <= A.wDim; m++)
        for (int lam = 0; lam <= A.maxL; lam++) for (int mu = -lam; mu <= lam; mu++) { double v = A.getIntegral(k, l, m, lam, mu); std::fwrite(&v, 8, 1, f); }
      int ld = LB + LE;
      for (int k = 0; k <= LB; k++) for (int l = 0; l <= LB; l++) for (int m = 0; m <= LB; m++)
        for (int lam = 0; lam <= ld; lam++) for (int mu = -lam; mu <= lam; mu++)
          for (int rho = 0; rho <= ld; rho++) for (int sg = -rho; sg <= rho; sg++) { double v = A.getIntegral(k, l, m, lam, mu, rho, sg); std::fwrite(&v, 8, 1, f); }
      std::fclose(f);
      if (i % 2 == 1) keep.erase(keep.begin());      // some engines are destroyed along the way, some stay alive
    }
    return 0;
  }
  if (mode == "tables" || mode == "dims") {
    int LB = std::atoi(argv[2]), LE = std::atoi(argv[3]);
    AngularIntegral A(LB, LE); A.compute();
    if (mode == "dims") {
      std::printf("wDim %d maxL %d W", A.wDim, A.maxL);
      for (int i = 0; i < 5; i++) std::printf(" %d", A.W.dims[i]);
      std::printf(" omega"); for (int i = 0; i < 7; i++) std::printf(" %d", A.omega.dims[i]);
      std::printf(" mults"); for (int i = 0; i < 6; i++) std::printf(" %d", A.omega.mults[i]);
      std::printf(" wsize %zu osize %zu\n", A.W.data.size(), A.omega.data.size());
      return 0;
    }
    FILE* f = std::fopen(argv[4], "wb");
    int hdr[4] = {A.wDim, A.maxL, LB, LE}; std::fwrite(hdr, sizeof(int), 4, f);
    // W: k,l,m in [0,wDim], lam in [0,maxL], mu in [-lam,lam]
    for (int k = 0; k <= A.wDim; k++) for (int l = 0; l <= A.wDim; l++) for (int m = 0; m <= A.wDim; m++)
      for (int lam = 0; lam <= A.maxL; lam++) for (int mu = -lam; mu <= lam; mu++) { double v = A.getIntegral(k, l, m, lam, mu); std::fwrite(&v, 8, 1, f); }
    // Omega: k,l,m in [0,LB], lam,rho in [0,LB+LE]
    int ld = LB + LE;
    for (int k = 0; k <= LB; k++) for (int l = 0; l <= LB; l++) for (int m = 0; m <= LB; m++)
      for (int lam = 0; lam <= ld; lam++) for (int mu = -lam; mu <= lam; mu++)
        for (int rho = 0; rho <= ld; rho++) for (int sg = -rho; sg <= rho; sg++) { double v = A.getIntegral(k, l, m, lam, mu, rho, sg); std::fwrite(&v, 8, 1, f); }
    std::fclose(f);
    return 0;
  }
  if (mode == "harm") {
    int lmax = std::atoi(argv[2]); std::ifstream in(argv[3]); FILE* f = std::fopen(argv[4], "w");
    std::string sx, sp; int n = 0;
    while (in >> sx >> sp) {
      double x = std::strtod(sx.c_str(), nullptr), phi = std::strtod(sp.c_str(), nullptr);
      TwoIndex<double> S = realSphericalHarmonics(lmax, x, phi);
      std::fprintf(f, "dir %d %a %a", n++, x, phi);
      for (int l = 0; l <= lmax; l++) for (int m = -l; m <= l; m++) std::fprintf(f, " %a", S(l, l + m));
      std::fprintf(f, "\n");
    }
    std::fclose(f); return 0;
  }
  return 2;
}
