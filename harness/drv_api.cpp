// C04/C05 correspondence driver: builds an ECPIntegrator for each case, dumps
// its outputs, its atom ids, and every low-level block the assembly consumes
// (obtained from the integrator's own engine with its own shells/ECPs).
#include "vh.hpp"
#include "verif_hooks.hpp"
using namespace vh;

// stretch != 1: the integrator is set up and initialised with every coordinate multiplied by `stretch` (same atom partition), and moved to
// the case's geometry with the two update routines before anything is computed: whatever init() derives from the geometry is then stale
static void setup(ECPIntegrator& I, const Case& c, double stretch = 1.0) {
  std::vector<double> coords, exps, coefs; std::vector<int> ams, lens;
  for (auto& s : c.shells) {
    for (double x : s.c) coords.push_back(x * stretch);
    ams.push_back(s.l); lens.push_back((int)s.e.size());
    exps.insert(exps.end(), s.e.begin(), s.e.end()); coefs.insert(coefs.end(), s.d.begin(), s.d.end());
  }
  // split_basis k (0 < k < nshells): the Gaussian basis is handed over in two calls (the first k shells, then the rest), as a program
  // that assembles the basis atom by atom does
  long k = c.geti("split_basis", 0);
  if (k > 0 && k < (long)c.shells.size()) {
    int np = 0; for (long i = 0; i < k; i++) np += lens[i];
    I.set_gaussian_basis((int)k, coords.data(), exps.data(), coefs.data(), ams.data(), lens.data());
    I.set_gaussian_basis((int)c.shells.size() - (int)k, coords.data() + 3 * k, exps.data() + np, coefs.data() + np, ams.data() + k, lens.data() + k);
  } else
  I.set_gaussian_basis((int)c.shells.size(), coords.data(), exps.data(), coefs.data(), ams.data(), lens.data());
  std::vector<double> ec, ee, ed; std::vector<int> el, en, elen;
  for (auto& u : c.ecps) {
    for (double x : u.c) ec.push_back(x * stretch); elen.push_back((int)u.p.size());
    for (auto& p : u.p) { ee.push_back(p.a); ed.push_back(p.d); el.push_back(p.l); en.push_back(p.n); }
  }
  I.set_ecp_basis((int)c.ecps.size(), ec.data(), ee.data(), ed.data(), el.data(), en.data(), elen.data());
}

int main(int argc, char** argv) {
  if (argc < 3) { std::fprintf(stderr, "usage: drv_api cases out\n"); return 2; }
  auto cases = read_cases(argv[1]);
  FILE* f = std::fopen(argv[2], "w");
  for (auto& c : cases) {
    int order = (int)c.geti("order", 0);
    verif::ctl() = verif::Ctl();
    verif::ctl().no_screen = c.geti("noscreen", 0) == 1; verif::ctl().no_screen_api = c.geti("noscreen", 0) == 2;
    verif::ctl().no_screen_prim = c.geti("noscreen", 0) == 3; verif::ctl().no_screen_l = c.geti("noscreen", 0) == 4;
    double stretch = c.getd("init_stretch", 1.0);
    ECPIntegrator I; setup(I, c, stretch); I.init(order);
    if (stretch != 1.0) {
      std::vector<double> sc0, ec0;
      for (auto& s : c.shells) sc0.insert(sc0.end(), s.c.begin(), s.c.end());
      for (auto& u : c.ecps) ec0.insert(ec0.end(), u.c.begin(), u.c.end());
      I.update_gaussian_basis_coords((int)c.shells.size(), sc0.data());
      I.update_ecp_basis_coords((int)c.ecps.size(), ec0.data());
    }
    // repeat > 1: every compute routine is called that many times on the same integrator; the containers dumped are those after the last call
    for (long rep = 0; rep < std::max(1L, c.geti("repeat", 1)); rep++) {
      I.compute_integrals();
      if (order > 0) I.compute_first_derivs();
      if (order > 1) I.compute_second_derivs();
    }
    int ns = (int)I.shells.size(), ne = I.ecps.getN();
    std::fprintf(f, "case %s\n", c.id.c_str());
    put_int(f, "order", order); put_int(f, "natoms", I.natoms); put_int(f, "ncart", I.ncart);
    put_int(f, "nshells", ns); put_int(f, "necps", ne);
    std::vector<long> ls, sa, ea;
    std::vector<double> sc, ecs;
    for (auto& s : I.shells) { ls.push_back(s.l); sa.push_back(s.atom_id); for (int q = 0; q < 3; q++) sc.push_back(s.center()[q]); }
    for (int e = 0; e < ne; e++) { ea.push_back(I.ecps.getECP(e).atom_id); for (int q = 0; q < 3; q++) ecs.push_back(I.ecps.getECP(e).center()[q]); }
    put_ints(f, "shell_l", ls); put_ints(f, "shell_atom", sa); put_ints(f, "ecp_atom", ea);
    put_vec(f, "shell_centres", sc); put_vec(f, "ecp_centres", ecs);
    // API-level screen, replicated from compute_integrals with the integrator's own fields
    {
      int maxLB = I.maxLB; double min_alpha = I.min_alpha;
      double thresh = FAST_POW[maxLB+3]((maxLB+3.0)/min_alpha)*FAST_POW[3](M_PI/(2*maxLB+3.0));
      thresh /= FAST_POW[maxLB](2.0*M_EULER);
      thresh = TWO_C_TOLERANCE / std::sqrt(thresh);
      std::vector<long> mask;
      for (int s1 = 0; s1 < ns; s1++) for (int e = 0; e < ne; e++) {
        GaussianShell& A = I.shells[s1]; ECP& U = I.ecps.getECP(e);
        double ax = A.center()[0]-U.center_[0], ay = A.center()[1]-U.center_[1], az = A.center()[2]-U.center_[2];
        double sb = shell_bound(A.l, A.min_exp, ax*ax+ay*ay+az*az, U.min_exp);
        mask.push_back(sb > thresh ? 1 : 0);
      }
      put_ints(f, "mask", mask);
    }
    put_mat(f, "integrals", I.integrals);
    put_int(f, "n_first", (long)I.first_derivs.size()); put_int(f, "n_second", (long)I.second_derivs.size());
    for (size_t i = 0; i < I.first_derivs.size(); i++) put_mat(f, "first" + std::to_string(i), I.first_derivs[i]);
    for (size_t i = 0; i < I.second_derivs.size(); i++) put_mat(f, "second" + std::to_string(i), I.second_derivs[i]);
    for (int s1 = 0; s1 < ns; s1++) for (int s2 = 0; s2 <= s1; s2++) for (int e = 0; e < ne; e++) {
      std::string tag = std::to_string(s1) + "_" + std::to_string(s2) + "_" + std::to_string(e);
      TwoIndex<double> M; I.ecpint->compute_shell_pair(I.ecps.getECP(e), I.shells[s1], I.shells[s2], M);
      put_mat(f, "b0_" + tag, M);
      if (order > 0) {
        std::array<TwoIndex<double>, 9> r; I.ecpint->compute_shell_pair_derivative(I.ecps.getECP(e), I.shells[s1], I.shells[s2], r);
        for (int i = 0; i < 9; i++) put_mat(f, "b1_" + tag + "_" + std::to_string(i), r[i]);
      }
      if (order > 1) {
        std::array<TwoIndex<double>, 45> r; I.ecpint->compute_shell_pair_second_derivative(I.ecps.getECP(e), I.shells[s1], I.shells[s2], r);
        for (int i = 0; i < 45; i++) put_mat(f, "b2_" + tag + "_" + std::to_string(i), r[i]);
      }
    }
    std::fprintf(f, "end\n");
    verif::ctl() = verif::Ctl();
  }
  std::fclose(f);
  return 0;
}
