// C14 driver: BesselFunction(lMax, N, order, accuracy): dumps the K table, the derivative table at
// a few nodes, and both evaluators at the requested arguments.  The vector overload is called with
// a DIRTY vector (pre-filled with 7.0) so that entries it does not write are visible.
// usage: drv_bessel lMax N order accuracy zfile out
#include <vector>
#include <string>
#include <cstdio>
#include <cstdlib>
#include <cmath>
#include <fstream>
#define private public
#include "bessel.hpp"
#undef private
#include "mathutil.hpp"
using namespace libecpint;
int main(int argc, char** argv) {
  if (argc < 7) return 2;
  int lMax = std::atoi(argv[1]), N = std::atoi(argv[2]), order = std::atoi(argv[3]); double acc = std::strtod(argv[4], 0);
  initFactorials();
  // other instances are alive while the one under test is built and used: one with the same table size but a much looser series
  // cut-off and order, one re-initialised from loose to the tested parameters, one with other limits; an evaluator must depend on its
  // own parameters only
  BesselFunction other1(lMax, N, 30, 1e-6);
  BesselFunction other2(lMax > 2 ? lMax - 2 : lMax + 1, N, order, acc);
  BesselFunction b(lMax, N, 40, 1e-8); b.init(lMax, N, order, acc);
  BesselFunction other3(lMax, N, 30, 1e-5);
  FILE* f = std::fopen(argv[6], "w");
  std::fprintf(f, "case table\nint lMax %d\nint N %d\nint order %d\nmat acc 1 1 %a\n", lMax, N, order, acc);
  std::fprintf(f, "mat K %d %d", N + 1, lMax + TAYLOR_CUT + 1);
  for (int i = 0; i <= N; i++) for (int l = 0; l <= lMax + TAYLOR_CUT; l++) std::fprintf(f, " %a", b.K[i][l]);
  std::fprintf(f, "\n");
  // derivative tables: all nodes, n = 0..TAYLOR_CUT, l = 0..lMax (the entries the evaluators read)
  std::fprintf(f, "mat dK %d %d", N + 1, (TAYLOR_CUT + 1) * (lMax + 1));
  for (int i = 0; i <= N; i++) for (int n = 0; n <= TAYLOR_CUT; n++) for (int l = 0; l <= lMax; l++) std::fprintf(f, " %a", b.dK[i][n][l]);
  std::fprintf(f, "\nend\n");
  std::ifstream in(argv[5]); std::string s; long id = 0;
  while (in >> s) {
    double z = std::strtod(s.c_str(), 0);
    std::vector<double> v(lMax + 1, 7.0);
    b.calculate(z, lMax, v);
    std::fprintf(f, "case z%ld\nmat z 1 1 %a\nmat vec 1 %d", id++, z, lMax + 1);
    for (double x : v) std::fprintf(f, " %a", x);
    std::fprintf(f, "\nmat one 1 %d", lMax + 1);
    for (int l = 0; l <= lMax; l++) std::fprintf(f, " %a", b.calculate(z, l));
    std::fprintf(f, "\nmat ub 1 %d", lMax + 1);
    for (int l = 0; l <= lMax; l++) std::fprintf(f, " %a", b.upper_bound(z, l));
    std::fprintf(f, "\nend\n");
  }
  std::fclose(f); return 0;
}
