// C17 driver (built with ASan+UBSan, linked only with src/lib/gshell.cpp).
// Mode "obj": executes op histories on real GaussianShell objects living in a
// raw pool (placement new / explicit destructor calls) and compares, after
// every step, with the trace the extracted Coq model predicts.  Pointer
// targets are classified by ADDRESS comparison, never by dereferencing a
// pointer the model calls dangling.
// Mode "vec": executes std::vector<GaussianShell> operation sequences and
// prints each element's observable state for the abstract list spec.
#include <cstdio>
#include <cstdlib>
#include <cstring>
#include <string>
#include <vector>
#include <array>
#include <fstream>
#include <sstream>
#include <algorithm>
#include <new>
#include "gshell.hpp"
#include "multiarr.hpp"
using libecpint::GaussianShell;
using libecpint::TwoIndex; using libecpint::ThreeIndex; using libecpint::FiveIndex; using libecpint::SevenIndex;

static const int NSLOT = 64, NEXT = 16;
alignas(GaussianShell) static unsigned char pool[NSLOT][sizeof(GaussianShell)];
static bool live[NSLOT];
static double extmem[NEXT][3];
static GaussianShell* O(int x) { return reinterpret_cast<GaussianShell*>(pool[x]); }
static void setc(double* p, double c) { p[0] = c; p[1] = c + 0.25; p[2] = c + 0.5; }

static std::string pclass(int x, int nalloc) {
  double* p = O(x)->centerVec;
  if (p == O(x)->localCenter) return "self";
  for (int a = 0; a < NEXT; a++) if (p == extmem[a]) return "ext" + std::to_string(a);
  for (int j = 0; j < nalloc; j++) if (j != x && p == O(j)->localCenter) return (live[j] ? "other" : "dangling") + std::to_string(j);
  return "unknown";
}
static std::string listd(const std::vector<double>& v) { std::string s = "["; for (size_t i = 0; i < v.size(); i++) { if (i) s += ","; s += std::to_string((long)v[i]); } return s + "]"; }
static std::string field(const std::string& line, const std::string& key) {
  size_t p = line.find(" " + key + "="); if (p == std::string::npos) return "";
  p += key.size() + 2; size_t e = line.find(' ', p); return line.substr(p, e == std::string::npos ? std::string::npos : e - p);
}

static int run_obj(const char* pred, const char* outp) {
  std::ifstream in(pred); FILE* out = std::fopen(outp, "w"); std::string line, hid; int nalloc = 0; long nsteps = 0, ncmp = 0, nh = 0;
  std::string verdict; int stepk = -1;
  auto reset = [&]() { for (int x = 0; x < nalloc; x++) if (live[x]) { O(x)->~GaussianShell(); live[x] = false; } nalloc = 0; for (int a = 0; a < NEXT; a++) setc(extmem[a], 0.0); };
  while (std::getline(in, line)) {
    std::istringstream ss(line); std::string w; ss >> w;
    if (w == "hist") { reset(); ss >> hid; nh++; }
    else if (w == "step") {
      std::string op; ss >> stepk >> verdict >> op; nsteps++;
      long a = 0, b = 0, c = 0; ss >> a >> b >> c;
      auto fresh = [&]() { std::memset(pool[nalloc], 0xAB, sizeof(GaussianShell)); return (void*)pool[nalloc]; };
      if (op == "XE") { new (fresh()) GaussianShell(extmem[a], (int)b); live[nalloc++] = true; }
      else if (op == "XL") { std::array<double,3> cc = {(double)a, a + 0.25, a + 0.5}; new (fresh()) GaussianShell(cc, (int)b); live[nalloc++] = true; }
      else if (op == "CP") { if (a < nalloc && live[a]) { new (fresh()) GaussianShell(*O(a)); live[nalloc++] = true; } }
      else if (op == "AS") { if (a < nalloc && b < nalloc && live[a] && live[b]) *O(a) = *O(b); }
      else if (op == "CM") { if (a < nalloc && live[a]) { new (fresh()) GaussianShell(O(a)->copy()); live[nalloc++] = true; } }
      else if (op == "DE") { if (a < nalloc && live[a]) { O(a)->~GaussianShell(); live[a] = false; } }
      else if (op == "SL") { if (a < nalloc && live[a]) setc(O(a)->localCenter, (double)b); }
      else if (op == "SE") { setc(extmem[a], (double)b); }
      else if (op == "SA") { if (a < nalloc && live[a]) O(a)->atom_id = (int)b; }
      else if (op == "AP") { if (a < nalloc && live[a]) O(a)->addPrim((double)b, (double)c); }
      if (verdict != "ok") {
        // confirm the model's verdict on the implementation without touching indeterminate memory through the object
        bool conf = false; std::string how;
        if (verdict == "INV") {
          for (int x = 0; x < nalloc; x++) if (live[x] && O(x)->local_ptr && O(x)->centerVec != O(x)->localCenter) { conf = true; how = "object " + std::to_string(x) + " has local_ptr but centerVec -> " + pclass(x, nalloc); }
        } else if (verdict == "FID") {
          int x = nalloc - 1; int raw; std::memcpy(&raw, (unsigned char*)pool[x] + offsetof(GaussianShell, atom_id), sizeof(int));
          if (op == "CP" || op == "CM") { if (raw == (int)0xABABABAB) { conf = true; how = "atom_id of the new object was never written (poison pattern intact)"; } }
        }
        std::fprintf(out, "PROPVIOL %s step %d %s %s %s\n", hid.c_str(), stepk, verdict.c_str(), conf ? "CONFIRMED" : "unconfirmed", how.c_str());
      }
    } else if (w == "obj") {
      int x; std::string st; ss >> x >> st; ncmp++;
      if (x >= nalloc) { std::fprintf(out, "MODELMISMATCH %s step %d obj %d not allocated in implementation\n", hid.c_str(), stepk, x); continue; }
      if (st == "dead") { if (live[x]) std::fprintf(out, "MODELMISMATCH %s step %d obj %d model=dead impl=live\n", hid.c_str(), stepk, x); continue; }
      if (!live[x]) { std::fprintf(out, "MODELMISMATCH %s step %d obj %d model=live impl=dead\n", hid.c_str(), stepk, x); continue; }
      GaussianShell* g = O(x);
      auto mm = [&](const char* what, const std::string& m, const std::string& i) { if (m != i) std::fprintf(out, "MODELMISMATCH %s step %d obj %d %s model=%s impl=%s\n", hid.c_str(), stepk, x, what, m.c_str(), i.c_str()); };
      mm("exps", field(line, "exps"), listd(g->exps)); mm("coeffs", field(line, "coeffs"), listd(g->coeffs));
      std::string f;
      if ((f = field(line, "am")) != "?") mm("am", f, std::to_string(g->l));
      if ((f = field(line, "minexp")) != "?") mm("minexp", f, std::to_string((long)g->min_exp));
      if ((f = field(line, "lptr")) != "?") mm("lptr", f, g->local_ptr ? "1" : "0");
      std::string pc = field(line, "pc");
      if (pc != "none") mm("pointer", pc, pclass(x, nalloc));
      f = field(line, "centre");
      if (f != "indet" && f != "dangling" && f != "noptr" && pc == pclass(x, nalloc)) {
        double* p = g->center(); mm("centre", f, (p[1] == p[0] + 0.25 && p[2] == p[0] + 0.5) ? std::to_string((long)p[0]) : "garbled");
      }
      if ((f = field(line, "atom")) != "?") mm("atom", f, std::to_string(g->atom_id));
    }
  }
  reset();
  std::fprintf(out, "SUMMARY histories=%ld steps=%ld objects_compared=%ld\n", nh, nsteps, ncmp);
  std::fclose(out); return 0;
}

// vec mode: line "<id> op;op;..." ops: PU c l (push_back local shell) | PX a l (push_back external shell) | ER i | IN i c l | SO | SL i c | RS n (reserve)
static int run_vec(const char* hist, const char* outp) {
  std::ifstream in(hist); FILE* out = std::fopen(outp, "w"); std::string line;
  while (std::getline(in, line)) {
    size_t sp = line.find(' '); if (sp == std::string::npos) continue;
    std::string id = line.substr(0, sp); std::vector<GaussianShell> v; for (int a = 0; a < NEXT; a++) setc(extmem[a], 100.0 + a);
    std::fprintf(out, "hist %s\n", id.c_str());
    std::stringstream ops(line.substr(sp + 1)); std::string os; int k = 0;
    while (std::getline(ops, os, ';')) {
      std::istringstream ss(os); std::string op; long a = 0, b = 0, c = 0; ss >> op >> a >> b >> c; if (op.empty()) continue;
      if (op == "PU") { std::array<double,3> cc = {(double)a, a + 0.25, a + 0.5}; GaussianShell g(cc, (int)b); g.addPrim((double)a, 1.0); g.atom_id = (int)a; v.push_back(g); }
      else if (op == "PX") { GaussianShell g(extmem[a], (int)b); g.addPrim(100.0 + a, 1.0); g.atom_id = (int)a; v.push_back(g); }
      else if (op == "ER") { if ((size_t)a < v.size()) v.erase(v.begin() + a); }
      else if (op == "IN") { std::array<double,3> cc = {(double)b, b + 0.25, b + 0.5}; GaussianShell g(cc, (int)c); g.addPrim((double)b, 1.0); g.atom_id = (int)b; if ((size_t)a <= v.size()) v.insert(v.begin() + a, g); }
      else if (op == "SO") { std::stable_sort(v.begin(), v.end(), [](const GaussianShell& x, const GaussianShell& y) { return x.l < y.l; }); }
      else if (op == "SU") { std::sort(v.begin(), v.end(), [](const GaussianShell& x, const GaussianShell& y) { return x.exps[0] < y.exps[0]; }); }
      else if (op == "SL") { if ((size_t)a < v.size() && v[a].local_ptr) setc(v[a].localCenter, (double)b); }
      else if (op == "RS") { v.reserve((size_t)a); }
      std::fprintf(out, "step %d %s n=%zu", k++, op.c_str(), v.size());
      for (size_t i = 0; i < v.size(); i++) {
        GaussianShell& g = v[i]; std::string pc = "outside";
        if (g.centerVec == g.localCenter) pc = "self";
        else { for (int e = 0; e < NEXT; e++) if (g.centerVec == extmem[e]) pc = "ext";
               for (size_t j = 0; j < v.size(); j++) if (j != i && g.centerVec == v[j].localCenter) pc = "elem" + std::to_string(j); }
        // the first exponent carries the element's identity token; centre read only through a valid pointer
        long cen = (pc == "self" || pc == "ext" || pc.rfind("elem", 0) == 0) ? (long)g.centerVec[0] : -999;
        std::fprintf(out, " | %ld l=%d local=%d pc=%s c=%ld a=%d", (long)g.exps[0], g.l, g.local_ptr ? 1 : 0, pc.c_str(), cen, g.atom_id);
      }
      std::fprintf(out, "\n");
    }
  }
  std::fclose(out); return 0;
}

// arr mode: copy construction and assignment of the multi-index arrays between every pair of shapes of a small family
// (same shape, different element count, SAME element count with a different shape, empty), against a plain reference
// (dims + flat vector).  Lines "ARRMISMATCH <class> <what>"; "ARRSUMMARY checks=<n>".
template <class Arr, int ND> static long arr_pairs(const char* cls, const std::vector<std::array<int, ND>>& shapes, FILE* out,
                                                  void (*make)(Arr&, const std::array<int, ND>&)) {
  long checks = 0;
  auto same = [&](const Arr& x, const std::array<int, ND>& d, const std::vector<double>& v) {
    for (int i = 0; i < ND; i++) if (x.dims[i] != d[i]) return false;
    return x.data == v;
  };
  for (auto& sa : shapes) for (auto& sb : shapes) {
    Arr a, b; make(a, sa); make(b, sb);
    for (size_t i = 0; i < a.data.size(); i++) a.data[i] = 1.0 + i;
    for (size_t i = 0; i < b.data.size(); i++) b.data[i] = -100.0 - i;
    std::vector<double> ref = a.data;
    b = a; checks++;
    std::string tag; for (int i = 0; i < ND; i++) tag += (i ? "x" : "") + std::to_string(sb[i]); tag += " = "; for (int i = 0; i < ND; i++) tag += (i ? "x" : "") + std::to_string(sa[i]);
    if (!same(b, sa, ref)) std::fprintf(out, "ARRMISMATCH %s assignment %s : target has dims/data different from the source\n", cls, tag.c_str());
    if (!same(a, sa, ref)) std::fprintf(out, "ARRMISMATCH %s assignment %s : source changed\n", cls, tag.c_str());
    if (!b.data.empty()) { b.data[0] += 1.0; if (!same(a, sa, ref)) std::fprintf(out, "ARRMISMATCH %s assignment %s : target shares storage with the source\n", cls, tag.c_str()); }
    Arr c(a); checks++;
    if (!same(c, sa, ref)) std::fprintf(out, "ARRMISMATCH %s copy construction from %s : differs from the source\n", cls, tag.c_str());
    Arr& ar = a; a = ar; checks++;
    if (!same(a, sa, ref)) std::fprintf(out, "ARRMISMATCH %s self-assignment %s : changed\n", cls, tag.c_str());
  }
  return checks;
}
static int run_arr(const char*, const char* outp) {
  FILE* out = std::fopen(outp, "w"); long n = 0;
  n += arr_pairs<TwoIndex<double>, 2>("TwoIndex", {{0, 0}, {1, 1}, {2, 6}, {3, 4}, {6, 2}, {4, 3}, {3, 3}, {1, 12}}, out,
        [](TwoIndex<double>& x, const std::array<int, 2>& d) { x.assign(d[0], d[1], 0.0); });
  n += arr_pairs<ThreeIndex<double>, 3>("ThreeIndex", {{0, 0, 0}, {2, 3, 4}, {4, 3, 2}, {2, 2, 6}, {1, 1, 1}, {3, 3, 3}}, out,
        [](ThreeIndex<double>& x, const std::array<int, 3>& d) { x = ThreeIndex<double>(d[0], d[1], d[2]); });
  n += arr_pairs<FiveIndex<double>, 5>("FiveIndex", {{0, 0, 0, 0, 0}, {2, 1, 3, 1, 2}, {1, 2, 1, 3, 2}, {2, 2, 2, 1, 1}, {1, 1, 1, 1, 1}}, out,
        [](FiveIndex<double>& x, const std::array<int, 5>& d) { x = FiveIndex<double>(d[0], d[1], d[2], d[3], d[4]); });
  n += arr_pairs<SevenIndex<double>, 7>("SevenIndex", {{0, 0, 0, 0, 0, 0, 0}, {2, 1, 1, 3, 1, 2, 1}, {1, 2, 3, 1, 1, 1, 2}, {1, 1, 1, 1, 1, 1, 1}}, out,
        [](SevenIndex<double>& x, const std::array<int, 7>& d) { x = SevenIndex<double>(d[0], d[1], d[2], d[3], d[4], d[5], d[6]); });
  std::fprintf(out, "ARRSUMMARY checks=%ld\n", n);
  std::fclose(out); return 0;
}

int main(int argc, char** argv) {
  if (argc < 4) { std::fprintf(stderr, "usage: drv_copy obj|vec|arr in out\n"); return 2; }
  if (std::string(argv[1]) == "arr") return run_arr(argv[2], argv[3]);
  return std::string(argv[1]) == "obj" ? run_obj(argv[2], argv[3]) : run_vec(argv[2], argv[3]);
}
