// C17 driver for the aggregate classes (ECPBasis, ECPIntegrator, GCQuadrature): random histories of
//   copy-construct / assign / assign-inside-a-std::vector / mutate / destroy
// over a pool of live objects.  The reference for every object is its RECIPE: the list of construction and mutation steps
// that produced it (a copy or an assignment copies the recipe); after every step the observable state of every live
// object must equal the state of an object rebuilt from scratch by replaying its recipe (no copies involved): that is
// copy fidelity (all attributes carried) and independence (changing or destroying one object changes no other) at once.
// Built with ASan+UBSan.   usage: drv_copy2 <seed> <nhist> <len>
#include <vector>
#include <string>
#include <cstdio>
#include <cstdlib>
#include <cmath>
#include <memory>
#include <functional>
#define private public
#include "gaussquad.hpp"
#undef private
#include "api.hpp"
#include "ecp.hpp"
#include "gshell.hpp"
using namespace libecpint;

static unsigned long long S;
static unsigned long long nxt() { S += 0x9E3779B97F4A7C15ULL; unsigned long long z = S; z = (z ^ (z >> 30)) * 0xBF58476D1CE4E5B9ULL; z = (z ^ (z >> 27)) * 0x94D049BB133111EBULL; return z ^ (z >> 31); }
static int rnd(int n) { return (int)(nxt() % (unsigned long long)n); }
static double rndd() { return (double)(nxt() >> 11) / 9007199254740992.0; }

struct Mut { int kind; int i; double a, b, c; };
typedef std::vector<Mut> Recipe;

// ---------------------------------------------------------------- ECPBasis
static ECP mk_ecp(double a, double b, double c) {
  double pos[3] = {a, b, c}; ECP U(pos);
  U.addPrimitive(2, 0, 1.0 + a, 2.0 + b, false); U.addPrimitive(2, 1, 0.5 + std::fabs(b), -1.0 + c, false); U.addPrimitive(2, 2, 0.7 + std::fabs(c), 0.3 + a, true);
  return U;
}
static void apply(ECPBasis& B, const Mut& m) {
  if (m.kind == 0) B.addECP(mk_ecp(m.a, m.b, m.c), 30 + m.i);
  else if (m.kind == 1 && B.getN() > 0) B.getECP(m.i % B.getN()).setPos(m.a, m.b, m.c);
  else if (m.kind == 2 && B.getN() > 0) B.getECP(m.i % B.getN()).addPrimitive(2, m.i % 3, 0.2 + std::fabs(m.a), m.b, true);
  else if (m.kind == 3 && B.getN() > 0) B.getECP(m.i % B.getN()).atom_id = m.i;
}
static void dump(const ECPBasis& B, std::vector<double>& o) {
  o.push_back(B.getN()); o.push_back(B.getMaxL());
  for (int i = 0; i < B.getN(); i++) {
    const ECP& U = B.getECP(i); o.push_back(U.getN()); o.push_back(U.getL()); o.push_back(U.atom_id);
    for (int q = 0; q < 3; q++) o.push_back(U.center_[q]);
    for (int k = 0; k < U.getN(); k++) { const GaussianECP& g = U.getGaussian(k); o.push_back(g.n); o.push_back(g.l); o.push_back(g.a); o.push_back(g.d); }
    for (int l = 0; l <= U.getL() + 1; l++) o.push_back(U.l_starts[l]);
  }
}
static Mut rmut_basis() { Mut m; m.kind = rnd(4); m.i = rnd(7); m.a = rndd() * 2 - 1; m.b = rndd() * 2 - 1; m.c = rndd() * 2 - 1; return m; }

// ---------------------------------------------------------------- ECPIntegrator
static void build_integrator(ECPIntegrator& I, double sx) {
  double coords[9] = {0, 0, 0, 1.8 + sx, 0.2, -0.3, -0.5, 1.6, 0.7}; double exps[4] = {1.2, 0.4, 0.9, 0.6}; double coefs[4] = {0.7, 0.5, 1.0, 1.0};
  int ams[3] = {0, 1, 0}; int lens[3] = {2, 1, 1};
  I.set_gaussian_basis(3, coords, exps, coefs, ams, lens);
  double ec[6] = {0, 0, 0, -0.5, 1.6, 0.7}; double ee[4] = {1.1, 0.8, 0.9, 1.3}; double ed[4] = {2.0, -1.0, 1.5, 0.4}; int el[4] = {0, 1, 0, 1}; int en[4] = {2, 2, 2, 2}; int elen[2] = {2, 2};
  I.set_ecp_basis(2, ec, ee, ed, el, en, elen);
  I.init(1);
}
static void apply(ECPIntegrator& I, const Mut& m) {
  if (m.kind == 0) { double c[9] = {0, 0, 0, 1.8 + m.a, 0.2 + m.b, -0.3 + m.c, -0.5, 1.6, 0.7}; I.update_gaussian_basis_coords(3, c); }
  else if (m.kind == 1) { double c[6] = {0.05 * m.a, 0.05 * m.b, 0.05 * m.c, -0.5, 1.6, 0.7}; I.update_ecp_basis_coords(2, c); }
  else if (m.kind == 2) I.compute_integrals();
  else if (m.kind == 3) I.compute_first_derivs();
}
static void dump(const ECPIntegrator& I, std::vector<double>& o) {
  o.push_back(I.natoms); o.push_back(I.ncart); o.push_back(I.maxLB); o.push_back((double)I.shells.size());
  for (auto& s : I.shells) { o.push_back(s.l); o.push_back(s.atom_id); for (int q = 0; q < 3; q++) o.push_back(s.center()[q]); for (double e : s.exps) o.push_back(e); for (double c : s.coeffs) o.push_back(c); }
  dump(I.ecps, o);
  for (double v : I.integrals.data) o.push_back(v);
  o.push_back((double)I.first_derivs.size()); for (auto& m : I.first_derivs) for (double v : m.data) o.push_back(v);
}
static Mut rmut_integ() { Mut m; m.kind = rnd(4); m.i = 0; m.a = rndd() - 0.5; m.b = rndd() - 0.5; m.c = rndd() - 0.5; return m; }

// ---------------------------------------------------------------- GCQuadrature
static void apply(GCQuadrature& g, const Mut& m) {
  if (m.kind == 0) g.initGrid(7 + 8 * m.i, m.i % 2 ? ONEPOINT : TWOPOINT);
  else if (m.kind == 1) g.transformZeroInf();
  else if (m.kind == 2) g.transformRMinMax(0.5 + std::fabs(m.a) * 4, std::fabs(m.b) * 3);
}
static void dump(const GCQuadrature& g, std::vector<double>& o) { o.push_back(g.getN()); for (double v : g.getX()) o.push_back(v); for (double v : g.w) o.push_back(v); o.push_back(g.M); o.push_back((double)g.t); }
static Mut rmut_quad() { Mut m; m.kind = rnd(3); m.i = rnd(5); m.a = rndd(); m.b = rndd(); m.c = 0; return m; }

// ---------------------------------------------------------------- the generic history engine
template <class T> struct Engine {
  std::function<void(T&)> root; std::function<Mut()> rmut; const char* name;
  long nsteps = 0, ncmp = 0, nbad = 0;
  std::vector<double> replay(const Recipe& r) { T x; root(x); for (auto& m : r) apply(x, m); std::vector<double> o; dump(x, o); return o; }
  bool same(const std::vector<double>& a, const std::vector<double>& b) {
    if (a.size() != b.size()) return false;
    for (size_t i = 0; i < a.size(); i++) if (!(a[i] == b[i]) && !(std::isnan(a[i]) && std::isnan(b[i]))) return false;
    return true;
  }
  void run(int hid, int len) {
    std::vector<std::unique_ptr<T>> pool; std::vector<Recipe> rec; std::vector<std::string> ops;
    std::vector<T> vec; std::vector<Recipe> vrec;      // elements living inside a std::vector (element-wise assignment, relocation)
    pool.emplace_back(new T()); root(*pool[0]); rec.push_back(Recipe());
    for (int step = 0; step < len; step++) {
      int op = rnd(8); char buf[160];
      int n = (int)pool.size();
      if (op == 0 && n < 5) { int s = rnd(n); pool.emplace_back(new T(*pool[s])); rec.push_back(rec[s]); std::snprintf(buf, sizeof buf, "copy-construct #%d from #%d", n, s); }
      else if (op == 1 && n >= 2) { int d = rnd(n), s = rnd(n); *pool[d] = *pool[s]; rec[d] = rec[s]; std::snprintf(buf, sizeof buf, "assign #%d = #%d", d, s); }
      else if (op == 2) { int i = rnd(n); Mut m = rmut(); apply(*pool[i], m); rec[i].push_back(m); std::snprintf(buf, sizeof buf, "mutate #%d kind %d (%d %.3f %.3f %.3f)", i, m.kind, m.i, m.a, m.b, m.c); }
      else if (op == 3 && n >= 2) { int i = 1 + rnd(n - 1); pool.erase(pool.begin() + i); rec.erase(rec.begin() + i); std::snprintf(buf, sizeof buf, "destroy #%d", i); }
      else if (op == 4 && vec.size() < 4) { int s = rnd(n); vec.push_back(*pool[s]); vrec.push_back(rec[s]); std::snprintf(buf, sizeof buf, "vector.push_back(#%d)", s); }
      else if (op == 5 && vec.size() >= 2) { int d = rnd((int)vec.size()), s = rnd((int)vec.size()); vec[d] = vec[s]; vrec[d] = vrec[s]; std::snprintf(buf, sizeof buf, "vector[%d] = vector[%d]", d, s); }
      else if (op == 6 && !vec.empty()) { int i = rnd((int)vec.size()); Mut m = rmut(); apply(vec[i], m); vrec[i].push_back(m); std::snprintf(buf, sizeof buf, "mutate vector[%d] kind %d (%d %.3f %.3f %.3f)", i, m.kind, m.i, m.a, m.b, m.c); }
      else if (op == 7 && !vec.empty()) { int d = rnd(n), s = rnd((int)vec.size()); *pool[d] = vec[s]; rec[d] = vrec[s]; std::snprintf(buf, sizeof buf, "assign #%d = vector[%d]", d, s); }
      else continue;
      ops.push_back(buf); nsteps++;
      bool bad = false; std::string where;
      for (size_t i = 0; i < pool.size() && !bad; i++) { std::vector<double> o; dump(*pool[i], o); ncmp++; if (!same(o, replay(rec[i]))) { bad = true; where = "#" + std::to_string(i); } }
      for (size_t i = 0; i < vec.size() && !bad; i++) { std::vector<double> o; dump(vec[i], o); ncmp++; if (!same(o, replay(vrec[i]))) { bad = true; where = "vector[" + std::to_string(i) + "]"; } }
      if (bad) {
        nbad++;
        std::printf("PROPVIOL %s h%d step %zu object %s differs from the object rebuilt from its own recipe | ops:", name, hid, ops.size() - 1, where.c_str());
        for (auto& o : ops) std::printf(" [%s]", o.c_str());
        std::printf("\n");
        return;
      }
    }
  }
};

int main(int argc, char** argv) {
  S = argc > 1 ? std::strtoull(argv[1], 0, 10) : 1; int nh = argc > 2 ? std::atoi(argv[2]) : 50; int len = argc > 3 ? std::atoi(argv[3]) : 12;
  Engine<ECPBasis> eb; eb.name = "ECPBasis"; eb.root = [](ECPBasis& b) { b.addECP(mk_ecp(0.1, 0.2, 0.3), 29); }; eb.rmut = rmut_basis;
  Engine<ECPIntegrator> ei; ei.name = "ECPIntegrator"; ei.root = [](ECPIntegrator& I) { build_integrator(I, 0.0); }; ei.rmut = rmut_integ;
  Engine<GCQuadrature> eq; eq.name = "GCQuadrature"; eq.root = [](GCQuadrature& g) { g.initGrid(15, ONEPOINT); }; eq.rmut = rmut_quad;
  for (int h = 0; h < nh; h++) { eb.run(h, len); eq.run(h, len); if (h % 4 == 0) ei.run(h, len); }
  std::printf("SUMMARY ECPBasis steps=%ld cmp=%ld bad=%ld | ECPIntegrator steps=%ld cmp=%ld bad=%ld | GCQuadrature steps=%ld cmp=%ld bad=%ld\n",
              eb.nsteps, eb.ncmp, eb.nbad, ei.nsteps, ei.ncmp, ei.nbad, eq.nsteps, eq.ncmp, eq.nbad);
  return 0;
}
