// C02/C03 correspondence driver.
// For each case (two shells + one ECP) it dumps
//   * the shifted shell-pair blocks the derivative routines are built from,
//     obtained through the public compute_shell_pair(..., shiftA, shiftB)
//     exactly as the library obtains them (scaled coefficients included),
//   * the outputs of left_shell_derivative, left_shell_second_derivative,
//     mixed_second_derivative, compute_shell_pair_derivative and
//     compute_shell_pair_second_derivative.
// The extracted Coq model re-assembles the outputs from the blocks.
#include "vh.hpp"
using namespace vh;

static GaussianShell scaled(const GaussianShell& s, int times) {
  GaussianShell t = s.copy();
  for (int k = 0; k < times; k++)
    for (int i = 0; i < t.nprimitive(); i++) t.coeffs[i] *= t.exps[i];
  return t;
}

int main(int argc, char** argv) {
  if (argc < 3) { std::fprintf(stderr, "usage: drv_deriv cases out\n"); return 2; }
  auto cases = read_cases(argv[1]);
  FILE* f = std::fopen(argv[2], "w");
  for (auto& c : cases) {
    int order = (int)c.geti("order", 1);
    GaussianShell A = make_shell(c.shells[0]);
    GaussianShell B = make_shell(c.shells[1]);
    if (c.geti("mutate", 0) == 1) {
      // the shells are modified through their public members after construction (a renormalised contraction, rescaled exponents;
      // exponents only grow, so min_exp stays a lower bound)
      for (int i = 0; i < A.nprimitive(); i++) { A.coeffs[i] *= 1.7 + 0.31 * i; A.exps[i] *= 1.05 + 0.02 * i; }
      for (int i = 0; i < B.nprimitive(); i++) { B.coeffs[i] *= 0.6 + 0.23 * i; B.exps[i] *= 1.03 + 0.04 * i; }
    }
    ECP U = make_ecp(c.ecps[0]);
    int LA = A.am(), LB = B.am();
    int maxLB = std::max(LA, LB);
    ECPIntegral eng(maxLB, U.getL(), order);
    std::fprintf(f, "case %s\n", c.id.c_str());
    put_int(f, "order", order); put_int(f, "LA", LA); put_int(f, "LB", LB);
    std::fprintf(f, "mat centres 3 3 %a %a %a %a %a %a %a %a %a\n",
      A.center()[0], A.center()[1], A.center()[2], B.center()[0], B.center()[1], B.center()[2],
      U.center()[0], U.center()[1], U.center()[2]);
    TwoIndex<double> M;
    if (order == 1) {
      GaussianShell tA = scaled(A, 1), tB = scaled(B, 1);
      if (LA != 0) { eng.compute_shell_pair(U, A, B, M, -1, 0); put_mat(f, "QmA", M); }
      eng.compute_shell_pair(U, tA, B, M, 1, 0); put_mat(f, "QpA", M);
      if (LB != 0) { eng.compute_shell_pair(U, B, A, M, -1, 0); put_mat(f, "QmB", M); }
      eng.compute_shell_pair(U, tB, A, M, 1, 0); put_mat(f, "QpB", M);
      std::array<TwoIndex<double>, 3> q;
      eng.left_shell_derivative(U, A, B, q);
      for (int i = 0; i < 3; i++) put_mat(f, "lsdA" + std::to_string(i), q[i]);
      eng.left_shell_derivative(U, B, A, q);
      for (int i = 0; i < 3; i++) put_mat(f, "lsdB" + std::to_string(i), q[i]);
      std::array<TwoIndex<double>, 9> r;
      eng.compute_shell_pair_derivative(U, A, B, r);
      for (int i = 0; i < 9; i++) put_mat(f, "res" + std::to_string(i), r[i]);
    } else {
      GaussianShell tA = scaled(A, 1), tA2 = scaled(A, 2), tB = scaled(B, 1), tB2 = scaled(B, 2);
      if (LA > 1) { eng.compute_shell_pair(U, A, B, M, -2, 0); put_mat(f, "Qm2A", M); }
      eng.compute_shell_pair(U, tA, B, M, 0, 0); put_mat(f, "Q0A", M);
      eng.compute_shell_pair(U, tA2, B, M, 2, 0); put_mat(f, "Qp2A", M);
      if (LB > 1) { eng.compute_shell_pair(U, B, A, M, -2, 0); put_mat(f, "Qm2B", M); }
      eng.compute_shell_pair(U, tB, A, M, 0, 0); put_mat(f, "Q0B", M);
      eng.compute_shell_pair(U, tB2, A, M, 2, 0); put_mat(f, "Qp2B", M);
      if (LA > 0 && LB > 0) { eng.compute_shell_pair(U, A, B, M, -1, -1); put_mat(f, "Qmm", M); }
      if (LB > 0) { eng.compute_shell_pair(U, tA, B, M, 1, -1); put_mat(f, "Qpm", M); }
      if (LA > 0) { eng.compute_shell_pair(U, A, tB, M, -1, 1); put_mat(f, "Qmp", M); }
      eng.compute_shell_pair(U, tA, tB, M, 1, 1); put_mat(f, "Qpp", M);
      std::array<TwoIndex<double>, 6> q;
      eng.left_shell_second_derivative(U, A, B, q);
      for (int i = 0; i < 6; i++) put_mat(f, "lssdA" + std::to_string(i), q[i]);
      eng.left_shell_second_derivative(U, B, A, q);
      for (int i = 0; i < 6; i++) put_mat(f, "lssdB" + std::to_string(i), q[i]);
      std::array<TwoIndex<double>, 9> x;
      eng.mixed_second_derivative(U, A, B, x);
      for (int i = 0; i < 9; i++) put_mat(f, "mix" + std::to_string(i), x[i]);
      std::array<TwoIndex<double>, 45> r;
      eng.compute_shell_pair_second_derivative(U, A, B, r);
      for (int i = 0; i < 45; i++) put_mat(f, "res" + std::to_string(i), r[i]);
    }
    std::fprintf(f, "end\n");
  }
  std::fclose(f);
  return 0;
}
