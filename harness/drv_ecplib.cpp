// C16 driver: loads every element of every shipped set through
// ECPBasis::addECP_from_file and dumps the resulting ECP object.
// usage: drv_ecplib <share_dir> <list: "set q"> <radii: comma list> <out>
#include "vh.hpp"
#include <map>
using namespace vh;
int main(int argc, char** argv) {
  if (argc < 5) return 2;
  std::string share = argv[1]; std::ifstream in(argv[2]); FILE* f = std::fopen(argv[4], "w");
  std::vector<double> radii; { std::stringstream ss(argv[3]); std::string t; while (std::getline(ss, t, ',')) radii.push_back(tod(t)); }
  initFactorials();
  std::string set; int q;
  ECPBasis shared; long nshared = 0, shared_bad = 0;   // one long-lived basis receiving every (set, element) in turn
  std::map<std::string, std::vector<int>> bysets; std::map<std::pair<std::string, int>, int> coreref; std::vector<std::string> setorder;
  while (in >> set >> q) {
    ECPBasis b; std::array<double,3> c = {0.1, -0.2, 0.3};
    b.addECP_from_file(q, c, share + "/xml/" + set + ".xml");
    ECP& U = b.getECP(0);
    if (!bysets.count(set)) setorder.push_back(set);
    bysets[set].push_back(q); coreref[{set, q}] = b.getECPCore(q);
    std::fprintf(f, "case %s:%s\n", set.c_str(), atom_names[q-1].c_str());
    put_int(f, "N", U.getN()); put_int(f, "L", U.getL()); put_int(f, "core", b.getECPCore(q)); put_int(f, "nstored", (long)U.gaussians.size());
    put_int(f, "basisN", b.getN()); put_int(f, "basisMaxL", b.getMaxL());
    std::vector<long> ls; for (int i = 0; i < LIBECPINT_MAX_L + 2; i++) ls.push_back(U.l_starts[i]); put_ints(f, "l_starts", ls);
    std::vector<double> me; me.push_back(U.min_exp); for (int i = 0; i <= LIBECPINT_MAX_L; i++) me.push_back(U.min_exp_l[i]); put_vec(f, "min_exp", me);
    std::fprintf(f, "mat centre 1 3 %a %a %a\n", U.center()[0], U.center()[1], U.center()[2]);
    std::fprintf(f, "mat prims %d 4", (int)U.gaussians.size());
    for (auto& g : U.gaussians) std::fprintf(f, " %a %a %a %a", (double)g.n, (double)g.l, g.a, g.d);
    std::fprintf(f, "\n");
    std::fprintf(f, "mat eval %d %d", U.getL() + 1, (int)radii.size());
    for (int l = 0; l <= U.getL(); l++) for (double r : radii) std::fprintf(f, " %a", U.evaluate(r, l));
    std::fprintf(f, "\nend\n");
    // the same load into the long-lived basis must give the same object whatever was loaded before
    shared.addECP_from_file(q, c, share + "/xml/" + set + ".xml"); nshared++;
    bool same = (shared.getN() == nshared);
    if (same) {
      ECP& V = shared.getECP((int)nshared - 1);
      same = V.getN() == U.getN() && V.getL() == U.getL() && V.gaussians.size() == U.gaussians.size() && V.min_exp == U.min_exp;
      for (size_t i = 0; same && i < U.gaussians.size(); i++)
        same = V.gaussians[i].n == U.gaussians[i].n && V.gaussians[i].l == U.gaussians[i].l && V.gaussians[i].a == U.gaussians[i].a && V.gaussians[i].d == U.gaussians[i].d;
      for (int i = 0; same && i < LIBECPINT_MAX_L + 2; i++) same = V.l_starts[i] == U.l_starts[i];
      for (int i = 0; same && i < 3; i++) same = V.center()[i] == U.center()[i];
    }
    if (!same) { shared_bad++; std::printf("SHAREDMISMATCH %s:%s loaded as entry %ld of a basis that already held other elements/sets differs from the same load into a fresh basis\n", set.c_str(), atom_names[q-1].c_str(), nshared); }
  }
  // the elements of each set loaded into ONE basis in other orders (heaviest first; from the middle outwards): after every addition the core
  // count of every element loaded so far must be the one a fresh basis reports
  long norder = 0;
  for (auto& sname : setorder) {
    std::vector<int> asc = bysets[sname];
    std::vector<std::vector<int>> orders;
    orders.push_back(std::vector<int>(asc.rbegin(), asc.rend()));
    { std::vector<int> mid; int n = (int)asc.size(); for (int k = 0; k < n; k++) { int i = n / 2 + ((k % 2) ? (k + 1) / 2 : -(k / 2)); if (i >= 0 && i < n) mid.push_back(asc[i]); } orders.push_back(mid); }
    for (auto& ord : orders) {
      ECPBasis d; std::array<double,3> c = {0.1, -0.2, 0.3}; std::vector<int> sofar;
      for (int qq : ord) {
        d.addECP_from_file(qq, c, share + "/xml/" + sname + ".xml"); sofar.push_back(qq); norder++;
        for (int r : sofar) if (d.getECPCore(r) != coreref[{sname, r}]) {
          shared_bad++;
          std::printf("SHAREDMISMATCH %s:%s getECPCore = %d after loading %s first (a fresh basis reports %d)\n", sname.c_str(), atom_names[r-1].c_str(), d.getECPCore(r), atom_names[ord[0]-1].c_str(), coreref[{sname, r}]);
          goto next_order;
        }
      }
      next_order: ;
    }
  }
  std::printf("SHARED loads=%ld other_order_loads=%ld mismatches=%ld\n", nshared, norder, shared_bad);
  std::fclose(f); return 0;
}
