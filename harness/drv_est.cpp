// C06 driver: the primitive screening estimate RadialIntegral::estimate_type2 on a list of parameter tuples, together
// with the Bessel K table its upper_bound reads (the RadialIntegral's own BesselFunction), for the extracted model.
// tuple line: id N l1 l2 n a b A B      usage: drv_est tuples out
#include <vector>
#include <string>
#include <cstdio>
#include <cstdlib>
#include <cmath>
#include <fstream>
#include <sstream>
#define private public
#include "bessel.hpp"
#include "radial.hpp"
#undef private
#include "mathutil.hpp"
using namespace libecpint;
int main(int argc, char** argv) {
  if (argc < 3) return 2;
  initFactorials();
  RadialIntegral R; R.init(15, 1e-15, 256, 1024);
  BesselFunction& b = R.bessie;
  FILE* f = std::fopen(argv[2], "w");
  std::fprintf(f, "case table\nint lMax %d\nint N %d\nmat K %d %d", b.lMax, b.N, b.N + 1, b.lMax + 1);
  for (int i = 0; i <= b.N; i++) for (int l = 0; l <= b.lMax; l++) std::fprintf(f, " %a", b.K[i][l]);
  std::fprintf(f, "\nend\n");
  std::ifstream in(argv[1]); std::string line;
  while (std::getline(in, line)) {
    std::istringstream ss(line); std::string id, sn, sa, sb, sA, sB; int N, l1, l2;
    if (!(ss >> id >> N >> l1 >> l2 >> sn >> sa >> sb >> sA >> sB)) continue;
    double n = std::strtod(sn.c_str(), 0), a = std::strtod(sa.c_str(), 0), bb = std::strtod(sb.c_str(), 0), A = std::strtod(sA.c_str(), 0), B = std::strtod(sB.c_str(), 0);
    double e = R.estimate_type2(N, l1, l2, n, a, bb, A, B);
    std::fprintf(f, "case %s\nint N %d\nint l1 %d\nint l2 %d\nmat prm 1 5 %a %a %a %a %a\nmat est 1 1 %a\nend\n", id.c_str(), N, l1, l2, n, a, bb, A, B, e);
  }
  std::fclose(f); return 0;
}
