// C05 driver: executes call histories on one long-lived ECPIntegrator and
// compares, after every step,
//  (a) with the trace the Coq history model predicts (formal sums of
//      evaluations at coordinate versions; each version evaluated by a FRESH
//      integrator) -> MODELMISMATCH lines (ties the model to the code);
//  (b) the property itself: right after compute op X, container X must equal
//      the fresh integrator's at the current coordinates, with the documented
//      length -> PROPVIOL lines.
// usage: drv_hist system.txt predictions.txt out.txt
#include "vh.hpp"
#include <map>
using namespace vh;

struct Sys { std::vector<double> sc, se, sd; std::vector<int> sam, slen; std::vector<double> ec, ee, ed; std::vector<int> el, en, elen; int ns, ne; };

static Sys flatten(const Case& c) {
  Sys s; s.ns = (int)c.shells.size(); s.ne = (int)c.ecps.size();
  for (auto& sh : c.shells) { s.sc.insert(s.sc.end(), sh.c.begin(), sh.c.end()); s.sam.push_back(sh.l); s.slen.push_back((int)sh.e.size());
    s.se.insert(s.se.end(), sh.e.begin(), sh.e.end()); s.sd.insert(s.sd.end(), sh.d.begin(), sh.d.end()); }
  for (auto& u : c.ecps) { s.ec.insert(s.ec.end(), u.c.begin(), u.c.end()); s.elen.push_back((int)u.p.size());
    for (auto& p : u.p) { s.ee.push_back(p.a); s.ed.push_back(p.d); s.el.push_back(p.l); s.en.push_back(p.n); } }
  return s;
}
static void build(ECPIntegrator& I, const Sys& s, const std::vector<double>& sc, const std::vector<double>& ec) {
  I.set_gaussian_basis(s.ns, sc.data(), s.se.data(), s.sd.data(), s.sam.data(), s.slen.data());
  I.set_ecp_basis(s.ne, ec.data(), s.ee.data(), s.ed.data(), s.el.data(), s.en.data(), s.elen.data());
  I.init(2);
}

struct Fresh { TwoIndex<double> ints; std::vector<TwoIndex<double>> f, s; };
struct Group { int count; std::vector<std::pair<int,int>> sum; };

static double maxabs(const TwoIndex<double>& m) { double a = 0; for (double v : m.data) a = std::max(a, std::fabs(v)); return a; }

int main(int argc, char** argv) {
  if (argc < 4) { std::fprintf(stderr, "usage\n"); return 2; }
  auto cases = read_cases(argv[1]);
  const Case& c = cases[0];
  Sys sys = flatten(c);
  // which shells / ecps move: "mshell i j ..." / "mecp i j ...", displacement table "disp v dx dy dz"
  std::vector<int> mshell, mecp, mecp_plus; std::map<int, std::array<double,3>> disp;
  for (auto& kv : c.extra) {
    if (kv.first == "mshell") for (auto& t : kv.second) mshell.push_back(std::atoi(t.c_str()));
    if (kv.first == "mecp") for (auto& t : kv.second) mecp.push_back(std::atoi(t.c_str()));
    if (kv.first == "mecp_plus") for (auto& t : kv.second) mecp_plus.push_back(std::atoi(t.c_str()));   // ECPs that move WITH the shells of their atom
    if (kv.first == "disp") disp[std::atoi(kv.second[0].c_str())] = {tod(kv.second[1]), tod(kv.second[2]), tod(kv.second[3])};
  }
  disp[0] = {0, 0, 0};
  auto scoords = [&](int v) { std::vector<double> r = sys.sc; for (int i : mshell) for (int q = 0; q < 3; q++) r[3*i+q] = sys.sc[3*i+q] + disp[v][q]; return r; };
  auto ecoords = [&](int v) { std::vector<double> r = sys.ec; for (int i : mecp) for (int q = 0; q < 3; q++) r[3*i+q] = sys.ec[3*i+q] - disp[v][q];
                            for (int i : mecp_plus) for (int q = 0; q < 3; q++) r[3*i+q] = sys.ec[3*i+q] + disp[v][q]; return r; };
  std::map<std::pair<int,int>, Fresh> cache;
  auto fresh = [&](int sv, int ev) -> Fresh& {
    auto key = std::make_pair(sv, ev);
    auto it = cache.find(key);
    if (it != cache.end()) return it->second;
    ECPIntegrator J; build(J, sys, scoords(sv), ecoords(ev));
    J.compute_integrals(); J.compute_first_derivs(); J.compute_second_derivs();
    Fresh f; f.ints = J.integrals; f.f = J.first_derivs; f.s = J.second_derivs;
    return cache[key] = f;
  };
  int natoms0; { ECPIntegrator J; build(J, sys, sys.sc, sys.ec); natoms0 = J.natoms; }
  FILE* out = std::fopen(argv[3], "w");
  std::fprintf(out, "natoms %d\n", natoms0);
  std::ifstream pin(argv[2]); std::string line;
  ECPIntegrator* I = nullptr; int sv = 0, ev = 0; std::string hid; std::vector<std::string> ops;
  long nsteps = 0, nhist = 0, nentries = 0;
  auto parse_groups = [&](std::istringstream& ss) { int ng; ss >> ng; std::vector<Group> g(ng);
    for (auto& x : g) { int ns_; ss >> x.count >> ns_; x.sum.resize(ns_); for (auto& v : x.sum) ss >> v.first >> v.second; } return g; };
  while (std::getline(pin, line)) {
    std::istringstream ss(line); std::string w; ss >> w;
    if (w == "hist") {
      delete I; I = new ECPIntegrator(); build(*I, sys, sys.sc, sys.ec); sv = ev = 0;
      ss >> hid; ops.clear(); while (ss >> w) ops.push_back(w); nhist++;
    } else if (w == "step") {
      int k; ss >> k; const std::string& op = ops[k]; nsteps++;
      if (op.rfind("US", 0) == 0) { sv = std::atoi(op.c_str() + 2); auto cs = scoords(sv); I->update_gaussian_basis_coords(sys.ns, cs.data()); }
      else if (op.rfind("UE", 0) == 0) { ev = std::atoi(op.c_str() + 2); auto ce = ecoords(ev); I->update_ecp_basis_coords(sys.ne, ce.data()); }
      else if (op == "IN") I->init(2);       // init() again on the same integrator: engine rebuilt, atom ids re-derived from the current coordinates
      else if (op == "CI") I->compute_integrals();
      else if (op == "CF") I->compute_first_derivs();
      else if (op == "CS") I->compute_second_derivs();
      // predictions
      std::string tag; std::vector<Group> gi, gf, gs;
      ss >> tag; gi = parse_groups(ss); ss >> tag; gf = parse_groups(ss); ss >> tag; gs = parse_groups(ss);
      // (a) model trace vs implementation
      auto check = [&](const char* name, const std::vector<Group>& g, size_t len, std::function<const TwoIndex<double>&(size_t)> get,
                       std::function<const TwoIndex<double>&(Fresh&, size_t)> fget, size_t nfresh) {
        size_t plen = 0; for (auto& x : g) plen += x.count;
        if (plen != len) { std::fprintf(out, "MODELMISMATCH %s step %d %s length impl=%zu model=%zu\n", hid.c_str(), k, name, len, plen); return; }
        size_t j = 0;
        for (auto& x : g) for (int r = 0; r < x.count; r++, j++) {
          const TwoIndex<double>& m = get(j); nentries++;
          if (x.sum.empty()) { if (maxabs(m) != 0.0) std::fprintf(out, "MODELMISMATCH %s step %d %s[%zu] model=zero impl max=%g\n", hid.c_str(), k, name, j, maxabs(m)); continue; }
          if (j >= nfresh) { std::fprintf(out, "MODELMISMATCH %s step %d %s[%zu] non-empty sum beyond fresh length\n", hid.c_str(), k, name, j); continue; }
          std::vector<double> acc(m.data.size(), 0.0); double scale = 1e-300;
          for (auto& v : x.sum) { const TwoIndex<double>& fm = fget(fresh(v.first, v.second), j);
            if (fm.data.size() != acc.size()) { std::fprintf(out, "MODELMISMATCH %s step %d %s[%zu] dims\n", hid.c_str(), k, name, j); break; }
            for (size_t t = 0; t < acc.size(); t++) { acc[t] += fm.data[t]; scale = std::max(scale, std::fabs(fm.data[t])); } }
          double dmax = 0; for (size_t t = 0; t < acc.size(); t++) dmax = std::max(dmax, std::fabs(acc[t] - m.data[t]));
          if (!(dmax <= 1e-12 * scale)) std::fprintf(out, "MODELMISMATCH %s step %d %s[%zu] dev=%g scale=%g\n", hid.c_str(), k, name, j, dmax, scale);
        }
      };
      Fresh& cur = fresh(sv, ev);
      bool has_int = I->integrals.data.size() > 0;
      check("integrals", gi, has_int ? 1 : 0, [&](size_t) -> const TwoIndex<double>& { return I->integrals; },
            [&](Fresh& f, size_t) -> const TwoIndex<double>& { return f.ints; }, 1);
      check("first_derivs", gf, I->first_derivs.size(), [&](size_t j) -> const TwoIndex<double>& { return I->first_derivs[j]; },
            [&](Fresh& f, size_t j) -> const TwoIndex<double>& { return f.f[j]; }, cur.f.size());
      check("second_derivs", gs, I->second_derivs.size(), [&](size_t j) -> const TwoIndex<double>& { return I->second_derivs[j]; },
            [&](Fresh& f, size_t j) -> const TwoIndex<double>& { return f.s[j]; }, cur.s.size());
      // (b) the property, right after a compute call
      auto prop = [&](const char* name, size_t len, size_t doc_len, std::function<const TwoIndex<double>&(size_t)> get,
                      std::function<const TwoIndex<double>&(size_t)> fget) {
        if (len != doc_len) { std::fprintf(out, "PROPVIOL %s step %d %s length=%zu documented=%zu\n", hid.c_str(), k, name, len, doc_len); }
        for (size_t j = 0; j < std::min(len, doc_len); j++) {
          const TwoIndex<double>& a = get(j); const TwoIndex<double>& b = fget(j);
          double dmax = 0, scale = 1e-300;
          if (a.data.size() != b.data.size()) { std::fprintf(out, "PROPVIOL %s step %d %s[%zu] dims differ\n", hid.c_str(), k, name, j); return; }
          for (size_t t = 0; t < a.data.size(); t++) { dmax = std::max(dmax, std::fabs(a.data[t] - b.data[t])); scale = std::max(scale, std::fabs(b.data[t])); }
          if (!(dmax <= 1e-12 * scale)) { std::fprintf(out, "PROPVIOL %s step %d %s[%zu] differs from fresh integrator: dev=%g scale=%g\n", hid.c_str(), k, name, j, dmax, scale); return; }
        }
      };
      size_t n1 = 3 * (size_t)natoms0, n2 = n1 * (n1 + 1) / 2;
      if (op == "CI") prop("integrals", 1, 1, [&](size_t) -> const TwoIndex<double>& { return I->integrals; }, [&](size_t) -> const TwoIndex<double>& { return cur.ints; });
      if (op == "CF") prop("first_derivs", I->first_derivs.size(), n1, [&](size_t j) -> const TwoIndex<double>& { return I->first_derivs[j]; }, [&](size_t j) -> const TwoIndex<double>& { return cur.f[j]; });
      if (op == "CS") prop("second_derivs", I->second_derivs.size(), n2, [&](size_t j) -> const TwoIndex<double>& { return I->second_derivs[j]; }, [&](size_t j) -> const TwoIndex<double>& { return cur.s[j]; });
    }
  }
  std::fprintf(out, "SUMMARY histories=%ld steps=%ld entries=%ld versions=%zu\n", nhist, nsteps, nentries, cache.size());
  std::fclose(out);
  delete I;
  return 0;
}
