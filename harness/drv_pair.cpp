// C01/C06/C07/C08 driver: compute_shell_pair (and optionally derivative blocks) for two shells and one
// ECP, as the library selects and with individual decisions forced the other way (hooks).
// extra keys per case:  deriv 0|1|2   modes "d nt ns nsnt" (subset)
// mode fq: tail cut and screens off, and the closed form bypassed ONLY for primitive pairs with min(a*A, b*B) < 1
// (the region the recorded finding F-C12-closedform is about); closed-form cases with a*A, b*B >= 1 stay closed-form.
#include "vh.hpp"
#include "verif_hooks.hpp"
using namespace vh;
static void put_trace(FILE* f) {
  verif::Ctl& c = verif::ctl();
  std::fprintf(f, "ints trace 12 %ld %ld %ld %ld %ld %ld %ld %ld %ld %ld %ld %ld\n", c.closed_form, c.quadrature, c.prim_screened, c.tail_calls, c.tail_fired,
               c.shellpair_l_screened, c.shellpair_type1_screened, c.type1_nonconverged, c.small_grid_failed, c.quad_not_converged, (long)c.tail_last_index, (long)c.tail_grid);
}
int main(int argc, char** argv) {
  if (argc < 3) return 2;
  auto cases = read_cases(argv[1]); FILE* f = std::fopen(argv[2], "w");
  for (auto& c : cases) {
    GaussianShell A = make_shell(c.shells[0]), B = make_shell(c.shells[1]); ECP U = make_ecp(c.ecps[0]);
    int deriv = (int)c.geti("deriv", 0);
    ECPIntegral eng(std::max(A.am(), B.am()), U.getL(), deriv);
    std::fprintf(f, "case %s\nint LA %d\nint LB %d\nint L %d\n", c.id.c_str(), A.am(), B.am(), U.getL());
    struct Mode { const char* tag; bool nt, ns, cont, fq; int site; int defer; };
    Mode modes[] = {{"d", false, false, false, false}, {"nt", true, false, false, false}, {"ns", false, true, false, false}, {"nsnt", true, true, false, false}, {"all", true, true, true, false}, {"fq", true, true, true, true}, {"nsl", false, false, false, false, 1}, {"nsp", false, false, false, false, 2}, {"qd", false, false, false, false, 0, 3}, {"qd1", false, false, false, false, 0, 1}, {"qd2", false, false, false, false, 0, 2}, {"qd2nt", true, true, false, false, 0, 2}, {"qd1nt", true, false, false, false, 0, 1}};
    for (auto& m : modes) {
      verif::ctl() = verif::Ctl(); verif::ctl().no_tail_cut = m.nt; verif::ctl().no_screen = m.ns; verif::ctl().continue_after_nonconv = m.cont; verif::ctl().force_quadrature_below = m.fq ? 1.0 : 0.0; verif::ctl().no_screen_l = (m.site == 1); verif::ctl().no_screen_prim = (m.site == 2); verif::ctl().quad_defer = m.defer;
      TwoIndex<double> v; eng.compute_shell_pair(U, A, B, v);
      put_mat(f, std::string("v_") + m.tag, v);
      if (std::string(m.tag) == "d") put_trace(f);
      // derivative blocks (deriv 1: the nine first-derivative matrices; deriv 2: also the 45 second-derivative matrices), one after
      // the other in one row-major matrix, for the default mode and with every screen bypassed
      if (deriv >= 1 && (std::string(m.tag) == "d" || std::string(m.tag) == "ns" || std::string(m.tag) == "nsl" || std::string(m.tag) == "nsp")) {
        verif::ctl().reset_trace();
        std::array<TwoIndex<double>, 9> r1; eng.compute_shell_pair_derivative(U, A, B, r1);
        TwoIndex<double> g(9 * r1[0].dims[0], r1[0].dims[1], 0.0);
        for (int b = 0; b < 9; b++) for (int i = 0; i < r1[b].dims[0]; i++) for (int j = 0; j < r1[b].dims[1]; j++) g(b * r1[0].dims[0] + i, j) = r1[b](i, j);
        put_mat(f, std::string("g_") + m.tag, g);
        if (deriv >= 2) {
          std::array<TwoIndex<double>, 45> r2; eng.compute_shell_pair_second_derivative(U, A, B, r2);
          TwoIndex<double> h(45 * r2[0].dims[0], r2[0].dims[1], 0.0);
          for (int b = 0; b < 45; b++) for (int i = 0; i < r2[b].dims[0]; i++) for (int j = 0; j < r2[b].dims[1]; j++) h(b * r2[0].dims[0] + i, j) = r2[b](i, j);
          put_mat(f, std::string("h_") + m.tag, h);
        }
        // how many per-l channels / type-1 parts / primitive quadratures the screens dropped inside the derivative routines (default mode)
        if (std::string(m.tag) == "d") std::fprintf(f, "ints dtrace 3 %ld %ld %ld\n", verif::ctl().shellpair_l_screened, verif::ctl().shellpair_type1_screened, verif::ctl().prim_screened);
      }
    }
    verif::ctl() = verif::Ctl();
    std::fprintf(f, "end\n");
  }
  std::fclose(f); return 0;
}
