// C01 tight (skeleton) correspondence driver: for each case dumps the LEAVES compute_shell_pair consumes
// (obtained from the engine's own radial and angular integrators with the same calls the library makes)
// and the block it returns; the extracted ShellPairModel re-assembles the block from the leaves.
// extra keys per case: tri_<lam>_A "N,l1,l2 ..."  tri_<lam>_B "..."  nbase_<lam> n   (from T-gen, for the general branch)
#include <vector>
#include <array>
#include <string>
#include <cstdio>
#include <cmath>
#include <sstream>
#include <fstream>
#include <iostream>
#include <tuple>
#include <algorithm>
#include <functional>
#include <map>
#include <memory>
#define private public
#include "ecpint.hpp"
#undef private
#include "vh.hpp"
using namespace vh;

static std::vector<Triple> parse_triples(const std::vector<std::string>* toks) {
  std::vector<Triple> r; if (!toks) return r;
  for (auto& t : *toks) { int a, b, c; if (std::sscanf(t.c_str(), "%d,%d,%d", &a, &b, &c) == 3) r.push_back(Triple{a, b, c}); }
  return r;
}
static void put3(FILE* f, const std::string& name, const ThreeIndex<double>& m) {
  std::fprintf(f, "mat %s %d %d", name.c_str(), m.dims[0], m.dims[1] * m.dims[2]);
  for (double v : m.data) std::fprintf(f, " %a", v);
  std::fprintf(f, "\n");
}

int main(int argc, char** argv) {
  if (argc < 3) return 2;
  auto cases = read_cases(argv[1]); FILE* f = std::fopen(argv[2], "w");
  int maxLB = (int)std::strtol(argv[3], 0, 10), maxLU = (int)std::strtol(argv[4], 0, 10);
  ECPIntegral eng(maxLB, maxLU, 0);
  for (auto& c : cases) {
    GaussianShell A = make_shell(c.shells[0]), B = make_shell(c.shells[1]); ECP U = make_ecp(c.ecps[0]);
    ShellPairData data; const double* C = U.center();
    for (int q = 0; q < 3; q++) { data.A[q] = A.center()[q] - C[q]; data.B[q] = B.center()[q] - C[q]; }
    data.LA = A.am(); data.LB = B.am(); data.maxLBasis = std::max(data.LA, data.LB);
    data.ncartA = (data.LA+1)*(data.LA+2)/2; data.ncartB = (data.LB+1)*(data.LB+2)/2;
    data.A2 = data.A[0]*data.A[0] + data.A[1]*data.A[1] + data.A[2]*data.A[2]; data.Am = std::sqrt(data.A2); data.A_on_ecp = (data.Am < 1e-6);
    data.B2 = data.B[0]*data.B[0] + data.B[1]*data.B[1] + data.B[2]*data.B[2]; data.Bm = std::sqrt(data.B2); data.B_on_ecp = (data.Bm < 1e-6);
    double RAB[3] = {data.A[0]-data.B[0], data.A[1]-data.B[1], data.A[2]-data.B[2]};
    data.RAB2 = RAB[0]*RAB[0] + RAB[1]*RAB[1] + RAB[2]*RAB[2]; data.RABm = std::sqrt(data.RAB2);
    const auto prm = eng.radInts.buildParameters(A, B, data);
    int L = U.getL(), LA = data.LA, LB = data.LB;
    std::fprintf(f, "case %s\nint LA %d\nint LB %d\nint L %d\nint noType1 %d\nint onA %d\nint onB %d\n", c.id.c_str(), LA, LB, L, U.noType1() ? 1 : 0, data.A_on_ecp, data.B_on_ecp);
    std::fprintf(f, "mat rel 2 3 %a %a %a %a %a %a\n", data.A[0], data.A[1], data.A[2], data.B[0], data.B[1], data.B[2]);
    std::vector<double> scr(L + 1); eng.estimate_type2(U, A, B, data, scr.data()); put_vec(f, "screens", scr);
    std::fprintf(f, "mat tolerance 1 1 %a\n", (double)ECPIntegral::tolerance);
    // shells and ECP primitives (n already reduced by two, as stored)
    { std::fprintf(f, "mat primsA %d 2", A.nprimitive()); for (int i = 0; i < A.nprimitive(); i++) std::fprintf(f, " %a %a", A.exp(i), A.coef(i)); std::fprintf(f, "\n");
      std::fprintf(f, "mat primsB %d 2", B.nprimitive()); for (int i = 0; i < B.nprimitive(); i++) std::fprintf(f, " %a %a", B.exp(i), B.coef(i)); std::fprintf(f, "\n");
      std::fprintf(f, "mat primsU %d 4", U.getN()); for (int i = 0; i < U.getN(); i++) { auto& g = U.getGaussian(i); std::fprintf(f, " %a %a %a %a", (double)g.n, (double)g.l, g.a, g.d); } std::fprintf(f, "\n"); }
    { std::fprintf(f, "mat gamma 1 30"); for (int i = 0; i < 30; i++) std::fprintf(f, " %a", GAMMA[i]); std::fprintf(f, "\n"); }
    // type-1 radials
    bool doT1 = !U.noType1() && scr[L] > ECPIntegral::tolerance;
    if (doT1) for (int ix = 0; ix <= LA + LB; ix++) { TwoIndex<double> temp; eng.radInts.type1(ix, ix, ix % 2, U, A, B, data, prm, temp); put_mat(f, "rad1_" + std::to_string(ix), temp); }
    // type-2 leaves per l
    for (int l = 0; l < L; l++) {
      if (!(scr[l] > ECPIntegral::tolerance)) continue;
      std::string sl = std::to_string(l);
      if (data.A_on_ecp && data.B_on_ecp) continue;
      double xA = data.Am > 0 ? data.A[2] / data.Am : 0.0, xB = data.Bm > 0 ? data.B[2] / data.Bm : 0.0;
      double phiA = std::atan2(data.A[1], data.A[0]), phiB = std::atan2(data.B[1], data.B[0]);
      put_mat(f, "SA_" + sl, realSphericalHarmonics(l + LA, xA, phiA)); put_mat(f, "SB_" + sl, realSphericalHarmonics(l + LB, xB, phiB));
      if (data.A_on_ecp || data.B_on_ecp) {
        for (int N = 0; N <= LA + LB; N++) { TwoIndex<double> temp; eng.radInts.type2(l, 0, l + LA, 0, l + LB, N, U, A, B, data, prm, temp); put_mat(f, "r2q_" + sl + "_" + std::to_string(N), temp); }
      } else {
        auto tA = parse_triples(c.get("tri_" + sl + "_A")), tB = parse_triples(c.get("tri_" + sl + "_B")); int nbase = (int)c.geti("nbase_" + sl, 0);
        if (LA <= LB) {
          ThreeIndex<double> radials(l + LA + LB + 1, l + LA + 1, l + LB + 1), rB(l + LA + LB + 1, l + LB + 1, l + LA + 1);
          eng.radInts.type2(tA, nbase, l, U, A, B, data.Am, data.Bm, radials);
          eng.radInts.type2(tB, nbase, l, U, B, A, data.Bm, data.Am, rB);
          for (auto& t : tB) radials(std::get<0>(t), std::get<2>(t), std::get<1>(t)) = rB(std::get<0>(t), std::get<1>(t), std::get<2>(t));
          put3(f, "r2g_" + sl, radials);
        } else {
          ThreeIndex<double> radials(l + LA + LB + 1, l + LB + 1, l + LA + 1), rB(l + LA + LB + 1, l + LA + 1, l + LB + 1);
          eng.radInts.type2(tA, nbase, l, U, B, A, data.Bm, data.Am, radials);
          eng.radInts.type2(tB, nbase, l, U, A, B, data.Am, data.Bm, rB);
          for (auto& t : tB) radials(std::get<0>(t), std::get<2>(t), std::get<1>(t)) = rB(std::get<0>(t), std::get<1>(t), std::get<2>(t));
          put3(f, "r2g_" + sl, radials);
        }
      }
    }
    TwoIndex<double> v; eng.compute_shell_pair(U, A, B, v); put_mat(f, "impl", v);
    std::fprintf(f, "end\n");
  }
  std::fclose(f); return 0;
}
