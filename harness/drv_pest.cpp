// C06 driver: ECPIntegral::estimate_type2 (the per-l screening estimate of a shell pair) for the pair as given and for the
// exponent-weighted, angular-momentum-shifted variants the derivative routines build (tempA = shellA.copy(); coeffs *= exps; LA + 1, + 2),
// together with every input the formula reads, for the extracted model ShellPair/PairEstimate.v.
#include "vh.hpp"
#include "verif_hooks.hpp"
#define private public
#define protected public
#include "ecpint.hpp"
#undef private
#undef protected
using namespace vh;
static void dump(FILE* f, const std::string& id, ECPIntegral& eng, const ECP& U, const GaussianShell& A, const GaussianShell& B, int shiftA, int shiftB) {
  ShellPairData data;
  data.LA = A.am() + shiftA; data.LB = B.am() + shiftB; data.maxLBasis = std::max(data.LA, data.LB);
  data.ncartA = (data.LA+1)*(data.LA+2)/2; data.ncartB = (data.LB+1)*(data.LB+2)/2;
  data.A2 = 0; data.B2 = 0;
  for (int i = 0; i < 3; i++) { data.A[i] = A.center()[i] - U.center()[i]; data.B[i] = B.center()[i] - U.center()[i]; data.A2 += data.A[i]*data.A[i]; data.B2 += data.B[i]*data.B[i]; }
  data.Am = std::sqrt(data.A2); data.Bm = std::sqrt(data.B2);
  std::vector<double> res(U.getL() + 1, 0.0);
  eng.estimate_type2(U, A, B, data, res.data());
  std::fprintf(f, "case %s\nint LA %d\nint LB %d\nint L %d\n", id.c_str(), data.LA, data.LB, U.getL());
  std::fprintf(f, "mat geo 1 6 %a %a %a %a %a %a\n", data.A2, data.B2, data.Am, data.Bm, A.min_exp, B.min_exp);
  std::fprintf(f, "mat pA %d 2", A.nprimitive()); for (int i = 0; i < A.nprimitive(); i++) std::fprintf(f, " %a %a", A.exps[i], A.coeffs[i]); std::fprintf(f, "\n");
  std::fprintf(f, "mat pB %d 2", B.nprimitive()); for (int i = 0; i < B.nprimitive(); i++) std::fprintf(f, " %a %a", B.exps[i], B.coeffs[i]); std::fprintf(f, "\n");
  for (int l = 0; l <= U.getL(); l++) {
    int n = U.l_starts[l+1] - U.l_starts[l];
    std::fprintf(f, "mat g%d %d 2", l, std::max(n, 0)); for (int k = U.l_starts[l]; k < U.l_starts[l+1]; k++) std::fprintf(f, " %a %a", U.getGaussian(k).a, U.getGaussian(k).d); std::fprintf(f, "\n");
  }
  std::fprintf(f, "mat mineta 1 %d", U.getL() + 1); for (int l = 0; l <= U.getL(); l++) std::fprintf(f, " %a", U.min_exp_l[l]); std::fprintf(f, "\n");
  std::fprintf(f, "mat est 1 %d", U.getL() + 1); for (int l = 0; l <= U.getL(); l++) std::fprintf(f, " %a", res[l]); std::fprintf(f, "\n");
  // what compute_shell_pair actually skips for this pair (trace counters of the hooks): the decision rule estimate > tolerance
  long lsc = -1, t1sc = -1;
  if (shiftA == 0 && shiftB == 0) {
    verif::ctl() = verif::Ctl(); TwoIndex<double> v; eng.compute_shell_pair(U, A, B, v);
    lsc = verif::ctl().shellpair_l_screened; t1sc = verif::ctl().shellpair_type1_screened; verif::ctl() = verif::Ctl();
  }
  std::fprintf(f, "int lscreened %ld\nint t1screened %ld\nint notype1 %d\nmat tol 1 1 %a\nend\n", lsc, t1sc, U.noType1() ? 1 : 0, 1e-12);
}
int main(int argc, char** argv) {
  if (argc < 3) return 2;
  auto cases = read_cases(argv[1]); FILE* f = std::fopen(argv[2], "w");
  for (auto& c : cases) {
    GaussianShell A = make_shell(c.shells[0]), B = make_shell(c.shells[1]); ECP U = make_ecp(c.ecps[0]);
    ECPIntegral eng(std::min(std::max(A.am(), B.am()), LIBECPINT_MAX_L - 2), U.getL(), 2);
    dump(f, c.id + "_0", eng, U, A, B, 0, 0);
    if (A.am() + 2 <= LIBECPINT_MAX_L && B.am() + 2 <= LIBECPINT_MAX_L) {
      GaussianShell tA = A.copy(); for (int i = 0; i < tA.nprimitive(); i++) tA.coeffs[i] *= tA.exps[i];
      dump(f, c.id + "_p1", eng, U, tA, B, 1, 0);
      GaussianShell tA2 = tA.copy(); for (int i = 0; i < tA2.nprimitive(); i++) tA2.coeffs[i] *= tA2.exps[i];
      dump(f, c.id + "_p2", eng, U, tA2, B, 2, 0);
      GaussianShell tB = B.copy(); for (int i = 0; i < tB.nprimitive(); i++) tB.coeffs[i] *= tB.exps[i];
      dump(f, c.id + "_pp", eng, U, tA, tB, 1, 1);
    }
  }
  std::fclose(f); return 0;
}
