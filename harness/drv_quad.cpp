// C15 driver: runs GCQuadrature on integrands r^k exp(-z (r-c)^2) and dumps the grid,
// the result pair and the number of integrand evaluations.
// case lines (one per case):  id type points tol kind zt pt k z c startfrac endfrac
//   type 1|2 ; kind 0 = none [-1,1], 1 = transformRMinMax(zt,pt), 2 = transformZeroInf
//   start/end: -1 -1 = library style (skip points where the integrand is below 1e-30 of its maximum)
#include <vector>
#include <string>
#include <cstdio>
#include <cstdlib>
#include <cmath>
#include <fstream>
#include <sstream>
#include <functional>
#include <map>
#define private public
#include "gaussquad.hpp"
#undef private
#ifdef LIBECPINT_VERIF
#include "verif_hooks.hpp"
#endif
using namespace libecpint;

struct P { int k; double z, c; };
static double fint(double r, const double* p, int ix) {
  const P* q = reinterpret_cast<const P*>(p);
  double v = 1.0; for (int i = 0; i < q->k; i++) v *= r;
  double d = r - q->c;
  return v * std::exp(-q->z * d * d);
}

int main(int argc, char** argv) {
  if (argc < 3) return 2;
  std::ifstream in(argv[1]); FILE* f = std::fopen(argv[2], "w"); std::string line;
  while (std::getline(in, line)) {
    std::istringstream ss(line); std::string id, s; int type, points, kind, k, istart, iend; std::string stol, szt, spt, sz, sc;
    if (!(ss >> id >> type >> points >> stol >> kind >> szt >> spt >> k >> sz >> sc >> istart >> iend)) continue;
    double tol = std::strtod(stol.c_str(), 0), zt = std::strtod(szt.c_str(), 0), pt = std::strtod(spt.c_str(), 0), z = std::strtod(sz.c_str(), 0), c = std::strtod(sc.c_str(), 0);
    GCQuadrature g; g.initGrid(points, type == 1 ? ONEPOINT : TWOPOINT);
    std::vector<double> x0 = g.x, w0 = g.w;
    if (kind == 1) g.transformRMinMax(zt, pt); else if (kind == 2) g.transformZeroInf();
    P prm{k, z, c};
    int start = istart, end = iend;
    if (istart < 0) {
      double mx = 0; for (int i = 0; i < g.maxN; i++) mx = std::max(mx, g.w[i] * fint(g.x[i], (const double*)&prm, i));
      start = 0; end = g.maxN - 1;
      while (start < end && g.w[start] * fint(g.x[start], (const double*)&prm, start) < 1e-30 * mx) start++;
      while (end > start && g.w[end] * fint(g.x[end], (const double*)&prm, end) < 1e-30 * mx) end--;
    }
    std::function<double(double, const double*, int)> fn = fint;
    auto res = g.integrate(fn, (const double*)&prm, tol, start, end);
    // counterfactual for the attribution of recorded findings: the same call with the first one / two acceptances deferred; when the grid
    // is exhausted a deferral has nowhere to go, so the same is done on the nested grid of twice the size (2 maxN + 1 points: its first
    // levels are the very same estimates)
    double d1 = res.first, d2 = res.first, d3 = res.first, d4 = res.first; int c1 = res.second ? 1 : 0, c2 = c1, c3 = c1, c4 = c1;
#ifdef LIBECPINT_VERIF
    verif::ctl().quad_defer = 1; { auto r1 = g.integrate(fn, (const double*)&prm, tol, start, end); d1 = r1.first; c1 = r1.second ? 1 : 0; }
    verif::ctl().quad_defer = 2; { auto r2 = g.integrate(fn, (const double*)&prm, tol, start, end); d2 = r2.first; c2 = r2.second ? 1 : 0; }
    if (istart < 0) {
      GCQuadrature g2; g2.initGrid(2 * g.maxN + 1, type == 1 ? ONEPOINT : TWOPOINT);
      if (kind == 1) g2.transformRMinMax(zt, pt); else if (kind == 2) g2.transformZeroInf();
      double mx = 0; for (int i = 0; i < g2.maxN; i++) mx = std::max(mx, g2.w[i] * fint(g2.x[i], (const double*)&prm, i));
      int s2 = 0, e2 = g2.maxN - 1;
      while (s2 < e2 && g2.w[s2] * fint(g2.x[s2], (const double*)&prm, s2) < 1e-30 * mx) s2++;
      while (e2 > s2 && g2.w[e2] * fint(g2.x[e2], (const double*)&prm, e2) < 1e-30 * mx) e2--;
      verif::ctl().quad_defer = 1; { auto r3 = g2.integrate(fn, (const double*)&prm, tol, s2, e2); d3 = r3.first; c3 = r3.second ? 1 : 0; }
      verif::ctl().quad_defer = 2; { auto r4 = g2.integrate(fn, (const double*)&prm, tol, s2, e2); d4 = r4.first; c4 = r4.second ? 1 : 0; }
    }
    verif::ctl().quad_defer = 0;
#endif
    auto putv = [&](const char* nm, const std::vector<double>& v) { std::fprintf(f, "mat %s 1 %d", nm, (int)v.size()); for (double d : v) std::fprintf(f, " %a", d); std::fprintf(f, "\n"); };
    auto emit = [&](const std::string& cid, GCQuadrature& q, const std::vector<double>& xi, const std::vector<double>& wi, std::pair<double, bool> r) {
      std::fprintf(f, "case %s\n", cid.c_str());
      std::fprintf(f, "int type %d\nint points %d\nint maxN %d\nint M %d\nint kind %d\nint k %d\nint start %d\nint end %d\nint converged %d\n", type, points, q.maxN, q.M, kind, k, start, end, r.second ? 1 : 0);
      std::fprintf(f, "mat params 1 6 %a %a %a %a %a %a\n", tol, zt, pt, z, c, r.first);
      std::fprintf(f, "mat defer 1 8 %a %a %a %a %a %a %a %a\n", d1, (double)c1, d2, (double)c2, d3, (double)c3, d4, (double)c4);
      putv("x0", xi); putv("w0", wi); putv("x", q.x); putv("w", q.w);
      std::fprintf(f, "end\n");
    };
    emit(id, g, x0, w0, res);
    // object histories: the same case on objects that have been used before -- one object per (scheme, requested size) that is
    // re-initialised to the same size after its grid was transformed in place, and one object re-initialised for every case whatever
    // its size; each is reported as a case of its own (suffix _rs / _ra), so that the model correspondence (grid after initGrid,
    // transform, adaptive scheme) and the property are checked for re-initialised objects exactly as for fresh ones
    static std::map<std::pair<int, int>, GCQuadrature> gsame; static GCQuadrature gany;
    auto again = [&](GCQuadrature& q, const char* suffix) {
      q.initGrid(points, type == 1 ? ONEPOINT : TWOPOINT);
      std::vector<double> xi = q.x, wi = q.w;
      if (kind == 1) q.transformRMinMax(zt, pt); else if (kind == 2) q.transformZeroInf();
      if ((int)q.x.size() <= end || q.maxN <= end) { std::fprintf(f, "case %s%s\nint type %d\nint points %d\nint maxN %d\nint M %d\nint kind %d\nint k %d\nint start %d\nint end %d\nint converged 0\n", id.c_str(), suffix, type, points, q.maxN, q.M, kind, k, start, end);
        std::fprintf(f, "mat params 1 6 %a %a %a %a %a %a\n", tol, zt, pt, z, c, 0.0); std::fprintf(f, "mat defer 1 8 0 0 0 0 0 0 0 0\n"); putv("x0", xi); putv("w0", wi); putv("x", q.x); putv("w", q.w); std::fprintf(f, "end\n"); return; }
      auto r = q.integrate(fn, (const double*)&prm, tol, start, end);
      emit(id + suffix, q, xi, wi, r);
    };
    again(gsame[std::make_pair(type, points)], "_rs");
    again(gany, "_ra");
  }
  std::fclose(f); return 0;
}
