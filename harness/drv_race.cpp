// C10 driver (ThreadSanitizer build).  usage: drv_race <shape> <T> <reps> <cases> <out>
//  shape shared  : one engine constructed first; T threads compute concurrently on it
//  shape private : T threads each construct their own engine (concurrently) and compute with it
//  shape mixed   : one engine constructed first; thread 0 computes on it while the others construct and use private engines
//  shape copies  : an ECPIntegrator is set up and initialised for integrals, then copied once per thread (the copies share the engine
//                  through the shared_ptr); thread 0 calls init(2) on ITS copy and computes integrals and derivatives with it while the
//                  others compute integrals on theirs (in the model: thread 0 constructs a private engine, the others use the shared one)
//  shape grow    : as mixed, but the private engines are constructed with LARGER limits (angular momentum, ECP momentum) than the
//                  engine already in use, so that anything sized by the largest request so far would be rebuilt under the reader
// Results of every call are written (hex) so that a serial run can be compared bitwise.
#include "vh.hpp"
#include "api.hpp"
#include <thread>
#include <atomic>
#include <memory>
using namespace vh;

struct Work { std::vector<GaussianShell> shells; std::vector<ECP> ecps; int maxl, maxlu; };
static std::atomic<int> gate{0};

static void compute_all(const ECPIntegral& eng, const Work& w, int reps, std::vector<double>& out) {
  for (int r = 0; r < reps; r++)
    for (size_t a = 0; a < w.shells.size(); a++) for (size_t b = 0; b < w.shells.size(); b++) for (auto& U : w.ecps) {
      TwoIndex<double> v; eng.compute_shell_pair(U, w.shells[a], w.shells[b], v);
      out.insert(out.end(), v.data.begin(), v.data.end());
      if (r == 0 && w.shells[a].am() + 2 <= w.maxl + 2 && w.shells[b].am() + 2 <= w.maxl + 2) {
        std::array<TwoIndex<double>, 9> d; eng.compute_shell_pair_derivative(U, w.shells[a], w.shells[b], d);
        for (auto& m : d) out.insert(out.end(), m.data.begin(), m.data.end());
        std::array<TwoIndex<double>, 45> h; eng.compute_shell_pair_second_derivative(U, w.shells[a], w.shells[b], h);
        for (auto& m : h) out.insert(out.end(), m.data.begin(), m.data.end());
      }
    }
}

int main(int argc, char** argv) {
  if (argc < 6) return 2;
  std::string shape = argv[1]; int T = std::atoi(argv[2]), reps = std::atoi(argv[3]);
  auto cases = read_cases(argv[4]); const Case& c = cases[0];
  Work w; w.maxl = 0; w.maxlu = 0;
  for (auto& s : c.shells) { w.shells.push_back(make_shell(s)); w.maxl = std::max(w.maxl, s.l); }
  for (auto& e : c.ecps) { w.ecps.push_back(make_ecp(e)); w.maxlu = std::max(w.maxlu, w.ecps.back().getL()); }
  std::vector<std::vector<double>> res(T);
  std::vector<std::thread> th;
  if (shape == "copies" || shape == "copies-serial") {
    // the high-level object
    std::vector<double> coords, exps, coefs; std::vector<int> ams, lens;
    for (auto& s : c.shells) { coords.insert(coords.end(), s.c.begin(), s.c.end()); ams.push_back(std::min(s.l, LIBECPINT_MAX_L - 2)); lens.push_back((int)s.e.size());
      exps.insert(exps.end(), s.e.begin(), s.e.end()); coefs.insert(coefs.end(), s.d.begin(), s.d.end()); }
    std::vector<double> ec, ee, ed; std::vector<int> el, en, elen;
    for (auto& u : c.ecps) { ec.insert(ec.end(), u.c.begin(), u.c.end()); elen.push_back((int)u.p.size());
      for (auto& p : u.p) { ee.push_back(p.a); ed.push_back(p.d); el.push_back(p.l); en.push_back(p.n); } }
    ECPIntegrator master;
    master.set_gaussian_basis((int)c.shells.size(), coords.data(), exps.data(), coefs.data(), ams.data(), lens.data());
    master.set_ecp_basis((int)c.ecps.size(), ec.data(), ee.data(), ed.data(), el.data(), en.data(), elen.data());
    master.init(0);
    std::vector<ECPIntegrator> copies(T, master);
    auto work = [&](int t) {
      ECPIntegrator& I = copies[t];
      for (int r = 0; r < reps; r++) {
        if (t == 0 && r == 0) I.init(2);
        I.compute_integrals();
        res[t].insert(res[t].end(), I.integrals.data.begin(), I.integrals.data.end());
        if (t == 0) { I.compute_first_derivs(); for (auto& m : I.first_derivs) res[t].insert(res[t].end(), m.data.begin(), m.data.end()); }
      }
    };
    if (shape == "copies-serial") { for (int t = 0; t < T; t++) work(t); }
    else {
      for (int t = 0; t < T; t++) th.emplace_back([&, t]() { gate.fetch_add(1); while (gate.load() < T) { } work(t); });
      for (auto& x : th) x.join();
    }
    FILE* f = std::fopen(argv[5], "w");
    for (int t = 0; t < T; t++) { std::fprintf(f, "thread %d %zu", t, res[t].size()); unsigned long long h = 1469598103934665603ULL;
      for (double d : res[t]) { unsigned long long b; std::memcpy(&b, &d, 8); h = (h ^ b) * 1099511628211ULL; }
      std::fprintf(f, " %llx\n", h); }
    std::fclose(f);
    return 0;
  }
  std::unique_ptr<ECPIntegral> shared;
  if (shape == "shared" || shape == "mixed" || shape == "grow" || shape == "serial") shared.reset(new ECPIntegral(w.maxl, w.maxlu, 2));
  if (shape == "serial") {
    for (int t = 0; t < T; t++) { if (t == 0 || true) { ECPIntegral own(w.maxl, w.maxlu, 2); compute_all(t == 0 ? *shared : own, w, reps, res[t]); } }
  } else {
    for (int t = 0; t < T; t++) th.emplace_back([&, t]() {
      gate.fetch_add(1); while (gate.load() < T) { }
      if (shape == "shared" || ((shape == "mixed" || shape == "grow") && t == 0)) compute_all(*shared, w, reps, res[t]);
      else if (shape == "grow") { ECPIntegral own(std::min(w.maxl + 1, LIBECPINT_MAX_L - 2), std::min(w.maxlu + 1 + (t % 2), LIBECPINT_MAX_L), 2); compute_all(own, w, reps, res[t]); }
      else { ECPIntegral own(w.maxl, w.maxlu, 2); compute_all(own, w, reps, res[t]); }
    });
    for (auto& x : th) x.join();
  }
  FILE* f = std::fopen(argv[5], "w");
  for (int t = 0; t < T; t++) { std::fprintf(f, "thread %d %zu", t, res[t].size()); unsigned long long h = 1469598103934665603ULL;
    for (double d : res[t]) { unsigned long long b; std::memcpy(&b, &d, 8); h = (h ^ b) * 1099511628211ULL; }
    std::fprintf(f, " %llx\n", h); }
  std::fclose(f);
  return 0;
}
