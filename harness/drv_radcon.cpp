// C12 driver (contraction consistency): RadialIntegral::type2(triples, ...) is linear in the contraction coefficients of the two
// shells and of the ECP: the value it returns for contracted shells must equal the coefficient-weighted sum of the values it
// returns for every primitive triple alone (fresh single-primitive shells, fresh single-primitive ECP).  Whatever the routine
// shares between primitive pairs or between the triples of one call (grids, Bessel columns, base integrals) must not leak.
// case line: id nraw A B nU (zeta d)* nA (a c)* nB (b c)* nT (N l1 l2)*
#include "vh.hpp"
#include "radial.hpp"
#include "verif_hooks.hpp"
using namespace vh;
int main(int argc, char** argv) {
  if (argc < 3) return 2;
  std::ifstream in(argv[1]); FILE* f = std::fopen(argv[2], "w"); std::string line;
  initFactorials();
  RadialIntegral R; R.init(15, 1e-15, 256, 1024);
  long ncase = 0, ncmp = 0, nbad = 0, nquad = 0, nclosed = 0;
  while (std::getline(in, line)) {
    std::istringstream ss(line); std::string id, t; int nraw, nU, nA, nB, nT;
    if (!(ss >> id >> nraw)) continue;
    auto rd = [&]() { ss >> t; return tod(t); };
    double A = rd(), B = rd();
    ss >> nU; std::vector<double> zs(nU), ds(nU); for (int i = 0; i < nU; i++) { zs[i] = rd(); ds[i] = rd(); }
    ss >> nA; std::vector<double> as(nA), ca(nA); for (int i = 0; i < nA; i++) { as[i] = rd(); ca[i] = rd(); }
    ss >> nB; std::vector<double> bs(nB), cb(nB); for (int i = 0; i < nB; i++) { bs[i] = rd(); cb[i] = rd(); }
    ss >> nT; std::vector<Triple> tr; int maxN = 0, maxl = 0, nbase = 0;
    for (int i = 0; i < nT; i++) { int N, l1, l2; ss >> N >> l1 >> l2; tr.push_back(Triple{N, l1, l2}); maxN = std::max(maxN, N); maxl = std::max(maxl, std::max(l1, l2)); nbase = std::max(nbase, N + std::max(l1, l2) - 1); }
    if (!ss) continue;
    ncase++;
    std::array<double,3> pa = {0, 0, A}, pb = {0, 0, B}; double cc[3] = {0, 0, 0};
    verif::ctl() = verif::Ctl();
    // contracted call
    GaussianShell shA(pa, 0), shB(pb, 0); for (int i = 0; i < nA; i++) shA.addPrim(as[i], ca[i]); for (int i = 0; i < nB; i++) shB.addPrim(bs[i], cb[i]);
    ECP U(cc); for (int i = 0; i < nU; i++) U.addPrimitive(nraw, 0, zs[i], ds[i], false);
    ThreeIndex<double> rad(maxN + 1, maxl + 1, maxl + 1); rad.fill(0.0);
    R.type2(tr, nbase, 0, U, shA, shB, A, B, rad);
    nquad += verif::ctl().quadrature; nclosed += verif::ctl().closed_form;
    // primitive by primitive
    std::vector<double> sum(nT, 0.0), scale(nT, 0.0);
    for (int u = 0; u < nU; u++) for (int i = 0; i < nA; i++) for (int j = 0; j < nB; j++) {
      GaussianShell sa(pa, 0), sb(pb, 0); sa.addPrim(as[i], 1.0); sb.addPrim(bs[j], 1.0);
      ECP V(cc); V.addPrimitive(nraw, 0, zs[u], 1.0, false);
      for (int k = 0; k < nT; k++) {
        std::vector<Triple> one = {tr[k]};
        ThreeIndex<double> r1(maxN + 1, maxl + 1, maxl + 1); r1.fill(0.0);
        R.type2(one, nbase, 0, V, sa, sb, A, B, r1);
        double v = ds[u] * ca[i] * cb[j] * r1(std::get<0>(tr[k]), std::get<1>(tr[k]), std::get<2>(tr[k]));
        sum[k] += v; scale[k] += std::fabs(v);
      }
    }
    for (int k = 0; k < nT; k++) {
      double v = rad(std::get<0>(tr[k]), std::get<1>(tr[k]), std::get<2>(tr[k])); ncmp++;
      if (!(std::fabs(v - sum[k]) <= 1e-10 * scale[k] + 1e-300)) {
        nbad++;
        std::fprintf(f, "CONMISMATCH %s triple %d %d %d contracted=%a sum_of_primitives=%a scale=%a\n", id.c_str(), std::get<0>(tr[k]), std::get<1>(tr[k]), std::get<2>(tr[k]), v, sum[k], scale[k]);
      }
    }
  }
  std::fprintf(f, "SUMMARY cases=%ld compared=%ld mismatches=%ld quadrature_primitives=%ld closed_form_primitives=%ld\n", ncase, ncmp, nbad, nquad, nclosed);
  std::fclose(f); return 0;
}
