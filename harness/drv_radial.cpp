// C12 driver: one primitive radial integral T(k; l1, l2) per case through the public
// RadialIntegral::type2(triples, ...) with single-primitive shells (coefficient 1) and a single ECP
// primitive (d = 1), in three modes: default, tail cut disabled, closed form disabled (hooks).
// case line: id N l1 l2 nraw zeta a b A B
#include "vh.hpp"
#include "radial.hpp"
#include "verif_hooks.hpp"
#include "Faddeeva.hpp"
using namespace vh;
int main(int argc, char** argv) {
  if (argc < 3) return 2;
  std::ifstream in(argv[1]); FILE* f = std::fopen(argv[2], "w"); std::string line;
  initFactorials();
  RadialIntegral R; R.init(15, 1e-15, 256, 1024);
  while (std::getline(in, line)) {
    std::istringstream ss(line); std::string id, sz, sa, sb, sA, sB; int N, l1, l2, nraw;
    if (!(ss >> id >> N >> l1 >> l2 >> nraw >> sz >> sa >> sb >> sA >> sB)) continue;
    double zeta = tod(sz), a = tod(sa), b = tod(sb), A = tod(sA), B = tod(sB);
    std::array<double,3> ca = {0, 0, A}, cb = {0, 0, B}; double cc[3] = {0, 0, 0};
    GaussianShell shA(ca, 0), shB(cb, 0); shA.addPrim(a, 1.0); shB.addPrim(b, 1.0);
    ECP U(cc); U.addPrimitive(nraw, 0, zeta, 1.0, false);
    std::vector<Triple> tr = {Triple{N, l1, l2}};
    int nbase = std::max(0, N + l1 - 1);
    int defer = 0;
    auto run = [&](bool notail, bool forceq, bool noscreen, double& val, long& closed, long& tailfired, int& taillast) {
      verif::Ctl& c = verif::ctl(); c = verif::Ctl(); c.no_tail_cut = notail; c.force_quadrature = forceq; c.no_screen = noscreen; c.quad_defer = defer;
      ThreeIndex<double> rad(N + 1, l1 + 1, l2 + 1); rad.fill(0.0);
      R.type2(tr, nbase, 0, U, shA, shB, A, B, rad);
      val = rad(N, l1, l2); closed = c.closed_form; tailfired = c.tail_fired; taillast = c.tail_last_index;
      c = verif::Ctl();
    };
    double v0, vnt, vns, vnsnt, vq; long c0, t0, cx, tx; int i0, ix;
    run(false, false, false, v0, c0, t0, i0);      // as the library selects
    run(true, false, false, vnt, cx, tx, ix);      // tail cut disabled
    run(false, false, true, vns, cx, tx, ix);      // primitive estimate screen disabled
    run(true, false, true, vnsnt, cx, tx, ix);     // both
    run(true, true, true, vq, cx, tx, ix);         // quadrature forced, nothing screened or cut
    double vd2, vd4;
    defer = 2; run(true, false, true, vd2, cx, tx, ix);   // nothing screened or cut, the first two acceptances of the adaptive quadrature deferred
    defer = 4; run(true, false, true, vd4, cx, tx, ix);   // ... the first four
    defer = 0;
    std::fprintf(f, "case %s\nint N %d\nint l1 %d\nint l2 %d\nint nraw %d\nint closed %ld\nint tailfired %ld\nint taillast %d\n", id.c_str(), N, l1, l2, nraw, c0, t0, i0);
    // leaves for the numeric model of the closed-form path: the Dawson function at the two arguments the source forms
    { double p = zeta + a + b, x = a * A, y = b * B, P1 = (x + y) / p, P2 = (y - x) / p, rp = std::sqrt(p);
      std::fprintf(f, "mat daw 1 4 %a %a %a %a\nint nbase %d\n", rp * P1, rp * P2, Faddeeva::Dawson(rp * P1), Faddeeva::Dawson(rp * P2), nbase); }
    std::fprintf(f, "mat prm 1 5 %a %a %a %a %a\nmat val 1 7 %a %a %a %a %a %a %a\nend\n", zeta, a, b, A, B, v0, vnt, vns, vnsnt, vq, vd2, vd4);
  }
  std::fclose(f); return 0;
}
