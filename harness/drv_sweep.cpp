// C11 driver (ASan+UBSan build with the per-dimension index assertions of LIBECPINT_VERIF):
// runs compute_shell_pair / derivative / second-derivative for every case and checks that every
// returned number is finite.  Any sanitizer report or index assertion aborts the process.
#include "vh.hpp"
using namespace vh;
int main(int argc, char** argv) {
  if (argc < 3) return 2;
  auto cases = read_cases(argv[1]); FILE* f = std::fopen(argv[2], "w");
  long nvals = 0, nnonfinite = 0, ncases = 0;
  for (auto& c : cases) {
    int order = (int)c.geti("order", 0);
    GaussianShell A = make_shell(c.shells[0]), B = make_shell(c.shells[1]); ECP U0 = make_ecp(c.ecps[0]);
    // via_copy: the ECP is used the way the high-level interfaces use it: a copy stored in an ECPBasis (copy constructor, vector storage)
    ECPBasis basis; if (c.geti("via_copy", 0) == 1) basis.addECP(U0, 0);
    ECP& U = c.geti("via_copy", 0) == 1 ? basis.getECP(0) : U0;
    ECPIntegral eng(std::max(A.am(), B.am()), U.getL(), order);
    auto scan = [&](const TwoIndex<double>& m, const char* what) {
      for (double v : m.data) { nvals++; if (!std::isfinite(v)) { nnonfinite++; std::fprintf(f, "NONFINITE %s %s\n", c.id.c_str(), what); return; } } };
    std::fprintf(f, "begin %s\n", c.id.c_str()); std::fflush(f);
    if (order == 0) { TwoIndex<double> v; eng.compute_shell_pair(U, A, B, v); scan(v, "integrals"); }
    else if (order == 1) { std::array<TwoIndex<double>, 9> r; eng.compute_shell_pair_derivative(U, A, B, r); for (auto& m : r) scan(m, "first"); }
    else { std::array<TwoIndex<double>, 45> r; eng.compute_shell_pair_second_derivative(U, A, B, r); for (auto& m : r) scan(m, "second"); }
    ncases++;
  }
  std::fprintf(f, "SUMMARY cases=%ld values=%ld nonfinite=%ld\n", ncases, nvals, nnonfinite);
  std::fclose(f); return 0;
}
