// Shared helpers for the /verif C++ drivers: case-file reader, shell/ECP
// construction, hex-float dumps.  Every driver reads the cases Python wrote
// (so that all random choices derive from VERIF_SEED there) and writes one
// record per case for the extracted Coq model to consume.
#ifndef VERIF_VH_HPP
#define VERIF_VH_HPP
#include <cstdio>
#include <cstdlib>
#include <cstring>
#include <string>
#include <vector>
#include <array>
#include <fstream>
#include <sstream>
#include <iostream>
#include <cmath>
#include "libecpint.hpp"
#include "mathutil.hpp"

namespace vh {
using namespace libecpint;

struct ShellSpec { int l; std::array<double,3> c; std::vector<double> e, d; };
struct PrimSpec { int n, l; double a, d; };
struct EcpSpec { std::array<double,3> c; std::vector<PrimSpec> p; };
struct Case {
  std::string id;
  std::vector<ShellSpec> shells;
  std::vector<EcpSpec> ecps;
  std::vector<std::pair<std::string, std::vector<std::string>>> extra; // key -> tokens
  const std::vector<std::string>* get(const std::string& k) const {
    for (auto& kv : extra) if (kv.first == k) return &kv.second;
    return nullptr;
  }
  long geti(const std::string& k, long dflt = 0) const {
    auto p = get(k); return p && !p->empty() ? std::strtol((*p)[0].c_str(), nullptr, 10) : dflt;
  }
  double getd(const std::string& k, double dflt = 0) const {
    auto p = get(k); return p && !p->empty() ? std::strtod((*p)[0].c_str(), nullptr) : dflt;
  }
};

inline double tod(const std::string& s) { return std::strtod(s.c_str(), nullptr); }

inline std::vector<Case> read_cases(const char* path) {
  std::ifstream in(path);
  if (!in) { std::fprintf(stderr, "cannot open %s\n", path); std::exit(2); }
  std::vector<Case> cases; Case cur; bool open = false; std::string line;
  while (std::getline(in, line)) {
    std::istringstream ss(line); std::vector<std::string> t; std::string w;
    while (ss >> w) t.push_back(w);
    if (t.empty()) continue;
    if (t[0] == "case") { cur = Case(); cur.id = t.size() > 1 ? t[1] : ""; open = true; }
    else if (t[0] == "end") { if (open) cases.push_back(cur); open = false; }
    else if (t[0] == "shell") {
      ShellSpec s; s.l = std::atoi(t[1].c_str());
      s.c = {tod(t[2]), tod(t[3]), tod(t[4])};
      int np = std::atoi(t[5].c_str());
      for (int i = 0; i < np; i++) { s.e.push_back(tod(t[6+2*i])); s.d.push_back(tod(t[7+2*i])); }
      cur.shells.push_back(s);
    } else if (t[0] == "ecp") {
      EcpSpec e; e.c = {tod(t[1]), tod(t[2]), tod(t[3])};
      int np = std::atoi(t[4].c_str());
      for (int i = 0; i < np; i++) {
        PrimSpec p; p.n = std::atoi(t[5+4*i].c_str()); p.l = std::atoi(t[6+4*i].c_str());
        p.a = tod(t[7+4*i]); p.d = tod(t[8+4*i]); e.p.push_back(p);
      }
      cur.ecps.push_back(e);
    } else {
      cur.extra.push_back({t[0], std::vector<std::string>(t.begin()+1, t.end())});
    }
  }
  return cases;
}

inline GaussianShell make_shell(const ShellSpec& s) {
  GaussianShell g(s.c, s.l);
  for (size_t i = 0; i < s.e.size(); i++) g.addPrim(s.e[i], s.d[i]);
  return g;
}
inline ECP make_ecp(const EcpSpec& e) {
  ECP U(e.c.data());
  for (auto& p : e.p) U.addPrimitive(p.n, p.l, p.a, p.d, false);
  U.sort();
  return U;
}

inline void put_mat(FILE* f, const char* name, const TwoIndex<double>& m) {
  std::fprintf(f, "mat %s %d %d", name, m.dims[0], m.dims[1]);
  for (double v : m.data) std::fprintf(f, " %a", v);
  std::fprintf(f, "\n");
}
inline void put_mat(FILE* f, const std::string& name, const TwoIndex<double>& m) { put_mat(f, name.c_str(), m); }
inline void put_vec(FILE* f, const char* name, const std::vector<double>& v) {
  std::fprintf(f, "mat %s 1 %d", name, (int)v.size());
  for (double x : v) std::fprintf(f, " %a", x);
  std::fprintf(f, "\n");
}
inline void put_int(FILE* f, const char* name, long v) { std::fprintf(f, "int %s %ld\n", name, v); }
inline void put_ints(FILE* f, const char* name, const std::vector<long>& v) {
  std::fprintf(f, "ints %s %d", name, (int)v.size());
  for (long x : v) std::fprintf(f, " %ld", x);
  std::fprintf(f, "\n");
}
} // namespace vh
#endif
