"""Case generation shared by the checks (all randomness from one SplitMix64)."""
import math
from vcommon import SplitMix, hexf


def rand_dir(rng):
    while True:
        v = [rng.uniform(-1, 1) for _ in range(3)]
        n = math.sqrt(sum(x * x for x in v))
        if 0.1 < n <= 1:
            return [x / n for x in v]


def rand_point(rng, rmin=0.3, rmax=3.0):
    d = rand_dir(rng)
    r = rng.uniform(rmin, rmax)
    return [r * x for x in d]


def rand_shell(rng, l, centre, nprim=None, emin=0.05, emax=50.0):
    nprim = nprim or rng.randint(1, 3)
    exps = [rng.loguniform(emin, emax) for _ in range(nprim)]
    coefs = [rng.uniform(0.2, 1.5) * rng.choice([1, 1, 1, -1]) for _ in range(nprim)]
    return {"l": l, "c": list(centre), "e": exps, "d": coefs}


def rand_ecp(rng, L, centre, amin=0.1, amax=20.0, nper=(1, 2), local_zero=False, signs=True):
    """ECP of maximum angular momentum L: semi-local l<L plus the local part at l=L."""
    prims = []
    for l in range(L + 1):
        for _ in range(rng.randint(*nper)):
            n = rng.choice([0, 1, 2, 2, 2])
            a = rng.loguniform(amin, amax)
            d = rng.uniform(0.5, 8.0) * (rng.choice([1, -1]) if signs else 1)
            if l == L and local_zero:
                d = 0.0
            prims.append({"n": n, "l": l, "a": a, "d": d})
    return {"c": list(centre), "p": prims}


def fmt_shell(s):
    t = ["shell", str(s["l"])] + [hexf(x) for x in s["c"]] + [str(len(s["e"]))]
    for e, d in zip(s["e"], s["d"]):
        t += [hexf(e), hexf(d)]
    return " ".join(t)


def fmt_ecp(u):
    t = ["ecp"] + [hexf(x) for x in u["c"]] + [str(len(u["p"]))]
    for p in u["p"]:
        t += [str(p["n"]), str(p["l"]), hexf(p["a"]), hexf(p["d"])]
    return " ".join(t)


def write_cases(path, cases):
    with open(path, "w") as f:
        for c in cases:
            f.write("case %s\n" % c["id"])
            for k, v in c.get("extra", {}).items():
                if isinstance(v, (list, tuple)):
                    f.write("%s %s\n" % (k, " ".join(str(x) for x in v)))
                else:
                    f.write("%s %s\n" % (k, v))
            for s in c.get("shells", []):
                f.write(fmt_shell(s) + "\n")
            for u in c.get("ecps", []):
                f.write(fmt_ecp(u) + "\n")
            f.write("end\n")


GEOMS = ["distinct", "A=B", "A=C", "B=C", "A=B=C"]


def geometry(rng, kind):
    C = rand_point(rng, 0.0, 1.5)
    A = [c + x for c, x in zip(C, rand_point(rng, 0.4, 2.5))]
    B = [c + x for c, x in zip(C, rand_point(rng, 0.4, 2.5))]
    if kind == "A=B":
        B = list(A)
    elif kind == "A=C":
        A = list(C)
    elif kind == "B=C":
        B = list(C)
    elif kind == "A=B=C":
        A = list(C)
        B = list(C)
    elif kind in ("planar-z", "planar-x", "planar-y", "axial"):
        # special positions with exact zeros in the shifted coordinates: a planar molecule (all centres share one
        # coordinate) or a linear one along a Cartesian axis
        if kind == "axial":
            ax = rng.randint(0, 2)
            A = list(C); B = list(C)
            A[ax] += rng.uniform(0.5, 2.5) * rng.choice([1, -1]); B[ax] += rng.uniform(0.5, 2.5) * rng.choice([1, -1])
        else:
            ax = {"planar-x": 0, "planar-y": 1, "planar-z": 2}[kind]
            A[ax] = C[ax]; B[ax] = C[ax]
    elif kind in ("A~C", "B~C"):
        # just off the ECP centre: beyond the 1e-6 "on the centre" switch, far inside any other length scale
        r = rng.loguniform(1e-5, 1e-3); d = rand_dir(rng)
        P = [c + r * x for c, x in zip(C, d)]
        if kind == "A~C":
            A = P
        else:
            B = P
    return A, B, C
