"""Shared machinery for the /verif checks.

Everything a check needs that is not property-specific lives here:
  * snapshot + (content-hash cached) builds of /repo's *current working tree*
    with -DLIBECPINT_VERIF,
  * compilation of C++ drivers against such a build,
  * running coqc / make in /verif/coq under a shell timeout,
  * SplitMix64 PRNG seeded from VERIF_SEED,
  * evidence / replay / VIOLATION / KNOWN-FINDING output.
"""
import hashlib, json, os, shutil, subprocess, sys, tempfile, time, re

VERIF = os.path.dirname(os.path.dirname(os.path.abspath(__file__)))
REPO = os.environ.get("VERIF_REPO", "/repo")
CACHE = os.path.join(VERIF, ".cache")
COQ = os.path.join(VERIF, "coq")
OCAML = os.path.join(VERIF, "ocaml")
GUARD = "LIBECPINT_VERIF"
NPROC = os.cpu_count() or 4

REL_DIRS = ["src", "include", "external", "share", "cmake"]
REL_FILES = ["CMakeLists.txt"]


def log(*a):
    print(*a, file=sys.stderr, flush=True)


def sh(cmd, cwd=None, timeout=None, check=True, env=None, capture=True):
    """Run a shell command; returns (rc, stdout+stderr)."""
    e = dict(os.environ)
    if env:
        e.update(env)
    try:
        p = subprocess.run(cmd, shell=isinstance(cmd, str), cwd=cwd, timeout=timeout,
                           stdout=subprocess.PIPE if capture else None,
                           stderr=subprocess.STDOUT if capture else None, env=e)
    except subprocess.TimeoutExpired as ex:
        out = (ex.stdout or b"").decode("utf-8", "replace") if capture else ""
        if check:
            raise RuntimeError("timeout: %s\n%s" % (cmd, out[-4000:]))
        return 124, out
    out = p.stdout.decode("utf-8", "replace") if capture else ""
    if check and p.returncode != 0:
        raise RuntimeError("command failed (%d): %s\n%s" % (p.returncode, cmd, out[-6000:]))
    return p.returncode, out


# --------------------------------------------------------------------------
# working-tree snapshot and cached builds
# --------------------------------------------------------------------------

def tree_files():
    out = []
    for d in REL_DIRS:
        base = os.path.join(REPO, d)
        for root, dirs, files in os.walk(base):
            dirs.sort()
            for f in sorted(files):
                if f.endswith((".o", ".a", "~")):
                    continue
                out.append(os.path.join(root, f))
    for f in REL_FILES:
        out.append(os.path.join(REPO, f))
    return out


_TREE_HASH = None


def tree_hash():
    global _TREE_HASH
    if _TREE_HASH is None:
        h = hashlib.sha256()
        for f in tree_files():
            h.update(os.path.relpath(f, REPO).encode())
            h.update(b"\0")
            with open(f, "rb") as fh:
                h.update(fh.read())
            h.update(b"\0")
        _TREE_HASH = h.hexdigest()[:20]
    return _TREE_HASH


def _prune_cache(keep=6):
    if not os.path.isdir(CACHE):
        return
    ents = [os.path.join(CACHE, e) for e in os.listdir(CACHE)]
    ents = [e for e in ents if os.path.isdir(e)]
    ents.sort(key=lambda p: os.path.getmtime(p))
    for e in ents[:-keep] if len(ents) > keep else []:
        shutil.rmtree(e, ignore_errors=True)


VARIANTS = {
    # name: (build type, extra CXX flags, compiler, extra cmake defs)
    "rel": ("Release", "-D%s" % GUARD, None, {}),
    "rel_u0": ("Release", "-D%s" % GUARD, None, {"LIBECPINT_MAX_UNROL": "0"}),
    "rel_l4": ("Release", "-D%s" % GUARD, None, {"LIBECPINT_MAX_L": "4"}),
    "rel_l3": ("Release", "-D%s" % GUARD, None, {"LIBECPINT_MAX_L": "3"}),
    "nohook": ("Release", "", None, {}),
    "asan": ("RelWithDebInfo",
             "-D%s -O1 -g -fsanitize=address,undefined,float-cast-overflow -fno-sanitize-recover=all -fno-omit-frame-pointer -D_GLIBCXX_ASSERTIONS" % GUARD,
             None, {}),
    # C10 runs WITHOUT the hooks: their trace counters are deliberately not thread-safe
    "tsan": ("RelWithDebInfo", "-O1 -g -fsanitize=thread", "clang++", {}),
}


def build_lib(variant="rel"):
    """Build libecpint from /repo's current working tree.  Returns the build
    root, containing src/ (snapshot of the sources) and b/ (cmake build dir).
    Cached by content hash of the working tree, so the same tree is built
    once per variant however many checks ask for it."""
    fh = hashlib.sha256(repr(VARIANTS[variant]).encode()).hexdigest()[:6]
    key = "%s-%s%s" % (tree_hash(), "" if variant in ("rel", "tsan") else fh + "-", variant)
    root = os.path.join(CACHE, key)
    stamp = os.path.join(root, "OK")
    if os.path.exists(stamp):
        os.utime(root, None)
        return root
    os.makedirs(CACHE, exist_ok=True)
    lock = os.path.join(CACHE, key + ".lock")
    import fcntl
    with open(lock, "w") as lf:
        fcntl.flock(lf, fcntl.LOCK_EX)
        if os.path.exists(stamp):
            return root
        shutil.rmtree(root, ignore_errors=True)
        os.makedirs(root)
        src = os.path.join(root, "src")
        os.makedirs(src)
        for d in REL_DIRS:
            if os.path.isdir(os.path.join(REPO, d)):
                shutil.copytree(os.path.join(REPO, d), os.path.join(src, d), symlinks=True)
        for f in REL_FILES:
            shutil.copy2(os.path.join(REPO, f), os.path.join(src, f))
        # tests/doc directories are referenced only when the options are ON
        btype, flags, cxx, defs = VARIANTS[variant]
        cm = ["cmake", "-G", "Ninja", "-S", src, "-B", os.path.join(root, "b"),
              "-DCMAKE_BUILD_TYPE=" + btype, "-DLIBECPINT_BUILD_TESTS=OFF",
              "-DLIBECPINT_BUILD_DOCS=OFF", "-DCMAKE_CXX_FLAGS=" + flags]
        if cxx:
            cm.append("-DCMAKE_CXX_COMPILER=" + cxx)
            cm.append("-DCMAKE_C_COMPILER=" + ("clang" if "clang" in cxx else "gcc"))
        for k, v in defs.items():
            cm.append("-D%s=%s" % (k, v))
        t0 = time.time()
        rc, out = sh(cm, check=False, timeout=600)
        if rc != 0:
            raise BuildError("cmake configure failed for variant %s\n%s" % (variant, out[-4000:]))
        rc, out = sh(["cmake", "--build", os.path.join(root, "b"), "-j", str(NPROC)], check=False, timeout=3600)
        if rc != 0:
            raise BuildError("library build failed for variant %s\n%s" % (variant, out[-6000:]))
        log("[build] %s built in %.1fs" % (key, time.time() - t0))
        open(stamp, "w").write("ok\n")
        _prune_cache()
    return root


class BuildError(Exception):
    pass


def lib_flags(root, variant="rel"):
    btype, flags, cxx, defs = VARIANTS[variant]
    inc = ["-I%s/src/include" % root, "-I%s/src/include/libecpint" % root,
           "-I%s/b/include/libecpint" % root, "-I%s/b/include" % root]
    libs = ["%s/b/src/libecpint.a" % root, "%s/b/external/Faddeeva/libFaddeeva.a" % root, "-lpugixml"]
    return (cxx or "g++"), flags.split(), inc, libs


def compile_driver(source, variant="rel", extra=None, out=None, opt="-O2"):
    """Compile harness/<source> against the cached library build."""
    root = build_lib(variant)
    cxx, flags, inc, libs = lib_flags(root, variant)
    srcp = source if os.path.isabs(source) else os.path.join(VERIF, "harness", source)
    h = hashlib.sha256(open(srcp, "rb").read() + repr(extra).encode()).hexdigest()[:12]
    exe = out or os.path.join(root, "drv_%s_%s" % (os.path.basename(source).replace(".cpp", ""), h))
    if os.path.exists(exe):
        return exe
    cmd = [cxx, "-std=c++17", opt] + flags + (extra or []) + inc + \
          ["-I" + os.path.join(VERIF, "harness"), srcp, "-o", exe + ".tmp"] + libs + ["-lpthread"]
    rc, o = sh(cmd, check=False, timeout=1200)
    if rc != 0:
        raise BuildError("driver %s failed to compile\n%s" % (source, o[-6000:]))
    os.replace(exe + ".tmp", exe)
    return exe


def scratch_dir(prefix="verif-"):
    return tempfile.mkdtemp(prefix=prefix, dir=os.environ.get("VERIF_TMP", "/tmp"))


# --------------------------------------------------------------------------
# Coq
# --------------------------------------------------------------------------

COQ_FLAGS = ["-Q", COQ, "LV"]


def coqc(vfile, timeout=600, cwd=None, check=False):
    """Compile one .v file (absolute path or relative to /verif/coq)."""
    p = vfile if os.path.isabs(vfile) else os.path.join(COQ, vfile)
    rc, out = sh(["coqc"] + COQ_FLAGS + [p], cwd=cwd or COQ, timeout=timeout, check=False)
    if check and rc != 0:
        raise RuntimeError("coqc %s failed:\n%s" % (vfile, out[-6000:]))
    return rc, out


def coq_make(targets=None, timeout=3600):
    """(Re)build the static development; returns (rc, out)."""
    if not os.path.exists(os.path.join(COQ, "Makefile")):
        sh("coq_makefile -f _CoqProject -o Makefile", cwd=COQ)
    cmd = ["make", "-j", str(NPROC)] + (targets or [])
    return sh(cmd, cwd=COQ, timeout=timeout, check=False)


FORBIDDEN = re.compile(r"\b(Admitted|admit|Axiom|Parameter|Conjecture|Admit Obligations)\b|Unset Guard|bypass_check|type-in-type|impredicative-set|Unset Universe Checking|Unset Positivity")


def hygiene_gate():
    """No axioms / admits anywhere in the development (generated files too)."""
    bad = []
    for root, dirs, files in os.walk(COQ):
        for f in files:
            if not f.endswith(".v"):
                continue
            p = os.path.join(root, f)
            txt = open(p, encoding="utf-8", errors="replace").read()
            # strip comments (non nested is enough for our own files)
            txt2 = re.sub(r"\(\*.*?\*\)", "", txt, flags=re.S)
            for m in FORBIDDEN.finditer(txt2):
                bad.append("%s: %s" % (os.path.relpath(p, VERIF), m.group(0)))
    return bad


def parse_assumptions(out):
    """Collect what Print Assumptions printed in a coqc output."""
    res = []
    closed = out.count("Closed under the global context")
    blocks = re.findall(r"Axioms:\n((?:.+\n?)+?)(?:\n|\Z)", out)
    names = set()
    for b in blocks:
        for line in b.splitlines():
            m = re.match(r"^([A-Za-z_][\w\.']*)\s*(:|$)", line)
            if m and m.group(1) not in ("Axioms", "Warning", "File", "New"):
                names.add(m.group(1))
    return closed, sorted(names)


# --------------------------------------------------------------------------
# PRNG (SplitMix64): every random choice of a check derives from VERIF_SEED
# --------------------------------------------------------------------------

class SplitMix:
    M = (1 << 64) - 1

    def __init__(self, seed):
        self.s = seed & self.M

    def next(self):
        self.s = (self.s + 0x9E3779B97F4A7C15) & self.M
        z = self.s
        z = ((z ^ (z >> 30)) * 0xBF58476D1CE4E5B9) & self.M
        z = ((z ^ (z >> 27)) * 0x94D049BB133111EB) & self.M
        return z ^ (z >> 31)

    def uniform(self, a=0.0, b=1.0):
        return a + (b - a) * ((self.next() >> 11) / float(1 << 53))

    def randint(self, a, b):
        return a + self.next() % (b - a + 1)

    def choice(self, xs):
        return xs[self.next() % len(xs)]

    def loguniform(self, a, b):
        import math
        return math.exp(self.uniform(math.log(a), math.log(b)))

    def shuffle(self, xs):
        for i in range(len(xs) - 1, 0, -1):
            j = self.next() % (i + 1)
            xs[i], xs[j] = xs[j], xs[i]


def seed():
    try:
        return int(os.environ.get("VERIF_SEED", "1"))
    except ValueError:
        return 1


# --------------------------------------------------------------------------
# results
# --------------------------------------------------------------------------

def load_known():
    p = os.path.join(VERIF, "known_findings.json")
    if not os.path.exists(p):
        return []
    return json.load(open(p))


class Result:
    """Accumulates what a check did and writes evidence/<id>.json."""

    def __init__(self, pid, tier, level):
        self.pid, self.tier, self.level = pid, tier, level
        self.t0 = time.time()
        self.cov = {"samples": []}
        self.assumptions = []
        self.violations = []   # (replay_path, no_input_found)
        self.known_lines = []
        self.seed = seed()
        os.makedirs(os.path.join(VERIF, "evidence"), exist_ok=True)
        os.makedirs(os.path.join(VERIF, "replays"), exist_ok=True)

    def add(self, key, n=1):
        self.cov[key] = self.cov.get(key, 0) + n

    def sample(self, s, cap=8):
        if len(self.cov["samples"]) < cap:
            self.cov["samples"].append(s)

    def violation(self, name, payload, no_input=False):
        p = os.path.join(VERIF, "replays", "%s-%d-%s.json" % (self.pid, self.seed, name))
        payload = dict(payload)
        payload.setdefault("property", self.pid)
        payload.setdefault("kind", "obligation" if no_input else "input")
        with open(p, "w") as f:
            json.dump(payload, f, indent=1, default=str)
        self.violations.append((p, no_input))
        return p

    def known(self, text):
        self.known_lines.append(text)

    def finish(self):
        ev = {
            "property_id": self.pid, "tier": self.tier, "seed": self.seed, "level": self.level,
            "coverage": self.cov, "assumptions": self.assumptions,
            "wall_s": round(time.time() - self.t0, 2), "violations": len(self.violations),
        }
        with open(os.path.join(VERIF, "evidence", "%s.json" % self.pid), "w") as f:
            json.dump(ev, f, indent=1, default=str)
        for k in self.known_lines:
            print("KNOWN-FINDING: property=%s %s" % (self.pid, k))
        for p, noinp in self.violations:
            print("VIOLATION property=%s replay=%s%s" % (self.pid, p, " no-failing-input-found" if noinp else ""))
        sys.stdout.flush()
        return 1 if self.violations else 0


def hexf(x):
    return float(x).hex()


# --------------------------------------------------------------------------
# the Coq half of a check
# --------------------------------------------------------------------------

def coq_properties(res, pid, extra=None, timeout=1800):
    """(Re)build the development up to Properties_<pid>.vo, then re-run coqc on the
    property file itself to capture what Print Assumptions says.  Records
    obligations/discharged/trusted_base in the evidence.  Returns True when
    every obligation checked."""
    res.cov.setdefault("obligations", 0); res.cov.setdefault("discharged", 0)
    res.cov.setdefault("trusted_base", []); res.cov.setdefault("checker_cmd", "hygiene gate")
    bad = hygiene_gate()
    if bad:
        res.cov["hygiene"] = bad[:10]
        res.violation("hygiene", {"theorem_or_correspondence": "hygiene gate: forbidden vernacular in the development",
                                  "found": bad[:20]}, no_input=True)
        return False
    files = ["Properties_%s.v" % pid] + list(extra or [])
    ok = True
    n_thm = 0
    n_ok = 0
    axioms = set()
    cmds = []
    for f in files:
        vo = f[:-2] + ".vo"
        rc, out = coq_make([vo], timeout=timeout)
        cmds.append("make -C coq %s" % vo)
        src = open(os.path.join(COQ, f)).read()
        src = re.sub(r"\(\*.*?\*\)", "", src, flags=re.S)
        thms = re.findall(r"^\s*(?:Theorem|Lemma|Example|Corollary)\s+([\w']+)", src, flags=re.M)
        n_thm += len(thms)
        if rc != 0:
            ok = False
            res.cov.setdefault("coq_errors", []).append(out[-1500:])
            continue
        rc2, out2 = coqc(f, timeout=timeout)
        if rc2 != 0:
            ok = False
            res.cov.setdefault("coq_errors", []).append(out2[-1500:])
            continue
        n_ok += len(thms)
        closed, names = parse_assumptions(out2)
        axioms.update(names)
    res.cov["obligations"] = res.cov.get("obligations", 0) + n_thm
    res.cov["discharged"] = res.cov.get("discharged", 0) + n_ok
    res.cov["checker_cmd"] = "; ".join(cmds) + "; coqc -Q coq LV coq/Properties_%s.v (Coq 8.16.1, vm_compute only)" % pid
    tb = res.cov.setdefault("trusted_base", [])
    for a in sorted(axioms):
        if a not in tb:
            tb.append("axiom (Print Assumptions): " + a)
    if not axioms:
        tb.append("Print Assumptions: closed under the global context for every theorem of Properties_%s.v" % pid)
    tb.append("Coq 8.16.1 kernel + vm_compute; no native_compute")
    return ok


def proof_broken(res, pid, what):
    res.violation("proof", {"theorem_or_correspondence": what,
                            "detail": res.cov.get("coq_errors", [])[:3]}, no_input=True)
