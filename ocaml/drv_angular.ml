(* C13: the extracted angular model against the tables the library built.
   usage: drv_angular tables <bin> <exact 0/1> <kshard> <nshards>   |   harm <lmax> <file>
   tables: every stored W / Omega entry compared with wbar/obar * scale
           (float dictionary; memoised U and W tables; optionally the exact-rational
            instance on the same entries, which also cross-validates the float instance). *)
open Vext
open Vio

let n = nat_of_int
let nmis = ref 0 and ncmp = ref 0 and nnz = ref 0
let mism fmt = incr nmis; Printf.ksprintf (fun s -> if !nmis < 40 then print_endline ("MISMATCH " ^ s)) fmt

(* exact rationals -> float *)
let float_of_q (q : q) : float = float_of_z q.qnum /. float_of_pos q.qden
let qops : q numOps = qOps

let read_f64 ic = let b = Bytes.create 8 in really_input ic b 0 8; Int64.float_of_bits (Bytes.get_int64_le b 0)
let read_i32 ic = let b = Bytes.create 4 in really_input ic b 0 4; Int32.to_int (Bytes.get_int32_le b 0)

let pi = 4.0 *. atan 1.0

let tables file exact kshard nshards =
  let ic = open_in_bin file in
  let wdim = read_i32 ic in let maxl = read_i32 ic in let lb = read_i32 ic in let le = read_i32 ic in
  let ld = lb + le in
  (* memo tables over the float dictionary *)
  let utab : (int * int * int * int, float * float) Hashtbl.t = Hashtbl.create 4096 in
  let ub lam amu i j =
    let key = (int_of_nat lam, int_of_nat amu, int_of_nat i, int_of_nat j) in
    match Hashtbl.find_opt utab key with Some v -> v | None -> let v = ubar fops lam amu i j in Hashtbl.add utab key v; v in
  let ptab : (int * int * int, float) Hashtbl.t = Hashtbl.create 4096 in
  let pb a b c =
    let key = (int_of_nat a, int_of_nat b, int_of_nat c) in
    match Hashtbl.find_opt ptab key with Some v -> v | None -> let v = pbar fops a b c in Hashtbl.add ptab key v; v in
  let cn lam mu = cnorm fops (n lam) (z_of_int mu) in
  let wscale lam mu = 4.0 *. sqrt (cn lam mu *. pi) in
  (* W *)
  let nlm = (maxl + 1) * (maxl + 1) in
  let wd = wdim + 1 in
  let wmodel = Array.make (wd * wd * wd * nlm) 0.0 in
  let widx k l m lam mu = (((k * wd + l) * wd + m) * nlm) + lam * lam + lam + mu in
  for k = 0 to wdim do for l = 0 to wdim do for m = 0 to wdim do
    for lam = 0 to maxl do for mu = -lam to lam do
      let v = read_f64 ic in
      let wb = wbar_code_gen fops ub pb (n maxl) (n k) (n l) (n m) (n lam) (z_of_int mu) in
      wmodel.(widx k l m lam mu) <- wb;
      if k mod nshards = kshard then begin
        let mv = wb *. wscale lam mu in
        incr ncmp; if v <> 0.0 then incr nnz;
        if not (Float.abs (mv -. v) <= 1e-12 *. Float.max 1.0 (Float.abs v)) then mism "W(%d,%d,%d,%d,%d) model=%h impl=%h" k l m lam mu mv v;
        if exact && (k + l + m) mod 3 = 0 then begin
          (* exact rational instance on the same entry: spec-shaped (no screens) *)
          let qs = float_of_q (wbar_spec qops (n k) (n l) (n m) (n lam) (z_of_int mu)) *. wscale lam mu in
          incr ncmp;
          if not (Float.abs (qs -. v) <= 1e-12 *. Float.max 1.0 (Float.abs v)) then mism "W(%d,%d,%d,%d,%d) exact-spec=%h impl=%h" k l m lam mu qs v
        end
      end
    done done
  done done done;
  let wbm k l m lam mu =
    let k = int_of_nat k and l = int_of_nat l and m = int_of_nat m and lam = int_of_nat lam and mu = int_of_z mu in
    if k > wdim || l > wdim || m > wdim || lam > maxl then (mism "model reads W(%d,%d,%d,%d,%d) outside the allocated table" k l m lam mu; 0.0)
    else wmodel.(widx k l m lam mu) in
  (* Omega *)
  for k = 0 to lb do for l = 0 to lb do for m = 0 to lb do
    for lam = 0 to ld do for mu = -lam to lam do
      for rho = 0 to ld do for sg = -rho to rho do
        let v = read_f64 ic in
        if k mod nshards = kshard then begin
          let ob = obar_code_gen fops ub wbm (n k) (n l) (n m) (n lam) (z_of_int mu) (n rho) (z_of_int sg) in
          let mv = 4.0 *. ob *. sqrt (cn lam mu *. cn rho sg) in
          incr ncmp; if v <> 0.0 then incr nnz;
          if not (Float.abs (mv -. v) <= 1e-12 *. Float.max 1.0 (Float.abs v)) then mism "Omega(%d,%d,%d,%d,%d,%d,%d) model=%h impl=%h" k l m lam mu rho sg mv v;
          if exact && lam <= 3 && rho <= 3 && (k + l + m + lam + rho) mod 2 = 0 then begin
            let qs = 4.0 *. float_of_q (obar_spec qops (n k) (n l) (n m) (n lam) (z_of_int mu) (n rho) (z_of_int sg)) *. sqrt (cn lam mu *. cn rho sg) in
            incr ncmp;
            if not (Float.abs (qs -. v) <= 1e-12 *. Float.max 1.0 (Float.abs v)) then mism "Omega(%d,%d,%d,%d,%d,%d,%d) exact-spec=%h impl=%h" k l m lam mu rho sg qs v
          end
        end
      done done
    done done
  done done done;
  (try ignore (input_char ic); mism "trailing data in table dump" with End_of_file -> ());
  Printf.printf "SUMMARY wdim=%d maxl=%d compared=%d nonzero=%d mismatches=%d\n" wdim maxl !ncmp !nnz !nmis

(* harmonics: polynomial model at the direction, orthonormality is a theorem; addition theorem on the implementation's values *)
let harm lmax file =
  let ic = open_in file in
  let ys = Array.init (lmax + 1) (fun lam -> Array.init (2 * lam + 1) (fun i -> yterms fops (n lam) (z_of_int (i - lam)))) in
  let cn lam mu = cnorm fops (n lam) (z_of_int mu) in
  let dirs = ref [] in
  (try while true do
       match split_ws (input_line ic) with
       | "dir" :: _ :: xs :: ps :: vals ->
         let x = float_of_string xs and phi = float_of_string ps in
         let vals = Array.of_list (List.map float_of_string vals) in
         (* sin(theta) for the double x = cos(theta): (1-x)(1+x) keeps full relative accuracy near the poles, 1 - x*x does not *)
         let s = sqrt (Float.max 0.0 ((1.0 -. x) *. (1.0 +. x))) in
         let px = s *. cos phi and py = s *. sin phi and pz = x in
         let pw b e = let r = ref 1.0 in for _ = 1 to int_of_nat e do r := !r *. b done; !r in
         let idx = ref 0 in
         for lam = 0 to lmax do for mu = -lam to lam do
           let poly = List.fold_left (fun a (c, ((i, j), k)) -> a +. c *. pw px i *. pw py j *. pw pz k) 0.0 ys.(lam).(mu + lam) in
           let mv = sqrt (cn lam mu /. pi) *. poly in
           let v = vals.(!idx) in incr idx; incr ncmp; if v <> 0.0 then incr nnz;
           if not (Float.abs (mv -. v) <= 1e-12) then mism "S(%d,%d) at x=%h phi=%h model=%h impl=%h" lam mu x phi mv v
         done done;
         dirs := ((px, py, pz), vals) :: !dirs
       | _ -> ()
     done with End_of_file -> ());
  (* addition theorem: sum_m S_lm(a) S_lm(b) = (2l+1)/(4pi) P_l(a.b), on the implementation's own values *)
  let dl = Array.of_list (List.rev !dirs) in
  let nd = Array.length dl in
  for a = 0 to nd - 1 do
    let b = (a * 7 + 3) mod nd in
    let ((ax, ay, az), va) = dl.(a) and ((bx, by, bz), vb) = dl.(b) in
    let c = ax *. bx +. ay *. by +. az *. bz in
    let p = Array.make (lmax + 2) 1.0 in
    p.(1) <- c;
    for l = 2 to lmax do p.(l) <- (float (2 * l - 1) *. c *. p.(l - 1) -. float (l - 1) *. p.(l - 2)) /. float l done;
    let idx = ref 0 in
    for l = 0 to lmax do
      let s = ref 0.0 in
      for _ = -l to l do s := !s +. va.(!idx) *. vb.(!idx); incr idx done;
      let want = float (2 * l + 1) /. (4.0 *. pi) *. p.(l) in
      incr ncmp;
      if not (Float.abs (!s -. want) <= 1e-12 *. float (2 * l + 1)) then mism "addition theorem l=%d dirs %d,%d sum=%h expected=%h" l a b !s want
    done
  done;
  Printf.printf "SUMMARY dirs=%d compared=%d nonzero=%d mismatches=%d\n" nd !ncmp !nnz !nmis

let () =
  match Sys.argv.(1) with
  | "tables" -> tables Sys.argv.(2) (Sys.argv.(3) = "1") (int_of_string Sys.argv.(4)) (int_of_string Sys.argv.(5))
  | "harm" -> harm (int_of_string Sys.argv.(2)) Sys.argv.(3)
  | _ -> exit 2
