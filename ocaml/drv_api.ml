(* C04: re-assemble the integrator's outputs with the extracted ApiModel from the
   low-level blocks; compare atom ids, lengths and every matrix entry. *)
open Vext
open Vio

let tol = ref 1e-12
let nmis = ref 0
let ncmp = ref 0
let nnz = ref 0
let nmasked = ref 0
let n = nat_of_int
let mism r fmt = incr nmis; Printf.ksprintf (fun s -> if !nmis < 60 then Printf.printf "MISMATCH %s %s\n" r.id s) fmt

let points (m : mat) = List.init (m.cols / 3) (fun i -> ((m.d.(3*i), m.d.(3*i+1)), m.d.(3*i+2)))
let nats a = List.map n (Array.to_list a)

let do_case r =
  let order = geti r "order" in
  let shell_l = Hashtbl.find r.ints "shell_l" and shell_atom = Hashtbl.find r.ints "shell_atom" in
  let ecp_atom = Hashtbl.find r.ints "ecp_atom" in
  let natoms = geti r "natoms" and ncart_impl = geti r "ncart" in
  let ne = Array.length ecp_atom and ns = Array.length shell_l in
  (* atom ids from the model *)
  let ((sid, eid), nat_m) = atom_ids fops (points (getm r "shell_centres")) (points (getm r "ecp_centres")) in
  let sid = List.map int_of_nat sid and eid = List.map int_of_nat eid in
  if sid <> Array.to_list shell_atom then mism r "shell atom ids model=[%s] impl=[%s]" (String.concat "," (List.map string_of_int sid)) (String.concat "," (List.map string_of_int (Array.to_list shell_atom)));
  if eid <> Array.to_list ecp_atom then mism r "ecp atom ids model=[%s] impl=[%s]" (String.concat "," (List.map string_of_int eid)) (String.concat "," (List.map string_of_int (Array.to_list ecp_atom)));
  if int_of_nat nat_m <> natoms then mism r "natoms model=%d impl=%d" (int_of_nat nat_m) natoms;
  let nc_model = List.fold_left (fun a l -> a + int_of_nat (Vext.ncart (n l))) 0 (Array.to_list shell_l) in
  if nc_model <> ncart_impl then mism r "ncart model=%d impl=%d" nc_model ncart_impl;
  let ncart = ncart_impl in
  let maskv = Hashtbl.find r.ints "mask" in
  let mask s1 e = maskv.(int_of_nat s1 * ne + int_of_nat e) <> 0 in
  for s1 = 0 to ns - 1 do
    let all_off = ref (ne > 0) in
    for e = 0 to ne - 1 do if maskv.(s1 * ne + e) <> 0 then all_off := false done;
    if !all_off then incr nmasked
  done;
  let b name s1 s2 e = Printf.sprintf "%s_%d_%d_%d" name (int_of_nat s1) (int_of_nat s2) (int_of_nat e) in
  let blk0 s1 s2 e k l = blk_of "b0" (getm r (b "b0" s1 s2 e)) k l in
  let blkc name s1 s2 e i k l = let nm = Printf.sprintf "%s_%d" (b name s1 s2 e) (int_of_nat i) in blk_of nm (getm r nm) k l in
  let sl = nats shell_l and sa = nats shell_atom and ea = nats ecp_atom in
  let cmp what (impl : mat) (model : int -> int -> float) =
    if impl.rows <> ncart || impl.cols <> ncart then mism r "%s dims %dx%d expected %dx%d" what impl.rows impl.cols ncart ncart
    else begin
      let scale = Array.fold_left (fun a x -> Float.max a (Float.abs x)) 1e-300 impl.d in
      for i = 0 to ncart - 1 do for j = 0 to ncart - 1 do
        let v = impl.d.(i * ncart + j) in
        incr ncmp; if v <> 0.0 then incr nnz;
        (try
          let m = model i j in
          if not (Float.abs (m -. v) <= !tol *. scale) then mism r "%s (%d,%d) model=%s impl=%s scale=%g" what i j (hex m) (hex v) scale
        with Oob s -> mism r "%s (%d,%d) model index out of range: %s" what i j s
           | Not_found -> mism r "%s (%d,%d) model needs a block the driver did not dump" what i j)
      done done
    end in
  cmp "integrals" (getm r "integrals") (fun i j -> integrals_entry fops sl ea mask blk0 (n i) (n j));
  let nf = geti r "n_first" and nsec = geti r "n_second" in
  if order > 0 then begin
    if nf <> 3 * natoms then mism r "first_derivs length %d expected %d" nf (3 * natoms);
    for idx = 0 to min nf (3 * natoms) - 1 do
      cmp (Printf.sprintf "first_derivs[%d]" idx) (getm r (Printf.sprintf "first%d" idx))
        (fun i j -> first_entry fops sl sa ea (blkc "b1") (n idx) (n i) (n j))
    done
  end;
  if order > 1 then begin
    let nh = 3 * natoms * (3 * natoms + 1) / 2 in
    if nsec <> nh then mism r "second_derivs length %d expected %d" nsec nh;
    for idx = 0 to min nsec nh - 1 do
      cmp (Printf.sprintf "second_derivs[%d]" idx) (getm r (Printf.sprintf "second%d" idx))
        (fun i j -> second_entry fops sl sa ea (n natoms) (blkc "b2") (n idx) (n i) (n j))
    done
  end;
  ignore ns

let () =
  let ic = open_in Sys.argv.(1) in
  if Array.length Sys.argv > 2 then tol := float_of_string Sys.argv.(2);
  let ncase = ref 0 in
  read_records ic (fun r ->
      incr ncase;
      let before = !nmis in
      do_case r;
      if !nmis = before then Printf.printf "ok %s\n" r.id);
  Printf.printf "SUMMARY cases=%d compared=%d nonzero=%d masked_shells=%d mismatches=%d\n" !ncase !ncmp !nnz !nmasked !nmis
