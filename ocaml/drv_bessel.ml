(* C14: extracted BesselModel vs BesselFunction (tables and both evaluators), and both evaluators
   against an independent evaluation of exp(-z) i_l(z) (positive series for z <= 30, the closed
   form of BesselSpec for larger z). *)
open Vext
open Vio

let n = nat_of_int
let nmis = ref 0 and nprop = ref 0 and ncmp = ref 0
let mism fmt = incr nmis; Printf.ksprintf (fun s -> if !nmis < 40 then print_endline ("MISMATCH " ^ s)) fmt
let prop fmt = incr nprop; Printf.ksprintf (fun s -> if !nprop < 200 then print_endline ("PROPVIOL " ^ s)) fmt

(* independent truth *)
let truth l z =
  if z = 0.0 then (if l = 0 then 1.0 else 0.0)
  else if z <= 30.0 then begin
    (* M_l = e^{-z} z^l sum_j (z^2/2)^j / (j! (2l+2j+1)!!) : all terms positive; logs avoid overflow *)
    let ldf = ref 0.0 in for i = 0 to l do ldf := !ldf +. log (float (2 * i + 1)) done;   (* log (2l+1)!! *)
    let t = ref (exp (-. z +. float l *. log z -. !ldf)) in
    let s = ref !t in
    let j = ref 1 in
    while !t > 1e-20 *. !s && !j < 5000 do
      t := !t *. (z *. z /. 2.0) /. (float !j *. float (2 * l + 2 * !j + 1));
      s := !s +. !t; incr j
    done; !s
  end else begin
    (* closed form; e^{-2z} < 1e-26 *)
    let u = 1.0 /. z in
    let pe p = List.fold_right (fun c acc -> float_of_z c +. u *. acc) p 0.0 in
    (pe (pA (n l)) +. pe (pB (n l)) *. exp (-2.0 *. z)) /. 2.0
  end

let () =
  let ic = open_in Sys.argv.(1) in
  let tab = ref None in
  let lmax_ = ref 0 and nn = ref 0 and order = ref 0 and acc = ref 0.0 in
  let kt = ref [||] and dkt = ref [||] in
  read_records ic (fun r ->
      if r.id = "table" then begin
        lmax_ := geti r "lMax"; nn := geti r "N"; order := geti r "order"; acc := (getm r "acc").d.(0);
        let km = getm r "K" and dm = getm r "dK" in
        let cols = km.cols in
        (* model tables *)
        let mk = Array.make_matrix (!nn + 1) cols 0.0 in
        let mdk = Array.init (!nn + 1) (fun _ -> Array.make_matrix 6 cols 0.0) in
        for i = 0 to !nn do
          let ks = node_K fops (n !lmax_) (n !nn) (n !order) !acc (n i) in
          List.iteri (fun l v -> mk.(i).(l) <- v) ks;
          let d = node_dK fops (n !lmax_) ks in
          List.iteri (fun nd row -> List.iteri (fun l v -> mdk.(i).(nd).(l) <- v) row) d
        done;
        for i = 0 to !nn do
          for l = 0 to cols - 1 do
            let v = km.d.(i * cols + l) in incr ncmp;
            if not (Float.abs (mk.(i).(l) -. v) <= 1e-13 *. Float.max 1e-300 (Float.abs v)) then mism "K[%d][%d] model=%h impl=%h" i l mk.(i).(l) v
          done;
          for nd = 0 to 5 do for l = 0 to !lmax_ do
            let v = dm.d.(i * dm.cols + nd * (!lmax_ + 1) + l) in incr ncmp;
            if not (Float.abs (mdk.(i).(nd).(l) -. v) <= 1e-13 *. Float.max 1e-16 (Float.abs v)) then mism "dK[%d][%d][%d] model=%h impl=%h" i nd l mdk.(i).(nd).(l) v
          done done
        done;
        kt := mk; dkt := mdk; tab := Some ()
      end else begin
        let z = (getm r "z").d.(0) in
        let vec = (getm r "vec").d and one = (getm r "one").d in
        let ktf i l = !kt.(int_of_nat i).(int_of_nat l) and dktf i nd l = !dkt.(int_of_nat i).(int_of_nat nd).(int_of_nat l) in
        let fl x = n (int_of_float (Float.floor x)) in
        let old = List.init (!lmax_ + 1) (fun _ -> 7.0) in
        let mv = calc_vec fops (n !lmax_) (n !nn) ktf dktf fl z (n !lmax_) old in
        List.iteri (fun l m ->
            incr ncmp;
            if not (Float.abs (m -. vec.(l)) <= 1e-13 *. Float.max 1.0 (Float.abs m)) then mism "calculate(z=%h, vector)[%d] model=%h impl=%h" z l m vec.(l)) mv;
        for l = 0 to !lmax_ do
          let m1 = calc_one fops (n !nn) dktf fl z (n l) in
          incr ncmp;
          if not (Float.abs (m1 -. one.(l)) <= 1e-13 *. Float.max 1.0 (Float.abs m1)) then mism "calculate(z=%h, L=%d) model=%h impl=%h" z l m1 one.(l);
          (* the property *)
          let t = truth l z in
          if not (Float.abs (vec.(l) -. t) <= 1e-12) then prop "vector z=%h l=%d impl=%h true=%h err=%g" z l vec.(l) t (Float.abs (vec.(l) -. t));
          if not (Float.abs (one.(l) -. t) <= 1e-12) then prop "single z=%h l=%d impl=%h true=%h err=%g" z l one.(l) t (Float.abs (one.(l) -. t));
          if not (Float.abs (one.(l) -. vec.(l)) <= 1e-12) then prop "overloads z=%h l=%d vector=%h single=%h" z l vec.(l) one.(l);
          Printf.printf "VAL %h %d %h %h\n" z l vec.(l) one.(l)
        done
      end);
  Printf.printf "SUMMARY compared=%d mismatches=%d propviol=%d\n" !ncmp !nmis !nprop
