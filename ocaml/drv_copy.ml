(* C17: the extracted CopyModel run on histories, under the semantics T-copy read.
   usage: drv_copy <27 booleans as a 0/1 string: ctor(9) assign(9) copym(9)> <histories file>
   history line: "<id> op;op;..." with ops
     XE a l | XL c l | CP s | AS d s | CM s | DE x | SL x c | SE a c | SA x z | AP x e c
   output per step: "step k verdict" then one line per allocated identity:
     "obj x dead" | "obj x live exps=.. coeffs=.. am=.. minexp=.. lptr=.. pc=<class> centre=<obs> atom=<..>"
   verdict = ok | INV (invariant broken) | FID (a copy lacks an attribute of its source) *)
open Vext
open Vio

let path_of (s : String.t) (off : int) : cpath =
  let b i = s.[off + i] = '1' in
  { c_exps = b 0; c_coeffs = b 1; c_cvec = b 2; c_lptr = b 3; c_lcenter = b 4; c_minexp = b 5; c_am = b 6; c_atom = b 7; c_reseat = b 8 }

let zi = z_of_int
let ni = nat_of_int
let op_of (s : String.t) : cop =
  match split_ws s with
  | ["XE"; a; l] -> OCtorExt (ni (int_of_string a), zi (int_of_string l))
  | ["XL"; c; l] -> OCtorLoc (zi (int_of_string c), zi (int_of_string l))
  | ["CP"; x] -> OCopy (ni (int_of_string x))
  | ["AS"; d; x] -> OAssign (ni (int_of_string d), ni (int_of_string x))
  | ["CM"; x] -> OCopyM (ni (int_of_string x))
  | ["DE"; x] -> ODestroy (ni (int_of_string x))
  | ["SL"; x; c] -> OSetLocal (ni (int_of_string x), zi (int_of_string c))
  | ["SE"; a; c] -> OSetExt (ni (int_of_string a), zi (int_of_string c))
  | ["SA"; x; z] -> OSetAtom (ni (int_of_string x), zi (int_of_string z))
  | ["AP"; x; e; c] -> OAddPrim (ni (int_of_string x), zi (int_of_string e), zi (int_of_string c))
  | _ -> failwith ("bad op: " ^ s)

let zs l = "[" ^ String.concat "," (List.map (fun z -> string_of_int (int_of_z z)) l) ^ "]"
let oz = function Some z -> string_of_int (int_of_z z) | None -> "?"
let ob = function Some true -> "1" | Some false -> "0" | None -> "?"
let pcs = function PSelf -> "self" | PExt a -> Printf.sprintf "ext%d" (int_of_nat a) | POther j -> Printf.sprintf "other%d" (int_of_nat j)
                 | PDangling j -> Printf.sprintf "dangling%d" (int_of_nat j) | PNone -> "none"
let cs = function CVal z -> string_of_int (int_of_z z) | CIndet -> "indet" | CDangling -> "dangling" | CNoPtr -> "noptr"

let () =
  let bits = Sys.argv.(1) in
  let sm = { s_ctor = path_of bits 0; s_assign = path_of bits 9; s_copym = path_of bits 18 } in
  let ic = open_in Sys.argv.(2) in
  (try while true do
       let line = input_line ic in
       match String.index_opt line ' ' with
       | None -> ()
       | Some i ->
         let id = String.sub line 0 i in
         let ops = List.filter (fun x -> String.trim x <> "") (String.split_on_char ';' (String.sub line (i + 1) (String.length line - i - 1))) in
         Printf.printf "hist %s\n" id;
         let st = ref cinit in
         List.iteri (fun k os ->
             let o = op_of os in
             let before = !st in
             let after = cstep sm before o in
             st := after;
             (* property verdicts, decided on the model *)
             let fid =
               (match o with
                | OCopy src | OCopyM src ->
                  (match obs_of after before.next, obs_of after src with
                   | Some a, Some b -> obs_eqb a b | _ -> true)
                | OAssign (d, src) ->
                  (match before.objs d, obs_of after d, obs_of after src with
                   | Some _, Some a, Some b -> obs_eqb a b | _ -> true)
                | _ -> true) in
             let verdict = if not (invb after) then "INV" else if not fid then "FID" else "ok" in
             Printf.printf "step %d %s %s\n" k verdict (String.trim os);
             for x = 0 to int_of_nat after.next - 1 do
               match after.objs (ni x) with
               | None -> Printf.printf "obj %d dead\n" x
               | Some v ->
                 Printf.printf "obj %d live exps=%s coeffs=%s am=%s minexp=%s lptr=%s pc=%s centre=%s atom=%s\n" x
                   (zs v.exps) (zs v.coeffs) (oz v.am) (oz v.minexp) (ob v.lptr) (pcs (pclass_of after (ni x) v)) (cs (centre_of after v)) (oz v.atom)
             done) ops
     done with End_of_file -> ())
