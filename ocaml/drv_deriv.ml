(* C02/C03: re-assemble the derivative routines' outputs with the extracted
   Coq model (DerivModel.v) from the blocks the C++ driver dumped, compare. *)
open Vext
open Vio

let tol = ref 1e-12
let nmis = ref 0
let ncmp = ref 0
let nnz = ref 0

let compare_block r (what : String.t) (impl : mat) (model : int -> int -> float) (scale : float) =
  for i = 0 to impl.rows - 1 do
    for j = 0 to impl.cols - 1 do
      let v = impl.d.(i * impl.cols + j) in
      let m = (try model i j with Oob s -> (Printf.printf "MISMATCH %s %s %d %d model-index-out-of-range %s\n" r.id what i j s; incr nmis; nan)) in
      incr ncmp;
      if v <> 0.0 then incr nnz;
      if not (Float.is_nan m) then
        if not (Float.abs (m -. v) <= !tol *. scale) then begin
          incr nmis;
          if !nmis < 50 then Printf.printf "MISMATCH %s %s %d %d model=%s impl=%s scale=%g\n" r.id what i j (hex m) (hex v) scale
        end
    done
  done

let maxabs (ms : mat list) =
  List.fold_left (fun acc m -> Array.fold_left (fun a x -> Float.max a (Float.abs x)) acc m.d) 1e-300 ms

let n = nat_of_int

let triple (m : mat) (row : int) = ((m.d.(3*row), m.d.(3*row+1)), m.d.(3*row+2))

let do_first r =
  let la = geti r "LA" and lb = geti r "LB" in
  let cen = getm r "centres" in
  let offA = off_centre fops (triple cen 0) (triple cen 2) in
  let offB = off_centre fops (triple cen 1) (triple cen 2) in
  let blk name = if hasm r name then blk_of name (getm r name) else (fun _ _ -> raise (Oob (name ^ " absent"))) in
  let dimm name = if hasm r name then (getm r name).rows else 0 in
  let qmA = blk "QmA" and qpA = blk "QpA" and qmB = blk "QmB" and qpB = blk "QpB" in
  let lsdA q na nb = lsd fops (n la) (n (dimm "QmA")) qmA qpA (n q) (n na) (n nb) in
  let lsdB q nb na = lsd fops (n lb) (n (dimm "QmB")) qmB qpB (n q) (n nb) (n na) in
  let all = List.init 9 (fun i -> getm r (Printf.sprintf "res%d" i)) in
  let scale = maxabs (all @ List.init 3 (fun i -> getm r (Printf.sprintf "lsdA%d" i)) @ List.init 3 (fun i -> getm r (Printf.sprintf "lsdB%d" i))) in
  for q = 0 to 2 do
    compare_block r (Printf.sprintf "left_shell_derivative(A,B)[%d]" q) (getm r (Printf.sprintf "lsdA%d" q)) (lsdA q) scale;
    compare_block r (Printf.sprintf "left_shell_derivative(B,A)[%d]" q) (getm r (Printf.sprintf "lsdB%d" q)) (lsdB q) scale
  done;
  (* the assembled nine blocks: from the model's own lsd (end to end) *)
  let qa q = (fun na nb -> lsdA (int_of_nat q) (int_of_nat na) (int_of_nat nb)) in
  let qb q = (fun nb na -> lsdB (int_of_nat q) (int_of_nat nb) (int_of_nat na)) in
  for i = 0 to 8 do
    compare_block r (Printf.sprintf "compute_shell_pair_derivative[%d]" i) (List.nth all i)
      (fun na nb -> cspd fops offA offB qa qb (n i) (n na) (n nb)) scale
  done

let do_second r =
  let la = geti r "LA" and lb = geti r "LB" in
  let cen = getm r "centres" in
  let offA = off_centre fops (triple cen 0) (triple cen 2) in
  let offB = off_centre fops (triple cen 1) (triple cen 2) in
  let blk name = if hasm r name then blk_of name (getm r name) else zero_blk in
  (* dims of the "minus" blocks: from compute_shell_pair when computed, else the max(1, .) dummy *)
  let dim_m2 l name = if hasm r name then (getm r name).rows else max 1 ((l - 1) * l / 2) in
  let lssdA c na nb = lssd fops (n la) (n (dim_m2 la "Qm2A")) (blk "Qm2A") (blk "Q0A") (blk "Qp2A") (n c) (n na) (n nb) in
  let lssdB c nb na = lssd fops (n lb) (n (dim_m2 lb "Qm2B")) (blk "Qm2B") (blk "Q0B") (blk "Qp2B") (n c) (n nb) (n na) in
  let dm0 = if hasm r "Qmm" then (getm r "Qmm").rows else max 1 (la * (la + 1) / 2) in
  let dm1 = if hasm r "Qmm" then (getm r "Qmm").cols else max 1 (lb * (lb + 1) / 2) in
  let mix p q na nb = mixed fops (n la) (n lb) (n dm0) (n dm1) (blk "Qmm") (blk "Qmp") (blk "Qpm") (blk "Qpp") (n p) (n q) (n na) (n nb) in
  let all = List.init 45 (fun i -> getm r (Printf.sprintf "res%d" i)) in
  let parts = List.init 6 (fun i -> getm r (Printf.sprintf "lssdA%d" i)) @ List.init 6 (fun i -> getm r (Printf.sprintf "lssdB%d" i))
              @ List.init 9 (fun i -> getm r (Printf.sprintf "mix%d" i)) in
  let scale = maxabs (all @ parts) in
  for c = 0 to 5 do
    compare_block r (Printf.sprintf "left_shell_second_derivative(A,B)[%d]" c) (getm r (Printf.sprintf "lssdA%d" c)) (lssdA c) scale;
    compare_block r (Printf.sprintf "left_shell_second_derivative(B,A)[%d]" c) (getm r (Printf.sprintf "lssdB%d" c)) (lssdB c) scale
  done;
  for i = 0 to 8 do
    compare_block r (Printf.sprintf "mixed_second_derivative[%d]" i) (getm r (Printf.sprintf "mix%d" i)) (mix (i / 3) (i mod 3)) scale
  done;
  let qaa c = (fun na nb -> lssdA (int_of_nat c) (int_of_nat na) (int_of_nat nb)) in
  let qbb c = (fun nb na -> lssdB (int_of_nat c) (int_of_nat nb) (int_of_nat na)) in
  let qab j = (fun na nb -> let j = int_of_nat j in mix (j / 3) (j mod 3) (int_of_nat na) (int_of_nat nb)) in
  for i = 0 to 44 do
    compare_block r (Printf.sprintf "compute_shell_pair_second_derivative[%d]" i) (List.nth all i)
      (fun na nb -> csp2 fops offA offB qaa qbb qab (n i) (n na) (n nb)) scale
  done

let () =
  let ic = open_in Sys.argv.(1) in
  if Array.length Sys.argv > 2 then tol := float_of_string Sys.argv.(2);
  let ncase = ref 0 in
  read_records ic (fun r ->
      incr ncase;
      let before = !nmis in
      (if geti r "order" = 1 then do_first r else do_second r);
      if !nmis = before then Printf.printf "ok %s\n" r.id);
  Printf.printf "SUMMARY cases=%d compared=%d nonzero=%d mismatches=%d\n" !ncase !ncmp !nnz !nmis
