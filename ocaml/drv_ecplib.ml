(* C16: the extracted loader model (EcpLibModel) on the tokens T-data produced,
   compared with the ECP objects the library built from the XML files.
   usage: drv_ecplib <EcpData.txt> <driver output> <maxL> <radii comma list> *)
open Vext
open Vio

let nmis = ref 0
let ncmp = ref 0
let mism id fmt = incr nmis; Printf.ksprintf (fun s -> if !nmis < 60 then Printf.printf "MISMATCH %s %s\n" id s) fmt

let dtok m e = D (z_of_int m, z_of_int e)
(* mantissas can exceed 2^62? no: at most 12 digits *)

let read_tokens path =
  let ic = open_in path in
  let tbl = Hashtbl.create 256 in
  let set = ref "" and atoms = ref [] in
  let cur_atom = ref None and cur_shells = ref [] and cur_shell = ref None and cur_prims = ref [] in
  let flush_shell () = (match !cur_shell with Some (l, n) -> cur_shells := { xs_l = l; xs_nexp = n; xs_prims = List.rev !cur_prims } :: !cur_shells | None -> ()); cur_shell := None; cur_prims := [] in
  let flush_atom () = flush_shell (); (match !cur_atom with Some (nm, nc, ml) -> Hashtbl.replace tbl (!set ^ ":" ^ nm) { xa_name = EmptyString; xa_ncore = nc; xa_maxl = ml; xa_shells = List.rev !cur_shells } | None -> ()); cur_atom := None; cur_shells := [] in
  (try while true do
       match split_ws (input_line ic) with
       | ["set"; s] -> flush_atom (); set := s
       | ["atom"; nm; a; b; c; d] -> flush_atom (); cur_atom := Some (nm, dtok (int_of_string a) (int_of_string b), dtok (int_of_string c) (int_of_string d))
       | ["shell"; a; b; c; d] -> flush_shell (); cur_shell := Some (dtok (int_of_string a) (int_of_string b), dtok (int_of_string c) (int_of_string d))
       | ["nxc"; a; b; c; d; e; f] -> cur_prims := ((dtok (int_of_string a) (int_of_string b), dtok (int_of_string c) (int_of_string d)), dtok (int_of_string e) (int_of_string f)) :: !cur_prims
       | _ -> ()
     done with End_of_file -> ());
  flush_atom (); ignore atoms; tbl

let () =
  let tbl = read_tokens Sys.argv.(1) in
  let maxl = int_of_string Sys.argv.(3) in
  let radii = List.map float_of_string (String.split_on_char ',' Sys.argv.(4)) in
  let ic = open_in Sys.argv.(2) in
  let ncase = ref 0 in
  read_records ic (fun r ->
      incr ncase;
      let before = !nmis in
      (match Hashtbl.find_opt tbl r.id with
       | None -> mism r.id "element not present in the tokenised XML"
       | Some xa ->
         let ps = prims_of xa in
         let chk name m i = incr ncmp; if m <> i then mism r.id "%s model=%d impl=%d" name m i in
         chk "N" (List.length ps) (geti r "N"); chk "nstored" (List.length ps) (geti r "nstored");
         chk "L" (int_of_z (maxl_of ps)) (geti r "L");
         chk "core" (match tok_int xa.xa_ncore with Some z -> int_of_z z | None -> -1) (geti r "core");
         chk "maxl attribute vs L" (match tok_int xa.xa_maxl with Some z -> int_of_z z | None -> -1) (geti r "L");
         chk "basisN" 1 (geti r "basisN"); chk "basisMaxL" (int_of_z (maxl_of ps)) (geti r "basisMaxL");
         let ls = List.map int_of_z (l_starts_of (nat_of_int maxl) ps) in
         let lsi = Array.to_list (Hashtbl.find r.ints "l_starts") in
         incr ncmp; if ls <> lsi then mism r.id "l_starts model=[%s] impl=[%s]" (String.concat "," (List.map string_of_int ls)) (String.concat "," (List.map string_of_int lsi));
         (* stored primitives: sorted by l, and the same multiset as the model's *)
         let pm = getm r "prims" in
         let stored = List.init pm.rows (fun i -> (int_of_float pm.d.(4*i), int_of_float pm.d.(4*i+1), pm.d.(4*i+2), pm.d.(4*i+3))) in
         let model = List.map (fun g -> (int_of_z g.g_n, int_of_z g.g_l, tnum fops g.g_a, tnum fops g.g_d)) ps in
         incr ncmp;
         if List.sort compare stored <> List.sort compare model then mism r.id "stored primitives differ from the XML's (as multisets of (n-2,l,a,d))";
         let rec sorted_l = function (_, l1, _, _) :: ((_, l2, _, _) :: _ as tl) -> l1 <= l2 && sorted_l tl | _ -> true in
         incr ncmp; if not (sorted_l stored) then mism r.id "stored primitives not grouped by angular momentum";
         (* min_exp, min_exp_l *)
         let me = getm r "min_exp" in
         let thousand = 1000.0 in
         let cmpf name m i = incr ncmp; if m <> i then mism r.id "%s model=%h impl=%h" name m i in
         cmpf "min_exp" (min_by fops ps thousand (fun _ -> true)) me.d.(0);
         for l = 0 to maxl do
           cmpf (Printf.sprintf "min_exp_l[%d]" l) (min_by fops ps thousand (fun g -> int_of_z g.g_l = l)) me.d.(1 + l)
         done;
         (* evaluate: the sum of the Gaussians of momentum l *)
         let ev = getm r "eval" in
         List.iteri (fun ri rad ->
             for l = 0 to ev.rows - 1 do
               let spec = evaluate_spec fops ps rad (nat_of_int l) in
               let scale = List.fold_left (fun a g -> if int_of_z g.g_l = l then a +. Float.abs (term fops rad g) else a) 1e-300 ps in
               let v = ev.d.(l * ev.cols + ri) in
               incr ncmp;
               if not (Float.abs (v -. spec) <= 1e-13 *. scale) then mism r.id "evaluate(r=%g,l=%d) model=%h impl=%h" rad l spec v
             done) radii);
      if !nmis = before then Printf.printf "ok %s\n" r.id);
  Printf.printf "SUMMARY cases=%d compared=%d mismatches=%d\n" !ncase !ncmp !nmis
