(* C06: the extracted model of the primitive screening estimate (Radial/EstimateModel.v) against
   RadialIntegral::estimate_type2.  usage: drv_est <drv_est output> <rel tol> *)
open Vext
open Vio
let n = nat_of_int
let pi = 4.0 *. atan 1.0
let () =
  let tol = float_of_string Sys.argv.(2) in
  let kt = ref [||] and lmax = ref 0 and nn = ref 0 in
  let ncmp = ref 0 and nbad = ref 0 and nbelow = ref 0 in
  read_records (open_in Sys.argv.(1)) (fun r ->
      if r.id = "table" then begin
        lmax := geti r "lMax"; nn := geti r "N";
        let km = getm r "K" in
        kt := Array.init km.rows (fun i -> Array.init km.cols (fun l -> km.d.(i * km.cols + l)))
      end else begin
        let p = (getm r "prm").d and e = (getm r "est").d.(0) in
        let ktf i l = !kt.(int_of_nat i).(int_of_nat l) in
        (* the index is clamped to N by the model right after; clamp the unary nat here so that huge arguments do not build huge numerals *)
        let fl x = if Float.is_nan x then n 0 else n (int_of_float (Float.min (Float.floor x) (float (!nn + 1)))) in
        let m = prim_estimate fops pi Float.erf (n !nn) (n !lmax) ktf fl (n (geti r "N")) (n (geti r "l1")) (n (geti r "l2")) p.(0) p.(1) p.(2) p.(3) p.(4) in
        incr ncmp; if e < 1e-15 then incr nbelow;
        let ok = (Float.abs (m -. e) <= tol *. Float.max (Float.abs m) (Float.abs e)) || (Float.abs m < 1e-300 && Float.abs e < 1e-300) || (Float.is_nan m && Float.is_nan e) in
        if not ok then (incr nbad; if !nbad <= 20 then Printf.printf "MISMATCH %s model=%h impl=%h\n" r.id m e)
      end);
  Printf.printf "SUMMARY compared=%d below_threshold=%d mismatches=%d\n" !ncmp !nbelow !nbad
