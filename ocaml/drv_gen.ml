(* C09: translation validation of the generated code against the exact angular model and the generic
   contraction.  usage: drv_gen <rendered generated data> <omega table dump (binary, from drv_angular tables L L)> *)
open Vext
open Vio

let n = nat_of_int
let pi = 4.0 *. atan 1.0
let nbad = ref 0 and nchecked = ref 0 and nterms = ref 0
let bad fmt = incr nbad; Printf.ksprintf (fun s -> if !nbad < 60 then print_endline ("BAD " ^ s)) fmt
let note fmt = Printf.ksprintf (fun s -> print_endline ("NOTE " ^ s)) fmt

let float_of_q (q : q) = float_of_z q.qnum /. float_of_pos q.qden
let qops : q numOps = qOps
let omega_exact_tbl : (int * int * int * int * int * int * int, float) Hashtbl.t = Hashtbl.create 4096
let cn lam mu = float_of_q (cnorm qops (n lam) (z_of_int mu))
(* Omega(a; lam mu; rho sigma) from the exact rational model: 4 obar sqrt(c c') *)
let omega_exact (ax, ay, az) lam mu rho sg =
  let key = (ax, ay, az, lam, mu, rho, sg) in
  match Hashtbl.find_opt omega_exact_tbl key with
  | Some v -> v
  | None ->
    let q = obar_code qops (n 10) (n ax) (n ay) (n az) (n lam) (z_of_int mu) (n rho) (z_of_int sg) in
    let v = 4.0 *. float_of_q q *. sqrt (cn lam mu *. cn rho sg) in
    Hashtbl.add omega_exact_tbl key v; v

(* the implementation's Omega table (verified entry by entry by C13) for the sparsity pattern of the big classes *)
let read_f64 ic = let b = Bytes.create 8 in really_input ic b 0 8; Int64.float_of_bits (Bytes.get_int64_le b 0)
let read_i32 ic = let b = Bytes.create 4 in really_input ic b 0 4; Int32.to_int (Bytes.get_int32_le b 0)
let load_omega file =
  let ic = open_in_bin file in
  let wdim = read_i32 ic in let maxl = read_i32 ic in let lb = read_i32 ic in let le = read_i32 ic in
  let nlm = (maxl + 1) * (maxl + 1) in
  let wd = wdim + 1 in
  seek_in ic (16 + 8 * wd * wd * wd * nlm);
  let ld = lb + le in let nl = (ld + 1) * (ld + 1) in
  let tab = Array.make ((lb + 1) * (lb + 1) * (lb + 1) * nl * nl) 0.0 in
  for i = 0 to Array.length tab - 1 do tab.(i) <- read_f64 ic done;
  close_in ic;
  (fun (ax, ay, az) lam mu rho sg -> tab.((((ax * (lb + 1) + ay) * (lb + 1) + az) * nl + lam * lam + lam + mu) * nl + rho * rho + rho + sg)), lb, ld

let cart l = List.map (fun ((k, ll), m) -> (int_of_nat k, int_of_nat ll, int_of_nat m)) (Vext.cart (n l))
let subs (x, y, z) = List.concat (List.init (x + 1) (fun i -> List.concat (List.init (y + 1) (fun j -> List.init (z + 1) (fun k -> (i, j, k))))))
let ints s = List.map int_of_string (List.filter (fun x -> x <> "") (String.split_on_char ' ' s))
let triples s = List.map (fun t -> match String.split_on_char ',' t with [a; b; c] -> (int_of_string a, int_of_string b, int_of_string c) | _ -> failwith "triple") (List.filter (fun x -> x <> "") (String.split_on_char ' ' s))

let () =
  let ic = open_in Sys.argv.(1) in
  let (omega_impl, lbmax, _) = load_omega Sys.argv.(2) in
  let maxl = ref 0 and table = ref [] and maxidx = Hashtbl.create 64 in
  let cur = ref None in
  let fields = Hashtbl.create 16 and terms = ref [] in
  let rest line k = String.sub line k (String.length line - k) in
  let finish_class (la, lb, lam) =
    let get k = try Hashtbl.find fields k with Not_found -> "" in
    let a = triples (get "A") and b = triples (get "B") in
    let all = a @ List.map (fun (nn, l1, l2) -> (nn, l2, l1)) b in
    let cls = Printf.sprintf "Q(%d,%d,%d)" la lb lam in
    incr nchecked;
    (* list discipline: A has l1<=l2, B (as listed) has l1<l2 after the swap, no duplicates *)
    List.iter (fun (nn, l1, l2) -> if l1 > l2 then bad "%s A-list triple (%d,%d,%d) has l1 > l2" cls nn l1 l2) a;
    List.iter (fun (nn, l1, l2) -> if l1 >= l2 then bad "%s B-list triple (%d,%d,%d) is not the swap of one with l1 > l2" cls nn l1 l2) b;
    if List.length (List.sort_uniq compare all) <> List.length all then bad "%s duplicate triples" cls;
    if get "copyback" <> "1" then bad "%s the B-list results are not copied back transposed" cls;
    (* dims *)
    (match ints (get "dims"), ints (get "dimsB") with
     | [d0; d1; d2], [e0; e1; e2] ->
       if (d0, d1, d2) <> (lam + la + lb + 1, lam + la + 1, lam + lb + 1) then bad "%s radials dims (%d,%d,%d)" cls d0 d1 d2;
       if (e0, e1, e2) <> (lam + la + lb + 1, lam + lb + 1, lam + la + 1) then bad "%s radials_B dims (%d,%d,%d)" cls e0 e1 e2;
       List.iter (fun (nn, l1, l2) -> if nn >= d0 || l1 >= d1 || l2 >= d2 then bad "%s triple (%d,%d,%d) outside radials dims" cls nn l1 l2) all
     | _ -> bad "%s array declarations not found" cls);
    (* nbase: the generator's formula, consistency of the two calls, and sufficiency for every closed-form case the triples can select *)
    let nbase_formula = match List.rev (List.sort compare all) with [] -> 0 | (nn, l1, _) :: _ -> max 0 (nn + l1 - 1) in
    (match ints (get "callA"), ints (get "callB") with
     | [nbA; lamA], [nbB; lamB] ->
       if lamA <> lam || lamB <> lam then bad "%s type2 called with lam %d/%d" cls lamA lamB;
       if nbA <> nbB then bad "%s nbase differs between the two calls" cls;
       if nbA <> nbase_formula then note "%s nbase %d differs from N(tmax)+l1(tmax)-1 = %d" cls nbA nbase_formula;
       List.iter (fun (nn, i, j) ->
           for nraw = 0 to 2 do
             match Hashtbl.find_opt maxidx (i * 10000 + j * 100 + nn + nraw) with
             | Some mx -> if mx >= nbA + 2 then bad "%s triple (%d,%d,%d) power %d selects closed-form case reading values[%d] but only %d are computed" cls nn i j nraw mx (nbA + 2)
             | None -> ()
           done) (a @ b)
     | _ -> bad "%s type2 calls not found" cls);
    (* needed triples from the Omega sparsity pattern (any alpha with |alpha|<=LA, beta with |beta|<=LB) *)
    if la <= lbmax && lb <= lbmax then begin
      let alphas l = List.filter (fun (i, j, k) -> i + j + k <= l) (subs (l, l, l)) in
      let need = Hashtbl.create 64 in
      (* per (alpha, lam1): does any (mu, mu1) give a non-zero Omega?  keep per mu for the joint test *)
      let nz side = let h = Hashtbl.create 256 in
        List.iter (fun (ax, ay, az) ->
            for l1 = 0 to lam + ax + ay + az do
              for mu = -lam to lam do
                let any = ref false in
                for m1 = -l1 to l1 do if Float.abs (omega_impl (ax, ay, az) lam mu l1 m1) > 1e-10 then any := true done;
                if !any then Hashtbl.replace h (ax + ay + az, l1, mu) ()
              done
            done) (alphas side); h in
      let ha = nz la and hb = nz lb in
      Hashtbl.iter (fun (na_, l1, mu) () -> Hashtbl.iter (fun (nb_, l2, mu') () ->
          if mu = mu' && (l1 + l2 + na_ + nb_) mod 2 = 0 then Hashtbl.replace need (na_ + nb_, l1, l2) ()) hb) ha;
      Hashtbl.iter (fun (nn, l1, l2) () -> if not (List.mem (nn, l1, l2) all) then bad "%s needs radial triple (%d,%d,%d) (non-zero angular factor) but does not request it" cls nn l1 l2) need;
      let extra = List.filter (fun t -> not (Hashtbl.mem need t)) all in
      if extra <> [] then note "%s requests %d triples whose angular factor vanishes" cls (List.length extra)
    end;
    (* unrolled or rolled *)
    let rolled = ints (get "rolled") in
    if get "unparsed" <> "0" then bad "%s has %s source lines writing values(...) that do not match the term grammar" cls (get "unparsed");
    if !terms = [] then begin
      if rolled <> [lam; la; lb] then bad "%s neither unrolled nor calling rolled_up(%d,%d,%d): [%s]" cls lam la lb (get "rolled")
    end else begin
      if rolled <> [] then bad "%s both unrolled lines and a rolled_up call" cls;
      let ca = Array.of_list (cart la) and cb = Array.of_list (cart lb) in
      let seen = Hashtbl.create 4096 in
      List.iter (fun (t : int list * String.t) ->
          let (is, cs) = t in
          match is with
          | [na_; nb_; muidx; ca_na; ax; ay; az; cb_nb; bx; by; bz; nn; l1; l2; sal; sam; sbl; sbm] ->
            incr nterms;
            let mu = muidx - lam and m1 = sam - l1 and m2 = sbm - l2 in
            let cprint = float_of_string cs in
            if ca_na <> na_ || cb_nb <> nb_ || sal <> l1 || sbl <> l2 || nn <> ax + ay + az + bx + by + bz then bad "%s inconsistent indices in a term of values(%d,%d,%d)" cls na_ nb_ muidx
            else if na_ >= Array.length ca || nb_ >= Array.length cb || abs mu > lam || abs m1 > l1 || abs m2 > l2 then bad "%s term index out of range" cls
            else begin
              let (x1, r1, z1) = ca.(na_) and (x2, y2, z2) = cb.(nb_) in
              if ax > x1 || ay > r1 || az > z1 || bx > x2 || by > y2 || bz > z2 then bad "%s binomial index exceeds the function's exponents" cls;
              let exact = 16.0 *. pi *. pi *. omega_exact (ax, ay, az) lam mu l1 m1 *. omega_exact (bx, by, bz) lam mu l2 m2 in
              if not (Float.abs (cprint -. exact) <= 1e-11 *. Float.max (Float.abs exact) (1e-300) || (exact = 0.0 && Float.abs cprint <= 1e-11 *. 16.0 *. pi *. pi)
                      || Float.abs (cprint -. exact) <= 1e-13) then
                bad "%s values(%d,%d,%d) coefficient printed %s, exact %.17g (alpha=%d%d%d beta=%d%d%d radial %d,%d,%d mu1=%d mu2=%d)" cls na_ nb_ muidx cs exact ax ay az bx by bz nn l1 l2 m1 m2;
              let key = (na_, nb_, mu, ax, ay, az, bx, by, bz, l1, m1, l2, m2) in
              if Hashtbl.mem seen key then bad "%s duplicate unrolled term" cls else Hashtbl.add seen key ()
            end
          | _ -> bad "%s malformed term" cls) (List.rev !terms);
      (* completeness: every term with a non-zero exact coefficient is present *)
      Array.iteri (fun na_ a3 -> Array.iteri (fun nb_ b3 ->
          List.iter (fun (ax, ay, az) -> List.iter (fun (bx, by, bz) ->
              let al = ax + ay + az and be = bx + by + bz in
              for l1 = 0 to lam + al do
                let l2 = ref ((l1 + al + be) mod 2) in
                while !l2 <= lam + be do
                  for mu = -lam to lam do for m1 = -l1 to l1 do for m2 = - !l2 to !l2 do
                    let exact = omega_exact (ax, ay, az) lam mu l1 m1 *. omega_exact (bx, by, bz) lam mu !l2 m2 in
                    if exact <> 0.0 && not (Hashtbl.mem seen (na_, nb_, mu, ax, ay, az, bx, by, bz, l1, m1, !l2, m2)) then
                      bad "%s misses the non-zero term values(%d,%d,%d) alpha=%d%d%d beta=%d%d%d radial (%d,%d,%d) mu1=%d mu2=%d coefficient %.6g" cls na_ nb_ (lam + mu) ax ay az bx by bz (al + be) l1 !l2 m1 m2 (16.0 *. pi *. pi *. exact)
                  done done done;
                  l2 := !l2 + 2
                done
              done) (subs b3)) (subs a3)) cb) ca
    end in
  (try while true do
       let line = input_line ic in
       match split_ws line with
       | ["maxl"; m] -> maxl := int_of_string m
       | "table" :: r -> table := List.map (fun t -> match String.split_on_char ',' t with [a; b; c] -> (int_of_string a, int_of_string b, int_of_string c) | _ -> (0, 0, 0)) r
       | "radial_maxidx" :: r -> List.iter (fun kv -> match String.split_on_char ':' kv with [k; v] -> Hashtbl.replace maxidx (int_of_string k) (int_of_string v) | _ -> ()) r
       | ["class"; a; b; c] -> cur := Some (int_of_string a, int_of_string b, int_of_string c); Hashtbl.reset fields; terms := []
       | "t" :: na_ :: nb_ :: mu :: coef :: r -> terms := (List.map int_of_string (na_ :: nb_ :: mu :: r), coef) :: !terms
       | ["endclass"] -> (match !cur with Some k -> finish_class k | None -> ()); cur := None
       | key :: _ when !cur <> None -> Hashtbl.replace fields key (String.trim (rest line (String.length key)))
       | _ -> ()
     done with End_of_file -> ());
  (* QGEN table: total, and entry [i][j][k] names the class Q(min,max,k)?  the source uses it only with i <= j *)
  let m = !maxl + 1 in
  if List.length !table <> m * m * m then bad "QGEN table has %d entries, expected %d" (List.length !table) (m * m * m)
  else List.iteri (fun idx (a, b, c) ->
      let i = idx / (m * m) and j = (idx / m) mod m and k = idx mod m in
      if i <= j && (a, b, c) <> (i, j, k) then bad "QGEN[%d][%d][%d] names Q%d_%d_%d" i j k a b c) !table;
  Printf.printf "SUMMARY classes=%d unrolled_terms=%d bad=%d\n" !nchecked !nterms !nbad
