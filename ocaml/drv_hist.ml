(* C05: prints, for each history, the trace the extracted HistoryModel predicts
   under the discipline T-api read from the source.
   usage: drv_hist <d_int> <d_first> <d_second> <natoms> <histories-file>
   history line: "<id> op op ..." with ops US<v> UE<v> CI CF CS IN
   output: "hist <id>" then per step "step <k> I <groups> F <groups> S <groups>"
   where <groups> = ngroups (count nsum (sv ev)* )*                        *)
open Vext
open Vio

let disc_of = function "Assign" -> Assign | "PushBack" -> PushBack | "ClearPush" -> ClearPush | _ -> Unknown

let op_of s =
  if s = "IN" then ReInit else if s = "CI" then CompInt else if s = "CF" then CompFirst else if s = "CS" then CompSecond
  else if String.length s > 2 && String.sub s 0 2 = "US" then UpdShells (nat_of_int (int_of_string (String.sub s 2 (String.length s - 2))))
  else if String.length s > 2 && String.sub s 0 2 = "UE" then UpdEcps (nat_of_int (int_of_string (String.sub s 2 (String.length s - 2))))
  else failwith ("bad op " ^ s)

let groups (c : (nat * nat) list list) : String.t =
  (* run-length encode equal formal sums *)
  let rec rle acc = function
    | [] -> List.rev acc
    | x :: tl -> (match acc with
        | (y, k) :: acc' when y = x -> rle ((y, k + 1) :: acc') tl
        | _ -> rle ((x, 1) :: acc) tl) in
  let gs = rle [] c in
  let b = Buffer.create 64 in
  Buffer.add_string b (string_of_int (List.length gs));
  List.iter (fun (fs, k) ->
      Buffer.add_string b (Printf.sprintf " %d %d" k (List.length fs));
      List.iter (fun (a, e) -> Buffer.add_string b (Printf.sprintf " %d %d" (int_of_nat a) (int_of_nat e))) fs) gs;
  Buffer.contents b

let () =
  let d = { d_int = disc_of Sys.argv.(1); d_first = disc_of Sys.argv.(2); d_second = disc_of Sys.argv.(3) } in
  let natoms = nat_of_int (int_of_string Sys.argv.(4)) in
  let ic = open_in Sys.argv.(5) in
  (try while true do
       let line = input_line ic in
       match split_ws line with
       | [] -> ()
       | id :: ops ->
         Printf.printf "hist %s %s\n" id (String.concat " " ops);
         let tr = trace d natoms init_state (List.map op_of ops) in
         List.iteri (fun k (s : Vext.state) ->
             Printf.printf "step %d I %s F %s S %s\n" k (groups s.Vext.ints) (groups s.Vext.firsts) (groups s.Vext.seconds)) tr
     done with End_of_file -> ())
