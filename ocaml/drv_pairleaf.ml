(* C01 tight correspondence: the extracted ShellPairModel re-assembles compute_shell_pair's block from the
   library's own leaves (radial integrals, harmonics, per-l estimates) and the angular tables (binary dump,
   verified entry by entry by C13).  usage: drv_pairleaf <leaves file> <table dump> <tol> *)
open Vext
open Vio
let n = nat_of_int
let pi = 4.0 *. atan 1.0
let read_f64 ic = let b = Bytes.create 8 in really_input ic b 0 8; Int64.float_of_bits (Bytes.get_int64_le b 0)
let read_i32 ic = let b = Bytes.create 4 in really_input ic b 0 4; Int32.to_int (Bytes.get_int32_le b 0)
let load_tables file =
  let ic = open_in_bin file in
  let wdim = read_i32 ic in let maxl = read_i32 ic in let lb = read_i32 ic in let le = read_i32 ic in
  let nlm = (maxl + 1) * (maxl + 1) in let wd = wdim + 1 in
  let w = Array.make (wd * wd * wd * nlm) 0.0 in
  for i = 0 to Array.length w - 1 do w.(i) <- read_f64 ic done;
  let ld = lb + le in let nl = (ld + 1) * (ld + 1) in
  let om = Array.make ((lb + 1) * (lb + 1) * (lb + 1) * nl * nl) 0.0 in
  for i = 0 to Array.length om - 1 do om.(i) <- read_f64 ic done;
  close_in ic;
  let oob = ref 0 in
  let wf k l m lam mu = let k = int_of_nat k and l = int_of_nat l and m = int_of_nat m and lam = int_of_nat lam and mu = int_of_z mu in
    if k > wdim || l > wdim || m > wdim || lam > maxl || abs mu > lam then (incr oob; nan) else w.((((k * wd + l) * wd + m) * nlm) + lam * lam + lam + mu) in
  let omf k l m lam mu rho sg = let k = int_of_nat k and l = int_of_nat l and m = int_of_nat m and lam = int_of_nat lam and mu = int_of_z mu and rho = int_of_nat rho and sg = int_of_z sg in
    if k > lb || l > lb || m > lb || lam > ld || rho > ld || abs mu > lam || abs sg > rho then (incr oob; nan)
    else om.((((k * (lb + 1) + l) * (lb + 1) + m) * nl + lam * lam + lam + mu) * nl + rho * rho + rho + sg) in
  (wf, omf, oob)

let () =
  let (wf, omf, oob) = load_tables Sys.argv.(2) in
  let tol = float_of_string Sys.argv.(3) in
  let nmis = ref 0 and ncase = ref 0 and ncmp = ref 0 and nnz = ref 0 in
  let branch = Hashtbl.create 8 in
  read_records (open_in Sys.argv.(1)) (fun r ->
      incr ncase;
      let la = geti r "LA" and lb = geti r "LB" and ll = geti r "L" in
      let rel = (getm r "rel").d in
      let a3 = ((rel.(0), rel.(1)), rel.(2)) and b3 = ((rel.(3), rel.(4)), rel.(5)) in
      let scr = (getm r "screens").d and tolr = (getm r "tolerance").d.(0) in
      let mask l = scr.(int_of_nat l) > tolr in
      let ona = geti r "onA" = 1 and onb = geti r "onB" = 1 in
      let prims nm = let m = getm r nm in List.init m.rows (fun i -> (m.d.(2 * i), m.d.(2 * i + 1))) in
      let pu = let m = getm r "primsU" in List.init m.rows (fun i -> (((z_of_int (int_of_float m.d.(4 * i)), n (int_of_float m.d.(4 * i + 1))), m.d.(4 * i + 2)), m.d.(4 * i + 3))) in
      let gam = (getm r "gamma").d in
      let carta = Array.of_list (Vext.cart (n la)) and cartb = Array.of_list (Vext.cart (n lb)) in
      let rad1 ix lam mu = let m = getm r (Printf.sprintf "rad1_%d" (int_of_nat ix)) in m.d.(int_of_nat lam * m.cols + int_of_nat lam + int_of_z mu) in
      let impl = getm r "impl" in
      let scale = Array.fold_left (fun a x -> Float.max a (Float.abs x)) 1e-300 impl.d in
      let key = if ona && onb then "both-on-centre" else if ona then "A-on-centre" else if onb then "B-on-centre" else if la <= lb then "general" else "general-swapped" in
      Hashtbl.replace branch key (1 + try Hashtbl.find branch key with Not_found -> 0);
      Array.iteri (fun na fa -> Array.iteri (fun nb fb ->
          let t1 = if mask (n ll) && geti r "noType1" = 0 then type1 fops pi wf rad1 fa fb a3 b3 else 0.0 in
          (* the dispatch itself is the extracted Coq function pair_t2 (ShellPairModel.v, symmetric under exchange by
             ShellPairDispatch.pair_t2_swap); the driver only hands it the leaves in the layout the library stores them *)
          let t2 l mu =
            let li = int_of_nat l in
            let sh nm = if ona && onb then (fun _ _ -> nan) else
                let m = getm r (Printf.sprintf "%s_%d" nm li) in fun l_ m_ -> m.d.(int_of_nat l_ * m.cols + int_of_nat l_ + int_of_z m_) in
            let radq = if (ona || onb) && not (ona && onb) then
                (fun nn l1 l2 -> let m = getm r (Printf.sprintf "r2q_%d_%d" li (int_of_nat nn)) in m.d.(int_of_nat l1 * m.cols + int_of_nat l2))
              else (fun _ _ _ -> nan) in
            let radg = if not ona && not onb then
                (let m = getm r (Printf.sprintf "r2g_%d" li) in
                 let d2 = li + (if la <= lb then lb else la) + 1 in
                 fun nn l1 l2 -> m.d.(int_of_nat nn * m.cols + int_of_nat l1 * d2 + int_of_nat l2))
              else (fun _ _ _ -> nan) in
            let sa = if ona then (fun _ _ -> nan) else sh "SA" and sb = if onb then (fun _ _ -> nan) else sh "SB" in
            pair_t2 fops pi omf (fun i -> gam.(int_of_nat i)) ona onb (n la) (n lb) (prims "primsA") (prims "primsB") pu sa sb radq radg l fa fb a3 b3 mu in
          let mv = combine_pair fops (n ll) mask (geti r "noType1" = 1) t1 t2 in
          let v = impl.d.(na * impl.cols + nb) in
          incr ncmp; if v <> 0.0 then incr nnz;
          if not (Float.abs (mv -. v) <= tol *. scale) then begin
            incr nmis; if !nmis < 40 then Printf.printf "MISMATCH %s (%d,%d) model=%h impl=%h scale=%g branch=%s\n" r.id na nb mv v scale key
          end) cartb) carta);
  if !oob > 0 then (incr nmis; Printf.printf "MISMATCH - the model read %d table entries outside the allocated dimensions\n" !oob);
  Hashtbl.iter (fun k v -> Printf.printf "BRANCH %s %d\n" k v) branch;
  Printf.printf "SUMMARY cases=%d compared=%d nonzero=%d mismatches=%d\n" !ncase !ncmp !nnz !nmis
