(* C06: the extracted model of the shell-pair screening estimate (ShellPair/PairEstimate.v) against ECPIntegral::estimate_type2.
   usage: drv_pest <drv_pest output> <rel tol> *)
open Vext
open Vio
let n = nat_of_int
let pi = 4.0 *. atan 1.0
let euler = 2.71828182845904523536
let sinh1 = 1.1752011936
let () =
  let tol = float_of_string Sys.argv.(2) in
  let ncmp = ref 0 and nbad = ref 0 and nbelow = ref 0 and ndec = ref 0 in
  read_records (open_in Sys.argv.(1)) (fun r ->
      let la = geti r "LA" and lb = geti r "LB" and lmax = geti r "L" in
      let g = (getm r "geo").d in
      let pairs (m : mat) = List.init m.rows (fun i -> (m.d.(2 * i), m.d.(2 * i + 1))) in
      let pa = pairs (getm r "pA") and pb = pairs (getm r "pB") in
      let me = (getm r "mineta").d and est = (getm r "est").d in
      let models = Array.make (lmax + 1) 0.0 in
      for l = 0 to lmax do
        let gs = pairs (getm r (Printf.sprintf "g%d" l)) in
        let m = pair_estimate fops euler sinh1 pi (n la) (n lb) g.(0) g.(1) g.(2) g.(3) g.(4) g.(5) pa pb (n l) me.(l) gs in
        let e = est.(l) in
        models.(l) <- m;
        incr ncmp; if e < 1e-12 then incr nbelow;
        let ok = (Float.abs (m -. e) <= tol *. Float.max (Float.abs m) (Float.abs e)) || (Float.abs m < 1e-300 && Float.abs e < 1e-300) || (Float.is_nan m && Float.is_nan e) in
        if not ok then (incr nbad; if !nbad <= 20 then Printf.printf "MISMATCH %s l=%d model=%h impl=%h\n" r.id l m e)
      done;
      (* the decision: channel l < L is computed iff estimate > tolerance; the local part iff it exists and estimate[L] > tolerance *)
      let lsc = geti r "lscreened" in
      if lsc >= 0 then begin
        let tolv = (getm r "tol").d.(0) in
        if tolv <> 1e-12 then (incr nbad; Printf.printf "MISMATCH %s screening tolerance impl=%h documented=1e-12\n" r.id tolv);
        let near = Array.exists (fun m -> Float.abs (m -. tolv) <= 1e-9 *. tolv) models in
        if not near then begin
          let pred = ref 0 in
          for l = 0 to lmax - 1 do if not (models.(l) > tolv) then incr pred done;
          let pred1 = if not (models.(lmax) > tolv) then 1 else 0 in
          incr ndec;
          if !pred <> lsc || pred1 <> geti r "t1screened" then (incr nbad; Printf.printf "MISMATCH %s channels skipped: model %d + local %d, implementation %d + local %d\n" r.id !pred pred1 lsc (geti r "t1screened"))
        end
      end);
  Printf.printf "SUMMARY compared=%d below_threshold=%d decisions=%d mismatches=%d\n" !ncmp !nbelow !ndec !nbad
