(* C15: extracted QuadModel vs GCQuadrature, and the value against an independent
   composite Gauss-Legendre evaluation of the integral (self-validated by refinement). *)
open Vext
open Vio

let n = nat_of_int
let nmis = ref 0 and nprop = ref 0 and ncase = ref 0 and nconv = ref 0 and ninc = ref 0
let mism id fmt = incr nmis; Printf.ksprintf (fun s -> if !nmis < 40 then Printf.printf "MISMATCH %s %s\n" id s) fmt
let pi = 4.0 *. atan 1.0

(* 20-point Gauss-Legendre nodes/weights on [-1,1] by Newton iteration *)
let gl_nodes np =
  Array.init np (fun i ->
      let x = ref (cos (pi *. (float i +. 0.75) /. (float np +. 0.5))) in
      let dp = ref 0.0 in
      for _ = 1 to 100 do
        let p0 = ref 1.0 and p1 = ref !x in
        for k = 2 to np do let p2 = (float (2 * k - 1) *. !x *. !p1 -. float (k - 1) *. !p0) /. float k in p0 := !p1; p1 := p2 done;
        dp := float np *. (!x *. !p1 -. !p0) /. (!x *. !x -. 1.0);
        x := !x -. !p1 /. !dp
      done;
      (!x, 2.0 /. ((1.0 -. !x *. !x) *. !dp *. !dp)))
let gl = gl_nodes 20
let composite f a b panels =
  let h = (b -. a) /. float panels in
  let s = ref 0.0 in
  for p = 0 to panels - 1 do
    let lo = a +. float p *. h in
    Array.iter (fun (x, w) -> s := !s +. w *. 0.5 *. h *. f (lo +. 0.5 *. h *. (x +. 1.0))) gl
  done; !s

let fint k z c r = let v = ref 1.0 in for _ = 1 to k do v := !v *. r done; let d = r -. c in !v *. exp (-. z *. d *. d)

let do_case r =
  incr ncase;
  let ty = geti r "type" and maxn = geti r "maxN" and kind = geti r "kind" and k = geti r "k" in
  let start = geti r "start" and end_ = geti r "end" and conv = geti r "converged" = 1 in
  let prm = (getm r "params").d in
  let tol = prm.(0) and zt = prm.(1) and pt = prm.(2) and z = prm.(3) and c = prm.(4) and ival = prm.(5) in
  let x0 = (getm r "x0").d and w0 = (getm r "w0").d and x = (getm r "x").d and w = (getm r "w").d in
  (* (a) grid size and construction *)
  let mn = int_of_nat (if ty = 1 then maxN_one (n (geti r "points")) else maxN_two (n (geti r "points"))) in
  if mn <> maxn then mism r.id "maxN model=%d impl=%d" mn maxn
  else begin
    let (xm, wm) = init_grid fops pi (n maxn) in
    let xm = Array.of_list xm and wm = Array.of_list wm in
    if Array.length xm <> maxn then mism r.id "grid length model=%d impl=%d" (Array.length xm) maxn
    else
      for i = 0 to maxn - 1 do
        if not (Float.abs (xm.(i) -. x0.(i)) <= 1e-13 && Float.abs (wm.(i) -. w0.(i)) <= 1e-13) then
          mism r.id "grid point %d model=(%h,%h) impl=(%h,%h)" i xm.(i) wm.(i) x0.(i) w0.(i)
      done;
    (* transforms *)
    if kind = 1 then begin
      let (rmid, amid) = rminmax fops zt pt in
      for i = 0 to maxn - 1 do
        if not (Float.abs (rmid *. x0.(i) +. amid -. x.(i)) <= 1e-13 *. Float.max 1.0 (Float.abs x.(i)) && Float.abs (rmid *. w0.(i) -. w.(i)) <= 1e-13 *. Float.max 1.0 w.(i)) then
          mism r.id "transformRMinMax point %d" i
      done
    end;
    (* (b) the adaptive scheme on the implementation's own grid *)
    let wf i = let i = int_of_nat i in if i < 0 || i >= maxn then (mism r.id "model reads grid index %d outside [0,%d)" i maxn; 0.0) else w.(i) *. fint k z c x.(i) in
    let ((im, cm), _) = if ty = 1 then integrate_one fops wf (n maxn) (n start) (n end_) tol else integrate_two fops wf (n maxn) (n start) (n end_) tol in
    if cm <> conv then mism r.id "converged flag model=%b impl=%b (I model=%h impl=%h)" cm conv im ival
    else if not (Float.abs (im -. ival) <= 1e-12 *. Float.max 1e-300 (Float.abs ival)) then mism r.id "value model=%h impl=%h" im ival
  end;
  (* (c) the property: converged => accurate *)
  if conv then begin
    incr nconv;
    let (a, b) =
      if kind = 1 then (let (rmid, amid) = rminmax fops zt pt in (amid -. rmid, amid +. rmid))
      else if kind = 2 then (0.0, Float.max 1.0 c +. 45.0 /. sqrt z)
      else (-1.0, 1.0) in
    let f = fint k z c in
    let t1 = composite f a b 64 and t2 = composite f a b 128 in
    if Float.abs (t1 -. t2) > 1e-12 *. Float.abs t2 +. 1e-300 then incr ninc
    else begin
      (* the property's bound, plus the floor double arithmetic imposes on a sum of this size *)
      let bound = sqrt (tol *. Float.abs ival) +. 1e-12 +. 1e-12 *. Float.abs t2 in
      if not (Float.abs (ival -. t2) <= bound) then begin
        incr nprop;
        (* counterfactual: the same call with the first one / two acceptances deferred (hook quad_defer) *)
        let df = (try (getm r "defer").d with Not_found -> [| ival; 1.0; ival; 1.0 |]) in
        let okd v cv = cv = 0.0 || Float.abs (v -. t2) <= sqrt (tol *. Float.abs v) +. 1e-12 +. 1e-12 *. Float.abs t2 in
        let restored = okd df.(0) df.(1) || okd df.(2) df.(3) || (Array.length df >= 8 && (okd df.(4) df.(5) || okd df.(6) df.(7))) in
        if !nprop < 4000 then Printf.printf "PROPVIOL %s I=%h true=%h err=%g bound=%g tol=%h restored_by_deferral=%d\n" r.id ival t2 (Float.abs (ival -. t2)) bound tol (if restored then 1 else 0)
      end;
      if kind = 1 then Printf.printf "CONV %s %h %h %h\n" r.id ival ((let (rmid, amid) = rminmax fops zt pt in amid -. rmid)) ((let (rmid, amid) = rminmax fops zt pt in amid +. rmid))
    end
  end

(* ---- boundary search (generator only): the model is evaluated on a grid built from the model's own init_grid / rminmax (and the
   half-line map written here), a one-parameter family is scanned, and every change of the decision signature (converged, final level)
   between neighbouring parameters is bisected; cases are emitted on both sides of each boundary.  What is COMPARED for those cases is,
   as for every other case, the model run on the implementation's own grid against the implementation. ---- *)
let base_grids : (int, float array * float array) Hashtbl.t = Hashtbl.create 7
let base_grid maxn =
  try Hashtbl.find base_grids maxn with Not_found ->
    let (xm, wm) = init_grid fops pi (n maxn) in
    let g = (Array.of_list xm, Array.of_list wm) in Hashtbl.add base_grids maxn g; g
let prep maxn kind k z c =
  let (x0, w0) = base_grid maxn in
  let (x, w) =
    if kind = 2 then begin
      let ln2 = log 2.0 in
      (Array.map (fun xi -> 1.0 -. log (1.0 -. xi) /. ln2) x0, Array.mapi (fun i wi -> wi /. (ln2 *. (1.0 -. x0.(i)))) w0)
    end else begin
      let (rmid, amid) = rminmax fops z c in
      (Array.map (fun xi -> rmid *. xi +. amid) x0, Array.map (fun wi -> rmid *. wi) w0)
    end in
  let v = Array.init maxn (fun i -> w.(i) *. fint k z c x.(i)) in
  let mx = Array.fold_left Float.max 0.0 v in
  let st = ref 0 and en = ref (maxn - 1) in
  while !st < !en && v.(!st) < 1e-30 *. mx do incr st done;
  while !en > !st && v.(!en) < 1e-30 *. mx do decr en done;
  (v, !st, !en)
let model_sig ty maxn kind k tol z c =
  let (v, st, en) = prep maxn kind k z c in
  let wf i = let i = int_of_nat i in if i < 0 || i >= maxn then 0.0 else v.(i) in
  let ((_, cm), nf) = if ty = 1 then integrate_one fops wf (n maxn) (n st) (n en) tol else integrate_two fops wf (n maxn) (n st) (n en) tol in
  (cm, int_of_nat nf)
(* the quantities the first acceptance tests of the two schemes compare, from the model's own sum_terms:
   returns [(slack, band_abs, band_sqrt)] : the test accepts when |slack| <= band_abs * tol (absolute form) or
   slack^2 <= band_sqrt * tol (the Perez-Jorda relative form) *)
let slacks ty maxn kind k z c =
  let (v, st, en) = prep maxn kind k z c in
  let wf i = let i = int_of_nat i in if i < 0 || i >= maxn then 0.0 else v.(i) in
  let m = (maxn - 1) / 2 in
  let st_ lim sh sk = sum_terms fops wf (n maxn) (n lim) (n st) (n en) (n sh) (n sk) in
  let t1 = v.(m) in
  let p = (m + 1) / 2 in
  let t3 = t1 +. st_ 1 p 2 in
  if ty = 1 then begin
    let t7 = t3 +. st_ 3 (p / 2) 2 in
    [| (t3 -. 2.0 *. t1, 1.0, Float.abs t3); (t7 -. 2.0 *. t3, 0.0, Float.abs (t7 -. 4.0 *. t1)) |]
  end else begin
    let m2 = (maxn - 2) / 3 in
    let tm = v.(m2) +. v.(maxn - m2 - 1) in
    let t2m1 = tm +. t1 +. st_ 1 ((m2 + 1) / 2) 3 in
    [| (0.5 *. t2m1 -. tm, 9.0 /. 16.0, Float.abs t2m1); (2.0 *. t2m1 -. 3.0 *. t3, 36.0 /. 16.0, Float.abs t2m1) |]
  end

let scan tier out =
  let oc = open_out out in
  let nb = ref 0 and nfam = ref 0 and id = ref 0 in
  let quick = tier = "quick" in
  let tols = if quick then [1e-8; 1e-10; 1e-12] else [1e-6; 1e-8; 1e-10; 1e-12; 1e-14] in
  let npts = if quick then 240 else 800 in
  let maxb = if quick then 3 else 8 in
  let offs = [1e-10; 1e-7; 1e-4] in
  let fam ty points kind k c lo hi tol =
    incr nfam;
    let maxn = int_of_nat (if ty = 1 then maxN_one (n points) else maxN_two (n points)) in
    let par i = lo *. exp (float i /. float (npts - 1) *. log (hi /. lo)) in
    let sg z = model_sig ty maxn kind k tol z c in
    let prev = ref (sg (par 0)) in
    let found = ref [] in
    for i = 1 to npts - 1 do
      let s = sg (par i) in
      if s <> !prev then begin
        (* bisect between par (i-1) and par i *)
        let a = ref (par (i - 1)) and b = ref (par i) and sa = !prev in
        let it = ref 0 in
        while !it < 80 && (!b -. !a) > 1e-15 *. !b do
          let m = 0.5 *. (!a +. !b) in
          if sg m = sa then a := m else b := m; incr it
        done;
        found := (min (snd sa) (snd s), !a, !b) :: !found
      end;
      prev := s
    done;
    (* roots of the first acceptance slacks: the bands in which two consecutive estimates agree by coincidence *)
    let nroots = ref 0 in
    for j = 0 to 1 do
      let sl z = let a = slacks ty maxn kind k z c in a.(j) in
      let prevs = ref (sl (par 0)) in
      for i = 1 to npts - 1 do
        let cur = sl (par i) in
        let (s0, _, _) = !prevs and (s1, _, _) = cur in
        if !nroots < maxb && s0 <> 0.0 && s1 <> 0.0 && (s0 < 0.0) <> (s1 < 0.0) && Float.abs s0 > 1e-200 then begin
          let a = ref (par (i - 1)) and b = ref (par i) in
          let it = ref 0 in
          while !it < 80 && (!b -. !a) > 1e-15 *. !b do
            let mid = 0.5 *. (!a +. !b) in
            let (sm, _, _) = sl mid in
            if (sm < 0.0) = (s0 < 0.0) then a := mid else b := mid; incr it
          done;
          let r = !a in
          (* local slope of the slack w.r.t. the parameter *)
          let h = 1e-6 *. r in
          let (sp, ba, bs) = sl (r +. h) and (sm, _, _) = sl (r -. h) in
          let slope = (sp -. sm) /. (2.0 *. h) in
          if Float.abs slope > 0.0 && Float.is_finite slope then begin
            incr nroots; incr nb;
            let emit z =
              if z > 0.0 then begin
                incr id;
                let (zt, pt) = if kind = 2 then (0.0, 0.0) else (z, c) in
                Printf.fprintf oc "r%d %d %d %h %d %h %h %d %h %h -1 -1\n" !id ty points tol kind zt pt k z c
              end in
            emit r;
            let targets = (if ba > 0.0 then [0.5 *. ba *. tol; 0.98 *. ba *. tol; 1.02 *. ba *. tol; 2.0 *. ba *. tol] else [])
                          @ [0.2 *. sqrt (bs *. tol); 0.7 *. sqrt (bs *. tol); 1.5 *. sqrt (bs *. tol)] in
            List.iter (fun t -> let d = t /. Float.abs slope in if d < 0.05 *. r then (emit (r +. d); emit (r -. d))) targets
          end
        end;
        prevs := cur
      done
    done;
    (* keep the boundaries that involve the lowest levels *)
    let sorted = List.sort compare !found in
    List.iteri (fun j (_, a, b) ->
        if j < maxb then begin
          incr nb;
          let emit z =
            incr id;
            let (zt, pt) = if kind = 2 then (0.0, 0.0) else (z, c) in
            Printf.fprintf oc "b%d %d %d %h %d %h %h %d %h %h -1 -1\n" !id ty points tol kind zt pt k z c in
          emit a; emit b;
          List.iter (fun o -> emit (a *. (1.0 -. o)); emit (b *. (1.0 +. o))) offs
        end) sorted in
  List.iter (fun tol ->
      List.iter (fun (ty, points) ->
          List.iter (fun k ->
              fam ty points 2 k 0.0 0.02 30.0 tol;
              List.iter (fun c -> fam ty points 1 k c 0.05 500.0 tol) [0.0; 1.5]) [0; 1; 2])
        [(1, 15); (1, 127); (2, 23); (2, 191)]) tols;
  close_out oc;
  Printf.printf "SCAN families=%d boundaries=%d cases=%d\n" !nfam !nb !id

let () =
  if Array.length Sys.argv > 3 && Sys.argv.(1) = "scan" then (scan Sys.argv.(2) Sys.argv.(3); exit 0);
  let ic = open_in Sys.argv.(1) in
  read_records ic do_case;
  Printf.printf "SUMMARY cases=%d converged=%d oracle_inconclusive=%d mismatches=%d propviol=%d\n" !ncase !nconv !ninc !nmis !nprop
