(* C15: extracted QuadModel vs GCQuadrature, and the value against an independent
   composite Gauss-Legendre evaluation of the integral (self-validated by refinement). *)
open Vext
open Vio

let n = nat_of_int
let nmis = ref 0 and nprop = ref 0 and ncase = ref 0 and nconv = ref 0 and ninc = ref 0
let mism id fmt = incr nmis; Printf.ksprintf (fun s -> if !nmis < 40 then Printf.printf "MISMATCH %s %s\n" id s) fmt
let pi = 4.0 *. atan 1.0

(* 20-point Gauss-Legendre nodes/weights on [-1,1] by Newton iteration *)
let gl_nodes np =
  Array.init np (fun i ->
      let x = ref (cos (pi *. (float i +. 0.75) /. (float np +. 0.5))) in
      let dp = ref 0.0 in
      for _ = 1 to 100 do
        let p0 = ref 1.0 and p1 = ref !x in
        for k = 2 to np do let p2 = (float (2 * k - 1) *. !x *. !p1 -. float (k - 1) *. !p0) /. float k in p0 := !p1; p1 := p2 done;
        dp := float np *. (!x *. !p1 -. !p0) /. (!x *. !x -. 1.0);
        x := !x -. !p1 /. !dp
      done;
      (!x, 2.0 /. ((1.0 -. !x *. !x) *. !dp *. !dp)))
let gl = gl_nodes 20
let composite f a b panels =
  let h = (b -. a) /. float panels in
  let s = ref 0.0 in
  for p = 0 to panels - 1 do
    let lo = a +. float p *. h in
    Array.iter (fun (x, w) -> s := !s +. w *. 0.5 *. h *. f (lo +. 0.5 *. h *. (x +. 1.0))) gl
  done; !s

let fint k z c r = let v = ref 1.0 in for _ = 1 to k do v := !v *. r done; let d = r -. c in !v *. exp (-. z *. d *. d)

let do_case r =
  incr ncase;
  let ty = geti r "type" and maxn = geti r "maxN" and kind = geti r "kind" and k = geti r "k" in
  let start = geti r "start" and end_ = geti r "end" and conv = geti r "converged" = 1 in
  let prm = (getm r "params").d in
  let tol = prm.(0) and zt = prm.(1) and pt = prm.(2) and z = prm.(3) and c = prm.(4) and ival = prm.(5) in
  let x0 = (getm r "x0").d and w0 = (getm r "w0").d and x = (getm r "x").d and w = (getm r "w").d in
  (* (a) grid size and construction *)
  let mn = int_of_nat (if ty = 1 then maxN_one (n (geti r "points")) else maxN_two (n (geti r "points"))) in
  if mn <> maxn then mism r.id "maxN model=%d impl=%d" mn maxn
  else begin
    let (xm, wm) = init_grid fops pi (n maxn) in
    let xm = Array.of_list xm and wm = Array.of_list wm in
    if Array.length xm <> maxn then mism r.id "grid length model=%d impl=%d" (Array.length xm) maxn
    else
      for i = 0 to maxn - 1 do
        if not (Float.abs (xm.(i) -. x0.(i)) <= 1e-13 && Float.abs (wm.(i) -. w0.(i)) <= 1e-13) then
          mism r.id "grid point %d model=(%h,%h) impl=(%h,%h)" i xm.(i) wm.(i) x0.(i) w0.(i)
      done;
    (* transforms *)
    if kind = 1 then begin
      let (rmid, amid) = rminmax fops zt pt in
      for i = 0 to maxn - 1 do
        if not (Float.abs (rmid *. x0.(i) +. amid -. x.(i)) <= 1e-13 *. Float.max 1.0 (Float.abs x.(i)) && Float.abs (rmid *. w0.(i) -. w.(i)) <= 1e-13 *. Float.max 1.0 w.(i)) then
          mism r.id "transformRMinMax point %d" i
      done
    end;
    (* (b) the adaptive scheme on the implementation's own grid *)
    let wf i = let i = int_of_nat i in if i < 0 || i >= maxn then (mism r.id "model reads grid index %d outside [0,%d)" i maxn; 0.0) else w.(i) *. fint k z c x.(i) in
    let ((im, cm), _) = if ty = 1 then integrate_one fops wf (n maxn) (n start) (n end_) tol else integrate_two fops wf (n maxn) (n start) (n end_) tol in
    if cm <> conv then mism r.id "converged flag model=%b impl=%b (I model=%h impl=%h)" cm conv im ival
    else if not (Float.abs (im -. ival) <= 1e-12 *. Float.max 1e-300 (Float.abs ival)) then mism r.id "value model=%h impl=%h" im ival
  end;
  (* (c) the property: converged => accurate *)
  if conv then begin
    incr nconv;
    let (a, b) =
      if kind = 1 then (let (rmid, amid) = rminmax fops zt pt in (amid -. rmid, amid +. rmid))
      else if kind = 2 then (0.0, Float.max 1.0 c +. 45.0 /. sqrt z)
      else (-1.0, 1.0) in
    let f = fint k z c in
    let t1 = composite f a b 64 and t2 = composite f a b 128 in
    if Float.abs (t1 -. t2) > 1e-12 *. Float.abs t2 +. 1e-300 then incr ninc
    else begin
      (* the property's bound, plus the floor double arithmetic imposes on a sum of this size *)
      let bound = sqrt (tol *. Float.abs ival) +. 1e-12 +. 1e-12 *. Float.abs t2 in
      if not (Float.abs (ival -. t2) <= bound) then begin
        incr nprop;
        if !nprop < 400 then Printf.printf "PROPVIOL %s I=%h true=%h err=%g bound=%g tol=%h\n" r.id ival t2 (Float.abs (ival -. t2)) bound tol
      end;
      if kind = 1 then Printf.printf "CONV %s %h %h %h\n" r.id ival ((let (rmid, amid) = rminmax fops zt pt in amid -. rmid)) ((let (rmid, amid) = rminmax fops zt pt in amid +. rmid))
    end
  end

let () =
  let ic = open_in Sys.argv.(1) in
  read_records ic do_case;
  Printf.printf "SUMMARY cases=%d converged=%d oracle_inconclusive=%d mismatches=%d propviol=%d\n" !ncase !nconv !ninc !nmis !nprop
