(* C12: the primitive radial integral against an independent evaluation of its DEFINITION
     T = int_0^inf r^k exp(-zeta r^2 - a (r-A)^2 - b (r-B)^2) M_l1(2 a A r) M_l2(2 b B r) dr
   by composite 20-point Gauss-Legendre (64 vs 128 panels must agree) with M from the positive
   series / BesselSpec closed form. *)
open Vext
open Vio

let n = nat_of_int
let pi = 4.0 *. atan 1.0
let mtruth l z =
  if z = 0.0 then (if l = 0 then 1.0 else 0.0)
  else if z <= 30.0 then begin
    let ldf = ref 0.0 in for i = 0 to l do ldf := !ldf +. log (float (2 * i + 1)) done;
    let t = ref (exp (-. z +. float l *. log z -. !ldf)) in
    let s = ref !t in let j = ref 1 in
    while !t > 1e-20 *. !s && !j < 5000 do
      t := !t *. (z *. z /. 2.0) /. (float !j *. float (2 * l + 2 * !j + 1)); s := !s +. !t; incr j done; !s
  end else begin
    let u = 1.0 /. z in
    let pe p = List.fold_right (fun c acc -> float_of_z c +. u *. acc) p 0.0 in
    (pe (pA (n l)) +. pe (pB (n l)) *. exp (-2.0 *. z)) /. 2.0
  end
let gl_nodes np =
  Array.init np (fun i ->
      let x = ref (cos (pi *. (float i +. 0.75) /. (float np +. 0.5))) in
      let dp = ref 0.0 in
      for _ = 1 to 100 do
        let p0 = ref 1.0 and p1 = ref !x in
        for k = 2 to np do let p2 = (float (2 * k - 1) *. !x *. !p1 -. float (k - 1) *. !p0) /. float k in p0 := !p1; p1 := p2 done;
        dp := float np *. (!x *. !p1 -. !p0) /. (!x *. !x -. 1.0);
        x := !x -. !p1 /. !dp
      done; (!x, 2.0 /. ((1.0 -. !x *. !x) *. !dp *. !dp)))
let gl = gl_nodes 20
let composite f a b panels =
  let h = (b -. a) /. float panels in let s = ref 0.0 in
  for p = 0 to panels - 1 do
    let lo = a +. float p *. h in
    Array.iter (fun (x, w) -> s := !s +. w *. 0.5 *. h *. f (lo +. 0.5 *. h *. (x +. 1.0))) gl
  done; !s

let () =
  let ic = open_in Sys.argv.(1) in
  let ncase = ref 0 and ninc = ref 0 in
  read_records ic (fun r ->
      incr ncase;
      let nn = geti r "N" and l1 = geti r "l1" and l2 = geti r "l2" and nraw = geti r "nraw" in
      let p = (getm r "prm").d in let zeta = p.(0) and a = p.(1) and b = p.(2) and ca = p.(3) and cb = p.(4) in
      let v = (getm r "val").d in
      let k = nn + nraw in
      let zt = zeta +. a +. b in let pt = (a *. ca +. b *. cb) /. zt in
      let f rr = (rr ** float k) *. exp (-. zeta *. rr *. rr -. a *. (rr -. ca) *. (rr -. ca) -. b *. (rr -. cb) *. (rr -. cb))
                 *. mtruth l1 (2.0 *. a *. ca *. rr) *. mtruth l2 (2.0 *. b *. cb *. rr) in
      let lo = Float.max 0.0 (pt -. 14.0 /. sqrt zt) and hi = pt +. 14.0 /. sqrt zt in
      let t1 = composite f lo hi 64 and t2 = composite f lo hi 128 in
      let conclusive = Float.abs (t1 -. t2) <= 1e-10 *. Float.abs t2 +. 1e-300 in
      if not conclusive then incr ninc;
      Printf.printf "R %s %d %d %d %d closed=%d tailfired=%d taillast=%d true=%h v=%h v_notail=%h v_noscreen=%h v_noscreen_notail=%h v_quad=%h v_defer2=%h v_defer4=%h x=%h y=%h ok=%b\n"
        r.id k l1 l2 nraw (geti r "closed") (geti r "tailfired") (geti r "taillast") t2 v.(0) v.(1) v.(2) v.(3) v.(4)
        (if Array.length v > 5 then v.(5) else v.(3)) (if Array.length v > 6 then v.(6) else v.(3)) (a *. ca) (b *. cb) conclusive);
  Printf.printf "SUMMARY cases=%d oracle_inconclusive=%d\n" !ncase !ninc
