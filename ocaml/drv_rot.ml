(* C08: predicted transformation of a shell-pair block under r -> R r, using the extracted `expand`
   (RotModel; proved: its evaluation is the rotated monomial, every term stays in the shell):
     V'(a',b') = sum_{t in expand R a'} sum_{s in expand R b'} c_t c_s V(pos t, pos s)
   usage: drv_rot <drv_pair/drv_deriv output> <matrices: "N r00 r01 ... r22"> <key prefix: v_d | res> <ncomp> <tol> *)
open Vext
open Vio
let n = nat_of_int
let () =
  let recs = Hashtbl.create 256 in
  read_records (open_in Sys.argv.(1)) (fun r -> Hashtbl.replace recs r.id r);
  let key = Sys.argv.(3) and ncomp = int_of_string Sys.argv.(4) and tol = float_of_string Sys.argv.(5) in
  let ic = open_in Sys.argv.(2) in
  let nbad = ref 0 and ncase = ref 0 and nnz = ref 0 in
  (try while true do
       match split_ws (input_line ic) with
       | id :: ms when List.length ms = 9 ->
         let m = Array.of_list (List.map float_of_string ms) in
         let rm = (((m.(0), m.(1)), m.(2)), ((m.(3), m.(4)), m.(5))), ((m.(6), m.(7)), m.(8)) in
         let o = Hashtbl.find recs ("o" ^ id) and t = Hashtbl.find recs ("t" ^ id) in
         let la = geti o "LA" and lb = geti o "LB" in
         incr ncase;
         let ca = Array.of_list (Vext.cart (n la)) and cb = Array.of_list (Vext.cart (n lb)) in
         let ex l = Array.map (fun ((k, ll), mm) -> List.map (fun (c, ((i, j), kk)) -> (c, int_of_nat (nindex j kk))) (expand fops rm k ll mm)) l in
         let ea = ex ca and eb = ex cb in
         let blocks suffix = (getm o (key ^ suffix), getm t (key ^ suffix)) in
         let pred (vo : mat) a' b' = List.fold_left (fun acc (ct, pa) -> List.fold_left (fun acc (cs, pb) -> acc +. ct *. cs *. vo.d.(pa * vo.cols + pb)) acc eb.(b')) 0.0 ea.(a') in
         if ncomp = 1 then begin
           let (vo, vt) = blocks "" in
           let sc = Array.fold_left (fun a x -> Float.max a (Float.abs x)) 1e-300 vt.d in
           if sc > 1e-12 then incr nnz;
           let worst = ref 0.0 in
           for a' = 0 to vt.rows - 1 do for b' = 0 to vt.cols - 1 do
             worst := Float.max !worst (Float.abs (pred vo a' b' -. vt.d.(a' * vt.cols + b'))) done done;
           if not (!worst <= tol *. sc) then (incr nbad; Printf.printf "BAD %s block deviates from its predicted transform by %.3e (scale %.3e)\n" id !worst sc)
         end else if ncomp = 45 then begin
           (* second-derivative blocks: AA (6, packed xx xy xz yy yz zz), AB (9), AC (9), BB (6), BC (9), CC (6);
              each group transforms as a rank-2 Cartesian tensor in its two component indices *)
           let rr p q = m.(3 * p + q) in
           let symix = [| [| 0; 1; 2 |]; [| 1; 3; 4 |]; [| 2; 4; 5 |] |] in
           List.iter (fun (name, off, sym) ->
               let ix p q = off + (if sym then symix.(p).(q) else 3 * p + q) in
               let vo p q = getm o (Printf.sprintf "%s%d" key (ix p q)) and vt p q = getm t (Printf.sprintf "%s%d" key (ix p q)) in
               let sc = ref 1e-300 in
               for p = 0 to 2 do for q = 0 to 2 do Array.iter (fun x -> sc := Float.max !sc (Float.abs x)) (vt p q).d done done;
               if !sc > 1e-12 then incr nnz;
               for p = 0 to 2 do for q = (if sym then p else 0) to 2 do
                 let tp = vt p q in
                 let worst = ref 0.0 in
                 for a' = 0 to tp.rows - 1 do for b' = 0 to tp.cols - 1 do
                   let pr = ref 0.0 in
                   for r = 0 to 2 do for s_ = 0 to 2 do pr := !pr +. rr p r *. rr q s_ *. pred (vo r s_) a' b' done done;
                   worst := Float.max !worst (Float.abs (!pr -. tp.d.(a' * tp.cols + b'))) done done;
                 if not (!worst <= tol *. !sc) then (incr nbad; Printf.printf "BAD %s second-derivative group %s component (%d,%d) deviates by %.3e (scale %.3e)\n" id name p q !worst !sc)
               done done)
             [("AA", 0, true); ("AB", 6, false); ("AC", 15, false); ("BB", 24, true); ("BC", 30, false); ("CC", 39, true)]
         end else begin
           (* derivative blocks: component index 3*centre + q transforms as a vector in q *)
           let rr p q = m.(3 * p + q) in
           for cen = 0 to ncomp / 3 - 1 do
             let vo q = getm o (Printf.sprintf "%s%d" key (3 * cen + q)) and vt p = getm t (Printf.sprintf "%s%d" key (3 * cen + p)) in
             let sc = List.fold_left (fun a p -> Array.fold_left (fun a x -> Float.max a (Float.abs x)) a (vt p).d) 1e-300 [0; 1; 2] in
             if sc > 1e-12 then incr nnz;
             for p = 0 to 2 do
               let tp = vt p in
               let worst = ref 0.0 in
               for a' = 0 to tp.rows - 1 do for b' = 0 to tp.cols - 1 do
                 let pr = ref 0.0 in
                 for q = 0 to 2 do pr := !pr +. rr p q *. pred (vo q) a' b' done;
                 worst := Float.max !worst (Float.abs (!pr -. tp.d.(a' * tp.cols + b'))) done done;
               if not (!worst <= tol *. sc) then (incr nbad; Printf.printf "BAD %s derivative block centre %d component %d deviates by %.3e (scale %.3e)\n" id cen p !worst sc)
             done
           done
         end
       | _ -> ()
     done with End_of_file -> ());
  Printf.printf "SUMMARY cases=%d nonzero=%d bad=%d\n" !ncase !nnz !nbad
