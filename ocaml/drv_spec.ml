(* SpecEval: the DEFINITION of the ECP matrix element evaluated by brute force, as the oracle for C01:
     <phi_A| U |phi_B> = int r^2 U_L(r) [int phi_A phi_B dOmega] dr
                       + sum_{l<L} int r^2 U_l(r) sum_m [int phi_A S_lm dOmega][int phi_B S_lm dOmega] dr
   (coordinates centred on the ECP), by product Gauss-Legendre(cos theta) x trapezoid(phi) angular grids and
   composite Gauss-Legendre radial panels.  No Bessel functions, no recursion, no angular tables, no
   screening.  Real harmonics from the polynomial Y(l,m) of the C13 development (proved harmonic,
   orthonormal, sign convention).  Self-validating: two refinement levels must agree, else the case is
   reported inconclusive.
   usage: drv_spec cases.txt out.txt       (same case format as the C++ drivers) *)
open Vext
open Vio

let n = nat_of_int
let pi = 4.0 *. atan 1.0
let gl_nodes np =
  Array.init np (fun i ->
      let x = ref (cos (pi *. (float i +. 0.75) /. (float np +. 0.5))) in
      let dp = ref 0.0 in
      for _ = 1 to 100 do
        let p0 = ref 1.0 and p1 = ref !x in
        for k = 2 to np do let p2 = (float (2 * k - 1) *. !x *. !p1 -. float (k - 1) *. !p0) /. float k in p0 := !p1; p1 := p2 done;
        dp := float np *. (!x *. !p1 -. !p0) /. (!x *. !x -. 1.0);
        x := !x -. !p1 /. !dp
      done; (!x, 2.0 /. ((1.0 -. !x *. !x) *. !dp *. !dp)))

type shell = { l : int; c : float array; e : float array; d : float array }
type prim = { pn : int; pl : int; pa : float; pd : float }
type ecp = { uc : float array; ps : prim list }
type case = { id : String.t; shells : shell list; ecps : ecp list }

let read_cases file =
  let ic = open_in file in
  let cases = ref [] and cur = ref None in
  (try while true do
       match split_ws (input_line ic) with
       | "case" :: id :: _ -> cur := Some { id; shells = []; ecps = [] }
       | "end" :: _ -> (match !cur with Some c -> cases := { c with shells = List.rev c.shells; ecps = List.rev c.ecps } :: !cases; cur := None | None -> ())
       | "shell" :: l :: x :: y :: z :: np :: rest ->
         let np = int_of_string np in let r = Array.of_list (List.map float_of_string rest) in
         let s = { l = int_of_string l; c = [| float_of_string x; float_of_string y; float_of_string z |];
                   e = Array.init np (fun i -> r.(2 * i)); d = Array.init np (fun i -> r.(2 * i + 1)) } in
         (match !cur with Some c -> cur := Some { c with shells = s :: c.shells } | None -> ())
       | "ecp" :: x :: y :: z :: np :: rest ->
         let np = int_of_string np in let r = Array.of_list rest in
         let ps = List.init np (fun i -> { pn = int_of_string r.(4 * i) - 2; pl = int_of_string r.(4 * i + 1); pa = float_of_string r.(4 * i + 2); pd = float_of_string r.(4 * i + 3) }) in
         (match !cur with Some c -> cur := Some { c with ecps = { uc = [| float_of_string x; float_of_string y; float_of_string z |]; ps } :: c.ecps } | None -> ())
       | _ -> ()
     done with End_of_file -> ());
  List.rev !cases

let cart l = List.map (fun ((k, ll), m) -> (int_of_nat k, int_of_nat ll, int_of_nat m)) (Vext.cart (n l))
let ipow x k = let r = ref 1.0 in for _ = 1 to k do r := !r *. x done; !r

(* real harmonic S_lm on the unit vector, from the exact polynomial terms *)
let harm_terms = Hashtbl.create 64
let harmonic l m (ux, uy, uz) =
  let key = (l, m) in
  let (terms, nrm) = match Hashtbl.find_opt harm_terms key with
    | Some v -> v
    | None ->
      let t = List.map (fun (c, ((i, j), k)) -> (c, int_of_nat i, int_of_nat j, int_of_nat k)) (yterms fops (n l) (z_of_int m)) in
      let v = (List.filter (fun (c, _, _, _) -> c <> 0.0) t, sqrt (cnorm fops (n l) (z_of_int m) /. pi)) in
      Hashtbl.add harm_terms key v; v in
  nrm *. List.fold_left (fun a (c, i, j, k) -> a +. c *. ipow ux i *. ipow uy j *. ipow uz k) 0.0 terms

let u_eval (u : ecp) l r =
  List.fold_left (fun a p -> if p.pl = l then a +. p.pd *. (if p.pn >= 0 then ipow r p.pn else 1.0 /. ipow r (- p.pn)) *. exp (-. p.pa *. r *. r) else a) 0.0 u.ps

(* contracted cartesian shell function value (components in canonical order) at point q (absolute coordinates) *)
let shell_values (s : shell) (q : float array) : float array =
  let dx = q.(0) -. s.c.(0) and dy = q.(1) -. s.c.(1) and dz = q.(2) -. s.c.(2) in
  let r2 = dx *. dx +. dy *. dy +. dz *. dz in
  let rad = ref 0.0 in
  Array.iteri (fun i e -> rad := !rad +. s.d.(i) *. exp (-. e *. r2)) s.e;
  Array.of_list (List.map (fun (k, l, m) -> ipow dx k *. ipow dy l *. ipow dz m *. !rad) (cart s.l))

let spec_block (sa : shell) (sb : shell) (u : ecp) (nth : int) (nph : int) (npan : int) : float array array =
  let lmaxu = List.fold_left (fun a p -> max a p.pl) (-1) u.ps in
  let na = (sa.l + 1) * (sa.l + 2) / 2 and nb = (sb.l + 1) * (sb.l + 2) / 2 in
  let res = Array.make_matrix na nb 0.0 in
  let gth = gl_nodes nth in
  (* angular points and weights on the unit sphere *)
  let pts = Array.make (nth * nph) ((0.0, 0.0, 0.0), 0.0) in
  Array.iteri (fun i (ct, w) ->
      let st = sqrt (Float.max 0.0 (1.0 -. ct *. ct)) in
      for j = 0 to nph - 1 do
        let ph = 2.0 *. pi *. (float j +. 0.5) /. float nph in
        pts.(i * nph + j) <- ((st *. cos ph, st *. sin ph, ct), w *. 2.0 *. pi /. float nph)
      done) gth;
  (* harmonics at the angular points for l < L *)
  let nlm = lmaxu * lmaxu in
  let hs = Array.init (Array.length pts) (fun p -> let (uv, _) = pts.(p) in
                                           Array.init (max nlm 0) (fun idx -> let l = int_of_float (sqrt (float idx)) in let m = idx - l * l - l in harmonic l m uv)) in
  (* radial range: beyond every Gaussian product's reach *)
  let dist c = sqrt ((c.(0) -. u.uc.(0)) ** 2.0 +. (c.(1) -. u.uc.(1)) ** 2.0 +. (c.(2) -. u.uc.(2)) ** 2.0) in
  let emin s = Array.fold_left Float.min infinity s.e in
  let rmax = Float.max (dist sa.c +. 9.0 /. sqrt (emin sa)) (dist sb.c +. 9.0 /. sqrt (emin sb)) in
  let umin = List.fold_left (fun a p -> Float.min a p.pa) infinity u.ps in
  let rmax = Float.min rmax (9.0 /. sqrt (umin +. 1e-300) +. 1.0) in
  let glr = gl_nodes 12 in
  let h = rmax /. float npan in
  let fa = Array.make_matrix na (max nlm 1) 0.0 and fb = Array.make_matrix nb (max nlm 1) 0.0 in
  let loc = Array.make_matrix na nb 0.0 in
  for p = 0 to npan - 1 do
    Array.iter (fun (xg, wg) ->
        let r = (float p +. 0.5 *. (xg +. 1.0)) *. h in
        let wr = wg *. 0.5 *. h *. r *. r in
        for a = 0 to na - 1 do Array.fill fa.(a) 0 (max nlm 1) 0.0 done;
        for b = 0 to nb - 1 do Array.fill fb.(b) 0 (max nlm 1) 0.0 done;
        for a = 0 to na - 1 do Array.fill loc.(a) 0 nb 0.0 done;
        Array.iteri (fun pi_ ((ux, uy, uz), wa) ->
            let q = [| u.uc.(0) +. r *. ux; u.uc.(1) +. r *. uy; u.uc.(2) +. r *. uz |] in
            let va = shell_values sa q and vb = shell_values sb q in
            let hh = hs.(pi_) in
            for a = 0 to na - 1 do
              let t = va.(a) *. wa in
              for idx = 0 to nlm - 1 do fa.(a).(idx) <- fa.(a).(idx) +. t *. hh.(idx) done;
              for b = 0 to nb - 1 do loc.(a).(b) <- loc.(a).(b) +. t *. vb.(b) done
            done;
            for b = 0 to nb - 1 do
              let t = vb.(b) *. wa in
              for idx = 0 to nlm - 1 do fb.(b).(idx) <- fb.(b).(idx) +. t *. hh.(idx) done
            done) pts;
        let ul = u_eval u lmaxu r in
        let us = Array.init (max lmaxu 0) (fun l -> u_eval u l r) in
        for a = 0 to na - 1 do for b = 0 to nb - 1 do
          let s = ref (ul *. loc.(a).(b)) in
          for idx = 0 to nlm - 1 do
            let l = int_of_float (sqrt (float idx)) in
            s := !s +. us.(l) *. fa.(a).(idx) *. fb.(b).(idx)
          done;
          res.(a).(b) <- res.(a).(b) +. wr *. !s
        done done) glr
  done;
  res

let () =
  let cases = read_cases Sys.argv.(1) in
  let oc = open_out Sys.argv.(2) in
  List.iter (fun c ->
      let sa = List.nth c.shells 0 and sb = List.nth c.shells 1 and u = List.hd c.ecps in
      let lm = sa.l + sb.l + 2 * (List.fold_left (fun a p -> max a p.pl) 0 u.ps) in
      let n1 = 20 + 2 * lm and n2 = 28 + 3 * lm in
      let b1 = spec_block sa sb u n1 (2 * n1) 40 and b2 = spec_block sa sb u n2 (2 * n2) 64 in
      let scale = Array.fold_left (fun a row -> Array.fold_left (fun a x -> Float.max a (Float.abs x)) a row) 1e-300 b2 in
      let dev = ref 0.0 in
      Array.iteri (fun i row -> Array.iteri (fun j x -> dev := Float.max !dev (Float.abs (x -. b1.(i).(j)))) row) b2;
      Printf.fprintf oc "case %s\nmat spec %d %d" c.id (Array.length b2) (Array.length b2.(0));
      Array.iter (fun row -> Array.iter (fun x -> Printf.fprintf oc " %h" x) row) b2;
      Printf.fprintf oc "\nmat selfdev 1 2 %h %h\nend\n" !dev scale) cases;
  close_out oc
