(* C12: the numeric model of the closed-form path (Radial/RadialNum.v) evaluated on the case table T-rad translated from
   radial_gen.cpp on THIS run (gen/RadialCases.v, extracted together with the model into radnum.ml), against
   RadialIntegral::type2.  usage: drv_radnum <drv_radial output> <rel tol on sum|terms|>
   Self-contained: links radnum.ml only (its own copy of the datatypes). *)
open Radnum

let rec nat_of_int (n : int) : nat = if n <= 0 then O else S (nat_of_int (n - 1))
let rec pos_of_int (n : int) : positive =
  if n <= 1 then XH else if n land 1 = 0 then XO (pos_of_int (n lsr 1)) else XI (pos_of_int (n lsr 1))
let z_of_int (n : int) : z = if n = 0 then Z0 else if n > 0 then Zpos (pos_of_int n) else Zneg (pos_of_int (- n))
let rec float_of_pos (p : positive) : float =
  match p with XH -> 1.0 | XO q -> 2.0 *. float_of_pos q | XI q -> 2.0 *. float_of_pos q +. 1.0
let float_of_z (x : z) : float = match x with Z0 -> 0.0 | Zpos p -> float_of_pos p | Zneg p -> -. (float_of_pos p)
let rec int_of_pos (p : positive) : int = match p with XH -> 1 | XO q -> 2 * int_of_pos q | XI q -> 2 * int_of_pos q + 1
let int_of_z (x : z) : int = match x with Z0 -> 0 | Zpos p -> int_of_pos p | Zneg p -> - (int_of_pos p)
let fops : float numOps = {
  n0 = 0.0; n1 = 1.0; nadd = ( +. ); nsub = ( -. ); nmul = ( *. ); ndiv = ( /. );
  nopp = (fun x -> -. x); nabs = Float.abs; nofZ = float_of_z; nltb = (fun a b -> a < b); nsqrt = sqrt; nexp = exp;
  ncos = cos; nsin = sin; natan2 = Float.atan2;
  ndec = (fun m e -> float_of_string (Printf.sprintf "%de%d" (int_of_z m) (int_of_z e)));
}
let split_ws s = List.filter (fun x -> x <> "") (String.split_on_char ' ' (String.trim s))

let () =
  let tol = float_of_string Sys.argv.(2) in
  let ic = open_in Sys.argv.(1) in
  let ints = Hashtbl.create 16 and mats = Hashtbl.create 16 and id = ref "" in
  let ncmp = ref 0 and nbad = ref 0 and nmiss = ref 0 and nextra = ref 0 in
  let root_pi = sqrt (4.0 *. atan 1.0) in
  let finish () =
    let gi k = Hashtbl.find ints k and gm k = Hashtbl.find mats k in
    let prm = gm "prm" and v = (gm "val").(0) and dw = gm "daw" in
    let nn = gi "N" and l1 = gi "l1" and l2 = gi "l2" and nraw = gi "nraw" and closed = gi "closed" and nbase = gi "nbase" in
    let zeta = prm.(0) and a = prm.(1) and b = prm.(2) and aa = prm.(3) and bb = prm.(4) in
    (* the Dawson leaf: the driver's values at the two arguments; the model must ask for exactly those arguments *)
    let dawson z =
      if z = dw.(0) then dw.(2) else if z = dw.(1) then dw.(3)
      else if Float.abs (z -. dw.(0)) <= 4e-16 *. Float.abs z then dw.(2) else if Float.abs (z -. dw.(1)) <= 4e-16 *. Float.abs z +. 1e-300 then dw.(3)
      else (Printf.printf "MISMATCH %s the model asks for Dawson(%h), the driver computed it at %h and %h\n" !id z dw.(0) dw.(1); nan) in
    match closed_value fops root_pi dawson cases (nat_of_int nbase) (z_of_int l1) (z_of_int l2) (z_of_int (nn + nraw)) zeta a b aa bb with
    | Some (m, s) ->
      if closed = 1 then begin
        incr ncmp;
        if not (Float.abs (m -. v) <= tol *. s +. 1e-300) then
          (incr nbad; if !nbad <= 20 then Printf.printf "MISMATCH %s key=%d model=%h impl=%h sum_abs_terms=%h\n" !id (l1 * 10000 + l2 * 100 + nn + nraw) m v s)
      end else incr nextra      (* the table has the case but the library took the quadrature (a*b below the switch) *)
    | None -> if closed = 1 then (incr nmiss; Printf.printf "MISMATCH %s the library took a closed form for key %d which the translated table does not contain\n" !id (l1 * 10000 + l2 * 100 + nn + nraw))
  in
  (try while true do
       match split_ws (input_line ic) with
       | "case" :: x :: _ -> id := x; Hashtbl.reset ints; Hashtbl.reset mats
       | "int" :: k :: v :: _ -> Hashtbl.replace ints k (int_of_string v)
       | "mat" :: k :: _ :: _ :: vals -> Hashtbl.replace mats k (Array.of_list (List.map float_of_string vals))
       | "end" :: _ -> finish ()
       | _ -> ()
     done with End_of_file -> ());
  Printf.printf "SUMMARY compared=%d quadrature_despite_case=%d mismatches=%d missing=%d\n" !ncmp !nextra !nbad !nmiss
