(* I/O and float dictionary shared by the model drivers. *)
open Vext

let rec nat_of_int (n : int) : nat = if n <= 0 then O else S (nat_of_int (n - 1))
let rec int_of_nat (n : nat) : int = match n with O -> 0 | S m -> 1 + int_of_nat m

let rec int_of_pos (p : positive) : int =
  match p with XH -> 1 | XO q -> 2 * int_of_pos q | XI q -> 2 * int_of_pos q + 1
let int_of_z (x : z) : int = match x with Z0 -> 0 | Zpos p -> int_of_pos p | Zneg p -> - (int_of_pos p)
let rec pos_of_int (n : int) : positive =
  if n <= 1 then XH else if n land 1 = 0 then XO (pos_of_int (n lsr 1)) else XI (pos_of_int (n lsr 1))
let z_of_int (n : int) : z = if n = 0 then Z0 else if n > 0 then Zpos (pos_of_int n) else Zneg (pos_of_int (- n))

(* float_of on possibly big Z: exact for |z| < 2^53, correctly accumulated otherwise *)
let rec float_of_pos (p : positive) : float =
  match p with XH -> 1.0 | XO q -> 2.0 *. float_of_pos q | XI q -> 2.0 *. float_of_pos q +. 1.0
let float_of_z (x : z) : float = match x with Z0 -> 0.0 | Zpos p -> float_of_pos p | Zneg p -> -. (float_of_pos p)

let fops : float numOps = {
  n0 = 0.0; n1 = 1.0;
  nadd = ( +. ); nsub = ( -. ); nmul = ( *. ); ndiv = ( /. );
  nopp = (fun x -> -. x); nabs = Float.abs; nofZ = float_of_z;
  nltb = (fun a b -> a < b); nsqrt = sqrt; nexp = exp; ncos = cos; nsin = sin;
  natan2 = Float.atan2;
  ndec = (fun m e -> float_of_string (Printf.sprintf "%de%d" (int_of_z m) (int_of_z e)));
}

(* ---- records written by the C++ drivers ---- *)
type mat = { rows : int; cols : int; d : float array }
type record = { id : String.t; mats : (String.t, mat) Hashtbl.t; ints : (String.t, int array) Hashtbl.t }

let split_ws s = List.filter (fun x -> x <> "") (String.split_on_char ' ' (String.trim s))

let read_records (ic : in_channel) (f : record -> unit) : unit =
  let cur = ref None in
  (try
     while true do
       let line = input_line ic in
       match split_ws line with
       | [] -> ()
       | "case" :: rest ->
         cur := Some { id = (match rest with x :: _ -> x | [] -> ""); mats = Hashtbl.create 64; ints = Hashtbl.create 16 }
       | "end" :: _ -> (match !cur with Some r -> f r; cur := None | None -> ())
       | "mat" :: name :: r :: c :: vals ->
         (match !cur with
          | Some rec_ ->
            let rows = int_of_string r and cols = int_of_string c in
            let d = Array.of_list (List.map float_of_string vals) in
            Hashtbl.replace rec_.mats name { rows; cols; d }
          | None -> ())
       | "int" :: name :: v :: _ ->
         (match !cur with Some rec_ -> Hashtbl.replace rec_.ints name [| int_of_string v |] | None -> ())
       | "ints" :: name :: _ :: vals ->
         (match !cur with
          | Some rec_ -> Hashtbl.replace rec_.ints name (Array.of_list (List.map int_of_string vals))
          | None -> ())
       | _ -> ()
     done
   with End_of_file -> ())

let geti r k = (Hashtbl.find r.ints k).(0)
let getm r k = Hashtbl.find r.mats k
let hasm r k = Hashtbl.mem r.mats k

(* a block as the model sees it; out-of-range reads are reported, not hidden *)
exception Oob of String.t
let blk_of (name : String.t) (m : mat) : nat -> nat -> float =
  fun i j ->
    let i = int_of_nat i and j = int_of_nat j in
    if i < 0 || i >= m.rows || j < 0 || j >= m.cols then
      raise (Oob (Printf.sprintf "%s(%d,%d) outside %dx%d" name i j m.rows m.cols))
    else m.d.(i * m.cols + j)
let zero_blk : nat -> nat -> float = fun _ _ -> 0.0

let hex x = Printf.sprintf "%h" x
