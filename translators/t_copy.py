"""T-copy: clang JSON AST -> description of the copy paths of the value classes.
For each class: the fields; for the copy constructor, copy assignment and (for
GaussianShell) copy(): whether it is user-provided or implicit, which members
it writes, and whether the centre pointer is re-seated at the object's own
local array.  Tokenisation of the AST only; what that means for histories is
Gallina (CopySem/CopyModel.v)."""
import json, os, subprocess, sys, tempfile

CLASSES = ["GaussianShell", "ECP", "GaussianECP", "TwoIndex", "ThreeIndex", "FiveIndex", "SevenIndex"]

TU = r'''
#include "gshell.hpp"
#include "ecp.hpp"
#include "multiarr.hpp"
#include "ecp.cpp"      // out-of-line special members of ECP / GaussianECP live here
using namespace libecpint;
void use(GaussianShell& a, GaussianShell& b, ECP& c, ECP& d, GaussianECP& e, GaussianECP& f,
         TwoIndex<double>& t1, TwoIndex<double>& t2, ThreeIndex<double>& u1, ThreeIndex<double>& u2,
         FiveIndex<double>& v1, FiveIndex<double>& v2, SevenIndex<double>& w1, SevenIndex<double>& w2) {
  a = b; c = d; e = f; t1 = t2; u1 = u2; v1 = v2; w1 = w2;
  GaussianShell a2(a); ECP c2(c); GaussianECP e2(e); TwoIndex<double> t3(t1); ThreeIndex<double> u3(u1); FiveIndex<double> v3(v1); SevenIndex<double> w3(w1);
}
'''


def load_objs(txt):
    dec = json.JSONDecoder(); i = 0; objs = []
    while i < len(txt):
        while i < len(txt) and txt[i].isspace():
            i += 1
        if i >= len(txt):
            break
        o, j = dec.raw_decode(txt, i); objs.append(o); i = j
    return objs


def walk(n):
    yield n
    for c in n.get("inner", []) or []:
        yield from walk(c)


def member_of(n, base_pred):
    """if n (through casts / subscripts) is a MemberExpr whose base satisfies base_pred, return its name"""
    while n.get("kind") in ("ImplicitCastExpr", "ArraySubscriptExpr", "ParenExpr", "CXXStaticCastExpr") and n.get("inner"):
        n = n["inner"][0]
    if n.get("kind") == "MemberExpr" and n.get("inner"):
        b = n["inner"][0]
        while b.get("kind") in ("ImplicitCastExpr", "ParenExpr") and b.get("inner"):
            b = b["inner"][0]
        if base_pred(b):
            return n.get("name")
    return None


def is_this(b):
    return b.get("kind") == "CXXThisExpr"


def is_var(name):
    return lambda b: b.get("kind") == "DeclRefExpr" and b.get("referencedDecl", {}).get("name") == name


def written_members(fn, target_pred):
    """members of the target object assigned in fn's body or ctor-initialisers; plus reseat flag"""
    ws = []; reseat = False
    for c in fn.get("inner", []) or []:
        if c.get("kind") == "CXXCtorInitializer" and "anyInit" in c:
            ws.append(c["anyInit"]["name"])
    for n in walk(fn):
        k = n.get("kind")
        if (k == "BinaryOperator" and n.get("opcode") == "=") or (k == "CXXOperatorCallExpr"):
            kids = n.get("inner", [])
            if k == "CXXOperatorCallExpr":
                # inner[0] is the callee (operator=); operands follow
                callee = kids[0] if kids else {}
                isassign = any(x.get("kind") == "DeclRefExpr" and x.get("referencedDecl", {}).get("name") == "operator=" for x in walk(callee))
                if not isassign or len(kids) < 3:
                    continue
                lhs, rhs = kids[1], kids[2]
            else:
                if len(kids) < 2:
                    continue
                lhs, rhs = kids[0], kids[1]
            m = member_of(lhs, target_pred)
            if m:
                ws.append(m)
                if m == "centerVec" and member_of(rhs, target_pred) == "localCenter":
                    reseat = True
    # a for-loop "dims[n] = other.dims[n]" with a bound: record the bound for array members
    return ws, reseat


def eval_int(n):
    """integer constant expression (literals, + - *, casts, parens) or None"""
    k = n.get("kind")
    if k == "IntegerLiteral":
        return int(n["value"])
    if k in ("ImplicitCastExpr", "ParenExpr", "ConstantExpr") and n.get("inner"):
        return eval_int(n["inner"][0])
    if k == "BinaryOperator" and n.get("opcode") in ("+", "-", "*"):
        a, b = eval_int(n["inner"][0]), eval_int(n["inner"][1])
        if a is None or b is None:
            return None
        return a + b if n["opcode"] == "+" else a - b if n["opcode"] == "-" else a * b
    return None


def loop_bounds(fn, target_pred):
    """for (n=0; n<K; n++) x[n] = ... : map member -> K (how many elements are copied)"""
    out = {}
    for n in walk(fn):
        if n.get("kind") == "ForStmt":
            bound = None
            cond = n["inner"][2] if len(n.get("inner", [])) > 2 and n["inner"][2] else {}
            if cond.get("kind") == "BinaryOperator" and cond.get("opcode") in ("<", "<="):
                bound = eval_int(cond["inner"][1])
                if bound is not None and cond["opcode"] == "<=":
                    bound += 1
            body = n["inner"][-1]
            for y in walk(body):
                if y.get("kind") == "BinaryOperator" and y.get("opcode") == "=":
                    lhs = y["inner"][0]
                    if lhs.get("kind") == "ArraySubscriptExpr":
                        m = member_of(lhs, target_pred)
                        idx_lit = eval_int(lhs["inner"][1]) is not None
                        if m and not idx_lit and bound is not None:
                            out[m] = max(out.get(m, 0), bound)
    return out


def literal_index_writes(fn, target_pred):
    """x[3] = ... with literal index: member -> set of indices"""
    out = {}
    for y in walk(fn):
        if y.get("kind") == "BinaryOperator" and y.get("opcode") == "=":
            lhs = y["inner"][0]
            if lhs.get("kind") == "ArraySubscriptExpr":
                m = member_of(lhs, target_pred)
                v = eval_int(lhs["inner"][1])
                if m and v is not None:
                    out.setdefault(m, set()).add(v)
    return out


def contains_return(n):
    return any(x.get("kind") == "ReturnStmt" for x in walk(n))


def unconditional_prefix(fn):
    """a pseudo function node holding only the top-level statements of fn's body that every call executes: those before the
    first top-level statement that branches AND can return (an early exit makes everything after it conditional);
    branching statements themselves are left out (their writes are conditional)"""
    body = None
    for c in fn.get("inner", []):
        if c.get("kind") == "CompoundStmt":
            body = c
    if body is None:
        return {"inner": []}
    keep = []
    for st in body.get("inner", []):
        k = st.get("kind")
        branching = k in ("IfStmt", "ForStmt", "WhileStmt", "DoStmt", "SwitchStmt", "CXXForRangeStmt", "ConditionalOperator")
        if branching:
            if contains_return(st):
                break
            continue
        if k == "ReturnStmt":
            break
        keep.append(st)
    return {"kind": "CXXMethodDecl", "inner": [{"kind": "CompoundStmt", "inner": keep}]}


def has_body(fn):
    return any(c.get("kind") == "CompoundStmt" for c in fn.get("inner", []) or [])


def describe_class(rec, extra_fns=()):
    fields = []
    for c in rec.get("inner", []):
        if c.get("kind") == "FieldDecl":
            t = c["type"]["qualType"]
            n = None
            if "[" in t:
                n = int(t[t.index("[") + 1:t.index("]")])
            fields.append({"name": c["name"], "type": t, "array": n})
    d = {"fields": fields}
    name = rec["name"]
    cands = list(rec.get("inner", []))
    # out-of-line definitions replace the in-class declarations without a body
    for fn in extra_fns:
        cands = [c for c in cands if not (c.get("kind") == fn.get("kind") and c.get("name") == fn.get("name")
                                          and c.get("type", {}).get("qualType") == fn.get("type", {}).get("qualType") and not has_body(c))]
        cands.append(fn)
    for c in cands:
        k = c.get("kind")
        qt = c.get("type", {}).get("qualType", "")
        if k == "CXXConstructorDecl" and ("const %s" % name in qt or "const libecpint::%s" % name in qt or ("const " in qt and name + "<" in qt)) and "&" in qt and "," not in qt:
            if c.get("isImplicit"):
                d["copy_ctor"] = {"implicit": True}
            else:
                ws, rs = written_members(c, is_this)
                d["copy_ctor"] = {"implicit": False, "writes": sorted(set(ws)), "reseats": rs,
                                  "loops": loop_bounds(c, is_this), "lits": {k2: sorted(v) for k2, v in literal_index_writes(c, is_this).items()}}
        if k == "CXXMethodDecl" and c.get("name") == "operator=" and "const" in qt and "&&" not in qt:
            if c.get("isImplicit"):
                d["assign"] = {"implicit": True}
            else:
                ws, rs = written_members(c, is_this)
                u = unconditional_prefix(c)
                uws, _ = written_members(u, is_this)
                d["assign"] = {"implicit": False, "writes": sorted(set(ws)), "reseats": rs,
                               "loops": loop_bounds(c, is_this), "lits": {k2: sorted(v) for k2, v in literal_index_writes(c, is_this).items()},
                               "uncond_writes": sorted(set(uws)), "uncond_loops": loop_bounds(u, is_this),
                               "uncond_lits": {k2: sorted(v) for k2, v in literal_index_writes(u, is_this).items()}}
        if k == "CXXMethodDecl" and c.get("name") == "copy":
            # members of the local `result` that are written; the constructor call initialises centerVec, l
            ws, rs = written_members(c, is_var("result"))
            ctor_args = []
            for n in walk(c):
                if n.get("kind") == "VarDecl" and n.get("name") == "result":
                    for x in walk(n):
                        m = member_of(x, is_this) if x.get("kind") in ("MemberExpr", "ImplicitCastExpr") else None
                        if m:
                            ctor_args.append(m)
            d["copy_method"] = {"writes": sorted(set(ws)), "reseats": rs, "ctor_args": sorted(set(ctor_args))}
    if "assign" not in d:
        d["assign"] = {"implicit": True, "note": "not declared"}
    if "copy_ctor" not in d:
        d["copy_ctor"] = {"implicit": True, "note": "not declared"}
    return d


def extract(inc_dirs):
    tmp = tempfile.mkdtemp(prefix="tcopy-")
    try:
        tu = os.path.join(tmp, "tu.cpp"); open(tu, "w").write(TU)
        out = {}
        for cls in CLASSES:
            cmd = ["clang++", "-std=c++17", "-fsyntax-only"] + ["-I" + d for d in inc_dirs] + \
                  ["-Xclang", "-ast-dump=json", "-Xclang", "-ast-dump-filter=" + cls, tu]
            p = subprocess.run(cmd, stdout=subprocess.PIPE, stderr=subprocess.PIPE)
            objs = load_objs(p.stdout.decode())
            recs = []
            for o in objs:
                for n in walk(o):
                    if n.get("kind") in ("CXXRecordDecl", "ClassTemplateSpecializationDecl") and n.get("name") == cls and n.get("completeDefinition"):
                        recs.append(n)
            # prefer the instantiated specialisation (bodies present, implicit members declared)
            spec = [r for r in recs if r.get("kind") == "ClassTemplateSpecializationDecl"]
            rec = (spec or recs)[0] if (spec or recs) else None
            if rec is None:
                out[cls] = {"error": "class not found", "stderr": p.stderr.decode()[-500:]}
                continue
            extra = [o for o in objs if o.get("kind") in ("CXXConstructorDecl", "CXXMethodDecl") and has_body(o)
                     and o.get("name") in (cls, "operator=", "copy")]
            out[cls] = describe_class(rec, extra)
        return out
    finally:
        import shutil
        shutil.rmtree(tmp, ignore_errors=True)


if __name__ == "__main__":
    import glob
    R = sorted(glob.glob("/verif/.cache/*-rel"))[0]
    d = extract([R + "/src/include/libecpint", R + "/b/include/libecpint", R + "/src/src/lib"])
    print(json.dumps(d, indent=1))


# ---------------------------------------------------------------- inventory of every class of the library (fields + which copy operations are user-declared)
INV_TU = r'''
#include "api.hpp"
#include "ecpint.hpp"
#include "gaussquad.hpp"
#include "bessel.hpp"
#include "angular.hpp"
#include "radial.hpp"
#include "gshell.hpp"
#include "ecp.hpp"
#include "multiarr.hpp"
using namespace libecpint;
'''

ARITH = {"bool", "char", "signed char", "unsigned char", "short", "unsigned short", "int", "unsigned int", "unsigned", "long", "unsigned long",
         "long long", "unsigned long long", "float", "double", "long double", "size_t", "std::size_t"}


def split_targs(s):
    """split 'a, b<c, d>, e' at top-level commas"""
    out = []; depth = 0; cur = ""
    for ch in s:
        if ch == "<":
            depth += 1
        elif ch == ">":
            depth -= 1
        if ch == "," and depth == 0:
            out.append(cur.strip()); cur = ""
        else:
            cur += ch
    if cur.strip():
        out.append(cur.strip())
    return out


def parse_type(t, enums, classes, tparams=()):
    """C++ type string -> Coq term of CopySem/ClassInv.ty (tokenisation only)"""
    import re
    t = t.strip()
    t = re.sub(r"\bconst\b", "", t).strip()
    t = re.sub(r"\b(struct|class|enum)\s+", "", t).strip()
    if t.endswith("&"):
        return "(TRef %s)" % parse_type(t[:-1], enums, classes, tparams)
    if t.endswith("*"):
        return "(TPtr %s)" % parse_type(t[:-1], enums, classes, tparams)
    m = re.fullmatch(r"(.*?)\s*\[\s*\d*\s*\]((?:\s*\[\s*\d*\s*\])*)", t)
    if m:
        return "(TSeq %s)" % parse_type(m.group(1) + m.group(2), enums, classes, tparams)
    m = re.fullmatch(r"([\w:]+)\s*<(.*)>", t, flags=re.S)
    if m:
        head = m.group(1).replace("std::__cxx11::", "std::").replace("std::__1::", "std::")
        if not head.startswith("std::") and head.split("::")[-1] not in classes:
            head = "std::" + head if head in ("vector", "array", "map", "shared_ptr", "unique_ptr", "list", "deque", "function", "pair", "set", "unordered_map") else head
        args = split_targs(m.group(2))
        if head in ("std::vector", "std::list", "std::deque", "std::set"):
            return "(TSeq %s)" % parse_type(args[0], enums, classes, tparams)
        if head == "std::array":
            return "(TSeq %s)" % parse_type(args[0], enums, classes, tparams)
        if head in ("std::map", "std::unordered_map", "std::pair"):
            return "(TMap %s %s)" % (parse_type(args[0], enums, classes, tparams), parse_type(args[1], enums, classes, tparams))
        if head == "std::shared_ptr":
            return "(TShared %s)" % parse_type(args[0], enums, classes, tparams)
        if head == "std::unique_ptr":
            return "(TUnique %s)" % parse_type(args[0], enums, classes, tparams)
        if head == "std::basic_string":
            return '(TStd "std::string")'
        base = head.split("::")[-1]
        if base in classes:
            return '(TNamed "%s")' % base
        return '(TOther "%s")' % t.replace('"', "'")
    base = t.split("::")[-1]
    if t in ARITH or base in ARITH or t in tparams:
        return "TArith"
    if base in enums:
        return "TArith"
    if t in ("std::string", "string"):
        return '(TStd "std::string")'
    if base in classes:
        return '(TNamed "%s")' % base
    return '(TOther "%s")' % t.replace('"', "'")


def inventory(inc_dirs):
    """[{name, fields:[(name, type string)], user_cctor, user_cassign}] for every class/struct/class template defined in namespace libecpint"""
    tmp = tempfile.mkdtemp(prefix="tcopy-inv-")
    try:
        tu = os.path.join(tmp, "inv.cpp"); open(tu, "w").write(INV_TU)
        cmd = ["clang++", "-std=c++17", "-fsyntax-only"] + ["-I" + d for d in inc_dirs] + ["-Xclang", "-ast-dump=json", "-Xclang", "-ast-dump-filter=libecpint::", tu]
        p = subprocess.run(cmd, stdout=subprocess.PIPE, stderr=subprocess.PIPE)
        objs = load_objs(p.stdout.decode())
        recs = {}; enums = set()
        for o in objs:
            k = o.get("kind")
            if k == "EnumDecl" and o.get("name"):
                enums.add(o["name"])
            rec = None; tparams = ()
            if k == "CXXRecordDecl" and o.get("completeDefinition"):
                rec = o
            elif k == "ClassTemplateDecl":
                rr = [c for c in o.get("inner", []) if c.get("kind") == "CXXRecordDecl" and c.get("completeDefinition")]
                rec = rr[0] if rr else None
                tparams = tuple(c.get("name") for c in o.get("inner", []) if c.get("kind") == "TemplateTypeParmDecl")
            if rec is None or not rec.get("name"):
                continue
            name = rec["name"]
            fields = [(c["name"], c["type"].get("desugaredQualType", c["type"]["qualType"])) for c in rec.get("inner", []) if c.get("kind") == "FieldDecl"]
            def is_copy_sig(qt):
                return ("const " in qt) and ("&" in qt) and ("&&" not in qt) and ("," not in qt.split("(", 1)[-1]) and (name in qt.split("(", 1)[-1])
            ucc = any(c.get("kind") == "CXXConstructorDecl" and not c.get("isImplicit") and is_copy_sig(c.get("type", {}).get("qualType", "")) for c in rec.get("inner", []))
            uca = any(c.get("kind") == "CXXMethodDecl" and c.get("name") == "operator=" and not c.get("isImplicit") and is_copy_sig(c.get("type", {}).get("qualType", ""))
                      and "= delete" not in str(c.get("explicitlyDeleted", "")) for c in rec.get("inner", []))
            if name not in recs or len(fields) > len(recs[name]["fields"]):
                recs[name] = {"name": name, "fields": fields, "user_cctor": ucc, "user_cassign": uca, "tparams": tparams}
        return [recs[k] for k in sorted(recs)], sorted(enums), p.stderr.decode()[-400:]
    finally:
        import shutil
        shutil.rmtree(tmp, ignore_errors=True)


def emit_inventory(inv, enums, path):
    classes = set(c["name"] for c in inv)
    L = ["(* generated by translators/t_copy.py (inventory) from clang's AST of the working tree - do not edit *)",
         "From Coq Require Import List String Bool.", "From LV Require Import CopySem.ClassInv.", "Import ListNotations.", "Local Open Scope string_scope.", "",
         "Definition classes_from_source : list cls := ["]
    rows = []
    for c in inv:
        fs = "; ".join('("%s", %s)' % (n, parse_type(t, enums, classes, c.get("tparams", ()))) for n, t in c["fields"])
        rows.append('  mkCls "%s" [%s] %s %s' % (c["name"], fs, "true" if c["user_cctor"] else "false", "true" if c["user_cassign"] else "false"))
    L.append(";\n".join(rows))
    L.append("].")
    open(path, "w").write("\n".join(L) + "\n")
