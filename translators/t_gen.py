"""T-gen: reads the output of the generator built from the working tree (b/src/generated/*.cpp):
per class the A/B radial-triple lists, nbase, array dimensions, and either the unrolled source lines
or the rolled_up call; and the QGEN function-pointer table.  Tokenisation only."""
import os, re, glob

TERM = re.compile(r"values\((\d+), (\d+), (\d+)\) \+= ([-+0-9.eE]+) \* CA\(0, (\d+), (\d+), (\d+), (\d+)\) \* CB\(0, (\d+), (\d+), (\d+), (\d+)\) \* radials\((\d+), (\d+), (\d+)\) \* SA\((\d+), (\d+)\) \* SB\((\d+), (\d+)\);")


def parse_q(path):
    s = open(path).read()
    m = re.search(r"void Q(\d+)_(\d+)_(\d+)\(", s)
    LA, LB, lam = (int(x) for x in m.groups())
    def tl(name):
        mm = re.search(r"std::vector<Triple> %s = \{(.*?)\};" % name, s, re.S)
        return [tuple(int(x) for x in t) for t in re.findall(r"Triple\{(\d+), (\d+), (\d+)\}", mm.group(1))] if mm else None
    A = tl("radial_triples_A"); B = tl("radial_triples_B")
    dims = re.search(r"ThreeIndex<double> radials\((\d+), (\d+), (\d+)\);", s)
    dimsB = re.search(r"ThreeIndex<double> radials_B\((\d+), (\d+), (\d+)\);", s)
    cA = re.search(r"radint\.type2\(radial_triples_A, (-?\d+), (\d+), U, shellA, shellB, Am, Bm, radials\);", s)
    cB = re.search(r"radint\.type2\(radial_triples_B, (-?\d+), (\d+), U, shellB, shellA, Bm, Am, radials_B\);", s)
    copy_back = "radials(std::get<0>(t), std::get<2>(t), std::get<1>(t)) = radials_B(std::get<0>(t), std::get<1>(t), std::get<2>(t));" in s
    ru = re.search(r"rolled_up\((\d+), (\d+), (\d+), radials, CA, CB, SA, SB, angint, values\);", s)
    terms = []
    for t in TERM.finditer(s):
        g = t.groups()
        terms.append(tuple([int(g[0]), int(g[1]), int(g[2]), g[3]] + [int(x) for x in g[4:]]))
    nlines_values = len(re.findall(r"^\s*values\(", s, re.M))
    return {"LA": LA, "LB": LB, "lam": lam, "A": A, "B": B, "dims": [int(x) for x in dims.groups()] if dims else None,
            "dimsB": [int(x) for x in dimsB.groups()] if dimsB else None,
            "callA": [int(x) for x in cA.groups()] if cA else None, "callB": [int(x) for x in cB.groups()] if cB else None,
            "copy_back": copy_back, "rolled": [int(x) for x in ru.groups()] if ru else None, "terms": terms, "unparsed_value_lines": nlines_values - len(terms)}


def parse_table(path):
    s = open(path).read()
    body = s[s.index("QGEN["):]
    names = re.findall(r"qgen::Q(\d+)_(\d+)_(\d+)", body)
    return [tuple(int(x) for x in n) for n in names]


def extract(gen_dir):
    classes = {}
    for f in sorted(glob.glob(os.path.join(gen_dir, "Q*.cpp"))):
        c = parse_q(f)
        classes[(c["LA"], c["LB"], c["lam"])] = c
    table = parse_table(os.path.join(gen_dir, "ecpint_gen.cpp"))
    return {"classes": classes, "table": table}


def render(d, maxl, path, radial_maxidx):
    """text for the model driver"""
    with open(path, "w") as f:
        f.write("maxl %d\n" % maxl)
        f.write("table %s\n" % " ".join("%d,%d,%d" % t for t in d["table"]))
        f.write("radial_maxidx %s\n" % " ".join("%d:%d" % kv for kv in sorted(radial_maxidx.items())))
        for key in sorted(d["classes"]):
            c = d["classes"][key]
            f.write("class %d %d %d\n" % key)
            f.write("A %s\n" % " ".join("%d,%d,%d" % t for t in (c["A"] or [])))
            f.write("B %s\n" % " ".join("%d,%d,%d" % t for t in (c["B"] or [])))
            f.write("dims %s\n" % " ".join(str(x) for x in (c["dims"] or [])))
            f.write("dimsB %s\n" % " ".join(str(x) for x in (c["dimsB"] or [])))
            f.write("callA %s\n" % " ".join(str(x) for x in (c["callA"] or [])))
            f.write("callB %s\n" % " ".join(str(x) for x in (c["callB"] or [])))
            f.write("copyback %d\n" % (1 if c["copy_back"] else 0))
            f.write("rolled %s\n" % " ".join(str(x) for x in (c["rolled"] or [])))
            f.write("unparsed %d\n" % c["unparsed_value_lines"])
            for t in c["terms"]:
                f.write("t %s\n" % " ".join(str(x) for x in t))
            f.write("endclass\n")


if __name__ == "__main__":
    R = sorted(glob.glob("/verif/.cache/*-rel"))[-1]
    d = extract(R + "/b/src/generated")
    print(len(d["classes"]), len(d["table"]), sum(len(c["terms"]) for c in d["classes"].values()), [k for k, c in d["classes"].items() if c["unparsed_value_lines"]])
