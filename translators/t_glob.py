"""T-glob: lexical scan of the library sources for shared mutable state and who writes it.
Emits the footprint record of Race/RaceModel.v:
  * namespace-scope / static-local variables that are not const/constexpr, and `mutable` members;
  * for each function body (brace matched) the writes to those names and the calls it makes;
  * reachability from the constructor and from the const compute entry points;
  * a write inside the initialiser of a function-local static (C++11 thread-safe one-time
    initialisation) or inside std::call_once is counted as synchronised.
Tokenisation only; the TSan run (checks/c10.py) is the cross-check of this scan."""
import os, re, sys, glob

COMPUTE_ENTRIES = ["compute_shell_pair", "compute_shell_pair_derivative", "compute_shell_pair_second_derivative",
                   "left_shell_derivative", "left_shell_second_derivative", "mixed_second_derivative", "type1", "type2", "estimate_type2"]
CTOR_ENTRIES = ["ECPIntegral"]


def drop_hooks(s):
    """remove #ifdef LIBECPINT_VERIF ... [#else keep] #endif blocks: C10 is about the library without the hooks"""
    out = []; lines = s.split("\n"); i = 0; depth = 0; mode = []
    for ln in lines:
        t = ln.strip()
        if re.match(r"#\s*ifdef\s+LIBECPINT_VERIF\b", t):
            mode.append("drop"); out.append(""); continue
        if mode and re.match(r"#\s*if", t):
            mode.append("nested"); 
        elif mode and re.match(r"#\s*else", t) and mode[-1] in ("drop", "keep"):
            mode[-1] = "keep" if mode[-1] == "drop" else "drop"; out.append(""); continue
        elif mode and re.match(r"#\s*endif", t):
            m = mode.pop()
            if m in ("drop", "keep"):
                out.append(""); continue
        out.append("" if ("drop" in mode) else ln)
    return "\n".join(out)


def strip(s):
    s = drop_hooks(s)
    s = re.sub(r"/\*.*?\*/", lambda m: " " * len(m.group(0)), s, flags=re.S)
    s = re.sub(r"//[^\n]*", lambda m: " " * len(m.group(0)), s)
    s = re.sub(r'"(\\.|[^"\\])*"', lambda m: '"' + " " * (len(m.group(0)) - 2) + '"', s)
    return s


def match_brace(s, i):
    d = 0
    while i < len(s):
        if s[i] == "{":
            d += 1
        elif s[i] == "}":
            d -= 1
            if d == 0:
                return i
        i += 1
    return len(s) - 1


FUNC = re.compile(r"(?:^|[;}\n])\s*(?:template\s*<[^>]*>\s*)?((?:[\w:<>\*&~]+\s+)+?)?((?:\w+::)*~?\w+)\s*\(([^;{}]*)\)\s*(const)?\s*(?:noexcept)?\s*(?::[^{;]*)?\{", re.M)
KEYWORDS = {"if", "for", "while", "switch", "catch", "return", "sizeof", "else", "do"}


def functions(src):
    out = []
    for m in FUNC.finditer(src):
        name = m.group(2)
        simple = name.split("::")[-1]
        if simple in KEYWORDS:
            continue
        ob = m.end() - 1
        cb = match_brace(src, ob)
        out.append({"name": name, "simple": simple, "const": bool(m.group(4)), "body": src[ob:cb + 1], "start": ob})
    # keep outermost only (bodies nested inside another function are lambdas/blocks)
    out.sort(key=lambda f: f["start"])
    res = []; end = -1
    for f in out:
        if f["start"] > end:
            res.append(f); end = f["start"] + len(f["body"])
    return res


def namespace_level_text(src):
    """the source with everything inside non-namespace braces blanked out"""
    out = list(src); stack = []; i = 0
    while i < len(src):
        c = src[i]
        if c == "{":
            pre = src[max(0, i - 80):i]
            is_ns = re.search(r"namespace\s*\w*\s*$", pre) is not None or re.search(r'extern\s*"C"\s*$', pre) is not None
            stack.append(is_ns)
        elif c == "}":
            if stack:
                stack.pop()
        elif stack and not all(stack) and c != "\n":
            out[i] = " "
        i += 1
    return "".join(out)


def global_vars(src, funcs):
    """names of namespace-scope, non-const variable definitions"""
    top = namespace_level_text(src)
    names = []
    for m in re.finditer(r"^[ \t]*(?:extern\s+)?(static\s+)?((?:unsigned\s+|long\s+)*(?:double|int|float|bool|size_t|char|std::\w+(?:<[^;=]*>)?))\s+(\(?\*?\w+)\s*(\[[^\]]*\])?(\)\([^)]*\))?\s*(=|\{|;)", top, re.M):
        line_start = top.rfind("\n", 0, m.start()) + 1
        prefix = top[line_start:m.start() + len(m.group(0))]
        if re.search(r"\b(const|constexpr|typedef|using|return)\b", prefix):
            continue
        nm = m.group(3).lstrip("(*")
        names.append(nm)
    return names


def guarded_spans(body):
    spans = []
    for m in re.finditer(r"static\s+[^;{}]*=\s*\[[^\]]*\]\s*(?:\([^)]*\))?\s*(?:->\s*[\w:]+\s*)?\{", body):
        ob = m.end() - 1
        spans.append((ob, match_brace(body, ob)))
    for m in re.finditer(r"call_once\s*\(", body):
        ob = body.find("{", m.end())
        if ob >= 0:
            spans.append((ob, match_brace(body, ob)))
    return spans


def extract(srcroot, gen_dir=None):
    files = sorted(glob.glob(os.path.join(srcroot, "src/lib/*.cpp")) + glob.glob(os.path.join(srcroot, "include/libecpint/*.hpp")))
    if gen_dir:
        files += sorted(glob.glob(os.path.join(gen_dir, "*.cpp")))
    allf = []; gvars = set(); statics = []; mutables = []
    for p in files:
        src = strip(open(p, encoding="utf-8", errors="replace").read())
        fs = functions(src)
        for f in fs:
            f["file"] = os.path.relpath(p, srcroot) if p.startswith(srcroot) else os.path.basename(p)
        allf += fs
        for g in global_vars(src, fs):
            gvars.add(g)
        # `mutable` data members (every declarator of the declaration; synchronisation primitives are not data)
        for m in re.finditer(r"\bmutable\s+((?:[\w:]|<[^;{}]*>|\s|\*|&)+?)\s*\b(\w+(?:\s*(?:\[[^\]]*\]|=[^,;]*)?\s*,\s*\w+)*)\s*(?:\[[^\]]*\]|=[^;]*|\{[^;]*\})?\s*;", src):
            if re.search(r"\b(?:std::)?(?:mutex|recursive_mutex|shared_mutex|once_flag|atomic\w*|condition_variable)\b", m.group(1)):
                continue
            for nm in re.split(r"\s*,\s*", m.group(2)):
                mutables.append(re.match(r"\w+", nm).group(0))
    # static locals
    SYNC_TYPES = re.compile(r"\b(?:std::)?(?:mutex|recursive_mutex|shared_mutex|once_flag|atomic\w*|condition_variable)\b")
    objects = set()      # shared names of class type: a non-const member call on them may write
    for f in allf:
        for m in re.finditer(r"\bstatic\s+(?!const\b|constexpr\b)([\w:<>\s\*&]+?)\b(\w+)\s*(?:\[[^\]]*\])?\s*(=|;|\{|\()", f["body"]):
            if SYNC_TYPES.search(m.group(1)):
                continue                      # synchronisation primitives are not data
            statics.append((f["name"], m.group(2)))
            if not re.match(r"\s*(?:unsigned\s+|long\s+)*(?:double|int|float|bool|size_t|char)\s*$", m.group(1)):
                objects.add(m.group(2))
    shared = sorted(gvars | set(n for _, n in statics) | set(mutables))
    mutable_set = set(mutables)
    simple_names = set(f["simple"] for f in allf)
    # per function: writes, reads, calls
    for f in allf:
        body = f["body"]; spans = guarded_spans(body)
        f["writes"] = set(); f["gwrites"] = set(); f["reads"] = set()
        for g in shared:
            for m in re.finditer(r"\b%s\b\s*((?:\[[^\]]*\]\s*)*)(=(?!=)|\+=|-=|\*=|/=|\+\+|--)" % re.escape(g), body):
                if any(a <= m.start() <= b for a, b in spans):
                    f["gwrites"].add(g)
                else:
                    f["writes"].add(g)
            if g in objects:
                # a member call on a shared object of class type (its constness is not visible lexically): counted as a write
                for m in re.finditer(r"\b%s\b\s*(?:\.|->)\s*\w+\s*\(" % re.escape(g), body):
                    if any(a <= m.start() <= b for a, b in spans):
                        f["gwrites"].add(g)
                    else:
                        f["writes"].add(g)
            if g in mutable_set:
                # a `mutable` member exists to be written from const member functions: a member call on it, a call of it, its address or
                # its being handed to another function counts as a write (the callee's parameter constness is not visible lexically)
                for m in re.finditer(r"\b%s\b\s*(?:(?:\.|->)\s*\w+\s*\(|\()|&\s*\b%s\b|[(,]\s*\b%s\b\s*[,)]" % (re.escape(g), re.escape(g), re.escape(g)), body):
                    if any(a <= m.start() <= b for a, b in spans):
                        f["gwrites"].add(g)
                    else:
                        f["writes"].add(g)
            if re.search(r"\b%s\b" % re.escape(g), body):
                f["reads"].add(g)
        f["calls"] = set(c for c in re.findall(r"\b(\w+)\s*\(", body) if c in simple_names and c != f["simple"]) | \
                     set(c for c in re.findall(r"\b(\w+)\s*[\.\(]", body) if c in simple_names)
        if re.search(r"\bQGEN\s*\[", body):
            f["calls"] |= set(s for s in simple_names if re.match(r"Q\d+_\d+_\d+$", s)) | {"rolled_up", "rolled_up_special"}
    by = {}
    for f in allf:
        by.setdefault(f["simple"], []).append(f)

    def reach(entries):
        seen = set(); todo = list(entries)
        while todo:
            n = todo.pop()
            if n in seen:
                continue
            seen.add(n)
            for f in by.get(n, []):
                todo += list(f["calls"])
        return seen
    rc = reach(COMPUTE_ENTRIES); rk = reach(CTOR_ENTRIES)
    # member functions named like classes' init paths are constructor-side unless also on a compute path
    cw = set(); cr = set(); kw = set(); kr = set(); kg = set(); detail = []
    for f in allf:
        if f["simple"] in rc:
            for g in f["writes"] | f["gwrites"]:
                cw.add(g); detail.append(("compute-write", f["name"], g, f["file"]))
            cr |= f["reads"]
        if f["simple"] in rk and f["simple"] not in rc:
            for g in f["writes"]:
                kw.add(g); detail.append(("ctor-write", f["name"], g, f["file"]))
            for g in f["gwrites"]:
                kg.add(g); detail.append(("ctor-write-once-guarded", f["name"], g, f["file"]))
            kr |= f["reads"]
    # does a compute path write a member of the engine?  (non-const member function reachable from a compute entry)
    eng_w = [f["name"] for f in allf if f["simple"] in rc and not f["const"] and "::" in f["name"] and
             f["name"].split("::")[0] in ("ECPIntegral", "RadialIntegral", "AngularIntegral", "BesselFunction") and f["simple"] not in ("ECPIntegral",)]
    idx = {g: i for i, g in enumerate(shared)}
    return {"shared": shared, "ctor_global_writes": sorted(idx[g] for g in kw), "ctor_global_reads": sorted(idx[g] for g in kr | kw),
            "compute_global_writes": sorted(idx[g] for g in cw), "compute_global_reads": sorted(idx[g] for g in cr),
            "compute_engine_writes": bool(eng_w), "engine_writers": eng_w[:10], "once_guarded": sorted(kg), "detail": detail[:40],
            "n_functions": len(allf), "n_files": len(files)}


def emit(d, path):
    def lst(l):
        return "[" + "; ".join(str(x) for x in l) + "]"
    with open(path, "w") as f:
        f.write("(* generated by translators/t_glob.py; shared mutable names: %s *)\n" % ", ".join("%d=%s" % (i, g) for i, g in enumerate(d["shared"])))
        f.write("From Coq Require Import List.\nImport ListNotations.\nFrom LV Require Import Race.RaceModel.\n")
        f.write("Definition fp_from_source : footprint := mkFp %s %s %s %s %s.\n" % (
            lst(d["ctor_global_writes"]), lst(d["ctor_global_reads"]), lst(d["compute_global_writes"]), lst(d["compute_global_reads"]),
            "true" if d["compute_engine_writes"] else "false"))


if __name__ == "__main__":
    import json
    R = sorted(glob.glob("/verif/.cache/*-rel"))[-1]
    d = extract(R + "/src", R + "/b/src/generated")
    print(json.dumps(d, indent=1))
