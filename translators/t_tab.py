"""T-tab: reads the small constant tables and index macros of the library from the working tree and emits
coq/gen/Tables.v.  Tokenisation and re-printing only:

  include/libecpint/ecpint.hpp    #define N_INDEX(l, m)  <int expr>
  include/libecpint/api.hpp       #define H_START(i, j, N)  <int expr>
  src/lib/api.cpp                 int ixes[6], back_ixes[6], jxes[9]
  src/lib/ecpint.cpp              int jaas[9], jbbs[9]
  include/libecpint/mathutil.hpp  const double GAMMA[30] = {...}; FAST_POW[23] initialiser (names, in order)
  src/lib/mathutil.cpp            double pow_<k>(const double z) { [double v = e;]* return e; }

C integer expressions are re-printed over Z with `/` as Z.quot (C truncation); double expressions over R.
What the tables MEAN is stated in Gallina (Base/Tables.v and the models); the per-run obligations (Obl_Tab.v)
prove the re-printed source equal to that meaning.  Anything the tokeniser does not recognise is emitted as an
`unparsed` entry, which makes the obligation `no_unparsed` fail."""
import re, os


def strip_comments(s):
    s = re.sub(r"/\*.*?\*/", "", s, flags=re.S)
    return re.sub(r"//[^\n]*", "", s)


# ---------------------------------------------------------------- expression parser (C subset: + - * / unary -, ids, numbers, parens)
TOK = re.compile(r"\s*(?:(\d+\.\d*(?:[eE][-+]?\d+)?|\.\d+(?:[eE][-+]?\d+)?|\d+[eE][-+]?\d+|\d+)|([A-Za-z_]\w*)|(.))")


class ParseError(Exception):
    pass


def tokenize(s):
    out = []
    i = 0
    s = s.strip()
    while i < len(s):
        m = TOK.match(s, i)
        if not m:
            raise ParseError("bad token at %r" % s[i:i + 10])
        if m.group(1):
            out.append(("num", m.group(1)))
        elif m.group(2):
            out.append(("id", m.group(2)))
        else:
            if m.group(3) not in "+-*/()":
                raise ParseError("unexpected %r" % m.group(3))
            out.append((m.group(3), m.group(3)))
        i = m.end()
    return out


def parse_expr(s):
    toks = tokenize(s)
    pos = [0]

    def peek():
        return toks[pos[0]][0] if pos[0] < len(toks) else None

    def eat(k=None):
        t = toks[pos[0]]
        if k and t[0] != k:
            raise ParseError("expected %s got %s" % (k, t))
        pos[0] += 1
        return t

    def atom():
        k = peek()
        if k == "num":
            return ("num", eat()[1])
        if k == "id":
            return ("id", eat()[1])
        if k == "(":
            eat()
            e = add()
            eat(")")
            return e
        if k == "-":
            eat()
            return ("neg", atom())
        if k == "+":
            eat()
            return atom()
        raise ParseError("unexpected %r" % (k,))

    def mul():
        e = atom()
        while peek() in ("*", "/"):
            op = eat()[0]
            e = (op, e, atom())
        return e

    def add():
        e = mul()
        while peek() in ("+", "-"):
            op = eat()[0]
            e = (op, e, mul())
        return e

    e = add()
    if pos[0] != len(toks):
        raise ParseError("trailing tokens")
    return e


def dec_to_q(s):
    """decimal literal -> (numerator, denominator) exactly"""
    m = re.fullmatch(r"(\d*)\.?(\d*)(?:[eE]([-+]?\d+))?", s)
    if not m:
        raise ParseError("bad number %r" % s)
    ip, fp, ex = m.group(1) or "0", m.group(2) or "", int(m.group(3) or 0)
    num = int(ip + fp)
    den = 10 ** len(fp)
    if ex >= 0:
        num *= 10 ** ex
    else:
        den *= 10 ** (-ex)
    from math import gcd
    g = gcd(num, den) or 1
    return num // g, den // g


def emit_z(e):
    k = e[0]
    if k == "num":
        if not re.fullmatch(r"\d+", e[1]):
            raise ParseError("non-integer literal in an integer macro")
        return "%s" % e[1]
    if k == "id":
        return e[1]
    if k == "neg":
        return "(Z.opp %s)" % emit_z(e[1])
    a, b = emit_z(e[1]), emit_z(e[2])
    return {"+": "(Z.add %s %s)", "-": "(Z.sub %s %s)", "*": "(Z.mul %s %s)", "/": "(Z.quot %s %s)"}[k] % (a, b)


def emit_r(e):
    k = e[0]
    if k == "num":
        n, d = dec_to_q(e[1])
        return "(IZR %d)" % n if d == 1 else "(IZR %d / IZR %d)" % (n, d)
    if k == "id":
        return e[1]
    if k == "neg":
        return "(Ropp %s)" % emit_r(e[1])
    a, b = emit_r(e[1]), emit_r(e[2])
    return {"+": "(Rplus %s %s)", "-": "(Rminus %s %s)", "*": "(Rmult %s %s)", "/": "(Rdiv %s %s)"}[k] % (a, b)


# ---------------------------------------------------------------- readers
def read_macro(text, name):
    m = re.search(r"#define\s+%s\s*\(([^)]*)\)[ \t]+([^\n]*)" % name, text)
    if not m:
        return None
    return [a.strip() for a in m.group(1).split(",")], m.group(2).strip()


def read_int_array(text, name):
    m = re.search(r"\bint\s+%s\s*\[\s*(\d+)\s*\]\s*=?\s*\{([^}]*)\}" % name, text)
    if not m:
        return None
    vals = [v.strip() for v in m.group(2).split(",") if v.strip()]
    if not all(re.fullmatch(r"-?\d+", v) for v in vals):
        return None
    return int(m.group(1)), [int(v) for v in vals]


def extract(repo):
    rd = lambda p: strip_comments(open(os.path.join(repo, p)).read())
    out = {"unparsed": []}
    ecpint_h, api_h = rd("include/libecpint/ecpint.hpp"), rd("include/libecpint/api.hpp")
    api_c, ecpint_c = rd("src/lib/api.cpp"), rd("src/lib/ecpint.cpp")
    mu_h, mu_c = rd("include/libecpint/mathutil.hpp"), rd("src/lib/mathutil.cpp")
    for key, text, name in (("nindex", ecpint_h, "N_INDEX"), ("hstart", api_h, "H_START")):
        mac = read_macro(text, name)
        if mac is None:
            out["unparsed"].append("macro %s not found" % name); out[key] = None
            continue
        try:
            out[key] = (mac[0], emit_z(parse_expr(mac[1])), mac[1])
        except ParseError as ex:
            out["unparsed"].append("macro %s: %s" % (name, ex)); out[key] = None
    for key, text in (("ixes", api_c), ("back_ixes", api_c), ("jxes", api_c), ("jaas", ecpint_c), ("jbbs", ecpint_c)):
        a = read_int_array(text, key)
        if a is None:
            out["unparsed"].append("int array %s not found / not literal" % key); out[key] = None
        else:
            out[key] = a
    # GAMMA
    m = re.search(r"const\s+double\s+GAMMA\s*\[\s*(\d+)\s*\]\s*=\s*\{([^}]*)\}", mu_h)
    if not m:
        out["unparsed"].append("GAMMA not found"); out["gamma"] = None
    else:
        vals = [v.strip() for v in m.group(2).split(",") if v.strip()]
        try:
            out["gamma"] = (int(m.group(1)), [dec_to_q(v) for v in vals], vals)
        except ParseError as ex:
            out["unparsed"].append("GAMMA: %s" % ex); out["gamma"] = None
    # FAST_POW initialiser
    m = re.search(r"FAST_POW\s*\[\s*(\d+)\s*\]\s*\)\s*\(\s*double\s*\)\s*\{([^}]*)\}", mu_h)
    if not m:
        out["unparsed"].append("FAST_POW initialiser not found"); out["fast_pow"] = None
    else:
        out["fast_pow"] = (int(m.group(1)), [v.strip() for v in m.group(2).split(",") if v.strip()])
    # pow_* bodies
    pows = {}
    for m in re.finditer(r"double\s+(pow_m?\d+)\s*\(\s*(?:const\s+)?double\s+(\w+)\s*\)\s*\{([^}]*)\}", mu_c):
        name, arg, body = m.group(1), m.group(2), m.group(3)
        stmts = [s.strip() for s in body.split(";") if s.strip()]
        try:
            lets = []
            ret = None
            for s in stmts:
                ml = re.fullmatch(r"(?:const\s+)?double\s+(\w+)\s*=\s*(.*)", s, flags=re.S)
                mr = re.fullmatch(r"return\s+(.*)", s, flags=re.S)
                if ml and ret is None:
                    lets.append((ml.group(1), emit_r(parse_expr(ml.group(2)))))
                elif mr and ret is None:
                    ret = emit_r(parse_expr(mr.group(1)))
                else:
                    raise ParseError("statement %r" % s)
            if ret is None:
                raise ParseError("no return")
            pows[name] = (arg, lets, ret)
        except ParseError as ex:
            out["unparsed"].append("%s: %s" % (name, ex))
    out["pows"] = pows
    return out


def coq_list(xs):
    return "[" + "; ".join(str(x) for x in xs) + "]"


def emit(t, path):
    L = ["(* generated by translators/t_tab.py from the working tree - do not edit *)",
         "From Coq Require Import ZArith List Reals String.", "Import ListNotations.", "Local Open Scope Z_scope.", ""]
    if t.get("nindex"):
        args, body, raw = t["nindex"]
        L.append("(* N_INDEX(%s) %s *)" % (", ".join(args), raw))
        L.append("Definition nindex_src (%s : Z) : Z := %s." % (" ".join(args), body))
    else:
        L.append("Definition nindex_src (l m : Z) : Z := -1.")
    if t.get("hstart"):
        args, body, raw = t["hstart"]
        L.append("(* H_START(%s) %s *)" % (", ".join(args), raw))
        L.append("Definition hstart_src (%s : Z) : Z := %s." % (" ".join(args), body))
    else:
        L.append("Definition hstart_src (i j N : Z) : Z := -1.")
    for k in ("ixes", "back_ixes", "jxes", "jaas", "jbbs"):
        a = t.get(k)
        if a:
            L.append("Definition %s_dim : Z := %d." % (k, a[0]))
            L.append("Definition %s_src : list Z := %s." % (k, coq_list(a[1])))
        else:
            L.append("Definition %s_dim : Z := -1." % k)
            L.append("Definition %s_src : list Z := []." % k)
    L.append("")
    L.append("Local Open Scope R_scope.")
    g = t.get("gamma")
    if g:
        L.append("Definition gamma_dim : Z := %d%%Z." % g[0])
        L.append("Definition gamma_src : list R := [" + "; ".join(("(IZR %d)" % n) if d == 1 else ("(IZR %d / IZR %d)" % (n, d)) for n, d in g[1]) + "].")
    else:
        L.append("Definition gamma_dim : Z := (-1)%Z.")
        L.append("Definition gamma_src : list R := [].")
    fp = t.get("fast_pow")
    pows = t.get("pows", {})
    for name in sorted(pows, key=lambda n: (len(n), n)):
        arg, lets, ret = pows[name]
        body = "".join("let %s := %s in " % (v, e) for v, e in lets) + ret
        L.append("Definition %s_src (%s : R) : R := %s." % (name, arg, body))
    if fp:
        L.append("Definition fast_pow_dim : Z := %d%%Z." % fp[0])
        known = [n for n in fp[1] if n in pows]
        if len(known) != len(fp[1]):
            t["unparsed"].append("FAST_POW names without a parsed body: %s" % [n for n in fp[1] if n not in pows])
        L.append("Definition fast_pow_src : list (R -> R) := [" + "; ".join("%s_src" % n for n in known) + "].")
        L.append("Definition fast_pow_names : list string := [" + "; ".join('"%s"%%string' % n for n in fp[1]) + "].")
    else:
        L.append("Definition fast_pow_dim : Z := (-1)%Z.")
        L.append("Definition fast_pow_src : list (R -> R) := [].")
        L.append("Definition fast_pow_names : list string := [].")
    L.append("Definition unparsed : list string := [" + "; ".join('"%s"%%string' % u.replace('"', "'") for u in t["unparsed"]) + "].")
    open(path, "w").write("\n".join(L) + "\n")


if __name__ == "__main__":
    import sys, json
    t = extract(sys.argv[1] if len(sys.argv) > 1 else "/repo")
    print(json.dumps({k: (v if k != "pows" else sorted(v)) for k, v in t.items()}, default=str, indent=1)[:3000])
